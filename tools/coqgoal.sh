#!/bin/bash
# usage: coqgoal.sh <file.v> <line>   -- show the proof state after <line> lines
f=$1; n=$2
d=$(dirname $f); b=$(basename $f .v)
head -n $n $f > $d/${b}_tmpgoal.v
echo "Show. Admitted." >> $d/${b}_tmpgoal.v
cd /verif/coq && coqc -Q . HecsV $d/${b}_tmpgoal.v 2>&1 | tail -${3:-60}
rm -f $d/${b}_tmpgoal.* $d/.${b}_tmpgoal.aux
