#!/usr/bin/env python3
"""decode a world-engine case into readable operations and show, per operation, the model's and the
implementation's observation (development aid and replay pretty-printer)"""
import sys, subprocess

STARTS = []

def dec(c):
    assert c[0] == 1
    n = c[1]; p = 2 + 3 * n
    ops = []
    def href():
        nonlocal p
        k, x = c[p], c[p + 1]; p += 2
        return ("#%d" % x) if k == 0 else ("bits:%d.%d" % (x & 0xFFFFFFFF, x >> 32))
    def bundle():
        nonlocal p
        kind, m = c[p], c[p + 1]; p += 2
        items = [(c[p + 2 * i], c[p + 2 * i + 1]) for i in range(m)]; p += 2 * m
        return ("T" if kind == 0 else "D%d" % kind if kind >= 10 else "B") + str(items)
    def types():
        nonlocal p
        k = c[p]; ts = c[p + 1:p + 1 + k]; p += 1 + k
        return ts
    STARTS.clear()
    while p < len(c):
        STARTS.append(p)
        o = c[p]
        if 100 <= o <= 116:
            p += 1
            def take(n):
                nonlocal p
                xs = c[p:p + n]; p += n; return xs
            def astt():
                n = take(1)[0]; return take(n)
            if o in (100, 104, 105): a = take(2); ops.append("g%d w%d q#%d %s" % (o, a[0], a[1], astt()))
            elif o in (101, 103, 107, 109, 112, 116): ops.append("g%d slot %s" % (o, take(1)))
            elif o in (102, 110): a = take(4); ops.append("g%d slot=%d kind=%d r=%d newq=%d %s" % (o, a[0], a[1], a[2], a[3], astt()))
            elif o == 106: wv = take(1); hh = href(); a = take(2); ops.append("gref w%s %s t=%d uniq=%d" % (wv, hh, a[0], a[1]))
            elif o == 108: wv = take(1); hh = href(); qi = take(1); ops.append("gone w%s %s q#%s %s" % (wv, hh, qi, astt()))
            elif o == 111: ops.append("gcol %s" % take(4))
            elif o == 113: ops.append("static %s %s" % (take(1), astt()))
            elif o == 114: ops.append("cells")
            elif o == 115: ops.append("drop_all")
            continue
        if o == 23:
            p += 1; ops.append("caps"); continue
        if 50 <= o <= 86 or o == 22:
            p += 1
            def take(n):
                nonlocal p
                xs = c[p:p + n]; p += n; return xs
            if o == 22: ops.append("drop_containers")
            elif o in (50, 60): ops.append("%s_add %s" % ("eb" if o == 50 else "ebc", take(3)))
            elif o in (52, 61, 55, 56, 57, 66, 68, 74, 85, 86): ops.append("op%d %s" % (o, take(1)))
            elif o in (53, 62, 63, 64, 65, 67, 72, 84): ops.append("op%d %s" % (o, take(2)))
            elif o == 54: ops.append("eb_insert %s %s" % (take(2), href()))
            elif o == 70:
                sl = take(1); ts = types(); ops.append("cb_new %s %s n=%s" % (sl, ts, take(1)))
            elif o == 71:
                a = take(3); ops.append("cb_push slot=%d t=%d %s" % (a[0], a[1], take(a[2])))
            elif o == 80: ops.append("cmd_spawn %s %s" % (take(1), bundle()))
            elif o == 81: ops.append("cmd_insert %s %s %s" % (take(1), href(), bundle()))
            elif o == 82: ops.append("cmd_remove %s %s %s" % (take(1), href(), types()))
            elif o == 83: ops.append("cmd_despawn %s %s" % (take(1), href()))
            continue
        w = c[p + 1]; p += 2
        if o == 1: ops.append("spawn w%d %s" % (w, bundle()))
        elif o == 2: ops.append("spawn_at w%d %s %s" % (w, href(), bundle()))
        elif o == 3: ops.append("insert w%d %s %s" % (w, href(), bundle()))
        elif o == 4: ops.append("remove w%d %s %s" % (w, href(), types()))
        elif o == 5: ops.append("exchange w%d %s %s %s" % (w, href(), types(), bundle()))
        elif o in (24, 25):
            hh = href(); kind = c[p]; p += 1
            ops.append("%s<derived %d> w%d %s %s %s" % ("remove" if o == 24 else "exchange", kind, w, hh, types(), bundle() if o == 25 else ""))
        elif o == 6: ops.append("despawn w%d %s" % (w, href()))
        elif o == 7: ops.append("take_drop w%d %s" % (w, href()))
        elif o == 8: ops.append("take_into w%d %s" % (w, href()))
        elif o == 9: ops.append("clear w%d" % w)
        elif o == 10: ops.append("reserve_entity w%d" % w)
        elif o == 11: ops.append("reserve_entities w%d %d" % (w, c[p])); p += 1
        elif o == 12: ops.append("flush w%d" % w)
        elif o == 13:
            ts = types(); ops.append("reserve<%s> w%d %d" % (ts, w, c[p])); p += 1
        elif o in (14, 15, 17, 18, 19):
            if o >= 18:
                p += 1
            ts = types(); n = c[p]; p += 1
            vals = c[p:p + n * len(ts)]; p += n * len(ts)
            ops.append("%s w%d %s n=%d %s" % ({14: "spawn_batch", 15: "column_batch", 17: "extend", 18: "spawn_batch_partial", 19: "column_batch_partial"}[o], w, ts, n, vals))
        elif o == 16:
            ts = types(); n = c[p]; p += 1
            hs = [href() for _ in range(n)]
            vals = c[p:p + n * len(ts)]; p += n * len(ts)
            ops.append("column_batch_at w%d %s %s %s" % (w, ts, hs, vals))
        elif o == 90:
            a = c[p:p + 3]; p += 3
            n = c[p]; p += 1; ast = c[p:p + n]; p += n
            nm = c[p]; p += 1; muts = c[p:p + 3 * nm]; p += 3 * nm
            ops.append("serde w%d fmt=%d reader=%d q#%d muts=%s" % (w, a[0], a[1], a[2], muts))
        elif o == 30:
            qi, path, arg, n = c[p], c[p + 1], c[p + 2], c[p + 3]; p += 4
            ast = c[p:p + n]; p += n
            ops.append("query w%d q#%d path=%d arg=%d ast=%s" % (w, qi, path, arg, ast))
        elif o == 20:
            ops.append("probe " + " ".join(href() for _ in range(w)))
        elif o == 21: ops.append("drop_world w%d" % w)
        else: ops.append("?? %d" % o)
    return ops

def split(obs):
    out, p = [], 0
    while p < len(obs):
        n = int(obs[p]); out.append(obs[p + 1:p + 1 + n]); p += 1 + n
    return out

if __name__ == "__main__":
    line = open(sys.argv[1]).read().splitlines()[int(sys.argv[2])] if len(sys.argv) > 2 else sys.stdin.readline()
    c = [int(x) for x in line.split()]
    open('/verif/.build/one.txt', 'w').write(line + "\n")
    a = subprocess.run(['/verif/.build/target/debug/hv', 'run', '/verif/.build/one.txt'], capture_output=True, text=True, timeout=120).stdout.strip()
    b = subprocess.run(['/verif/.build/runner/runner'], stdin=open('/verif/.build/one.txt'), capture_output=True, text=True, timeout=120).stdout.strip()
    obs, _, orc = a.partition(' ! ')
    ia, ib = split(obs.split()), split(b.split())
    for i, o in enumerate(dec(c)):
        x = ia[i] if i < len(ia) else None; y = ib[i] if i < len(ib) else None
        mark = "  " if x == y else "!!"
        if o.startswith("probe") and x == y:
            print(mark, i, o, "(agree, %d numbers)" % len(x))
        else:
            print(mark, i, o); print("      impl ", " ".join(x or [])[:1500]); 
            if x != y: print("      model", " ".join(y or [])[:1500])
    if orc: print("ORACLE:", orc)
