#!/usr/bin/env python3
"""build seeded/<id>/<X>/{patch.diff,demonstration.rs,notes.md,meta.json} and seeded/README.md from
seeded/_incoming (sub-agent output), seeded/_confirm.jsonl (my own confirmation runs in scratch worktrees)
and seeded/_matrix*.jsonl (which checks detect which change)"""
import json, os, re, shutil, glob
V = os.path.dirname(os.path.dirname(os.path.abspath(__file__)))
S = os.path.join(V, "seeded")
conf = {}
for l in open(os.path.join(S, "_confirm.jsonl")):
    d = json.loads(l); conf[d["m"]] = d
mat = {}
for f in [x for x in (os.path.join(S, "_matrix_final.jsonl"), os.path.join(S, "_matrix_r3.jsonl"), os.path.join(S, "_matrix_r4.jsonl"), os.path.join(S, "_matrix_r5.jsonl"), os.path.join(S, "_matrix_r6.jsonl"), os.path.join(S, "_matrix_r7.jsonl"), os.path.join(S, "_matrix_r7b.jsonl"), os.path.join(S, "_matrix_r8.jsonl"), os.path.join(S, "_matrix_r8b.jsonl"), os.path.join(S, "_matrix_r9.jsonl"), os.path.join(S, "_matrix_r9b.jsonl")) if os.path.exists(x)]:
    for l in open(f):
        d = json.loads(l)
        if "check" in d:
            mat.setdefault(d["m"], {})[d["check"]] = d["result"]
rows = []
INC = os.path.join(S, "_incoming")          # sub-agent output as delivered; absent once finalised
ids = sorted(os.listdir(INC)) if os.path.isdir(INC) else sorted(d for d in os.listdir(S) if re.fullmatch(r"C\d\d", d))
for pid in ids:
    for x in sorted(os.listdir(os.path.join(INC if os.path.isdir(INC) else S, pid))):
        m = "%s/%s" % (pid, x)
        dst = os.path.join(S, pid, x)
        if os.path.isdir(INC):
            src = os.path.join(INC, pid, x)
            os.makedirs(dst, exist_ok=True)
            shutil.copy(os.path.join(src, "patch.diff"), os.path.join(dst, "patch.diff"))
            shutil.copy(os.path.join(src, "demo.rs"), os.path.join(dst, "demonstration.rs"))
            if os.path.exists(os.path.join(src, "notes.md")):
                shutil.copy(os.path.join(src, "notes.md"), os.path.join(dst, "notes.md"))
        src = dst
        if os.path.exists(os.path.join(src, "notes.md")):
            title = [l.strip("# \n") for l in open(os.path.join(src, "notes.md")) if l.strip()][0]
        else:
            title = [l.strip("/!# \n") for l in open(os.path.join(src, "demonstration.rs")) if l.strip()][0]
        title = re.sub(r"^(Mutant )?C\d\d\s*/\s*(mutant )?[A-P]\s*[—:-]*\s*", "", title, flags=re.I)
        files = sorted({l[6:].strip() for l in open(os.path.join(src, "patch.diff")) if l.startswith("+++ b/")})
        c = conf.get(m, {})
        det = {}
        for chk, res in mat.get(m, {}).items():
            if res.startswith("OK") or (res.startswith("KNOWN-FINDING") and " OK property" in res):
                det[chk] = "not detected (check passes)"
            elif "VIOLATION" in res:
                how = "crash" if "crashed" in res else "oracle" if "oracle failed" in res else \
                      "correspondence" if "disagree" in res else "other"
                det[chk] = "detected (%s)%s: %s" % (how, " no-failing-input-found" if "no-failing-input-found" in res else "",
                                                  res.split(" VIOLATION")[0][:260])
            else:
                det[chk] = "inconclusive: " + res[:200]
        meta = {
            "property": pid, "label": x, "summary": title, "files_touched": files,
            "origin": "fresh sub-agent, round %d; it saw only the text of property %s and a scratch worktree of /repo "
                      "(never /verif)" % (1 if x in "AB" else 2 if x in "CD" else 3 if x in "EF" else 4 if x in "GH" else 5 if x in "IJ" else 6 if x in "KL" else 7 if x in "MN" else 8 if x == "O" else 9, pid),
            "confirmed_by_me": {
                "how": "tools/confirm_seeded.sh in a scratch git worktree outside /repo and /verif (removed afterwards)",
                "patch_applies_to_repo_head": c.get("applies"),
                "baseline_suite_with_patch(pass:fail incl. doctests)": c.get("baseline_pass_fail"),
                "demonstration_fails_with_patch": c.get("demo_with_patch_exit") not in (0, None),
                "demonstration_passes_on_clean_tree": c.get("demo_clean_exit") == 0,
                "failure_excerpt": (c.get("failure") or "").strip()[:300]},
            "demonstration": "copy demonstration.rs to tests/demo_%s_%s.rs of a hecs checkout; cargo test --offline --all-features --test demo_%s_%s"
                             % (pid, x, pid, x) + (" (RUSTFLAGS=\"--cfg hecs_verif\")" if m in ("C05/B", "C06/A", "C06/B") else "") + (" --release (the change only exists without debug assertions)" if m == "C06/N" else ""),
            "detection": det,
            "how_to_test": "git -C /repo apply /verif/seeded/%s/%s/patch.diff; tools/check %s; git -C /repo checkout -- ." % (pid, x, pid),
        }
        json.dump(meta, open(os.path.join(dst, "meta.json"), "w"), indent=1)
        own = det.get(pid, "not run")
        others = ", ".join("%s %s" % (k, "yes" if v.startswith("detected") else "no") for k, v in det.items() if k != pid)
        rows.append((m, title[:110], files, own.split(":")[0], others))
with open(os.path.join(S, "README.md"), "w") as w:
    w.write("# Seeded changes\n\nEach directory holds a change to Ralith/hecs that still compiles and passes the 88-test baseline but breaks "
            "the named property (patch.diff), a demonstration that fails with it and passes without (demonstration.rs), the author's "
            "notes, and meta.json with my own confirmation and the verdicts of the checks. None of them is ever committed to /repo.\n\n"
            "| change | what it does | own property's check | neighbouring checks |\n|---|---|---|---|\n")
    for m, t, f, own, others in rows:
        w.write("| %s | %s (`%s`) | %s | %s |\n" % (m, t.replace("|", "/"), ", ".join(f), own, others))
# ---- DESIGN.md section 10
D = os.path.join(V, "DESIGN.md")
d = open(D).read()
own_ok = sum(1 for r in rows if r[3].startswith("detected"))
tbl = ["| change | what it does | own check | other checks run on it |", "|---|---|---|---|"]
for m, t, f, own, others in rows:
    tbl.append("| %s | %s (`%s`) | %s | %s |" % (m, t.replace("|", "/"), ", ".join(x.replace("src/", "") for x in f), own, others))
missed = [r[0] for r in rows if not r[3].startswith("detected")]
NOTDET = ("Every seeded change is detected by its own property's check.\n" if not missed else
          "Not detected by their own property's check: %s (see the per-round notes in appendix C).\n" % ", ".join(missed))
NOTDET += ("**C13/G** (the bookkeeping resets of `Common::clear` moved behind the loop that drops the buffered components) was the one\n"
           "miss of rounds 1-6: it differs from the original only when a component's own `Drop` panics inside `clear()` and the\n"
           "panic is caught. Since round 7 every builder `clear` of the harness is made to unwind through a last zero-sized\n"
           "component whose destructor panics, and the change is detected.\n")
text = ("<!-- seeded:begin -->\n"
        "%d seeded changes are kept under `/verif/seeded/<property>/<A-P>/` (`patch.diff`, `demonstration.rs`, `notes.md`,\n"
        "`meta.json`). A and B come from a first round of fresh sub-agents, C/D, E/F, G/H, I/J, K/L and M/N from six further rounds and O and P from an eighth and a ninth (one change per property each) that\n"
        "were told which places the earlier rounds had used; each agent saw only the property's text and a scratch worktree of\n"
        "`/repo`, never `/verif`.\n"
        "I confirmed every one myself in a scratch worktree (`tools/confirm_seeded.sh`): the patch applies to `/repo`'s HEAD,\n"
        "the whole baseline suite still passes with it, the demonstration fails with it and passes without it. The table is\n"
        "generated from `tools/matrix.sh` (each change applied to `/repo`'s working tree, the listed checks run, the tree\n"
        "restored; for rounds 7 to 9 `tools/matrix_lanes.sh`: four such runs side by side, each in a scratch copy of `/verif` against its own worktree of\n"
        "`/repo`, development mode, no evidence written): **%d of %d are detected by their own property's check** (quick tier, default seed).\n\n" % (len(rows), own_ok, len(rows))
        + "\n".join(tbl) + "\n\n" + NOTDET +
        "<!-- seeded:end -->")
if "<!-- seeded:begin -->" in d:
    d = d[:d.index("<!-- seeded:begin -->")] + text + d[d.index("<!-- seeded:end -->") + len("<!-- seeded:end -->"):]
else:
    d = d.replace("(SECTION10)", text)
open(D, "w").write(d)
print(len(rows), "seeded changes;", sum(1 for r in rows if r[3].startswith("detected")), "detected by their own property's check")
for r in rows:
    if not r[3].startswith("detected"): print("NOT:", r[0], r[3])
