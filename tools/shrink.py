#!/usr/bin/env python3
"""delta-debugging of world-engine scripts (engine 1): remove operations while a predicate keeps holding.
Scripts are total (any operation sequence is a valid input for both sides), so removing operations - which
renumbers the handle table - yields another valid script; only the predicate decides."""
import os, subprocess, time
import explain as E
import hvlib as H


def split_ops(case):
    """header (engine, universe) and the list of operation token slices; None when the case is not decodable"""
    if not case or case[0] != 1:
        return None
    try:
        E.dec(case)
    except Exception:
        return None
    st = list(E.STARTS) + [len(case)]
    if not E.STARTS:
        return None
    return case[:st[0]], [case[st[i]:st[i + 1]] for i in range(len(st) - 1)]


def run_one(hv, case, model=False):
    d = os.path.join(H.BUILD, "run", "shrink")
    os.makedirs(d, exist_ok=True)
    f = os.path.join(d, "c%d.txt" % os.getpid())
    open(f, "w").write(" ".join(map(str, case)) + "\n")
    try:
        p = subprocess.run([hv, "run", f], env=H.ENV, capture_output=True, text=True, errors="replace", timeout=60)
    except subprocess.TimeoutExpired:
        return ("crash", "timeout", None)
    if p.returncode:
        return ("crash", str(p.returncode), None)
    line = p.stdout.splitlines()[0] if p.stdout else ""
    obs, _, orc = line.partition(" ! ")
    m = None
    if model:
        try:
            m = H.run_model(f)[0].strip()
        except Exception:
            m = None
    return ("ok", orc, (obs.strip(), m))


def oracle_key(orc):
    """property tag + first words of the first verdict, numbers removed"""
    first = orc.split(" | ")[0]
    words = [w for w in first.replace(":", " : ").split() if not any(ch.isdigit() for ch in w[1:])]
    return " ".join(words[:6])


def shrink(case, pred, budget_s=None):
    budget_s = budget_s or float(os.environ.get('HV_SHRINK_BUDGET', '60'))
    sp = split_ops(case)
    if sp is None:
        return case, 0
    head, ops = sp
    t0, tests = time.time(), 0
    n = 2
    while len(ops) >= 2 and time.time() - t0 < budget_s:
        chunk = max(1, len(ops) // n)
        removed = False
        for s in range(0, len(ops), chunk):
            cand = ops[:s] + ops[s + chunk:]
            if not cand:
                continue
            tests += 1
            if pred(head + [x for o in cand for x in o]):
                ops = cand; n = max(n - 1, 2); removed = True
                break
            if time.time() - t0 > budget_s:
                break
        if not removed:
            if chunk == 1:
                break
            n = min(n * 2, len(ops))
    return head + [x for o in ops for x in o], tests
