#!/bin/bash
# usage: try_mutant.sh <patch.diff> <property id>...   -- apply a seeded change to /repo, run checks, undo
patch=$1; shift
git -C /repo apply "$patch" || { echo "patch does not apply"; exit 2; }
for id in "$@"; do
  echo "== $id on $(basename $(dirname $(dirname $patch)))/$(basename $(dirname $patch))"
  /verif/tools/check $id --tier quick 2>&1 | tail -3
done
git -C /repo checkout -- .
git -C /repo status --short | head -3
