#!/bin/bash
# development helper (rounds 7 and 8 of the seeded changes): like matrix.sh, but four changes at a time, each lane in a
# scratch copy of /verif (under /tmp/mx/<k>, removed at the end) against its own git worktree of /repo, so /repo's
# working tree is never touched. Development mode: no proofs re-checked, no evidence written.
# usage: matrix_lanes.sh <pattern, e.g. "[MN]"> <output.jsonl>
pat=${1:-O}; out=${2:-/verif/seeded/_matrix_lanes.jsonl}; : > $out
declare -A N=( [C01]="C01 C09 C10" [C02]="C02 C16 C01" [C03]="C03 C11 C12 C13" [C04]="C04 C12" [C05]="C05 C06" [C06]="C06 C05"
 [C07]="C07 C16 C02" [C08]="C08 C17" [C09]="C09 C01" [C10]="C10 C01" [C11]="C11 C03 C04" [C12]="C12 C03 C15" [C13]="C13 C03"
 [C14]="C14 C15" [C15]="C15 C14 C12" [C16]="C16 C02 C07" [C17]="C17 C08" [C18]="C18" [C19]="C19 C14" )
export HV_DEV_NO_PROOF=1 CARGO_NET_OFFLINE=true CARGO_BUILD_JOBS=4
lane() {
  k=$1; shift; L=/tmp/mx/$k; mkdir -p $L
  rsync -a --exclude='.git' --exclude='replays' --exclude='seeded' --exclude='.build/run' /verif/ $L/verif/
  mkdir -p $L/verif/replays
  git -C /repo worktree add --detach $L/repo HEAD >/dev/null 2>&1
  sed -i "s#path = \"/repo\"#path = \"$L/repo\"#" $L/verif/harness/Cargo.toml
  sed -i "s#^REPO = \"/repo\"#REPO = \"$L/repo\"#" $L/verif/tools/hvlib.py
  sed -i "s#/verif/.build#$L/verif/.build#g" $L/verif/tools/explain.py
  for m in "$@"; do
    p=${m%/*}; d=/verif/seeded/$m
    git -C $L/repo checkout -q -- . ; git -C $L/repo apply $d/patch.diff || { echo "{\"m\":\"$m\",\"applies\":false}" >> $out; continue; }
    (cd $L/verif/tools && python3 -c "import hvlib as H; H.build_harness(False)" >/dev/null 2>&1)
    for c in ${N[$p]}; do
      ( r=$(timeout 1500 $L/verif/tools/check $c --tier quick 2>&1 | tail -2 | tr '\n"\\' '   ' | cut -c1-420)
        echo "{\"m\":\"$m\",\"check\":\"$c\",\"result\":\"$r\"}" >> $out ) &
    done
    wait
    git -C $L/repo checkout -q -- .
  done
  git -C /repo worktree remove --force $L/repo
}
all=( $(cd /verif/seeded && ls -d C??/$pat) )
for k in 0 1 2 3; do
  mine=(); for i in "${!all[@]}"; do [ $((i % 4)) -eq $k ] && mine+=("${all[$i]}"); done
  lane $k "${mine[@]}" &
done
wait
git -C /repo worktree prune; rm -rf /tmp/mx
