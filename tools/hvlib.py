"""Shared machinery of tools/check: builds (Coq proofs, extracted runner, Rust harness against
/repo's working tree), proof audit, correspondence run, diffing, evidence, known findings."""
import fcntl, hashlib, json, os, re, subprocess, sys, time, random

VERIF = os.path.dirname(os.path.dirname(os.path.abspath(__file__)))
COQ = os.path.join(VERIF, "coq")
BUILD = os.path.join(VERIF, ".build")
HARNESS = os.path.join(VERIF, "harness")
RUNNER_SRC = os.path.join(VERIF, "runner")
EVIDENCE = os.path.join(VERIF, "evidence")
REPLAYS = os.path.join(VERIF, "replays")
REPO = "/repo"
ENV = dict(os.environ, CARGO_NET_OFFLINE="true", CARGO_TARGET_DIR=os.path.join(BUILD, "target"))
ENV["RUSTFLAGS"] = (ENV.get("RUSTFLAGS", "") + " --cfg hecs_verif").strip()

ALLOWED_AXIOMS = set()  # every property theorem must be "Closed under the global context"
FORBIDDEN = re.compile(r"\b(Admitted|admit|Axiom|Axioms|Parameter|Parameters|Conjecture|Conjectures|"
                       r"Hypothesis|Hypotheses|Variable|Variables|Abort All)\b|Unset\s+Guard|bypass_check|"
                       r"type-in-type|impredicative-set|Unset\s+Universe|Unset\s+Positivity|Admit Obligations")


class BuildError(Exception):
    def __init__(self, stage, detail):
        super().__init__(stage + ": " + detail[-2000:])
        self.stage, self.detail = stage, detail


def sh(cmd, cwd=None, timeout=3600, env=None, stdin=None):
    p = subprocess.run(cmd, cwd=cwd, env=env or ENV, input=stdin, stdout=subprocess.PIPE,
                       stderr=subprocess.STDOUT, timeout=timeout, text=True, shell=isinstance(cmd, str))
    return p.returncode, p.stdout


class Lock:
    def __init__(self, name):
        os.makedirs(BUILD, exist_ok=True)
        self.path = os.path.join(BUILD, name + ".lock")

    def __enter__(self):
        self.f = open(self.path, "w")
        fcntl.flock(self.f, fcntl.LOCK_EX)

    def __exit__(self, *a):
        fcntl.flock(self.f, fcntl.LOCK_UN)
        self.f.close()


# ----------------------------------------------------------------------------- Coq side

def coq_sources():
    out = []
    for d, _, fs in os.walk(COQ):
        for f in fs:
            if f.endswith(".v") and "_tmpgoal" not in f:
                out.append(os.path.join(d, f))
    return sorted(out)


def strip_comments(src):
    out, depth, i = [], 0, 0
    while i < len(src):
        if src.startswith("(*", i):
            depth += 1; i += 2
        elif src.startswith("*)", i) and depth:
            depth -= 1; i += 2
        else:
            if not depth:
                out.append(src[i])
            i += 1
    return "".join(out)


def audit_sources():
    """No Admitted/Axiom/Parameter/..., no Variable/Hypothesis (we use no Sections), no disabled checks."""
    bad = []
    for f in coq_sources():
        code = strip_comments(open(f).read())
        for m in FORBIDDEN.finditer(code):
            line = code.count("\n", 0, m.start()) + 1
            bad.append("%s:%d: %s" % (os.path.relpath(f, VERIF), line, m.group(0)))
    proj = open(os.path.join(COQ, "_CoqProject")).read()
    for flag in ("-type-in-type", "-impredicative-set", "-vos", "-vok", "-noinit"):
        if flag in proj:
            bad.append("_CoqProject: " + flag)
    return bad


def build_coq():
    with Lock("coq"):
        if not os.path.exists(os.path.join(COQ, "Makefile")) or \
                os.path.getmtime(os.path.join(COQ, "Makefile")) < os.path.getmtime(os.path.join(COQ, "_CoqProject")):
            rc, out = sh(["coq_makefile", "-f", "_CoqProject", "-o", "Makefile"], cwd=COQ)
            if rc:
                raise BuildError("coq_makefile", out)
        rc, out = sh(["make", "-j16"], cwd=COQ, timeout=3000)
        if rc:
            raise BuildError("coq-proofs", out)
        return out


def build_runner():
    """Extract the model to OCaml and build the driver (only when the model's .vo files changed)."""
    with Lock("runner"):
        rdir = os.path.join(BUILD, "runner")
        os.makedirs(rdir, exist_ok=True)
        stamp = os.path.join(rdir, "stamp")
        h = hashlib.sha256()
        for f in coq_sources():
            if "/Model/" in f or "/Base/" in f or "/Extract/" in f:
                h.update(open(f, "rb").read())
        h.update(open(os.path.join(RUNNER_SRC, "main.ml"), "rb").read())
        digest = h.hexdigest()
        if os.path.exists(stamp) and open(stamp).read() == digest and os.path.exists(os.path.join(rdir, "runner")):
            return
        rc, out = sh(["coqc", "-Q", COQ, "HecsV", os.path.join(COQ, "Extract", "Extract.v")], cwd=rdir, timeout=900)
        if rc:
            raise BuildError("extraction", out)
        sh(["cp", os.path.join(RUNNER_SRC, "main.ml"), rdir])
        rc, out = sh(["ocamlfind", "ocamlopt", "-w", "-a", "-O2", "model.mli", "model.ml", "main.ml", "-o", "runner"],
                     cwd=rdir, timeout=900)
        if rc:
            raise BuildError("ocaml-runner", out)
        open(stamp, "w").write(digest)


def property_theorems(pid):
    src = strip_comments(open(os.path.join(COQ, "Properties", pid + ".v")).read())
    return re.findall(r"\b(?:Theorem|Example)\s+(c\d\d\w*)", src)


def dependency_cone(pid):
    """.v files transitively required by Properties/<pid>.v (within HecsV)."""
    seen, todo = [], [os.path.join(COQ, "Properties", pid + ".v")]
    while todo:
        f = todo.pop()
        if f in seen or not os.path.exists(f):
            continue
        seen.append(f)
        src = strip_comments(open(f).read())
        for m in re.finditer(r"From\s+HecsV\s+Require\s+(?:Import|Export)\s+((?:[A-Za-z_]\w*(?:\.[A-Za-z_]\w*)*\s*)+)\.(?=\s)", src):
            for name in m.group(1).split():
                todo.append(os.path.join(COQ, *name.split(".")) + ".v")
    return seen


def count_obligations(files):
    n = 0
    for f in files:
        n += len(re.findall(r"\b(?:Qed|Defined)\s*\.", strip_comments(open(f).read())))
    return n


def audit_assumptions(pid):
    """Print Assumptions of every property theorem, evaluated against the freshly built .vo files."""
    thms = [t for t in property_theorems(pid)]
    d = os.path.join(BUILD, "audit")
    os.makedirs(d, exist_ok=True)
    f = os.path.join(d, "Audit_%s.v" % pid)
    with open(f, "w") as w:
        w.write("From HecsV Require Import Properties.%s.\n" % pid)
        for t in thms:
            w.write('Goal True. idtac "@@ %s". exact I. Qed.\nPrint Assumptions %s.\n' % (t, t))
    # the audit only depends on the compiled files: reuse the captured output while no .vo changed
    import hashlib
    h = hashlib.sha256(open(f, "rb").read())
    for root, _, files in sorted(os.walk(COQ)):
        for fn in sorted(files):
            if fn.endswith(".vo"):
                st = os.stat(os.path.join(root, fn))
                h.update(("%s %d %d\n" % (os.path.join(root, fn), st.st_mtime_ns, st.st_size)).encode())
    key, cache = h.hexdigest(), os.path.join(d, "Audit_%s.out" % pid)
    out = None
    if os.path.exists(cache):
        k, _, body = open(cache).read().partition("\n")
        if k == key:
            out = body
    if out is None:
        rc, out = sh(["coqc", "-Q", COQ, "HecsV", f], cwd=d, timeout=900)
        if rc:
            raise BuildError("assumption-audit", out)
        open(cache, "w").write(key + "\n" + out)
    res, cur = {}, None
    for line in out.splitlines():
        if line.startswith("@@ "):
            cur = line[3:].strip(); res[cur] = []
        elif cur is not None and line.strip():
            res[cur].append(line.strip())
    problems = []
    for t in thms:
        body = " ".join(res.get(t, ["<no output>"]))
        if "Closed under the global context" in body:
            continue
        axs = set(re.findall(r"^([\w.']+)\s*:", "\n".join(res.get(t, [])), re.M))
        if not axs or not axs <= ALLOWED_AXIOMS:
            problems.append("%s depends on: %s" % (t, body[:300]))
    return thms, res, problems


def coqchk(pid):
    rc, out = sh(["coqchk", "-silent", "-o", "-Q", COQ, "HecsV", "HecsV.Properties." + pid], cwd=COQ, timeout=3000)
    if rc == 0:
        # the context summary must report no axioms and no assumed/unsafe constructions in the whole closure
        flat = " ".join(out.split())
        for key in ("* Axioms: <none>", "relying on type-in-type: <none>", "relying on unsafe (co)fixpoints: <none>",
                    "positivity is assumed: <none>", "Set is predicative"):
            if key not in flat:
                return 1, out + "\ncoqchk context summary lacks: " + key
    return rc, out


# ----------------------------------------------------------------------------- implementation side

def build_harness(release=False):
    with Lock("cargo"):
        lock = os.path.join(HARNESS, "Cargo.lock")
        if not os.path.exists(lock):
            sh(["cp", os.path.join(REPO, "Cargo.lock"), lock])
        cmd = ["cargo", "build", "--offline", "--quiet"] + (["--release"] if release else [])
        rc, out = sh(cmd, cwd=HARNESS, timeout=3000)
        if rc:
            raise BuildError("harness-build(/repo does not compile with hooks?)", out)
    return os.path.join(BUILD, "target", "release" if release else "debug", "hv")


class ImplCrash(Exception):
    def __init__(self, index, rc, tail, lines):
        super().__init__("implementation crashed on case %d (exit status %s)" % (index, rc))
        self.index, self.rc, self.tail, self.lines = index, rc, tail, lines


def run_impl(hv, cases_path, timeout=900):
    """run the harness; a crash (signal, abort, non-zero exit) is attributed to the first case without output"""
    p = subprocess.run([hv, "run", cases_path], env=ENV, stdout=subprocess.PIPE, stderr=subprocess.PIPE,
                       timeout=timeout, text=True, errors="replace")
    lines = p.stdout.splitlines()
    if p.returncode:
        raise ImplCrash(len(lines), p.returncode, p.stderr[-1500:], lines)
    return lines


def run_model(cases_path, timeout=900):
    with open(cases_path) as f:
        p = subprocess.run([os.path.join(BUILD, "runner", "runner")], stdin=f, stdout=subprocess.PIPE,
                           stderr=subprocess.STDOUT, text=True, timeout=timeout)
    if p.returncode:
        raise BuildError("model-run", p.stdout[-3000:])
    return p.stdout.splitlines()


def vm_crosscheck(pid, cases, model_lines, sample=24, seed=0):
    """Evaluate a sample of the cases inside Coq with vm_compute and compare with the extracted runner."""
    rnd = random.Random(seed)
    idx = list(range(len(cases)))
    rnd.shuffle(idx)
    idx = [i for i in idx if "OVERFLOW" not in model_lines[i] and len(cases[i]) + len(model_lines[i].split()) < 6000][:sample]
    if not idx:
        return 0, None
    d = os.path.join(BUILD, "audit")
    os.makedirs(d, exist_ok=True)
    f = os.path.join(d, "Cases_%s.v" % pid)

    def lst(xs):
        return "[" + "; ".join(str(x) for x in xs) + "]"
    with open(f, "w") as w:
        w.write("From Coq Require Import List NArith. Import ListNotations. Open Scope N_scope.\n")
        w.write("From HecsV Require Import Model.Run.\n")
        w.write("Fixpoint leq (a b : list N) : bool := match a, b with [] , [] => true | x :: a', y :: b' => "
                "andb (N.eqb x y) (leq a' b') | _, _ => false end.\n")
        for i in idx:
            w.write("Eval vm_compute in (leq (run_case %s) %s).\n" % (lst(cases[i]), lst(model_lines[i].split())))
    rc, out = sh(["coqc", "-Q", COQ, "HecsV", f], cwd=d, timeout=1800)
    if rc or out.count("= true") != len(idx):
        return len(idx), "vm_compute evaluation of run_case disagrees with the extracted OCaml runner:\n" + out[-1500:]
    return len(idx), None


# ----------------------------------------------------------------------------- known findings

def load_known():
    p = os.path.join(VERIF, "known_findings.json")
    if not os.path.exists(p):
        return []
    return json.load(open(p)).get("findings", [])


def match_known(pid, message, also=()):
    """a verdict line may carry several verdicts joined by ' | ': it is a known finding only if EVERY part matches
    a known entry of this property (or of a property in `also`, whose findings this check can observe but
    does not own: those parts are dropped); returns the known entry, or None when some part is not known"""
    parts = [x for x in message.split(" | ") if x.strip()]
    hit = None
    for part in parts:
        k = None
        for e in load_known():
            if e.get("status") == "known" and re.search(e["match"], part):
                if e.get("property") == pid:
                    k = e
                elif e.get("property") in also:
                    k = {"foreign": True, "text": e["text"], "property": e["property"]}
        if k is None:
            return None
        if hit is None or not k.get("foreign"):
            hit = k
    return hit


# ----------------------------------------------------------------------------- evidence

def write_evidence(pid, tier, seed, coverage, wall, violations, assumptions):
    if os.environ.get("HV_DEV_NO_PROOF"):
        return          # development runs (proof side skipped) never write evidence
    os.makedirs(EVIDENCE, exist_ok=True)
    ev = {"property_id": pid, "tier": tier, "seed": seed, "level": "proof", "coverage": coverage,
          "assumptions": assumptions, "wall_s": round(wall, 2), "violations": violations}
    tmp = os.path.join(EVIDENCE, pid + ".json.tmp")
    json.dump(ev, open(tmp, "w"), indent=1)
    os.replace(tmp, os.path.join(EVIDENCE, pid + ".json"))


def write_replay(pid, name, obj):
    os.makedirs(REPLAYS, exist_ok=True)
    p = os.path.join(REPLAYS, "%s-%s.json" % (pid, name))
    json.dump(obj, open(p, "w"), indent=1)
    return p
