#!/usr/bin/env python3
import sys, subprocess, collections
sys.path.insert(0,'/verif/tools'); import hvlib as H, gens as G
n = int(sys.argv[1]) if len(sys.argv) > 1 else 150
seed = int(sys.argv[2]) if len(sys.argv) > 2 else 1
H.build_coq(); H.build_runner()
u=[int(x) for x in subprocess.run(['/verif/.build/target/debug/hv','universe'],capture_output=True,text=True).stdout.split()]
cases=list(G.gen_layout(n,n)("quick",seed,u))
open('/verif/.build/t_world.txt','w').write("\n".join(" ".join(map(str,c)) for c in cases)+"\n")
try:
    a=H.run_impl('/verif/.build/target/debug/hv','/verif/.build/t_world.txt')
except H.ImplCrash as e:
    print('CRASH at', e.index, e.rc, e.tail[-800:]); a=e.lines
b=H.run_model('/verif/.build/t_world.txt')
bad=[i for i,(x,y) in enumerate(zip(a,b)) if x.partition(' ! ')[0].strip()!=y.strip()]
orc=[i for i,x in enumerate(a) if ' ! ' in x]
print(len(cases),len(a),len(b),'bad',len(bad),bad[:8],'oracle',len(orc),orc[:8])
msgs=collections.Counter(m[:110] for i in orc for m in a[i].partition(' ! ')[2].split(' | '))
for k,v in msgs.most_common(8): print(v,k)
