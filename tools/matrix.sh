#!/bin/bash
# development helper: for every seeded change (seeded/_incoming/<id>/<pattern>), apply it to /repo's working tree, run the
# listed checks (correspondence + oracles only: the proofs do not depend on /repo) in parallel, undo.
# usage: matrix.sh [pattern=[ABCD]] [output=seeded/_matrix_final.jsonl]
declare -A N=( [C01]="C01 C09 C10" [C02]="C02 C16 C01" [C03]="C03 C11 C12 C13" [C04]="C04 C12" [C05]="C05 C06" [C06]="C06 C05"
 [C07]="C07 C16 C02" [C08]="C08 C17" [C09]="C09 C01" [C10]="C10 C01" [C11]="C11 C03 C04" [C12]="C12 C03 C15" [C13]="C13 C03"
 [C14]="C14 C15" [C15]="C15 C14 C12" [C16]="C16 C02 C07" [C17]="C17 C08" [C18]="C18" [C19]="C19 C14" )
export HV_DEV_NO_PROOF=1
pat=${1:-[ABCD]}
out=${2:-/verif/seeded/_matrix_final.jsonl}; : > $out
for d in /verif/seeded/C??/$pat; do
  p=$(basename $(dirname $d)); x=$(basename $d)
  git -C /repo checkout -q -- . ; git -C /repo apply $d/patch.diff || { echo "{\"m\":\"$p/$x\",\"applies\":false}" >> $out; continue; }
  (cd /verif/tools && python3 -c "import hvlib as H; H.build_harness(False)" >/dev/null 2>&1)
  for c in ${N[$p]}; do
    ( r=$(timeout 1500 /verif/tools/check $c --tier quick 2>&1 | tail -2 | tr '\n"\\' '   ' | cut -c1-420)
      echo "{\"m\":\"$p/$x\",\"check\":\"$c\",\"result\":\"$r\"}" >> $out ) &
  done
  wait
  git -C /repo checkout -q -- .
done
git -C /repo status --short
rm -f /verif/replays/*-oracle-*.json /verif/replays/*-crash-*.json /verif/replays/*-corr-*.json
