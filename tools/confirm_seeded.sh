#!/bin/bash
# usage: confirm_seeded.sh <slot> <id/X>...   confirm seeded changes in a scratch worktree /tmp/sw/<slot>
# (never touches /repo): patch applies, baseline suite passes with it, demo fails with it and passes without.
slot=$1; shift
W=/tmp/sw/$slot; mkdir -p /tmp/sw
[ -d $W/hecs ] || { mkdir -p $W; git -C /repo worktree add --detach $W/hecs HEAD >/dev/null 2>&1; }
export CARGO_NET_OFFLINE=true CARGO_TARGET_DIR=$W/target
cd $W/hecs
for m in "$@"; do
  d=/verif/seeded/$m; name=demo_$(echo $m | tr '/' '_')
  git checkout -q -- . ; rm -f tests/demo_*.rs
  flags=""; case $m in C05/B|C06/*) flags="--cfg hecs_verif";; esac
  if ! git apply $d/patch.diff 2>/dev/null; then echo "{\"m\":\"$m\",\"applies\":false}" >> /verif/seeded/_confirm.jsonl; continue; fi
  base=$(cargo test --workspace --no-fail-fast --offline 2>&1 | grep "^test result" | awk '{p+=$4; f+=$6} END {print p":"f}')
  cp $d/demonstration.rs tests/$name.rs
  RUSTFLAGS="$flags" cargo test --offline --all-features --test $name > $W/mut.log 2>&1; with=$?
  git apply -R $d/patch.diff
  RUSTFLAGS="$flags" cargo test --offline --all-features --test $name > $W/clean.log 2>&1; without=$?
  fail=$(grep -m1 "panicked at\|error\[" -A2 $W/mut.log | tr '\n"\\' '   ' | cut -c1-300)
  rm -f tests/$name.rs
  echo "{\"m\":\"$m\",\"applies\":true,\"baseline_pass_fail\":\"$base\",\"demo_with_patch_exit\":$with,\"demo_clean_exit\":$without,\"failure\":\"$fail\"}" >> /verif/seeded/_confirm.jsonl
done
git checkout -q -- . ; rm -f tests/demo_*.rs
cd /; git -C /repo worktree remove --force $W/hecs; rm -rf $W
