#!/bin/bash
# run every claimed check (quick tier) and summarise; usage: runall.sh [seed]
cd /verif
[ -n "$1" ] && export VERIF_SEED=$1
for id in $(python3 -c "import json; print(' '.join(c['property_id'] for c in json.load(open('MANIFEST.json'))['checks']))"); do
  out=$(tools/check $id --tier quick 2>&1 | grep -E "^(OK|VIOLATION|KNOWN)" | cut -c1-140 | tr '\n' ' ')
  echo "$id: $out"
done
