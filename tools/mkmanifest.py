#!/usr/bin/env python3
"""regenerate MANIFEST.json from the table below (keeps the manifest consistent with tools/check)"""
import json, os
V = os.path.dirname(os.path.dirname(os.path.abspath(__file__)))
props = [json.loads(l) for l in open(os.path.join(V, "properties.jsonl"))]

CLAIMED = {
 "C01": ("world", "Coq refinement proof: executable model of Entities/Archetype/World refines the map Entity -> component set "
                  "(abs) operation by operation (invariant WInv preserved, result as the map dictates, frame for every "
                  "other handle), every reachable state satisfies WInv (induction over histories), accessors and "
                  "iteration are functions of abs; differential check of the model against the real World (observations, "
                  "row order, allocator snapshots) + shadow-map oracle"),
 "C09": ("world", "Coq proofs (corollaries of the refinement): errors are reported exactly when the map semantics say so and "
                  "then abs and the stored values are unchanged; remove is all-or-nothing; differential check with an "
                  "error-heavy script profile (dead, dangling, forged, foreign, reserved handles; missing components)"),
 "C10": ("world", "Coq proofs: sort/merge lemmas for TypeInfo order (order independence of the archetype key, two-pointer merge "
                  "= set operations), memo tables correct in every reachable state (WInv clauses), permuted bundles and "
                  "different histories give identical denotations (c10_* theorems); twin-script differential check "
                  "(fields permuted, representation switched) with final-state comparison"),
 "C02": ("world", "Coq proof over all allocator histories (invariant EInv + ghost history of returned handles; "
                  "theorems c02_unique_ids, c02_len, c02_fresh, c02_dead_forever) + differential check of the "
                  "allocator model against the real Entities (meta/pending/cursor snapshots) and issued-handle oracle"),
 "C03": ("world+containers", "Coq proofs: multiset conservation (Permutation of stored ++ given vs stored' ++ returned ++ dropped) for "
                  "every world operation, builder/batch operation and command-buffer replay incl. panicking replays; "
                  "differential check of per-operation drop lists (every component logs its drop; clones get fresh serials) "
                  "+ implementation-only drop ledger (double drop / leak / drop-after-return)"),
 "C04": ("world+layout", "Coq proofs of the layout arithmetic the unsafe code relies on, for every layout and count: capacity never "
                  "below length through allocate/reserve/batch growth, dangling bases aligned because types are sorted by "
                  "descending alignment, slots aligned / in bounds / disjoint, bump-arena placements aligned / in bounds / "
                  "non-overlapping, every location of a reachable world names an existing row; differential check of a "
                  "capacity shadow at capacity boundaries + run-time address, alignment and tracking-allocator oracles "
                  "(memory safety itself is a run-time fact: partial)"),
 "C05": ("guards", "Coq proofs over a sequential per-column cell model: grants keep writer-excludes-all, a query is granted iff "
                   "compatible (exactness), conflicts iff common column of a non-empty archetype satisfying both with a unique "
                   "access, drops restore every cell; the unconditional release statement is refuted for failed acquisitions "
                   "(known finding F9); differential check reading back every column's borrow state after every guard operation"),
 "C06": ("sched", "Coq proof: inductive invariant over all interleavings of an atomic-step model, any thread count; "
                  "exhaustive small-scope schedule replay against the real AtomicBorrow"),
 "C07": ("sched", "Coq proof over all sequences of reserve calls from any reachable flushed state (c07_reserve); "
                  "exhaustive interleavings of 2-3 cooperative threads against the real World + real-thread stress"),
 "C08": ("world+query", "Coq proofs: access/prepare/sat agreement and item correctness for every query shape "
                        "(induction over the query AST), iteration/batched/view/query_one theorems under the world "
                        "invariant; differential check of 110 generated query types on every access path"),
 "C11": ("world+containers", "Coq proofs: recorded ranges tile the component list; replay = direct application (same handles, same "
                  "denotations, same drops) via a memo-table-insensitive equivalence of worlds; value conservation incl. "
                  "panicking replays; differential check of record/run/clear/drop/reuse cycles on two worlds"),
 "C12": ("world+containers", "Coq proofs: build succeeds iff every declared column got its values for any push schedule over "
                  "successive writers, row i = i-th pushed values, spawning refines the map semantics and conserves values; "
                  "differential check with duplicates declared, over/under-filled columns, merges into existing archetypes"),
 "C13": ("world+containers", "Coq proofs: index-table invariant in every reachable builder state (add/replace, clear, build with "
                  "re-sorting, clone, conversions), observers = contents, replaced values dropped once, clones independent; "
                  "differential check over 8 component layouts with has/get/component_types probes"),
 "C14": ("serde", "Coq proofs over a token-tree model of both formats with a self-describing and a length-driven reader: announced "
                  "lengths = elements written, serialize_satisfying emits exactly the matching entities, decode(encode(w)) "
                  "succeeds and every handle (id and generation) denotes the handled part of what it denoted (round-trip "
                  "theorems for every world satisfying the C01 invariant); differential check through serde_json, bincode and "
                  "a strict token backend that verifies announced lengths"),
 "C15": ("serde", "Coq proofs: for EVERY token tree both decoders return an error or a world satisfying the C01/C02 invariant and "
                  "never panic (spawn_at total for any handle, spawn_column_batch_at for any duplicate-free handle list); "
                  "differential check with structure-aware and token-level mutations of valid serialisations in debug and "
                  "release builds + drop ledger for already-decoded components"),
 "C16": ("world", "Coq proofs: allocator theorems over all histories (c16_reserved_uniform, c16_must_flush) and world-level "
                  "refinement (a reserved handle denotes the empty entity; contains/entity/get/query_one/satisfies are "
                  "functions of that denotation; iteration and views see only entities with a row; flush and structural "
                  "operations preserve every denotation); differential check with a reservation-heavy script profile "
                  "probing every accessor before each structural operation"),
 "C17": ("world+query", "Coq proofs: archetype lists only grow (c17_grows), generation theorem, and an invariant over "
                        "multi-world histories for one prepared query (c17_fresh); differential check with prepared "
                        "queries shared between two worlds"),
 "C18": ("tracker", "Coq proofs over a model of track() with arbitrary consumption scripts: first report of each kind = the "
                    "difference at the call, final hidden state = snapshot regardless of what was read (induction over the "
                    "script, commuting drains), diff theorem between consecutive calls; differential check with random "
                    "mutation rounds and consumption scripts + the harness's own snapshot oracle"),
 "C19": ("bits", "Coq proof: bit-vector arithmetic lemmas (N.land/shift as mod/div) + lia, for all 64-bit patterns; "
                 "differential check vs the real Entity (to_bits, from_bits, Eq, Ord, Hash, serde)"),
}
ENGINES = [
 {"name": "serde", "path": "coq/Model/Serde.v, harness/src/serde_engine.rs, harness/src/tok.rs", "serves_properties": ["C14", "C15"],
  "kind_free_text": "token-tree model of the row and column formats with two reader disciplines; strict token serde backend, serde_json and bincode; mutation of token trees; contexts handling 3 component types"},
 {"name": "world+layout", "path": "coq/Model/Layout.v, harness/src/alloc_track.rs, harness/src/world_engine.rs (layout_probe)", "serves_properties": ["C04"],
  "kind_free_text": "capacity/addressing model with a capacity shadow in the script interpreter; tracking global allocator; column base/extent/alignment/overlap and reference address oracles"},
 {"name": "tracker", "path": "coq/Model/Tracker.v, harness/src/tracker_engine.rs", "serves_properties": ["C18"],
  "kind_free_text": "snapshot-difference model of ChangeTracker with consumption scripts; differential check + snapshot oracle"},
 {"name": "world+containers", "path": "coq/Model/Containers.v, harness/src/cont_engine.rs", "serves_properties": ["C03", "C11", "C12", "C13"],
  "kind_free_text": "models of the bump arena, EntityBuilder(Clone)/BuiltEntityClone, ColumnBatchBuilder, CommandBuffer; container opcodes of the script interpreter; drop ledger"},
 {"name": "guards", "path": "coq/Model/Guards.v, harness/src/guard_engine.rs", "serves_properties": ["C05"],
  "kind_free_text": "sequential borrow-cell model of query/view/prepared/query_one/Ref/column guards; guard slab over frozen worlds; ghost reader/writer oracle"},
 {"name": "bits", "path": "coq/Model/EntityBits.v, harness/src/bits.rs", "serves_properties": ["C19"],
  "kind_free_text": "Gallina model + proofs; differential check of Entity bit encoding, order, hashing, serde form"},
 {"name": "sched", "path": "coq/Model/Atomic.v, coq/Model/ReserveRun.v, harness/src/sched.rs", "serves_properties": ["C06", "C07"],
  "kind_free_text": "atomic-step interleaving models; cooperative scheduling of the real code through cfg(hecs_verif) yield hooks; real-thread stress"},
 {"name": "world", "path": "coq/Model/{Types,Entities,World,WorldRun}.v, harness/src/world_engine.rs, tools/gens.py",
  "serves_properties": ["C01", "C02", "C08", "C09", "C10", "C16", "C17"],
  "kind_free_text": "executable model of Entities/Archetype/World; scripts of world operations over two worlds; shadow-map, issued-handle and drop-ledger oracles"},
 {"name": "world+query", "path": "coq/Model/Query.v, harness/src/query_engine.rs, harness/src/gen_queries.rs",
  "serves_properties": ["C08", "C17"],
  "kind_free_text": "query AST model (access/prepare/get/borrows, iterators, views, batched, prepared); 110 generated self-describing query types"},
]
PARTIAL = {
 "C03": "Partial in one respect: panics raised by user code (component Clone/Drop impls) and the unwinding they cause are not modelled "
        "(one such path is exercised on the implementation side only: every builder clear unwinds through a last component whose destructor panics).",
 "C04": "Partial by nature: memory safety is a fact about the machine execution; the theorems cover the layout arithmetic it rests on "
        "(capacities, alignment, bounds, disjointness, arena placement, row existence), the run-time address / allocator / "
        "alignment oracles cover the executions run; no MSan-like detection of uninitialised reads.",
 "C05": "Full for the sequential protocol; one recorded known finding (F9: a failed acquisition keeps its partial borrows) is reported "
        "as KNOWN-FINDING and proved as a witness lemma.",
 "C06": "Partial: coherence of single-location atomic RMWs is assumed; whether Acquire/Release suffice for the protected data is a "
        "memory-model question outside this technique.",
 "C07": "Partial as C06: each call contains one atomic RMW on free_cursor, interleavings are sequences of calls.",
 "C14": "Full for the token-tree abstraction of serde; the byte-level codecs (serde_json, bincode) are exercised, not modelled.",
 "C15": "Full for the token-tree abstraction; entity ids capped at 4096 on the implementation side only (allocatable sizes).",
}
WIP = "check not built/proved yet in this round (work in progress, see DESIGN.md); not a statement that the technique cannot apply"
checks, na = [], []
for p in props:
    i = p["id"]
    if i in CLAIMED:
        checks.append({
            "property_id": i,
            "quick_cmd": "tools/check %s --tier quick" % i,
            "thorough_cmd": "tools/check %s --tier thorough" % i,
            "evidence_file": "evidence/%s.json" % i,
            "replay_cmd_template": "tools/check replay {path}",
            "engine": CLAIMED[i][0],
            "level_claimed": {"category": "proof",
                              "text": "Coq theorems in coq/Properties/%s.v (statements in coq/Proofs/*Spec.v) proved for all "
                                      "inputs/histories over an executable Gallina model; the model is tied to /repo on every "
                                      "run by a differential correspondence check (extracted OCaml model vs Rust harness linked "
                                      "against the rebuilt /repo, sample re-evaluated with vm_compute) plus an "
                                      "implementation-only property oracle. %s" % (i, PARTIAL.get(i, "")),
                              "design_ref": "DESIGN.md section 4 (%s)" % i},
            "level_note": "Trusted: Coq 8.16.1 kernel, extraction (ExtrOcamlBasic), OCaml driver, Rust harness and generators; "
                          "hand-written model (coq/Model). No axioms (Print Assumptions checked on every run).",
            "technique": CLAIMED[i][1]})
    else:
        na.append({"property_id": i, "reason": WIP})
m = {"version": 1, "setup_cmd": "tools/check --setup",
     "hooks": {"guard": "hecs_verif", "enable": "RUSTFLAGS=\"--cfg hecs_verif\" (set by tools/hvlib.py for every harness build)",
               "baseline_off_cmd": "cd /repo && cargo test --workspace --no-fail-fast --offline",
               "source_commits": ["8f2462a", "3c04c35"], "add_only": True},
     "engines": ENGINES, "checks": checks, "not_applicable": na,
     "notes": "All checks: tools/check <id> [--tier quick|thorough]. Proof side: make -C coq (full .vo) + source audit (no "
              "Admitted/Axiom/...) + Print Assumptions of every property theorem (thorough: + coqchk). Implementation side "
              "rebuilt from /repo's working tree with --cfg hecs_verif."}
json.dump(m, open(os.path.join(V, "MANIFEST.json"), "w"), indent=1)
print("claimed", [c["property_id"] for c in checks])
