#!/usr/bin/env python3
"""ad-hoc: generate world cases, run both sides, summarise disagreements (development aid)"""
import sys, subprocess, random
sys.path.insert(0, '/verif/tools')
import gens
n = int(sys.argv[1]) if len(sys.argv) > 1 else 300
seed = int(sys.argv[2]) if len(sys.argv) > 2 else 1
profiles = sys.argv[3].split(',') if len(sys.argv) > 3 else ["default", "alloc", "errors", "reserve", "cache", "batch"]
u = [int(x) for x in subprocess.run(['/verif/.build/target/debug/hv', 'universe'], capture_output=True, text=True).stdout.split()]
qp = [int(x) for x in sys.argv[4].split(',')] if len(sys.argv) > 4 else None
cases = list(gens.gen_world(profiles, n, n, qp, 0.6 if qp else 0.0)("quick", seed, u))
open('/verif/.build/t_world.txt', 'w').write("\n".join(" ".join(map(str, c)) for c in cases) + "\n")
a = subprocess.run(['/verif/.build/target/debug/hv', 'run', '/verif/.build/t_world.txt'], capture_output=True, text=True, timeout=300).stdout.splitlines()
b = subprocess.run(['/verif/.build/runner/runner'], stdin=open('/verif/.build/t_world.txt'), capture_output=True, text=True, timeout=300).stdout.splitlines()
bad = orc = 0
for i, (x, y) in enumerate(zip(a, b)):
    obs, _, o = x.partition(' ! ')
    mism = obs.strip() != y.strip()
    if o: orc += 1
    if mism: bad += 1
    if (o or mism) and bad + orc <= 4:
        print('case', i, 'len', len(cases[i]), 'ORACLE: ' + o[:400] if o else 'MISMATCH')
        if mism:
            xs, ys = obs.split(), y.split()
            k = next((j for j in range(min(len(xs), len(ys))) if xs[j] != ys[j]), min(len(xs), len(ys)))
            print('  first diff at', k, 'impl', xs[max(0,k-6):k+6], 'model', ys[max(0,k-6):k+6])
print('cases', len(a), len(b), 'mismatch', bad, 'oracle', orc)
