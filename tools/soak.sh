#!/bin/bash
# soak: run every claimed check over a range of seeds, print only the runs that do not end in OK
# usage: soak.sh <first seed> <last seed> [tier]
cd "$(dirname "$0")/.."
tools/check --setup >/dev/null 2>&1
for seed in $(seq $1 $2); do
  for id in $(python3 -c "import json; print(' '.join(c['property_id'] for c in json.load(open('MANIFEST.json'))['checks']))"); do
    out=$(VERIF_SEED=$seed tools/check $id --tier ${3:-quick} 2>&1)
    if ! echo "$out" | grep -q "^OK property=$id"; then echo "seed=$seed $id: $(echo "$out" | tail -2 | cut -c1-300)"; fi
  done
  echo "seed $seed done"
done
