"""Case generators and non-triviality rules, one per engine.  A case is a list of ints whose head
selects the engine (see coq/Model/Run.v and harness/src/main.rs)."""
import itertools, random

# ----------------------------------------------------------------------------- engine 19: bits
HALF = [0, 1, 2, 2**16 - 1, 2**16, 2**16 + 1, 2**31 - 1, 2**31, 2**31 + 1, 2**32 - 2, 2**32 - 1]


def gen_bits(tier, seed):
    rnd = random.Random(seed)
    pats = [(h << 32) | l for h in HALF for l in HALF]
    for a in pats:
        for b in pats:
            yield [19, a, b]
    n = 100_000 if tier == "quick" else 1_500_000
    for _ in range(n):
        k = rnd.random()
        a = rnd.getrandbits(64)
        if k < 0.3:
            b = a                                   # equal
        elif k < 0.5:
            b = a ^ (1 << rnd.randrange(64))        # one bit apart
        elif k < 0.6:
            a &= 0xFFFFFFFF                         # zero upper half
            b = rnd.getrandbits(64)
        else:
            b = rnd.getrandbits(64)
        yield [19, a, b]


def nontrivial_bits(case, obs):
    # a case is non-trivial when at least one pattern decodes (exercises to_bits/cmp/serde)
    return obs[:1] == ["1"] or "1" in obs[1:3]


# ----------------------------------------------------------------------------- engine 6: borrow flag schedules
U = 1 << 63
MASK = U - 1
W = 1 << 64


def _step(cell, th):
    """mirror of Model.Atomic.step_thread, used ONLY to enumerate complete schedules"""
    prog, ph, held = th
    if ph == 1:
        return (cell - 1) % W, (prog, 0, held)
    if not prog:
        return cell, th
    c, rest = prog[0], prog[1:]
    if c == 0:
        if cell & U:
            return (cell + 1) % W, (rest, 1, held)
        return (cell + 1) % W, (rest, 0, held + (0,))
    if c == 1:
        if cell == 0:
            return U, (rest, 0, held + (1,))
        return cell, (rest, 0, held)
    if not held:
        return cell, (rest, 0, held)
    g, h = held[-1], held[:-1]
    return ((cell - 1) % W if g == 0 else cell & MASK), (rest, 0, h)


def schedules(progs, limit=None, rnd=None):
    """all complete schedules (every thread runs to completion), depth first"""
    out = []

    def rec(cell, ths, acc):
        if limit is not None and len(out) >= limit:
            return
        enabled = [i for i, t in enumerate(ths) if t[0] or t[1] == 1]
        if not enabled:
            out.append(list(acc)); return
        if rnd is not None:
            rnd.shuffle(enabled)
        for i in enabled:
            c2, t2 = _step(cell, ths[i])
            ths2 = ths[:i] + (t2,) + ths[i + 1:]
            acc.append(i)
            rec(c2, ths2, acc)
            acc.pop()
    rec(0, tuple((tuple(p), 0, ()) for p in progs), [])
    return out


def programs(maxlen):
    ps = []
    for n in range(1, maxlen + 1):
        ps.extend(itertools.product((0, 1, 2), repeat=n))
    # a leading Rel or Rel-after-nothing-held is a no-op turn; keep a few, drop the rest
    return [p for p in ps if p[0] != 2 or len(p) == 1]


def enc_borrow(progs, sched):
    c = [6, len(progs)]
    for p in progs:
        c.append(len(p)); c.extend(p)
    c.extend(sched)
    return c


def gen_borrow(tier, seed):
    rnd = random.Random(seed)
    # corpus: the interleavings behind the seeded/known failure modes run first
    yield enc_borrow([[1, 2], [0, 2]], [0, 1, 0, 1, 1])            # unique release inside a reader's roll-back window
    yield enc_borrow([[1, 2], [0, 2], [0, 2]], [0, 1, 2, 1, 2, 0, 1, 2])  # two transient readers
    two = programs(3)
    for p in two:
        for q in two:
            for s in schedules([p, q]):
                yield enc_borrow([p, q], s)
    three = programs(2)
    combos = [(p, q, r) for p in three for q in three for r in three]
    if tier == "quick":
        rnd.shuffle(combos)
        combos = combos[:220]
    for (p, q, r) in combos:
        for s in schedules([p, q, r], limit=None if tier != "quick" else 120, rnd=None if tier != "quick" else rnd):
            yield enc_borrow([p, q, r], s)
    if tier != "quick":
        four = programs(4)
        pairs = [(p, q) for p in four for q in four if len(p) == 4 or len(q) == 4]
        rnd.shuffle(pairs)
        for (p, q) in pairs[:2500]:
            for s in schedules([p, q], limit=400, rnd=rnd):
                yield enc_borrow([p, q], s)
        t3 = programs(3)
        for _ in range(1500):
            ps = [rnd.choice(t3) for _ in range(3)]
            for s in schedules(ps, limit=150, rnd=rnd):
                yield enc_borrow(ps, s)
    # real-thread stress (supporting only): the theorem predicts [0, 0] for every schedule
    for i in range(3 if tier == "quick" else 12):
        yield [60, 4 + (i % 3) * 2, 60_000 if tier == "quick" else 400_000, seed + i]


def nontrivial_borrow(case, obs):
    if case[0] == 60:
        return True
    # non-trivial: some step saw the unique bit together with a transient reader (cell > 2^63),
    # i.e. the roll-back path ran, or a unique acquisition failed
    return any(int(x) > U for x in obs[: len(obs) // 2 + 1] if x.isdigit())
