"""Case generators and non-triviality rules, one per engine.  A case is a list of ints whose head
selects the engine (see coq/Model/Run.v and harness/src/main.rs)."""
import itertools, random

# ----------------------------------------------------------------------------- engine 19: bits
HALF = [0, 1, 2, 2**16 - 1, 2**16, 2**16 + 1, 2**31 - 1, 2**31, 2**31 + 1, 2**32 - 2, 2**32 - 1]


def gen_bits(tier, seed):
    rnd = random.Random(seed)
    pats = [(h << 32) | l for h in HALF for l in HALF]
    for a in pats:
        for b in pats:
            yield [19, a, b]
    n = 100_000 if tier == "quick" else 1_500_000
    for _ in range(n):
        k = rnd.random()
        a = rnd.getrandbits(64)
        if k < 0.3:
            b = a                                   # equal
        elif k < 0.5:
            b = a ^ (1 << rnd.randrange(64))        # one bit apart
        elif k < 0.6:
            a &= 0xFFFFFFFF                         # zero upper half
            b = rnd.getrandbits(64)
        else:
            b = rnd.getrandbits(64)
        yield [19, a, b]


def nontrivial_bits(case, obs):
    # a case is non-trivial when at least one pattern decodes (exercises to_bits/cmp/serde)
    return obs[:1] == ["1"] or "1" in obs[1:3]


# ----------------------------------------------------------------------------- engine 6: borrow flag schedules
U = 1 << 63
MASK = U - 1
W = 1 << 64


def _step(cell, th):
    """mirror of Model.Atomic.step_thread, used ONLY to enumerate complete schedules"""
    prog, ph, held = th
    if ph == 1:
        return (cell - 1) % W, (prog, 0, held)
    if not prog:
        return cell, th
    c, rest = prog[0], prog[1:]
    if c == 0:
        if cell & U:
            return (cell + 1) % W, (rest, 1, held)
        return (cell + 1) % W, (rest, 0, held + (0,))
    if c == 1:
        if cell == 0:
            return U, (rest, 0, held + (1,))
        return cell, (rest, 0, held)
    if not held:
        return cell, (rest, 0, held)
    g, h = held[-1], held[:-1]
    return ((cell - 1) % W if g == 0 else cell & MASK), (rest, 0, h)


def schedules(progs, limit=None, rnd=None):
    """all complete schedules (every thread runs to completion), depth first"""
    out = []

    def rec(cell, ths, acc):
        if limit is not None and len(out) >= limit:
            return
        enabled = [i for i, t in enumerate(ths) if t[0] or t[1] == 1]
        if not enabled:
            out.append(list(acc)); return
        if rnd is not None:
            rnd.shuffle(enabled)
        for i in enabled:
            c2, t2 = _step(cell, ths[i])
            ths2 = ths[:i] + (t2,) + ths[i + 1:]
            acc.append(i)
            rec(c2, ths2, acc)
            acc.pop()
    rec(0, tuple((tuple(p), 0, ()) for p in progs), [])
    return out


def programs(maxlen):
    ps = []
    for n in range(1, maxlen + 1):
        ps.extend(itertools.product((0, 1, 2), repeat=n))
    # a leading Rel or Rel-after-nothing-held is a no-op turn; keep a few, drop the rest
    return [p for p in ps if p[0] != 2 or len(p) == 1]


def enc_borrow(progs, sched):
    c = [6, len(progs)]
    for p in progs:
        c.append(len(p)); c.extend(p)
    c.extend(sched)
    return c


def gen_borrow(tier, seed):
    rnd = random.Random(seed)
    # corpus: the interleavings behind the seeded/known failure modes run first
    yield enc_borrow([[1, 2], [0, 2]], [0, 1, 0, 1, 1])            # unique release inside a reader's roll-back window
    yield enc_borrow([[1, 2], [0, 2], [0, 2]], [0, 1, 2, 1, 2, 0, 1, 2])  # two transient readers
    two = programs(3)
    for p in two:
        for q in two:
            for s in schedules([p, q]):
                yield enc_borrow([p, q], s)
    three = programs(2)
    combos = [(p, q, r) for p in three for q in three for r in three]
    if tier == "quick":
        rnd.shuffle(combos)
        combos = combos[:220]
    for (p, q, r) in combos:
        for s in schedules([p, q, r], limit=None if tier != "quick" else 120, rnd=None if tier != "quick" else rnd):
            yield enc_borrow([p, q, r], s)
    if tier != "quick":
        four = programs(4)
        pairs = [(p, q) for p in four for q in four if len(p) == 4 or len(q) == 4]
        rnd.shuffle(pairs)
        for (p, q) in pairs[:2500]:
            for s in schedules([p, q], limit=400, rnd=rnd):
                yield enc_borrow([p, q], s)
        t3 = programs(3)
        for _ in range(1500):
            ps = [rnd.choice(t3) for _ in range(3)]
            for s in schedules(ps, limit=150, rnd=rnd):
                yield enc_borrow(ps, s)
    # real-thread stress (supporting only): the theorem predicts [0, 0] for every schedule
    for i in range(3 if tier == "quick" else 12):
        yield [60, 4 + (i % 3) * 2, 60_000 if tier == "quick" else 400_000, seed + i]


def nontrivial_borrow(case, obs):
    if case[0] == 60:
        return True
    # non-trivial: some step saw the unique bit together with a transient reader (cell > 2^63),
    # i.e. the roll-back path ran, or a unique acquisition failed
    return any(int(x) > U for x in obs[: len(obs) // 2 + 1] if x.isdigit())


# ----------------------------------------------------------------------------- engine 1: world scripts
import catalogue as CAT

TUPLES = CAT.tuples()
TUPLE_SET = set(TUPLES)
EXS = CAT.exchange_s()
EXT = CAT.exchange_t()
NT = 8
DANGLING = (1 << 64) - 1


DERIVED_BUNDLES = {10: (1, 2), 11: (2, 1), 12: (0, 4, 3), 13: (6, 5, 7, 1), 14: (3,), 15: (1, 1), 16: (2, 3, 7), 17: (7, 3, 2),
                   18: (1, 2), 19: (1, 5), 20: (1, 3)}        # 18..20: one generic derived struct at three instantiations
DERIVED_BY_TYPES = {v: k for k, v in DERIVED_BUNDLES.items() if k != 15}


class BEnc(list):
    """encoding of a bundle; emit() records where it lands so that a twin script can permute it"""


class WorldGen:
    """Builds one script.  Tracks, approximately, which table entries are alive and what they hold,
    so that most operations are valid; a separate share of operations is deliberately invalid."""

    PROFILES = {
        # weights: spawn spawn_at insert remove exchange despawn take_drop take_into clear
        #          reserve1 reserveN flush reserve_bundle spawn_batch colbatch colbatch_at
        "default": [14, 3, 12, 9, 6, 8, 2, 3, 1, 3, 2, 2, 1, 2, 3, 2],
        "alloc":   [12, 6, 2, 1, 1, 14, 4, 4, 2, 8, 6, 3, 0, 3, 6, 5],
        "errors":  [8, 2, 12, 14, 10, 10, 4, 4, 1, 2, 1, 1, 1, 1, 1, 1],
        "reserve": [8, 3, 8, 5, 3, 6, 2, 2, 1, 14, 10, 4, 1, 2, 4, 4],
        "cache":   [10, 1, 22, 14, 16, 3, 0, 1, 0, 1, 0, 0, 1, 1, 2, 0],
        "batch":   [6, 2, 4, 3, 2, 8, 1, 1, 1, 3, 2, 1, 3, 10, 14, 10],
        # few ids, many despawns / id-targeted respawns (generations rewound by spawn_at), and many mutator calls
        # on table entries that are dead by now
        "stale":   [9, 10, 9, 9, 6, 14, 4, 2, 1, 2, 1, 2, 0, 1, 2, 3],
    }

    def __init__(self, rnd, profile="default", err=0.08, ntypes_bias=None):
        self.r = rnd
        self.w = self.PROFILES[profile]
        self.err = 0.45 if profile == "errors" else 0.35 if profile == "stale" else err
        self.stale_bias = 0.85 if profile == "stale" else 0.35
        self.table = []          # dict(world, alive, types:set, reserved)
        self.serial = 0
        self.out = []
        self.nops = 0
        self.poisoned = [False, False]
        self.small = rnd.random() < 0.35   # few distinct types => archetype reuse, swap-remove, edge-cache hits
        self.bundles = []        # (offset in self.out, number of items)

    # -- helpers
    def val(self):
        self.serial += 1
        return self.serial

    def pick_types(self, k=None, static=False):
        pool = list(range(6)) if static else list(range(NT))
        if self.small:
            pool = [t for t in pool if t in (0, 1, 2, 3)]
        if k is None:
            k = self.r.choice([0, 1, 1, 2, 2, 2, 3, 3, 4] if not static else [0, 1, 1, 2, 2, 2, 3])
        k = min(k, len(pool))
        return self.r.sample(pool, k)

    def static_tuple(self, kmax=3):
        for _ in range(20):
            ts = tuple(self.pick_types(self.r.choice([0, 1, 1, 2, 2, 3][:kmax + 3]), static=True))
            if ts in TUPLE_SET:
                return ts
        return (1,)

    def bundle(self, types=None, allow_dup=False, derived=True):
        """returns (encoding, types, has repeated types)"""
        if derived and types is None and self.r.random() < 0.12:
            # a derived Bundle struct (kinds 10..15; 15 names a type twice): fields in the declared order
            kind = self.r.choice([10, 11, 12, 13, 14, 15, 16, 17, 18, 19, 20] if allow_dup else [10, 11, 12, 13, 14, 16, 17, 18, 19, 20, 18, 19, 20])
            ts = DERIVED_BUNDLES[kind]
            return BEnc([kind, len(ts)] + [x for t in ts for x in (t, self.val())]), list(ts), kind == 15
        if allow_dup and self.r.random() < 0.5:
            ts = self.r.choice([(1, 1), (2, 2), (3, 3), (1, 2, 1)])
            return BEnc([0, len(ts)] + [x for t in ts for x in (t, self.val())]), list(ts), True
        if types is None:
            if self.r.random() < 0.6:
                types = list(self.static_tuple())
            else:
                types = self.pick_types()
        types = list(types)
        self.r.shuffle(types)
        kind = 0 if (tuple(types) in TUPLE_SET and self.r.random() < 0.7) else 2
        return BEnc([kind, len(types)] + [x for t in types for x in (t, self.val())]), types, False

    def alive(self, w):
        return [i for i, e in enumerate(self.table) if e["world"] == w and e["alive"]]

    def href(self, w, want_valid=True):
        """encoding of a handle reference; second result: table index or None"""
        r = self.r
        if want_valid:
            a = self.alive(w)
            if a:
                i = r.choice(a[-6:]) if r.random() < 0.5 else r.choice(a)
                return [0, i], i
        k = r.random()
        if k < self.stale_bias and self.table:
            i = r.randrange(len(self.table))          # any table entry: dead, other world, reserved
            return [0, i], i
        if k < 0.5:
            return [1, DANGLING], None
        if k < 0.6:
            return [1, r.getrandbits(64)], None
        if k < 0.65:
            return [1, r.getrandbits(32)], None            # zero upper half -> not a handle
        return [1, (r.randrange(1, 4) << 32) | r.randrange(0, 12)], None   # plausible id, small generation

    def add(self, w, alive=True, types=(), reserved=False, n=1):
        for _ in range(n):
            self.table.append(dict(world=w, alive=alive, types=set(types), reserved=reserved))

    def materialise(self, w):
        for e in self.table:
            if e["world"] == w and e["reserved"]:
                e["reserved"] = False
                e["alive"] = True

    def emit(self, *xs):
        for x in xs:
            if isinstance(x, BEnc):
                self.bundles.append((len(self.out), x[1]))
                self.out.extend(x)
            elif isinstance(x, (list, tuple)):
                self.emit(*x)
            else:
                self.out.append(x)

    def probe(self, extra=3):
        hs = []
        r = self.r
        for _ in range(extra):
            w = r.randrange(2)
            h, _ = self.href(w, want_valid=r.random() < 0.5)
            hs.append(h)
        # most recent entries are the most interesting (just spawned, just despawned, just reserved)
        for i in range(max(0, len(self.table) - 3), len(self.table)):
            hs.append([0, i])
        self.emit(20, len(hs), *hs)

    # -- one random operation
    def step(self):
        r = self.r
        w = r.randrange(2) if r.random() < 0.3 else 0
        if self.poisoned[w]:
            w = 1 - w
            if self.poisoned[w]:
                return
        op = r.choices(range(16), weights=self.w)[0]
        bad = r.random() < self.err
        self.nops += 1
        if op == 0:
            enc, ts, dup = self.bundle(allow_dup=bad and r.random() < 0.15)
            self.emit(1, w, enc)
            self.materialise(w)
            if dup:
                self.poisoned[w] = True
                self.add(w, alive=False)
            else:
                self.add(w, True, ts)
        elif op == 1:
            if r.random() < 0.5 and self.table:
                i = r.randrange(len(self.table)); h = [0, i]
            else:
                h = [1, (r.randrange(1, 4) << 32) | r.randrange(0, 14)]; i = None
            enc, ts, dup = self.bundle()
            self.emit(2, w, h, enc)
            self.materialise(w)
            self.add(w, True, ts)
        elif op == 2:
            h, i = self.href(w, not bad)
            e = self.table[i] if i is not None else None
            # bias towards overlapping / extending the entity's current types
            types = None
            if e is not None and r.random() < 0.5:
                cur = list(e["types"])
                types = r.sample(cur, min(len(cur), r.randrange(0, 3))) + self.pick_types(r.randrange(0, 3))
                types = list(dict.fromkeys(types))
            enc, ts, dup = self.bundle(types, allow_dup=bad and r.random() < 0.1)
            self.emit(3, w, h, enc)
            self.materialise(w)
            if dup and e is not None and e["alive"] and e["world"] == w:
                self.poisoned[w] = True
            elif e is not None and e["alive"] and e["world"] == w:
                e["types"] |= set(ts)
        elif op in (3, 4):
            h, i = self.href(w, not bad)
            e = self.table[i] if i is not None else None
            cat = TUPLES if op == 3 else EXS
            cands = [t for t in cat if len(t) <= 3]
            if e is not None and not bad and r.random() < 0.8:
                ok = [t for t in cands if set(t) <= e["types"] and len(set(t)) == len(t)]
                ts = r.choice(ok) if ok else r.choice(cands)
            else:
                ts = r.choice(cands)
            skind = 0
            if r.random() < 0.12:
                # S is a derived Bundle struct: partial misses (an earlier field present, a later one absent) matter
                skind = r.choice([10, 11, 12, 13, 14, 16, 17, 18, 19, 20])
                ts = DERIVED_BUNDLES[skind]
            if op == 3:
                if skind:
                    self.emit(24, w, h, skind, len(ts), list(ts))
                else:
                    self.emit(4, w, h, len(ts), list(ts))
                self.materialise(w)
                if e is not None and e["alive"] and e["world"] == w:
                    if len(set(ts)) != len(ts):
                        self.poisoned[w] = True
                    elif set(ts) <= e["types"]:
                        e["types"] -= set(ts)
            else:
                if skind == 0 and r.random() < 0.6:
                    tt = r.choice(EXT)
                    if len(set(tt)) != len(tt) and not bad:
                        tt = (1,)
                    enc = BEnc([0, len(tt)] + [x for t in tt for x in (t, self.val())])
                    its = list(tt)
                else:
                    its = self.pick_types(r.randrange(0, 3))
                    enc = BEnc([2, len(its)] + [x for t in its for x in (t, self.val())])
                if skind:
                    self.emit(25, w, h, skind, len(ts), list(ts), enc)
                else:
                    self.emit(5, w, h, len(ts), list(ts), enc)
                self.materialise(w)
                if e is not None and e["alive"] and e["world"] == w:
                    if len(set(ts)) != len(ts) or (set(ts) <= e["types"] and len(set(its)) != len(its)):
                        self.poisoned[w] = True
                    elif set(ts) <= e["types"]:
                        e["types"] = (e["types"] - set(ts)) | set(its)
        elif op in (5, 6):
            h, i = self.href(w, not bad)
            self.emit(6 if op == 5 else 7, w, h)
            self.materialise(w)
            if i is not None and self.table[i]["world"] == w:
                self.table[i]["alive"] = False
        elif op == 7:
            if self.poisoned[1 - w]:
                return
            h, i = self.href(w, not bad)
            self.emit(8, w, h)
            self.materialise(w); self.materialise(1 - w)
            if i is not None and self.table[i]["world"] == w and self.table[i]["alive"]:
                self.table[i]["alive"] = False
                self.add(1 - w, True, self.table[i]["types"])
            else:
                self.add(1 - w, False)
        elif op == 8:
            self.emit(9, w)
            for e in self.table:
                if e["world"] == w:
                    e["alive"] = False; e["reserved"] = False
        elif op == 9:
            self.emit(10, w)
            self.add(w, False, (), reserved=True)
        elif op == 10:
            # now and then more reservations than the component-less archetype has spare rows (one flush, many rows)
            n = r.choice([0, 1, 2, 3, 5]) if r.random() < 0.93 else r.choice([63, 64, 70, 100])
            self.emit(11, w, n)
            self.add(w, False, (), reserved=True, n=n)
        elif op == 11:
            self.emit(12, w)
            self.materialise(w)
        elif op == 12:
            ts = self.static_tuple()
            self.emit(13, w, len(ts), list(ts), r.choice([0, 1, 10, 70]))
            self.materialise(w)
        elif op == 13:
            ts = self.static_tuple()
            n = r.choice([0, 1, 2, 3, 5])
            vals = [self.val() for _ in range(n * len(ts))]
            c = r.random()
            if c < 0.2:
                self.emit(17, w, len(ts), list(ts), n, vals)                    # Extend
            elif c < 0.45:
                self.emit(18, w, r.randrange(0, n + 1), len(ts), list(ts), n, vals)   # iterator dropped early
            else:
                self.emit(14, w, len(ts), list(ts), n, vals)
            self.materialise(w)
            self.add(w, True, ts, n=n)
        elif op in (14, 15):
            ts = self.pick_types(r.choice([0, 1, 2, 2, 3]))
            n = r.choice([0, 1, 2, 3, 4, 6])
            if op == 14:
                vals = [self.val() for _ in range(n * len(ts))]
                if r.random() < 0.3:
                    self.emit(19, w, r.randrange(0, n + 1), len(ts), ts, n, vals)   # iterator dropped early
                else:
                    self.emit(15, w, len(ts), ts, n, vals)
                self.materialise(w)
                self.add(w, True, ts, n=n)
            else:
                hs = []
                used = set()
                for _ in range(n):
                    for _try in range(10):
                        if r.random() < 0.4 and self.table:
                            i = r.randrange(len(self.table)); h = (0, i)
                        else:
                            h = (1, (r.randrange(1, 4) << 32) | r.randrange(0, 16))
                        # the same id twice in one batch is a (cleanly rejected) caller error; keep it rare
                        key = h if h[0] == 0 else ("id", h[1] & 0xFFFFFFFF)
                        if key not in used:
                            used.add(key); break
                    hs.append(list(h))
                self.emit(16, w, len(ts), ts, n, hs, [self.val() for _ in range(n * len(ts))])
                self.materialise(w)
                self.add(w, True, ts, n=n)


QUERIES = CAT.queries()
QASTS = [CAT.q_ast(q) for q in QUERIES]
BATCH_SIZES = [1, 1, 2, 3, 5, 63, 64, 65, 4294967295]


def query_op(g, paths, qpool=None):
    r = g.r
    w = r.randrange(2) if qpool is None else (0 if r.random() < 0.9 else 1)
    if g.poisoned[w]:
        return
    qi = r.choice(qpool) if qpool else (r.randrange(len(QUERIES)) if r.random() < 0.55 else r.randrange(24))
    path = r.choice(paths)
    arg = r.choice(BATCH_SIZES) if path in (3, 10) else (r.randrange(40) + (1000 if r.random() < 0.3 else 0)) if path in (9, 11) else 0
    g.emit(30, w, qi, path, arg, len(QASTS[qi]), QASTS[qi])


def world_case(universe, rnd, profile, nops, probe_every=1, qpaths=None, qrate=0.0):
    g = WorldGen(rnd, profile if profile in WorldGen.PROFILES else "default")
    if profile in ("query", "prepared"):
        g.small = True            # queries range over types 0..3
    if qpaths and profile == "reserve" and rnd.random() < 0.35:
        # a prepared query (and view) that matches entities without components is used while there are none, then
        # reservations are made real without any archetype being added, then it is used again
        qi = rnd.choice([0, 0] + [k for k in range(24)])
        paths = [p for p in qpaths if p in (4, 5, 6)] or [4]
        for _ in range(rnd.randrange(0, 3)):
            g.step()
        g.emit(30, 0, qi, rnd.choice(paths), 0, len(QASTS[qi]), QASTS[qi])
        n = rnd.choice([1, 2, 3])
        g.emit(11, 0, n); g.add(0, False, (), reserved=True, n=n)
        if rnd.random() < 0.5:
            g.emit(30, 0, qi, rnd.choice(paths), 0, len(QASTS[qi]), QASTS[qi])
        g.emit(12, 0); g.materialise(0)
        g.emit(30, 0, qi, rnd.choice(paths), 0, len(QASTS[qi]), QASTS[qi])
        g.probe()
    for i in range(nops):
        g.step()
        if qpaths and rnd.random() < qrate:
            for _ in range(rnd.randrange(1, 4)):
                query_op(g, qpaths)
        if (i + 1) % probe_every == 0:
            g.probe()
    g.probe(extra=6)
    g.emit(21, 0, 21, 1)
    return [1] + universe + g.out


def gen_world(profiles, quick_n, thorough_n, qpaths=None, qrate=0.0):
    def gen(tier, seed, universe):
        rnd = random.Random(seed)
        n = quick_n if tier == "quick" else thorough_n
        for i in range(n):
            prof = profiles[i % len(profiles)]
            k = rnd.random()
            if k < 0.5:
                yield world_case(universe, rnd, prof, rnd.randrange(4, 16), 1, qpaths, qrate)
            elif k < 0.9:
                yield world_case(universe, rnd, prof, rnd.randrange(16, 45), 2 if not qpaths else 5, qpaths, qrate)
            else:
                yield world_case(universe, rnd, prof, rnd.randrange(60, 140), 7 if not qpaths else 20, qpaths, qrate)
    return gen


def nontrivial_world(case, obs):
    # non-trivial: the history has at least 4 operations and reached a state with >= 2 archetypes
    # holding entities or a swap-remove/free-list reuse; approximated by observation length
    return len(obs) > 150


WORLD_RULE = ("engine world: seeded scripts of 4..140 operations over two worlds and 8 component layouts (ZST, "
              "ZST with alignment 8, 4/8-byte, heap-owning, align-64, 24-byte align-1, 320-byte): spawn (static tuples in "
              "any field order from a 68-type catalogue, 8 derived Bundle structs and a generic derived struct at 3 instantiations, EntityBuilder bundles), spawn_at, insert, remove, exchange, "
              "despawn, take (dropped / moved to the other world), clear, reserve_entity/entities, flush, reserve::<T>, "
              "spawn_batch, spawn_column_batch(_at) (iterators consumed fully or dropped after k handles), Extend; handles named by table "
              "index or forged bit patterns; single-component calls go through insert_one/remove_one/exchange_one; remove/exchange "
              "also with a derived struct as the removed bundle; mostly-valid "
              "stream plus a share of invalid calls (dead/foreign/forged/reserved handles, missing components, repeated "
              "types). After every k-th operation both sides dump len, iteration, archetypes with row order, the "
              "allocator's meta/pending/cursor (cfg(hecs_verif) snapshot) and probe contains/entity/get/view for a set "
              "of handles in both worlds; drops are logged per operation. Non-trivial = observation longer than 150 "
              "numbers (several entities/archetypes reached); distinct = distinct scripts")
WORLD_ASSUME = ["world state after a caught hecs panic (duplicate component types, duplicate ids in a column batch) is only "
                "checked for the drop ledger, not for C01/C02 consistency",
                "id-targeted spawns exercised for ids <= 4096 only; entity counts per world stay below ~200",
                "TypeId order taken from the harness at run time (model is parametric in it)"]


# ----------------------------------------------------------------------------- engine 7: reservation schedules
def interleavings(lens):
    """all sequences over thread indices in which thread i occurs lens[i] times"""
    out = []

    def rec(rem, acc):
        if not any(rem):
            out.append(list(acc)); return
        for i, r in enumerate(rem):
            if r:
                rem[i] -= 1; acc.append(i)
                rec(rem, acc)
                acc.pop(); rem[i] += 1
    rec(list(lens), [])
    return out


RCALLS = [(0, 0), (1, 0), (1, 1), (1, 2), (1, 3), (2, 0)]


def enc_reserve(nfree, nlive, progs, sched):
    c = [7, nfree, nlive, len(progs)]
    for p in progs:
        c.append(len(p))
        for (a, b) in p:
            c += [a, b]
    return c + sched


def gen_reserve(tier, seed):
    rnd = random.Random(seed)
    # the split of one request across the free list and fresh ids, for every free-list size
    for nfree in range(0, 5):
        for n in range(0, 7):
            yield enc_reserve(nfree, 1, [[(1, n)], [(0, 0), (2, 0)]], [0, 1, 1])
            yield enc_reserve(nfree, 1, [[(1, n)], [(0, 0), (2, 0)]], [1, 0, 1])
    progs1 = [[c] for c in RCALLS] + [[a, b] for a in RCALLS for b in RCALLS]
    pairs = [(p, q) for p in progs1 for q in progs1]
    if tier == "quick":
        rnd.shuffle(pairs); pairs = pairs[:500]
    for (p, q) in pairs:
        for s in interleavings([len(p), len(q)]):
            yield enc_reserve(rnd.randrange(0, 5), rnd.randrange(0, 3), [p, q], s)
    for _ in range(300 if tier == "quick" else 4000):
        ps = [[rnd.choice(RCALLS) for _ in range(rnd.randrange(1, 4))] for _ in range(3)]
        scheds = interleavings([len(p) for p in ps])
        rnd.shuffle(scheds)
        for s in scheds[:6 if tier == "quick" else 40]:
            yield enc_reserve(rnd.randrange(0, 5), rnd.randrange(0, 3), ps, s)
    for i in range(3 if tier == "quick" else 12):
        yield [70, 4 + 2 * (i % 3), 3000 if tier == "quick" else 20000, i % 5 * 7, seed + i]


def nontrivial_reserve(case, obs):
    # non-trivial: at least two threads reserved something and the free list was non-empty, or stress
    return case[0] == 70 or (case[1] > 0 and len(obs) > 12)


QUERY_RULE = (WORLD_RULE + ". Query operations interleaved with the history: a catalogue of 110 generated query types "
              "(nesting depth <= 3 over &T, &mut T, Option, Or, With, Without, Satisfies, tuples; each type describes "
              "its own AST) asked through query().iter, query_mut, view/view_mut (iteration + random access), "
              "iter_batched (sizes 1,2,3,5,63,64,65,u32::MAX), PreparedQuery::{query,query_mut,view_mut} (one cached "
              "prepared query per type shared by both worlds), query_one/query_one_mut/EntityRef::query, "
              "satisfies and Archetype::access, query_many_mut / View::get_many_mut on handle triples (distinct or with "
              "a repeated handle), QueryMut::into_iter_batched; compared item by item, in order, with reported lengths")
RESERVE_RULE = ("engine sched: worlds with 0..4 ids on the free list; 2-3 cooperative threads with programs of <= 3 calls "
                "over reserve_entity / reserve_entities(0..3) / contains, every interleaving of the calls (each is one "
                "atomic step; yield hook before the atomic op), then flush; plus every split of one reserve_entities(n) "
                "request across free list and fresh ids for n = 0..6, and real-thread stress runs (supporting). "
                "Non-trivial = free list non-empty and at least two results, or a stress run")


# ----------------------------------------------------------------------------- engine 2: twin scripts (C10)
def twin_case(universe, rnd, profile, nops):
    """a script and its twin: every bundle's fields permuted and its representation switched between a
    static tuple and an EntityBuilder where the catalogue allows; spec-level outcome must be identical"""
    g = WorldGen(rnd, profile)
    for i in range(nops):
        g.step()
    g.probe(extra=2)
    g.emit(21, 0, 21, 1)
    a = list(g.out)
    b = list(g.out)
    for (off, n) in g.bundles:
        kind = a[off]
        items = [(a[off + 2 + 2 * i], a[off + 3 + 2 * i]) for i in range(n)]
        if len(set(t for t, _ in items)) != len(items):
            continue                      # repeated types: rejected either way; keep identical
        rnd.shuffle(items)
        ts = tuple(t for t, _ in items)
        if kind == 0:
            # exchange's static T must stay inside its own (smaller) catalogue: only switch to a builder
            nk = 2 if rnd.random() < 0.5 else (0 if ts in TUPLE_SET and ts in set(EXT) | {()} else 2)
        elif kind >= 10:
            # a derived struct: its twin is a tuple in another field order, another derived struct, or a builder
            nk = DERIVED_BY_TYPES[ts] if ts in DERIVED_BY_TYPES and ts != DERIVED_BUNDLES[kind] and rnd.random() < 0.5 \
                else (0 if ts in TUPLE_SET and ts in set(EXT) | {()} and rnd.random() < 0.6 else 2)
        else:
            nk = 0 if ts in set(EXT) and rnd.random() < 0.6 else 2
        b[off] = nk
        for i, (t, v) in enumerate(items):
            b[off + 2 + 2 * i] = t; b[off + 3 + 2 * i] = v
    return [2] + universe + [len(a)] + a + b


def gen_twin(quick_n, thorough_n):
    def gen(tier, seed, universe):
        rnd = random.Random(seed)
        for i in range(quick_n if tier == "quick" else thorough_n):
            prof = ["cache", "default", "cache", "batch"][i % 4]
            yield twin_case(universe, rnd, prof, rnd.randrange(5, 40))
    return gen


# ----------------------------------------------------------------------------- container operations (opcodes 50..86)
class ContGen(WorldGen):
    """world script generator extended with EntityBuilder / EntityBuilderClone / BuiltEntityClone /
    ColumnBatchBuilder / CommandBuffer operations"""

    def __init__(self, rnd, profile="default", focus="all"):
        super().__init__(rnd, profile)
        self.focus = focus
        self.eb = [set() for _ in range(4)]       # types currently in each EntityBuilder
        self.ebc = [set() for _ in range(4)]
        self.built = [None] * 4
        self.batch = [None] * 4                   # dict(types, target, fill{t:n})
        self.cmd = [dict(spawns=0, n=0) for _ in range(2)]

    def cont_step(self):
        r = self.r
        kinds = {"all": ["eb", "ebc", "batch", "cmd"], "builder": ["eb", "ebc", "ebc"], "batch": ["batch"],
                 "cmd": ["cmd"]}[self.focus]
        k = r.choice(kinds)
        w = r.randrange(2) if r.random() < 0.3 else 0
        if self.poisoned[w]:
            w = 1 - w
        if k == "eb":
            s = r.randrange(4)
            c = r.random()
            if c < 0.5:
                # repeated adds of a type replace the value; layouts force growth and re-alignment
                t = r.choice(list(self.eb[s])) if self.eb[s] and r.random() < 0.3 else r.randrange(NT)
                self.emit(50, s, t, self.val()); self.eb[s].add(t)
            elif c < 0.6:
                self.emit(52, s); self.eb[s] = set()
            elif c < 0.75 and not self.poisoned[w]:
                self.emit(53, s, w); self.materialise(w); self.add(w, True, self.eb[s]); self.eb[s] = set()
            elif c < 0.82 and not self.poisoned[w]:
                h, i = self.href(w, r.random() < 0.8)
                self.emit(54, s, w, h); self.materialise(w)
                if i is not None and self.table[i]["alive"] and self.table[i]["world"] == w:
                    self.table[i]["types"] |= self.eb[s]
                self.eb[s] = set()
            elif c < 0.92:
                self.emit(55, s)
            elif c < 0.96:
                self.emit(56, s); self.eb[s] = set()
            else:
                self.emit(57, s); self.eb[s] = set()
        elif k == "ebc":
            s = r.randrange(4)
            c = r.random()
            if r.random() < 0.06 and not self.poisoned[w]:
                # the prefab life cycle in one go: fill, build, spawn, convert back, (extend,) rebuild, spawn again
                ks = r.randrange(4)
                self.emit(61, s); self.ebc[s] = set()
                for t in r.sample(range(NT), r.randrange(1, 4)):
                    self.emit(60, s, t, self.val()); self.ebc[s].add(t)
                self.emit(63, s, ks); self.built[ks] = set(self.ebc[s]); self.ebc[s] = set()
                self.emit(64, ks, w); self.materialise(w); self.add(w, True, self.built[ks])
                if r.random() < 0.5:
                    # convert a CLONE of the built bundle back (its storage is laid out in build order, not in add order)
                    ks2 = (ks + 1 + r.randrange(3)) % 4
                    self.emit(67, ks, ks2); self.built[ks2] = set(self.built[ks])
                    self.emit(65, ks2, s); self.ebc[s] = set(self.built[ks2]); self.built[ks2] = None
                else:
                    self.emit(65, ks, s); self.ebc[s] = set(self.built[ks]); self.built[ks] = None
                if r.random() < 0.6:
                    t = r.randrange(NT); self.emit(60, s, t, self.val()); self.ebc[s].add(t)
                self.emit(66, s)                                                      # has/get/component_types of every type
                if r.random() < 0.3:
                    s2 = (s + 1) % 4
                    self.emit(62, s, s2); self.ebc[s2] = set(self.ebc[s]); self.emit(66, s2)   # and of a clone of the re-opened builder
                self.emit(63, s, ks); self.built[ks] = set(self.ebc[s]); self.ebc[s] = set()
                self.emit(64, ks, w); self.add(w, True, self.built[ks])
            elif c < 0.4:
                t = r.choice(list(self.ebc[s])) if self.ebc[s] and r.random() < 0.3 else r.randrange(NT)
                self.emit(60, s, t, self.val()); self.ebc[s].add(t)
            elif c < 0.46:
                self.emit(61, s); self.ebc[s] = set()
            elif c < 0.54:
                s2 = r.randrange(4)
                self.emit(62, s, s2); self.ebc[s2] = set(self.ebc[s])
            elif c < 0.66:
                ks = r.randrange(4)
                self.emit(63, s, ks); self.built[ks] = set(self.ebc[s]); self.ebc[s] = set()
            elif c < 0.78:
                ks = r.randrange(4)
                if not self.poisoned[w]:
                    self.emit(64, ks, w)
                    if self.built[ks] is not None:
                        self.materialise(w); self.add(w, True, self.built[ks])
                    else:
                        self.add(w, False)
            elif c < 0.86:
                ks = r.randrange(4)
                self.emit(65, ks, s)
                if self.built[ks] is not None:
                    self.ebc[s] = set(self.built[ks]); self.built[ks] = None
            elif c < 0.94:
                self.emit(66, s)
            elif c < 0.97:
                ks, ks2 = r.randrange(4), r.randrange(4)
                self.emit(67, ks, ks2)
                if self.built[ks] is not None:
                    self.built[ks2] = set(self.built[ks])
            else:
                ks = r.randrange(4)
                self.emit(68, ks); self.built[ks] = None
        elif k == "batch":
            s = r.randrange(4)
            b = self.batch[s]
            c = r.random()
            if b is None or c < 0.12:
                ts = self.pick_types(r.choice([0, 1, 2, 2, 3]))
                declared = list(ts)
                if ts and r.random() < 0.3:
                    declared.append(r.choice(ts))          # duplicates declared
                    r.shuffle(declared)
                n = r.choice([0, 1, 2, 3, 5])
                self.emit(70, s, len(declared), declared, n)
                self.batch[s] = dict(types=set(ts), target=n, fill={t: 0 for t in ts})
            elif c < 0.7:
                # push through a fresh writer: usually within the remaining room, sometimes beyond,
                # sometimes for a type the batch does not have
                if b["types"] and r.random() < 0.92:
                    t = r.choice(sorted(b["types"]))
                    room = b["target"] - b["fill"][t]
                    m = r.choice([room, room, max(room - 1, 0), 1, room + 1, 0]) if room else r.choice([0, 1])
                    self.emit(71, s, t, m, [self.val() for _ in range(m)])
                    b["fill"][t] = min(b["target"], b["fill"][t] + m)
                else:
                    t = r.randrange(NT)
                    m = 0 if t in b["types"] else r.choice([0, 1])
                    self.emit(71, s, t, m, [self.val() for _ in range(m)])
            elif c < 0.92 and not self.poisoned[w]:
                self.emit(72, s, w)
                complete = all(v == b["target"] for v in b["fill"].values())
                if complete:
                    self.materialise(w)
                self.add(w, complete, b["types"], n=b["target"])
                self.batch[s] = None
            else:
                self.emit(74, s); self.batch[s] = None
        else:
            cb = r.randrange(2)
            c = r.random()
            st = self.cmd[cb]
            if r.random() < 0.05 and not self.poisoned[w] and self.alive(w):
                # a buffer that records nothing but empty bundles, replayed while reservations are outstanding: direct
                # application (insert of the empty bundle) flushes them
                self.emit(85, cb); self.cmd[cb] = dict(spawns=0, n=0); st = self.cmd[cb]
                self.emit(10, w); self.add(w, False, (), reserved=True)
                self.emit(11, w, 2); self.add(w, False, (), reserved=True, n=2)
                for _ in range(r.randrange(1, 3)):
                    i = r.choice(self.alive(w))
                    self.emit(81, cb, [0, i], BEnc([r.choice([0, 2]), 0])); st["n"] += 1
                self.emit(84, cb, w); self.materialise(w); self.cmd[cb] = dict(spawns=0, n=0)
                self.probe(extra=1)
            elif c < 0.3:
                enc, ts, dup = self.bundle(allow_dup=r.random() < 0.03)
                self.emit(80, cb, enc); st["spawns"] += 1; st["n"] += 1; st["dup"] = st.get("dup", False) or dup
            elif c < 0.5:
                h, i = self.href(w, r.random() < 0.85)
                enc, ts, dup = self.bundle()
                self.emit(81, cb, h, enc); st["n"] += 1
            elif c < 0.62:
                h, i = self.href(w, r.random() < 0.85)
                ts = r.choice([t for t in TUPLES if len(t) <= 2 and len(set(t)) == len(t)])
                self.emit(82, cb, h, len(ts), list(ts)); st["n"] += 1
            elif c < 0.72:
                h, i = self.href(w, r.random() < 0.85)
                self.emit(83, cb, h); st["n"] += 1
                if i is not None:
                    self.table[i]["alive"] = False          # approximately: dies when the buffer runs
            elif c < 0.9:
                if not self.poisoned[w]:
                    self.emit(84, cb, w)
                    self.materialise(w)
                    if st.get("dup"):
                        self.poisoned[w] = True
                    self.add(w, True, (), n=st["spawns"])
                    self.cmd[cb] = dict(spawns=0, n=0)
            elif c < 0.96:
                self.emit(85, cb); self.cmd[cb] = dict(spawns=0, n=0)
            else:
                self.emit(86, cb); self.cmd[cb] = dict(spawns=0, n=0)


def cont_case(universe, rnd, focus, nops):
    g = ContGen(rnd, "default", focus)
    for i in range(nops):
        if rnd.random() < 0.7:
            g.cont_step()
        else:
            g.step()
        if rnd.random() < 0.25:
            g.probe(extra=1)
    g.probe(extra=3)
    if rnd.random() < 0.5:
        g.emit(22)                 # drop the containers before the worlds
        g.emit(21, 0, 21, 1)
    else:
        g.emit(21, 0, 21, 1)       # worlds first; containers are torn down at the end of the case
        g.emit(22)
    return [1] + universe + g.out


def gen_cont(focus, quick_n, thorough_n):
    def gen(tier, seed, universe):
        rnd = random.Random(seed)
        for i in range(quick_n if tier == "quick" else thorough_n):
            f = focus[i % len(focus)]
            yield cont_case(universe, rnd, f, rnd.randrange(6, 60))
    return gen


# ----------------------------------------------------------------------------- borrow guards (opcodes 100..115)
QALL, TTABLE = CAT.queries_all()
QASTS_ALL = [CAT.q_ast(q) for q in QALL]
BAD_ASTS = [CAT.q_ast(q) for q in CAT.BAD]
TR_ASTS = [CAT.q_ast(q) for q in CAT.TR]


def guard_case(universe, rnd, nworld, nguard, conflict_free=False):
    g = WorldGen(rnd, "default")
    g.small = True
    g.w = [30, 0, 10, 4, 2, 6, 0, 2, 0, 2, 1, 1, 0, 3, 3, 0]      # mostly spawns: build some populated archetypes
    for _ in range(nworld):
        g.step()
    r = rnd
    if r.random() < 0.35:
        # empty some archetypes again (they keep their storage and their borrow flags)
        for i in g.alive(0):
            if r.random() < 0.75:
                g.emit(6, 0, 0, i); g.table[i]["alive"] = False
    g.emit(12, 0, 12, 1)                                            # flush both worlds: guards need a frozen world
    slots = []          # dict(kind, qidx, w)

    def pick_q():
        return r.randrange(24) if r.random() < 0.75 else r.randrange(len(QUERIES))

    def qargs(qi):
        return [qi, len(QASTS_ALL[qi])] + QASTS_ALL[qi]

    for _ in range(nguard):
        w = 0 if r.random() < 0.8 else 1
        if g.poisoned[w]:
            continue
        c = r.random()
        kinds = [s["kind"] for s in slots]
        if c < 0.16:
            qi = pick_q(); g.emit(100, w, qargs(qi)); slots.append(dict(kind="q", qidx=qi, w=w))
        elif c < 0.34 and "q" in kinds:
            i = r.choice([i for i, s in enumerate(slots) if s["kind"] == "q"]); g.emit(101, i)
        elif c < 0.40 and any(s["kind"] == "q" and s["qidx"] in CAT.TBASE for s in slots):
            i = r.choice([i for i, s in enumerate(slots) if s["kind"] == "q" and s["qidx"] in CAT.TBASE])
            kind, ri = r.randrange(2), r.randrange(3)
            nq = TTABLE[(slots[i]["qidx"], kind, ri)]
            g.emit(102, i, kind, ri, nq, len(TR_ASTS[ri]), TR_ASTS[ri])
            slots.append(dict(kind="q", qidx=nq, w=slots[i]["w"])); slots[i] = dict(kind="x", qidx=0, w=0)
        elif c < 0.52 and slots:
            i = r.randrange(len(slots)); g.emit(103, i); slots[i] = dict(kind="x", qidx=0, w=0)
        elif c < 0.58:
            qi = pick_q(); g.emit(104, w, qargs(qi)); slots.append(dict(kind="v", qidx=qi, w=w))
        elif c < 0.63:
            qi = pick_q(); g.emit(105, w, qargs(qi)); slots.append(dict(kind="p", qidx=qi, w=w))
        elif c < 0.75:
            h, _ = g.href(w, r.random() < 0.9)
            g.emit(106, w, h, r.randrange(4), 1 if r.random() < 0.4 else 0); slots.append(dict(kind="r?", qidx=0, w=w))
        elif c < 0.78 and slots:
            i = r.randrange(len(slots)); g.emit(107, i); slots.append(dict(kind="r?", qidx=0, w=w))
        elif c < 0.79 and slots:
            rs = [i for i, s_ in enumerate(slots) if s_["kind"] == "r?"]
            g.emit(116, r.choice(rs) if rs and r.random() < 0.85 else r.randrange(len(slots)))
        elif c < 0.85:
            h, _ = g.href(w, r.random() < 0.9)
            qi = pick_q(); g.emit(108, w, h, qargs(qi)); slots.append(dict(kind="o", qidx=qi, w=w))
        elif c < 0.91 and "o" in kinds:
            i = r.choice([i for i, s in enumerate(slots) if s["kind"] == "o"])
            if r.random() < 0.75 or slots[i]["qidx"] not in CAT.TBASE:
                g.emit(109, i)
            else:
                kind, ri = r.randrange(2), r.randrange(3)
                nq = TTABLE[(slots[i]["qidx"], kind, ri)]
                g.emit(110, i, kind, ri, nq, len(TR_ASTS[ri]), TR_ASTS[ri])
                slots.append(dict(kind="o", qidx=nq, w=slots[i]["w"])); slots[i] = dict(kind="x", qidx=0, w=0)
        elif c < 0.955:
            g.emit(111, w, r.randrange(0, 6), r.randrange(4), 1 if r.random() < 0.4 else 0); slots.append(dict(kind="c?", qidx=0, w=w))
        elif c < 0.985 and slots:
            cs = [i for i, s_ in enumerate(slots) if s_["kind"] == "c?"]
            i = r.choice(cs) if cs and r.random() < 0.8 else r.randrange(len(slots))
            g.emit(112, i); slots.append(dict(kind="c?", qidx=0, w=w))
        else:
            bi = r.randrange(len(BAD_ASTS)); path = r.randrange(9)
            g.emit(113, path * 100 + bi, len(BAD_ASTS[bi]), BAD_ASTS[bi])
        g.emit(114)
    g.emit(115)
    g.emit(22, 21, 0, 21, 1)
    return [1] + universe + g.out


def gen_guards(quick_n, thorough_n):
    def gen(tier, seed, universe):
        rnd = random.Random(seed)
        for i in range(quick_n if tier == "quick" else thorough_n):
            yield guard_case(universe, rnd, rnd.randrange(3, 14), rnd.randrange(4, 30))
    return gen


def gen_mix(gens):
    def gen(tier, seed, universe):
        for i, g in enumerate(gens):
            yield from g(tier, seed + 1000 * i, universe)
    return gen


GUARD_RULE = ("engine guards: a world is built by 3..14 operations and frozen; then 4..30 guard operations over both "
              "worlds: query() guards (created, acquired by iteration, narrowed with with()/without(), dropped in any "
              "order), view(), PreparedQuery::query(), get::<&T>/get::<&mut T> (Ref/RefMut, clone), query_one (get, "
              "with/without), Archetype::get column borrows (shared/unique, clone), and statically invalid queries "
              "through query_mut/view_mut/query_one(_mut)/prepared query_mut; 162 query types; after every operation the "
              "borrow state of every column of both worlds is read back with trial borrows (free / shared / unique) and "
              "compared with the model; a ghost reader/writer oracle judges soundness, exactness of conflicts and "
              "release on drop. Non-trivial = observation longer than 150 numbers")
CONT_RULE = (WORLD_RULE + ". Container operations interleaved with the world history: 4 EntityBuilder slots (add with "
             "replacement over all 8 layouts, clear, build+spawn, build+insert, build+drop, drop, has/get/"
             "component_types probes), 4 EntityBuilderClone + 4 BuiltEntityClone slots (add, clear, clone, build, "
             "spawn(&built) repeatedly, From back into a builder, clone of built), 4 ColumnBatchBuilder slots (declared "
             "types incl. duplicates, pushes through successive writers within/beyond the room and for absent types, "
             "build+spawn complete or incomplete, drop), 2 CommandBuffers (spawn/insert/remove/despawn recorded with "
             "static or builder bundles incl. repeated types, run_on either world, clear, drop, reuse); every value "
             "carries a serial, clones get fresh serials, every drop is logged and compared per operation; teardown "
             "order of containers vs worlds varies")
CONT_ASSUME = ["panics raised by user code (Clone/Drop impls of components) and the unwinding they cause are not modelled",
               "allocator events of the arenas are not compared in this engine (see C04)"]


# ----------------------------------------------------------------------------- engine 18: ChangeTracker
def tracker_case(rnd, rounds):
    c = [18]
    nh = 0
    if rnd.random() < 0.04:
        # more than 64 tracked entities in one archetype: the tracker's own Previous<T> insertions make columns grow
        k = rnd.choice([65, 70, 130])
        for _ in range(k):
            c += [1, rnd.choice([0, 0, 0, 4])]; nh += 1
    for _ in range(rounds):
        for _ in range(rnd.randrange(0, 9)):
            k = rnd.random()
            if k < 0.22 or nh == 0:
                c += [1, rnd.randrange(0, 4)]; nh += 1
            elif k < 0.30:
                c += [2]; nh += 1
            elif k < 0.37:
                n = rnd.choice([2, 2, 3, 4])                         # one column batch taking several (freed) ids at once
                c += [7, n, rnd.randrange(0, 4)]; nh += n
            elif k < 0.62:
                c += [3, rnd.randrange(nh), rnd.randrange(0, 4)]     # overwrite with equal or different value
            elif k < 0.80:
                c += [4, rnd.randrange(nh)]                          # remove (then maybe re-add later)
            elif k < 0.93:
                c += [5, rnd.randrange(nh)]                          # despawn; the id may be reused by a spawn
            else:
                c += [8, rnd.randrange(nh), rnd.randrange(0, 4)]     # spawn_at on a dead handle (no-op on a live one)
        # consumption script: any subset and order of added/changed/removed, fully, partially or not at all
        reads = []
        for _ in range(rnd.choice([0, 1, 2, 3, 3, 3, 4])):
            reads.append((rnd.randrange(3), rnd.choice([255, 255, 255, 255, 0, 1, 2, 100, 101, 102])))
        c += [6, len(reads)] + [x for r in reads for x in r]
    c += [6, 3, 0, 255, 1, 255, 2, 255]
    return c


def gen_tracker(tier, seed):
    rnd = random.Random(seed)
    for _ in range(3000 if tier == "quick" else 60000):
        yield tracker_case(rnd, rnd.randrange(1, 7))


def nontrivial_tracker(case, obs):
    return len(case) > 25


# ----------------------------------------------------------------------------- opcode 90: serde
SERDE_Q = [0, 1, 2, 4, 5, 10, 12, 13, 15, 24, 25]        # catalogue entries used with serialize_satisfying ((): everything)
MUT_PARAMS = [0, 1, 2, 3, 4, 5, 7, 100, 1 << 32, (1 << 32) + 3, (1 << 33) + 1, (2 << 32) + 7, (1 << 32) + 40]


def serde_case(universe, rnd, nops, malformed, large=False):
    g = WorldGen(rnd, rnd.choice(["default", "alloc", "batch"]))
    g.small = True
    if rnd.random() < 0.1:
        # two archetypes that differ only in a component the context does not handle collapse onto one serialised
        # component set: the column decoder merges the second block into the first one's archetype, past its capacity
        n1, n2 = rnd.choice([40, 63, 64, 65]), rnd.choice([1, 30, 41, 70])
        for ts, n in (([1], n1), ([1, 5], n2)):
            g.emit(15, 0, len(ts), ts, n, [g.val() for _ in range(n * len(ts))]); g.materialise(0); g.add(0, True, ts, n=n)
        for fmt in (0, 1):
            g.emit(90, 0, fmt, rnd.randrange(2), 0, len(QASTS[0]), QASTS[0], 0)
    if large or (not malformed and rnd.random() < 0.0005):
        # one archetype with more than 4096 entities (sizes at which a decoder may stop trusting announced counts)
        n = 4097          # ids 0..4096: the id-targeted spawns of the decoder are exercised up to id 4096 on both sides
        ts = rnd.choice([[1], [1, 2], [1, 5]])
        g.emit(15, 0, len(ts), ts, n, [g.val() for _ in range(n * len(ts))]); g.materialise(0); g.add(0, True, ts, n=n)
        for reader in (0, 1):
            g.emit(90, 0, 1, reader, 0, len(QASTS[0]), QASTS[0], 0)
        g.emit(90, 0, 0, 0, 0, len(QASTS[0]), QASTS[0], 0)
        g.emit(21, 0, 21, 1)
        return [1] + universe + g.out
    for _ in range(nops):
        g.step()
        if rnd.random() < 0.25:
            w = rnd.randrange(2)
            qi = 0 if rnd.random() < 0.6 else rnd.choice(SERDE_Q)
            muts = []
            if malformed and rnd.random() < 0.8:
                for _ in range(rnd.choice([1, 1, 1, 2, 3])):
                    k = rnd.random()
                    idx = rnd.randrange(0, 14) if k < 0.55 else (rnd.randrange(0, 40) if k < 0.9 else rnd.randrange(0, 110))
                    muts += [idx, rnd.choice([0, 1, 2, 3, 4, 5, 6, 7, 7, 8, 8]), rnd.choice(MUT_PARAMS)]
            fmt = rnd.randrange(2)
            if malformed and fmt == 1 and rnd.random() < 0.12:
                # column format: the announced number of component types of the first block (pre-order node 3) at the u32
                # limit. Nothing is allocated from that number; announced *entity* counts are kept small, because the
                # decoder reserves storage for them (the property bounds announced sizes to allocatable ones)
                muts = [3, 0, rnd.choice([(1 << 32) - 1, (1 << 32) - 1, (1 << 32) - 2])]      # alone: other mutations move nodes
            g.emit(90, w, fmt, rnd.randrange(2), qi, len(QASTS[qi]), QASTS[qi], len(muts) // 3, muts)
    for w in (0, 1):
        for fmt in (0, 1):
            g.emit(90, w, fmt, rnd.randrange(2), 0, len(QASTS[0]), QASTS[0], 0)
    g.emit(21, 0, 21, 1)
    return [1] + universe + g.out


def gen_serde(malformed, quick_n, thorough_n):
    def gen(tier, seed, universe):
        rnd = random.Random(seed)
        for i in range(quick_n if tier == "quick" else thorough_n):
            yield serde_case(universe, rnd, rnd.randrange(3, 30), malformed, large=(i == 0 and not malformed))
    return gen


SERDE_RULE = (WORLD_RULE + ". Serialisation operations on the worlds the history reaches (holes in the id space, bumped "
              "generations, emptied archetypes, unhandled extra components): row and column format, serialize_satisfying "
              "with 9 query types, through a strict token-tree backend whose serializer records announced vs actual "
              "lengths and whose deserializer runs in self-describing and in length-driven mode; one world per run holds an archetype of 4097 entities; the token tree is "
              "compared with the model's; for C15 the tree is mutated (replace node by a number, drop/duplicate elements, "
              "change announced lengths, swap elements, shift numbers, replace by an empty sequence, append one element more than "
              "announced, give the second handle of a list the id of the first with the next generation; node chosen by "
              "pre-order index; and, alone in its operation, the announced number of component types of the first column-format "
              "block set to 2^32-1 or 2^32-2 - announced entity counts stay small, the decoder reserves storage for them) before decoding and the outcome (error / resulting world) compared with the model. "
              "Supporting: serde_json and bincode round trips, truncated bincode input, decoded-vs-dropped component "
              "counts, consistency and continued usability of every accepted world")
SERDE_ASSUME = ["the user context is the documented example generalised: it handles 3 component types identified by number; "
                "component values are numbers", "announced sizes and ids stay allocatable (entity ids <= 4096, counts small)"]


# ----------------------------------------------------------------------------- layout / capacity boundaries (C04)
BOUNDARY = [0, 1, 2, 5, 62, 63, 64, 65, 66, 70, 127, 128, 129, 130]


def layout_case(universe, rnd, nops, qpaths=None):
    g = WorldGen(rnd, "default")
    g.small = rnd.random() < 0.5
    r = rnd
    for _ in range(nops):
        w = 0 if r.random() < 0.85 else 1
        if g.poisoned[w]:
            continue
        c = r.random()
        if c < 0.22:
            ts = g.static_tuple(); n = r.choice(BOUNDARY)
            g.emit(14, w, len(ts), list(ts), n, [g.val() for _ in range(n * len(ts))]); g.materialise(w); g.add(w, True, ts, n=n)
        elif c < 0.42:
            ts = g.pick_types(r.choice([0, 1, 2, 2, 3])); n = r.choice(BOUNDARY)
            g.emit(15, w, len(ts), ts, n, [g.val() for _ in range(n * len(ts))]); g.materialise(w); g.add(w, True, ts, n=n)
        elif c < 0.52:
            ts = g.static_tuple()
            g.emit(13, w, len(ts), list(ts), r.choice(BOUNDARY)); g.materialise(w)
        elif c < 0.60:
            # despawn a run of entities, then respawn: swap-remove and reuse below the capacity
            a = g.alive(w)
            for i in r.sample(a, min(len(a), r.choice([1, 3, 10, 40]))):
                g.emit(6, w, 0, i); g.table[i]["alive"] = False
        else:
            g.w = [30, 2, 22, 12, 8, 10, 2, 4, 0, 3, 2, 2, 2, 0, 0, 0]
            g.step()
        if qpaths and r.random() < 0.12 and not g.poisoned[0]:
            # a prepared view, then growth of the SAME archetype past its capacity (no archetype is created, so the
            # prepared query stays valid while the columns move), then the same prepared view again
            ts = r.choice([(1,), (1, 2), (2, 1)])
            qi = r.choice([1, 5, 9])
            n1, n2 = r.choice([1, 5, 62, 63, 64]), r.choice([2, 5, 66, 70, 130])
            g.emit(14, 0, len(ts), list(ts), n1, [g.val() for _ in range(n1 * len(ts))]); g.materialise(0); g.add(0, True, ts, n=n1)
            g.emit(30, 0, qi, 6, 0, len(QASTS[qi]), QASTS[qi])
            g.emit(14, 0, len(ts), list(ts), n2, [g.val() for _ in range(n2 * len(ts))]); g.add(0, True, ts, n=n2)
            g.emit(30, 0, qi, 6, 0, len(QASTS[qi]), QASTS[qi])
            g.emit(30, 0, qi, r.choice([4, 5]), 0, len(QASTS[qi]), QASTS[qi])
        if qpaths and r.random() < 0.45 and not g.poisoned[w]:
            # few distinct prepared queries, reused across growth of the archetypes they cache (columns move when the
            # capacity is exceeded although no archetype is created)
            query_op(g, qpaths, [1, 5, 9, 2])
        g.emit(23)
    g.probe(extra=2)
    g.emit(23, 21, 0, 21, 1)
    return [1] + universe + g.out


LAYOUT_RULE = ("engine world, layout profile: 8 component layouts (ZST align 1, ZST align 8, 4-byte, 8-byte, heap-owning Box, "
               "size 64 align 64, 24 bytes align 1, 320 bytes; all with drop glue that logs); scripts of 3..15 steps each followed by a layout probe (opcode 23): "
               "spawn_batch / column batches / reserve with sizes at the capacity boundaries " + str(BOUNDARY) + ", runs of "
               "despawns (swap-remove) and ordinary world operations; the probe compares every archetype's capacity with the "
               "model's capacity shadow and checks, in the harness, that every column base is aligned, every non-zero-sized "
               "non-empty column is exactly one live block of the tracking allocator of capacity*size bytes (distinct columns "
               "distinct blocks), and every component reference of a column has the address base + size*row; all values are "
               "compared with the model after every operation; components dropped at a misaligned address and allocator "
               "contract breaches (dealloc/realloc with a layout other than the one allocated, double free) are flagged. "
               "Mixed with " + CONT_RULE + " (builder arenas: get() references aligned, inside one live block, pairwise disjoint) "
               "and " + WORLD_RULE)


def gen_layout(quick_n, thorough_n, qpaths=None):
    def gen(tier, seed, universe):
        rnd = random.Random(seed)
        for _ in range(quick_n if tier == "quick" else thorough_n):
            yield layout_case(universe, rnd, rnd.randrange(3, 16), qpaths)
    return gen


# ----------------------------------------------------------------------------- small scope: every short history
SMALL_OPS = "abcdefghijklmnop"


def small_case(universe, word):
    """one history over a 16-operation alphabet on world 0; `first`/`last` name table entries 0 and len-1
    (a forged handle id 0 generation 1 while the table is empty); ends with a probe of every table entry"""
    out, n, serial = [], 0, [100]

    def v():
        serial[0] += 1
        return serial[0]

    def first():
        return [0, 0] if n else [1, (1 << 32)]

    def last():
        return [0, n - 1] if n else [1, (1 << 32)]
    for ch in word:
        if ch == "a": out += [1, 0, 0, 1, 1, v()]; n += 1
        elif ch == "b": out += [1, 0, 0, 2, 1, v(), 2, v()]; n += 1
        elif ch == "c": out += [3, 0] + first() + [0, 1, 2, v()]
        elif ch == "d": out += [3, 0] + last() + [0, 1, 1, v()]
        elif ch == "e": out += [4, 0] + first() + [1, 1]
        elif ch == "f": out += [6, 0] + first()
        elif ch == "g": out += [6, 0] + last()
        elif ch == "h": out += [10, 0]; n += 1
        elif ch == "i": out += [12, 0]
        elif ch == "j": out += [15, 0, 1, 1, 1, v()]; n += 1
        elif ch == "k": out += [2, 0] + first() + [0, 1, 1, v()]; n += 1
        elif ch == "l": out += [9, 0]
        elif ch == "m": out += [7, 0] + last()
        elif ch == "n": out += [14, 0, 1, 1, 2, v(), v()]; n += 2
        elif ch == "o": out += [16, 0, 1, 1, 1] + first() + [v()]; n += 1
        elif ch == "p": out += [5, 0] + first() + [1, 1] + [0, 1, 2, v()]
    out += [20, n] + [x for i in range(n) for x in (0, i)]
    return [1] + universe + out


def gen_small_scope(depth_quick, depth_thorough):
    """EXHAUSTIVE: every word of length 1..depth over SMALL_OPS (16^1 + ... + 16^depth cases)"""
    import itertools

    def gen(tier, seed, universe):
        d = depth_quick if tier == "quick" else depth_thorough
        for k in range(1, d + 1):
            for word in itertools.product(SMALL_OPS, repeat=k):
                yield small_case(universe, word)
    return gen


SMALL_RULE = ("; plus EXHAUSTIVE small scope: every history of length 1..d (d = 3 quick: 4 368 histories; d = 4 thorough: "
              "69 904) over the 16-operation alphabet {spawn (T1), spawn (T1,T2), insert first (T2), insert last (T1), remove "
              "first [T1], despawn first, despawn last, reserve_entity, flush, column batch of one row, spawn_at first, clear, "
              "take last, spawn_batch of two, column_batch_at [first], exchange first [T1]->(T2)} on one world, followed by a "
              "probe of every handle produced")


def gen_world_ids(tier, seed, universe=None):
    """real-thread supporting runs of engine 17 (concurrent World::new)"""
    for t, r in ([(4, 3000), (2, 4000), (3, 3000)] if tier == "quick" else [(4, 20000), (2, 20000), (3, 20000), (8, 10000)]):
        yield [17, t, r]


def gen_reserve_stress(tier, seed, universe=None):
    """real-thread reservation runs (engine 70): threads, reservations per thread, free-list size"""
    for t, per, nfree in ([(4, 3000, 5), (8, 2000, 0), (3, 4000, 40)] if tier == "quick" else [(4, 20000, 5), (8, 20000, 0), (3, 20000, 40), (16, 5000, 3)]):
        yield [70, t, per, nfree]


def gen_reserve_exhaust(tier, seed, universe=None):
    """engine 71: (nlive, gap, k) with nlive <= gap: the cursor is parked gap ids before the end of the id space"""
    for c in [(3, 5, 5), (0, 0, 2), (2, 2, 3), (1, 4, 6)]:
        yield [71] + list(c)
