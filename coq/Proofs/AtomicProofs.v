From Coq Require Import List NArith ZArith Lia ZifyBool ZifyN.
From HecsV Require Import Base.ListN Base.ListNFacts Model.Atomic.
Import ListNotations.
Open Scope N_scope.
Ltac Zify.zify_post_hook ::= Z.div_mod_to_equations.

(* ---- bit facts for the two masks ---- *)
Lemma land_unique c :
  N.land c UNIQUE_BIT = if N.testbit c 63 then UNIQUE_BIT else 0.
Proof.
  change UNIQUE_BIT with (2 ^ 63).
  apply N.bits_inj; intro n. rewrite N.land_spec, N.pow2_bits_eqb.
  destruct (N.eqb_spec 63 n) as [<-|Hne].
  - rewrite Bool.andb_true_r. destruct (N.testbit c 63) eqn:E.
    + rewrite N.pow2_bits_true. reflexivity.
    + rewrite N.bits_0. reflexivity.
  - rewrite Bool.andb_false_r. destruct (N.testbit c 63).
    + rewrite N.pow2_bits_false by congruence. reflexivity.
    + rewrite N.bits_0. reflexivity.
Qed.

Lemma land_unique_zero c : c < WORD -> (N.land c UNIQUE_BIT = 0 <-> c < UNIQUE_BIT).
Proof.
  intros Hc. rewrite land_unique, N.testbit_eqb. change (2 ^ 63) with UNIQUE_BIT.
  unfold WORD, UNIQUE_BIT in *.
  destruct (N.eqb_spec ((c / 9223372036854775808) mod 2) 1) as [E|E]; split; intros; try lia.
Qed.

Lemma land_mask c : N.land c COUNTER_MASK = c mod UNIQUE_BIT.
Proof. change COUNTER_MASK with (N.ones 63). rewrite N.land_ones. reflexivity. Qed.

(* ---- ghost counts ---- *)
Definition cntW (t : thread) : N := sumf (fun g => match g with GW => 1 | GR => 0 end) (held t).
Definition cntR (t : thread) : N := sumf (fun g => match g with GR => 1 | GW => 0 end) (held t).
Definition cntT (t : thread) : N := match ph t with Rollback => 1 | Idle => 0 end.
Definition cntA (t : thread) : N := sumf (fun c => match c with AcqR => 1 | _ => 0 end) (prog t).

Definition Wn (s : st) := sumf cntW (threads s).
Definition Rn (s : st) := sumf cntR (threads s).
Definition Tn (s : st) := sumf cntT (threads s).
Definition An (s : st) := sumf cntA (threads s).

(* the protocol invariant *)
Definition Inv (s : st) : Prop :=
  panicked s = false /\
  cell s = UNIQUE_BIT * Wn s + Rn s + Tn s /\
  Wn s <= 1 /\ (Wn s = 1 -> Rn s = 0) /\
  Rn s + Tn s + An s < COUNTER_MASK.

Lemma step_thread_inv c t c' t' p W R T A :
  step_thread c t = (c', t', p) ->
  (* the rest of the system: W R T A are the totals of the other threads *)
  let W0 := W + cntW t in let R0 := R + cntR t in let T0 := T + cntT t in let A0 := A + cntA t in
  c = UNIQUE_BIT * W0 + R0 + T0 -> W0 <= 1 -> (W0 = 1 -> R0 = 0) -> R0 + T0 + A0 < COUNTER_MASK ->
  let W1 := W + cntW t' in let R1 := R + cntR t' in let T1 := T + cntT t' in let A1 := A + cntA t' in
  p = false /\ c' = UNIQUE_BIT * W1 + R1 + T1 /\ W1 <= 1 /\ (W1 = 1 -> R1 = 0) /\ R1 + T1 + A1 <= R0 + T0 + A0.
Proof.
  unfold step_thread, cntW, cntR, cntT, cntA.
  destruct t as [pr phs hl lg]; cbn [prog ph held log].
  destruct phs.
  - (* Idle *)
    destruct pr as [|[| |] pr'].
    + intros [= <- <- <-]; cbn [prog ph held log sumf]. intros. repeat split; try assumption; lia.
    + (* AcqR *)
      cbn [sumf]. intros Hst Hc HW HWR Hb.
      assert (Hlt : c < WORD) by (unfold WORD, UNIQUE_BIT, COUNTER_MASK in *; nia).
      rewrite land_mask in Hst.
      destruct (N.eqb_spec (c mod UNIQUE_BIT) COUNTER_MASK) as [E|E].
      { exfalso. unfold WORD, UNIQUE_BIT, COUNTER_MASK in *. nia. }
      destruct (N.eqb_spec (N.land c UNIQUE_BIT) 0) as [E2|E2]; cbn [negb] in Hst.
      * apply land_unique_zero in E2; [|exact Hlt].
        injection Hst as <- <- <-; cbn [prog ph held log sumf].
        unfold wadd1, WORD, UNIQUE_BIT, COUNTER_MASK in *. repeat split; try nia.
      * assert (~ c < UNIQUE_BIT) by (intro; apply E2; apply land_unique_zero; assumption).
        injection Hst as <- <- <-; cbn [prog ph held log sumf].
        unfold wadd1, WORD, UNIQUE_BIT, COUNTER_MASK in *. repeat split; try nia.
    + (* AcqW *)
      cbn [sumf]. intros Hst Hc HW HWR Hb.
      destruct (N.eqb_spec c 0) as [E|E]; injection Hst as <- <- <-; cbn [prog ph held log sumf];
        unfold UNIQUE_BIT, COUNTER_MASK in *; repeat split; try nia.
    + (* Rel *)
      destruct hl as [|[|] hl']; cbn [sumf]; intros Hst Hc HW HWR Hb.
      * injection Hst as <- <- <-; cbn [prog ph held log sumf]. repeat split; try assumption; lia.
      * (* release shared *)
        assert (Hlt : c < WORD) by (unfold WORD, UNIQUE_BIT, COUNTER_MASK in *; nia).
        assert (HW0 : W + sumf (fun g => match g with GR => 0 | GW => 1 end) hl' = 0).
        { destruct (N.eq_dec (W + (0 + sumf (fun g => match g with GR => 0 | GW => 1 end) hl')) 1) as [E1|E1];
            [specialize (HWR E1); lia|lia]. }
        assert (Hcu : c < UNIQUE_BIT) by (unfold UNIQUE_BIT, COUNTER_MASK in *; nia).
        injection Hst as <- <- <-; cbn [prog ph held log sumf].
        destruct (N.eqb_spec c 0) as [E|E]; [exfalso; lia|].
        destruct (N.eqb_spec (N.land c UNIQUE_BIT) 0) as [E2|E2];
          [|exfalso; apply E2; apply land_unique_zero; assumption].
        cbn [orb negb]. unfold wsub1, WORD, UNIQUE_BIT, COUNTER_MASK in *. repeat split; try nia.
      * (* release unique *)
        assert (HW1 : W + (1 + sumf (fun g => match g with GR => 0 | GW => 1 end) hl') = 1) by lia.
        specialize (HWR HW1).
        assert (Hlt : c < WORD) by (unfold WORD, UNIQUE_BIT, COUNTER_MASK in *; nia).
        injection Hst as <- <- <-; cbn [prog ph held log sumf].
        rewrite land_mask.
        destruct (N.eqb_spec (N.land c UNIQUE_BIT) 0) as [E2|E2].
        { exfalso. apply land_unique_zero in E2; [|exact Hlt]. unfold UNIQUE_BIT, COUNTER_MASK in *. nia. }
        unfold WORD, UNIQUE_BIT, COUNTER_MASK in *. repeat split; try nia.
  - (* Rollback *)
    intros [= <- <- <-]; cbn [prog ph held log sumf]. intros Hc HW HWR Hb.
    unfold wsub1, WORD, UNIQUE_BIT, COUNTER_MASK in *. repeat split; try nia.
Qed.

Lemma cnt_pos_in {A} (f : A -> N) l x : In x l -> f x <= sumf f l.
Proof. induction l as [|y l IH]; [intros []|]. cbn [sumf]. intros [->|H]; [lia|]. specialize (IH H). lia. Qed.

Lemma step_inv s i : Inv s -> Inv (step s i).
Proof.
  intros (Hp & Hc & HW & HWR & Hb). unfold step. rewrite Hp.
  destruct (nthN (threads s) i) as [t|] eqn:Ht; [|repeat split; assumption].
  destruct (step_thread (cell s) t) as [[c' t'] p] eqn:Hst.
  unfold Inv, Wn, Rn, Tn, An in *; cbn [cell threads panicked].
  pose proof (sumf_updN cntW _ _ _ t' Ht) as EW.
  pose proof (sumf_updN cntR _ _ _ t' Ht) as ER.
  pose proof (sumf_updN cntT _ _ _ t' Ht) as ET.
  pose proof (sumf_updN cntA _ _ _ t' Ht) as EA.
  pose proof (step_thread_inv _ _ _ _ _
                (sumf cntW (threads s) - cntW t) (sumf cntR (threads s) - cntR t)
                (sumf cntT (threads s) - cntT t) (sumf cntA (threads s) - cntA t) Hst) as H.
  cbn zeta in H.
  pose proof (cnt_pos_in cntW _ _ (nthN_In _ _ _ Ht)) as LW.
  pose proof (cnt_pos_in cntR _ _ (nthN_In _ _ _ Ht)) as LR.
  pose proof (cnt_pos_in cntT _ _ (nthN_In _ _ _ Ht)) as LT.
  pose proof (cnt_pos_in cntA _ _ (nthN_In _ _ _ Ht)) as LA.
  assert (P1 : cell s = UNIQUE_BIT * (sumf cntW (threads s) - cntW t + cntW t) +
                       (sumf cntR (threads s) - cntR t + cntR t) + (sumf cntT (threads s) - cntT t + cntT t))
    by (rewrite Hc; unfold UNIQUE_BIT; lia).
  assert (P2 : sumf cntW (threads s) - cntW t + cntW t <= 1) by lia.
  assert (P3 : sumf cntW (threads s) - cntW t + cntW t = 1 -> sumf cntR (threads s) - cntR t + cntR t = 0)
    by (intros E; assert (E2 : sumf cntW (threads s) = 1) by lia; specialize (HWR E2); lia).
  assert (P4 : sumf cntR (threads s) - cntR t + cntR t + (sumf cntT (threads s) - cntT t + cntT t) +
               (sumf cntA (threads s) - cntA t + cntA t) < COUNTER_MASK) by lia.
  destruct (H P1 P2 P3 P4) as (Hp' & Hc' & HW' & HWR' & Hb').
  subst p. split; [reflexivity|]. unfold UNIQUE_BIT in *. repeat split; lia.
Qed.

Lemma run_inv sched s : Inv s -> Inv (run sched s).
Proof.
  revert s; induction sched as [|i sched IH]; intros s H; cbn [run fold_left]; [exact H|].
  apply IH. apply step_inv. exact H.
Qed.

Lemma sumf_map_init (f : thread -> N) progs :
  (forall p, f (init_thread p) = 0) -> sumf f (map init_thread progs) = 0.
Proof. intros H. induction progs as [|p ps IH]; cbn [map sumf]; [reflexivity|]. rewrite H, IH. reflexivity. Qed.

Definition total_acqr (progs : list (list call)) : N :=
  sumf (fun p => sumf (fun c => match c with AcqR => 1 | _ => 0 end) p) progs.

Lemma init_inv progs : total_acqr progs < COUNTER_MASK -> Inv (init progs).
Proof.
  intros H. unfold Inv, init, Wn, Rn, Tn, An; cbn [cell threads panicked].
  rewrite (sumf_map_init cntW), (sumf_map_init cntR), (sumf_map_init cntT) by reflexivity.
  assert (EA : sumf cntA (map init_thread progs) = total_acqr progs).
  { clear H. unfold total_acqr. induction progs as [|p ps IH]; cbn [map sumf]; [reflexivity|].
    rewrite IH. reflexivity. }
  rewrite EA. unfold UNIQUE_BIT. repeat split; try lia.
Qed.

(* every reachable state *)
Theorem reachable_inv progs sched :
  total_acqr progs < COUNTER_MASK -> Inv (run sched (init progs)).
Proof. intros H. apply run_inv, init_inv, H. Qed.

(* exclusivity in terms of individual threads *)
Theorem exclusive s i j ti tj :
  Inv s -> nthN (threads s) i = Some ti -> nthN (threads s) j = Some tj ->
  In GW (held ti) ->
  (i <> j -> held tj = []) /\ held ti = [GW].
Proof.
  intros (_ & _ & HW & HWR & _) Hi Hj Hin.
  assert (Wi : 1 <= cntW ti).
  { unfold cntW. clear -Hin. induction (held ti) as [|g h IH]; [destruct Hin|].
    cbn [sumf]. destruct Hin as [->|H]; [lia|]. specialize (IH H). lia. }
  pose proof (cnt_pos_in cntW _ _ (nthN_In _ _ _ Hi)) as LW.
  assert (EW : Wn s = 1) by (unfold Wn in *; lia).
  specialize (HWR EW).
  pose proof (sumf_zero_inv cntR _ tj HWR (nthN_In _ _ _ Hj)) as Rj.
  pose proof (sumf_zero_inv cntR _ ti HWR (nthN_In _ _ _ Hi)) as Ri.
  split.
  - intros Hne.
    (* tj holds no writer either, since the total is 1 and ti has it *)
    assert (Wj : cntW tj = 0).
    { unfold Wn in EW.
      set (d := {| prog := []; ph := Idle; held := []; log := [] |}).
      assert (Hd : cntW d = 0) by reflexivity.
      pose proof (sumf_updN cntW _ _ _ d Hi) as E1.
      assert (Hj' : nthN (updN (threads s) i d) j = Some tj)
        by (rewrite nthN_updN_ne by exact Hne; exact Hj).
      pose proof (cnt_pos_in cntW _ _ (nthN_In _ _ _ Hj')) as L2.
      lia. }
    unfold cntW in Wj; unfold cntR in Rj. destruct (held tj) as [|[|] h]; cbn [sumf] in Wj, Rj; [reflexivity|lia|lia].
  - assert (W1 : cntW ti = 1) by (unfold Wn in EW; lia).
    unfold cntW in W1; unfold cntR in Ri.
    destruct (held ti) as [|[|] h]; cbn [sumf] in W1, Ri; [destruct Hin|lia|].
    destruct h as [|[|] h']; cbn [sumf] in W1, Ri; [reflexivity|lia|lia].
Qed.

(* quiescence: all programs finished, everything released => flag is 0 *)
Theorem quiescent s :
  Inv s -> (forall t, In t (threads s) -> ph t = Idle /\ held t = []) -> cell s = 0.
Proof.
  intros (_ & Hc & _) Hall. rewrite Hc. unfold Wn, Rn, Tn.
  rewrite (sumf_zero cntW), (sumf_zero cntR), (sumf_zero cntT); [reflexivity| | |];
    intros t Ht; destruct (Hall t Ht) as [E1 E2]; unfold cntT, cntR, cntW; rewrite ?E1, ?E2; reflexivity.
Qed.

(* a step of thread i never changes what another thread holds *)
Theorem isolation s i j : i <> j -> option_map held (nthN (threads (step s i)) j) = option_map held (nthN (threads s) j).
Proof.
  intros Hne. unfold step. destruct (panicked s); [reflexivity|].
  destruct (nthN (threads s) i) as [t|]; [|reflexivity].
  destruct (step_thread (cell s) t) as [[c' t'] p]. cbn [threads]. rewrite nthN_updN_ne by exact Hne. reflexivity.
Qed.
