(* World::take followed by spawning the TakenEntity into another world keeps both invariants *)
From Coq Require Import List NArith ZArith Bool Lia ZifyBool ZifyNat ZifyN.
From HecsV Require Import Base.ListN Base.ListNFacts Model.EntityBits Model.Types Model.Entities Model.World
  Proofs.MergeSpec Proofs.WorldSpec Proofs.MergeProofs Proofs.WorldLemmas
  Proofs.WorldProofs1 Proofs.WorldProofs2 Proofs.WorldProofs4.
Import ListNotations.
Open Scope N_scope.

Lemma get_row_Done w l sa sr :
  get_row w l = Done (sa, sr) ->
  nthN (w_archs w) (l_arch l) = Some sa /\ nthN (a_rows sa) (l_idx l) = Some sr.
Proof.
  unfold get_row, get_arch, bind.
  destruct (nthN (w_archs w) (l_arch l)) as [a|] eqn:Ea; [|discriminate].
  destruct (nthN (a_rows a) (l_idx l)) as [r|] eqn:Er; [|discriminate].
  intros [= <- <-]. split; [reflexivity|exact Er].
Qed.

Lemma row_bundle_ok u w l sa sr :
  WInv u w -> get_row w l = Done (sa, sr) ->
  bundle_ok {| b_key := None; b_items := r_vals sr |}.
Proof.
  intros I H. apply get_row_Done in H as [Ha Hr].
  apply nthN_In in Ha. apply nthN_In in Hr.
  split.
  - unfold b_types. cbn [b_items].
    rewrite (wi_rowtypes u w I sa sr Ha Hr).
    apply (ati_nodup u). exact (wi_sorted u w I sa Ha).
  - cbn [b_key]. intros k Hk. discriminate Hk.
Qed.

Lemma take_into_keeps u w w2 h w' w2' r :
  total_inj u -> WInv u w -> fits w -> WInv u w2 -> fits w2 ->
  w_take_into u w w2 h = Done (w', w2', r) -> fits w2' ->
  WInv u w' /\ WInv u w2' /\ match r with WOk h2 => valid_entity h2 | _ => True end.
Proof.
  intros Hu I F I2 F2 H F2'.
  unfold w_take_into in H.
  destruct (w_flush w) as [w0|c] eqn:Hfl; cbn [bind] in H; [|discriminate].
  destruct (flush_refines_proof u w w0 I F Hfl) as (I0 & _).
  destruct (get (w_ents w0) h) as [l|] eqn:Hg.
  - destruct (get_row w0 l) as [[sa sr]|c] eqn:Hgr; cbn [bind] in H; [|discriminate].
    destruct (w_spawn u w2 {| b_key := None; b_items := r_vals sr |}) as [[w2s h2]|c] eqn:Hsp;
      cbn [bind] in H; [|discriminate].
    destruct (detach_row w0 l) as [[w1 r1]|c] eqn:Hd; cbn [bind] in H; [|discriminate].
    destruct (free (w_ents w1) h) as [[[e l']|]|c] eqn:Hfr; cbn [bind] in H; try discriminate.
    injection H as <- <- <-.
    assert (Htd : w_take_drop w h = Done (with_ents w1 e, WOk (r_vals r1))).
    { unfold w_take_drop. rewrite Hfl. cbn [bind]. rewrite Hg, Hd. cbn [bind]. rewrite Hfr.
      cbn [bind]. reflexivity. }
    destruct (take_drop_refines_proof u w h _ _ I F Htd) as (I' & _).
    pose proof (row_bundle_ok u w0 l sa sr I0 Hgr) as Hok.
    destruct (spawn_refines_proof u w2 _ w2s h2 Hu I2 F2 Hok Hsp F2') as (I2' & _ & _ & Hv & _).
    split; [exact I'|]. split; [exact I2'|exact Hv].
  - injection H as <- <- <-.
    split; [exact I0|]. split; [exact I2|exact Logic.I].
Qed.

Print Assumptions take_into_keeps.
