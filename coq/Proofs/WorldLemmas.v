(* Reusable lemma library for the World refinement proofs.
   Contents:
     1. entity-table updates (set_loc, set_idx) and frame lemmas for get / get_mut / contains
     2. world record updates (with_ents, with_archs, upd_arch, get_arch)
     3. full specifications of arch_push / arch_remove
     4. the partial invariant WInvP (holes, dangling row), WStatic, conversion from/to WInv
     5. abs: unfolding, frame lemmas, characterisation under the invariant
     6. counting: rows + holes + pending <= ids
     7. the building blocks: fill a hole (push + set_loc / put_row), detach_row, free, flush
     8. archs_get / put_row                                                               *)
From Coq Require Import List NArith ZArith Bool Lia ZifyBool ZifyNat ZifyN.
From HecsV Require Import Base.ListN Base.ListNFacts Model.EntityBits Model.Types Model.Entities Model.World
  Proofs.WorldSpec Proofs.ListNMore.
Import ListNotations.
Open Scope N_scope.

(* ------------------------------------------------------------------------------------------ *)
(** * 1. entity table *)

Definition mkloc (ai i : N) : loc := {| l_arch := ai; l_idx := i |}.

Lemma loc_eta l : l = mkloc (l_arch l) (l_idx l).
Proof. destruct l as [a i]; reflexivity. Qed.

Lemma loc_ext l1 l2 : l_arch l1 = l_arch l2 -> l_idx l1 = l_idx l2 -> l1 = l2.
Proof. destruct l1 as [a1 i1], l2 as [a2 i2]; cbn [l_arch l_idx]; intros -> ->; reflexivity. Qed.

Lemma EMPTY_LOC_idx : l_idx EMPTY_LOC = SENT.
Proof. reflexivity. Qed.
Lemma EMPTY_LOC_arch : l_arch EMPTY_LOC = 0.
Proof. reflexivity. Qed.

Lemma set_loc_pending e id l : pending (set_loc e id l) = pending e.
Proof. unfold set_loc. destruct (nthN (meta e) id); reflexivity. Qed.
Lemma set_loc_cursor e id l : cursor (set_loc e id l) = cursor e.
Proof. unfold set_loc. destruct (nthN (meta e) id); reflexivity. Qed.
Lemma set_loc_elen e id l : elen (set_loc e id l) = elen e.
Proof. unfold set_loc. destruct (nthN (meta e) id); reflexivity. Qed.
Lemma set_loc_lenN_meta e id l : lenN (meta (set_loc e id l)) = lenN (meta e).
Proof. unfold set_loc. destruct (nthN (meta e) id); cbn [meta]; [apply lenN_updN|reflexivity]. Qed.

Lemma set_loc_nth e id l j :
  nthN (meta (set_loc e id l)) j =
  if N.eqb j id then option_map (fun m => {| m_gen := m_gen m; m_loc := l |}) (nthN (meta e) id)
  else nthN (meta e) j.
Proof.
  unfold set_loc. destruct (nthN (meta e) id) as [m|] eqn:E; cbn [meta option_map].
  - rewrite nthN_updN. destruct (N.eqb_spec j id) as [->|Hne]; [|reflexivity].
    apply nthN_Some_lt in E. destruct (N.ltb_spec id (lenN (meta e))); [reflexivity|lia].
  - destruct (N.eqb_spec j id) as [->|Hne]; [exact E|reflexivity].
Qed.

Lemma set_loc_nth_eq e id l m :
  nthN (meta e) id = Some m -> nthN (meta (set_loc e id l)) id = Some {| m_gen := m_gen m; m_loc := l |}.
Proof. intros H. rewrite set_loc_nth, N.eqb_refl, H. reflexivity. Qed.

Lemma set_loc_nth_ne e id l j : j <> id -> nthN (meta (set_loc e id l)) j = nthN (meta e) j.
Proof. intros H. rewrite set_loc_nth. destruct (N.eqb_spec j id); [contradiction|reflexivity]. Qed.

Lemma set_idx_pending e id i : pending (set_idx e id i) = pending e.
Proof. unfold set_idx. destruct (nthN (meta e) id); [apply set_loc_pending|reflexivity]. Qed.
Lemma set_idx_cursor e id i : cursor (set_idx e id i) = cursor e.
Proof. unfold set_idx. destruct (nthN (meta e) id); [apply set_loc_cursor|reflexivity]. Qed.
Lemma set_idx_elen e id i : elen (set_idx e id i) = elen e.
Proof. unfold set_idx. destruct (nthN (meta e) id); [apply set_loc_elen|reflexivity]. Qed.
Lemma set_idx_lenN_meta e id i : lenN (meta (set_idx e id i)) = lenN (meta e).
Proof. unfold set_idx. destruct (nthN (meta e) id); [apply set_loc_lenN_meta|reflexivity]. Qed.

Lemma set_idx_as_set_loc e id i m :
  nthN (meta e) id = Some m -> set_idx e id i = set_loc e id (mkloc (l_arch (m_loc m)) i).
Proof. intros H. unfold set_idx. rewrite H. reflexivity. Qed.

Lemma set_idx_nth e id i j :
  nthN (meta (set_idx e id i)) j =
  if N.eqb j id
  then option_map (fun m => {| m_gen := m_gen m; m_loc := mkloc (l_arch (m_loc m)) i |}) (nthN (meta e) id)
  else nthN (meta e) j.
Proof.
  unfold set_idx. destruct (nthN (meta e) id) as [m|] eqn:E.
  - rewrite set_loc_nth, E. reflexivity.
  - destruct (N.eqb_spec j id) as [->|Hne]; [exact E|reflexivity].
Qed.

Lemma set_idx_nth_eq e id i m :
  nthN (meta e) id = Some m ->
  nthN (meta (set_idx e id i)) id = Some {| m_gen := m_gen m; m_loc := mkloc (l_arch (m_loc m)) i |}.
Proof. intros H. rewrite set_idx_nth, N.eqb_refl, H. reflexivity. Qed.

Lemma set_idx_nth_ne e id i j : j <> id -> nthN (meta (set_idx e id i)) j = nthN (meta e) j.
Proof. intros H. rewrite set_idx_nth. destruct (N.eqb_spec j id); [contradiction|reflexivity]. Qed.

Lemma gen_of_set_loc e id l j : gen_of (set_loc e id l) j = gen_of e j.
Proof.
  unfold gen_of. rewrite set_loc_nth. destruct (N.eqb_spec j id) as [->|Hne]; [|reflexivity].
  destruct (nthN (meta e) id); reflexivity.
Qed.

Lemma gen_of_set_idx e id i j : gen_of (set_idx e id i) j = gen_of e j.
Proof.
  unfold gen_of. rewrite set_idx_nth. destruct (N.eqb_spec j id) as [->|Hne]; [|reflexivity].
  destruct (nthN (meta e) id); reflexivity.
Qed.

(* In-membership of the updated table: used for the generation clause *)
Lemma In_meta_set_loc e id l m' :
  In m' (meta (set_loc e id l)) -> exists m, In m (meta e) /\ m_gen m' = m_gen m.
Proof.
  intros H. apply In_nthN in H as (j & Hj). rewrite set_loc_nth in Hj. revert Hj.
  destruct (N.eqb_spec j id) as [->|Hne]; intros Hj.
  - destruct (nthN (meta e) id) as [m|] eqn:E; [|discriminate]. cbn [option_map] in Hj.
    injection Hj as <-. exists m. split; [eapply nthN_In; exact E|reflexivity].
  - exists m'. split; [eapply nthN_In; exact Hj|reflexivity].
Qed.

Lemma In_meta_set_idx e id i m' :
  In m' (meta (set_idx e id i)) -> exists m, In m (meta e) /\ m_gen m' = m_gen m.
Proof.
  unfold set_idx. destruct (nthN (meta e) id); [apply In_meta_set_loc|].
  intros H. exists m'. split; [exact H|reflexivity].
Qed.

(* frame lemmas: the lookups only depend on the id's own slot, the length, pending and cursor *)
Lemma get_frame e e' h :
  nthN (meta e') (e_id h) = nthN (meta e) (e_id h) -> lenN (meta e') = lenN (meta e) ->
  pending e' = pending e -> cursor e' = cursor e -> get e' h = get e h.
Proof. intros H1 H2 H3 H4. unfold get, reserved_part. rewrite H1, H2, H3, H4. reflexivity. Qed.

Lemma get_mut_frame e e' h :
  nthN (meta e') (e_id h) = nthN (meta e) (e_id h) -> get_mut e' h = get_mut e h.
Proof. intros H1. unfold get_mut. rewrite H1. reflexivity. Qed.

Lemma contains_frame e e' h :
  nthN (meta e') (e_id h) = nthN (meta e) (e_id h) -> lenN (meta e') = lenN (meta e) ->
  pending e' = pending e -> cursor e' = cursor e -> contains e' h = contains e h.
Proof. intros H1 H2 H3 H4. unfold contains, reserved_part. rewrite H1, H2, H3, H4. reflexivity. Qed.

Lemma get_set_loc_ne e id l h : e_id h <> id -> get (set_loc e id l) h = get e h.
Proof.
  intros H. apply get_frame; [apply set_loc_nth_ne; exact H|apply set_loc_lenN_meta
                              |apply set_loc_pending|apply set_loc_cursor].
Qed.

Lemma get_set_idx_ne e id i h : e_id h <> id -> get (set_idx e id i) h = get e h.
Proof.
  intros H. apply get_frame; [apply set_idx_nth_ne; exact H|apply set_idx_lenN_meta
                              |apply set_idx_pending|apply set_idx_cursor].
Qed.

(* get on a located slot *)
Lemma get_located e h m :
  nthN (meta e) (e_id h) = Some m -> l_idx (m_loc m) <> SENT ->
  get e h = if N.eqb (m_gen m) (e_gen h) then Some (m_loc m) else None.
Proof.
  intros H Hs. unfold get. rewrite H.
  destruct (N.eqb (m_gen m) (e_gen h)); cbn [negb]; [|reflexivity].
  destruct (N.eqb_spec (l_idx (m_loc m)) SENT); [contradiction|reflexivity].
Qed.

Lemma get_mut_located e h m :
  nthN (meta e) (e_id h) = Some m -> l_idx (m_loc m) <> SENT ->
  get_mut e h = if N.eqb (m_gen m) (e_gen h) then Some (m_loc m) else None.
Proof.
  intros H Hs. unfold get_mut. rewrite H.
  destruct (N.eqb (m_gen m) (e_gen h)); cbn [andb]; [|reflexivity].
  destruct (N.eqb_spec (l_idx (m_loc m)) SENT); [contradiction|reflexivity].
Qed.

Lemma get_gen_mismatch e h m :
  nthN (meta e) (e_id h) = Some m -> m_gen m <> e_gen h -> get e h = None.
Proof.
  intros H Hg. unfold get. rewrite H. destruct (N.eqb_spec (m_gen m) (e_gen h)); [contradiction|reflexivity].
Qed.

Lemma get_mut_Some_inv e h l :
  get_mut e h = Some l ->
  exists m, nthN (meta e) (e_id h) = Some m /\ m_gen m = e_gen h /\ l_idx (m_loc m) <> SENT /\ l = m_loc m.
Proof.
  unfold get_mut. destruct (nthN (meta e) (e_id h)) as [m|]; [|discriminate].
  destruct (N.eqb_spec (m_gen m) (e_gen h)); cbn [andb]; [|discriminate].
  destruct (N.eqb_spec (l_idx (m_loc m)) SENT); cbn [negb]; [discriminate|].
  intros [= <-]. exists m. auto.
Qed.

(* once nothing is reserved, get and get_mut coincide *)
Lemma reserved_part_flushed e : needs_flush e = false -> reserved_part e = [].
Proof.
  unfold needs_flush, reserved_part. intros H. apply negb_false_iff in H. apply Z.eqb_eq in H.
  apply dropN_ge. lia.
Qed.

Lemma get_eq_get_mut_flushed e h : needs_flush e = false -> get e h = get_mut e h.
Proof.
  intros Hf. unfold get, get_mut. rewrite (reserved_part_flushed e Hf).
  assert (Hc : Z.ltb (cursor e) 0 = false).
  { unfold needs_flush in Hf. apply negb_false_iff in Hf. apply Z.eqb_eq in Hf. lia. }
  rewrite Hc, andb_false_r. cbn [andb memN].
  destruct (nthN (meta e) (e_id h)) as [m|]; [|reflexivity].
  destruct (N.eqb (m_gen m) (e_gen h)); cbn [negb andb]; [|reflexivity].
  destruct (N.eqb (l_idx (m_loc m)) SENT); reflexivity.
Qed.

(* ------------------------------------------------------------------------------------------ *)
(** * 2. world record updates *)

Definition atypes (w : world) : list (list tid) := map a_types (w_archs w).

Lemma nthN_atypes w i : nthN (atypes w) i = option_map a_types (nthN (w_archs w) i).
Proof. unfold atypes. apply nthN_map. Qed.

Lemma w_ents_with_ents w e : w_ents (with_ents w e) = e. Proof. reflexivity. Qed.
Lemma w_archs_with_ents w e : w_archs (with_ents w e) = w_archs w. Proof. reflexivity. Qed.
Lemma w_ents_with_archs w a : w_ents (with_archs w a) = w_ents w. Proof. reflexivity. Qed.
Lemma w_archs_with_archs w a : w_archs (with_archs w a) = a. Proof. reflexivity. Qed.
Lemma w_ents_upd_arch w i a : w_ents (upd_arch w i a) = w_ents w. Proof. reflexivity. Qed.
Lemma w_archs_upd_arch w i a : w_archs (upd_arch w i a) = updN (w_archs w) i a. Proof. reflexivity. Qed.
Lemma with_ents_same w : with_ents w (w_ents w) = w. Proof. destruct w; reflexivity. Qed.
Lemma with_ents_with_ents w e e' : with_ents (with_ents w e) e' = with_ents w e'. Proof. reflexivity. Qed.
Lemma upd_arch_with_ents w e i a : upd_arch (with_ents w e) i a = with_ents (upd_arch w i a) e.
Proof. reflexivity. Qed.
Lemma upd_arch_upd_arch w i a b : upd_arch (upd_arch w i a) i b = upd_arch w i b.
Proof. unfold upd_arch, with_archs. cbn [w_archs w_ents w_index w_b2a w_ins w_rem]. rewrite updN_updN. reflexivity. Qed.

Lemma get_arch_Done w i a : get_arch w i = Done a <-> nthN (w_archs w) i = Some a.
Proof.
  unfold get_arch. destruct (nthN (w_archs w) i); split; intros H; try discriminate; inversion H; reflexivity.
Qed.

Lemma nthN_upd_arch_eq w i a a0 : nthN (w_archs w) i = Some a0 -> nthN (w_archs (upd_arch w i a)) i = Some a.
Proof. intros H. cbn [upd_arch with_archs w_archs]. apply nthN_updN_eq. eapply nthN_Some_lt. exact H. Qed.

Lemma nthN_upd_arch_ne w i a j : j <> i -> nthN (w_archs (upd_arch w i a)) j = nthN (w_archs w) j.
Proof. intros H. cbn [upd_arch with_archs w_archs]. apply nthN_updN_ne. congruence. Qed.

Lemma atypes_upd_arch w i a a0 :
  nthN (w_archs w) i = Some a0 -> a_types a = a_types a0 -> atypes (upd_arch w i a) = atypes w.
Proof.
  intros H Ht. unfold atypes. cbn [upd_arch with_archs w_archs]. rewrite map_updN, Ht.
  apply updN_same. rewrite nthN_map, H. reflexivity.
Qed.

Lemma atypes_with_ents w e : atypes (with_ents w e) = atypes w. Proof. reflexivity. Qed.

(* location -> row *)
Definition row_at (w : world) (l : loc) : option row :=
  match nthN (w_archs w) (l_arch l) with Some a => nthN (a_rows a) (l_idx l) | None => None end.

Lemma row_at_Some w l r :
  row_at w l = Some r <-> exists a, nthN (w_archs w) (l_arch l) = Some a /\ nthN (a_rows a) (l_idx l) = Some r.
Proof.
  unfold row_at. destruct (nthN (w_archs w) (l_arch l)) as [a|].
  - split; [intros H; exists a; auto|intros (a' & [= <-] & H); exact H].
  - split; [discriminate|intros (a' & [=] & _)].
Qed.

Lemma row_at_with_ents w e l : row_at (with_ents w e) l = row_at w l. Proof. reflexivity. Qed.

(* ------------------------------------------------------------------------------------------ *)
(** * 3. arch_push / arch_remove *)

Lemma arch_push_spec a id vals a' i :
  arch_push a id vals = (a', i) ->
  i = lenN (a_rows a) /\ a_types a' = a_types a /\
  a_rows a' = a_rows a ++ [{| r_id := id; r_vals := vals |}] /\
  lenN (a_rows a') = lenN (a_rows a) + 1 /\
  (forall j, j < lenN (a_rows a) -> nthN (a_rows a') j = nthN (a_rows a) j) /\
  nthN (a_rows a') i = Some {| r_id := id; r_vals := vals |} /\
  (forall j, lenN (a_rows a) < j -> nthN (a_rows a') j = None).
Proof.
  unfold arch_push, arch_len. intros [= <- <-]. cbn [a_types a_rows].
  repeat split.
  - rewrite lenN_app. cbn [lenN]. lia.
  - intros j Hj. apply nthN_app1. exact Hj.
  - apply nthN_snoc_last.
  - intros j Hj. apply nthN_ge_None. rewrite lenN_app. cbn [lenN]. lia.
Qed.

Lemma arch_remove_spec a idx a' r moved :
  arch_remove a idx = Done (a', r, moved) ->
  nthN (a_rows a) idx = Some r /\ a_types a' = a_types a /\
  lenN (a_rows a') + 1 = lenN (a_rows a) /\
  (forall i, i <> idx -> i < lenN (a_rows a) - 1 -> nthN (a_rows a') i = nthN (a_rows a) i) /\
  (forall i, lenN (a_rows a) - 1 <= i -> nthN (a_rows a') i = None) /\
  ((idx = lenN (a_rows a) - 1 /\ moved = None) \/
   (idx < lenN (a_rows a) - 1 /\
    exists lr, nthN (a_rows a) (lenN (a_rows a) - 1) = Some lr /\ moved = Some (r_id lr) /\
               nthN (a_rows a') idx = Some lr)).
Proof.
  unfold arch_remove, arch_len.
  destruct (N.eqb_spec (lenN (a_rows a)) 0) as [|Hn]; [discriminate|].
  destruct (nthN (a_rows a) idx) as [r0|] eqn:Ei; [|discriminate].
  destruct (nthN (a_rows a) (lenN (a_rows a) - 1)) as [lr|] eqn:El; [|discriminate].
  pose proof (nthN_Some_lt _ _ _ Ei) as Hlt.
  destruct (N.eqb_spec idx (lenN (a_rows a) - 1)) as [He|He]; intros [= <- <- <-]; cbn [a_types a_rows].
  - repeat split.
    + rewrite lenN_removelastN. lia.
    + intros i _ Hi. apply nthN_removelastN. exact Hi.
    + intros i Hi. apply nthN_ge_None. rewrite lenN_removelastN. exact Hi.
    + left. auto.
  - repeat split.
    + rewrite lenN_removelastN, lenN_updN. lia.
    + intros i Hne Hi. rewrite nthN_removelastN by (rewrite lenN_updN; exact Hi).
      apply nthN_updN_ne. congruence.
    + intros i Hi. apply nthN_ge_None. rewrite lenN_removelastN, lenN_updN. exact Hi.
    + right. split; [lia|]. exists lr. repeat split.
      rewrite nthN_removelastN by (rewrite lenN_updN; lia). apply nthN_updN_eq. exact Hlt.
Qed.

Lemma arch_remove_ok a idx r :
  nthN (a_rows a) idx = Some r -> exists a' moved, arch_remove a idx = Done (a', r, moved).
Proof.
  intros H. unfold arch_remove, arch_len. pose proof (nthN_Some_lt _ _ _ H) as Hlt.
  destruct (N.eqb_spec (lenN (a_rows a)) 0) as [|Hn]; [lia|]. rewrite H.
  destruct (nthN_lt_Some (a_rows a) (lenN (a_rows a) - 1)) as [lr Hlr]; [lia|]. rewrite Hlr.
  destruct (N.eqb idx (lenN (a_rows a) - 1)); eauto.
Qed.

Lemma arch_remove_In a idx a' r moved x :
  arch_remove a idx = Done (a', r, moved) -> In x (a_rows a') -> In x (a_rows a).
Proof.
  intros H Hx. apply In_nthN in Hx as (i & Hi).
  apply arch_remove_spec in H as (_ & _ & Hlen & Hkeep & Hgone & Hcase).
  pose proof (nthN_Some_lt _ _ _ Hi) as Hlt.
  destruct (N.eq_dec i idx) as [->|Hne].
  - destruct Hcase as [[-> _]|(_ & lr & Hlr & _ & Hlr')]; [lia|].
    rewrite Hlr' in Hi. injection Hi as <-. eapply nthN_In. exact Hlr.
  - rewrite Hkeep in Hi by lia. eapply nthN_In. exact Hi.
Qed.

(* ------------------------------------------------------------------------------------------ *)
(** * 4. the invariant, split into a static part (type lists, index, memo tables) and a dynamic
      part (allocator / rows), the latter generalised to intermediate states *)

(* [target_ok] and the remove-edge clause only look at the archetypes' type lists *)
Definition target_okD (u : universe) (ats : list (list tid)) (index : list (list tid * N))
           (src : N) (ts : list tid) (t : itarget) : Prop :=
  exists tys, nthN ats src = Some tys /\
    assert_type_info u (tsort u ts) = 0 /\
    let '(rest, added, replaced, retained) := merge_loop u tys (tsort u ts) tys [] [] [] in
    it_replaced t = replaced /\ it_retained t = retained ++ rest /\
    assoc_list (tsort u (tys ++ added)) index = Some (it_index t).

Lemma target_ok_D u w src ts t : target_ok u w src ts t <-> target_okD u (atypes w) (w_index w) src ts t.
Proof.
  unfold target_ok, target_okD. split.
  - intros (a & Ha & H). exists (a_types a). rewrite nthN_atypes, Ha. split; [reflexivity|exact H].
  - intros (tys & Ht & H). rewrite nthN_atypes in Ht.
    destruct (nthN (w_archs w) src) as [a|]; [|discriminate]. injection Ht as <-. exists a. auto.
Qed.

Record WStaticD (u : universe) (ats : list (list tid)) (index : list (list tid * N))
       (b2a : list (bkey * N)) (ins : list ((N * bkey) * itarget)) (rem : list ((N * bkey) * N)) : Prop := {
  ws_arch0 : nthN ats 0 = Some [];
  ws_sorted : forall ts, In ts ats -> assert_type_info u ts = 0;
  ws_index : forall i ts, nthN ats i = Some ts -> assoc_list ts index = Some i;
  ws_index_inv : forall k i, assoc_list k index = Some i -> nthN ats i = Some k;
  ws_b2a : forall k a, assoc_list k b2a = Some a ->
      assert_type_info u (tsort u (tl k)) = 0 /\ assoc_list (tsort u (tl k)) index = Some a;
  ws_ins : forall src k t, assoc_pair src k ins = Some t -> target_okD u ats index src (tl k) t;
  ws_rem : forall src k i, assoc_pair src k rem = Some i ->
      exists tys, nthN ats src = Some tys /\
        assoc_list (filter (fun x => negb (mem_tid x (tl k))) tys) index = Some i }.

Definition WStatic (u : universe) (w : world) : Prop :=
  WStaticD u (atypes w) (w_index w) (w_b2a w) (w_ins w) (w_rem w).

Lemma WStatic_frame u w w' :
  atypes w' = atypes w -> w_index w' = w_index w -> w_b2a w' = w_b2a w -> w_ins w' = w_ins w ->
  w_rem w' = w_rem w -> WStatic u w -> WStatic u w'.
Proof. unfold WStatic. intros -> -> -> -> ->. auto. Qed.

Lemma WStatic_with_ents u w e : WStatic u (with_ents w e) <-> WStatic u w.
Proof. reflexivity. Qed.

Lemma WStatic_upd_arch u w i a a0 :
  nthN (w_archs w) i = Some a0 -> a_types a = a_types a0 -> WStatic u w -> WStatic u (upd_arch w i a).
Proof.
  intros H Ht. apply WStatic_frame; try reflexivity. eapply atypes_upd_arch; eauto.
Qed.

(* the static clauses in the form WorldSpec states them *)
Lemma WStatic_arch0 u w : WStatic u w -> exists rows, nthN (w_archs w) 0 = Some {| a_types := []; a_rows := rows |}.
Proof.
  intros H. pose proof (ws_arch0 _ _ _ _ _ _ H) as H0. rewrite nthN_atypes in H0.
  destruct (nthN (w_archs w) 0) as [[ts rows]|]; [|discriminate]. cbn [option_map a_types] in H0.
  injection H0 as ->. exists rows. reflexivity.
Qed.

Lemma WStatic_sorted u w a : WStatic u w -> In a (w_archs w) -> assert_type_info u (a_types a) = 0.
Proof. intros H Ha. apply (ws_sorted _ _ _ _ _ _ H). unfold atypes. apply in_map. exact Ha. Qed.

Lemma WStatic_index u w i a :
  WStatic u w -> nthN (w_archs w) i = Some a -> assoc_list (a_types a) (w_index w) = Some i.
Proof. intros H Ha. apply (ws_index _ _ _ _ _ _ H). rewrite nthN_atypes, Ha. reflexivity. Qed.

Lemma WStatic_index_inv u w k i :
  WStatic u w -> assoc_list k (w_index w) = Some i -> exists a, nthN (w_archs w) i = Some a /\ a_types a = k.
Proof.
  intros H Hk. apply (ws_index_inv _ _ _ _ _ _ H) in Hk. rewrite nthN_atypes in Hk.
  destruct (nthN (w_archs w) i) as [a|]; [|discriminate]. injection Hk as <-. eauto.
Qed.

Lemma WStatic_rem u w src k i :
  WStatic u w -> assoc_pair src k (w_rem w) = Some i ->
  exists a, nthN (w_archs w) src = Some a /\
    assoc_list (filter (fun x => negb (mem_tid x (tl k))) (a_types a)) (w_index w) = Some i.
Proof.
  intros H Hk. apply (ws_rem _ _ _ _ _ _ H) in Hk as (tys & Ht & Hk). rewrite nthN_atypes in Ht.
  destruct (nthN (w_archs w) src) as [a|]; [|discriminate]. injection Ht as <-. eauto.
Qed.

Lemma WInv_WStatic u w : WInv u w -> WStatic u w.
Proof.
  intros I. constructor.
  - destruct (wi_arch0 _ _ I) as (rows & H). rewrite nthN_atypes, H. reflexivity.
  - intros ts Hts. unfold atypes in Hts. apply in_map_iff in Hts as (a & <- & Ha). apply (wi_sorted _ _ I a Ha).
  - intros i ts Hts. rewrite nthN_atypes in Hts.
    destruct (nthN (w_archs w) i) as [a|] eqn:E; [|discriminate]. injection Hts as <-. apply (wi_index _ _ I i a E).
  - intros k i Hk. destruct (wi_index_inv _ _ I k i Hk) as (a & Ha & <-). rewrite nthN_atypes, Ha. reflexivity.
  - apply (wi_b2a _ _ I).
  - intros src k t Hk. apply target_ok_D. apply (wi_ins _ _ I src k t Hk).
  - intros src k i Hk. destruct (wi_rem _ _ I src k i Hk) as (a & Ha & H).
    exists (a_types a). rewrite nthN_atypes, Ha. auto.
Qed.

(* ---- the dynamic part ---- *)
Definition dang_n (d : option loc) : N := match d with Some _ => 1 | None => 0 end.
Definition rows_total (w : world) : N := sumf (fun a => lenN (a_rows a)) (w_archs w).
Definition rows_bounded (w : world) : Prop := forall a, In a (w_archs w) -> lenN (a_rows a) <= SENT.

(* [holes]: ids that are allocated (not free, slot exists, counted in len) but whose location is
   not meaningful yet / any more and that own no row.
   [dang]: at most one "dangling" row, which exists but belongs to nobody (its former owner is
   free, a hole, or already located elsewhere).
   [WInvP [] None] is WInv plus the bound on the row counts. *)
Record WInvP (holes : list N) (dang : option loc) (u : universe) (w : world) : Prop := {
  wp_nodup : NoDup (pending (w_ents w));
  wp_pending_lt : forall id, In id (pending (w_ents w)) -> id < lenN (meta (w_ents w));
  wp_cursor : (cursor (w_ents w) <= Z.of_N (lenN (pending (w_ents w))))%Z;
  wp_gen : forall m, In m (meta (w_ents w)) -> 0 < m_gen m < W32;
  wp_holes_nodup : NoDup holes;
  wp_hole : forall id, In id holes -> id < lenN (meta (w_ents w)) /\ ~ In id (pending (w_ents w));
  wp_loc : forall id m, nthN (meta (w_ents w)) id = Some m -> ~ In id holes ->
      (In id (pending (w_ents w)) /\ m_loc m = EMPTY_LOC) \/
      (~ In id (pending (w_ents w)) /\ l_idx (m_loc m) <> SENT /\ Some (m_loc m) <> dang /\
       exists r, row_at w (m_loc m) = Some r /\ r_id r = id);
  wp_row : forall l r, row_at w l = Some r -> Some l <> dang ->
      ~ In (r_id r) holes /\ exists m, nthN (meta (w_ents w)) (r_id r) = Some m /\ m_loc m = l;
  wp_dang : forall l, dang = Some l -> exists r, row_at w l = Some r;
  wp_len : elen (w_ents w) + dang_n dang = rows_total w + lenN holes;
  wp_rowtypes : forall a r, In a (w_archs w) -> In r (a_rows a) -> map fst (r_vals r) = a_types a;
  wp_rows_lt : rows_bounded w;
  wp_static : WStatic u w }.

Definition WInv2 (u : universe) (w : world) : Prop := WInvP [] None u w.

Lemma row_at_idx_lt w l r : rows_bounded w -> row_at w l = Some r -> l_idx l < SENT.
Proof.
  intros Hb H. apply row_at_Some in H as (a & Ha & Hr).
  apply nthN_Some_lt in Hr. pose proof (Hb a (nthN_In _ _ _ Ha)). lia.
Qed.

Lemma WInvP_WInv u w : WInvP [] None u w -> WInv u w.
Proof.
  intros P. pose proof (wp_static _ _ _ _ P) as S. constructor.
  - apply (wp_nodup _ _ _ _ P).
  - apply (wp_pending_lt _ _ _ _ P).
  - apply (wp_cursor _ _ _ _ P).
  - apply (wp_gen _ _ _ _ P).
  - intros id m Hm. destruct (wp_loc _ _ _ _ P id m Hm) as [H|(H1 & H2 & _ & r & Hr & Hid)]; [intros []|left; exact H|].
    right. apply row_at_Some in Hr as (a & Ha & Hr). repeat split; [exact H1|exact H2|]. exists a, r. auto.
  - intros ai a i r Ha Hr.
    destruct (wp_row _ _ _ _ P (mkloc ai i) r) as (_ & m & Hm & Hl); [|discriminate|eauto].
    apply row_at_Some. exists a. auto.
  - pose proof (wp_len _ _ _ _ P) as H. cbn [dang_n lenN] in H. unfold rows_total in H. lia.
  - apply (WStatic_arch0 _ _ S).
  - intros a. apply (WStatic_sorted _ _ _ S).
  - apply (wp_rowtypes _ _ _ _ P).
  - intros i a. apply (WStatic_index _ _ _ _ S).
  - intros k i. apply (WStatic_index_inv _ _ _ _ S).
  - apply (ws_b2a _ _ _ _ _ _ S).
  - intros src k t Hk. apply target_ok_D. apply (ws_ins _ _ _ _ _ _ S src k t Hk).
  - intros src k i. apply (WStatic_rem _ _ _ _ _ S).
Qed.

Lemma WInv_WInvP u w : WInv u w -> rows_bounded w -> WInvP [] None u w.
Proof.
  intros I Hb. constructor.
  - apply (wi_nodup _ _ I).
  - apply (wi_pending_lt _ _ I).
  - apply (wi_cursor _ _ I).
  - apply (wi_gen _ _ I).
  - constructor.
  - intros id [].
  - intros id m Hm _. destruct (wi_loc _ _ I id m Hm) as [H|(H1 & H2 & a & r & Ha & Hr & Hid)]; [left; exact H|].
    right. repeat split; [exact H1|exact H2|discriminate|]. exists r. split; [|exact Hid].
    apply row_at_Some. exists a. auto.
  - intros l r Hr _. split; [intros []|]. apply row_at_Some in Hr as (a & Ha & Hr).
    destruct (wi_row _ _ I _ _ _ _ Ha Hr) as (m & Hm & Hl). exists m. split; [exact Hm|].
    rewrite Hl. symmetry. apply loc_eta.
  - discriminate.
  - cbn [dang_n lenN]. unfold rows_total. rewrite (wi_len _ _ I). lia.
  - apply (wi_rowtypes _ _ I).
  - exact Hb.
  - apply WInv_WStatic. exact I.
Qed.

(* the bound follows from the id space not being exhausted *)
Lemma WInv_rows_le_meta u w a : WInv u w -> In a (w_archs w) -> lenN (a_rows a) <= lenN (meta (w_ents w)).
Proof.
  intros I Ha. apply In_nthN in Ha as (ai & Ha).
  rewrite <- (lenN_map r_id). apply NoDup_bounded_lenN.
  - apply NoDup_nthN_inj. intros i j x Hi Hj. rewrite nthN_map in Hi, Hj.
    destruct (nthN (a_rows a) i) as [ri|] eqn:Ei; [|discriminate].
    destruct (nthN (a_rows a) j) as [rj|] eqn:Ej; [|discriminate].
    cbn [option_map] in Hi, Hj. injection Hi as Hi. injection Hj as Hj.
    destruct (wi_row _ _ I _ _ _ _ Ha Ei) as (mi & Hmi & Hli).
    destruct (wi_row _ _ I _ _ _ _ Ha Ej) as (mj & Hmj & Hlj).
    rewrite Hi in Hmi. rewrite Hj in Hmj. rewrite Hmi in Hmj. injection Hmj as <-.
    rewrite Hli in Hlj. injection Hlj as ->. reflexivity.
  - intros x Hx. apply in_map_iff in Hx as (r & <- & Hr). apply In_nthN in Hr as (i & Hr).
    destruct (wi_row _ _ I _ _ _ _ Ha Hr) as (m & Hm & _). eapply nthN_Some_lt. exact Hm.
Qed.

Lemma fits_meta_lt w : fits w -> lenN (meta (w_ents w)) < SENT.
Proof. unfold fits. lia. Qed.

Lemma WInv_fits_rows_bounded u w : WInv u w -> fits w -> rows_bounded w.
Proof.
  intros I F a Ha. pose proof (WInv_rows_le_meta _ _ _ I Ha). apply fits_meta_lt in F. lia.
Qed.

Lemma WInv_fits_WInvP u w : WInv u w -> fits w -> WInvP [] None u w.
Proof. intros I F. apply WInv_WInvP; [exact I|eapply WInv_fits_rows_bounded; eauto]. Qed.

(* a row other than the dangling one belongs to a located, non-free, non-hole id *)
Lemma WInvP_row_owner holes dang u w l r :
  WInvP holes dang u w -> row_at w l = Some r -> Some l <> dang ->
  ~ In (r_id r) holes /\ ~ In (r_id r) (pending (w_ents w)) /\ l_idx l <> SENT /\
  exists m, nthN (meta (w_ents w)) (r_id r) = Some m /\ m_loc m = l.
Proof.
  intros P Hr Hd. destruct (wp_row _ _ _ _ P l r Hr Hd) as (Hh & m & Hm & Hl).
  pose proof (row_at_idx_lt _ _ _ (wp_rows_lt _ _ _ _ P) Hr) as Hlt.
  split; [exact Hh|]. split; [|split; [lia|eauto]].
  destruct (wp_loc _ _ _ _ P _ _ Hm Hh) as [(_ & He)|(H & _)]; [|exact H].
  rewrite He in Hl. subst l. cbn [EMPTY_LOC l_idx] in Hlt. lia.
Qed.

(* two rows with the same id are the same row *)
Lemma WInvP_row_inj holes dang u w l1 l2 r1 r2 :
  WInvP holes dang u w -> row_at w l1 = Some r1 -> row_at w l2 = Some r2 ->
  Some l1 <> dang -> Some l2 <> dang -> r_id r1 = r_id r2 -> l1 = l2.
Proof.
  intros P H1 H2 D1 D2 E.
  destruct (wp_row _ _ _ _ P _ _ H1 D1) as (_ & m1 & Hm1 & <-).
  destruct (wp_row _ _ _ _ P _ _ H2 D2) as (_ & m2 & Hm2 & <-).
  rewrite E in Hm1. rewrite Hm1 in Hm2. injection Hm2 as <-. reflexivity.
Qed.

(* opening the invariant: a located id and its row can be declared hole + dangling row *)
Lemma WInvP_open u w id m :
  WInvP [] None u w -> nthN (meta (w_ents w)) id = Some m -> l_idx (m_loc m) <> SENT ->
  WInvP [id] (Some (m_loc m)) u w /\ exists r, row_at w (m_loc m) = Some r /\ r_id r = id.
Proof.
  intros P Hm Hs.
  destruct (wp_loc _ _ _ _ P id m Hm) as [(_ & He)|(Hnp & _ & _ & r & Hr & Hid)]; [intros []|rewrite He in Hs; contradiction|].
  split; [|eauto]. constructor.
  - apply (wp_nodup _ _ _ _ P).
  - apply (wp_pending_lt _ _ _ _ P).
  - apply (wp_cursor _ _ _ _ P).
  - apply (wp_gen _ _ _ _ P).
  - repeat constructor. intros [].
  - intros id' [<-|[]]. split; [eapply nthN_Some_lt; exact Hm|exact Hnp].
  - intros id' m' Hm' Hni.
    destruct (wp_loc _ _ _ _ P id' m' Hm') as [H|(H1 & H2 & _ & r' & Hr' & Hid')]; [intros []|left; exact H|].
    right. repeat split; [exact H1|exact H2| |eauto].
    intros [= E]. rewrite E, Hr in Hr'. injection Hr' as <-. apply Hni. left. congruence.
  - intros l r' Hr' Hd. destruct (wp_row _ _ _ _ P l r' Hr') as (_ & m' & Hm' & Hl); [discriminate|].
    split; [|eauto]. intros [E|[]]. rewrite <- E, Hm in Hm'. injection Hm' as <-. congruence.
  - intros l [= <-]. eauto.
  - pose proof (wp_len _ _ _ _ P) as H. cbn [dang_n lenN] in *. lia.
  - apply (wp_rowtypes _ _ _ _ P).
  - apply (wp_rows_lt _ _ _ _ P).
  - apply (wp_static _ _ _ _ P).
Qed.

(* ------------------------------------------------------------------------------------------ *)
(** * 5. abs *)

Lemma abs_unfold w h :
  abs w h = match get (w_ents w) h with
            | None => None
            | Some l => if N.eqb (l_idx l) SENT then Some [] else option_map r_vals (row_at w l)
            end.
Proof.
  unfold abs, row_at. destruct (get (w_ents w) h) as [l|]; [|reflexivity].
  destruct (N.eqb (l_idx l) SENT); [reflexivity|].
  destruct (nthN (w_archs w) (l_arch l)) as [a|]; [|reflexivity].
  destruct (nthN (a_rows a) (l_idx l)); reflexivity.
Qed.

Lemma abs_frame w w' h :
  get (w_ents w') h = get (w_ents w) h ->
  (forall l, get (w_ents w) h = Some l -> l_idx l <> SENT ->
             option_map r_vals (row_at w' l) = option_map r_vals (row_at w l)) ->
  abs w' h = abs w h.
Proof.
  intros Hg Hr. rewrite !abs_unfold, Hg. destruct (get (w_ents w) h) as [l|]; [|reflexivity].
  destruct (N.eqb_spec (l_idx l) SENT); [reflexivity|]. apply Hr; [reflexivity|assumption].
Qed.

Lemma abs_None_get w h : get (w_ents w) h = None -> abs w h = None.
Proof. intros H. rewrite abs_unfold, H. reflexivity. Qed.

Lemma abs_located w h m :
  nthN (meta (w_ents w)) (e_id h) = Some m -> l_idx (m_loc m) <> SENT ->
  abs w h = if N.eqb (m_gen m) (e_gen h) then option_map r_vals (row_at w (m_loc m)) else None.
Proof.
  intros Hm Hs. rewrite abs_unfold, (get_located _ _ _ Hm Hs).
  destruct (N.eqb (m_gen m) (e_gen h)); [|reflexivity].
  destruct (N.eqb_spec (l_idx (m_loc m)) SENT); [contradiction|reflexivity].
Qed.

Lemma abs_gen_mismatch w h m :
  nthN (meta (w_ents w)) (e_id h) = Some m -> m_gen m <> e_gen h -> abs w h = None.
Proof. intros Hm Hg. apply abs_None_get. eapply get_gen_mismatch; eauto. Qed.

(* when nothing is reserved, only located slots are alive *)
Lemma abs_flushed w h :
  flushed w ->
  abs w h = match get_mut (w_ents w) h with
            | Some l => option_map r_vals (row_at w l)
            | None => None
            end.
Proof.
  intros F. rewrite abs_unfold, (get_eq_get_mut_flushed _ h F).
  destruct (get_mut (w_ents w) h) as [l|] eqn:E; [|reflexivity].
  apply get_mut_Some_inv in E as (m & _ & _ & Hs & ->).
  destruct (N.eqb_spec (l_idx (m_loc m)) SENT); [contradiction|reflexivity].
Qed.

Lemma alive_get_mut_flushed w h : flushed w -> alive w h -> get_mut (w_ents w) h <> None.
Proof.
  intros F A E. apply A. rewrite (abs_flushed _ _ F), E. reflexivity.
Qed.

(* ------------------------------------------------------------------------------------------ *)
(** * 6. counting *)

Lemma row_at_upd_arch w ai a' a0 l1 :
  nthN (w_archs w) ai = Some a0 ->
  row_at (upd_arch w ai a') l1 = if N.eqb (l_arch l1) ai then nthN (a_rows a') (l_idx l1) else row_at w l1.
Proof.
  intros H. unfold row_at. destruct (N.eqb_spec (l_arch l1) ai) as [E|E].
  - rewrite E, (nthN_upd_arch_eq _ _ _ _ H). reflexivity.
  - rewrite nthN_upd_arch_ne by exact E. reflexivity.
Qed.

Lemma row_at_mkloc w ai i a : nthN (w_archs w) ai = Some a -> row_at w (mkloc ai i) = nthN (a_rows a) i.
Proof. intros H. unfold row_at. cbn [mkloc l_arch l_idx]. rewrite H. reflexivity. Qed.

(* in an archetype that does not hold the dangling row: rows, holes and free ids are distinct ids *)
Lemma WInvP_count holes dang u w ai a :
  WInvP holes dang u w -> nthN (w_archs w) ai = Some a ->
  (forall l, dang = Some l -> l_arch l <> ai) ->
  lenN (a_rows a) + lenN holes + lenN (pending (w_ents w)) <= lenN (meta (w_ents w)).
Proof.
  intros P Ha Hd.
  assert (Hown : forall i r, nthN (a_rows a) i = Some r ->
            ~ In (r_id r) holes /\ ~ In (r_id r) (pending (w_ents w)) /\
            exists m, nthN (meta (w_ents w)) (r_id r) = Some m /\ m_loc m = mkloc ai i).
  { intros i r Hr. destruct (WInvP_row_owner _ _ _ _ (mkloc ai i) r P) as (H1 & H2 & _ & H3).
    - rewrite (row_at_mkloc _ _ _ _ Ha). exact Hr.
    - intros E. symmetry in E. apply (Hd _ E). reflexivity.
    - auto. }
  rewrite <- (lenN_map r_id), <- !lenN_app. apply NoDup_bounded_lenN.
  - apply NoDup_app_iff. split; [apply NoDup_app_iff; split|split].
    + apply NoDup_nthN_inj. intros i j x Hi Hj. rewrite nthN_map in Hi, Hj.
      destruct (nthN (a_rows a) i) as [ri|] eqn:Ei; [|discriminate].
      destruct (nthN (a_rows a) j) as [rj|] eqn:Ej; [|discriminate].
      cbn [option_map] in Hi, Hj. injection Hi as Hi. injection Hj as Hj.
      destruct (Hown _ _ Ei) as (_ & _ & mi & Hmi & Hli).
      destruct (Hown _ _ Ej) as (_ & _ & mj & Hmj & Hlj).
      rewrite Hi in Hmi. rewrite Hj in Hmj. rewrite Hmi in Hmj. injection Hmj as <-.
      rewrite Hli in Hlj. injection Hlj as ->. reflexivity.
    + split; [apply (wp_holes_nodup _ _ _ _ P)|].
      intros x Hx Hx2. apply in_map_iff in Hx as (r & <- & Hr). apply In_nthN in Hr as (i & Hr).
      destruct (Hown _ _ Hr) as (H & _). contradiction.
    + apply (wp_nodup _ _ _ _ P).
    + intros x Hx Hx2. apply in_app_or in Hx as [Hx|Hx].
      * apply in_map_iff in Hx as (r & <- & Hr). apply In_nthN in Hr as (i & Hr).
        destruct (Hown _ _ Hr) as (_ & H & _). contradiction.
      * destruct (wp_hole _ _ _ _ P _ Hx) as (_ & H). contradiction.
  - intros x Hx. apply in_app_or in Hx as [Hx|Hx]; [apply in_app_or in Hx as [Hx|Hx]|].
    + apply in_map_iff in Hx as (r & <- & Hr). apply In_nthN in Hr as (i & Hr).
      destruct (Hown _ _ Hr) as (_ & _ & m & Hm & _). eapply nthN_Some_lt. exact Hm.
    + apply (wp_hole _ _ _ _ P _ Hx).
    + apply (wp_pending_lt _ _ _ _ P _ Hx).
Qed.

(* ------------------------------------------------------------------------------------------ *)
(** * 7a. detach_row *)

Lemma detach_row_unfold w l w' r :
  detach_row w l = Done (w', r) ->
  exists a a' moved, nthN (w_archs w) (l_arch l) = Some a /\
    arch_remove a (l_idx l) = Done (a', r, moved) /\
    w' = with_ents (upd_arch w (l_arch l) a') (fix_moved (w_ents w) moved (l_idx l)).
Proof.
  unfold detach_row, get_arch. destruct (nthN (w_archs w) (l_arch l)) as [a|]; [|discriminate].
  cbn [bind]. destruct (arch_remove a (l_idx l)) as [[[a' r0] moved]|c] eqn:E; [|discriminate].
  cbn [bind]. intros [= <- <-]. exists a, a', moved. auto.
Qed.

Lemma detach_row_ok w l r : row_at w l = Some r -> exists w', detach_row w l = Done (w', r).
Proof.
  intros H. apply row_at_Some in H as (a & Ha & Hr). unfold detach_row, get_arch. rewrite Ha. cbn [bind].
  destruct (arch_remove_ok _ _ _ Hr) as (a' & moved & E). rewrite E. cbn [bind]. eauto.
Qed.

(* the relocation performed by swap-remove: the last row of the archetype goes to the hole *)
Definition swap_loc (l : loc) (n : N) (l1 : loc) : loc :=
  if N.eqb (l_arch l1) (l_arch l) && N.eqb (l_idx l1) (n - 1) then l else l1.

Lemma swap_loc_other l n l1 :
  (l_arch l1 <> l_arch l \/ l_idx l1 <> n - 1) -> swap_loc l n l1 = l1.
Proof.
  unfold swap_loc. intros [H|H].
  - destruct (N.eqb_spec (l_arch l1) (l_arch l)); [contradiction|reflexivity].
  - destruct (N.eqb_spec (l_idx l1) (n - 1)); [contradiction|]. rewrite andb_false_r. reflexivity.
Qed.

Lemma swap_loc_last l n l1 : l_arch l1 = l_arch l -> l_idx l1 = n - 1 -> swap_loc l n l1 = l.
Proof. unfold swap_loc. intros -> ->. rewrite !N.eqb_refl. reflexivity. Qed.

Lemma emeta_eta m : {| m_gen := m_gen m; m_loc := m_loc m |} = m.
Proof. destruct m as [g lo]; reflexivity. Qed.

Lemma detach_row_shape holes l u w w' r :
  WInvP holes (Some l) u w -> detach_row w l = Done (w', r) ->
  exists a, nthN (w_archs w) (l_arch l) = Some a /\ nthN (a_rows a) (l_idx l) = Some r /\
  let phi := swap_loc l (lenN (a_rows a)) in
  (forall l1 r1, row_at w l1 = Some r1 -> l1 <> l -> row_at w' (phi l1) = Some r1) /\
  (forall l2 r2, row_at w' l2 = Some r2 -> exists l1, l1 <> l /\ row_at w l1 = Some r2 /\ l2 = phi l1) /\
  (forall id m, nthN (meta (w_ents w)) id = Some m -> ~ In id holes ->
     nthN (meta (w_ents w')) id = Some {| m_gen := m_gen m; m_loc := phi (m_loc m) |}) /\
  (forall id, In id holes -> nthN (meta (w_ents w')) id = nthN (meta (w_ents w)) id) /\
  phi EMPTY_LOC = EMPTY_LOC /\
  (forall l1, l_idx l1 <> SENT -> l_idx (phi l1) <> SENT) /\
  pending (w_ents w') = pending (w_ents w) /\ cursor (w_ents w') = cursor (w_ents w) /\
  elen (w_ents w') = elen (w_ents w) /\ lenN (meta (w_ents w')) = lenN (meta (w_ents w)) /\
  atypes w' = atypes w /\ w_index w' = w_index w /\ w_b2a w' = w_b2a w /\ w_ins w' = w_ins w /\
  w_rem w' = w_rem w /\
  rows_total w' + 1 = rows_total w /\
  (forall a1, In a1 (w_archs w') -> In a1 (w_archs w) \/
      (a_types a1 = a_types a /\ lenN (a_rows a1) <= lenN (a_rows a) /\
       forall x, In x (a_rows a1) -> In x (a_rows a))).
Proof.
  intros P H. apply detach_row_unfold in H as (a & a' & moved & Ha & Hrm & ->).
  exists a. pose proof (arch_remove_spec _ _ _ _ _ Hrm) as (Hr & Ht & Hlen & Hkeep & Hgone & Hcase).
  split; [exact Ha|]. split; [exact Hr|]. intros phi.
  set (ai := l_arch l) in *. set (idx := l_idx l) in *. set (n := lenN (a_rows a)) in *.
  pose proof (nthN_Some_lt _ _ _ Hr) as Hidx.
  assert (Hn : n <= SENT) by (apply (wp_rows_lt _ _ _ _ P); eapply nthN_In; exact Ha).
  assert (Hl : l = mkloc ai idx) by apply loc_eta.
  (* rows *)
  assert (HR : forall l1, row_at (with_ents (upd_arch w ai a') (fix_moved (w_ents w) moved idx)) l1 =
                          if N.eqb (l_arch l1) ai then nthN (a_rows a') (l_idx l1) else row_at w l1).
  { intros l1. rewrite row_at_with_ents. apply (row_at_upd_arch _ _ _ _ _ Ha). }
  assert (HRa : forall l1, l_arch l1 = ai -> row_at w l1 = nthN (a_rows a) (l_idx l1)).
  { intros l1 E. unfold row_at. rewrite E, Ha. reflexivity. }
  assert (F1 : forall l1 r1, row_at w l1 = Some r1 -> l1 <> l ->
               row_at (with_ents (upd_arch w ai a') (fix_moved (w_ents w) moved idx)) (phi l1) = Some r1).
  { intros l1 r1 H1 Hne. destruct (N.eq_dec (l_arch l1) ai) as [Ea|Ea].
    - rewrite (HRa _ Ea) in H1. pose proof (nthN_Some_lt _ _ _ H1) as Hi1.
      destruct (N.eq_dec (l_idx l1) (n - 1)) as [Ei|Ei].
      + unfold phi. rewrite swap_loc_last by assumption. rewrite HR. fold ai. rewrite N.eqb_refl. fold idx.
        destruct Hcase as [[Hc _]|(_ & lr & Hlr & _ & Hlr')].
        * exfalso. apply Hne. apply loc_ext; fold ai idx; lia.
        * rewrite Ei, Hlr in H1. injection H1 as <-. exact Hlr'.
      + unfold phi. rewrite swap_loc_other by (right; exact Ei). rewrite HR.
        destruct (N.eqb_spec (l_arch l1) ai); [|contradiction].
        rewrite Hkeep; [exact H1| |lia]. intros E. apply Hne. apply loc_ext; assumption.
    - unfold phi. rewrite swap_loc_other by (left; exact Ea). rewrite HR.
      destruct (N.eqb_spec (l_arch l1) ai); [contradiction|exact H1]. }
  assert (F2 : forall l2 r2, row_at (with_ents (upd_arch w ai a') (fix_moved (w_ents w) moved idx)) l2 = Some r2 ->
               exists l1, l1 <> l /\ row_at w l1 = Some r2 /\ l2 = phi l1).
  { intros l2 r2 H2. rewrite HR in H2. destruct (N.eqb_spec (l_arch l2) ai) as [Ea|Ea].
    - assert (Hi2 : l_idx l2 < n - 1).
      { destruct (N.lt_ge_cases (l_idx l2) (n - 1)) as [Hlt|Hge]; [exact Hlt|].
        rewrite Hgone in H2 by exact Hge. discriminate. }
      destruct (N.eq_dec (l_idx l2) idx) as [Ei|Ei].
      + destruct Hcase as [[Hc _]|(_ & lr & Hlr & _ & Hlr')]; [lia|].
        rewrite Ei, Hlr' in H2. injection H2 as <-.
        exists (mkloc ai (n - 1)). split; [|split].
        * intros E. rewrite Hl in E. injection E as E. lia.
        * rewrite (row_at_mkloc _ _ _ _ Ha). exact Hlr.
        * unfold phi. rewrite swap_loc_last by reflexivity. apply loc_ext; assumption.
      + exists l2. split; [|split].
        * intros E. apply Ei. rewrite E. reflexivity.
        * rewrite (HRa _ Ea). rewrite <- Hkeep by assumption. exact H2.
        * unfold phi. rewrite swap_loc_other; [reflexivity|right; lia].
    - exists l2. split; [|split].
      + intros E. apply Ea. rewrite E. reflexivity.
      + exact H2.
      + unfold phi. rewrite swap_loc_other; [reflexivity|left; exact Ea]. }
  assert (Hphi_empty : phi EMPTY_LOC = EMPTY_LOC).
  { unfold phi. apply swap_loc_other. right. cbn [EMPTY_LOC l_idx]. lia. }
  assert (Hphi_sent : forall l1, l_idx l1 <> SENT -> l_idx (phi l1) <> SENT).
  { intros l1 H1. unfold phi, swap_loc.
    destruct (N.eqb (l_arch l1) (l_arch l) && N.eqb (l_idx l1) (n - 1)); [fold idx; lia|exact H1]. }
  (* the entity table *)
  assert (HE : (forall id m, nthN (meta (w_ents w)) id = Some m -> ~ In id holes ->
                  nthN (meta (fix_moved (w_ents w) moved idx)) id = Some {| m_gen := m_gen m; m_loc := phi (m_loc m) |}) /\
               (forall id, In id holes -> nthN (meta (fix_moved (w_ents w) moved idx)) id = nthN (meta (w_ents w)) id) /\
               pending (fix_moved (w_ents w) moved idx) = pending (w_ents w) /\
               cursor (fix_moved (w_ents w) moved idx) = cursor (w_ents w) /\
               elen (fix_moved (w_ents w) moved idx) = elen (w_ents w) /\
               lenN (meta (fix_moved (w_ents w) moved idx)) = lenN (meta (w_ents w))).
  { destruct Hcase as [[Hc ->]|(Hc & lr & Hlr & -> & Hlr')]; cbn [fix_moved].
    - repeat split; try reflexivity. intros id m Hm Hh. rewrite Hm. f_equal.
      assert (E : phi (m_loc m) = m_loc m); [|rewrite E; symmetry; apply emeta_eta].
      unfold phi, swap_loc.
      destruct (N.eqb_spec (l_arch (m_loc m)) (l_arch l)) as [E1|E1]; [|reflexivity].
      destruct (N.eqb_spec (l_idx (m_loc m)) (n - 1)) as [E2|E2]; [|reflexivity].
      cbn [andb]. apply loc_ext; fold ai idx; [symmetry; exact E1|lia].
    - (* the moved row's owner *)
      assert (Hlr_at : row_at w (mkloc ai (n - 1)) = Some lr) by (rewrite (row_at_mkloc _ _ _ _ Ha); exact Hlr).
      assert (Hlr_nd : Some (mkloc ai (n - 1)) <> Some l).
      { intros E. rewrite Hl in E. injection E as E. lia. }
      destruct (WInvP_row_owner _ _ _ _ _ _ P Hlr_at Hlr_nd) as (Hnh & Hnp & _ & mm & Hmm & Hlmm).
      split; [|split; [|repeat split]].
      + intros id m Hm Hh. destruct (N.eq_dec id (r_id lr)) as [->|Hne].
        * rewrite Hmm in Hm. injection Hm as <-. rewrite (set_idx_nth_eq _ _ _ _ Hmm). f_equal. f_equal.
          rewrite Hlmm. unfold phi. rewrite swap_loc_last by reflexivity. cbn [mkloc l_arch]. symmetry. exact Hl.
        * rewrite set_idx_nth_ne by exact Hne. rewrite Hm. f_equal.
          assert (E : phi (m_loc m) = m_loc m); [|rewrite E; symmetry; apply emeta_eta].
          destruct (wp_loc _ _ _ _ P id m Hm Hh) as [(_ & E)|(_ & _ & Hd & r1 & Hr1 & Hid)].
          -- rewrite E. exact Hphi_empty.
          -- unfold phi, swap_loc.
             destruct (N.eqb_spec (l_arch (m_loc m)) (l_arch l)) as [E1|E1]; [|reflexivity].
             destruct (N.eqb_spec (l_idx (m_loc m)) (n - 1)) as [E2|E2]; [|reflexivity].
             exfalso. apply Hne. rewrite <- Hid.
             assert (E : m_loc m = mkloc ai (n - 1)) by (apply loc_ext; assumption).
             rewrite E, Hlr_at in Hr1. injection Hr1 as <-. reflexivity.
      + intros id Hh. apply set_idx_nth_ne. intros ->. contradiction.
      + apply set_idx_pending.
      + apply set_idx_cursor.
      + apply set_idx_elen.
      + apply set_idx_lenN_meta. }
  destruct HE as (HE1 & HE2 & HE3 & HE4 & HE5 & HE6).
  repeat split; try assumption.
  - apply (atypes_upd_arch _ _ _ _ Ha Ht).
  - unfold rows_total. cbn [with_ents upd_arch with_archs w_archs].
    pose proof (sumf_updN (fun a => lenN (a_rows a)) (w_archs w) ai a a' Ha) as Hs. cbn beta in Hs.
    fold n in Hlen. fold n in Hs. lia.
  - intros a1 Ha1. cbn [with_ents upd_arch with_archs w_archs] in Ha1.
    apply In_updN in Ha1 as [->|Ha1]; [right|left; exact Ha1].
    split; [exact Ht|]. split; [fold n; lia|]. intros x Hx. eapply arch_remove_In; eauto.
Qed.

Lemma get_Some_cases e h l0 :
  get e h = Some l0 ->
  l0 = EMPTY_LOC \/
  exists m, nthN (meta e) (e_id h) = Some m /\ m_gen m = e_gen h /\ l_idx (m_loc m) <> SENT /\ l0 = m_loc m.
Proof.
  unfold get. destruct (nthN (meta e) (e_id h)) as [m|].
  - destruct (N.eqb_spec (m_gen m) (e_gen h)) as [Eg|Eg]; cbn [negb]; [|discriminate].
    destruct (N.eqb_spec (l_idx (m_loc m)) SENT) as [Es|Es].
    + destruct (memN (e_id h) (reserved_part e)); [intros [= <-]; left; reflexivity|discriminate].
    + intros [= <-]. right. exists m. auto.
  - destruct (_ && _); [intros [= <-]; left; reflexivity|discriminate].
Qed.

(* a live, located handle of a non-hole id names a row *)
Lemma WInvP_get_row holes dang u w h l0 :
  WInvP holes dang u w -> ~ In (e_id h) holes -> get (w_ents w) h = Some l0 -> l_idx l0 <> SENT ->
  exists m r, nthN (meta (w_ents w)) (e_id h) = Some m /\ m_gen m = e_gen h /\ l0 = m_loc m /\
    ~ In (e_id h) (pending (w_ents w)) /\ Some l0 <> dang /\ row_at w l0 = Some r /\ r_id r = e_id h.
Proof.
  intros P Hh Hg Hs. apply get_Some_cases in Hg as [->|(m & Hm & Hgen & Hs' & ->)]; [contradiction|].
  destruct (wp_loc _ _ _ _ P _ _ Hm Hh) as [(_ & E)|(H1 & _ & H2 & r & Hr & Hid)]; [rewrite E in Hs; contradiction|].
  exists m, r. auto 10.
Qed.

Lemma detach_row_inv holes l u w w' r :
  WInvP holes (Some l) u w -> detach_row w l = Done (w', r) -> WInvP holes None u w'.
Proof.
  intros P H.
  destruct (detach_row_shape _ _ _ _ _ _ P H)
    as (a & Ha & Hr & F1 & F2 & F3a & F3b & Hpe & Hps & Hp & Hc & He & Hlm & Hat & Hi & Hb & Hin & Hre & Htot & Harch).
  assert (Hold : forall id m', nthN (meta (w_ents w')) id = Some m' -> exists m, nthN (meta (w_ents w)) id = Some m).
  { intros id m' Hm'. apply nthN_Some_lt in Hm'. rewrite Hlm in Hm'. apply nthN_lt_Some. exact Hm'. }
  constructor.
  - rewrite Hp. apply (wp_nodup _ _ _ _ P).
  - intros id. rewrite Hp, Hlm. apply (wp_pending_lt _ _ _ _ P).
  - rewrite Hc, Hp. apply (wp_cursor _ _ _ _ P).
  - intros m' Hm'. apply In_nthN in Hm' as (id & Hm'). destruct (Hold _ _ Hm') as (m & Hm).
    pose proof (wp_gen _ _ _ _ P m (nthN_In _ _ _ Hm)) as Hg.
    destruct (in_dec N.eq_dec id holes) as [Hh|Hh].
    + rewrite (F3b _ Hh), Hm in Hm'. injection Hm' as <-. exact Hg.
    + rewrite (F3a _ _ Hm Hh) in Hm'. injection Hm' as <-. exact Hg.
  - apply (wp_holes_nodup _ _ _ _ P).
  - intros id. rewrite Hlm, Hp. apply (wp_hole _ _ _ _ P).
  - intros id m' Hm' Hh. destruct (Hold _ _ Hm') as (m & Hm).
    rewrite (F3a _ _ Hm Hh) in Hm'. injection Hm' as <-. cbn [m_loc]. rewrite Hp.
    destruct (wp_loc _ _ _ _ P _ _ Hm Hh) as [(H1 & H2)|(H1 & H2 & H3 & r1 & Hr1 & Hid)].
    + left. split; [exact H1|]. rewrite H2. exact Hpe.
    + right. repeat split; [exact H1|apply Hps; exact H2|discriminate|].
      exists r1. split; [|exact Hid]. apply F1; [exact Hr1|]. intros E. apply H3. rewrite E. reflexivity.
  - intros l2 r2 H2 _. destruct (F2 _ _ H2) as (l1 & Hne & H1 & ->).
    destruct (wp_row _ _ _ _ P _ _ H1) as (Hh & m & Hm & Hl1); [intros [= E]; contradiction|].
    split; [exact Hh|]. eexists. split; [apply (F3a _ _ Hm Hh)|]. cbn [m_loc]. rewrite Hl1. reflexivity.
  - discriminate.
  - pose proof (wp_len _ _ _ _ P) as Hl. cbn [dang_n] in *. rewrite He. lia.
  - intros a1 r1 Ha1 Hr1. destruct (Harch _ Ha1) as [Ho|(Ht & _ & Hx)].
    + apply (wp_rowtypes _ _ _ _ P _ _ Ho Hr1).
    + rewrite Ht. apply (wp_rowtypes _ _ _ _ P a r1); [eapply nthN_In; exact Ha|apply Hx; exact Hr1].
  - intros a1 Ha1. destruct (Harch _ Ha1) as [Ho|(_ & Hle & _)].
    + apply (wp_rows_lt _ _ _ _ P _ Ho).
    + pose proof (wp_rows_lt _ _ _ _ P a (nthN_In _ _ _ Ha)). lia.
  - eapply WStatic_frame; try eassumption. apply (wp_static _ _ _ _ P).
Qed.

Lemma detach_row_row holes l u w w' r :
  WInvP holes (Some l) u w -> detach_row w l = Done (w', r) -> row_at w l = Some r.
Proof.
  intros P H. destruct (detach_row_shape _ _ _ _ _ _ P H) as (a & Ha & Hr & _).
  apply row_at_Some. eauto.
Qed.

(* what detach_row leaves alone in the entity table *)
Lemma detach_row_ents holes l u w w' r :
  WInvP holes (Some l) u w -> detach_row w l = Done (w', r) ->
  pending (w_ents w') = pending (w_ents w) /\ cursor (w_ents w') = cursor (w_ents w) /\
  elen (w_ents w') = elen (w_ents w) /\ lenN (meta (w_ents w')) = lenN (meta (w_ents w)) /\
  needs_flush (w_ents w') = needs_flush (w_ents w) /\
  (forall id, gen_of (w_ents w') id = gen_of (w_ents w) id) /\
  (forall id, In id holes -> nthN (meta (w_ents w')) id = nthN (meta (w_ents w)) id) /\
  (forall id m, nthN (meta (w_ents w)) id = Some m -> In id (pending (w_ents w)) -> ~ In id holes ->
     nthN (meta (w_ents w')) id = Some m) /\
  atypes w' = atypes w /\ w_index w' = w_index w /\ w_b2a w' = w_b2a w /\ w_ins w' = w_ins w /\
  w_rem w' = w_rem w.
Proof.
  intros P H.
  destruct (detach_row_shape _ _ _ _ _ _ P H)
    as (a & Ha & Hr & F1 & F2 & F3a & F3b & Hpe & Hps & Hp & Hc & He & Hlm & Hat & Hi & Hb & Hin & Hre & Htot & Harch).
  repeat split; try assumption.
  - unfold needs_flush. rewrite Hc, Hp. reflexivity.
  - intros id. unfold gen_of. destruct (in_dec N.eq_dec id holes) as [Hh|Hh]; [rewrite (F3b _ Hh); reflexivity|].
    destruct (nthN (meta (w_ents w)) id) as [m|] eqn:E.
    + rewrite (F3a _ _ E Hh). reflexivity.
    + rewrite nthN_ge_None; [reflexivity|]. rewrite Hlm. apply nthN_None_ge. exact E.
  - intros id m Hm Hpn Hh. rewrite (F3a _ _ Hm Hh).
    destruct (wp_loc _ _ _ _ P _ _ Hm Hh) as [(_ & E)|(Hn & _)]; [|contradiction].
    rewrite E, Hpe, <- E. f_equal. apply emeta_eta.
Qed.

Lemma detach_row_abs holes l u w w' r h :
  WInvP holes (Some l) u w -> detach_row w l = Done (w', r) -> ~ In (e_id h) holes -> abs w' h = abs w h.
Proof.
  intros P H Hh.
  destruct (detach_row_shape _ _ _ _ _ _ P H)
    as (a & Ha & Hr & F1 & F2 & F3a & F3b & Hpe & Hps & Hp & Hc & He & Hlm & _).
  destruct (nthN (meta (w_ents w)) (e_id h)) as [m|] eqn:E.
  - pose proof (F3a _ _ E Hh) as E'.
    destruct (wp_loc _ _ _ _ P _ _ E Hh) as [(_ & El)|(_ & Hs & Hd & r1 & Hr1 & Hid)].
    + rewrite El, Hpe, <- El, emeta_eta in E'.
      apply abs_frame; [apply get_frame; congruence|].
      intros l0 Hg Hs. exfalso. apply get_Some_cases in Hg as [->|(m0 & Hm0 & _ & Hs0 & ->)]; [apply Hs; reflexivity|].
      rewrite E in Hm0. injection Hm0 as <-. rewrite El in Hs0. apply Hs0. reflexivity.
    + rewrite (abs_located _ _ _ E Hs).
      rewrite (abs_located w' h _ E') by (cbn [m_loc]; apply Hps; exact Hs). cbn [m_gen m_loc].
      rewrite Hr1, (F1 _ _ Hr1); [reflexivity|]. intros El. apply Hd. rewrite El. reflexivity.
  - assert (E' : nthN (meta (w_ents w')) (e_id h) = None).
    { apply nthN_ge_None. rewrite Hlm. apply nthN_None_ge. exact E. }
    apply abs_frame; [apply get_frame; congruence|].
    intros l0 Hg Hs. exfalso. apply get_Some_cases in Hg as [->|(m0 & Hm0 & _)]; [apply Hs; reflexivity|congruence].
Qed.

(* ------------------------------------------------------------------------------------------ *)
(** * 7b. free *)

Lemma free_spec e h e' l :
  free e h = Done (Some (e', l)) ->
  exists m, needs_flush e = false /\ nthN (meta e) (e_id h) = Some m /\ m_gen m = e_gen h /\
    l_idx (m_loc m) <> SENT /\ l = m_loc m /\ elen e <> 0 /\
    e' = {| meta := updN (meta e) (e_id h) {| m_gen := next_gen (m_gen m); m_loc := EMPTY_LOC |};
            pending := pending e ++ [e_id h];
            cursor := Z.of_N (lenN (pending e ++ [e_id h])); elen := elen e - 1 |}.
Proof.
  unfold free. destruct (needs_flush e); [discriminate|].
  destruct (nthN (meta e) (e_id h)) as [m|]; [|discriminate].
  destruct (N.eqb_spec (m_gen m) (e_gen h)) as [Eg|Eg]; cbn [negb orb]; [|discriminate].
  destruct (N.eqb_spec (l_idx (m_loc m)) SENT) as [Es|Es]; [discriminate|].
  destruct (N.eqb_spec (elen e) 0) as [El|El]; [discriminate|].
  intros [= <- <-]. exists m. auto 10.
Qed.

Lemma free_None_spec e h : free e h = Done None -> needs_flush e = false /\ get_mut e h = None.
Proof.
  unfold free, get_mut. destruct (needs_flush e); [discriminate|].
  destruct (nthN (meta e) (e_id h)) as [m|]; [|auto].
  destruct (N.eqb_spec (m_gen m) (e_gen h)) as [Eg|Eg]; cbn [negb orb andb]; [|auto].
  destruct (N.eqb_spec (l_idx (m_loc m)) SENT) as [Es|Es]; cbn [negb]; [auto|].
  destruct (N.eqb (elen e) 0); discriminate.
Qed.

Lemma free_ok_None e h : needs_flush e = false -> get_mut e h = None -> free e h = Done None.
Proof.
  unfold free, get_mut. intros ->. destruct (nthN (meta e) (e_id h)) as [m|]; [|auto].
  destruct (N.eqb_spec (m_gen m) (e_gen h)) as [Eg|Eg]; cbn [negb orb andb]; [|auto].
  destruct (N.eqb_spec (l_idx (m_loc m)) SENT) as [Es|Es]; cbn [negb]; [auto|discriminate].
Qed.

Lemma free_ok_Some e h l :
  needs_flush e = false -> get_mut e h = Some l -> elen e <> 0 -> exists e', free e h = Done (Some (e', l)).
Proof.
  unfold free. intros -> Hg Hl. apply get_mut_Some_inv in Hg as (m & Hm & Hgen & Hs & ->). rewrite Hm.
  destruct (N.eqb_spec (m_gen m) (e_gen h)) as [Eg|Eg]; cbn [negb orb]; [|contradiction].
  destruct (N.eqb_spec (l_idx (m_loc m)) SENT) as [Es|Es]; [contradiction|].
  destruct (N.eqb_spec (elen e) 0) as [El|El]; [contradiction|]. eauto.
Qed.

Lemma free_flushed e h e' l : free e h = Done (Some (e', l)) -> needs_flush e' = false.
Proof.
  intros H. apply free_spec in H as (m & _ & _ & _ & _ & _ & _ & ->).
  unfold needs_flush. cbn [cursor pending]. rewrite Z.eqb_refl. reflexivity.
Qed.

Lemma next_gen_range g : 0 < g < W32 -> 0 < next_gen g < W32.
Proof. unfold next_gen, W32. destruct (N.eqb_spec (g + 1) 4294967296); lia. Qed.

Lemma next_gen_neq g : next_gen g <> g.
Proof. unfold next_gen, W32. destruct (N.eqb_spec (g + 1) 4294967296); lia. Qed.

(* freeing a hole: the id joins the free list *)
Lemma free_inv holes dang u w h e' l :
  WInvP (e_id h :: holes) dang u w -> free (w_ents w) h = Done (Some (e', l)) ->
  WInvP holes dang u (with_ents w e').
Proof.
  intros P H. apply free_spec in H as (m & Hf & Hm & Hgen & Hs & -> & Hel & ->).
  pose proof (wp_holes_nodup _ _ _ _ P) as Hnd. inversion Hnd as [|? ? Hnh Hnd']; subst.
  destruct (wp_hole _ _ _ _ P (e_id h) (or_introl eq_refl)) as (Hlt & Hnp).
  constructor; cbn [with_ents w_ents w_archs meta pending cursor elen].
  - apply NoDup_app_iff. split; [apply (wp_nodup _ _ _ _ P)|]. split; [repeat constructor; intros []|].
    intros x Hx [<-|[]]. contradiction.
  - intros id Hid. rewrite lenN_updN. apply in_app_or in Hid as [Hid|[<-|[]]]; [|exact Hlt].
    apply (wp_pending_lt _ _ _ _ P _ Hid).
  - lia.
  - intros m' Hm'. apply In_updN in Hm' as [->|Hm']; [|apply (wp_gen _ _ _ _ P _ Hm')].
    cbn [m_gen]. apply next_gen_range. apply (wp_gen _ _ _ _ P m). eapply nthN_In. exact Hm.
  - exact Hnd'.
  - intros id Hid. rewrite lenN_updN. destruct (wp_hole _ _ _ _ P id (or_intror Hid)) as (H1 & H2).
    split; [exact H1|]. intros Hin. apply in_app_or in Hin as [Hin|[<-|[]]]; contradiction.
  - intros id m' Hm' Hh. rewrite nthN_updN in Hm'. revert Hm'.
    destruct (N.eqb_spec id (e_id h)) as [->|Hne]; intros Hm'.
    + destruct (N.ltb (e_id h) (lenN (meta (w_ents w)))); [|discriminate]. injection Hm' as <-.
      left. split; [apply in_or_app; right; left; reflexivity|reflexivity].
    + destruct (wp_loc _ _ _ _ P id m' Hm') as [(H1 & H2)|(H1 & H2 & H3 & H4)].
      * intros [E|E]; [congruence|contradiction].
      * left. split; [apply in_or_app; left; exact H1|exact H2].
      * right. repeat split; try assumption.
        intros Hin. apply in_app_or in Hin as [Hin|[E|[]]]; [contradiction|congruence].
  - intros l1 r1 Hr1 Hd. rewrite row_at_with_ents in Hr1.
    destruct (wp_row _ _ _ _ P _ _ Hr1 Hd) as (Hh & m1 & Hm1 & Hl1).
    split; [intros Hin; apply Hh; right; exact Hin|]. exists m1. split; [|exact Hl1].
    rewrite nthN_updN_ne; [exact Hm1|]. intros E. apply Hh. left. exact E.
  - apply (wp_dang _ _ _ _ P).
  - pose proof (wp_len _ _ _ _ P) as Hl. cbn [lenN] in Hl. unfold rows_total in *. cbn [with_ents w_archs]. lia.
  - apply (wp_rowtypes _ _ _ _ P).
  - apply (wp_rows_lt _ _ _ _ P).
  - apply (wp_static _ _ _ _ P).
Qed.

(* the freed id denotes nothing, whatever the generation; other ids are untouched *)
Lemma free_abs_same_id w h e' l h' :
  free (w_ents w) h = Done (Some (e', l)) -> e_id h' = e_id h -> abs (with_ents w e') h' = None.
Proof.
  intros H Eid. pose proof (free_flushed _ _ _ _ H) as Hf.
  apply free_spec in H as (m & _ & Hm & _ & _ & _ & _ & ->).
  rewrite abs_flushed by exact Hf. cbn [with_ents w_ents]. unfold get_mut. cbn [meta]. rewrite Eid.
  rewrite nthN_updN_eq by (eapply nthN_Some_lt; exact Hm). cbn [m_loc m_gen EMPTY_LOC l_idx].
  rewrite N.eqb_refl. cbn [negb]. rewrite andb_false_r. reflexivity.
Qed.

Lemma free_abs_other_id w h e' l h' :
  free (w_ents w) h = Done (Some (e', l)) -> e_id h' <> e_id h -> abs (with_ents w e') h' = abs w h'.
Proof.
  intros H Eid. pose proof (free_flushed _ _ _ _ H) as Hf.
  apply free_spec in H as (m & Hf0 & Hm & _ & _ & _ & _ & ->).
  apply abs_frame; [|intros; reflexivity]. cbn [with_ents w_ents].
  rewrite (get_eq_get_mut_flushed _ _ Hf), (get_eq_get_mut_flushed _ _ Hf0).
  apply get_mut_frame. cbn [meta]. apply nthN_updN_ne. congruence.
Qed.

(* ------------------------------------------------------------------------------------------ *)
(** * 7c. filling a hole: push a row for the id and point its location at it *)

Definition fill (w : world) (ai : N) (a : arch) (id : N) (vals : list (tid * val)) : world :=
  with_ents (upd_arch w ai (fst (arch_push a id vals)))
            (set_loc (w_ents w) id (mkloc ai (lenN (a_rows a)))).

Lemma fill_rows w ai a id vals l1 :
  nthN (w_archs w) ai = Some a ->
  row_at (fill w ai a id vals) l1 =
  if N.eqb (l_arch l1) ai then nthN (a_rows a ++ [{| r_id := id; r_vals := vals |}]) (l_idx l1) else row_at w l1.
Proof. intros Ha. unfold fill. rewrite row_at_with_ents, (row_at_upd_arch _ _ _ _ _ Ha). reflexivity. Qed.

Lemma fill_rows_old w ai a id vals l1 r1 :
  nthN (w_archs w) ai = Some a -> row_at w l1 = Some r1 -> row_at (fill w ai a id vals) l1 = Some r1.
Proof.
  intros Ha H1. rewrite (fill_rows _ _ _ _ _ _ Ha). destruct (N.eqb_spec (l_arch l1) ai) as [E|E]; [|exact H1].
  unfold row_at in H1. rewrite E, Ha in H1. rewrite nthN_app1; [exact H1|]. eapply nthN_Some_lt. exact H1.
Qed.

Lemma fill_rows_new w ai a id vals :
  nthN (w_archs w) ai = Some a ->
  row_at (fill w ai a id vals) (mkloc ai (lenN (a_rows a))) = Some {| r_id := id; r_vals := vals |}.
Proof.
  intros Ha. rewrite (fill_rows _ _ _ _ _ _ Ha). cbn [mkloc l_arch l_idx]. rewrite N.eqb_refl. apply nthN_snoc_last.
Qed.

Lemma fill_rows_inv w ai a id vals l1 r1 :
  nthN (w_archs w) ai = Some a -> row_at (fill w ai a id vals) l1 = Some r1 ->
  row_at w l1 = Some r1 \/ (l1 = mkloc ai (lenN (a_rows a)) /\ r1 = {| r_id := id; r_vals := vals |}).
Proof.
  intros Ha H1. rewrite (fill_rows _ _ _ _ _ _ Ha) in H1. revert H1.
  destruct (N.eqb_spec (l_arch l1) ai) as [E|E]; intros H1; [|left; exact H1].
  destruct (N.lt_ge_cases (l_idx l1) (lenN (a_rows a))) as [Hlt|Hge].
  - left. rewrite nthN_app1 in H1 by exact Hlt. unfold row_at. rewrite E, Ha. exact H1.
  - right. rewrite nthN_app2 in H1 by exact Hge. cbn [nthN] in H1. revert H1.
    destruct (N.eqb_spec (l_idx l1 - lenN (a_rows a)) 0) as [E0|E0]; [|discriminate].
    intros [= <-]. split; [|reflexivity]. apply loc_ext; cbn [mkloc l_arch l_idx]; [exact E|lia].
Qed.

Lemma fill_inv id holes dang u w ai a vals :
  WInvP (id :: holes) dang u w -> nthN (w_archs w) ai = Some a -> map fst vals = a_types a ->
  lenN (a_rows a) < SENT -> WInvP holes dang u (fill w ai a id vals).
Proof.
  intros P Ha Hv Hn.
  pose proof (wp_holes_nodup _ _ _ _ P) as Hnd. inversion Hnd as [|? ? Hnh Hnd']; subst.
  destruct (wp_hole _ _ _ _ P id (or_introl eq_refl)) as (Hlt & Hnp).
  destruct (nthN_lt_Some _ _ Hlt) as (m0 & Hm0).
  set (lnew := mkloc ai (lenN (a_rows a))).
  assert (Hdn : Some lnew <> dang).
  { intros E. destruct (wp_dang _ _ _ _ P lnew (eq_sym E)) as (r0 & Hr0).
    unfold lnew in Hr0. rewrite (row_at_mkloc _ _ _ _ Ha) in Hr0. apply nthN_Some_lt in Hr0. lia. }
  assert (He : w_ents (fill w ai a id vals) = set_loc (w_ents w) id lnew) by reflexivity.
  constructor; rewrite ?He.
  - rewrite set_loc_pending. apply (wp_nodup _ _ _ _ P).
  - intros id'. rewrite set_loc_pending, set_loc_lenN_meta. apply (wp_pending_lt _ _ _ _ P).
  - rewrite set_loc_pending, set_loc_cursor. apply (wp_cursor _ _ _ _ P).
  - intros m' Hm'. apply In_meta_set_loc in Hm' as (m & Hm & ->). apply (wp_gen _ _ _ _ P _ Hm).
  - exact Hnd'.
  - intros id' Hid'. rewrite set_loc_pending, set_loc_lenN_meta. apply (wp_hole _ _ _ _ P). right. exact Hid'.
  - intros id' m' Hm' Hh. rewrite set_loc_pending. rewrite set_loc_nth in Hm'. revert Hm'.
    destruct (N.eqb_spec id' id) as [->|Hne]; intros Hm'.
    + rewrite Hm0 in Hm'. cbn [option_map] in Hm'. injection Hm' as <-. cbn [m_loc]. right.
      repeat split; [exact Hnp|unfold lnew; cbn [mkloc l_idx]; lia|exact Hdn|].
      eexists. split; [apply (fill_rows_new _ _ _ _ _ Ha)|reflexivity].
    + destruct (wp_loc _ _ _ _ P id' m' Hm') as [H|(H1 & H2 & H3 & r1 & Hr1 & Hid)].
      * intros [E|E]; [congruence|contradiction].
      * left. exact H.
      * right. repeat split; try assumption. exists r1. split; [|exact Hid]. apply (fill_rows_old _ _ _ _ _ _ _ Ha Hr1).
  - intros l1 r1 Hr1 Hd. apply (fill_rows_inv _ _ _ _ _ _ _ Ha) in Hr1 as [Hr1|(-> & ->)].
    + destruct (wp_row _ _ _ _ P _ _ Hr1 Hd) as (Hh & m1 & Hm1 & Hl1).
      split; [intros Hin; apply Hh; right; exact Hin|]. exists m1. split; [|exact Hl1].
      rewrite set_loc_nth_ne; [exact Hm1|]. intros E. apply Hh. left. symmetry. exact E.
    + cbn [r_id]. split; [exact Hnh|]. eexists. split; [apply (set_loc_nth_eq _ _ _ _ Hm0)|reflexivity].
  - intros l1 Hl1. destruct (wp_dang _ _ _ _ P l1 Hl1) as (r1 & Hr1). exists r1. apply (fill_rows_old _ _ _ _ _ _ _ Ha Hr1).
  - rewrite set_loc_elen. pose proof (wp_len _ _ _ _ P) as Hl. cbn [lenN] in Hl.
    unfold rows_total, fill in *. cbn [with_ents upd_arch with_archs w_archs arch_push fst].
    pose proof (sumf_updN (fun a => lenN (a_rows a)) (w_archs w) ai a
                  {| a_types := a_types a; a_rows := a_rows a ++ [{| r_id := id; r_vals := vals |}] |} Ha) as Hs.
    cbn [a_rows] in Hs. rewrite lenN_app in Hs. cbn [lenN] in Hs. lia.
  - intros a1 r1 Ha1 Hr1. unfold fill in Ha1. cbn [with_ents upd_arch with_archs w_archs arch_push fst] in Ha1.
    apply In_updN in Ha1 as [->|Ha1]; [|apply (wp_rowtypes _ _ _ _ P _ _ Ha1 Hr1)].
    cbn [a_rows a_types] in *. apply in_app_or in Hr1 as [Hr1|[<-|[]]]; [|exact Hv].
    apply (wp_rowtypes _ _ _ _ P a r1); [eapply nthN_In; exact Ha|exact Hr1].
  - intros a1 Ha1. unfold fill in Ha1. cbn [with_ents upd_arch with_archs w_archs arch_push fst] in Ha1.
    apply In_updN in Ha1 as [->|Ha1]; [|apply (wp_rows_lt _ _ _ _ P _ Ha1)].
    cbn [a_rows]. rewrite lenN_app. cbn [lenN]. lia.
  - unfold fill. apply WStatic_with_ents. apply (WStatic_upd_arch _ _ _ _ a Ha); [reflexivity|apply (wp_static _ _ _ _ P)].
Qed.

Lemma fill_abs_other id holes dang u w ai a vals h :
  WInvP (id :: holes) dang u w -> nthN (w_archs w) ai = Some a ->
  ~ In (e_id h) (id :: holes) -> abs (fill w ai a id vals) h = abs w h.
Proof.
  intros P Ha Hh. apply abs_frame.
  - unfold fill. cbn [with_ents w_ents]. apply get_set_loc_ne. intros E. apply Hh. left. symmetry. exact E.
  - intros l0 Hg Hs. destruct (WInvP_get_row _ _ _ _ _ _ P Hh Hg Hs) as (m & r & _ & _ & _ & _ & _ & Hr & _).
    rewrite Hr, (fill_rows_old _ _ _ _ _ _ _ Ha Hr). reflexivity.
Qed.

Lemma fill_abs_self id holes dang u w ai a vals h :
  WInvP (id :: holes) dang u w -> nthN (w_archs w) ai = Some a -> lenN (a_rows a) < SENT -> e_id h = id ->
  abs (fill w ai a id vals) h = if N.eqb (gen_of (w_ents w) id) (e_gen h) then Some vals else None.
Proof.
  intros P Ha Hn Eid.
  destruct (wp_hole _ _ _ _ P id (or_introl eq_refl)) as (Hlt & _).
  destruct (nthN_lt_Some _ _ Hlt) as (m0 & Hm0).
  assert (Hm' : nthN (meta (w_ents (fill w ai a id vals))) (e_id h) =
                Some {| m_gen := m_gen m0; m_loc := mkloc ai (lenN (a_rows a)) |}).
  { rewrite Eid. unfold fill. cbn [with_ents w_ents]. apply (set_loc_nth_eq _ _ _ _ Hm0). }
  rewrite (abs_located _ _ _ Hm') by (cbn [m_loc mkloc l_idx]; lia). cbn [m_gen m_loc].
  unfold gen_of. rewrite Hm0, (fill_rows_new _ _ _ _ _ Ha). reflexivity.
Qed.

Lemma fill_frame w ai a id vals :
  nthN (w_archs w) ai = Some a ->
  pending (w_ents (fill w ai a id vals)) = pending (w_ents w) /\
  cursor (w_ents (fill w ai a id vals)) = cursor (w_ents w) /\
  elen (w_ents (fill w ai a id vals)) = elen (w_ents w) /\
  lenN (meta (w_ents (fill w ai a id vals))) = lenN (meta (w_ents w)) /\
  (forall j, gen_of (w_ents (fill w ai a id vals)) j = gen_of (w_ents w) j) /\
  atypes (fill w ai a id vals) = atypes w /\ w_index (fill w ai a id vals) = w_index w /\
  w_b2a (fill w ai a id vals) = w_b2a w /\ w_ins (fill w ai a id vals) = w_ins w /\
  w_rem (fill w ai a id vals) = w_rem w.
Proof.
  intros Ha. unfold fill. cbn [with_ents w_ents w_index w_b2a w_ins w_rem].
  repeat split.
  - apply set_loc_pending.
  - apply set_loc_cursor.
  - apply set_loc_elen.
  - apply set_loc_lenN_meta.
  - intros j. apply gen_of_set_loc.
  - rewrite atypes_with_ents. apply (atypes_upd_arch _ _ _ a Ha). reflexivity.
Qed.

(* ------------------------------------------------------------------------------------------ *)
(** * 7d. flush *)

Lemma flush_spec e e1 ids :
  flush e = Done (e1, ids) ->
  let k := Z.to_N (- cursor e) in let nc := Z.to_N (cursor e) in
  nc <= lenN (pending e) /\
  e1 = {| meta := meta e ++ repeatN EMPTY_META k; pending := takeN nc (pending e);
          cursor := Z.of_N nc; elen := elen e + k + (lenN (pending e) - nc) |} /\
  ids = seqN (lenN (meta e)) k ++ dropN nc (pending e).
Proof.
  intros H k nc. unfold flush in H. revert H. destruct (Z.leb_spec 0 (cursor e)) as [Hc|Hc].
  - fold nc. destruct (N.ltb_spec (lenN (pending e)) nc) as [Hl|Hl]; [discriminate|].
    intros [= <- <-]. assert (Ek : k = 0) by (unfold k; lia). rewrite Ek, repeatN_0, seqN_0, app_nil_r.
    split; [exact Hl|]. split; [f_equal; lia|reflexivity].
  - fold k. assert (En : nc = 0) by (unfold nc; lia). rewrite En.
    destruct (N.ltb_spec (lenN (pending e)) 0) as [Hl|Hl]; [lia|].
    intros [= <- <-]. split; [lia|]. split; [f_equal; lia|reflexivity].
Qed.

Lemma flush_ok e :
  (cursor e <= Z.of_N (lenN (pending e)))%Z -> exists e1 ids, flush e = Done (e1, ids).
Proof.
  intros H. unfold flush. destruct (Z.leb_spec 0 (cursor e)) as [Hc|Hc].
  - destruct (N.ltb_spec (lenN (pending e)) (Z.to_N (cursor e))); [lia|eauto].
  - destruct (N.ltb_spec (lenN (pending e)) 0); [lia|eauto].
Qed.

(* step 1: the allocator part of flush turns the reserved ids into holes *)
Lemma flush_ents_inv u w e1 ids :
  WInvP [] None u w -> fits w -> flush (w_ents w) = Done (e1, ids) ->
  WInvP ids None u (with_ents w e1) /\ needs_flush e1 = false /\ lenN (meta e1) < SENT /\
  (forall id, In id ids -> exists m, nthN (meta e1) id = Some m /\ m_loc m = EMPTY_LOC) /\
  (forall h, ~ In (e_id h) ids -> abs (with_ents w e1) h = abs w h) /\
  (forall h, In (e_id h) ids -> abs w h = if N.eqb (gen_of e1 (e_id h)) (e_gen h) then Some [] else None).
Proof.
  intros P F H. apply flush_spec in H. cbv zeta in H. destruct H as (Hnc & -> & ->).
  set (e := w_ents w) in *. set (k := Z.to_N (- cursor e)) in *. set (nc := Z.to_N (cursor e)) in *.
  pose proof (wp_cursor _ _ _ _ P) as Hcur. fold e in Hcur.
  pose proof (wp_nodup _ _ _ _ P) as Hnd. fold e in Hnd.
  assert (Hfresh : forall id, In id (seqN (lenN (meta e)) k) <-> lenN (meta e) <= id < lenN (meta e) + k)
    by (intros id; apply In_seqN).
  assert (Hdr : forall id, In id (dropN nc (pending e)) -> In id (pending e) /\ id < lenN (meta e)).
  { intros id Hid. apply In_dropN in Hid. split; [exact Hid|apply (wp_pending_lt _ _ _ _ P _ Hid)]. }
  assert (Hmeta1 : forall id, id < lenN (meta e) ->
             nthN (meta e ++ repeatN EMPTY_META k) id = nthN (meta e) id)
    by (intros id Hid; apply nthN_app1; exact Hid).
  assert (Hmeta2 : forall id, lenN (meta e) <= id < lenN (meta e) + k ->
             nthN (meta e ++ repeatN EMPTY_META k) id = Some EMPTY_META).
  { intros id Hid. rewrite nthN_app2 by lia. apply nthN_repeatN. lia. }
  assert (Hlen1 : lenN (meta e ++ repeatN EMPTY_META k) = lenN (meta e) + k)
    by (rewrite lenN_app, lenN_repeatN; reflexivity).
  assert (Hres : reserved_part e = dropN nc (pending e)).
  { unfold reserved_part. f_equal. unfold nc. lia. }
  split; [|split; [|split; [|split; [|split]]]].
  - constructor; cbn [with_ents w_ents w_archs meta pending cursor elen].
    + apply NoDup_takeN. exact Hnd.
    + intros id Hid. apply In_takeN in Hid. rewrite Hlen1. pose proof (wp_pending_lt _ _ _ _ P _ Hid). fold e in H. lia.
    + rewrite lenN_takeN. lia.
    + intros m Hm. apply in_app_or in Hm as [Hm|Hm]; [apply (wp_gen _ _ _ _ P _ Hm)|].
      apply In_repeatN in Hm. subst m. cbn [EMPTY_META m_gen]. unfold W32. lia.
    + apply NoDup_app_iff. split; [apply NoDup_seqN|]. split; [apply NoDup_dropN; exact Hnd|].
      intros x Hx Hx2. apply Hfresh in Hx. apply Hdr in Hx2. lia.
    + intros id Hid. rewrite Hlen1. apply in_app_or in Hid as [Hid|Hid].
      * apply Hfresh in Hid. split; [lia|]. intros Hin. apply In_takeN in Hin.
        pose proof (wp_pending_lt _ _ _ _ P _ Hin). fold e in H. lia.
      * split; [apply Hdr in Hid; lia|]. intros Hin. eapply NoDup_takeN_dropN_disj; eauto.
    + intros id m Hm Hh.
      assert (Hid : id < lenN (meta e)).
      { destruct (N.lt_ge_cases id (lenN (meta e))) as [Hlt|Hge]; [exact Hlt|]. exfalso. apply Hh.
        apply in_or_app. left. apply Hfresh. apply nthN_Some_lt in Hm. rewrite Hlen1 in Hm. lia. }
      rewrite Hmeta1 in Hm by exact Hid.
      destruct (wp_loc _ _ _ _ P id m Hm) as [(H1 & H2)|(H1 & H2 & H3 & H4)]; [intros []| |].
      * left. split; [|exact H2]. fold e in H1. apply (In_takeN_or_dropN nc) in H1 as [H1|H1]; [exact H1|].
        exfalso. apply Hh. apply in_or_app. right. exact H1.
      * right. repeat split; try assumption. intros Hin. apply H1. eapply In_takeN. exact Hin.
    + intros l r Hr Hd. rewrite row_at_with_ents in Hr.
      destruct (WInvP_row_owner _ _ _ _ _ _ P Hr Hd) as (_ & Hnp & _ & m & Hm & Hl).
      split.
      * intros Hin. apply in_app_or in Hin as [Hin|Hin].
        -- apply Hfresh in Hin. apply nthN_Some_lt in Hm. fold e in Hm. lia.
        -- apply Hnp. apply Hdr in Hin. tauto.
      * exists m. split; [|exact Hl]. rewrite Hmeta1; [exact Hm|]. eapply nthN_Some_lt. exact Hm.
    + discriminate.
    + pose proof (wp_len _ _ _ _ P) as Hl. cbn [dang_n lenN] in *. fold e in Hl.
      unfold rows_total in *. cbn [with_ents w_archs]. rewrite lenN_app, lenN_seqN, lenN_dropN. lia.
    + apply (wp_rowtypes _ _ _ _ P).
    + apply (wp_rows_lt _ _ _ _ P).
    + apply (wp_static _ _ _ _ P).
  - unfold needs_flush. cbn [cursor pending]. rewrite lenN_takeN.
    apply negb_false_iff. apply Z.eqb_eq. lia.
  - cbn [meta]. rewrite Hlen1. unfold fits in F. fold e in F. unfold k. lia.
  - intros id Hid. cbn [meta]. apply in_app_or in Hid as [Hid|Hid].
    + apply Hfresh in Hid. exists EMPTY_META. split; [apply Hmeta2; exact Hid|reflexivity].
    + apply Hdr in Hid as (Hin & Hlt). rewrite Hmeta1 by exact Hlt.
      destruct (nthN_lt_Some _ _ Hlt) as (m & Hm). exists m. split; [exact Hm|].
      destruct (wp_loc _ _ _ _ P id m Hm) as [(_ & H2)|(H1 & _)]; [intros []|exact H2|contradiction].
  - intros h Hh. apply abs_frame; [|intros; reflexivity]. cbn [with_ents w_ents]. fold e.
    unfold get. cbn [meta cursor]. rewrite Hres.
    replace (reserved_part _) with (@nil N)
      by (unfold reserved_part; cbn [cursor pending]; replace (Z.to_N (Z.max (Z.of_N nc) 0)) with nc by lia;
          symmetry; apply dropN_takeN_nil).
    assert (Hc1 : Z.ltb (Z.of_N nc) 0 = false) by lia. rewrite Hc1, andb_false_r. cbn [andb memN].
    destruct (N.lt_ge_cases (e_id h) (lenN (meta e))) as [Hlt|Hge].
    + rewrite Hmeta1 by exact Hlt. destruct (nthN (meta e) (e_id h)) as [m|] eqn:Em; [|apply nthN_None_ge in Em; lia].
      destruct (N.eqb (m_gen m) (e_gen h)); cbn [negb]; [|reflexivity].
      destruct (N.eqb (l_idx (m_loc m)) SENT); [|reflexivity].
      destruct (memN (e_id h) (dropN nc (pending e))) eqn:Emem; [|reflexivity].
      exfalso. apply Hh. apply in_or_app. right. apply memN_In. exact Emem.
    + rewrite (nthN_ge_None (meta e)) by exact Hge.
      assert (Hge' : lenN (meta e) + k <= e_id h).
      { destruct (N.lt_ge_cases (e_id h) (lenN (meta e) + k)) as [Hlt|Hge']; [|exact Hge'].
        exfalso. apply Hh. apply in_or_app. left. apply Hfresh. lia. }
      rewrite nthN_ge_None by (rewrite Hlen1; exact Hge').
      destruct (N.eqb (e_gen h) 1); cbn [andb]; [|reflexivity].
      destruct (Z.ltb_spec (cursor e) 0) as [Hc|Hc]; cbn [andb]; [|reflexivity].
      destruct (Z.ltb_spec (Z.of_N (e_id h)) (Z.abs (cursor e) + Z.of_N (lenN (meta e)))) as [Hc2|Hc2]; [|reflexivity].
      unfold k in Hge'. lia.
  - intros h Hh. rewrite abs_unfold. fold e. unfold gen_of. cbn [meta]. unfold get. rewrite Hres.
    apply in_app_or in Hh as [Hh|Hh].
    + apply Hfresh in Hh. rewrite Hmeta2 by exact Hh. rewrite (nthN_ge_None (meta e)) by lia.
      cbn [EMPTY_META m_gen]. rewrite (N.eqb_sym 1).
      destruct (N.eqb (e_gen h) 1); cbn [andb]; [|reflexivity].
      assert (Hk : k <> 0) by lia.
      destruct (Z.ltb_spec (cursor e) 0) as [Hc|Hc]; cbn [andb]; [|unfold k in Hk; lia].
      destruct (Z.ltb_spec (Z.of_N (e_id h)) (Z.abs (cursor e) + Z.of_N (lenN (meta e)))) as [Hc2|Hc2];
        [reflexivity|unfold k in Hh; lia].
    + pose proof (Hdr _ Hh) as (Hin & Hlt). rewrite Hmeta1 by exact Hlt.
      destruct (nthN_lt_Some _ _ Hlt) as (m & Hm). rewrite Hm.
      destruct (wp_loc _ _ _ _ P _ m Hm) as [(_ & H2)|(H1 & _)]; [intros []| |contradiction].
      destruct (N.eqb (m_gen m) (e_gen h)); cbn [negb]; [|reflexivity].
      rewrite H2. cbn [EMPTY_LOC l_idx]. rewrite N.eqb_refl.
      apply memN_In in Hh. rewrite Hh. reflexivity.
Qed.

Lemma upd_arch_same w i a : nthN (w_archs w) i = Some a -> upd_arch w i a = w.
Proof.
  intros H. destruct w as [e ar ix b2 ins rm]. unfold upd_arch, with_archs.
  cbn [w_archs w_ents w_index w_b2a w_ins w_rem] in *. rewrite (updN_same _ _ _ H). reflexivity.
Qed.

(* step 2: every hole gets an empty row in archetype 0 *)
Lemma flush_ids_inv u : forall ids w a0 e' a0',
  WInvP ids None u w -> lenN (meta (w_ents w)) < SENT ->
  (forall id, In id ids -> exists m, nthN (meta (w_ents w)) id = Some m /\ l_arch (m_loc m) = 0) ->
  nthN (w_archs w) 0 = Some a0 -> a_types a0 = [] ->
  flush_ids (w_ents w) a0 ids = (e', a0') ->
  let w' := with_ents (upd_arch w 0 a0') e' in
  WInvP [] None u w' /\
  pending e' = pending (w_ents w) /\ cursor e' = cursor (w_ents w) /\
  lenN (meta e') = lenN (meta (w_ents w)) /\ atypes w' = atypes w /\
  (forall h, ~ In (e_id h) ids -> abs w' h = abs w h) /\
  (forall h, In (e_id h) ids ->
     abs w' h = if N.eqb (gen_of (w_ents w) (e_id h)) (e_gen h) then Some [] else None).
Proof.
  induction ids as [|id ids IH]; intros w a0 e' a0' P Hb Hz Ha0 Ht0 Hf w'.
  - cbn [flush_ids] in Hf. injection Hf as <- <-. unfold w'.
    rewrite (upd_arch_same _ _ _ Ha0), with_ents_same.
    split; [exact P|]. repeat split; try reflexivity. intros h [].
  - cbn [flush_ids arch_push] in Hf.
    destruct (Hz id (or_introl eq_refl)) as (m0 & Hm0 & Hz0).
    rewrite (set_idx_as_set_loc _ _ _ _ Hm0), Hz0 in Hf. unfold arch_len in Hf.
    pose proof (WInvP_count _ _ _ _ _ _ P Ha0) as Hcnt. cbn [lenN] in Hcnt.
    assert (Hn : lenN (a_rows a0) < SENT) by (specialize (Hcnt ltac:(discriminate)); lia).
    set (w1 := fill w 0 a0 id []).
    assert (P1 : WInvP ids None u w1) by (apply fill_inv; [exact P|exact Ha0|rewrite Ht0; reflexivity|exact Hn]).
    destruct (fill_frame w 0 a0 id [] Ha0) as (Fp & Fc & Fe & Fl & Fg & Fa & _).
    fold w1 in Fp, Fc, Fe, Fl, Fg, Fa.
    pose proof (wp_holes_nodup _ _ _ _ P) as Hnd. inversion Hnd as [|? ? Hnh Hnd']; subst.
    specialize (IH w1 (fst (arch_push a0 id [])) e' a0' P1).
    destruct IH as (P' & Hp' & Hc' & Hl' & Ha' & Habs1 & Habs2).
    + rewrite Fl. exact Hb.
    + intros id' Hid'. destruct (Hz id' (or_intror Hid')) as (m' & Hm' & Hz').
      exists m'. split; [|exact Hz']. unfold w1, fill. cbn [with_ents w_ents].
      rewrite set_loc_nth_ne; [exact Hm'|]. intros ->. contradiction.
    + unfold w1, fill. rewrite w_archs_with_ents. apply (nthN_upd_arch_eq _ _ _ _ Ha0).
    + exact Ht0.
    + exact Hf.
    + assert (Ew : with_ents (upd_arch w1 0 a0') e' = w').
      { unfold w', w1, fill. rewrite upd_arch_with_ents, upd_arch_upd_arch, with_ents_with_ents. reflexivity. }
      rewrite Ew in *. clear Ew.
      split; [exact P'|]. split; [congruence|]. split; [congruence|]. split; [congruence|].
      split; [congruence|]. split.
      * intros h Hh. rewrite Habs1 by (intros Hin; apply Hh; right; exact Hin).
        apply (fill_abs_other _ _ _ _ _ _ _ _ _ P Ha0 Hh).
      * intros h [Hh|Hh].
        -- rewrite Habs1 by (rewrite <- Hh; exact Hnh). unfold w1.
           rewrite (fill_abs_self _ _ _ _ _ _ _ _ _ P Ha0 Hn (eq_sym Hh)), Hh. reflexivity.
        -- rewrite (Habs2 _ Hh), Fg. reflexivity.
Qed.

Lemma w_flush_unfold w w' :
  w_flush w = Done w' ->
  exists e ids a0 e' a0', flush (w_ents w) = Done (e, ids) /\ nthN (w_archs w) 0 = Some a0 /\
    flush_ids e a0 ids = (e', a0') /\ w' = with_ents (upd_arch w 0 a0') e'.
Proof.
  unfold w_flush. destruct (flush (w_ents w)) as [[e ids]|c]; [|discriminate]. cbn [bind].
  unfold get_arch. destruct (nthN (w_archs w) 0) as [a0|]; [|discriminate]. cbn [bind].
  destruct (flush_ids e a0 ids) as [e' a0'] eqn:E. intros [= <-]. exists e, ids, a0, e', a0'. auto.
Qed.

Lemma w_flush_ok u w : WInv u w -> exists w', w_flush w = Done w'.
Proof.
  intros I. unfold w_flush. destruct (flush_ok _ (wi_cursor _ _ I)) as (e & ids & ->). cbn [bind].
  destruct (wi_arch0 _ _ I) as (rows & H0). unfold get_arch. rewrite H0. cbn [bind].
  destruct (flush_ids e _ ids) as [e' a0']. eauto.
Qed.

(* the world-level flush: full invariant, nothing reserved any more, invisible through abs *)
Lemma w_flush_spec u w w' :
  WInv u w -> fits w -> w_flush w = Done w' ->
  WInvP [] None u w' /\ flushed w' /\ fits w' /\ (forall h, abs w' h = abs w h) /\
  atypes w' = atypes w /\ w_index w' = w_index w /\ w_b2a w' = w_b2a w /\ w_ins w' = w_ins w /\
  w_rem w' = w_rem w.
Proof.
  intros I F H. apply w_flush_unfold in H as (e1 & ids & a0 & e' & a0' & Hfl & Ha0 & Hids & ->).
  pose proof (WInv_fits_WInvP _ _ I F) as P0.
  destruct (flush_ents_inv _ _ _ _ P0 F Hfl) as (P1 & Hnf & Hlt & Hz & Habs1 & Habs2).
  destruct (wi_arch0 _ _ I) as (rows & H0). rewrite Ha0 in H0. injection H0 as ->.
  destruct (flush_ids_inv u ids (with_ents w e1) {| a_types := []; a_rows := rows |} e' a0' P1 Hlt) as (P' & Hp & Hc & Hl & Ha & Ha1 & Ha2).
  - intros id Hid. destruct (Hz id Hid) as (m & Hm & Hloc). exists m. split; [exact Hm|]. rewrite Hloc. reflexivity.
  - exact Ha0.
  - reflexivity.
  - exact Hids.
  - cbn [with_ents w_ents] in *.
    change (with_ents (upd_arch (with_ents w e1) 0 a0') e') with (with_ents (upd_arch w 0 a0') e') in *.
    split; [exact P'|]. split; [|split; [|split; [|split; [|repeat split]]]].
    + unfold flushed, needs_flush in *. cbn [with_ents w_ents]. rewrite Hc, Hp. exact Hnf.
    + unfold fits. cbn [with_ents w_ents]. rewrite Hl, Hc.
      unfold needs_flush in Hnf. apply negb_false_iff in Hnf. apply Z.eqb_eq in Hnf. lia.
    + intros h. destruct (in_dec N.eq_dec (e_id h) ids) as [Hin|Hin].
      * rewrite (Ha2 _ Hin), (Habs2 _ Hin). reflexivity.
      * rewrite (Ha1 _ Hin). apply (Habs1 _ Hin).
    + exact Ha.
Qed.

(* ------------------------------------------------------------------------------------------ *)
(** * 5b. abs / get / get_mut / contains under WInv *)

Lemma entity_ext h1 h2 : e_id h1 = e_id h2 -> e_gen h1 = e_gen h2 -> h1 = h2.
Proof. destruct h1 as [i1 g1], h2 as [i2 g2]; cbn [e_id e_gen]; intros -> ->; reflexivity. Qed.

Lemma get_ents_empty h : get ents_empty h = None.
Proof.
  unfold get, ents_empty. cbn [meta nthN cursor]. change (Z.ltb 0 0) with false.
  rewrite andb_false_r. reflexivity.
Qed.

Lemma contains_get e h : contains e h = true <-> get e h <> None.
Proof.
  unfold contains, get. destruct (nthN (meta e) (e_id h)) as [m|].
  - destruct (N.eqb (m_gen m) (e_gen h)); cbn [andb negb]; [|split; intros H; [discriminate|congruence]].
    destruct (N.eqb (l_idx (m_loc m)) SENT); cbn [negb orb].
    + destruct (memN (e_id h) (reserved_part e)); split; intros H; try discriminate; try congruence; reflexivity.
    + split; intros H; [discriminate|reflexivity].
  - destruct (_ && _); split; intros H; try discriminate; try congruence; reflexivity.
Qed.

Lemma get_classify u w h l :
  WInv u w -> get (w_ents w) h = Some l ->
  (l = EMPTY_LOC /\ abs w h = Some []) \/
  (l_idx l <> SENT /\ exists a r, nthN (w_archs w) (l_arch l) = Some a /\ nthN (a_rows a) (l_idx l) = Some r /\
                                  abs w h = Some (r_vals r)).
Proof.
  intros I Hg. destruct (get_Some_cases _ _ _ Hg) as [->|(m & Hm & Hgen & Hs & ->)].
  - left. split; [reflexivity|]. rewrite abs_unfold, Hg. reflexivity.
  - right. split; [exact Hs|].
    destruct (wi_loc _ _ I _ _ Hm) as [(_ & E)|(_ & _ & a & r & Ha & Hr & _)]; [rewrite E in Hs; contradiction|].
    exists a, r. split; [exact Ha|]. split; [exact Hr|]. rewrite abs_unfold, Hg.
    destruct (N.eqb_spec (l_idx (m_loc m)) SENT); [contradiction|]. unfold row_at. rewrite Ha, Hr. reflexivity.
Qed.

Lemma lookup_first_mem t (vals : list (tid * val)) : lookup_first t vals = None <-> memN t (map fst vals) = false.
Proof.
  induction vals as [|[t' v] vals IH]; cbn [lookup_first map fst memN]; [tauto|].
  destruct (N.eqb t t'); [split; discriminate|exact IH].
Qed.

Lemma alive_iff_get u w h : WInv u w -> (alive w h <-> get (w_ents w) h <> None).
Proof.
  intros I. unfold alive. split.
  - intros A E. apply A. apply abs_None_get. exact E.
  - intros G. destruct (get (w_ents w) h) as [l|] eqn:Hg; [|congruence].
    destruct (get_classify _ _ _ _ I Hg) as [(_ & E)|(_ & a & r & _ & _ & E)]; rewrite E; discriminate.
Qed.

Lemma alive_iff_contains u w h : WInv u w -> (alive w h <-> contains (w_ents w) h = true).
Proof. intros I. rewrite contains_get. apply (alive_iff_get _ _ _ I). Qed.

(* a handle accepted by get_mut denotes its row *)
Lemma abs_get_mut u w h l :
  WInv u w -> get_mut (w_ents w) h = Some l ->
  exists r, row_at w l = Some r /\ r_id r = e_id h /\ abs w h = Some (r_vals r) /\ get (w_ents w) h = Some l.
Proof.
  intros I Hg. apply get_mut_Some_inv in Hg as (m & Hm & Hgen & Hs & ->).
  destruct (wi_loc _ _ I _ _ Hm) as [(_ & E)|(_ & _ & a & r & Ha & Hr & Hid)]; [rewrite E in Hs; contradiction|].
  assert (Hrow : row_at w (m_loc m) = Some r) by (apply row_at_Some; eauto).
  exists r. split; [exact Hrow|]. split; [exact Hid|]. split.
  - rewrite (abs_located _ _ _ Hm Hs), Hgen, N.eqb_refl, Hrow. reflexivity.
  - rewrite (get_located _ _ _ Hm Hs), Hgen, N.eqb_refl. reflexivity.
Qed.

Lemma get_mut_Some_get e h l : get_mut e h = Some l -> get e h = Some l.
Proof.
  intros Hg. apply get_mut_Some_inv in Hg as (m & Hm & Hgen & Hs & ->).
  rewrite (get_located _ _ _ Hm Hs), Hgen, N.eqb_refl. reflexivity.
Qed.

(* ------------------------------------------------------------------------------------------ *)
(** * 8. archs_get / put_row / mk_row *)

Lemma list_eqb_eq a b : list_eqb a b = true <-> a = b.
Proof.
  revert b; induction a as [|x a IH]; intros [|y b]; cbn [list_eqb]; try (split; [discriminate|discriminate]); [tauto|].
  rewrite andb_true_iff, N.eqb_eq, IH. split; [intros (-> & ->); reflexivity|intros [= -> ->]; auto].
Qed.

Lemma list_eqb_refl a : list_eqb a a = true.
Proof. apply list_eqb_eq. reflexivity. Qed.

(* changing only archetypes-without-rows / the index / the memo tables: the dynamic part of the
   invariant carries over *)
Lemma WInvP_frame holes dang u w w' :
  w_ents w' = w_ents w -> (forall l, row_at w' l = row_at w l) -> rows_total w' = rows_total w ->
  (forall a, In a (w_archs w') -> In a (w_archs w) \/ a_rows a = []) ->
  WStatic u w' -> WInvP holes dang u w -> WInvP holes dang u w'.
Proof.
  intros He Hr Ht Ha S P. constructor; rewrite ?He.
  - apply (wp_nodup _ _ _ _ P).
  - apply (wp_pending_lt _ _ _ _ P).
  - apply (wp_cursor _ _ _ _ P).
  - apply (wp_gen _ _ _ _ P).
  - apply (wp_holes_nodup _ _ _ _ P).
  - apply (wp_hole _ _ _ _ P).
  - intros id m Hm Hh. destruct (wp_loc _ _ _ _ P id m Hm Hh) as [H|(H1 & H2 & H3 & r & Hr1 & Hid)]; [left; exact H|].
    right. repeat split; try assumption. exists r. rewrite Hr. auto.
  - intros l r Hr1. rewrite Hr in Hr1. apply (wp_row _ _ _ _ P _ _ Hr1).
  - intros l Hl. rewrite Hr. apply (wp_dang _ _ _ _ P _ Hl).
  - rewrite Ht. apply (wp_len _ _ _ _ P).
  - intros a r Ha1 Hr1. destruct (Ha a Ha1) as [Ho|E]; [apply (wp_rowtypes _ _ _ _ P _ _ Ho Hr1)|].
    rewrite E in Hr1. destruct Hr1.
  - intros a Ha1. destruct (Ha a Ha1) as [Ho|E]; [apply (wp_rows_lt _ _ _ _ P _ Ho)|].
    rewrite E. cbn [lenN]. unfold SENT. lia.
  - exact S.
Qed.

Lemma abs_frame_rows w w' h :
  w_ents w' = w_ents w -> (forall l, row_at w' l = row_at w l) -> abs w' h = abs w h.
Proof. intros He Hr. apply abs_frame; [rewrite He; reflexivity|]. intros l _ _. rewrite Hr. reflexivity. Qed.

Lemma assoc_list_cons_mono {V} k k0 (v0 : V) m j :
  assoc_list k0 m = None -> assoc_list k m = Some j -> assoc_list k ((k0, v0) :: m) = Some j.
Proof.
  intros Hn Hk. cbn [assoc_list]. destruct (list_eqb k k0) eqn:E; [|exact Hk].
  apply list_eqb_eq in E. subst k0. congruence.
Qed.

(* appending a row-less archetype and indexing it *)
Definition add_arch (w : world) (ts : list tid) : world :=
  {| w_ents := w_ents w; w_archs := w_archs w ++ [{| a_types := ts; a_rows := [] |}];
     w_index := (ts, lenN (w_archs w)) :: w_index w; w_b2a := w_b2a w; w_ins := w_ins w; w_rem := w_rem w |}.

Lemma row_at_add_arch w ts l : row_at (add_arch w ts) l = row_at w l.
Proof.
  unfold row_at, add_arch. cbn [w_archs].
  destruct (N.lt_ge_cases (l_arch l) (lenN (w_archs w))) as [Hlt|Hge].
  - rewrite nthN_app1 by exact Hlt. reflexivity.
  - rewrite (nthN_ge_None (w_archs w)) by exact Hge. rewrite nthN_app2 by exact Hge.
    cbn [nthN]. destruct (N.eqb (l_arch l - lenN (w_archs w)) 0); [|reflexivity]. cbn [a_rows]. reflexivity.
Qed.

Lemma WStatic_add_arch u w ts :
  WStatic u w -> assoc_list ts (w_index w) = None -> assert_type_info u ts = 0 -> WStatic u (add_arch w ts).
Proof.
  intros S Hn Hs. unfold WStatic, add_arch, atypes. cbn [w_archs w_index w_b2a w_ins w_rem].
  rewrite map_app. cbn [map a_types]. fold (atypes w).
  assert (Hx : lenN (w_archs w) = lenN (atypes w)) by (unfold atypes; rewrite lenN_map; reflexivity).
  rewrite Hx. unfold WStatic in S.
  assert (Hmono : forall k j, assoc_list k (w_index w) = Some j ->
                    assoc_list k ((ts, lenN (atypes w)) :: w_index w) = Some j).
  { intros k j. apply assoc_list_cons_mono. exact Hn. }
  assert (Hold : forall i x, nthN (atypes w) i = Some x -> nthN (atypes w ++ [ts]) i = Some x).
  { intros i x H. rewrite nthN_app1; [exact H|]. eapply nthN_Some_lt. exact H. }
  constructor.
  - apply Hold. apply (ws_arch0 _ _ _ _ _ _ S).
  - intros ts' Hin. apply in_app_or in Hin as [Hin|[<-|[]]]; [apply (ws_sorted _ _ _ _ _ _ S _ Hin)|exact Hs].
  - intros i ts' Hi. destruct (N.lt_ge_cases i (lenN (atypes w))) as [Hlt|Hge].
    + rewrite nthN_app1 in Hi by exact Hlt. apply Hmono. apply (ws_index _ _ _ _ _ _ S _ _ Hi).
    + rewrite nthN_app2 in Hi by exact Hge. cbn [nthN] in Hi. revert Hi.
      destruct (N.eqb_spec (i - lenN (atypes w)) 0) as [E|E]; [|discriminate]. intros [= <-].
      cbn [assoc_list]. rewrite list_eqb_refl. f_equal. lia.
  - intros k i Hk. cbn [assoc_list] in Hk. destruct (list_eqb k ts) eqn:E.
    + apply list_eqb_eq in E. subst k. injection Hk as <-. apply nthN_snoc_last.
    + apply Hold. apply (ws_index_inv _ _ _ _ _ _ S _ _ Hk).
  - intros k a Hk. destruct (ws_b2a _ _ _ _ _ _ S _ _ Hk) as (H1 & H2). split; [exact H1|apply Hmono; exact H2].
  - intros src k t Hk. destruct (ws_ins _ _ _ _ _ _ S _ _ _ Hk) as (tys & Ht & Ha & Hm).
    exists tys. split; [apply Hold; exact Ht|]. split; [exact Ha|].
    destruct (merge_loop u tys (tsort u (tl k)) tys [] [] []) as [[[rest added] replaced] retained].
    destruct Hm as (H1 & H2 & H3). repeat split; try assumption. apply Hmono. exact H3.
  - intros src k i Hk. destruct (ws_rem _ _ _ _ _ _ S _ _ _ Hk) as (tys & Ht & Ha).
    exists tys. split; [apply Hold; exact Ht|apply Hmono; exact Ha].
Qed.

Lemma WInvP_add_arch holes dang u w ts :
  WInvP holes dang u w -> assoc_list ts (w_index w) = None -> assert_type_info u ts = 0 ->
  WInvP holes dang u (add_arch w ts).
Proof.
  intros P Hn Hs. apply (WInvP_frame holes dang u w); try assumption.
  - reflexivity.
  - apply row_at_add_arch.
  - unfold rows_total, add_arch. cbn [w_archs]. rewrite sumf_app. cbn [sumf a_rows lenN]. lia.
  - intros a Ha. unfold add_arch in Ha. cbn [w_archs] in Ha. apply in_app_or in Ha as [Ha|[<-|[]]]; [left; exact Ha|right; reflexivity].
  - apply WStatic_add_arch; [apply (wp_static _ _ _ _ P)|exact Hn|exact Hs].
Qed.

(* archs_get: finds the archetype or appends an empty one; nothing else changes *)
Lemma archs_get_spec holes dang u w ts w' i :
  WInvP holes dang u w -> archs_get u w ts ts = Done (w', i) ->
  WInvP holes dang u w' /\ w_ents w' = w_ents w /\
  (forall l, row_at w' l = row_at w l) /\ (forall h, abs w' h = abs w h) /\
  (exists a, nthN (w_archs w') i = Some a /\ a_types a = ts /\
             (nthN (w_archs w) i = Some a \/ (i = lenN (w_archs w) /\ a_rows a = []))) /\
  assoc_list ts (w_index w') = Some i /\ assert_type_info u ts = 0 /\
  (forall j a, nthN (w_archs w) j = Some a -> nthN (w_archs w') j = Some a) /\
  (forall k j, assoc_list k (w_index w) = Some j -> assoc_list k (w_index w') = Some j) /\
  w_b2a w' = w_b2a w /\ w_ins w' = w_ins w /\ w_rem w' = w_rem w /\
  (w' = w \/ w' = add_arch w ts).
Proof.
  intros P H. unfold archs_get in H. destruct (assoc_list ts (w_index w)) as [i0|] eqn:Ei.
  - injection H as <- <-. destruct (WStatic_index_inv _ _ _ _ (wp_static _ _ _ _ P) Ei) as (a & Ha & Hta).
    split; [exact P|]. split; [reflexivity|]. split; [reflexivity|]. split; [reflexivity|].
    split; [exists a; auto|]. split; [exact Ei|]. split.
    + rewrite <- Hta. apply (WStatic_sorted _ _ _ (wp_static _ _ _ _ P)). eapply nthN_In. exact Ha.
    + repeat split; auto.
  - destruct (assert_type_info u ts) as [|p] eqn:Es; [|destruct p; discriminate].
    injection H as <- <-. fold (add_arch w ts).
    split; [apply WInvP_add_arch; assumption|]. split; [reflexivity|].
    split; [apply row_at_add_arch|]. split; [intros h; apply abs_frame_rows; [reflexivity|apply row_at_add_arch]|].
    split; [|split; [|split; [reflexivity|split; [|split]]]].
    + eexists. split; [unfold add_arch; cbn [w_archs]; apply nthN_snoc_last|]. split; [reflexivity|]. right. auto.
    + unfold add_arch. cbn [w_index assoc_list]. rewrite list_eqb_refl. reflexivity.
    + intros j a Ha. unfold add_arch. cbn [w_archs]. rewrite nthN_app1; [exact Ha|]. eapply nthN_Some_lt. exact Ha.
    + intros k j. unfold add_arch. cbn [w_index]. apply assoc_list_cons_mono. exact Ei.
    + repeat split. right. reflexivity.
Qed.

Lemma archs_get_ok u w ts : assert_type_info u ts = 0 -> exists w' i, archs_get u w ts ts = Done (w', i).
Proof. intros H. unfold archs_get. destruct (assoc_list ts (w_index w)); [eauto|]. rewrite H. eauto. Qed.

(* ---- mk_row ---- *)
Lemma mk_row_types types items vals : mk_row types items = Some vals -> map fst vals = types.
Proof.
  revert vals; induction types as [|t types IH]; intros vals; cbn [mk_row]; [intros [= <-]; reflexivity|].
  destruct (lookup_last t items) as [v|]; [|discriminate].
  destruct (mk_row types items) as [row|]; [|discriminate]. intros [= <-]. cbn [map fst]. rewrite (IH _ eq_refl). reflexivity.
Qed.

Lemma mk_row_lookup types items vals t :
  mk_row types items = Some vals ->
  lookup_first t vals = if memN t types then lookup_last t items else None.
Proof.
  revert vals; induction types as [|t' types IH]; intros vals; cbn [mk_row memN]; [intros [= <-]; reflexivity|].
  destruct (lookup_last t' items) as [v|] eqn:El; [|discriminate].
  destruct (mk_row types items) as [row|]; [|discriminate]. intros [= <-]. cbn [lookup_first].
  destruct (N.eqb_spec t t') as [->|Hne]; [symmetry; exact El|]. apply IH. reflexivity.
Qed.

Lemma mk_row_ok types items :
  (forall t, In t types -> lookup_last t items <> None) -> exists vals, mk_row types items = Some vals.
Proof.
  induction types as [|t types IH]; intros H; cbn [mk_row]; [eauto|].
  destruct (lookup_last t items) as [v|] eqn:El; [|exfalso; apply (H t (or_introl eq_refl)); exact El].
  destruct IH as (row & ->); [intros t' Ht'; apply H; right; exact Ht'|]. eauto.
Qed.

(* ---- put_row, and put_row followed by set_loc = fill ---- *)
Lemma put_row_spec w aid id items w2 i :
  put_row w aid id items = Done (w2, i) ->
  exists a vals, nthN (w_archs w) aid = Some a /\ all_in (map fst items) (a_types a) = true /\
    mk_row (a_types a) items = Some vals /\ map fst vals = a_types a /\ i = lenN (a_rows a) /\
    w2 = upd_arch w aid (fst (arch_push a id vals)) /\
    with_ents w2 (set_loc (w_ents w2) id {| l_arch := aid; l_idx := i |}) = fill w aid a id vals.
Proof.
  unfold put_row, get_arch. destruct (nthN (w_archs w) aid) as [a|] eqn:Ha; [|discriminate]. cbn [bind].
  destruct (all_in (map fst items) (a_types a)) eqn:Eall; cbn [negb]; [|discriminate].
  destruct (mk_row (a_types a) items) as [vals|] eqn:Emk; [|discriminate].
  unfold arch_push, arch_len. intros [= <- <-]. exists a, vals.
  repeat split; try assumption; try reflexivity. eapply mk_row_types. exact Emk.
Qed.

Lemma put_row_ok w aid id items a :
  nthN (w_archs w) aid = Some a -> all_in (map fst items) (a_types a) = true ->
  (forall t, In t (a_types a) -> lookup_last t items <> None) ->
  exists w2 i, put_row w aid id items = Done (w2, i).
Proof.
  intros Ha Hall Hl. unfold put_row, get_arch. rewrite Ha. cbn [bind]. rewrite Hall. cbn [negb].
  destruct (mk_row_ok _ _ Hl) as (vals & ->). unfold arch_push. eauto.
Qed.

(* the spawn / insert / remove step: a row is written for the hole [id] and its location set *)
Lemma put_row_set_loc_spec id holes dang u w aid items w2 i :
  WInvP (id :: holes) dang u w -> put_row w aid id items = Done (w2, i) ->
  (forall l, dang = Some l -> l_arch l <> aid) -> lenN (meta (w_ents w)) <= SENT ->
  let w3 := with_ents w2 (set_loc (w_ents w2) id {| l_arch := aid; l_idx := i |}) in
  exists a vals, nthN (w_archs w) aid = Some a /\ mk_row (a_types a) items = Some vals /\
    w3 = fill w aid a id vals /\
    WInvP holes dang u w3 /\
    (forall h, ~ In (e_id h) (id :: holes) -> abs w3 h = abs w h) /\
    (forall h, e_id h = id -> abs w3 h = if N.eqb (gen_of (w_ents w) id) (e_gen h) then Some vals else None).
Proof.
  intros P H Hd Hb w3. apply put_row_spec in H as (a & vals & Ha & _ & Hmk & Hty & -> & -> & Hfill).
  exists a, vals. split; [exact Ha|]. split; [exact Hmk|]. split; [exact Hfill|].
  pose proof (WInvP_count _ _ _ _ _ _ P Ha Hd) as Hcnt. cbn [lenN] in Hcnt.
  assert (Hn : lenN (a_rows a) < SENT) by lia.
  unfold w3. rewrite Hfill. split; [apply fill_inv; assumption|]. split.
  - intros h Hh. apply (fill_abs_other _ _ _ _ _ _ _ _ _ P Ha Hh).
  - intros h Hh. apply (fill_abs_self _ _ _ _ _ _ _ _ _ P Ha Hn Hh).
Qed.

(* ---- bundle_archetype (spawn / reserve) ---- *)
Definition add_b2a (w : world) (k : bkey) (a : N) : world :=
  {| w_ents := w_ents w; w_archs := w_archs w; w_index := w_index w;
     w_b2a := (k, a) :: w_b2a w; w_ins := w_ins w; w_rem := w_rem w |}.

Lemma WStatic_add_b2a u w k a :
  WStatic u w -> assert_type_info u (tsort u (tl k)) = 0 ->
  assoc_list (tsort u (tl k)) (w_index w) = Some a -> WStatic u (add_b2a w k a).
Proof.
  intros S H1 H2. unfold WStatic in *. change (atypes (add_b2a w k a)) with (atypes w).
  cbn [add_b2a w_index w_b2a w_ins w_rem]. destruct S. constructor; try assumption.
  intros k' a' Hk'. cbn [assoc_list] in Hk'. destruct (list_eqb k' k) eqn:E; [|auto].
  apply list_eqb_eq in E. subst k'. injection Hk' as <-. auto.
Qed.

Lemma bundle_archetype_spec holes dang u w b w' i :
  WInvP holes dang u w -> (forall k, b_key b = Some k -> tl k = b_types b) ->
  bundle_archetype u w b = Done (w', i) ->
  WInvP holes dang u w' /\ w_ents w' = w_ents w /\
  (forall l, row_at w' l = row_at w l) /\ (forall h, abs w' h = abs w h) /\
  (exists a, nthN (w_archs w') i = Some a /\ a_types a = tsort u (b_types b)) /\
  assert_type_info u (tsort u (b_types b)) = 0 /\
  (forall j a, nthN (w_archs w) j = Some a -> nthN (w_archs w') j = Some a) /\
  (forall k j, assoc_list k (w_index w) = Some j -> assoc_list k (w_index w') = Some j).
Proof.
  intros P Hk H. unfold bundle_archetype in H. pose proof (wp_static _ _ _ _ P) as S.
  destruct (b_key b) as [k|] eqn:Ek.
  - specialize (Hk k eq_refl). assert (Hk' : @tl tid k = b_types b) by exact Hk.
    destruct (assoc_list k (w_b2a w)) as [a0|] eqn:Eb.
    + injection H as <- <-. destruct (ws_b2a _ _ _ _ _ _ S _ _ Eb) as (H1 & H2). rewrite Hk in H1, H2.
      destruct (WStatic_index_inv _ _ _ _ S H2) as (a & Ha & Hta).
      split; [exact P|]. repeat split; auto. exists a. auto.
    + destruct (archs_get u w (tsort u (b_types b)) (tsort u (b_types b))) as [[w1 a1]|c] eqn:Eg; [|discriminate].
      cbn [bind] in H. injection H as <- <-.
      destruct (archs_get_spec _ _ _ _ _ _ _ P Eg) as (P1 & He & Hr & Habs & (a & Ha & Hta & _) & Hix & Hs & Hmono & Himono & _).
      fold (add_b2a w1 k a1).
      split; [|split; [exact He|split; [exact Hr|split; [|split; [exists a; auto|split; [exact Hs|split; assumption]]]]]].
      * apply (WInvP_frame holes dang u w1); try reflexivity; [intros a2 Ha2; left; exact Ha2| |exact P1].
        apply WStatic_add_b2a; [apply (wp_static _ _ _ _ P1)|rewrite ?Hk, ?Hk'; exact Hs|rewrite ?Hk, ?Hk'; exact Hix].
      * intros h. rewrite <- Habs. apply abs_frame_rows; reflexivity.
  - destruct (archs_get_spec _ _ _ _ _ _ _ P H) as (P1 & He & Hr & Habs & (a & Ha & Hta & _) & Hix & Hs & Hmono & Himono & _).
    split; [exact P1|]. split; [exact He|]. split; [exact Hr|]. split; [exact Habs|].
    split; [exists a; auto|]. auto.
Qed.

(* ---- alloc: the new id is a hole ---- *)
Lemma alloc_inv u w e h :
  WInvP [] None u w -> flushed w -> lenN (meta (w_ents w)) < SENT -> alloc (w_ents w) = Done (e, h) ->
  WInvP [e_id h] None u (with_ents w e) /\ needs_flush e = false /\
  gen_of e (e_id h) = e_gen h /\ valid_entity h /\ abs w h = None /\
  (forall h', e_id h' <> e_id h -> abs (with_ents w e) h' = abs w h') /\
  lenN (meta e) <= lenN (meta (w_ents w)) + 1 /\
  (exists m, nthN (meta e) (e_id h) = Some m /\ m_loc m = EMPTY_LOC).
Proof.
  intros P Hf Hb H. unfold flushed in Hf. unfold alloc in H. rewrite Hf in H.
  set (e0 := w_ents w) in *.
  assert (Hcur : cursor e0 = Z.of_N (lenN (pending e0))).
  { unfold needs_flush in Hf. apply negb_false_iff in Hf. apply Z.eqb_eq in Hf. exact Hf. }
  assert (Hother : forall e1 h', needs_flush e1 = false -> nthN (meta e1) (e_id h') = nthN (meta e0) (e_id h') ->
                     abs (with_ents w e1) h' = abs w h').
  { intros e1 h' Hf1 Hm. apply abs_frame; [|intros; reflexivity]. cbn [with_ents w_ents]. fold e0.
    rewrite (get_eq_get_mut_flushed _ _ Hf1), (get_eq_get_mut_flushed _ _ Hf). apply get_mut_frame. exact Hm. }
  destruct (lastN (pending e0)) as [id|] eqn:El.
  - injection H as <- <-. cbn [e_id e_gen].
    pose proof (lastN_removelastN _ _ El) as Hp. set (p := removelastN (pending e0)) in *.
    pose proof (wp_nodup _ _ _ _ P) as Hnd. fold e0 in Hnd. rewrite Hp in Hnd.
    apply NoDup_app_iff in Hnd as (Hndp & _ & Hdisj).
    assert (Hin : In id (pending e0)) by (rewrite Hp; apply in_or_app; right; left; reflexivity).
    pose proof (wp_pending_lt _ _ _ _ P _ Hin) as Hlt. fold e0 in Hlt.
    destruct (nthN_lt_Some _ _ Hlt) as (m & Hm).
    assert (Hloc : m_loc m = EMPTY_LOC).
    { destruct (wp_loc _ _ _ _ P _ _ Hm) as [(_ & E)|(Hc & _)]; [intros []|exact E|contradiction]. }
    assert (Hnf : needs_flush {| meta := meta e0; pending := p; cursor := Z.of_N (lenN p); elen := elen e0 + 1 |} = false).
    { unfold needs_flush. cbn [cursor pending]. rewrite Z.eqb_refl. reflexivity. }
    assert (Hgen : gen_of e0 id = m_gen m) by (unfold gen_of; rewrite Hm; reflexivity).
    split; [|split; [exact Hnf|split; [reflexivity|split; [|split; [|split; [|split]]]]]].
    + constructor; cbn [with_ents w_ents w_archs meta pending cursor elen].
      * exact Hndp.
      * intros id' Hid'. apply (wp_pending_lt _ _ _ _ P). fold e0. rewrite Hp. apply in_or_app. left. exact Hid'.
      * lia.
      * apply (wp_gen _ _ _ _ P).
      * repeat constructor. intros [].
      * intros id' [<-|[]]. split; [exact Hlt|]. intros Hi. apply (Hdisj id Hi). left. reflexivity.
      * intros id' m' Hm' Hh. destruct (wp_loc _ _ _ _ P _ _ Hm') as [(H1 & H2)|(H1 & H2 & H3 & H4)]; [intros []| |].
        -- left. split; [|exact H2]. fold e0 in H1. rewrite Hp in H1. apply in_app_or in H1 as [H1|[E|[]]]; [exact H1|].
           exfalso. apply Hh. left. exact E.
        -- right. repeat split; try assumption. intros Hi. apply H1. fold e0. rewrite Hp. apply in_or_app. left. exact Hi.
      * intros l r Hr Hd. rewrite row_at_with_ents in Hr.
        destruct (WInvP_row_owner _ _ _ _ _ _ P Hr Hd) as (_ & Hnp & _ & Hex). split; [|exact Hex].
        intros [E|[]]. apply Hnp. fold e0. rewrite <- E. exact Hin.
      * discriminate.
      * pose proof (wp_len _ _ _ _ P) as Hl. fold e0 in Hl. cbn [dang_n lenN] in *. unfold rows_total in *. cbn [with_ents w_archs]. lia.
      * apply (wp_rowtypes _ _ _ _ P).
      * apply (wp_rows_lt _ _ _ _ P).
      * apply (wp_static _ _ _ _ P).
    + pose proof (wp_gen _ _ _ _ P m (nthN_In _ _ _ Hm)) as Hg.
      unfold valid_entity. cbn [e_id e_gen]. rewrite Hgen. unfold SENT, W32 in *. lia.
    + rewrite (abs_flushed _ _ Hf). fold e0. unfold get_mut. cbn [e_id e_gen]. rewrite Hm, Hloc.
      cbn [EMPTY_LOC l_idx]. rewrite N.eqb_refl, andb_false_r. reflexivity.
    + intros h' _. apply Hother; [exact Hnf|reflexivity].
    + cbn [meta]. lia.
    + cbn [meta]. exists m. auto.
  - apply lastN_None in El.
    destruct (N.leb_spec W32 (lenN (meta e0))) as [Hw|Hw]; [discriminate|].
    injection H as <- <-. cbn [e_id e_gen].
    assert (Hc0 : cursor e0 = 0%Z) by (rewrite Hcur, El; reflexivity).
    assert (Hnf : needs_flush {| meta := meta e0 ++ [EMPTY_META]; pending := pending e0; cursor := cursor e0; elen := elen e0 + 1 |} = false).
    { exact Hf. }
    assert (Hnew : nthN (meta e0 ++ [EMPTY_META]) (lenN (meta e0)) = Some EMPTY_META) by apply nthN_snoc_last.
    split; [|split; [exact Hnf|split; [|split; [|split; [|split; [|split]]]]]].
    + constructor; cbn [with_ents w_ents w_archs meta pending cursor elen].
      * apply (wp_nodup _ _ _ _ P).
      * intros id' Hid'. rewrite lenN_app. pose proof (wp_pending_lt _ _ _ _ P _ Hid') as Hl. fold e0 in Hl. lia.
      * apply (wp_cursor _ _ _ _ P).
      * intros m Hm. apply in_app_or in Hm as [Hm|[<-|[]]]; [apply (wp_gen _ _ _ _ P _ Hm)|].
        cbn [EMPTY_META m_gen]. unfold W32. lia.
      * repeat constructor. intros [].
      * intros id' [<-|[]]. rewrite lenN_app. cbn [lenN]. split; [lia|]. rewrite El. intros [].
      * intros id' m' Hm' Hh.
        assert (Hlt' : id' < lenN (meta e0)).
        { apply nthN_Some_lt in Hm'. rewrite lenN_app in Hm'. cbn [lenN] in Hm'.
          assert (id' <> lenN (meta e0)) by (intros E; apply Hh; left; symmetry; exact E). lia. }
        rewrite nthN_app1 in Hm' by exact Hlt'. apply (wp_loc _ _ _ _ P _ _ Hm'). intros [].
      * intros l r Hr Hd. rewrite row_at_with_ents in Hr.
        destruct (wp_row _ _ _ _ P _ _ Hr Hd) as (_ & m & Hm & Hl). fold e0 in Hm. split.
        -- intros [E|[]]. apply nthN_Some_lt in Hm. lia.
        -- exists m. split; [|exact Hl]. rewrite nthN_app1; [exact Hm|]. eapply nthN_Some_lt. exact Hm.
      * discriminate.
      * pose proof (wp_len _ _ _ _ P) as Hl. fold e0 in Hl. cbn [dang_n lenN] in *. unfold rows_total in *. cbn [with_ents w_archs]. lia.
      * apply (wp_rowtypes _ _ _ _ P).
      * apply (wp_rows_lt _ _ _ _ P).
      * apply (wp_static _ _ _ _ P).
    + unfold gen_of. cbn [meta]. rewrite Hnew. reflexivity.
    + unfold valid_entity. cbn [e_id e_gen]. unfold W32 in *. lia.
    + apply abs_None_get. fold e0. unfold get. cbn [e_id e_gen]. rewrite nthN_ge_None by lia.
      rewrite Hc0. change (Z.ltb 0 0) with false. rewrite andb_false_r. reflexivity.
    + intros h' Hne. apply Hother; [exact Hnf|]. cbn [meta].
      destruct (N.lt_ge_cases (e_id h') (lenN (meta e0))) as [Hlt'|Hge'].
      * apply nthN_app1. exact Hlt'.
      * rewrite !nthN_ge_None; [reflexivity|exact Hge'|]. rewrite lenN_app. cbn [lenN]. lia.
    + cbn [meta]. rewrite lenN_app. cbn [lenN]. lia.
    + cbn [meta]. exists EMPTY_META. auto.
Qed.

(* the formulation with holes only *)
Definition WInvH (holes : list N) (u : universe) (w : world) : Prop := WInvP holes None u w.

Lemma WInvH_nil_WInv u w : WInvH [] u w -> WInv u w.
Proof. apply WInvP_WInv. Qed.

Lemma WInv_fits_WInvH u w : WInv u w -> fits w -> WInvH [] u w.
Proof. apply WInv_fits_WInvP. Qed.
