(* Proofs of the statements in Proofs/QuerySpec.v (C08: queries; C17: prepared queries). *)
From Coq Require Import List NArith ZArith Bool Lia ZifyBool ZifyNat ZifyN Permutation.
From HecsV Require Import Base.ListN Base.ListNFacts Model.EntityBits Model.Types Model.Entities Model.World Model.Query.
From HecsV Require Import Proofs.WorldSpec Proofs.QuerySpec.
Import ListNotations.
Open Scope N_scope.

(* ------------------------------------------------------------------------------------------ *)
(* induction principle for the nested inductive [query]                                        *)
(* ------------------------------------------------------------------------------------------ *)

Definition query_ind' (P : query -> Prop)
  (HR : forall t, P (QRead t)) (HW : forall t, P (QWrite t))
  (HO : forall q, P q -> P (QOpt q))
  (HOr : forall l r, P l -> P r -> P (QOr l r))
  (HWith : forall q r, P q -> P r -> P (QWith q r))
  (HWo : forall q r, P q -> P r -> P (QWithout q r))
  (HS : forall q, P q -> P (QSat q))
  (HT : forall qs, Forall P qs -> P (QTup qs)) : forall q, P q :=
  fix F (q : query) : P q :=
    match q with
    | QRead t => HR t
    | QWrite t => HW t
    | QOpt q => HO q (F q)
    | QOr l r => HOr l r (F l) (F r)
    | QWith q r => HWith q r (F q) (F r)
    | QWithout q r => HWo q r (F q) (F r)
    | QSat q => HS q (F q)
    | QTup qs =>
        HT qs ((fix G (l : list query) : Forall P l :=
                  match l with
                  | [] => Forall_nil P
                  | x :: r => Forall_cons x (F x) (G r)
                  end) qs)
    end.

(* names for the local fixpoints of the QTup cases *)
Definition access_go (ts : list tid) :=
  fix go (qs : list query) (acc : N) : option N :=
    match qs with
    | [] => Some acc
    | q :: r => match access ts q with Some a => go r (N.max acc a) | None => None end
    end.

Definition prepare_go (ts : list tid) :=
  fix go (qs : list query) : option (list qstate) :=
    match qs with
    | [] => Some []
    | q :: r => match prepare ts q, go r with
                | Some s, Some ss => Some (s :: ss)
                | _, _ => None
                end
    end.

Definition get_go (row : list (tid * val)) :=
  fix go (qs : list query) (ss : list qstate) : list item :=
    match qs, ss with
    | q :: qr, s :: sr => get_item row q s :: go qr sr
    | _, _ => []
    end.

Definition borrows_go :=
  fix go (qs : list query) : list (tid * bool) :=
    match qs with [] => [] | q :: r => borrows q ++ go r end.

Lemma access_tup ts qs : access ts (QTup qs) = access_go ts qs 0.
Proof. reflexivity. Qed.
Lemma prepare_tup ts qs : prepare ts (QTup qs) = option_map STup (prepare_go ts qs).
Proof. reflexivity. Qed.
Lemma get_tup row qs ss : get_item row (QTup qs) (STup ss) = ITup (get_go row qs ss).
Proof. reflexivity. Qed.

Definition isS {A} (o : option A) : bool := match o with Some _ => true | None => false end.

Lemma isS_iff {A} (o : option A) b : isS o = b -> (o <> None <-> b = true).
Proof. destruct o; cbn [isS]; intros <-; split; congruence. Qed.

(* ------------------------------------------------------------------------------------------ *)
(* c08_triple                                                                                  *)
(* ------------------------------------------------------------------------------------------ *)

Lemma access_go_sat ts qs :
  Forall (fun q => isS (access ts q) = sat ts q) qs ->
  forall acc, isS (access_go ts qs acc) = forallb (sat ts) qs.
Proof.
  induction 1 as [|q r Hq Hr IH]; intros acc; cbn [access_go forallb]; [reflexivity|].
  rewrite <- Hq. destruct (access ts q) as [a|]; cbn [isS andb]; [apply IH|reflexivity].
Qed.

Lemma prepare_go_sat ts qs :
  Forall (fun q => isS (prepare ts q) = sat ts q) qs ->
  isS (prepare_go ts qs) = forallb (sat ts) qs.
Proof.
  induction 1 as [|q r Hq Hr IH]; cbn [prepare_go forallb]; [reflexivity|].
  rewrite <- Hq, <- IH. destruct (prepare ts q) as [s|]; cbn [isS andb]; [|reflexivity].
  destruct (prepare_go ts r); reflexivity.
Qed.

Lemma triple_eq q : forall ts, isS (access ts q) = sat ts q /\ isS (prepare ts q) = sat ts q.
Proof.
  induction q as [t|t|q IH|l r IHl IHr|q r IHq IHr|q r IHq IHr|q IH|qs IH] using query_ind'; intros ts.
  - cbn [access prepare sat]. destruct (mem_tid t ts); split; reflexivity.
  - cbn [access prepare sat]. destruct (mem_tid t ts); split; reflexivity.
  - split; reflexivity.
  - destruct (IHl ts) as [A1 P1], (IHr ts) as [A2 P2]. cbn [access prepare sat].
    rewrite <- A1, <- A2 at 1. rewrite <- P1, <- P2.
    split.
    + destruct (access ts l), (access ts r); reflexivity.
    + destruct (prepare ts l), (prepare ts r); reflexivity.
  - destruct (IHq ts) as [A1 P1], (IHr ts) as [A2 P2]. cbn [access prepare sat].
    rewrite <- A1, <- A2 at 1. rewrite <- P1, <- A2.
    split.
    + destruct (access ts r), (access ts q); reflexivity.
    + destruct (access ts r), (prepare ts q); reflexivity.
  - destruct (IHq ts) as [A1 P1], (IHr ts) as [A2 P2]. cbn [access prepare sat].
    rewrite <- A1, <- A2 at 1. rewrite <- P1, <- A2.
    split.
    + destruct (access ts r), (access ts q); reflexivity.
    + destruct (access ts r), (prepare ts q); reflexivity.
  - split; reflexivity.
  - rewrite access_tup, prepare_tup. cbn [sat]. split.
    + apply access_go_sat. eapply Forall_impl; [|exact IH]. intros a Ha. apply Ha.
    + rewrite <- (prepare_go_sat ts qs).
      * destruct (prepare_go ts qs); reflexivity.
      * eapply Forall_impl; [|exact IH]. intros a Ha. apply Ha.
Qed.

Lemma access_sat ts q : isS (access ts q) = sat ts q.
Proof. apply triple_eq. Qed.
Lemma prepare_sat ts q : isS (prepare ts q) = sat ts q.
Proof. apply triple_eq. Qed.

Theorem c08_triple_proof : c08_triple_stmt.
Proof.
  intros ts q. split; apply isS_iff; [apply access_sat|apply prepare_sat].
Qed.

(* ------------------------------------------------------------------------------------------ *)
(* c08_item                                                                                    *)
(* ------------------------------------------------------------------------------------------ *)

Lemma get_with row q r s : get_item row (QWith q r) s = get_item row q s.
Proof. destruct s; reflexivity. Qed.
Lemma get_without row q r s : get_item row (QWithout q r) s = get_item row q s.
Proof. destruct s; reflexivity. Qed.

Lemma get_go_spec row ts qs :
  Forall (fun q => forall s, prepare ts q = Some s -> get_item row q s = item_spec row q) qs ->
  forall ss, prepare_go ts qs = Some ss -> get_go row qs ss = map (item_spec row) qs.
Proof.
  induction 1 as [|q r Hq Hr IH]; intros ss; cbn [prepare_go].
  - intros [= <-]. reflexivity.
  - destruct (prepare ts q) as [s|] eqn:E1; [|discriminate].
    destruct (prepare_go ts r) as [sr|] eqn:E2; [|discriminate].
    intros [= <-]. cbn [get_go map]. f_equal; [apply Hq; reflexivity|apply IH; reflexivity].
Qed.

Lemma item_eq q : forall row s, prepare (map fst row) q = Some s -> get_item row q s = item_spec row q.
Proof.
  induction q as [t|t|q IH|l r IHl IHr|q r IHq IHr|q r IHq IHr|q IH|qs IH] using query_ind';
    intros row s.
  - cbn [prepare]. destruct (mem_tid t (map fst row)); [|discriminate]. intros [= <-]. reflexivity.
  - cbn [prepare]. destruct (mem_tid t (map fst row)); [|discriminate]. intros [= <-]. reflexivity.
  - cbn [prepare]. intros [= <-]. cbn [item_spec]. rewrite <- prepare_sat.
    destruct (prepare (map fst row) q) as [s|] eqn:E; cbn [isS get_item]; [|reflexivity].
    f_equal. apply IH. exact E.
  - cbn [prepare item_spec]. rewrite <- !prepare_sat.
    destruct (prepare (map fst row) l) as [a|] eqn:E1; destruct (prepare (map fst row) r) as [b|] eqn:E2;
      cbn [isS]; try discriminate; intros [= <-]; cbn [get_item]; f_equal; auto.
  - cbn [prepare]. destruct (access (map fst row) r); [|discriminate]. intros H.
    rewrite get_with. cbn [item_spec]. apply IHq. exact H.
  - cbn [prepare]. destruct (access (map fst row) r); [discriminate|]. intros H.
    rewrite get_without. cbn [item_spec]. apply IHq. exact H.
  - cbn [prepare]. intros [= <-]. cbn [get_item item_spec]. rewrite <- prepare_sat. reflexivity.
  - rewrite prepare_tup. destruct (prepare_go (map fst row) qs) as [ss|] eqn:E; cbn [option_map]; [|discriminate].
    intros [= <-]. rewrite get_tup. cbn [item_spec]. f_equal.
    apply (get_go_spec row (map fst row)); [|exact E].
    eapply Forall_impl; [|exact IH]. intros a Ha s. apply Ha.
Qed.

Theorem c08_item_proof : c08_item_stmt.
Proof. intros row q s. apply item_eq. Qed.

(* ------------------------------------------------------------------------------------------ *)
(* c08_item_ok                                                                                 *)
(* ------------------------------------------------------------------------------------------ *)

Lemma mem_lookup_first t row : mem_tid t (map fst row) = true -> exists v, lookup_first t row = Some v.
Proof.
  unfold mem_tid. induction row as [|[t' v] row IH]; cbn [map fst memN lookup_first]; [discriminate|].
  destruct (N.eqb t t'); [eauto|exact IH].
Qed.

Lemma item_ok_tup xs : Forall item_ok xs -> item_ok (ITup xs).
Proof. induction 1 as [|x r Hx Hr IH]; cbn [item_ok]; [exact I|split; [exact Hx|exact IH]]. Qed.

Lemma item_ok_spec q : forall row, sat (map fst row) q = true -> item_ok (item_spec row q).
Proof.
  induction q as [t|t|q IH|l r IHl IHr|q r IHq IHr|q r IHq IHr|q IH|qs IH] using query_ind';
    intros row; cbn [sat item_spec].
  - intros H. destruct (mem_lookup_first _ _ H) as [v ->]. exact I.
  - intros H. destruct (mem_lookup_first _ _ H) as [v ->]. exact I.
  - intros _. destruct (sat (map fst row) q) eqn:E; cbn [item_ok]; [apply IH; exact E|exact I].
  - destruct (sat (map fst row) l) eqn:E1; destruct (sat (map fst row) r) eqn:E2; cbn [orb item_ok];
      try discriminate; intros _; auto.
  - intros H. apply andb_true_iff in H. apply IHq. apply H.
  - intros H. apply andb_true_iff in H. apply IHq. apply H.
  - intros _. exact I.
  - intros H. apply item_ok_tup. rewrite forallb_forall in H. rewrite Forall_forall in IH |- *.
    intros x Hx. apply in_map_iff in Hx. destruct Hx as [q [<- Hq]]. apply IH; [exact Hq|]. apply H. exact Hq.
Qed.

Theorem c08_item_ok_proof : c08_item_ok_stmt.
Proof. intros row q. apply item_ok_spec. Qed.

(* ------------------------------------------------------------------------------------------ *)
(* c08_static                                                                                  *)
(* ------------------------------------------------------------------------------------------ *)

Definition ab_inner (i : N) (a : tid) :=
  fix inner (j : N) (m : list (tid * bool)) : bool :=
    match m with
    | [] => true
    | (b, _) :: mr => (N.eqb i j || negb (N.eqb a b)) && inner (N.succ j) mr
    end.

Definition ab_outer (bs : list (tid * bool)) :=
  fix outer (i : N) (l : list (tid * bool)) : bool :=
    match l with
    | [] => true
    | (a, uniq) :: r => (if uniq then ab_inner i a 0 bs else true) && outer (N.succ i) r
    end.

Lemma assert_borrow_ok_eq q : assert_borrow_ok q = ab_outer (borrows q) 0 (borrows q).
Proof. reflexivity. Qed.

Lemma nthN_cons {A} (x : A) l k : nthN (x :: l) k = if N.eqb k 0 then Some x else nthN l (N.pred k).
Proof. reflexivity. Qed.

Lemma nthN_nil {A} k : nthN (@nil A) k = None.
Proof. reflexivity. Qed.

Lemma ab_inner_false i a m : forall j,
  ab_inner i a j m = false <-> exists k b, nthN m k = Some (a, b) /\ i <> j + k.
Proof.
  induction m as [|[b' u'] m IH]; intros j; cbn [ab_inner].
  - split; [discriminate|]. intros (k & b & H & _). rewrite nthN_nil in H. discriminate.
  - rewrite andb_false_iff, IH. split.
    + intros [H|(k & b & H & Hne)].
      * exists 0, u'. rewrite nthN_cons. cbn [N.eqb].
        destruct (N.eqb_spec i j) as [->|Hij]; cbn [orb] in H; [discriminate|].
        destruct (N.eqb_spec a b') as [->|Hab]; cbn [negb] in H; [|discriminate].
        split; [reflexivity|lia].
      * exists (N.succ k), b. rewrite nthN_cons.
        destruct (N.eqb_spec (N.succ k) 0); [lia|]. rewrite N.pred_succ. split; [exact H|lia].
    + intros (k & b & H & Hne). rewrite nthN_cons in H.
      destruct (N.eqb_spec k 0) as [->|Hk].
      * injection H as -> ->. left.
        destruct (N.eqb_spec i j); [lia|]. rewrite N.eqb_refl. reflexivity.
      * right. exists (N.pred k), b. split; [exact H|lia].
Qed.

Lemma ab_outer_false bs l : forall i,
  ab_outer bs i l = false <->
  exists k a, nthN l k = Some (a, true) /\ exists j b, nthN bs j = Some (a, b) /\ i + k <> j.
Proof.
  induction l as [|[a' u'] l IH]; intros i; cbn [ab_outer].
  - split; [discriminate|]. intros (k & a & H & _). rewrite nthN_nil in H. discriminate.
  - rewrite andb_false_iff, IH. split.
    + intros [H|(k & a & H & j & b & Hj & Hne)].
      * destruct u'; [|discriminate]. apply ab_inner_false in H. destruct H as (j & b & Hj & Hne).
        exists 0, a'. split; [reflexivity|]. exists j, b. split; [exact Hj|lia].
      * exists (N.succ k), a. rewrite nthN_cons.
        destruct (N.eqb_spec (N.succ k) 0); [lia|]. rewrite N.pred_succ. split; [exact H|].
        exists j, b. split; [exact Hj|lia].
    + intros (k & a & H & j & b & Hj & Hne). rewrite nthN_cons in H.
      destruct (N.eqb_spec k 0) as [->|Hk].
      * injection H as -> ->. left. apply ab_inner_false. exists j, b. split; [exact Hj|lia].
      * right. exists (N.pred k), a. split; [exact H|]. exists j, b. split; [exact Hj|lia].
Qed.

Theorem c08_static_proof : c08_static_stmt.
Proof.
  intros q. rewrite assert_borrow_ok_eq, ab_outer_false. split.
  - intros (k & a & H & j & b & Hj & Hne). exists k, j, a, b. repeat split; [lia|exact H|exact Hj].
  - intros (i & j & a & b & Hne & Hi & Hj). exists i, a. split; [exact Hi|]. exists j, b. split; [exact Hj|lia].
Qed.

(* ------------------------------------------------------------------------------------------ *)
(* c08_batched                                                                                 *)
(* ------------------------------------------------------------------------------------------ *)

Lemma takeN_dropN_app {A} (l : list A) : forall n, takeN n l ++ dropN n l = l.
Proof.
  induction l as [|x l IH]; intros n; cbn [takeN dropN]; [reflexivity|].
  destruct (N.eqb n 0); [reflexivity|]. cbn [app]. f_equal. apply IH.
Qed.

Lemma lenN_takeN_le {A} (l : list A) : forall n, lenN (takeN n l) <= n.
Proof.
  induction l as [|x l IH]; intros n; cbn [takeN lenN]; [lia|].
  destruct (N.eqb_spec n 0); cbn [lenN]; [lia|]. specialize (IH (N.pred n)). lia.
Qed.

Lemma length_dropN_le {A} (l : list A) : forall n, (length (dropN n l) <= length l)%nat.
Proof.
  induction l as [|x l IH]; intros n; cbn [dropN length]; [lia|].
  destruct (N.eqb n 0); cbn [length]; [lia|]. specialize (IH (N.pred n)). lia.
Qed.

Lemma chunk_rows_ok {A} bs : 1 <= bs -> forall fuel (rows : list A), (length rows < fuel)%nat ->
  concat (chunk_rows fuel bs rows) = rows /\
  (forall b, In b (chunk_rows fuel bs rows) -> b <> [] /\ lenN b <= bs).
Proof.
  intros Hbs. induction fuel as [|f IH]; intros rows Hlen; [lia|].
  cbn [chunk_rows]. destruct rows as [|x rows]; [split; [reflexivity|intros b []]|].
  assert (Hd : (length (dropN bs (x :: rows)) < f)%nat).
  { cbn [dropN]. destruct (N.eqb_spec bs 0); [lia|]. pose proof (length_dropN_le rows (N.pred bs)).
    cbn [length] in Hlen. lia. }
  destruct (IH _ Hd) as [IH1 IH2]. split.
  - cbn [concat]. rewrite IH1. apply takeN_dropN_app.
  - intros b [<-|Hb]; [|apply IH2; exact Hb]. split; [|apply lenN_takeN_le].
    cbn [takeN]. destruct (N.eqb_spec bs 0); [lia|discriminate].
Qed.

Lemma concat_concat_map {A B} (f : A -> list (list B)) l :
  concat (concat (map f l)) = concat (map (fun a => concat (f a)) l).
Proof.
  induction l as [|x l IH]; cbn [map concat]; [reflexivity|]. rewrite concat_app, IH. reflexivity.
Qed.

Theorem c08_batched_proof : c08_batched_stmt.
Proof.
  intros w q bs Hbs. unfold query_batches, query_iter. split.
  - rewrite concat_concat_map. f_equal. apply map_ext. intros a.
    destruct (prepare (a_types a) q) as [s|]; [|reflexivity].
    apply chunk_rows_ok; [exact Hbs|]. rewrite map_length. lia.
  - intros b Hb. apply in_concat in Hb. destruct Hb as (l & Hl & Hb).
    apply in_map_iff in Hl. destruct Hl as (a & <- & Ha).
    destruct (prepare (a_types a) q) as [s|]; [|destruct Hb].
    revert b Hb. apply chunk_rows_ok; [exact Hbs|]. rewrite map_length. lia.
Qed.

(* ------------------------------------------------------------------------------------------ *)
(* c17_valid_iter                                                                              *)
(* ------------------------------------------------------------------------------------------ *)

Definition prep_go (q : query) :=
  fix go (i : N) (archs : list arch) : list (N * qstate) :=
    match archs with
    | [] => []
    | a :: r => match prepare (a_types a) q with
                | Some s => (i, s) :: go (N.succ i) r
                | None => go (N.succ i) r
                end
    end.

Lemma pq_prepare_state wid w q : pq_state (pq_prepare wid w q) = prep_go q 0 (w_archs w).
Proof. reflexivity. Qed.

Definition pq_find (k : N) :=
  fix find (l : list (N * qstate)) : option qstate :=
    match l with
    | [] => None
    | (i, s) :: r => if N.eqb i k then Some s else find r
    end.

Lemma pq_view_get_eq p w q h :
  pq_view_get p w q h =
  match nthN (meta (w_ents w)) (e_id h) with
  | None => None
  | Some m =>
      if negb (N.eqb (m_gen m) (e_gen h)) || N.eqb (l_idx (m_loc m)) SENT then None else
      match pq_find (l_arch (m_loc m)) (pq_state p) with
      | None => None
      | Some s =>
          match nthN (w_archs w) (l_arch (m_loc m)) with
          | Some a => match nthN (a_rows a) (l_idx (m_loc m)) with
                      | Some r => Some (get_item (r_vals r) q s)
                      | None => None
                      end
          | None => None
          end
      end
  end.
Proof. reflexivity. Qed.

Lemma prep_go_map {B} q (all : list arch) (h : arch -> qstate -> B) (d : B) suf : forall pre,
  all = pre ++ suf ->
  map (fun is => match nthN all (fst is) with Some a => h a (snd is) | None => d end)
      (prep_go q (lenN pre) suf)
  = concat (map (fun a => match prepare (a_types a) q with Some s => [h a s] | None => [] end) suf).
Proof.
  induction suf as [|a r IH]; intros pre Hall; cbn [prep_go map concat]; [reflexivity|].
  assert (Hall' : all = (pre ++ [a]) ++ r) by (rewrite <- app_assoc; exact Hall).
  assert (Hlen : N.succ (lenN pre) = lenN (pre ++ [a])) by (rewrite lenN_app; cbn [lenN]; lia).
  specialize (IH _ Hall'). rewrite <- Hlen in IH.
  destruct (prepare (a_types a) q) as [s|]; cbn [map app fst snd]; [|exact IH].
  rewrite IH. f_equal. rewrite Hall', nthN_app1 by (rewrite <- Hlen; lia). rewrite nthN_snoc_last. reflexivity.
Qed.

Lemma prep_go_map0 {B} q (all : list arch) (h : arch -> qstate -> B) (d : B) :
  map (fun is => match nthN all (fst is) with Some a => h a (snd is) | None => d end) (prep_go q 0 all)
  = concat (map (fun a => match prepare (a_types a) q with Some s => [h a s] | None => [] end) all).
Proof. apply (prep_go_map q all h d all []). reflexivity. Qed.

Lemma pq_find_prep_go q suf : forall i k,
  pq_find k (prep_go q i suf) =
  if N.ltb k i then None else
  match nthN suf (k - i) with Some a => prepare (a_types a) q | None => None end.
Proof.
  induction suf as [|a r IH]; intros i k; cbn [prep_go].
  - cbn [pq_find]. rewrite nthN_nil. destruct (N.ltb k i); reflexivity.
  - rewrite nthN_cons.
    assert (IH' := IH (N.succ i) k).
    destruct (N.ltb_spec k i) as [Hlt|Hge].
    + destruct (N.ltb_spec k (N.succ i)); [|lia].
      destruct (prepare (a_types a) q) as [s|]; [|exact IH']. cbn [pq_find].
      destruct (N.eqb_spec i k); [lia|exact IH'].
    + destruct (N.eqb_spec (k - i) 0) as [Hz|Hnz].
      * assert (k = i) by lia. subst k.
        destruct (N.ltb_spec i (N.succ i)); [|lia].
        destruct (prepare (a_types a) q) as [s|]; [|exact IH']. cbn [pq_find].
        rewrite N.eqb_refl. reflexivity.
      * destruct (N.ltb_spec k (N.succ i)); [lia|].
        replace (N.pred (k - i)) with (k - N.succ i) by lia.
        destruct (prepare (a_types a) q) as [s|]; [|exact IH']. cbn [pq_find].
        destruct (N.eqb_spec i k); [lia|exact IH'].
Qed.

Lemma lenN_concat {A} (ls : list (list A)) : lenN (concat ls) = sumN (map lenN ls).
Proof. induction ls as [|l ls IH]; cbn [concat map sumN lenN]; [reflexivity|]. rewrite lenN_app, IH. reflexivity. Qed.

Lemma sumN_concat (ls : list (list N)) : sumN (concat ls) = sumN (map sumN ls).
Proof.
  induction ls as [|l ls IH]; cbn [concat map sumN]; [reflexivity|]. rewrite <- IH.
  induction l as [|x l IHl]; cbn [app sumN]; [reflexivity|]. rewrite IHl. lia.
Qed.

Lemma lenN_query_iter w q :
  lenN (query_iter w q) =
  sumN (map (fun a => match prepare (a_types a) q with Some _ => lenN (a_rows a) | None => 0 end) (w_archs w)).
Proof.
  unfold query_iter. rewrite lenN_concat, map_map. f_equal. apply map_ext. intros a.
  destruct (prepare (a_types a) q); [apply lenN_map|reflexivity].
Qed.

Theorem c17_valid_iter_proof : c17_valid_iter_stmt.
Proof.
  intros p wid w q Hst. rewrite pq_prepare_state in Hst. split; [|split].
  - unfold pq_iter, query_iter. rewrite Hst.
    rewrite (prep_go_map0 q (w_archs w)
               (fun a s => map (fun r => (handle_of w (r_id r), get_item (r_vals r) q s)) (a_rows a))).
    rewrite concat_concat_map. f_equal. apply map_ext. intros a.
    destruct (prepare (a_types a) q); cbn [concat]; [apply app_nil_r|reflexivity].
  - unfold pq_len. rewrite Hst, lenN_query_iter.
    rewrite (prep_go_map0 q (w_archs w) (fun a _ => lenN (a_rows a))).
    rewrite sumN_concat, map_map. f_equal. apply map_ext. intros a.
    destruct (prepare (a_types a) q); cbn [sumN]; lia.
  - intros h. rewrite pq_view_get_eq. unfold view_get. rewrite Hst.
    destruct (nthN (meta (w_ents w)) (e_id h)) as [m|]; [|reflexivity].
    destruct (negb (N.eqb (m_gen m) (e_gen h)) || N.eqb (l_idx (m_loc m)) SENT); [reflexivity|].
    rewrite pq_find_prep_go. destruct (N.ltb_spec (l_arch (m_loc m)) 0); [lia|].
    rewrite N.sub_0_r.
    destruct (nthN (w_archs w) (l_arch (m_loc m))) as [a|]; [|reflexivity].
    destruct (prepare (a_types a) q); reflexivity.
Qed.

(* ------------------------------------------------------------------------------------------ *)
(* world-level facts from WInv                                                                 *)
(* ------------------------------------------------------------------------------------------ *)

Lemma NoDup_nthN {A} (l : list A) :
  (forall i j x, nthN l i = Some x -> nthN l j = Some x -> i = j) -> NoDup l.
Proof.
  induction l as [|y l IH]; intros H; constructor.
  - intros Hin. apply In_nthN in Hin. destruct Hin as [j Hj].
    assert (E : 0 = N.succ j).
    { apply (H 0 (N.succ j) y); [reflexivity|]. rewrite nthN_cons.
      destruct (N.eqb_spec (N.succ j) 0); [lia|]. rewrite N.pred_succ. exact Hj. }
    lia.
  - apply IH. intros i j x Hi Hj.
    assert (E : N.succ i = N.succ j).
    { apply (H _ _ x); rewrite nthN_cons.
      - destruct (N.eqb_spec (N.succ i) 0); [lia|]. rewrite N.pred_succ. exact Hi.
      - destruct (N.eqb_spec (N.succ j) 0); [lia|]. rewrite N.pred_succ. exact Hj. }
    lia.
Qed.

Lemma NoDup_nthN_inj {A} (l : list A) : NoDup l ->
  forall i j x, nthN l i = Some x -> nthN l j = Some x -> i = j.
Proof.
  induction 1 as [|y l Hy Hl IH]; intros i j x; [rewrite nthN_nil; discriminate|].
  rewrite !nthN_cons. destruct (N.eqb_spec i 0) as [->|Hi]; destruct (N.eqb_spec j 0) as [->|Hj].
  - reflexivity.
  - intros [= <-] H. apply nthN_In in H. contradiction.
  - intros H [= <-]. apply nthN_In in H. contradiction.
  - intros H1 H2. specialize (IH _ _ _ H1 H2). lia.
Qed.

Lemma NoDup_app_intro {A} (l1 l2 : list A) :
  NoDup l1 -> NoDup l2 -> (forall x, In x l1 -> ~ In x l2) -> NoDup (l1 ++ l2).
Proof.
  induction 1 as [|y l1 Hy Hl IH]; intros H2 Hd; cbn [app]; [exact H2|]. constructor.
  - rewrite in_app_iff. intros [H|H]; [contradiction|]. apply (Hd y); [left; reflexivity|exact H].
  - apply IH; [exact H2|]. intros x Hx. apply Hd. right. exact Hx.
Qed.

Lemma NoDup_concat {A} (ls : list (list A)) :
  (forall l, In l ls -> NoDup l) ->
  (forall i j l1 l2 x, nthN ls i = Some l1 -> nthN ls j = Some l2 -> In x l1 -> In x l2 -> i = j) ->
  NoDup (concat ls).
Proof.
  induction ls as [|l ls IH]; intros Hnd Hdis; cbn [concat]; [constructor|].
  apply NoDup_app_intro.
  - apply Hnd. left. reflexivity.
  - apply IH.
    + intros l' Hl'. apply Hnd. right. exact Hl'.
    + intros i j l1 l2 x Hi Hj H1 H2.
      assert (E : N.succ i = N.succ j).
      { apply (Hdis _ _ l1 l2 x); try assumption; rewrite nthN_cons.
        - destruct (N.eqb_spec (N.succ i) 0); [lia|]. rewrite N.pred_succ. exact Hi.
        - destruct (N.eqb_spec (N.succ j) 0); [lia|]. rewrite N.pred_succ. exact Hj. }
      lia.
  - intros x Hx Hc. apply in_concat in Hc. destruct Hc as (l' & Hl' & Hx').
    apply In_nthN in Hl'. destruct Hl' as [j Hj].
    assert (E : 0 = N.succ j).
    { apply (Hdis _ _ l l' x); try assumption; [reflexivity|]. rewrite nthN_cons.
      destruct (N.eqb_spec (N.succ j) 0); [lia|]. rewrite N.pred_succ. exact Hj. }
    lia.
Qed.

(* rows of one archetype carry distinct ids; rows of different archetypes too *)
Lemma row_ids_inj u w ai a ri r aj b rj r' :
  WInv u w ->
  nthN (w_archs w) ai = Some a -> nthN (a_rows a) ri = Some r ->
  nthN (w_archs w) aj = Some b -> nthN (a_rows b) rj = Some r' ->
  r_id r = r_id r' -> ai = aj /\ ri = rj.
Proof.
  intros HI Ha Hr Hb Hr' Hid.
  destruct (wi_row u w HI _ _ _ _ Ha Hr) as (m & Hm & Hl).
  destruct (wi_row u w HI _ _ _ _ Hb Hr') as (m' & Hm' & Hl').
  rewrite Hid in Hm. rewrite Hm in Hm'. injection Hm' as <-. rewrite Hl in Hl'.
  injection Hl' as -> ->. split; reflexivity.
Qed.

Lemma row_ids_nodup u w a : WInv u w -> In a (w_archs w) -> NoDup (map r_id (a_rows a)).
Proof.
  intros HI Ha. apply In_nthN in Ha. destruct Ha as [ai Ha].
  apply NoDup_nthN. intros i j x. rewrite !nthN_map.
  destruct (nthN (a_rows a) i) as [r|] eqn:Hi; [|discriminate].
  destruct (nthN (a_rows a) j) as [r'|] eqn:Hj; [|discriminate].
  cbn [option_map]. intros [= <-] [= E].
  eapply (row_ids_inj u w ai a i r ai a j r'); eauto.
Qed.

Definition rows_below_sent (w : world) : Prop :=
  forall a, In a (w_archs w) -> lenN (a_rows a) <= SENT.

Lemma pigeon (l : list N) n : NoDup l -> (forall x, In x l -> x < n) -> lenN l <= n.
Proof.
  intros Hnd Hlt.
  assert (H : (length (map N.to_nat l) <= length (seq 0 (N.to_nat n)))%nat).
  { apply NoDup_incl_length.
    - apply FinFun.Injective_map_NoDup; [|exact Hnd]. intros x y. apply N2Nat.inj.
    - intros x Hx. apply in_map_iff in Hx. destruct Hx as (y & <- & Hy). apply in_seq.
      specialize (Hlt _ Hy). lia. }
  rewrite map_length, seq_length in H. rewrite lenN_length. lia.
Qed.

Lemma fits_rows_below_sent u w : WInv u w -> fits w -> rows_below_sent w.
Proof.
  intros HI Hf a Ha. unfold fits in Hf.
  assert (H : lenN (map r_id (a_rows a)) <= lenN (meta (w_ents w))).
  { apply pigeon; [eapply row_ids_nodup; eauto|].
    intros x Hx. apply in_map_iff in Hx. destruct Hx as (r & <- & Hr).
    apply In_nthN in Ha. destruct Ha as [ai Ha]. apply In_nthN in Hr. destruct Hr as [ri Hr].
    destruct (wi_row u w HI _ _ _ _ Ha Hr) as (m & Hm & _). eapply nthN_Some_lt. exact Hm. }
  rewrite lenN_map in H. lia.
Qed.

Lemma In_query_iter w q h i :
  In (h, i) (query_iter w q) <->
  exists ai a ri r s, nthN (w_archs w) ai = Some a /\ nthN (a_rows a) ri = Some r /\
    prepare (a_types a) q = Some s /\ h = handle_of w (r_id r) /\ i = get_item (r_vals r) q s.
Proof.
  unfold query_iter. rewrite in_concat. split.
  - intros (l & Hl & Hin). apply in_map_iff in Hl. destruct Hl as (a & <- & Ha).
    destruct (prepare (a_types a) q) as [s|] eqn:Hp; [|destruct Hin].
    apply in_map_iff in Hin. destruct Hin as (r & [= <- <-] & Hr).
    apply In_nthN in Ha. destruct Ha as [ai Ha]. apply In_nthN in Hr. destruct Hr as [ri Hr].
    exists ai, a, ri, r, s. repeat split; assumption.
  - intros (ai & a & ri & r & s & Ha & Hr & Hp & -> & ->).
    eexists. split.
    + apply in_map_iff. exists a. split; [reflexivity|]. eapply nthN_In. exact Ha.
    + rewrite Hp. apply in_map_iff. exists r. split; [reflexivity|]. eapply nthN_In. exact Hr.
Qed.

(* the handle iteration produces for a row is the live handle of that row *)
Lemma row_handle u w ai a ri r :
  WInv u w -> ri <> SENT ->
  nthN (w_archs w) ai = Some a -> nthN (a_rows a) ri = Some r ->
  get_mut (w_ents w) (handle_of w (r_id r)) = Some {| l_arch := ai; l_idx := ri |} /\
  get (w_ents w) (handle_of w (r_id r)) = Some {| l_arch := ai; l_idx := ri |} /\
  abs w (handle_of w (r_id r)) = Some (r_vals r).
Proof.
  intros HI Hri Ha Hr. destruct (wi_row u w HI _ _ _ _ Ha Hr) as (m & Hm & Hl).
  assert (Hg : get (w_ents w) (handle_of w (r_id r)) = Some {| l_arch := ai; l_idx := ri |}).
  { unfold get, handle_of, gen_of. cbn [e_id e_gen]. rewrite Hm, N.eqb_refl, Hl. cbn [negb l_idx].
    destruct (N.eqb_spec ri SENT); [contradiction|reflexivity]. }
  split; [|split].
  - unfold get_mut, handle_of, gen_of. cbn [e_id e_gen]. rewrite Hm, N.eqb_refl, Hl. cbn [l_idx andb].
    destruct (N.eqb_spec ri SENT); [contradiction|reflexivity].
  - exact Hg.
  - unfold abs. rewrite Hg. cbn [l_idx l_arch]. destruct (N.eqb_spec ri SENT); [contradiction|].
    rewrite Ha, Hr. reflexivity.
Qed.

(* a meta entry with a real location names a row carrying that id *)
Lemma live_row u w id m :
  WInv u w -> nthN (meta (w_ents w)) id = Some m -> l_idx (m_loc m) <> SENT ->
  exists a r, nthN (w_archs w) (l_arch (m_loc m)) = Some a /\
              nthN (a_rows a) (l_idx (m_loc m)) = Some r /\ r_id r = id.
Proof.
  intros HI Hm Hne. destruct (wi_loc u w HI _ _ Hm) as [[_ He]|(_ & _ & H)]; [|exact H].
  rewrite He in Hne. cbn [EMPTY_LOC l_idx] in Hne. contradiction.
Qed.

Lemma handle_of_live w h m :
  nthN (meta (w_ents w)) (e_id h) = Some m -> m_gen m = e_gen h -> handle_of w (e_id h) = h.
Proof.
  intros Hm Hg. destruct h as [id g]. unfold handle_of, gen_of. cbn [e_id e_gen] in *. rewrite Hm, Hg. reflexivity.
Qed.

Lemma rows_types u w ai a ri r :
  WInv u w -> nthN (w_archs w) ai = Some a -> nthN (a_rows a) ri = Some r -> map fst (r_vals r) = a_types a.
Proof. intros HI Ha Hr. apply (wi_rowtypes u w HI); eapply nthN_In; eauto. Qed.

Lemma sat_prepare ts q : sat ts q = true -> exists s, prepare ts q = Some s.
Proof. rewrite <- prepare_sat. destruct (prepare ts q) as [s|]; [eauto|discriminate]. Qed.

Lemma prepare_Some_sat ts q s : prepare ts q = Some s -> sat ts q = true.
Proof. rewrite <- prepare_sat. intros ->. reflexivity. Qed.

Lemma prepare_None_sat ts q : prepare ts q = None -> sat ts q = false.
Proof. rewrite <- prepare_sat. intros ->. reflexivity. Qed.

(* ------------------------------------------------------------------------------------------ *)
(* c08_iter (weakened: no archetype has a row at the sentinel index; follows from [fits])      *)
(* ------------------------------------------------------------------------------------------ *)

Lemma query_len_exact w q : query_len w q = lenN (query_iter w q).
Proof.
  rewrite lenN_query_iter. unfold query_len. f_equal. apply map_ext. intros a.
  pose proof (access_sat (a_types a) q) as H1. pose proof (prepare_sat (a_types a) q) as H2.
  destruct (access (a_types a) q), (prepare (a_types a) q); cbn [isS] in *; congruence.
Qed.

Lemma query_iter_ids w q :
  map (fun p => e_id (fst p)) (query_iter w q) =
  concat (map (fun a => match prepare (a_types a) q with Some _ => map r_id (a_rows a) | None => [] end)
              (w_archs w)).
Proof.
  unfold query_iter. rewrite concat_map, map_map. f_equal. apply map_ext. intros a.
  destruct (prepare (a_types a) q); [|reflexivity]. rewrite map_map. reflexivity.
Qed.

Lemma query_iter_nodup u w q : WInv u w -> NoDup (map (fun p => e_id (fst p)) (query_iter w q)).
Proof.
  intros HI. rewrite query_iter_ids. apply NoDup_concat.
  - intros l Hl. apply in_map_iff in Hl. destruct Hl as (a & <- & Ha).
    destruct (prepare (a_types a) q); [|constructor]. eapply row_ids_nodup; eauto.
  - intros i j l1 l2 x. rewrite !nthN_map.
    destruct (nthN (w_archs w) i) as [a|] eqn:Ha; [|discriminate].
    destruct (nthN (w_archs w) j) as [b|] eqn:Hb; [|discriminate].
    cbn [option_map]. intros [= <-] [= <-] H1 H2.
    destruct (prepare (a_types a) q); [|destruct H1]. destruct (prepare (a_types b) q); [|destruct H2].
    apply in_map_iff in H1. destruct H1 as (r & <- & Hr). apply in_map_iff in H2. destruct H2 as (r' & E & Hr').
    apply In_nthN in Hr. destruct Hr as [ri Hr]. apply In_nthN in Hr'. destruct Hr' as [rj Hr'].
    symmetry in E. apply (row_ids_inj u w i a ri r j b rj r' HI Ha Hr Hb Hr' E).
Qed.

Lemma query_iter_sound u w q h i : WInv u w -> rows_below_sent w ->
  In (h, i) (query_iter w q) ->
  exists l, located w h /\ abs w h = Some l /\ sat (map fst l) q = true /\ i = item_spec l q.
Proof.
  intros HI HS Hin. apply In_query_iter in Hin.
  destruct Hin as (ai & a & ri & r & s & Ha & Hr & Hp & -> & ->).
  assert (Hri : ri <> SENT).
  { pose proof (HS a (nthN_In _ _ _ Ha)). pose proof (nthN_Some_lt _ _ _ Hr). lia. }
  destruct (row_handle u w ai a ri r HI Hri Ha Hr) as (Hgm & _ & Habs).
  pose proof (rows_types u w ai a ri r HI Ha Hr) as Hty.
  exists (r_vals r). split; [|split; [|split]].
  - unfold located. rewrite Hgm. discriminate.
  - exact Habs.
  - rewrite Hty. eapply prepare_Some_sat. exact Hp.
  - apply item_eq. rewrite Hty. exact Hp.
Qed.

Lemma query_iter_complete u w q h l : WInv u w ->
  located w h -> abs w h = Some l -> sat (map fst l) q = true -> In (h, item_spec l q) (query_iter w q).
Proof.
  intros HI Hloc Habs Hsat. unfold located, get_mut in Hloc.
  destruct (nthN (meta (w_ents w)) (e_id h)) as [m|] eqn:Hm; [|congruence].
  destruct (N.eqb_spec (m_gen m) (e_gen h)) as [Hg|Hg]; cbn [andb] in Hloc; [|congruence].
  destruct (N.eqb_spec (l_idx (m_loc m)) SENT) as [Hs|Hs]; cbn [negb] in Hloc; [congruence|].
  destruct (live_row u w _ m HI Hm Hs) as (a & r & Ha & Hr & Hid).
  unfold abs, get in Habs. rewrite Hm in Habs.
  destruct (N.eqb_spec (m_gen m) (e_gen h)); [|contradiction]. cbn [negb] in Habs.
  destruct (N.eqb_spec (l_idx (m_loc m)) SENT); [contradiction|].
  destruct (N.eqb_spec (l_idx (m_loc m)) SENT); [contradiction|].
  rewrite Ha, Hr in Habs. injection Habs as <-.
  pose proof (rows_types u w _ a _ r HI Ha Hr) as Hty. rewrite Hty in Hsat.
  destruct (sat_prepare _ _ Hsat) as [s Hp].
  apply In_query_iter. exists (l_arch (m_loc m)), a, (l_idx (m_loc m)), r, s.
  repeat split; try assumption.
  - rewrite Hid. symmetry. eapply handle_of_live; eauto.
  - symmetry. apply item_eq. rewrite Hty. exact Hp.
Qed.

Theorem c08_iter_weakened :
  forall u w q, WInv u w -> rows_below_sent w ->
    NoDup (map (fun p => e_id (fst p)) (query_iter w q)) /\
    (forall h i, In (h, i) (query_iter w q) <->
                 exists l, located w h /\ abs w h = Some l /\ sat (map fst l) q = true /\ i = item_spec l q) /\
    query_len w q = lenN (query_iter w q).
Proof.
  intros u w q HI HS. split; [|split].
  - eapply query_iter_nodup; eauto.
  - intros h i. split.
    + eapply query_iter_sound; eauto.
    + intros (l & Hloc & Habs & Hsat & ->). eapply query_iter_complete; eauto.
  - apply query_len_exact.
Qed.

Theorem c08_iter_proof : c08_iter_stmt.
Proof. intros u w q HI Hf. eapply c08_iter_weakened; eauto using fits_rows_below_sent. Qed.

Corollary c08_iter_fits :
  forall u w q, WInv u w -> fits w ->
    NoDup (map (fun p => e_id (fst p)) (query_iter w q)) /\
    (forall h i, In (h, i) (query_iter w q) <->
                 exists l, located w h /\ abs w h = Some l /\ sat (map fst l) q = true /\ i = item_spec l q) /\
    query_len w q = lenN (query_iter w q).
Proof. intros u w q HI Hf. eapply c08_iter_weakened; eauto using fits_rows_below_sent. Qed.

(* ------------------------------------------------------------------------------------------ *)
(* c08_view (weakened in the same way; the left-to-right direction needs no extra hypothesis)  *)
(* ------------------------------------------------------------------------------------------ *)

Lemma view_get_sound u w q h i : WInv u w -> view_get w q h = Some i -> In (h, i) (query_iter w q).
Proof.
  intros HI. unfold view_get.
  destruct (nthN (meta (w_ents w)) (e_id h)) as [m|] eqn:Hm; [|discriminate].
  destruct (N.eqb_spec (m_gen m) (e_gen h)) as [Hg|Hg]; cbn [negb orb]; [|discriminate].
  destruct (N.eqb_spec (l_idx (m_loc m)) SENT) as [Hs|Hs]; [discriminate|].
  destruct (live_row u w _ m HI Hm Hs) as (a & r & Ha & Hr & Hid). rewrite Ha, Hr.
  destruct (prepare (a_types a) q) as [s|] eqn:Hp; [|discriminate]. intros [= <-].
  apply In_query_iter. exists (l_arch (m_loc m)), a, (l_idx (m_loc m)), r, s.
  repeat split; try assumption. rewrite Hid. symmetry. eapply handle_of_live; eauto.
Qed.

Lemma view_get_complete u w q h i : WInv u w -> rows_below_sent w ->
  In (h, i) (query_iter w q) -> view_get w q h = Some i.
Proof.
  intros HI HS Hin. apply In_query_iter in Hin.
  destruct Hin as (ai & a & ri & r & s & Ha & Hr & Hp & -> & ->).
  assert (Hri : ri <> SENT).
  { pose proof (HS a (nthN_In _ _ _ Ha)). pose proof (nthN_Some_lt _ _ _ Hr). lia. }
  destruct (wi_row u w HI _ _ _ _ Ha Hr) as (m & Hm & Hl).
  unfold view_get, handle_of, gen_of. cbn [e_id e_gen]. rewrite Hm, N.eqb_refl, Hl. cbn [negb orb l_idx l_arch].
  destruct (N.eqb_spec ri SENT); [contradiction|]. rewrite Ha, Hp, Hr. reflexivity.
Qed.

Theorem c08_view_weakened :
  forall u w q h i, WInv u w -> rows_below_sent w ->
    (view_get w q h = Some i <-> In (h, i) (query_iter w q)).
Proof.
  intros u w q h i HI HS. split; [eapply view_get_sound; eauto|eapply view_get_complete; eauto].
Qed.

Theorem c08_view_proof : c08_view_stmt.
Proof. intros u w q h i HI Hf. eapply c08_view_weakened; eauto using fits_rows_below_sent. Qed.

Corollary c08_view_fits :
  forall u w q h i, WInv u w -> fits w ->
    (view_get w q h = Some i <-> In (h, i) (query_iter w q)).
Proof. intros u w q h i HI Hf. eapply c08_view_weakened; eauto using fits_rows_below_sent. Qed.

(* ------------------------------------------------------------------------------------------ *)
(* c08_query_one                                                                               *)
(* ------------------------------------------------------------------------------------------ *)

Lemma get_cases u w h l : WInv u w -> get (w_ents w) h = Some l ->
  l = EMPTY_LOC \/
  (l_idx l <> SENT /\ exists a r, nthN (w_archs w) (l_arch l) = Some a /\ nthN (a_rows a) (l_idx l) = Some r).
Proof.
  intros HI. unfold get.
  destruct (nthN (meta (w_ents w)) (e_id h)) as [m|] eqn:Hm.
  - destruct (negb (N.eqb (m_gen m) (e_gen h))); [discriminate|].
    destruct (N.eqb_spec (l_idx (m_loc m)) SENT) as [Hs|Hs].
    + destruct (memN (e_id h) (reserved_part (w_ents w))); [|discriminate]. intros [= <-]. left. reflexivity.
    + intros [= <-]. right. split; [exact Hs|].
      destruct (live_row u w _ m HI Hm Hs) as (a & r & Ha & Hr & _). eauto.
  - destruct (_ && _ && _); [|discriminate]. intros [= <-]. left. reflexivity.
Qed.

Theorem c08_query_one_proof : c08_query_one_stmt.
Proof.
  intros u w q h HI. unfold query_one, satisfies, w_entity, abs.
  destruct (get (w_ents w) h) as [l|] eqn:Hg; [|split; reflexivity].
  destruct (get_cases u w h l HI Hg) as [->|(Hne & a & r & Ha & Hr)].
  - cbn [EMPTY_LOC l_arch l_idx]. destruct (wi_arch0 u w HI) as [rows0 H0]. rewrite H0, N.eqb_refl.
    cbn [a_types a_rows map option_map]. split.
    + destruct (prepare [] q) as [s|] eqn:Hp.
      * rewrite (prepare_Some_sat _ _ _ Hp).
        destruct (nthN rows0 SENT) as [r|] eqn:Hr.
        -- pose proof (rows_types u w 0 _ SENT r HI H0 Hr) as Hty. cbn [a_types] in Hty.
           apply map_eq_nil in Hty. rewrite Hty. f_equal. apply item_eq. exact Hp.
        -- f_equal. apply item_eq. exact Hp.
      * rewrite (prepare_None_sat _ _ Hp). reflexivity.
    + f_equal. rewrite <- access_sat. destruct (access [] q); reflexivity.
  - destruct (N.eqb_spec (l_idx l) SENT); [contradiction|]. rewrite Ha, Hr. cbn [option_map].
    pose proof (rows_types u w _ a _ r HI Ha Hr) as Hty. rewrite Hty. split.
    + destruct (prepare (a_types a) q) as [s|] eqn:Hp.
      * rewrite (prepare_Some_sat _ _ _ Hp). f_equal. apply item_eq. rewrite Hty. exact Hp.
      * rewrite (prepare_None_sat _ _ Hp). reflexivity.
    + f_equal. rewrite <- access_sat. destruct (access (a_types a) q); reflexivity.
Qed.

(* ------------------------------------------------------------------------------------------ *)
(* c17_grows: every operation leaves the archetype type lists alone or appends one             *)
(* ------------------------------------------------------------------------------------------ *)

Definition grows (w w' : world) : Prop := exists extra, arch_types w' = arch_types w ++ extra.

Lemma grows_refl w : grows w w.
Proof. exists []. symmetry. apply app_nil_r. Qed.

Lemma grows_trans w1 w2 w3 : grows w1 w2 -> grows w2 w3 -> grows w1 w3.
Proof. intros [e1 H1] [e2 H2]. exists (e1 ++ e2). rewrite H2, H1, app_assoc. reflexivity. Qed.

Lemma grows_eq w w' : arch_types w' = arch_types w -> grows w w'.
Proof. intros H. exists []. rewrite H. symmetry. apply app_nil_r. Qed.

Lemma grows_same_r w w1 w2 : grows w w1 -> arch_types w2 = arch_types w1 -> grows w w2.
Proof. intros [e H] H2. exists e. rewrite H2. exact H. Qed.

Lemma grows_same_l w w1 w2 : arch_types w1 = arch_types w -> grows w1 w2 -> grows w w2.
Proof. intros H [e H2]. exists e. rewrite H2, H. reflexivity. Qed.

Lemma arch_types_with_ents w e : arch_types (with_ents w e) = arch_types w.
Proof. reflexivity. Qed.

Lemma map_types_updN l : forall i a a',
  nthN l i = Some a -> a_types a' = a_types a -> map a_types (updN l i a') = map a_types l.
Proof.
  induction l as [|x l IH]; intros i a a'; cbn [nthN updN]; [reflexivity|].
  destruct (N.eqb i 0).
  - intros [= ->] H. cbn [map]. rewrite H. reflexivity.
  - intros H1 H2. cbn [map]. f_equal. eapply IH; eauto.
Qed.

Lemma upd_arch_same w i a a' :
  nthN (w_archs w) i = Some a -> a_types a' = a_types a -> arch_types (upd_arch w i a') = arch_types w.
Proof. intros H1 H2. unfold arch_types, upd_arch, with_archs. cbn [w_archs]. eapply map_types_updN; eauto. Qed.

Lemma get_arch_Done w i a : get_arch w i = Done a -> nthN (w_archs w) i = Some a.
Proof. unfold get_arch. destruct (nthN (w_archs w) i); congruence. Qed.

Lemma get_row_Done w l a r : get_row w l = Done (a, r) -> nthN (w_archs w) (l_arch l) = Some a.
Proof.
  unfold get_row, bind. destruct (get_arch w (l_arch l)) as [a0|c] eqn:E; [|discriminate].
  destruct (nthN (a_rows a0) (l_idx l)); [|discriminate]. intros [= <- _]. apply get_arch_Done. exact E.
Qed.

Lemma arch_remove_types a idx a' r mv : arch_remove a idx = Done (a', r, mv) -> a_types a' = a_types a.
Proof.
  unfold arch_remove. destruct (N.eqb (arch_len a) 0); [discriminate|].
  destruct (nthN (a_rows a) idx); [|discriminate].
  destruct (nthN (a_rows a) (arch_len a - 1)); [|discriminate].
  destruct (N.eqb idx (arch_len a - 1)); intros H; injection H as <- _ _; reflexivity.
Qed.

Lemma detach_row_same w l w' r : detach_row w l = Done (w', r) -> arch_types w' = arch_types w.
Proof.
  unfold detach_row, bind. destruct (get_arch w (l_arch l)) as [a|c] eqn:Ea; [|discriminate].
  destruct (arch_remove a (l_idx l)) as [[[a' r0] mv]|c] eqn:Er; [|discriminate].
  intros [= <- _]. rewrite arch_types_with_ents.
  eapply upd_arch_same; [apply get_arch_Done; exact Ea|eapply arch_remove_types; exact Er].
Qed.

Lemma flush_ids_types ids : forall e a0 e' a0', flush_ids e a0 ids = (e', a0') -> a_types a0' = a_types a0.
Proof.
  induction ids as [|id ids IH]; intros e a0 e' a0'; cbn [flush_ids arch_push].
  - intros [= _ <-]. reflexivity.
  - intros H. apply IH in H. exact H.
Qed.

Lemma w_flush_same w w' : w_flush w = Done w' -> arch_types w' = arch_types w.
Proof.
  unfold w_flush, bind. destruct (flush (w_ents w)) as [[e ids]|c]; [|discriminate].
  destruct (get_arch w 0) as [a0|c] eqn:Ea; [|discriminate].
  destruct (flush_ids e a0 ids) as [e' a0'] eqn:Ef. intros [= <-]. rewrite arch_types_with_ents.
  eapply upd_arch_same; [apply get_arch_Done; exact Ea|eapply flush_ids_types; exact Ef].
Qed.

Lemma archs_get_grows u w ids info w' i : archs_get u w ids info = Done (w', i) -> grows w w'.
Proof.
  unfold archs_get. destruct (assoc_list ids (w_index w)); [intros [= <- _]; apply grows_refl|].
  destruct (assert_type_info u info) as [|[p|p|]]; try discriminate.
  intros [= <- _]. exists [{| a_types := info; a_rows := [] |}.(a_types)].
  unfold arch_types. cbn [w_archs]. rewrite map_app. reflexivity.
Qed.

Lemma bundle_archetype_grows u w b w' i : bundle_archetype u w b = Done (w', i) -> grows w w'.
Proof.
  unfold bundle_archetype. destruct (b_key b) as [k|]; [|apply archs_get_grows].
  destruct (assoc_list k (w_b2a w)); [intros [= <- _]; apply grows_refl|].
  unfold bind. destruct (archs_get u w _ _) as [[w1 a]|c] eqn:E; [|discriminate].
  intros [= <- _]. exact (archs_get_grows _ _ _ _ _ _ E).
Qed.

Lemma put_row_same w aid id items w' i : put_row w aid id items = Done (w', i) -> arch_types w' = arch_types w.
Proof.
  unfold put_row, bind. destruct (get_arch w aid) as [a|c] eqn:Ea; [|discriminate].
  destruct (negb _); [discriminate|]. destruct (mk_row _ _) as [vals|]; [|discriminate].
  cbn [arch_push]. intros [= <- _]. eapply upd_arch_same; [apply get_arch_Done; exact Ea|reflexivity].
Qed.

Lemma spawn_inner_grows u w h b w' : spawn_inner u w h b = Done w' -> grows w w'.
Proof.
  unfold spawn_inner, bind. destruct (bundle_archetype u w b) as [[w1 aid]|c] eqn:E1; [|discriminate].
  destruct (put_row w1 aid _ _) as [[w2 i]|c] eqn:E2; [|discriminate].
  intros [= <-]. eapply grows_same_r; [eapply bundle_archetype_grows; exact E1|].
  rewrite arch_types_with_ents. eapply put_row_same; exact E2.
Qed.

Lemma get_insert_target_grows u w src b w' t : get_insert_target u w src b = Done (w', t) -> grows w w'.
Proof.
  unfold get_insert_target, bind. destruct (get_arch w src) as [a|c]; [|discriminate].
  destruct (assert_type_info u _) as [|[p|p|]]; try discriminate.
  destruct (merge_loop _ _ _ _ _ _ _) as [[[rest added] replaced] retained].
  destruct (archs_get u w _ _) as [[w1 i]|c] eqn:E; [|discriminate].
  intros [= <- _]. eapply archs_get_grows; exact E.
Qed.

Lemma insert_target_grows u w origin b w' t : insert_target u w origin b = Done (w', t) -> grows w w'.
Proof.
  unfold insert_target. destruct (b_key b) as [k|]; [|apply get_insert_target_grows].
  destruct (assoc_pair origin k (w_ins w)); [intros [= <- _]; apply grows_refl|].
  unfold bind. destruct (get_insert_target u w origin b) as [[w1 t0]|c] eqn:E; [|discriminate].
  intros [= <- _]. exact (get_insert_target_grows _ _ _ _ _ _ E).
Qed.

Lemma insert_inner_grows u w h b origin l w' d : insert_inner u w h b origin l = Done (w', d) -> grows w w'.
Proof.
  unfold insert_inner, bind. destruct (insert_target u w origin b) as [[w1 t]|c] eqn:E1; [|discriminate].
  pose proof (insert_target_grows _ _ _ _ _ _ E1) as G1.
  destruct (get_row w1 l) as [[sa sr]|c] eqn:E2; [|discriminate].
  destruct (lookup_all (it_replaced t) (r_vals sr)) as [dropped|]; [|discriminate].
  destruct (N.eqb (it_index t) (l_arch l)).
  - destruct (negb _); [discriminate|]. intros [= <- _]. eapply grows_same_r; [exact G1|].
    eapply upd_arch_same; [eapply get_row_Done; exact E2|reflexivity].
  - destruct (lookup_all (it_retained t) (r_vals sr)) as [kept|]; [|discriminate].
    destruct (put_row w1 _ _ _) as [[w2 ti]|c] eqn:E3; [|discriminate].
    destruct (detach_row _ l) as [[w4 r0]|c] eqn:E4; [|discriminate].
    intros [= <- _]. eapply grows_same_r; [exact G1|].
    rewrite (detach_row_same _ _ _ _ E4), arch_types_with_ents. eapply put_row_same; exact E3.
Qed.

Lemma remove_target_grows u w old key removed w' i : remove_target u w old key removed = Done (w', i) -> grows w w'.
Proof.
  unfold remove_target. destruct (assoc_pair old key (w_rem w)); [intros [= <- _]; apply grows_refl|].
  unfold bind. destruct (get_arch w old) as [a|c]; [|discriminate].
  destruct (archs_get u w _ _) as [[w1 i0]|c] eqn:E; [|discriminate].
  intros [= <- _]. exact (archs_get_grows _ _ _ _ _ _ E).
Qed.

Lemma w_spawn_grows u w b w' h : w_spawn u w b = Done (w', h) -> grows w w'.
Proof.
  unfold w_spawn, bind. destruct (w_flush w) as [w0|c] eqn:E0; [|discriminate].
  destruct (alloc (w_ents w0)) as [[e h0]|c]; [|discriminate].
  destruct (spawn_inner u _ h0 b) as [w1|c] eqn:E1; [|discriminate].
  intros [= <- _]. eapply grows_same_l; [eapply w_flush_same; exact E0|].
  apply spawn_inner_grows in E1. exact E1.
Qed.

Lemma w_spawn_at_grows u w h b w' d : w_spawn_at u w h b = Done (w', d) -> grows w w'.
Proof.
  unfold w_spawn_at, bind. destruct (w_flush w) as [w0|c] eqn:E0; [|discriminate].
  destruct (alloc_at (w_ents w0) h) as [[e ol]|c]; [|discriminate].
  destruct ol as [l|].
  - destruct (detach_row (with_ents w0 e) l) as [[w2 r]|c] eqn:E2; [|discriminate].
    destruct (spawn_inner u w2 h b) as [w3|c] eqn:E3; [|discriminate].
    intros [= <- _]. eapply grows_same_l; [eapply w_flush_same; exact E0|].
    eapply grows_same_l; [|eapply spawn_inner_grows; exact E3].
    rewrite (detach_row_same _ _ _ _ E2). reflexivity.
  - destruct (spawn_inner u (with_ents w0 e) h b) as [w3|c] eqn:E3; [|discriminate].
    intros [= <- _]. eapply grows_same_l; [eapply w_flush_same; exact E0|].
    apply spawn_inner_grows in E3. exact E3.
Qed.

Lemma w_insert_grows u w h b w' r : w_insert u w h b = Done (w', r) -> grows w w'.
Proof.
  unfold w_insert, bind. destruct (w_flush w) as [w0|c] eqn:E0; [|discriminate].
  pose proof (w_flush_same _ _ E0) as S0.
  destruct (get (w_ents w0) h) as [l|].
  - destruct (insert_inner u w0 h b (l_arch l) l) as [[w1 d]|c] eqn:E1; [|discriminate].
    intros [= <- _]. eapply grows_same_l; [exact S0|eapply insert_inner_grows; exact E1].
  - intros [= <- _]. apply grows_eq. exact S0.
Qed.

Lemma move_row_same w1 target id kept w2 ti e l w4 r0 :
  put_row w1 target id kept = Done (w2, ti) ->
  detach_row (with_ents w2 e) l = Done (w4, r0) -> arch_types w4 = arch_types w1.
Proof.
  intros E3 E4. rewrite (detach_row_same _ _ _ _ E4), arch_types_with_ents. eapply put_row_same; exact E3.
Qed.

Lemma w_remove_grows u w h key ts w' r : w_remove u w h key ts = Done (w', r) -> grows w w'.
Proof.
  unfold w_remove, bind. destruct (w_flush w) as [w0|c] eqn:E0; [|discriminate].
  pose proof (w_flush_same _ _ E0) as S0.
  destruct (get_mut (w_ents w0) h) as [l|]; [|intros [= <- _]; apply grows_eq; exact S0].
  destruct (get_row w0 l) as [[sa sr]|c]; [|discriminate].
  destruct (dup_check u ts) as [[]|c]; [|discriminate].
  destruct (lookup_all ts (r_vals sr)) as [taken|]; [|intros [= <- _]; apply grows_eq; exact S0].
  destruct (remove_target u w0 (l_arch l) key ts) as [[w1 target]|c] eqn:E1; [|discriminate].
  pose proof (remove_target_grows _ _ _ _ _ _ _ E1) as G1.
  destruct (N.eqb (l_arch l) target); [intros [= <- _]; eapply grows_same_l; eauto|].
  destruct (get_arch w1 target) as [ta|c]; [|discriminate].
  destruct (put_row w1 target _ _) as [[w2 ti]|c] eqn:E3; [|discriminate].
  destruct (detach_row _ l) as [[w4 r0]|c] eqn:E4; [|discriminate].
  intros [= <- _]. eapply grows_same_l; [exact S0|]. eapply grows_same_r; [exact G1|].
  eapply move_row_same; eauto.
Qed.

Lemma w_exchange_grows u w h key ts b w' r : w_exchange u w h key ts b = Done (w', r) -> grows w w'.
Proof.
  unfold w_exchange, bind. destruct (w_flush w) as [w0|c] eqn:E0; [|discriminate].
  pose proof (w_flush_same _ _ E0) as S0.
  destruct (get (w_ents w0) h) as [l|]; [|intros [= <- _]; apply grows_eq; exact S0].
  destruct (get_row w0 l) as [[sa sr]|c]; [|discriminate].
  destruct (dup_check u ts) as [[]|c]; [|discriminate].
  destruct (lookup_all ts (r_vals sr)) as [taken|]; [|intros [= <- _]; apply grows_eq; exact S0].
  destruct (remove_target u w0 (l_arch l) key ts) as [[w1 mid]|c] eqn:E1; [|discriminate].
  destruct (insert_inner u w1 h b mid l) as [[w2 d]|c] eqn:E2; [|discriminate].
  intros [= <- _]. eapply grows_same_l; [exact S0|].
  eapply grows_trans; [eapply remove_target_grows; exact E1|eapply insert_inner_grows; exact E2].
Qed.

Lemma w_despawn_grows w h w' r : w_despawn w h = Done (w', r) -> grows w w'.
Proof.
  unfold w_despawn, bind. destruct (w_flush w) as [w0|c] eqn:E0; [|discriminate].
  pose proof (w_flush_same _ _ E0) as S0.
  destruct (free (w_ents w0) h) as [[[e l]|]|c]; [| |discriminate].
  - destruct (detach_row (with_ents w0 e) l) as [[w1 r0]|c] eqn:E1; [|discriminate].
    intros [= <- _]. apply grows_eq. rewrite (detach_row_same _ _ _ _ E1). exact S0.
  - intros [= <- _]. apply grows_eq. exact S0.
Qed.

Lemma w_take_drop_grows w h w' r : w_take_drop w h = Done (w', r) -> grows w w'.
Proof.
  unfold w_take_drop, bind. destruct (w_flush w) as [w0|c] eqn:E0; [|discriminate].
  pose proof (w_flush_same _ _ E0) as S0.
  destruct (get (w_ents w0) h) as [l|]; [|intros [= <- _]; apply grows_eq; exact S0].
  destruct (detach_row w0 l) as [[w1 r0]|c] eqn:E1; [|discriminate].
  destruct (free (w_ents w1) h) as [[[e l']|]|c]; try discriminate.
  intros [= <- _]. apply grows_eq. rewrite arch_types_with_ents, (detach_row_same _ _ _ _ E1). exact S0.
Qed.

Lemma w_clear_same w : arch_types (fst (w_clear w)) = arch_types w.
Proof.
  unfold w_clear, arch_types. cbn [fst w_archs]. rewrite map_map. apply map_ext. intros a. reflexivity.
Qed.

Lemma insert_batch_grows w types rows w' x base : insert_batch w types rows = Done (w', x, base) -> grows w w'.
Proof.
  unfold insert_batch. destruct (assoc_list types (w_index w)) as [i|].
  - unfold bind. destruct (get_arch w i) as [a|c] eqn:Ea; [|discriminate]. intros [= <- _ _].
    apply grows_eq. eapply upd_arch_same; [apply get_arch_Done; exact Ea|reflexivity].
  - intros [= <- _ _]. exists [types]. unfold arch_types. cbn [w_archs]. rewrite map_app. reflexivity.
Qed.

Lemma w_spawn_column_batch_grows w types vals w' hs :
  w_spawn_column_batch w types vals = Done (w', hs) -> grows w w'.
Proof.
  unfold w_spawn_column_batch, bind. destruct (w_flush w) as [w0|c] eqn:E0; [|discriminate].
  pose proof (w_flush_same _ _ E0) as S0.
  destruct (insert_batch w0 types _) as [[[w1 aid] base]|c] eqn:E1; [|discriminate].
  destruct (alloc_many (w_ents w1) _ aid base) as [[e ids]|c]; [|discriminate].
  destruct (get_arch w1 aid) as [a|c] eqn:Ea; [|discriminate].
  intros [= <- _]. eapply grows_same_l; [exact S0|].
  eapply grows_same_r; [eapply insert_batch_grows; exact E1|].
  rewrite arch_types_with_ents. eapply upd_arch_same; [apply get_arch_Done; exact Ea|reflexivity].
Qed.

Lemma wstep_grows u w o w' : wstep u w o = Done w' -> grows w w'.
Proof.
  destruct o as [b|h b|h b|h key ts|h key ts b|h|h| | | |types vals]; cbn [wstep].
  - destruct (w_spawn u w b) as [[w1 h]|c] eqn:E; [|discriminate]. intros [= <-]. eapply w_spawn_grows; exact E.
  - destruct (w_spawn_at u w h b) as [[w1 d]|c] eqn:E; [|discriminate]. intros [= <-]. eapply w_spawn_at_grows; exact E.
  - destruct (w_insert u w h b) as [[w1 d]|c] eqn:E; [|discriminate]. intros [= <-]. eapply w_insert_grows; exact E.
  - destruct (w_remove u w h key ts) as [[w1 d]|c] eqn:E; [|discriminate]. intros [= <-]. eapply w_remove_grows; exact E.
  - destruct (w_exchange u w h key ts b) as [[w1 d]|c] eqn:E; [|discriminate]. intros [= <-]. eapply w_exchange_grows; exact E.
  - destruct (w_despawn w h) as [[w1 d]|c] eqn:E; [|discriminate]. intros [= <-]. eapply w_despawn_grows; exact E.
  - destruct (w_take_drop w h) as [[w1 d]|c] eqn:E; [|discriminate]. intros [= <-]. eapply w_take_drop_grows; exact E.
  - intros [= <-]. apply grows_eq. apply w_clear_same.
  - destruct (reserve_entity (w_ents w)) as [[e h]|c]; [|discriminate]. intros [= <-]. apply grows_eq. reflexivity.
  - intros E. apply grows_eq. eapply w_flush_same; exact E.
  - destruct (w_spawn_column_batch w types vals) as [[w1 d]|c] eqn:E; [|discriminate]. intros [= <-].
    eapply w_spawn_column_batch_grows; exact E.
Qed.

Theorem c17_grows_proof : c17_grows_stmt.
Proof. intros u w o w'. apply wstep_grows. Qed.

(* ------------------------------------------------------------------------------------------ *)
(* c17_generation                                                                              *)
(* ------------------------------------------------------------------------------------------ *)

Lemma wrun_grows u ops : forall w w', In w' (wrun u w ops) -> grows w w'.
Proof.
  induction ops as [|o ops IH]; intros w w'; cbn [wrun].
  - intros [<-|[]]. apply grows_refl.
  - destruct (wstep u w o) as [w1|c] eqn:E.
    + intros [<-|Hin]; [apply grows_refl|].
      eapply grows_trans; [eapply wstep_grows; exact E|apply IH; exact Hin].
    + intros [<-|[]]. apply grows_refl.
Qed.

Lemma lenN_arch_types w : lenN (arch_types w) = lenN (w_archs w).
Proof. apply lenN_map. Qed.

Lemma grows_same_len w w' : grows w w' -> lenN (w_archs w') = lenN (w_archs w) -> arch_types w' = arch_types w.
Proof.
  intros [extra H] Hlen. pose proof (f_equal lenN H) as HL.
  rewrite lenN_app, !lenN_arch_types in HL.
  assert (extra = []) by (apply lenN_nil_inv; lia). subst extra. rewrite H. apply app_nil_r.
Qed.

Theorem c17_generation_proof : c17_generation_stmt.
Proof. intros u w ops w' Hin. apply grows_same_len. eapply wrun_grows; exact Hin. Qed.

(* ------------------------------------------------------------------------------------------ *)
(* c17_fresh                                                                                   *)
(* ------------------------------------------------------------------------------------------ *)

(* the cached state depends on the archetype type lists only *)
Definition prep_types (q : query) :=
  fix go (i : N) (tys : list (list tid)) : list (N * qstate) :=
    match tys with
    | [] => []
    | ts :: r => match prepare ts q with
                 | Some s => (i, s) :: go (N.succ i) r
                 | None => go (N.succ i) r
                 end
    end.

Lemma prep_go_types q archs : forall i, prep_go q i archs = prep_types q i (map a_types archs).
Proof.
  induction archs as [|a r IH]; intros i; cbn [prep_go prep_types map]; [reflexivity|].
  rewrite IH. reflexivity.
Qed.

Lemma pq_prepare_types wid w q : pq_state (pq_prepare wid w q) = prep_types q 0 (arch_types w).
Proof. rewrite pq_prepare_state. apply prep_go_types. Qed.

(* if the memo names world number i, the cache was computed from a prefix of that world's
   current archetype list whose length is the memoised generation *)
Definition PInv (q : query) (ids : list N) (ws : list world) (p : prepared) : Prop :=
  forall i wid w, nthN ids i = Some wid -> nthN ws i = Some w -> fst (pq_memo p) = wid ->
    exists tys extra, pq_state p = prep_types q 0 tys /\ lenN tys = snd (pq_memo p) /\
                      arch_types w = tys ++ extra.

Lemma PInv_init q ids : ~ In 0 ids -> PInv q ids (map (fun _ => world_new) ids) prepared_new.
Proof.
  intros H0 i wid w Hid _ Hm. cbn [prepared_new pq_memo fst] in Hm. subst wid.
  exfalso. apply H0. eapply nthN_In. exact Hid.
Qed.

Lemma PInv_mut u q ids ws p i w o w' :
  PInv q ids ws p -> nthN ws i = Some w -> wstep u w o = Done w' -> PInv q ids (updN ws i w') p.
Proof.
  intros HP Hw Hs j wid w1 Hid Hw1 Hm. destruct (N.eq_dec i j) as [<-|Hne].
  - rewrite nthN_updN_eq in Hw1 by (eapply nthN_Some_lt; exact Hw). injection Hw1 as <-.
    destruct (HP i wid w Hid Hw Hm) as (tys & extra & Hst & Hlen & Hty).
    destruct (wstep_grows _ _ _ _ Hs) as [e2 H2].
    exists tys, (extra ++ e2). repeat split; try assumption. rewrite H2, Hty, app_assoc. reflexivity.
  - rewrite nthN_updN_ne in Hw1 by exact Hne. exact (HP j wid w1 Hid Hw1 Hm).
Qed.

Lemma refresh_state q ids ws p i wid w :
  PInv q ids ws p -> nthN ids i = Some wid -> nthN ws i = Some w ->
  pq_state (pq_refresh p wid w q) = pq_state (pq_prepare wid w q).
Proof.
  intros HP Hid Hw. unfold pq_refresh.
  destruct (N.eqb_spec (fst (pq_memo p)) wid) as [Hm|Hm]; cbn [andb]; [|reflexivity].
  destruct (N.eqb_spec (snd (pq_memo p)) (lenN (w_archs w))) as [Hg|Hg]; [|reflexivity].
  destruct (HP i wid w Hid Hw Hm) as (tys & extra & Hst & Hlen & Hty).
  pose proof (f_equal lenN Hty) as HL. rewrite lenN_app, lenN_arch_types in HL.
  assert (extra = []) by (apply lenN_nil_inv; lia). subst extra. rewrite app_nil_r in Hty.
  rewrite Hst, pq_prepare_types, Hty. reflexivity.
Qed.

Lemma PInv_refresh q ids ws p i wid w :
  NoDup ids -> PInv q ids ws p -> nthN ids i = Some wid -> nthN ws i = Some w ->
  PInv q ids ws (pq_refresh p wid w q).
Proof.
  intros Hnd HP Hid Hw. unfold pq_refresh. destruct (_ && _); [exact HP|].
  intros j wid' w' Hid' Hw' Hm. cbn [pq_prepare pq_memo world_memo fst] in Hm. subst wid'.
  assert (j = i) by (eapply NoDup_nthN_inj; eauto). subst j.
  rewrite Hw in Hw'. injection Hw' as <-.
  exists (arch_types w), []. rewrite pq_prepare_types. repeat split.
  - cbn [pq_prepare pq_memo world_memo snd]. apply lenN_arch_types.
  - symmetry. apply app_nil_r.
Qed.

Lemma prun_fresh u q ids : NoDup ids -> forall evs ws p,
  PInv q ids ws p -> Forall (fun x => fst x = snd x) (prun u q ids ws p evs).
Proof.
  intros Hnd. induction evs as [|ev evs IH]; intros ws p HP; cbn [prun]; [constructor|].
  destruct ev as [i o|i].
  - destruct (nthN ws i) as [w|] eqn:Hw; [|apply IH; exact HP].
    destruct (wstep u w o) as [w'|c] eqn:Hs; [|constructor].
    apply IH. eapply PInv_mut; eauto.
  - destruct (nthN ws i) as [w|] eqn:Hw; [|apply IH; exact HP].
    destruct (nthN ids i) as [wid|] eqn:Hid; [|apply IH; exact HP].
    cbv zeta. constructor.
    + cbn [fst snd].
      exact (proj1 (c17_valid_iter_proof _ wid w q (refresh_state q ids ws p i wid w HP Hid Hw))).
    + apply IH. eapply PInv_refresh; eauto.
Qed.

Theorem c17_fresh_proof : c17_fresh_stmt.
Proof.
  intros u q ids evs Hnd H0. apply prun_fresh; [exact Hnd|]. apply PInv_init. exact H0.
Qed.

(* c08_iter_stmt and c08_view_stmt are refuted in Proofs/QueryCounterexample.v
   (c08_iter_stmt_false, c08_view_stmt_false); their closest true versions are the
   [_weakened] theorems above (extra hypothesis [rows_below_sent w], implied by [fits w]). *)
Print Assumptions c08_triple_proof.
Print Assumptions c08_item_proof.
Print Assumptions c08_item_ok_proof.
Print Assumptions c08_static_proof.
Print Assumptions c08_batched_proof.
Print Assumptions c17_valid_iter_proof.
Print Assumptions c08_iter_weakened.
Print Assumptions c08_iter_fits.
Print Assumptions c08_view_weakened.
Print Assumptions c08_view_fits.
Print Assumptions c08_query_one_proof.
Print Assumptions c17_grows_proof.
Print Assumptions c17_generation_proof.
Print Assumptions c17_fresh_proof.
