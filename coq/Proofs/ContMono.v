(* The id-space measure behind [fits] never shrinks under spawn / insert / remove / despawn, so a
   final world that fits implies that every earlier world of a history fits (used by C11). *)
From Coq Require Import List NArith ZArith Bool Lia ZifyBool ZifyNat ZifyN Permutation.
From HecsV Require Import Base.ListN Base.ListNFacts Model.EntityBits Model.Types Model.Entities Model.World
  Proofs.WorldSpec Proofs.ListNMore Proofs.WorldLemmas Proofs.WorldProofs1 Proofs.WorldProofs2 Proofs.WorldProofs4.
Import ListNotations.
Open Scope N_scope.

Definition idm (e : entities) : N := lenN (meta e) + Z.to_N (Z.max 0 (- cursor e)).

Lemma fits_idm w : fits w <-> idm (w_ents w) < SENT.
Proof. reflexivity. Qed.

Lemma idm_set_loc e id l : idm (set_loc e id l) = idm e.
Proof. unfold idm. rewrite set_loc_lenN_meta, set_loc_cursor. reflexivity. Qed.

Lemma idm_set_idx e id i : idm (set_idx e id i) = idm e.
Proof. unfold idm. rewrite set_idx_lenN_meta, set_idx_cursor. reflexivity. Qed.

Lemma idm_flush e e1 ids : flush e = Done (e1, ids) -> idm e1 = idm e.
Proof.
  intros H. apply flush_spec in H as (Hle & -> & _). unfold idm. cbn [meta cursor].
  rewrite lenN_app, lenN_repeatN. lia.
Qed.

Lemma idm_flush_ids : forall ids e a e' a', flush_ids e a ids = (e', a') -> idm e' = idm e.
Proof.
  induction ids as [|id r IH]; intros e a e' a' H; cbn [flush_ids] in H.
  - injection H as <- _. reflexivity.
  - unfold arch_push in H. apply IH in H. rewrite H. apply idm_set_idx.
Qed.

Lemma idm_w_flush w w' : w_flush w = Done w' -> idm (w_ents w') = idm (w_ents w).
Proof.
  intros H. apply w_flush_unfold in H as (e & ids & a0 & e' & a0' & Hf & _ & Hi & ->).
  cbn [with_ents w_ents]. rewrite (idm_flush_ids _ _ _ _ _ Hi). eapply idm_flush. exact Hf.
Qed.

Lemma idm_alloc e e' h : alloc e = Done (e', h) -> idm e <= idm e'.
Proof.
  unfold alloc. destruct (needs_flush e) eqn:Hn; [discriminate|].
  unfold needs_flush in Hn. apply negb_false_iff in Hn. apply Z.eqb_eq in Hn.
  destruct (lastN (pending e)) as [id|].
  - intros [= <- _]. unfold idm. cbn [meta cursor]. lia.
  - destruct (N.leb W32 (lenN (meta e))); [discriminate|]. intros [= <- _]. unfold idm. cbn [meta cursor].
    rewrite lenN_app. cbn [lenN]. lia.
Qed.

Lemma idm_free e h e' l : free e h = Done (Some (e', l)) -> idm e <= idm e'.
Proof.
  intros H. apply free_spec in H as (m & Hn & _ & _ & _ & _ & _ & ->).
  unfold needs_flush in Hn. apply negb_false_iff in Hn. apply Z.eqb_eq in Hn.
  unfold idm. cbn [meta cursor]. rewrite lenN_updN. lia.
Qed.

Lemma ents_archs_get u w ids info w' i : archs_get u w ids info = Done (w', i) -> w_ents w' = w_ents w.
Proof.
  unfold archs_get. destruct (assoc_list ids (w_index w)); [intros [= <- _]; reflexivity|].
  destruct (assert_type_info u info) as [|[p|p|]]; try discriminate. intros [= <- _]. reflexivity.
Qed.

Lemma ents_bundle_archetype u w b w' i : bundle_archetype u w b = Done (w', i) -> w_ents w' = w_ents w.
Proof.
  unfold bundle_archetype. destruct (b_key b) as [k|]; [|apply ents_archs_get].
  destruct (assoc_list k (w_b2a w)); [intros [= <- _]; reflexivity|].
  destruct (archs_get u w _ _) as [[w1 a]|c] eqn:E; [|discriminate]. cbn [bind].
  intros [= <- _]. cbn [w_ents]. eapply ents_archs_get. exact E.
Qed.

Lemma ents_put_row w aid id items w' i : put_row w aid id items = Done (w', i) -> w_ents w' = w_ents w.
Proof. intros H. apply put_row_spec in H as (a & vals & _ & _ & _ & _ & _ & -> & _). reflexivity. Qed.

Lemma idm_detach_row w l w' r : detach_row w l = Done (w', r) -> idm (w_ents w') = idm (w_ents w).
Proof.
  intros H. apply detach_row_unfold in H as (a & a' & moved & _ & _ & ->). cbn [with_ents w_ents].
  destruct moved as [id|]; cbn [fix_moved]; [apply idm_set_idx|reflexivity].
Qed.

Lemma ents_get_insert_target u w src b w' t : get_insert_target u w src b = Done (w', t) -> w_ents w' = w_ents w.
Proof.
  unfold get_insert_target. destruct (get_arch w src) as [a|]; [|discriminate]. cbn [bind].
  destruct (assert_type_info u _) as [|[p|p|]]; try discriminate.
  destruct (merge_loop _ _ _ _ _ _ _) as [[[rest added] replaced] retained].
  destruct (archs_get u w _ _) as [[w1 i]|c] eqn:E; [|discriminate]. cbn [bind].
  intros [= <- _]. eapply ents_archs_get. exact E.
Qed.

Lemma ents_insert_target u w src b w' t : insert_target u w src b = Done (w', t) -> w_ents w' = w_ents w.
Proof.
  unfold insert_target. destruct (b_key b) as [k|]; [|apply ents_get_insert_target].
  destruct (assoc_pair src k (w_ins w)); [intros [= <- _]; reflexivity|].
  destruct (get_insert_target u w src b) as [[w1 t1]|c] eqn:E; [|discriminate]. cbn [bind].
  intros [= <- _]. cbn [w_ents]. eapply ents_get_insert_target. exact E.
Qed.

Lemma ents_remove_target u w old key removed w' i :
  remove_target u w old key removed = Done (w', i) -> w_ents w' = w_ents w.
Proof.
  unfold remove_target. destruct (assoc_pair old key (w_rem w)); [intros [= <- _]; reflexivity|].
  destruct (get_arch w old) as [a|]; [|discriminate]. cbn [bind].
  destruct (archs_get u w _ _) as [[w1 i1]|c] eqn:E; [|discriminate]. cbn [bind].
  intros [= <- _]. cbn [w_ents]. eapply ents_archs_get. exact E.
Qed.

Lemma idm_insert_inner u w h b origin l w' d :
  insert_inner u w h b origin l = Done (w', d) -> idm (w_ents w') = idm (w_ents w).
Proof.
  unfold insert_inner. destruct (insert_target u w origin b) as [[w1 t]|c] eqn:Et; [|discriminate]. cbn [bind].
  apply ents_insert_target in Et.
  destruct (get_row w1 l) as [[sa sr]|c]; [|discriminate]. cbn [bind].
  destruct (lookup_all (it_replaced t) (r_vals sr)) as [dropped|]; [|discriminate].
  destruct (N.eqb (it_index t) (l_arch l)).
  - destruct (negb (all_in (b_types b) (a_types sa))); [discriminate|]. intros [= <- _].
    cbn [upd_arch with_archs w_ents]. rewrite Et. reflexivity.
  - destruct (lookup_all (it_retained t) (r_vals sr)) as [kept|]; [|discriminate].
    destruct (put_row w1 _ _ _) as [[w2 ti]|c] eqn:Ep; [|discriminate]. cbn [bind].
    apply ents_put_row in Ep.
    destruct (detach_row _ l) as [[w4 r4]|c] eqn:Ed; [|discriminate]. cbn [bind].
    intros [= <- _]. apply idm_detach_row in Ed. rewrite Ed. cbn [with_ents w_ents].
    rewrite idm_set_loc, Ep, Et. reflexivity.
Qed.

Lemma idm_w_spawn u w b w' h : w_spawn u w b = Done (w', h) -> idm (w_ents w) <= idm (w_ents w').
Proof.
  intros H. apply w_spawn_unfold in H as (w0 & e & Hf & Ha & Hs).
  apply idm_w_flush in Hf. apply idm_alloc in Ha.
  apply spawn_inner_unfold in Hs as (w1 & aid & w2 & i & Hb & Hp & ->).
  apply ents_bundle_archetype in Hb. apply ents_put_row in Hp. cbn [with_ents w_ents] in *.
  rewrite idm_set_loc, Hp, Hb. lia.
Qed.

Lemma idm_w_insert u w h b w' r : w_insert u w h b = Done (w', r) -> idm (w_ents w) <= idm (w_ents w').
Proof.
  unfold w_insert. destruct (w_flush w) as [w0|c] eqn:Hf; [|discriminate]. cbn [bind].
  apply idm_w_flush in Hf. destruct (get (w_ents w0) h) as [l|].
  - destruct (insert_inner u w0 h b (l_arch l) l) as [[w1 d]|c] eqn:Ei; [|discriminate]. cbn [bind].
    intros [= <- _]. apply idm_insert_inner in Ei. lia.
  - intros [= <- _]. lia.
Qed.

Lemma idm_w_remove u w h key ts w' r : w_remove u w h key ts = Done (w', r) -> idm (w_ents w) <= idm (w_ents w').
Proof.
  intros H. apply w_remove_unfold in H as (w0 & Hf & H). apply idm_w_flush in Hf.
  destruct H as [(_ & -> & _)|(l & sa & sr & _ & _ & _ & H)]; [lia|].
  destruct H as [(_ & -> & _)|(taken & w1 & target & _ & Hr & _ & H)]; [lia|].
  apply ents_remove_target in Hr.
  destruct H as [(_ & ->)|(ta & w2 & ti & r4 & _ & _ & Hp & Hd)]; [rewrite Hr; lia|].
  apply ents_put_row in Hp. apply idm_detach_row in Hd. cbn [with_ents w_ents] in Hd.
  rewrite idm_set_loc, Hp, Hr in Hd. lia.
Qed.

Lemma idm_w_despawn w h w' r : w_despawn w h = Done (w', r) -> idm (w_ents w) <= idm (w_ents w').
Proof.
  intros H. apply w_despawn_unfold in H as (w0 & Hf & H). apply idm_w_flush in Hf.
  destruct H as [(_ & -> & _)|(e & l & r1 & Hfr & Hd & _)]; [lia|].
  apply idm_free in Hfr. apply idm_detach_row in Hd. cbn [with_ents w_ents] in Hd. lia.
Qed.

(* ---- upper bounds: only spawn consumes id space, one id per call ---- *)
Lemma idm_alloc_ub e e' h : alloc e = Done (e', h) -> idm e' <= idm e + 1.
Proof.
  unfold alloc. destruct (needs_flush e) eqn:Hn; [discriminate|].
  unfold needs_flush in Hn. apply negb_false_iff in Hn. apply Z.eqb_eq in Hn.
  destruct (lastN (pending e)) as [id|].
  - intros [= <- _]. unfold idm. cbn [meta cursor]. lia.
  - destruct (N.leb W32 (lenN (meta e))); [discriminate|]. intros [= <- _]. unfold idm. cbn [meta cursor].
    rewrite lenN_app. cbn [lenN]. lia.
Qed.

Lemma idm_free_ub e h e' l : free e h = Done (Some (e', l)) -> idm e' <= idm e.
Proof.
  intros H. apply free_spec in H as (m & Hn & _ & _ & _ & _ & _ & ->).
  unfold needs_flush in Hn. apply negb_false_iff in Hn. apply Z.eqb_eq in Hn.
  unfold idm. cbn [meta cursor]. rewrite lenN_updN. lia.
Qed.

Lemma idm_w_spawn_ub u w b w' h : w_spawn u w b = Done (w', h) -> idm (w_ents w') <= idm (w_ents w) + 1.
Proof.
  intros H. apply w_spawn_unfold in H as (w0 & e & Hf & Ha & Hs).
  apply idm_w_flush in Hf. apply idm_alloc_ub in Ha.
  apply spawn_inner_unfold in Hs as (w1 & aid & w2 & i & Hb & Hp & ->).
  apply ents_bundle_archetype in Hb. apply ents_put_row in Hp. cbn [with_ents w_ents] in *.
  rewrite idm_set_loc, Hp, Hb. lia.
Qed.

Lemma idm_w_insert_ub u w h b w' r : w_insert u w h b = Done (w', r) -> idm (w_ents w') <= idm (w_ents w).
Proof.
  unfold w_insert. destruct (w_flush w) as [w0|c] eqn:Hf; [|discriminate]. cbn [bind].
  apply idm_w_flush in Hf. destruct (get (w_ents w0) h) as [l|].
  - destruct (insert_inner u w0 h b (l_arch l) l) as [[w1 d]|c] eqn:Ei; [|discriminate]. cbn [bind].
    intros [= <- _]. apply idm_insert_inner in Ei. lia.
  - intros [= <- _]. lia.
Qed.

Lemma idm_w_remove_ub u w h key ts w' r : w_remove u w h key ts = Done (w', r) -> idm (w_ents w') <= idm (w_ents w).
Proof.
  intros H. apply w_remove_unfold in H as (w0 & Hf & H). apply idm_w_flush in Hf.
  destruct H as [(_ & -> & _)|(l & sa & sr & _ & _ & _ & H)]; [lia|].
  destruct H as [(_ & -> & _)|(taken & w1 & target & _ & Hr & _ & H)]; [lia|].
  apply ents_remove_target in Hr.
  destruct H as [(_ & ->)|(ta & w2 & ti & r4 & _ & _ & Hp & Hd)]; [rewrite Hr; lia|].
  apply ents_put_row in Hp. apply idm_detach_row in Hd. cbn [with_ents w_ents] in Hd.
  rewrite idm_set_loc, Hp, Hr in Hd. lia.
Qed.

Lemma idm_w_despawn_ub w h w' r : w_despawn w h = Done (w', r) -> idm (w_ents w') <= idm (w_ents w).
Proof.
  intros H. apply w_despawn_unfold in H as (w0 & Hf & H). apply idm_w_flush in Hf.
  destruct H as [(_ & -> & _)|(e & l & r1 & Hfr & Hd & _)]; [lia|].
  apply idm_free_ub in Hfr. apply idm_detach_row in Hd. cbn [with_ents w_ents] in Hd. lia.
Qed.
