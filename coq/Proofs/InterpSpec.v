(* Statements about the script interpreter itself (Model/WorldRun.v): the object that is compared with
   the real code on every run.  For EVERY script (any list of numbers), as long as the id space is not
   exhausted, every live world the interpreter holds satisfies the world invariant after every
   operation - so every theorem stated under WInv applies to every state the correspondence check
   ever compares.  Statements only. *)
From Coq Require Import List NArith ZArith Bool Lia.
From HecsV Require Import Base.ListN Model.EntityBits Model.Types Model.Entities Model.World Model.Query
  Model.Containers Model.Guards Model.WorldRun.
From HecsV Require Import Proofs.WorldSpec Proofs.MergeSpec.
Import ListNotations.
Open Scope N_scope.

(* a world slot is live when its state is 0 (1 = poisoned by a caught hecs panic, 2 = dropped) *)
Definition est_inv (st : est) : Prop :=
  forall i s, nthN (e_ws st) i = Some s -> ws_state s = 0 -> WInv (e_u st) (ws_world s).

Definition est_fits (st : est) : Prop :=
  forall i s, nthN (e_ws st) i = Some s -> ws_state s = 0 -> fits (ws_world s).

(* the interpreter states a script goes through (mirror of exec_script, which only keeps the output) *)
Fixpoint script_states (fuel : nat) (st : est) (l : list N) : list est :=
  match fuel with
  | O => [st]
  | S f =>
      match l with
      | [] => [st]
      | opc :: r =>
          let '(st', rest, _) := exec_op st opc r in
          st :: script_states f (caps_post st st' opc r) rest
      end
  end.

(* one step *)
Definition interp_step_inv_stmt : Prop :=
  forall st opc l st' rest obs,
    total_inj (e_u st) -> est_inv st -> est_fits st ->
    exec_op st opc l = (st', rest, obs) -> est_fits st' ->
    est_inv st' /\ e_u st' = e_u st.

(* the capacity bookkeeping does not touch the worlds *)
Definition caps_post_worlds_stmt : Prop :=
  forall st st' opc l, e_ws (caps_post st st' opc l) = e_ws st' /\ e_u (caps_post st st' opc l) = e_u st'.

(* every script, every fuel: all states reached satisfy the invariant while the id space lasts *)
Definition interp_inv_stmt : Prop :=
  forall fuel st script,
    total_inj (e_u st) -> est_inv st ->
    Forall est_fits (script_states fuel st script) ->
    Forall est_inv (script_states fuel st script).

(* in particular from the initial state of run_world *)
Definition interp_initial_stmt : Prop :=
  forall u, est_inv {| e_u := u; e_ws := [{| ws_world := world_new; ws_state := 0 |}; {| ws_world := world_new; ws_state := 0 |}];
                       e_handles := []; e_prep := []; e_k := conts_new; e_guards := []; e_cells := [[]; []]; e_caps := [[0]; [0]] |}.
