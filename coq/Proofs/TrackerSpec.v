(* Statements for C18 (ChangeTracker reports exactly the difference between consecutive snapshots)
   over Model/Tracker.v.  Statements only. *)
From Coq Require Import List NArith ZArith Bool Lia.
From HecsV Require Import Base.ListN Base.ListNFacts Model.EntityBits Model.Types Model.Entities Model.World Model.Tracker.
From HecsV Require Import Proofs.WorldSpec.
Import ListNotations.
Open Scope N_scope.

(* the T of a live entity, by handle bits *)
Fixpoint ent_get (b : N) (l : list (N * option val)) : option (option val) :=
  match l with [] => None | (b', x) :: r => if N.eqb b b' then Some x else ent_get b r end.

(* the hidden Previous<T> equals T on exactly the live entities that have a T: the snapshot the next
   track call will be compared against *)
Definition snapshot_ok (s : tstate) : Prop :=
  forall b, prev_get b (t_prev s) = match ent_get b (t_entities s) with Some (Some v) => Some v | _ => None end.
(* hidden components exist only on live entities (despawn takes them along) *)
Definition prev_live (s : tstate) : Prop :=
  forall b, prev_get b (t_prev s) <> None -> ent_get b (t_entities s) <> None.
Definition nodup_live (s : tstate) : Prop := NoDup (map fst (t_entities s)).

(* the three differences, declaratively *)
Definition c18_sets_stmt : Prop :=
  forall s, nodup_live s ->
    (forall b v, In (b, v) (added_set s) <->
       ent_get b (t_entities s) = Some (Some v) /\ prev_get b (t_prev s) = None) /\
    (forall b o v, In (b, o, v) (changed_set s) <->
       ent_get b (t_entities s) = Some (Some v) /\ prev_get b (t_prev s) = Some o /\ o <> v) /\
    (forall b o, In (b, o) (removed_set s) <->
       ent_get b (t_entities s) = Some None /\ prev_get b (t_prev s) = Some o) /\
    NoDup (map fst (added_set s)) /\ NoDup (map (fun c => fst (fst c)) (changed_set s)) /\ NoDup (map fst (removed_set s)).

Definition report_of (k : N) (s : tstate) : report :=
  match k with 0 => RAdded (added_set s) | 1 => RChanged (changed_set s) | _ => RRemoved (removed_set s) end.
Definition same_kind (a b : N) : bool :=
  match a, b with 0, 0 => true | 1, 1 => true | 0, _ | 1, _ | _, 0 | _, 1 => false | _, _ => true end.

(* one track call with ANY consumption script (any subset, order and repetition of added / changed /
   removed; partial iteration is completed by DrainOnDrop):
   - the first report of each kind is exactly the difference between the snapshot and the state at
     the call, whatever was read before it;
   - every added() report is that difference (added may be re-read);
   - the world itself is untouched, and afterwards Previous = T on exactly the live entities with a T,
     whatever was read or not read *)
Definition c18_track_stmt : Prop :=
  forall s reads s' reps, nodup_live s -> prev_live s -> track s reads = (s', reps) ->
    t_w s' = t_w s /\ snapshot_ok s' /\ prev_live s' /\ length reps = length reads /\
    (forall i k, nthN reads i = Some k ->
       (k = 0 \/ forall j k', j < i -> nthN reads j = Some k' -> same_kind k k' = false) ->
       nthN reps i = Some (report_of k s)).

(* the final hidden state does not depend on the consumption script at all *)
Definition c18_script_irrelevant_stmt : Prop :=
  forall s reads1 reads2, nodup_live s -> prev_live s ->
    forall b, prev_get b (t_prev (fst (track s reads1))) = prev_get b (t_prev (fst (track s reads2))).

(* consequently: from a snapshot, through any mutation of T values that leaves the hidden components
   alone, the next call reports added = has T now and had none then; changed = had one then, has an
   unequal one now; removed = still live, had one then, has none now *)
Definition c18_diff_stmt : Prop :=
  forall s0 s1, snapshot_ok s0 -> nodup_live s0 -> nodup_live s1 ->
    (* between the calls: hidden components are only lost through despawn *)
    (forall b, prev_get b (t_prev s1) = match ent_get b (t_entities s1) with
                                        | Some _ => prev_get b (t_prev s0)
                                        | None => None end) ->
    let then_ b := match ent_get b (t_entities s0) with Some (Some v) => Some v | _ => None end in
    (forall b v, In (b, v) (added_set s1) <-> ent_get b (t_entities s1) = Some (Some v) /\ then_ b = None) /\
    (forall b o v, In (b, o, v) (changed_set s1) <-> ent_get b (t_entities s1) = Some (Some v) /\ then_ b = Some o /\ o <> v) /\
    (forall b o, In (b, o) (removed_set s1) <-> ent_get b (t_entities s1) = Some None /\ then_ b = Some o).

(* despawn takes the hidden component along; live entities have distinct handles under the world invariant *)
Definition c18_despawn_stmt : Prop :=
  forall u s h, WInv u (t_w s) -> fits (t_w s) -> prev_live s -> prev_live (t_despawn s h).
Definition c18_nodup_stmt : Prop :=
  forall u s, WInv u (t_w s) -> fits (t_w s) -> flushed (t_w s) -> nodup_live s.

(* spawn_at (on any handle: a dead one revives its id or evicts the current holder, a live one replaces the entity's
   components): hidden components still exist only on live entities, and the entity that now answers to [h] has
   none, so the next track call reports it as added *)
Definition c18_spawn_at_stmt : Prop :=
  forall u s h b s', total_inj u -> WInv u (t_w s) -> fits (t_w s) -> bundle_ok b -> valid_entity h ->
    t_spawn_at u s h b = Some s' -> fits (t_w s') -> prev_live s ->
    prev_live s' /\ prev_get (to_bits h) (t_prev s') = None /\
    (forall k, k mod W32 <> e_id h -> prev_get k (t_prev s') = prev_get k (t_prev s)).

(* every other mutation (spawn, insert, remove, exchange, batches: whatever keeps live entities live, with any
   components) leaves the hidden map alone and keeps it on live entities *)
Definition c18_frame_stmt : Prop :=
  forall u s w', WInv u (t_w s) -> fits (t_w s) -> WInv u w' -> fits w' -> flushed w' ->
    (forall h l, abs (t_w s) h = Some l -> abs w' h <> None) ->
    prev_live s -> prev_live {| t_w := w'; t_prev := t_prev s |}.

(* a quiet interval: a second track call with nothing done in between reports nothing at all, whatever the first
   call's consumption script was *)
Definition c18_quiet_stmt : Prop :=
  forall s reads s' reps, nodup_live s -> prev_live s -> track s reads = (s', reps) ->
    added_set s' = [] /\ changed_set s' = [] /\ removed_set s' = [].
