(* Statements for C05 (dynamic borrow checking enforces aliasing-xor-mutation, exactly) over
   Model/Guards.v.  Statements only. *)
From Coq Require Import List NArith ZArith Bool Lia.
From HecsV Require Import Base.ListN Base.ListNFacts Model.Types Model.World Model.Query Model.Guards.
Import ListNotations.
Open Scope N_scope.

(* cells are compared through what they denote *)
Definition cells_eq (c1 c2 : cells) : Prop := forall a t, cell_get c1 a t = cell_get c2 a t.

(* aliasing-xor-mutation for one cell *)
Definition cell_ok (c : cell) : Prop := cl_w c = true -> cl_r c = 0.
Definition cells_ok (cs : cells) : Prop := forall a t, cell_ok (cell_get cs a t).

(* the columns a query touches in a world: for every non-empty archetype that satisfies it, the
   columns of its &T / &mut T leaves that are active there *)
Fixpoint touched (i : N) (archs : list arch) (q : query) : list (N * tid * bool) :=
  match archs with
  | [] => []
  | a :: r =>
      (match a_rows a with
       | [] => []
       | _ => match prepare (a_types a) q with
              | Some s => map (fun c => (i, fst c, snd c)) (borrow_cols q s)
              | None => []
              end
       end) ++ touched (N.succ i) r q
  end.

(* a request is compatible with the current cells when every touched column is free (for a unique
   access) or has no writer (for a shared access) *)
Definition compatible (cs : cells) (cols : list (N * tid * bool)) : Prop :=
  forall a t u, In (a, t, u) cols ->
    if u then cell_get cs a t = cell_free else cl_w (cell_get cs a t) = false.

(* a query does not alias itself in any archetype: a uniquely accessed type is touched once *)
Definition no_self_alias (cols : list (N * tid * bool)) : Prop :=
  forall i j a t u1 u2, i <> j -> nthN cols i = Some (a, t, u1) -> nthN cols j = Some (a, t, u2) ->
    u1 = false /\ u2 = false.

(* ---- soundness: every primitive keeps aliasing-xor-mutation ---- *)
Definition c05_borrow_sound_stmt : Prop :=
  forall cs a t u cs', cells_ok cs -> borrow1 cs a t u = Some cs' ->
    cells_ok cs' /\
    (* a unique grant only from a free cell; a shared grant never while a writer exists *)
    (if u then cell_get cs a t = cell_free /\ cell_get cs' a t = {| cl_r := 0; cl_w := true |}
     else cl_w (cell_get cs a t) = false /\ cell_get cs' a t = {| cl_r := cl_r (cell_get cs a t) + 1; cl_w := false |}) /\
    (forall a' t', (a', t') <> (a, t) -> cell_get cs' a' t' = cell_get cs a' t').

Definition c05_borrow_refuses_stmt : Prop :=
  forall cs a t u, borrow1 cs a t u = None <->
    (if u then cell_get cs a t <> cell_free else cl_w (cell_get cs a t) = true).

(* ---- exactness: a whole query is granted iff it is compatible with what is held ---- *)
Definition c05_exact_stmt : Prop :=
  forall cs archs q, no_self_alias (touched 0 archs q) ->
    (snd (start_borrow cs 0 archs q) = true <-> compatible cs (touched 0 archs q)).

(* consequently two queries conflict only through a common column of a non-empty archetype that
   satisfies both, with at least one unique access *)
Definition c05_conflict_iff_stmt : Prop :=
  forall archs q1 q2 cs1,
    no_self_alias (touched 0 archs q1) -> no_self_alias (touched 0 archs q2) ->
    start_borrow [] 0 archs q1 = (cs1, true) ->
    (snd (start_borrow cs1 0 archs q2) = false <->
     exists a t u1 u2, In (a, t, u1) (touched 0 archs q1) /\ In (a, t, u2) (touched 0 archs q2) /\ (u1 || u2 = true)).

(* the columns touched are exactly those of the archetypes that satisfy the query, non-empty *)
Definition c05_touched_spec_stmt : Prop :=
  forall archs q a t u, In (a, t, u) (touched 0 archs q) ->
    exists ar s, nthN archs a = Some ar /\ a_rows ar <> [] /\ sat (a_types ar) q = true /\
                 prepare (a_types ar) q = Some s /\ In (t, u) (borrow_cols q s) /\ In t (a_types ar).

(* ---- release: a granted acquisition followed by the guard's drop restores every cell ---- *)
Definition c05_release_query_stmt : Prop :=
  forall cs archs q cs', start_borrow cs 0 archs q = (cs', true) ->
    cells_eq (release_borrow cs' 0 archs q) cs /\ (cells_ok cs -> cells_ok cs').

Definition c05_release_prepared_stmt : Prop :=
  forall cs archs q st cs', prepared_borrow cs archs q st = (cs', true) ->
    cells_eq (prepared_release cs' archs q st) cs.

Definition c05_release_one_stmt : Prop :=
  forall cs a cols cs', borrow_list cs a cols = (cs', true) -> cells_eq (release_list cs' a cols) cs.

(* ---- the known finding (F9): a FAILED acquisition keeps the borrows it took before the conflict.
   The full "release" statement - after every guard is dropped all cells are free - is therefore
   false for histories with a failed acquisition; witness: *)
Definition c05_failed_acquisition_leaks_stmt : Prop :=
  exists archs q cs cs',
    start_borrow cs 0 archs q = (cs', false) /\ ~ cells_eq cs' cs.
