(* Statements about TypeInfo ordering, sorting and the two-pointer merge in
   ArchetypeSet::get_insert_target (C10 core).  Definitions and statements only. *)
From Coq Require Import List NArith ZArith Bool Lia Permutation.
From HecsV Require Import Base.ListN Model.Types Model.Entities Model.World.
Import ListNotations.
Open Scope N_scope.

(* distinct types have distinct TypeIds: on the types in play, comparing Equal means being equal *)
Definition rank_inj (u : universe) (ts : list tid) : Prop :=
  forall a b, In a ts -> In b ts -> tcmp u a b = Eq -> a = b.

Definition strictly_sorted (u : universe) (l : list tid) : Prop := assert_type_info u l = 0.

(* tsort sorts, keeps the elements, and its result depends only on the set of types - not on the
   order in which a bundle lists its fields *)
Definition tsort_sorted_stmt : Prop :=
  forall u l, rank_inj u l -> NoDup l -> strictly_sorted u (tsort u l).
Definition tsort_perm_stmt : Prop :=
  forall u l, Permutation (tsort u l) l.
Definition tsort_order_independent_stmt : Prop :=
  forall u l1 l2, rank_inj u l1 -> NoDup l1 -> Permutation l1 l2 -> tsort u l1 = tsort u l2.
Definition tsort_fixpoint_stmt : Prop :=
  forall u l, strictly_sorted u l -> tsort u l = l.
(* a repeated type is always detected after sorting (this is what makes spawn/insert/remove reject
   bundles that name a type twice) *)
Definition dup_detected_stmt : Prop :=
  forall u l, rank_inj u l -> ~ NoDup l -> assert_type_info u (tsort u l) = 1.
Definition sorted_nodup_stmt : Prop :=
  forall u l, strictly_sorted u l -> NoDup l.

(* the merge loop computes intersection and differences of the two sorted type lists *)
Definition merge_spec_stmt : Prop :=
  forall u types new_types,
    rank_inj u (types ++ new_types) -> strictly_sorted u types -> strictly_sorted u new_types ->
    let '(rest, added, replaced, retained) := merge_loop u types new_types types [] [] [] in
    replaced = filter (fun t => mem_tid t types) new_types /\
    added = filter (fun t => negb (mem_tid t types)) new_types /\
    retained ++ rest = filter (fun t => negb (mem_tid t new_types)) types.

(* hence the target archetype's type list is the sorted union, whatever the field order *)
Definition insert_target_types_stmt : Prop :=
  forall u types new_types,
    rank_inj u (types ++ new_types) -> strictly_sorted u types -> strictly_sorted u new_types ->
    let '(rest, added, replaced, retained) := merge_loop u types new_types types [] [] [] in
    let info := tsort u (types ++ added) in
    strictly_sorted u info /\
    (forall t, In t info <-> In t types \/ In t new_types) /\
    (forall t, In t replaced <-> In t types /\ In t new_types) /\
    (forall t, In t (retained ++ rest) <-> In t types /\ ~ In t new_types).
