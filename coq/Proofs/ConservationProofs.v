(* C03 (world part): every component value is dropped or handed back exactly once.
   Structure:
     1. list facts (swap-remove, concat, partition)
     2. [stored] against the building blocks (upd_arch, arch_push, arch_remove, detach_row, flush,
        archs_get, bundle_archetype, put_row, insert_batch, patch_ids): no invariant needed
     3. clear, flush, despawn, take_drop, column_batch (purely structural)
     4. association lists with duplicate-free keys: counting occurrences through lookups
     5. spawn_inner, spawn, spawn_at
     6. the frame lemma: two flushed worlds that agree on every handle but one store the same values
        up to that handle's row; remove, insert, exchange from the refinement specifications *)
From Coq Require Import List NArith ZArith Bool Lia ZifyBool ZifyNat ZifyN Permutation.
From HecsV Require Import Base.ListN Base.ListNFacts Model.EntityBits Model.Types Model.Entities Model.World
  Proofs.MergeSpec Proofs.WorldSpec Proofs.MergeProofs Base.ListNMore Proofs.ListNMore Proofs.WorldLemmas
  Proofs.EntityBitsProofs Proofs.WorldProofs1 Proofs.WorldProofs2 Proofs.WorldProofs3 Proofs.WorldSpec2.
From HecsV Require Proofs.WorldProofs4.
Import ListNotations.
Open Scope N_scope.

(* ------------------------------------------------------------------------------------------ *)
(** * 1. list facts *)

Lemma swap_remove_perm_gen {A} (l : list A) i x z :
  nthN l i = Some x -> lastN l = Some z ->
  Permutation l (x :: removelastN (updN l i z)).
Proof.
  intros Hi Hz. pose proof (lastN_removelastN l z Hz) as El.
  remember (removelastN l) as l' eqn:El'. clear El' Hz. subst l.
  pose proof (nthN_Some_lt _ _ _ Hi) as Hlt. rewrite lenN_app in Hlt. cbn [lenN] in Hlt.
  destruct (N.eq_dec i (lenN l')) as [->|Hne].
  - rewrite nthN_snoc_last in Hi. injection Hi as <-.
    rewrite (updN_same (l' ++ [z]) (lenN l') z) by apply nthN_snoc_last.
    rewrite removelastN_snoc. symmetry. apply Permutation_cons_append.
  - rewrite nthN_app1 in Hi by lia.
    destruct (nthN_split l' i x Hi) as (a & b & Eab & Ha).
    rewrite updN_app1 by lia. rewrite removelastN_snoc.
    subst l' i. rewrite updN_middle. rewrite <- app_assoc. cbn [app].
    symmetry. etransitivity; [|apply Permutation_middle].
    constructor. apply Permutation_app_head. apply Permutation_cons_append.
Qed.

Lemma Permutation_concat_map {A B} (f : A -> list B) l l' :
  Permutation l l' -> Permutation (concat (map f l)) (concat (map f l')).
Proof. intros H. rewrite <- !flat_map_concat_map. apply Permutation_flat_map. exact H. Qed.

Lemma filter_partition_perm {A} (p : A -> bool) l :
  Permutation l (filter p l ++ filter (fun x => negb (p x)) l).
Proof.
  induction l as [|x l IH]; cbn [filter]; [constructor|].
  destruct (p x); cbn [negb app].
  - constructor. exact IH.
  - etransitivity; [|apply Permutation_middle]. constructor. exact IH.
Qed.

(* ------------------------------------------------------------------------------------------ *)
(** * 2. [stored] against the building blocks *)

Definition astored (a : arch) : comps := concat (map r_vals (a_rows a)).

Lemma stored_eq w : stored w = concat (map astored (w_archs w)).
Proof. reflexivity. Qed.

Lemma stored_with_ents w e : stored (with_ents w e) = stored w.
Proof. reflexivity. Qed.

(* replacing one archetype: everything else is a common remainder *)
Lemma stored_upd w i a a' X Y :
  nthN (w_archs w) i = Some a -> Permutation (astored a' ++ Y) (astored a ++ X) ->
  Permutation (stored (upd_arch w i a') ++ Y) (stored w ++ X).
Proof.
  intros Ha HP. destruct (nthN_split _ _ _ Ha) as (pre & post & E & Hi).
  rewrite !stored_eq. unfold upd_arch, with_archs. cbn [w_archs]. rewrite E. subst i. rewrite updN_middle.
  rewrite !map_app, !concat_app. cbn [map concat].
  set (p := concat (map astored pre)). set (q := concat (map astored post)).
  transitivity ((astored a' ++ Y) ++ p ++ q).
  - rewrite <- !app_assoc. etransitivity; [apply Permutation_app_swap_app|]. apply Permutation_app_head.
    etransitivity; [apply Permutation_app_head, Permutation_app_comm|].
    rewrite !app_assoc. apply Permutation_app_tail. apply Permutation_app_comm.
  - etransitivity; [apply Permutation_app_tail; exact HP|].
    rewrite <- !app_assoc. etransitivity; [|apply Permutation_app_swap_app]. apply Permutation_app_head.
    etransitivity; [|apply Permutation_app_head, Permutation_app_comm].
    rewrite !app_assoc. apply Permutation_app_tail. apply Permutation_app_comm.
Qed.

Lemma stored_upd_add w i a a' X :
  nthN (w_archs w) i = Some a -> Permutation (astored a') (astored a ++ X) ->
  Permutation (stored (upd_arch w i a')) (stored w ++ X).
Proof.
  intros Ha HP. rewrite <- (app_nil_r (stored (upd_arch w i a'))).
  apply (stored_upd w i a a' X [] Ha). rewrite app_nil_r. exact HP.
Qed.

Lemma stored_upd_sub w i a a' X :
  nthN (w_archs w) i = Some a -> Permutation (astored a) (astored a' ++ X) ->
  Permutation (stored w) (stored (upd_arch w i a') ++ X).
Proof.
  intros Ha HP. symmetry. rewrite <- (app_nil_r (stored w)).
  apply (stored_upd w i a a' [] X Ha). rewrite app_nil_r. symmetry. exact HP.
Qed.

Lemma astored_app types rows rows' :
  astored {| a_types := types; a_rows := rows ++ rows' |} =
  concat (map r_vals rows) ++ concat (map r_vals rows').
Proof. unfold astored. cbn [a_rows]. rewrite map_app, concat_app. reflexivity. Qed.

Lemma arch_push_stored a id vals : astored (fst (arch_push a id vals)) = astored a ++ vals.
Proof.
  unfold arch_push. cbn [fst]. rewrite astored_app. cbn [map concat r_vals]. rewrite app_nil_r. reflexivity.
Qed.

(* swap-remove: exactly the removed row's values leave the archetype *)
Lemma arch_remove_rows a idx a' r moved :
  arch_remove a idx = Done (a', r, moved) -> Permutation (a_rows a) (r :: a_rows a').
Proof.
  unfold arch_remove, arch_len.
  destruct (N.eqb_spec (lenN (a_rows a)) 0) as [|Hn]; [discriminate|].
  destruct (nthN (a_rows a) idx) as [r0|] eqn:Ei; [|discriminate].
  destruct (nthN (a_rows a) (lenN (a_rows a) - 1)) as [lr|] eqn:El; [|discriminate].
  rewrite <- lastN_nthN in El.
  pose proof (swap_remove_perm_gen _ _ _ _ Ei El) as HP.
  destruct (N.eqb_spec idx (lenN (a_rows a) - 1)) as [He|He]; intros [= <- <- <-]; cbn [a_rows].
  - rewrite lastN_nthN, <- He, Ei in El. injection El as <-.
    rewrite (updN_same _ _ _ Ei) in HP. exact HP.
  - exact HP.
Qed.

Lemma arch_remove_stored a idx a' r moved :
  arch_remove a idx = Done (a', r, moved) -> Permutation (astored a) (astored a' ++ r_vals r).
Proof.
  intros H. apply arch_remove_rows in H. unfold astored.
  etransitivity; [apply Permutation_concat_map; exact H|]. cbn [map concat]. apply Permutation_app_comm.
Qed.

Lemma detach_row_stored w l w' r :
  detach_row w l = Done (w', r) -> Permutation (stored w) (stored w' ++ r_vals r).
Proof.
  intros H. apply detach_row_unfold in H as (a & a' & moved & Ha & Hr & ->).
  rewrite stored_with_ents. apply (stored_upd_sub _ _ _ _ _ Ha). apply (arch_remove_stored _ _ _ _ _ Hr).
Qed.

Lemma flush_ids_stored : forall ids e a0 e' a0',
  flush_ids e a0 ids = (e', a0') -> astored a0' = astored a0.
Proof.
  induction ids as [|id ids IH]; intros e a0 e' a0'; cbn [flush_ids].
  - intros [= <- <-]. reflexivity.
  - unfold arch_push at 1. intros H. apply IH in H. rewrite H.
    rewrite astored_app. cbn [map concat r_vals]. rewrite !app_nil_r. reflexivity.
Qed.

Lemma w_flush_stored w w' : w_flush w = Done w' -> Permutation (stored w') (stored w).
Proof.
  intros H. apply w_flush_unfold in H as (e & ids & a0 & e' & a0' & _ & Ha0 & Hids & ->).
  rewrite stored_with_ents. rewrite <- (app_nil_r (stored w)).
  apply (stored_upd_add _ _ _ _ _ Ha0). rewrite (flush_ids_stored _ _ _ _ _ Hids), app_nil_r. reflexivity.
Qed.

(* appending a row-less archetype *)
Lemma stored_snoc_empty e archs ts ix b2a ins rem :
  stored {| w_ents := e; w_archs := archs ++ [{| a_types := ts; a_rows := [] |}];
            w_index := ix; w_b2a := b2a; w_ins := ins; w_rem := rem |} = concat (map astored archs).
Proof.
  rewrite stored_eq. cbn [w_archs]. rewrite map_app, concat_app. cbn [map concat astored a_rows]. apply app_nil_r.
Qed.

Lemma archs_get_stored u w ids info w' i :
  archs_get u w ids info = Done (w', i) -> stored w' = stored w.
Proof.
  unfold archs_get. destruct (assoc_list ids (w_index w)) as [i0|]; [intros [= <- <-]; reflexivity|].
  destruct (assert_type_info u info) as [|[p|p|]]; try discriminate.
  intros [= <- <-]. apply stored_snoc_empty.
Qed.

Lemma bundle_archetype_stored u w b w' i :
  bundle_archetype u w b = Done (w', i) -> stored w' = stored w.
Proof.
  unfold bundle_archetype. destruct (b_key b) as [k|]; [|apply archs_get_stored].
  destruct (assoc_list k (w_b2a w)) as [a|]; [intros [= <- <-]; reflexivity|].
  destruct (archs_get u w _ _) as [[w1 a]|c] eqn:E; [|discriminate]. cbn [bind].
  intros [= <- <-]. apply archs_get_stored in E. rewrite <- E. reflexivity.
Qed.

Lemma put_row_stored w aid id items w2 i :
  put_row w aid id items = Done (w2, i) ->
  exists a vals, nthN (w_archs w) aid = Some a /\ mk_row (a_types a) items = Some vals /\
    Permutation (stored w2) (stored w ++ vals).
Proof.
  intros H. apply put_row_spec in H as (a & vals & Ha & _ & Hmk & _ & _ & -> & _).
  exists a, vals. split; [exact Ha|]. split; [exact Hmk|].
  apply (stored_upd_add _ _ _ _ _ Ha). rewrite arch_push_stored. reflexivity.
Qed.

Lemma insert_batch_stored w types rows w1 aid base :
  insert_batch w types rows = Done (w1, aid, base) ->
  Permutation (stored w1) (stored w ++ concat (map r_vals rows)).
Proof.
  unfold insert_batch. destruct (assoc_list types (w_index w)) as [x|].
  - unfold get_arch. destruct (nthN (w_archs w) x) as [a|] eqn:Ha; [|discriminate]. cbn [bind].
    intros [= <- <- <-]. apply (stored_upd_add _ _ _ _ _ Ha). rewrite astored_app. reflexivity.
  - intros [= <- <- <-]. rewrite !stored_eq. cbn [w_archs]. rewrite map_app, concat_app.
    cbn [map concat astored a_rows]. rewrite app_nil_r. reflexivity.
Qed.

Lemma patch_ids_vals : forall ids rows idx, map r_vals (patch_ids rows idx ids) = map r_vals rows.
Proof.
  induction ids as [|id ids IH]; intros rows idx; cbn [patch_ids]; [reflexivity|].
  destruct (nthN rows idx) as [x|] eqn:Hx; [|reflexivity].
  rewrite IH, map_updN. cbn [r_vals]. apply updN_same. rewrite nthN_map, Hx. reflexivity.
Qed.

(* ------------------------------------------------------------------------------------------ *)
(** * 3. clear, flush, despawn, take_drop, column batches *)

Theorem c03_clear_proof : c03_clear_stmt.
Proof.
  intros w w' d H. unfold w_clear in H. injection H as <- <-. split; [reflexivity|].
  rewrite stored_eq. cbn [w_archs]. induction (w_archs w) as [|a l IH]; [reflexivity|].
  cbn [map concat astored a_rows]. exact IH.
Qed.

Theorem c03_flush_proof : c03_flush_stmt.
Proof. intros u w w' _ _ H. apply w_flush_stored. exact H. Qed.

Theorem c03_despawn_proof : c03_despawn_stmt.
Proof.
  intros u w h w' r _ _ H. apply w_despawn_unfold in H as (w0 & Hfl & H).
  apply w_flush_stored in Hfl.
  destruct H as [(_ & -> & ->)|(e & l & r1 & _ & Hd & ->)].
  - symmetry. exact Hfl.
  - apply detach_row_stored in Hd. rewrite stored_with_ents in Hd.
    etransitivity; [symmetry; exact Hfl|exact Hd].
Qed.

Theorem c03_take_drop_proof : c03_take_drop_stmt.
Proof.
  intros u w h w' r _ _ H. apply w_take_drop_unfold in H as (w0 & Hfl & H).
  apply w_flush_stored in Hfl.
  destruct H as [(_ & -> & ->)|(l & w1 & r1 & e & l' & _ & Hd & _ & -> & ->)].
  - symmetry. exact Hfl.
  - apply detach_row_stored in Hd. rewrite stored_with_ents.
    etransitivity; [symmetry; exact Hfl|exact Hd].
Qed.

Theorem c03_column_batch_proof : c03_column_batch_stmt.
Proof.
  intros u w types vals w' hs _ _ _ _ _ H _.
  apply w_spawn_column_batch_unfold in H as (w0 & w1 & aid & base & e & ids & a & Hfl & Hib & _ & Ha & -> & _).
  apply w_flush_stored in Hfl. apply insert_batch_stored in Hib.
  rewrite stored_with_ents.
  etransitivity; [apply (stored_upd_add _ _ _ _ [] Ha)|].
  - unfold astored. cbn [a_rows]. rewrite patch_ids_vals, app_nil_r. reflexivity.
  - rewrite app_nil_r. etransitivity; [exact Hib|]. rewrite map_map. cbn [r_vals]. rewrite map_id.
    apply Permutation_app_tail. exact Hfl.
Qed.

(* ------------------------------------------------------------------------------------------ *)
(** * 4. association lists with duplicate-free keys: counting through lookups *)

Definition pair_dec : forall x y : tid * val, {x = y} + {x <> y}.
Proof. decide equality; apply N.eq_dec. Defined.

(* 1 if [l] binds [t] to [v] (first binding), else 0 *)
Definition hit (l : comps) (t : tid) (v : val) : nat :=
  match lookup_first t l with Some v' => if N.eqb v' v then 1%nat else 0%nat | None => 0%nat end.

Lemma count_nodup (l : comps) t v : NoDup (map fst l) -> count_occ pair_dec l (t, v) = hit l t v.
Proof.
  induction l as [|[t' v'] l IH]; intros Hnd; [reflexivity|].
  cbn [map fst] in Hnd. inversion Hnd as [|x xs Hx Hnd']; subst.
  unfold hit. cbn [lookup_first count_occ].
  destruct (N.eqb_spec t t') as [->|Hne].
  - assert (H0 : count_occ pair_dec l (t', v) = 0%nat).
    { apply count_occ_not_In. intros Hin. apply Hx. apply in_map_iff. exists (t', v). auto. }
    destruct (pair_dec (t', v') (t', v)) as [E|E]; destruct (N.eqb_spec v' v) as [Ev|Ev]; congruence.
  - destruct (pair_dec (t', v') (t, v)) as [E|E]; [congruence|]. rewrite (IH Hnd'). reflexivity.
Qed.

Lemma hit_lookup l t v :
  (hit l t v = 1%nat /\ lookup_first t l = Some v) \/ (hit l t v = 0%nat /\ lookup_first t l <> Some v).
Proof.
  unfold hit. destruct (lookup_first t l) as [v'|]; [|right; split; [reflexivity|discriminate]].
  destruct (N.eqb_spec v' v) as [->|Hne]; [left; auto|right; split; [reflexivity|congruence]].
Qed.

Lemma hit_ext l1 l2 t v : lookup_first t l1 = lookup_first t l2 -> hit l1 t v = hit l2 t v.
Proof. unfold hit. intros ->. reflexivity. Qed.

Lemma hit_None l t v : lookup_first t l = None -> hit l t v = 0%nat.
Proof. unfold hit. intros ->. reflexivity. Qed.

(* a sub-list of [old] described by a condition on the keys *)
Lemma hit_sub_yes (d old : comps) (Q : tid -> Prop) t v :
  NoDup (map fst d) -> (forall t v, In (t, v) d <-> lookup_first t old = Some v /\ Q t) ->
  Q t -> hit d t v = hit old t v.
Proof.
  intros Hnd Hd Hq.
  destruct (hit_lookup d t v) as [(-> & H)|(-> & H)]; destruct (hit_lookup old t v) as [(-> & H')|(-> & H')];
    try reflexivity; exfalso.
  - apply (lookup_first_In_nodup _ _ _ Hnd), Hd in H. apply H'. apply H.
  - apply H. apply (lookup_first_In_nodup _ _ _ Hnd), Hd. auto.
Qed.

Lemma hit_sub_no (d old : comps) (Q : tid -> Prop) t v :
  NoDup (map fst d) -> (forall t v, In (t, v) d <-> lookup_first t old = Some v /\ Q t) ->
  ~ Q t -> hit d t v = 0%nat.
Proof.
  intros Hnd Hd Hq. destruct (hit_lookup d t v) as [(_ & H)|(-> & _)]; [|reflexivity].
  exfalso. apply (lookup_first_In_nodup _ _ _ Hnd), Hd in H. apply Hq, H.
Qed.

Lemma taken_spec (taken old : comps) ts :
  map fst taken = ts -> (forall t v, In (t, v) taken -> lookup_first t old = Some v) ->
  forall t v, In (t, v) taken <-> lookup_first t old = Some v /\ In t ts.
Proof.
  intros Hk Hin t v. split.
  - intros H. split; [apply Hin; exact H|]. rewrite <- Hk. apply in_map_iff. exists (t, v). auto.
  - intros (Ho & Ht). rewrite <- Hk in Ht. apply in_map_iff in Ht as ([t' v'] & E & Hin'). cbn [fst] in E. subst t'.
    pose proof (Hin _ _ Hin') as Ho'. rewrite Ho in Ho'. injection Ho' as ->. exact Hin'.
Qed.

Lemma lookup_eq_perm (l1 l2 : comps) :
  NoDup (map fst l1) -> NoDup (map fst l2) -> (forall t, lookup_first t l1 = lookup_first t l2) ->
  Permutation l1 l2.
Proof.
  intros H1 H2 H. apply (Permutation_count_occ pair_dec). intros [t v].
  rewrite !count_nodup by assumption. apply hit_ext, H.
Qed.

(* ------------------------------------------------------------------------------------------ *)
(** * 5. spawn_inner, spawn, spawn_at *)

Lemma spawn_inner_stored u w h b w' :
  bundle_ok b -> WInvP [e_id h] None u w -> spawn_inner u w h b = Done w' ->
  Permutation (stored w') (stored w ++ b_items b).
Proof.
  intros (Hnd & Hk) P H.
  apply spawn_inner_unfold in H as (w1 & aid & w2 & i & Hba & Hput & ->).
  destruct (bundle_archetype_spec _ _ _ _ _ _ _ P Hk Hba) as (_ & _ & _ & _ & (a & Ha & Hta) & _).
  apply bundle_archetype_stored in Hba.
  apply put_row_stored in Hput as (a' & vals & Ha' & Hmk & HP).
  rewrite Ha in Ha'. injection Ha' as <-. rewrite Hta in Hmk.
  rewrite stored_with_ents. etransitivity; [exact HP|]. rewrite Hba. apply Permutation_app_head.
  apply lookup_eq_perm.
  - rewrite (mk_row_types _ _ _ Hmk). eapply Permutation_NoDup; [symmetry; apply tsort_perm|exact Hnd].
  - exact Hnd.
  - intros t. apply (mk_row_bundle_lookup u b vals t Hnd Hmk).
Qed.

Theorem c03_spawn_proof : c03_spawn_stmt.
Proof.
  intros u w b w' h _ I F Hok H _.
  apply w_spawn_unfold in H as (w0 & e & Hfl & Hal & Hsp).
  destruct (w_flush_spec _ _ _ I F Hfl) as (P0 & Hf0 & F0 & _).
  pose proof (fits_meta_lt _ F0) as Hlt0.
  destruct (alloc_inv _ _ _ _ P0 Hf0 Hlt0 Hal) as (P1 & _).
  apply w_flush_stored in Hfl.
  etransitivity; [apply (spawn_inner_stored _ _ _ _ _ Hok P1 Hsp)|].
  rewrite stored_with_ents. apply Permutation_app_tail. exact Hfl.
Qed.

Theorem c03_spawn_at_proof : c03_spawn_at_stmt.
Proof.
  intros u w h b w' d _ I F Hok Hv H _.
  apply w_spawn_at_unfold in H as (w0 & e & ol & w2 & Hfl & Hal & Hmid & Hsp).
  destruct (w_flush_spec _ _ _ I F Hfl) as (P0 & Hf0 & F0 & _).
  destruct (alloc_at_inv _ _ _ _ _ P0 Hf0 Hv Hal) as (P1 & _).
  apply w_flush_stored in Hfl.
  assert (Hw2 : WInvP [e_id h] None u w2 /\ Permutation (stored w0) (stored w2 ++ d)).
  { destruct ol as [l|].
    - destruct Hmid as (r & Hd & ->). split; [apply (detach_row_inv _ _ _ _ _ _ P1 Hd)|].
      apply detach_row_stored in Hd. exact Hd.
    - destruct Hmid as (-> & ->). split; [exact P1|]. rewrite app_nil_r. reflexivity. }
  destruct Hw2 as (P2 & HP).
  pose proof (spawn_inner_stored _ _ _ _ _ Hok P2 Hsp) as HS.
  etransitivity; [apply Permutation_app_tail; etransitivity; [symmetry; exact Hfl|exact HP]|].
  etransitivity; [|apply Permutation_app_tail; symmetry; exact HS].
  rewrite <- !app_assoc. apply Permutation_app_head. apply Permutation_app_comm.
Qed.

(* ------------------------------------------------------------------------------------------ *)
(** * 6. the frame lemma; remove, insert, exchange *)

Lemma stored_iter w : stored w = concat (map snd (w_iter w)).
Proof.
  unfold stored, w_iter. induction (w_archs w) as [|a l IH]; [reflexivity|].
  cbn [map concat]. rewrite map_app, concat_app, <- IH. f_equal. rewrite map_map. cbn [snd]. reflexivity.
Qed.

Lemma iter_spec u w : WInvP [] None u w -> flushed w ->
  NoDup (w_iter w) /\ forall h l, In (h, l) (w_iter w) <-> abs w h = Some l.
Proof.
  intros P Hf.
  destruct (iter_matches_abs_weakened u w (WInvP_WInv _ _ P) (wp_rows_lt _ _ _ _ P) Hf) as (Hnd & _ & Hin).
  split; [apply NoDup_map_proj in Hnd; exact Hnd|].
  intros h l. rewrite Hin. split; [tauto|]. intros H. split; [exact H|].
  apply (alive_get_mut_flushed _ _ Hf). unfold alive. congruence.
Qed.

Definition not_h (h : entity) (x : entity * comps) : bool := negb (entity_eqb (fst x) h).

Lemma iter_split u w h old : WInvP [] None u w -> flushed w -> abs w h = Some old ->
  Permutation (w_iter w) ([(h, old)] ++ filter (not_h h) (w_iter w)).
Proof.
  intros P Hf Ho. destruct (iter_spec u w P Hf) as (Hnd & Hin).
  etransitivity; [apply (filter_partition_perm (fun x => entity_eqb (fst x) h))|].
  apply Permutation_app_tail.
  apply NoDup_Permutation; [apply NoDup_filter; exact Hnd|repeat constructor; intros []|].
  intros [h' l]. rewrite filter_In, Hin. cbn [fst In]. rewrite entity_eqb_spec. split.
  - intros (Ha & ->). left. congruence.
  - intros [E|[]]. injection E as <- <-. auto.
Qed.

(* two flushed worlds in which every handle but [h] denotes the same components *)
Lemma frame u w w' h old new :
  WInvP [] None u w -> flushed w -> WInvP [] None u w' -> flushed w' ->
  (forall h', h' <> h -> abs w' h' = abs w h') -> abs w h = Some old -> abs w' h = Some new ->
  Permutation (stored w ++ new) (stored w' ++ old).
Proof.
  intros P Hf P' Hf' Hoth Ho Hn.
  pose proof (iter_split _ _ _ _ P Hf Ho) as S1. pose proof (iter_split _ _ _ _ P' Hf' Hn) as S2.
  destruct (iter_spec u w P Hf) as (Hnd & Hin). destruct (iter_spec u w' P' Hf') as (Hnd' & Hin').
  assert (R : Permutation (filter (not_h h) (w_iter w)) (filter (not_h h) (w_iter w'))).
  { apply NoDup_Permutation; [apply NoDup_filter; exact Hnd|apply NoDup_filter; exact Hnd'|].
    intros [h' l]. rewrite !filter_In, Hin, Hin'. unfold not_h. cbn [fst]. rewrite negb_true_iff.
    assert (Hne : entity_eqb h' h = false -> h' <> h).
    { intros E ->. rewrite (proj2 (entity_eqb_spec h h) eq_refl) in E. discriminate. }
    split; intros (Ha & E); (split; [|exact E]).
    - rewrite (Hoth h' (Hne E)). exact Ha.
    - rewrite <- (Hoth h' (Hne E)). exact Ha. }
  rewrite !stored_iter.
  apply (Permutation_concat_map snd) in S1, S2, R. cbn [app map concat snd] in S1, S2.
  etransitivity; [apply Permutation_app_tail; exact S1|].
  etransitivity; [|apply Permutation_app_tail; symmetry; exact S2].
  etransitivity; [apply Permutation_app_comm|]. rewrite <- app_assoc. apply Permutation_app_head.
  etransitivity; [apply Permutation_app_comm|]. apply Permutation_app_tail. exact R.
Qed.

Lemma perm_combine {A} (S0 S1 old new X Y : list A) :
  Permutation (S0 ++ new) (S1 ++ old) -> Permutation (old ++ X) (new ++ Y) -> Permutation (S0 ++ X) (S1 ++ Y).
Proof.
  intros H1 H2. apply (Permutation_app_inv_r new).
  transitivity ((S0 ++ new) ++ X).
  { rewrite <- !app_assoc. apply Permutation_app_head, Permutation_app_comm. }
  etransitivity; [apply Permutation_app_tail; exact H1|].
  rewrite <- !app_assoc. apply Permutation_app_head.
  etransitivity; [exact H2|]. apply Permutation_app_comm.
Qed.

Lemma abs_nodup u w h l : WInvP [] None u w -> abs w h = Some l -> NoDup (map fst l).
Proof.
  intros P. unfold abs. destruct (get (w_ents w) h) as [lc|]; [|discriminate].
  destruct (N.eqb (l_idx lc) SENT); [intros [= <-]; constructor|].
  destruct (nthN (w_archs w) (l_arch lc)) as [a|] eqn:Ha; [|discriminate].
  destruct (nthN (a_rows a) (l_idx lc)) as [r|] eqn:Hr; [|discriminate]. intros [= <-].
  rewrite (wp_rowtypes _ _ _ _ P a r (nthN_In _ _ _ Ha) (nthN_In _ _ _ Hr)).
  apply (WorldProofs4.ati_nodup u). apply (WStatic_sorted _ _ _ (wp_static _ _ _ _ P)).
  eapply nthN_In. exact Ha.
Qed.

(* the list-level content of remove ([items] = [d] = []), insert ([gone] = [taken] = []) and
   exchange, from the lookup characterisations of the refinement theorems *)
Lemma exchange_count (old new items taken d : comps) (gone : list tid) :
  NoDup (map fst old) -> NoDup (map fst new) -> NoDup (map fst items) ->
  NoDup (map fst taken) -> NoDup (map fst d) ->
  (forall t, lookup_first t new =
             match lookup_first t items with
             | Some v => Some v
             | None => if mem_tid t gone then None else lookup_first t old
             end) ->
  (forall t v, In (t, v) d <-> lookup_first t old = Some v /\ ~ In t gone /\ In t (map fst items)) ->
  (forall t v, In (t, v) taken <-> lookup_first t old = Some v /\ In t gone) ->
  Permutation (old ++ items) (new ++ taken ++ d).
Proof.
  intros Ho Hn Hi Ht Hd Hlk Hds Hts. apply (Permutation_count_occ pair_dec). intros [t v].
  rewrite !count_occ_app, !count_nodup by assumption.
  pose proof (hit_sub_yes d old (fun t => ~ In t gone /\ In t (map fst items)) t v Hd Hds) as Dy.
  pose proof (hit_sub_no d old (fun t => ~ In t gone /\ In t (map fst items)) t v Hd Hds) as Dn.
  pose proof (hit_sub_yes taken old (fun t => In t gone) t v Ht Hts) as Ty.
  pose proof (hit_sub_no taken old (fun t => In t gone) t v Ht Hts) as Tn.
  cbv beta in Dy, Dn, Ty, Tn. specialize (Hlk t).
  destruct (lookup_first t items) as [vi|] eqn:Ei.
  - assert (Hnew : hit new t v = hit items t v) by (apply hit_ext; rewrite Hlk, Ei; reflexivity).
    pose proof (lookup_first_Some_fst _ _ _ Ei) as Hin.
    destruct (mem_tid_cases t gone) as [(Hg & _)|(Hg & _)].
    + rewrite (Ty Hg), Dn by tauto. lia.
    + rewrite (Tn Hg), Dy by tauto. lia.
  - assert (Hit : hit items t v = 0%nat) by (apply hit_None; exact Ei).
    apply lookup_first_None in Ei. rewrite Dn by tauto.
    destruct (mem_tid_cases t gone) as [(Hg & Hm)|(Hg & Hm)]; rewrite Hm in Hlk.
    + rewrite (hit_None new t v Hlk), (Ty Hg). lia.
    + rewrite (hit_ext new old t v Hlk), (Tn Hg). lia.
Qed.

(* ---- remove ---- *)
Lemma archs_get_ents u w ids info w' i : archs_get u w ids info = Done (w', i) -> w_ents w' = w_ents w.
Proof.
  unfold archs_get. destruct (assoc_list ids (w_index w)) as [i0|]; [intros [= <- <-]; reflexivity|].
  destruct (assert_type_info u info) as [|[p|p|]]; try discriminate.
  intros [= <- <-]. reflexivity.
Qed.

Lemma remove_target_ents u w old key removed w' i :
  remove_target u w old key removed = Done (w', i) -> w_ents w' = w_ents w.
Proof.
  unfold remove_target. destruct (assoc_pair old key (w_rem w)) as [t|]; [intros [= <- <-]; reflexivity|].
  unfold get_arch. destruct (nthN (w_archs w) old) as [a|]; [|discriminate]. cbn [bind].
  destruct (archs_get u w _ _) as [[w1 i1]|c] eqn:E; [|discriminate]. cbn [bind].
  intros [= <- <-]. cbn [w_ents]. apply (archs_get_ents _ _ _ _ _ _ E).
Qed.

Theorem c03_remove_proof : c03_remove_stmt.
Proof.
  intros u w h key ts w' r TI I F Hnd Hkey H.
  pose proof (WorldProofs4.remove_refines_proof u w h key ts w' r TI I F Hnd Hkey H) as (I' & Hf' & Hspec).
  apply WorldProofs4.w_remove_unfold in H as (w0 & Hfl & H).
  destruct (w_flush_spec _ _ _ I F Hfl) as (P & Hf & F0 & Habs & _).
  apply w_flush_stored in Hfl.
  destruct H as [(_ & -> & ->)|(l & sa & sr & _ & _ & _ & H)]; [symmetry; exact Hfl|].
  destruct H as [(_ & -> & ->)|(taken & w1 & target & _ & Hrt & -> & H)]; [symmetry; exact Hfl|].
  assert (Hlen : lenN (meta (w_ents w')) = lenN (meta (w_ents w0))).
  { apply remove_target_ents in Hrt.
    destruct H as [(_ & ->)|(ta & w2 & ti & r4 & _ & _ & Hpr & Hd)]; [rewrite Hrt; reflexivity|].
    apply put_row_spec in Hpr as (a & vals & _ & _ & _ & _ & _ & -> & _).
    apply detach_row_unfold in Hd as (a1 & a1' & moved & _ & _ & ->).
    cbn [with_ents w_ents upd_arch with_archs]. rewrite <- Hrt.
    destruct moved; cbn [fix_moved]; rewrite ?set_idx_lenN_meta, set_loc_lenN_meta; reflexivity. }
  assert (P' : WInvP [] None u w').
  { apply WInv_WInvP; [exact I'|]. intros a Ha. pose proof (WInv_rows_le_meta _ _ _ I' Ha).
    pose proof (fits_meta_lt _ F0). lia. }
  destruct Hspec as (old & new & Ho & Hn & Hk & Hin & Hlk & Hoth).
  rewrite <- Habs in Ho.
  assert (FR : Permutation (stored w0 ++ new) (stored w' ++ old)).
  { apply (frame u w0 w' h old new P Hf P' Hf'); [|exact Ho|exact Hn].
    intros h' Hne. rewrite Habs. apply Hoth. exact Hne. }
  etransitivity; [symmetry; exact Hfl|]. rewrite <- (app_nil_r (stored w0)).
  apply (perm_combine _ _ old new [] taken FR).
  replace (new ++ taken) with (new ++ taken ++ []) by (rewrite app_nil_r; reflexivity).
  apply (exchange_count old new [] taken [] ts).
  - apply (abs_nodup _ _ _ _ P Ho).
  - apply (abs_nodup _ _ _ _ P' Hn).
  - constructor.
  - rewrite Hk. exact Hnd.
  - constructor.
  - exact Hlk.
  - intros t v. cbn [In map]. tauto.
  - apply (taken_spec _ _ _ Hk Hin).
Qed.

(* ---- insert ---- *)
Theorem c03_insert_proof : c03_insert_stmt.
Proof.
  intros u w h b w' r TI I F Hb H.
  unfold w_insert in H. destruct (w_flush w) as [w0|c] eqn:Hfl; [|discriminate]. cbn [bind] in H.
  destruct (w_flush_spec _ _ _ I F Hfl) as (P & Hf & F0 & Habs & _).
  apply w_flush_stored in Hfl.
  destruct (get (w_ents w0) h) as [l|] eqn:Hg; [|injection H as <- <-; symmetry; exact Hfl].
  destruct (flushed_get_located _ _ _ _ P Hf Hg) as (m & sa & r0 & Hm & Hgen & Hs & -> & Hsa & _ & _).
  assert (Hfit : lenN (meta (w_ents w0)) <= SENT) by (pose proof (fits_meta_lt _ F0); lia).
  assert (Hsub : forall t, In t (a_types sa) <-> In t (a_types sa) /\ ~ In t []) by (intros t; cbn [In]; tauto).
  destruct (insert_inner_spec u w0 h b (l_arch (m_loc m)) m [] sa sa TI P Hb Hm Hgen Hs Hsa Hsa Hsub Hfit)
    as (w1 & d & Ei & P1 & Hnf & old & new & Ho & Hn & Hlk & Hd & Hdn & Hoth).
  rewrite Ei in H. cbn [bind] in H. injection H as <- <-.
  assert (Hf1 : flushed w1) by (unfold flushed; rewrite Hnf; exact Hf).
  pose proof (frame u w0 w1 h old new P Hf P1 Hf1 Hoth Ho Hn) as FR.
  etransitivity; [apply Permutation_app_tail; symmetry; exact Hfl|].
  apply (perm_combine _ _ old new _ _ FR).
  apply (exchange_count old new (b_items b) [] d []).
  - apply (abs_nodup _ _ _ _ P Ho).
  - apply (abs_nodup _ _ _ _ P1 Hn).
  - apply Hb.
  - constructor.
  - exact Hdn.
  - exact Hlk.
  - exact Hd.
  - intros t v. cbn [In]. tauto.
Qed.

(* ---- exchange ---- *)
Theorem c03_exchange_proof : c03_exchange_stmt.
Proof.
  intros u w h key ts b w' r TI I F Hnd Hkey Hb H. subst ts.
  unfold w_exchange in H. destruct (w_flush w) as [w0|c] eqn:Hfl; [|discriminate]. cbn [bind] in H.
  destruct (w_flush_spec _ _ _ I F Hfl) as (P & Hf & F0 & Habs & _).
  apply w_flush_stored in Hfl.
  destruct (get (w_ents w0) h) as [l|] eqn:Hg; [|injection H as <- <-; symmetry; exact Hfl].
  destruct (flushed_get_located _ _ _ _ P Hf Hg) as (m & sa & r0 & Hm & Hgen & Hs & -> & Hsa & Hr0 & Ho0).
  unfold get_row, get_arch in H. rewrite Hsa in H. cbn [bind] in H. rewrite Hr0 in H. cbn [bind] in H.
  destruct (dup_check u (tl key)) as [[]|c]; [|discriminate]. cbn [bind] in H.
  destruct (lookup_all (tl key) (r_vals r0)) as [taken|] eqn:Et; [|injection H as <- <-; symmetry; exact Hfl].
  destruct (remove_target u w0 (l_arch (m_loc m)) key (tl key)) as [[w1 mid]|c] eqn:Er; [|discriminate].
  cbn [bind] in H.
  destruct (remove_target_spec _ _ _ _ _ _ _ _ _ P Hsa Er) as (P1 & He & Hrow & Habs1 & Hmono & ta & Hta & Htt).
  assert (Hm1 : nthN (meta (w_ents w1)) (e_id h) = Some m) by (rewrite He; exact Hm).
  assert (Hfit : lenN (meta (w_ents w1)) <= SENT) by (rewrite He; pose proof (fits_meta_lt _ F0); lia).
  assert (Hsub : forall t, In t (a_types ta) <-> In t (a_types sa) /\ ~ In t (tl key)).
  { intros t. rewrite Htt, filter_In, negb_true_iff, mem_tid_false. tauto. }
  destruct (insert_inner_spec u w1 h b mid m (tl key) sa ta TI P1 Hb Hm1 Hgen Hs (Hmono _ _ Hsa) Hta Hsub Hfit)
    as (w2 & d & Ei & P2 & Hnf & old & new & Ho & Hn & Hlk & Hd & Hdn & Hoth).
  rewrite Ei in H. cbn [bind] in H. injection H as <- <-.
  assert (Hf2 : flushed w2) by (unfold flushed; rewrite Hnf, He; exact Hf).
  rewrite Habs1 in Ho. rewrite Ho0 in Ho. injection Ho as <-.
  assert (FR : Permutation (stored w0 ++ new) (stored w2 ++ r_vals r0)).
  { apply (frame u w0 w2 h _ new P Hf P2 Hf2); [|exact Ho0|exact Hn].
    intros h' Hne. rewrite <- Habs1. apply Hoth. exact Hne. }
  etransitivity; [apply Permutation_app_tail; symmetry; exact Hfl|].
  apply (perm_combine _ _ (r_vals r0) new _ _ FR).
  apply (exchange_count (r_vals r0) new (b_items b) taken d (tl key)).
  - apply (abs_nodup _ _ _ _ P Ho0).
  - apply (abs_nodup _ _ _ _ P2 Hn).
  - apply Hb.
  - rewrite (lookup_all_fst _ _ _ Et). exact Hnd.
  - exact Hdn.
  - exact Hlk.
  - exact Hd.
  - apply (taken_spec _ _ _ (lookup_all_fst _ _ _ Et)).
    intros t v Hin. apply (lookup_all_In _ _ _ t v Et) in Hin. apply Hin.
Qed.

Print Assumptions c03_clear_proof.
Print Assumptions c03_flush_proof.
Print Assumptions c03_despawn_proof.
Print Assumptions c03_take_drop_proof.
Print Assumptions c03_spawn_proof.
Print Assumptions c03_column_batch_proof.
Print Assumptions c03_spawn_at_proof.
Print Assumptions c03_remove_proof.
Print Assumptions c03_insert_proof.
Print Assumptions c03_exchange_proof.
