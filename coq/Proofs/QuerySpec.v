(* Statements for C08 (queries yield exactly the matching entities, on every access path) and
   C17 (prepared queries / archetype generations never go stale).  Statements only. *)
From Coq Require Import List NArith ZArith Bool Lia Permutation.
From HecsV Require Import Base.ListN Base.ListNFacts Model.EntityBits Model.Types Model.Entities Model.World Model.Query.
From HecsV Require Import Proofs.WorldSpec.
Import ListNotations.
Open Scope N_scope.

(* ---- per archetype: the three ways the code decides "does this archetype match" agree with the
   denotational [sat], and the fetched item is the denotational item ---- *)
Definition c08_triple_stmt : Prop :=
  forall ts q, (access ts q <> None <-> sat ts q = true) /\ (prepare ts q <> None <-> sat ts q = true).

Definition c08_item_stmt : Prop :=
  forall row q s, prepare (map fst row) q = Some s -> get_item row q s = item_spec row q.

(* the item never refers to storage the row lacks *)
Fixpoint item_ok (i : item) : Prop :=
  match i with
  | IBad => False
  | ISome x | ILeft x | IRight x => item_ok x
  | IBoth x y => item_ok x /\ item_ok y
  | ITup xs => (fix all (l : list item) : Prop := match l with [] => True | x :: r => item_ok x /\ all r end) xs
  | _ => True
  end.
Definition c08_item_ok_stmt : Prop :=
  forall row q, sat (map fst row) q = true -> item_ok (item_spec row q).

(* ---- whole-world iteration: exactly the live entities whose component set satisfies the
   query, each once, with their own current values; len() is exact ---- *)
Definition located (w : world) (h : entity) : Prop := get_mut (w_ents w) h <> None.

(* Without a bound on the id space the statement is FALSE of the model - and of the code: row index
   2^32-1 doubles as the "no row" placeholder, so a (practically unreachable) archetype with 2^32 rows
   would hold an entity that iteration yields but get/View reject.  QueryCounterexample.v proves
   ~ c08_iter_nofits_stmt with that witness; the claim is therefore made for worlds that [fits]. *)
Definition c08_iter_nofits_stmt : Prop :=
  forall u w q, WInv u w ->
    NoDup (map (fun p => e_id (fst p)) (query_iter w q)) /\
    (forall h i, In (h, i) (query_iter w q) <->
                 exists l, located w h /\ abs w h = Some l /\ sat (map fst l) q = true /\ i = item_spec l q) /\
    query_len w q = lenN (query_iter w q).

Definition c08_iter_stmt : Prop :=
  forall u w q, WInv u w -> fits w ->
    NoDup (map (fun p => e_id (fst p)) (query_iter w q)) /\
    (forall h i, In (h, i) (query_iter w q) <->
                 exists l, located w h /\ abs w h = Some l /\ sat (map fst l) q = true /\ i = item_spec l q) /\
    query_len w q = lenN (query_iter w q).

(* batched iteration with any batch size >= 1: the batches concatenate to the plain iteration,
   none is empty, none exceeds the batch size *)
Definition c08_batched_stmt : Prop :=
  forall w q bs, 1 <= bs ->
    concat (query_batches w q bs) = query_iter w q /\
    (forall b, In b (query_batches w q bs) -> b <> [] /\ lenN b <= bs).

(* random access through a view agrees with iteration; reserved (unflushed) entities are in neither *)
Definition c08_view_nofits_stmt : Prop :=
  forall u w q h i, WInv u w ->
    (view_get w q h = Some i <-> In (h, i) (query_iter w q)).

Definition c08_view_stmt : Prop :=
  forall u w q h i, WInv u w -> fits w ->
    (view_get w q h = Some i <-> In (h, i) (query_iter w q)).

(* single-entity paths: query_one(_mut) / EntityRef::query, satisfies *)
Definition c08_query_one_stmt : Prop :=
  forall u w q h, WInv u w ->
    query_one w q h =
      match abs w h with
      | None => Q1NoSuch
      | Some l => if sat (map fst l) q then Q1Item (item_spec l q) else Q1Unsat
      end /\
    satisfies w q h = option_map (fun l => sat (map fst l) q) (abs w h).

(* the static check rejects exactly the queries that name a type uniquely and again elsewhere *)
Definition c08_static_stmt : Prop :=
  forall q, assert_borrow_ok q = false <->
    exists i j a b, i <> j /\ nthN (borrows q) i = Some (a, true) /\ nthN (borrows q) j = Some (a, b).

(* ---- C17 ---- *)
Definition arch_types (w : world) : list (list tid) := map a_types (w_archs w).

(* a prepared query whose cached state is what prepare would compute now answers like a fresh query *)
Definition c17_valid_iter_stmt : Prop :=
  forall p wid w q, pq_state p = pq_state (pq_prepare wid w q) ->
    pq_iter p w q = query_iter w q /\ pq_len p w = lenN (query_iter w q) /\
    (forall h, pq_view_get p w q h = view_get w q h).

(* archetype lists only grow and type lists never change *)
Definition c17_grows_stmt : Prop :=
  forall u w o w', wstep u w o = Done w' -> exists extra, arch_types w' = arch_types w ++ extra.

(* archetypes_generation: equal generations of two states of one world mean equal archetype sets *)
Definition c17_generation_stmt : Prop :=
  forall u w ops w', In w' (wrun u w ops) ->
    lenN (w_archs w') = lenN (w_archs w) -> arch_types w' = arch_types w.

(* histories over several worlds: each world has a distinct non-zero id; events either mutate a
   world or use the one prepared query on a world; every use answers like a fresh query *)
Inductive pev := PMut (i : N) (o : wop) | PUse (i : N).

Fixpoint prun (u : universe) (q : query) (ids : list N) (ws : list world) (p : prepared) (evs : list pev)
  : list (list (entity * item) * list (entity * item)) :=   (* (prepared answer, fresh answer) per use *)
  match evs with
  | [] => []
  | PMut i o :: r =>
      match nthN ws i with
      | Some w => match wstep u w o with
                  | Done w' => prun u q ids (updN ws i w') p r
                  | Panic _ => []
                  end
      | None => prun u q ids ws p r
      end
  | PUse i :: r =>
      match nthN ws i, nthN ids i with
      | Some w, Some wid =>
          let p' := pq_refresh p wid w q in
          (pq_iter p' w q, query_iter w q) :: prun u q ids ws p' r
      | _, _ => prun u q ids ws p r
      end
  end.

Definition c17_fresh_stmt : Prop :=
  forall u q ids evs, NoDup ids -> ~ In 0 ids ->
    Forall (fun x => fst x = snd x)
           (prun u q ids (map (fun _ => world_new) ids) prepared_new evs).
