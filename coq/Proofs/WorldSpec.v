(* The abstraction function, the world invariant and the per-operation refinement statements
   (C01, C09, C10, C16 at the World level).  Definitions and statements only. *)
From Coq Require Import List NArith ZArith Bool Lia.
From HecsV Require Import Base.ListN Base.ListNFacts Model.EntityBits Model.Types Model.Entities Model.World.
Import ListNotations.
Open Scope N_scope.

Definition comps := list (tid * val).

(* ---- what a handle denotes: the plain map Entity -> set of typed components ---- *)
(* A reserved, not yet flushed handle denotes an entity without components (C16); flushing is
   therefore invisible through [abs]. *)
Definition abs (w : world) (h : entity) : option comps :=
  match get (w_ents w) h with
  | None => None
  | Some l =>
      if N.eqb (l_idx l) SENT then Some []
      else match nthN (w_archs w) (l_arch l) with
           | Some a => match nthN (a_rows a) (l_idx l) with
                       | Some r => Some (r_vals r)
                       | None => None
                       end
           | None => None
           end
  end.

Definition alive (w : world) (h : entity) : Prop := abs w h <> None.
Definition comp_of (w : world) (h : entity) (t : tid) : option val :=
  match abs w h with Some l => lookup_first t l | None => None end.

(* distinct component types have distinct TypeIds *)
Definition total_inj (u : universe) : Prop := forall a b, tcmp u a b = Eq -> a = b.

(* bundles hecs accepts: no repeated type; a static key determines the field types *)
Definition bundle_ok (b : bundle) : Prop :=
  NoDup (b_types b) /\ (forall k, b_key b = Some k -> tl k = b_types b).

(* the id space is not exhausted (documented limit: fewer than 2^32-1 ids) *)
Definition fits (w : world) : Prop :=
  lenN (meta (w_ents w)) + Z.to_N (Z.max 0 (- cursor (w_ents w))) < SENT.

(* ---- the invariant ---- *)
Definition target_ok (u : universe) (w : world) (src : N) (ts : list tid) (t : itarget) : Prop :=
  exists a, nthN (w_archs w) src = Some a /\
    assert_type_info u (tsort u ts) = 0 /\
    let '(rest, added, replaced, retained) := merge_loop u (a_types a) (tsort u ts) (a_types a) [] [] [] in
    it_replaced t = replaced /\ it_retained t = retained ++ rest /\
    assoc_list (tsort u (a_types a ++ added)) (w_index w) = Some (it_index t).

Record WInv (u : universe) (w : world) : Prop := {
  (* allocator bookkeeping *)
  wi_nodup : NoDup (pending (w_ents w));
  wi_pending_lt : forall id, In id (pending (w_ents w)) -> id < lenN (meta (w_ents w));
  wi_cursor : (cursor (w_ents w) <= Z.of_N (lenN (pending (w_ents w))))%Z;
  wi_gen : forall m, In m (meta (w_ents w)) -> 0 < m_gen m < W32;
  (* every id is either free/reserved (no row, placeholder location) or names exactly one row *)
  wi_loc : forall id m, nthN (meta (w_ents w)) id = Some m ->
      (In id (pending (w_ents w)) /\ m_loc m = EMPTY_LOC) \/
      (~ In id (pending (w_ents w)) /\ l_idx (m_loc m) <> SENT /\
       exists a r, nthN (w_archs w) (l_arch (m_loc m)) = Some a /\
                   nthN (a_rows a) (l_idx (m_loc m)) = Some r /\ r_id r = id);
  (* every row belongs to the id whose location names it *)
  wi_row : forall ai a i r, nthN (w_archs w) ai = Some a -> nthN (a_rows a) i = Some r ->
      exists m, nthN (meta (w_ents w)) (r_id r) = Some m /\ m_loc m = {| l_arch := ai; l_idx := i |};
  wi_len : elen (w_ents w) = sumf (fun a => lenN (a_rows a)) (w_archs w);
  (* archetypes: the empty archetype is number 0; type lists strictly sorted; rows carry exactly
     the archetype's types, in its order; the index finds each archetype by its type list *)
  wi_arch0 : exists rows, nthN (w_archs w) 0 = Some {| a_types := []; a_rows := rows |};
  wi_sorted : forall a, In a (w_archs w) -> assert_type_info u (a_types a) = 0;
  wi_rowtypes : forall a r, In a (w_archs w) -> In r (a_rows a) -> map fst (r_vals r) = a_types a;
  wi_index : forall i a, nthN (w_archs w) i = Some a -> assoc_list (a_types a) (w_index w) = Some i;
  wi_index_inv : forall k i, assoc_list k (w_index w) = Some i ->
      exists a, nthN (w_archs w) i = Some a /\ a_types a = k;
  (* the three memo tables only ever hold what would be computed afresh (C10) *)
  wi_b2a : forall k a, assoc_list k (w_b2a w) = Some a ->
      assert_type_info u (tsort u (tl k)) = 0 /\ assoc_list (tsort u (tl k)) (w_index w) = Some a;
  wi_ins : forall src k t, assoc_pair src k (w_ins w) = Some t -> target_ok u w src (tl k) t;
  wi_rem : forall src k i, assoc_pair src k (w_rem w) = Some i ->
      exists a, nthN (w_archs w) src = Some a /\
        assoc_list (filter (fun x => negb (mem_tid x (tl k))) (a_types a)) (w_index w) = Some i;
}.

(* after a structural operation nothing is left reserved *)
Definition flushed (w : world) : Prop := needs_flush (w_ents w) = false.

(* ---- statements, one per operation.  Shape: invariant preserved; result as the map semantics
   dictate; every handle the operation does not name denotes exactly what it denoted before. ---- *)

Definition world_new_inv_stmt : Prop :=
  forall u, WInv u world_new /\ flushed world_new /\ (forall h, abs world_new h = None).

(* flush: invisible through abs; makes the world flushed; len grows by the number reserved *)
Definition flush_refines_stmt : Prop :=
  forall u w w', WInv u w -> fits w -> w_flush w = Done w' ->
    WInv u w' /\ flushed w' /\ (forall h, abs w' h = abs w h) /\
    (forall h, alive w' h -> get_mut (w_ents w') h <> None).

(* reserve_entity / reserve_entities through &self *)
Definition reserve_refines_stmt : Prop :=
  forall u w e h, WInv u w -> fits w -> reserve_entity (w_ents w) = Done (e, h) ->
    let w' := with_ents w e in
    fits w' -> WInv u w' /\ abs w h = None /\ abs w' h = Some [] /\
    (forall h', h' <> h -> abs w' h' = abs w h').

Definition spawn_refines_stmt : Prop :=
  forall u w b w' h, total_inj u -> WInv u w -> fits w -> bundle_ok b ->
    w_spawn u w b = Done (w', h) -> fits w' ->
    WInv u w' /\ flushed w' /\ abs w h = None /\ valid_entity h /\
    (exists l, abs w' h = Some l /\ forall t, lookup_first t l = lookup_first t (b_items b)) /\
    (forall h', h' <> h -> abs w' h' = abs w h').

(* a bundle naming a type twice is rejected with hecs's duplicate-components panic, and a bundle
   without repeats never panics while ids remain *)
Definition spawn_dup_panics_stmt : Prop :=
  forall u w b, total_inj u -> WInv u w -> fits w -> ~ NoDup (b_types b) ->
    (forall k, b_key b = Some k -> tl k = b_types b) ->
    w_spawn u w b = Panic P_DUP.

Definition despawn_refines_stmt : Prop :=
  forall u w h w' r, WInv u w -> fits w -> w_despawn w h = Done (w', r) ->
    WInv u w' /\ flushed w' /\
    match r with
    | WOk d => abs w h = Some d /\ abs w' h = None /\ (forall h', h' <> h -> abs w' h' = abs w h')
    | WNoSuchEntity => abs w h = None /\ (forall h', abs w' h' = abs w h')
    | WMissing => False
    end.

Definition take_drop_refines_stmt : Prop :=
  forall u w h w' r, WInv u w -> fits w -> w_take_drop w h = Done (w', r) ->
    WInv u w' /\ flushed w' /\
    match r with
    | WOk d => abs w h = Some d /\ abs w' h = None /\ (forall h', h' <> h -> abs w' h' = abs w h')
    | WNoSuchEntity => abs w h = None /\ (forall h', abs w' h' = abs w h')
    | WMissing => False
    end.

Definition despawn_never_panics_stmt : Prop :=
  forall u w h, WInv u w -> fits w -> exists w' r, w_despawn w h = Done (w', r).

Definition clear_refines_stmt : Prop :=
  forall u w w' d, WInv u w -> w_clear w = (w', d) ->
    WInv u w' /\ flushed w' /\ (forall h, abs w' h = None) /\
    (* everything that was stored is dropped, each value once *)
    d = concat (map (fun a => concat (map r_vals (a_rows a))) (w_archs w)).

Definition insert_refines_stmt : Prop :=
  forall u w h b w' r, total_inj u -> WInv u w -> fits w -> bundle_ok b ->
    w_insert u w h b = Done (w', r) ->
    WInv u w' /\ flushed w' /\
    match r with
    | WOk d =>
        exists old new, abs w h = Some old /\ abs w' h = Some new /\
          (forall t, lookup_first t new =
                     match lookup_first t (b_items b) with Some v => Some v | None => lookup_first t old end) /\
          (forall t v, In (t, v) d <-> (lookup_first t old = Some v /\ In t (b_types b))) /\ NoDup (map fst d) /\
          (forall h', h' <> h -> abs w' h' = abs w h')
    | WNoSuchEntity => abs w h = None /\ (forall h', abs w' h' = abs w h')
    | WMissing => False
    end.

Definition insert_never_panics_stmt : Prop :=
  forall u w h b, total_inj u -> WInv u w -> fits w -> bundle_ok b ->
    exists w' r, w_insert u w h b = Done (w', r).

(* remove::<T>: all-or-nothing *)
Definition remove_refines_stmt : Prop :=
  forall u w h key ts w' r, total_inj u -> WInv u w -> fits w -> NoDup ts -> tl key = ts ->
    w_remove u w h key ts = Done (w', r) ->
    WInv u w' /\ flushed w' /\
    match r with
    | WOk taken =>
        exists old new, abs w h = Some old /\ abs w' h = Some new /\
          map fst taken = ts /\ (forall t v, In (t, v) taken -> lookup_first t old = Some v) /\
          (forall t, lookup_first t new = if mem_tid t ts then None else lookup_first t old) /\
          (forall h', h' <> h -> abs w' h' = abs w h')
    | WNoSuchEntity => abs w h = None /\ (forall h', abs w' h' = abs w h')
    | WMissing => (exists old, abs w h = Some old /\ exists t, In t ts /\ lookup_first t old = None) /\
                  (forall h', abs w' h' = abs w h')
    end.

Definition exchange_refines_stmt : Prop :=
  forall u w h key ts b w' r, total_inj u -> WInv u w -> fits w -> NoDup ts -> tl key = ts -> bundle_ok b ->
    w_exchange u w h key ts b = Done (w', r) ->
    WInv u w' /\ flushed w' /\
    match r with
    | WOk (taken, d) =>
        exists old new, abs w h = Some old /\ abs w' h = Some new /\
          map fst taken = ts /\ (forall t v, In (t, v) taken -> lookup_first t old = Some v) /\
          (forall t, lookup_first t new =
                     match lookup_first t (b_items b) with
                     | Some v => Some v
                     | None => if mem_tid t ts then None else lookup_first t old
                     end) /\
          (forall t v, In (t, v) d <-> (lookup_first t old = Some v /\ ~ In t ts /\ In t (b_types b))) /\
          (forall h', h' <> h -> abs w' h' = abs w h')
    | WNoSuchEntity => abs w h = None /\ (forall h', abs w' h' = abs w h')
    | WMissing => (exists old, abs w h = Some old /\ exists t, In t ts /\ lookup_first t old = None) /\
                  (forall h', abs w' h' = abs w h')
    end.

(* spawn_at: the named handle becomes live with the bundle; whatever entity held that id is gone *)
Definition spawn_at_refines_stmt : Prop :=
  forall u w h b w' d, total_inj u -> WInv u w -> fits w -> bundle_ok b -> valid_entity h ->
    w_spawn_at u w h b = Done (w', d) -> fits w' ->
    WInv u w' /\ flushed w' /\
    (exists l, abs w' h = Some l /\ forall t, lookup_first t l = lookup_first t (b_items b)) /\
    (forall h', e_id h' <> e_id h -> abs w' h' = abs w h') /\
    (forall h', e_id h' = e_id h -> h' <> h -> abs w' h' = None) /\
    (forall h', e_id h' = e_id h -> forall l, abs w h' = Some l -> d = l) /\
    ((forall h', e_id h' = e_id h -> abs w h' = None) -> d = []).

(* column batches with distinct fresh-or-recycled ids *)
Definition column_batch_refines_stmt : Prop :=
  forall u w types vals w' hs, total_inj u -> WInv u w -> fits w ->
    assert_type_info u types = 0 -> (forall v, In v vals -> map fst v = types) ->
    w_spawn_column_batch w types vals = Done (w', hs) -> fits w' ->
    WInv u w' /\ flushed w' /\ NoDup hs /\ lenN hs = lenN vals /\
    (forall i h v, nthN hs i = Some h -> nthN vals i = Some v -> abs w h = None /\ abs w' h = Some v) /\
    (forall h', ~ In h' hs -> abs w' h' = abs w h').

(* ---- histories ---- *)
Inductive wop :=
| WSpawn (b : bundle)
| WSpawnAt (h : entity) (b : bundle)
| WInsert (h : entity) (b : bundle)
| WRemove (h : entity) (key : bkey) (ts : list tid)
| WExchange (h : entity) (key : bkey) (ts : list tid) (b : bundle)
| WDespawn (h : entity)
| WTakeDrop (h : entity)
| WClear
| WReserve1
| WFlush
| WColBatch (types : list tid) (vals : list comps).

Definition wop_ok (u : universe) (o : wop) : Prop :=
  match o with
  | WSpawn b | WInsert _ b => bundle_ok b
  | WSpawnAt h b => bundle_ok b /\ valid_entity h
  | WRemove _ key ts => NoDup ts /\ tl key = ts
  | WExchange _ key ts b => NoDup ts /\ tl key = ts /\ bundle_ok b
  | WColBatch types vals => assert_type_info u types = 0 /\ (forall v, In v vals -> map fst v = types)
  | _ => True
  end.

Definition wstep (u : universe) (w : world) (o : wop) : outcome world :=
  match o with
  | WSpawn b => match w_spawn u w b with Done (w', _) => Done w' | Panic c => Panic c end
  | WSpawnAt h b => match w_spawn_at u w h b with Done (w', _) => Done w' | Panic c => Panic c end
  | WInsert h b => match w_insert u w h b with Done (w', _) => Done w' | Panic c => Panic c end
  | WRemove h k ts => match w_remove u w h k ts with Done (w', _) => Done w' | Panic c => Panic c end
  | WExchange h k ts b => match w_exchange u w h k ts b with Done (w', _) => Done w' | Panic c => Panic c end
  | WDespawn h => match w_despawn w h with Done (w', _) => Done w' | Panic c => Panic c end
  | WTakeDrop h => match w_take_drop w h with Done (w', _) => Done w' | Panic c => Panic c end
  | WClear => Done (fst (w_clear w))
  | WReserve1 => match reserve_entity (w_ents w) with Done (e, _) => Done (with_ents w e) | Panic c => Panic c end
  | WFlush => w_flush w
  | WColBatch types vals => match w_spawn_column_batch w types vals with Done (w', _) => Done w' | Panic c => Panic c end
  end.

Fixpoint wrun (u : universe) (w : world) (ops : list wop) : list world :=
  match ops with
  | [] => [w]
  | o :: r => match wstep u w o with Done w' => w :: wrun u w' r | Panic _ => [w] end
  end.

(* every state reachable from World::new() by any finite history of accepted operations, as long
   as the id space is not exhausted, satisfies the invariant *)
Definition reachable_inv_stmt : Prop :=
  forall u ops, total_inj u -> Forall (wop_ok u) ops ->
    Forall fits (wrun u world_new ops) -> Forall (WInv u) (wrun u world_new ops).

(* consequences of the invariant for the read accessors (C01/C02/C08 base facts) *)
(* without the id-space bound the statement is false of the model and of the code (row index
   2^32-1 is also the "no row" placeholder): WorldProofs1.v proves ~ iter_matches_abs_nofits_stmt *)
Definition iter_matches_abs_nofits_stmt : Prop :=
  forall u w, WInv u w -> flushed w ->
    NoDup (map (fun p => e_id (fst p)) (w_iter w)) /\
    lenN (w_iter w) = w_len w /\
    (forall h l, In (h, l) (w_iter w) <-> (abs w h = Some l /\ get_mut (w_ents w) h <> None)).

Definition iter_matches_abs_stmt : Prop :=
  forall u w, WInv u w -> fits w -> flushed w ->
    NoDup (map (fun p => e_id (fst p)) (w_iter w)) /\
    lenN (w_iter w) = w_len w /\
    (forall h l, In (h, l) (w_iter w) <-> (abs w h = Some l /\ get_mut (w_ents w) h <> None)).

Definition accessors_agree_stmt : Prop :=
  forall u w h, WInv u w ->
    (w_contains w h = true <-> alive w h) /\
    (w_entity w h <> None <-> alive w h) /\
    (forall t, w_get w h t = [0] <-> ~ alive w h) /\
    (forall t v, w_get w h t = [2; v] <-> comp_of w h t = Some v) /\
    (forall t, w_get w h t = [1] <-> (alive w h /\ comp_of w h t = None)).
