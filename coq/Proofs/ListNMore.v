(* More facts about N-indexed lists (extends Base/ListNFacts.v) *)
From Coq Require Import List NArith ZArith Bool Lia ZifyBool ZifyNat ZifyN.
From HecsV Require Import Base.ListN Base.ListNFacts.
Import ListNotations.
Open Scope N_scope.

(* ---- NoDup / app ---- *)
Lemma NoDup_app_iff {A} (l1 l2 : list A) :
  NoDup (l1 ++ l2) <-> NoDup l1 /\ NoDup l2 /\ (forall x, In x l1 -> In x l2 -> False).
Proof.
  induction l1 as [|a l1 IH]; cbn [app].
  - split; [intros H; repeat split; [constructor|exact H|intros x []]|intros (_ & H & _); exact H].
  - split.
    + intros H. inversion H as [|? ? Hn Hd]; subst. apply IH in Hd as (H1 & H2 & H3).
      repeat split; [constructor; [|exact H1]|exact H2|].
      * intros Hin. apply Hn. apply in_or_app. left. exact Hin.
      * intros x [->|Hx] Hx2; [apply Hn; apply in_or_app; right; exact Hx2|eauto].
    + intros (H1 & H2 & H3). inversion H1 as [|? ? Hn Hd]; subst. constructor.
      * intros Hin. apply in_app_or in Hin as [Hin|Hin]; [auto|]. apply (H3 a); [left; reflexivity|exact Hin].
      * apply IH. repeat split; [exact Hd|exact H2|]. intros x Hx Hx2. apply (H3 x); [right; exact Hx|exact Hx2].
Qed.

Lemma NoDup_bounded_lenN (l : list N) n : NoDup l -> (forall x, In x l -> x < n) -> lenN l <= n.
Proof.
  intros Hnd Hb. rewrite lenN_length.
  assert (H : (length l <= length (map N.of_nat (seq 0 (N.to_nat n))))%nat).
  { apply NoDup_incl_length; [exact Hnd|]. intros x Hx. apply Hb in Hx.
    apply in_map_iff. exists (N.to_nat x). split; [lia|]. apply in_seq. lia. }
  rewrite map_length, seq_length in H. lia.
Qed.

(* ---- takeN / dropN ---- *)
Lemma lenN_takeN {A} n (l : list A) : lenN (takeN n l) = N.min n (lenN l).
Proof.
  revert n; induction l as [|x l IH]; intros n; cbn [takeN lenN]; [lia|].
  destruct (N.eqb_spec n 0) as [->|Hne]; cbn [lenN]; [lia|]. rewrite IH. lia.
Qed.

Lemma lenN_dropN {A} n (l : list A) : lenN (dropN n l) = lenN l - n.
Proof.
  revert n; induction l as [|x l IH]; intros n; cbn [dropN lenN]; [lia|].
  destruct (N.eqb_spec n 0) as [->|Hne]; cbn [lenN]; [lia|]. rewrite IH. lia.
Qed.

Lemma takeN_dropN_app {A} n (l : list A) : takeN n l ++ dropN n l = l.
Proof.
  revert n; induction l as [|x l IH]; intros n; cbn [takeN dropN]; [reflexivity|].
  destruct (N.eqb_spec n 0) as [->|Hne]; cbn [app]; [reflexivity|]. rewrite IH. reflexivity.
Qed.

Lemma nthN_takeN {A} n (l : list A) i : i < n -> nthN (takeN n l) i = nthN l i.
Proof.
  revert n i; induction l as [|x l IH]; intros n i Hi; cbn [takeN nthN]; [reflexivity|].
  destruct (N.eqb_spec n 0) as [->|Hne]; [lia|]. cbn [nthN].
  destruct (N.eqb_spec i 0); [reflexivity|]. apply IH. lia.
Qed.

Lemma nthN_dropN {A} n (l : list A) i : nthN (dropN n l) i = nthN l (n + i).
Proof.
  revert n i; induction l as [|x l IH]; intros n i; cbn [dropN nthN]; [reflexivity|].
  destruct (N.eqb_spec n 0) as [->|Hne].
  - rewrite N.add_0_l. reflexivity.
  - destruct (N.eqb_spec (n + i) 0); [lia|]. rewrite IH. f_equal. lia.
Qed.

Lemma In_takeN {A} n (l : list A) x : In x (takeN n l) -> In x l.
Proof. intros H. rewrite <- (takeN_dropN_app n l). apply in_or_app. left. exact H. Qed.

Lemma In_dropN {A} n (l : list A) x : In x (dropN n l) -> In x l.
Proof. intros H. rewrite <- (takeN_dropN_app n l). apply in_or_app. right. exact H. Qed.

Lemma In_takeN_or_dropN {A} n (l : list A) x : In x l -> In x (takeN n l) \/ In x (dropN n l).
Proof. intros H. rewrite <- (takeN_dropN_app n l) in H. apply in_app_or in H. exact H. Qed.

Lemma NoDup_takeN {A} n (l : list A) : NoDup l -> NoDup (takeN n l).
Proof. intros H. rewrite <- (takeN_dropN_app n l) in H. apply NoDup_app_iff in H. tauto. Qed.

Lemma NoDup_dropN {A} n (l : list A) : NoDup l -> NoDup (dropN n l).
Proof. intros H. rewrite <- (takeN_dropN_app n l) in H. apply NoDup_app_iff in H. tauto. Qed.

Lemma NoDup_takeN_dropN_disj {A} n (l : list A) x :
  NoDup l -> In x (takeN n l) -> In x (dropN n l) -> False.
Proof. intros H. rewrite <- (takeN_dropN_app n l) in H. apply NoDup_app_iff in H. destruct H as (_ & _ & H). apply H. Qed.

Lemma dropN_ge {A} n (l : list A) : lenN l <= n -> dropN n l = [].
Proof. intros H. apply lenN_nil_inv. rewrite lenN_dropN. lia. Qed.

Lemma takeN_ge {A} n (l : list A) : lenN l <= n -> takeN n l = l.
Proof.
  intros H. pose proof (takeN_dropN_app n l) as E. rewrite (dropN_ge n l H), app_nil_r in E. exact E.
Qed.

Lemma dropN_takeN_nil {A} n (l : list A) : dropN n (takeN n l) = [].
Proof. apply dropN_ge. rewrite lenN_takeN. lia. Qed.

Lemma dropN_0 {A} (l : list A) : dropN 0 l = l.
Proof. destruct l; reflexivity. Qed.

Lemma takeN_0 {A} (l : list A) : takeN 0 l = [].
Proof. destruct l; reflexivity. Qed.

(* ---- lastN / removelastN ---- *)
Lemma lastN_snoc {A} (l : list A) x : lastN (l ++ [x]) = Some x.
Proof.
  induction l as [|y l IH]; cbn [app lastN]; [reflexivity|].
  destruct (l ++ [x]) eqn:E; [destruct l; discriminate|exact IH].
Qed.

Lemma removelastN_snoc {A} (l : list A) x : removelastN (l ++ [x]) = l.
Proof.
  induction l as [|y l IH]; cbn [app removelastN]; [reflexivity|].
  destruct (l ++ [x]) eqn:E; [destruct l; discriminate|]. rewrite IH. reflexivity.
Qed.

Lemma snoc_cases {A} (l : list A) : l = [] \/ exists l' x, l = l' ++ [x].
Proof.
  induction l as [|y l IH]; [left; reflexivity|right].
  destruct IH as [->|(l' & x & ->)]; [exists [], y; reflexivity|exists (y :: l'), x; reflexivity].
Qed.

Lemma lastN_removelastN {A} (l : list A) x : lastN l = Some x -> l = removelastN l ++ [x].
Proof.
  destruct (snoc_cases l) as [->|(l' & y & ->)]; [discriminate|].
  rewrite lastN_snoc, removelastN_snoc. intros [= ->]. reflexivity.
Qed.

Lemma lastN_None {A} (l : list A) : lastN l = None -> l = [].
Proof.
  destruct (snoc_cases l) as [->|(l' & y & ->)]; [reflexivity|]. rewrite lastN_snoc. discriminate.
Qed.

Lemma lastN_nthN {A} (l : list A) : lastN l = nthN l (lenN l - 1).
Proof.
  destruct (snoc_cases l) as [->|(l' & y & ->)]; [reflexivity|].
  rewrite lastN_snoc, lenN_app. cbn [lenN]. replace (lenN l' + N.succ 0 - 1) with (lenN l') by lia.
  rewrite nthN_snoc_last. reflexivity.
Qed.

Lemma lenN_removelastN {A} (l : list A) : lenN (removelastN l) = lenN l - 1.
Proof.
  destruct (snoc_cases l) as [->|(l' & y & ->)]; [reflexivity|].
  rewrite removelastN_snoc, lenN_app. cbn [lenN]. lia.
Qed.

Lemma nthN_removelastN {A} (l : list A) i : i < lenN l - 1 -> nthN (removelastN l) i = nthN l i.
Proof.
  destruct (snoc_cases l) as [->|(l' & y & ->)]; [reflexivity|].
  rewrite removelastN_snoc, lenN_app. cbn [lenN]. intros H. rewrite nthN_app1 by lia. reflexivity.
Qed.

Lemma nthN_ge_None {A} (l : list A) i : lenN l <= i -> nthN l i = None.
Proof.
  intros H. destruct (nthN l i) eqn:E; [|reflexivity]. apply nthN_Some_lt in E. lia.
Qed.

Lemma In_removelastN {A} (l : list A) x : In x (removelastN l) -> In x l.
Proof.
  destruct (snoc_cases l) as [->|(l' & y & ->)]; [intros []|].
  rewrite removelastN_snoc. intros H. apply in_or_app. left. exact H.
Qed.

(* ---- updN ---- *)
Lemma In_updN {A} (l : list A) i v x : In x (updN l i v) -> x = v \/ In x l.
Proof.
  revert i; induction l as [|y l IH]; intros i; cbn [updN]; [intros []|].
  destruct (N.eqb_spec i 0).
  - intros [<-|H]; [left; reflexivity|right; right; exact H].
  - intros [<-|H]; [right; left; reflexivity|]. apply IH in H as [->|H]; [left; reflexivity|right; right; exact H].
Qed.

Lemma map_updN {A B} (f : A -> B) (l : list A) i v : map f (updN l i v) = updN (map f l) i (f v).
Proof.
  revert i; induction l as [|y l IH]; intros i; cbn [updN map]; [reflexivity|].
  destruct (N.eqb i 0); cbn [map]; [reflexivity|]. rewrite IH. reflexivity.
Qed.

Lemma updN_same {A} (l : list A) i v : nthN l i = Some v -> updN l i v = l.
Proof.
  revert i; induction l as [|y l IH]; intros i; cbn [updN nthN]; [reflexivity|].
  destruct (N.eqb i 0); [intros [= ->]; reflexivity|]. intros H. rewrite IH by exact H. reflexivity.
Qed.

Lemma updN_updN {A} (l : list A) i x y : updN (updN l i x) i y = updN l i y.
Proof.
  revert i; induction l as [|z l IH]; intros i; cbn [updN]; [reflexivity|].
  destruct (N.eqb i 0) eqn:E; cbn [updN]; rewrite E; [reflexivity|]. rewrite IH. reflexivity.
Qed.

Lemma nthN_updN {A} (l : list A) i j v :
  nthN (updN l i v) j = if N.eqb j i then (if N.ltb i (lenN l) then Some v else None) else nthN l j.
Proof.
  destruct (N.eqb_spec j i) as [->|Hne].
  - destruct (N.ltb_spec i (lenN l)) as [H|H]; [apply nthN_updN_eq; exact H|].
    rewrite updN_ge by exact H. apply nthN_ge_None. exact H.
  - apply nthN_updN_ne. congruence.
Qed.

Lemma In_nthN_iff {A} (l : list A) x : In x l <-> exists i, nthN l i = Some x.
Proof. split; [apply In_nthN|intros (i & H); eapply nthN_In; exact H]. Qed.

(* ---- repeatN / seqN ---- *)
Lemma repeatN_0 {A} (x : A) : repeatN x 0 = [].
Proof. reflexivity. Qed.

Lemma repeatN_succ {A} (x : A) n : repeatN x (N.succ n) = x :: repeatN x n.
Proof.
  unfold repeatN. rewrite (N.recursion_succ eq); [reflexivity|reflexivity|].
  intros ? ? -> ? ? ->. reflexivity.
Qed.

Lemma lenN_repeatN {A} (x : A) n : lenN (repeatN x n) = n.
Proof.
  induction n as [|n IH] using N.peano_ind; [reflexivity|]. rewrite repeatN_succ. cbn [lenN]. lia.
Qed.

Lemma In_repeatN {A} (x y : A) n : In y (repeatN x n) -> y = x.
Proof.
  induction n as [|n IH] using N.peano_ind; [intros []|]. rewrite repeatN_succ.
  intros [<-|H]; [reflexivity|auto].
Qed.

Lemma nthN_repeatN {A} (x : A) n i : i < n -> nthN (repeatN x n) i = Some x.
Proof.
  intros H. destruct (nthN_lt_Some (repeatN x n) i) as [y Hy]; [rewrite lenN_repeatN; exact H|].
  rewrite Hy. f_equal. eapply In_repeatN. eapply nthN_In. exact Hy.
Qed.

Lemma seqN_0 a : seqN a 0 = [].
Proof. reflexivity. Qed.

Lemma seqN_succ a n : seqN a (N.succ n) = a :: seqN (N.succ a) n.
Proof.
  unfold seqN. rewrite (N.recursion_succ eq); [reflexivity|reflexivity|].
  intros ? ? -> ? ? ->. reflexivity.
Qed.

Lemma lenN_seqN a n : lenN (seqN a n) = n.
Proof.
  revert a; induction n as [|n IH] using N.peano_ind; intros a; [reflexivity|].
  rewrite seqN_succ. cbn [lenN]. rewrite IH. lia.
Qed.

Lemma In_seqN a n x : In x (seqN a n) <-> a <= x < a + n.
Proof.
  revert a; induction n as [|n IH] using N.peano_ind; intros a.
  - rewrite seqN_0. split; [intros []|lia].
  - rewrite seqN_succ. cbn [In]. rewrite IH. lia.
Qed.

Lemma NoDup_seqN a n : NoDup (seqN a n).
Proof.
  revert a; induction n as [|n IH] using N.peano_ind; intros a.
  - rewrite seqN_0. constructor.
  - rewrite seqN_succ. constructor; [|apply IH]. rewrite In_seqN. lia.
Qed.

Lemma nthN_seqN a n i : i < n -> nthN (seqN a n) i = Some (a + i).
Proof.
  revert a i; induction n as [|n IH] using N.peano_ind; intros a i Hi; [lia|].
  rewrite seqN_succ. cbn [nthN]. destruct (N.eqb_spec i 0) as [->|Hne]; [f_equal; lia|].
  rewrite IH by lia. f_equal. lia.
Qed.

(* ---- sumf ---- *)
Lemma sumf_map_const0 {A B} (f : B -> N) (g : A -> B) l : (forall x, f (g x) = 0) -> sumf f (map g l) = 0.
Proof. intros H. induction l as [|x l IH]; cbn [map sumf]; [reflexivity|]. rewrite H, IH. reflexivity. Qed.

Lemma sumf_ge_nth {A} (f : A -> N) l i x : nthN l i = Some x -> f x <= sumf f l.
Proof.
  revert i; induction l as [|y l IH]; intros i; cbn [nthN sumf]; [discriminate|].
  destruct (N.eqb i 0); [intros [= ->]; lia|]. intros H. apply IH in H. lia.
Qed.

Lemma lenN_concat_map {A B} (f : A -> list B) l : lenN (concat (map f l)) = sumf (fun a => lenN (f a)) l.
Proof.
  induction l as [|x l IH]; cbn [map concat sumf lenN]; [reflexivity|]. rewrite lenN_app, IH. reflexivity.
Qed.

Lemma nthN_cons_succ {A} (x : A) l k : nthN (x :: l) (N.succ k) = nthN l k.
Proof. cbn [nthN]. destruct (N.eqb_spec (N.succ k) 0); [lia|]. rewrite N.pred_succ. reflexivity. Qed.

Lemma NoDup_nthN_inj {A} (l : list A) :
  (forall i j x, nthN l i = Some x -> nthN l j = Some x -> i = j) -> NoDup l.
Proof.
  induction l as [|x l IH]; intros H; constructor.
  - intros Hin. apply In_nthN in Hin as (k & Hk).
    assert (E : N.succ k = 0); [|lia].
    apply (H (N.succ k) 0 x); [rewrite nthN_cons_succ; exact Hk|reflexivity].
  - apply IH. intros i j y Hi Hj.
    assert (E : N.succ i = N.succ j); [|lia].
    apply (H (N.succ i) (N.succ j) y); rewrite nthN_cons_succ; assumption.
Qed.

Lemma NoDup_nthN {A} (l : list A) i j x : NoDup l -> nthN l i = Some x -> nthN l j = Some x -> i = j.
Proof.
  intros Hnd. revert i j; induction Hnd as [|y l Hn Hnd IH]; intros i j; cbn [nthN]; [discriminate|].
  destruct (N.eqb_spec i 0) as [->|Hi], (N.eqb_spec j 0) as [->|Hj].
  - reflexivity.
  - intros [= ->] H. exfalso. apply Hn. eapply nthN_In. exact H.
  - intros H [= ->]. exfalso. apply Hn. eapply nthN_In. exact H.
  - intros H1 H2. specialize (IH _ _ H1 H2). lia.
Qed.

Lemma dropN_nth_cons {A} (l : list A) k y : nthN l k = Some y -> dropN k l = y :: dropN (k + 1) l.
Proof.
  revert k; induction l as [|x l IH]; intros k; cbn [nthN dropN]; [discriminate|].
  destruct (N.eqb_spec k 0) as [->|Hk].
  - intros [= ->]. cbn [N.add]. destruct (N.eqb_spec 1 0); [lia|]. cbn [N.pred Pos.pred_N]. rewrite dropN_0. reflexivity.
  - intros H. destruct (N.eqb_spec (k + 1) 0); [lia|]. rewrite (IH _ H). f_equal. f_equal. lia.
Qed.

