(* Refinement proofs, part 5: spawn_at never panics; spawn_column_batch_at refines the map
   semantics and panics only on what its statement excludes *)
From Coq Require Import List NArith ZArith Bool Lia ZifyBool ZifyNat ZifyN Permutation.
From HecsV Require Import Base.ListN Base.ListNFacts Model.EntityBits Model.Types Model.Entities Model.World
  Proofs.MergeSpec Proofs.WorldSpec Proofs.MergeProofs Base.ListNMore Proofs.ListNMore Proofs.WorldLemmas
  Proofs.WorldProofs2 Proofs.WorldSpec3.
Import ListNotations.
Open Scope N_scope.

(* ------------------------------------------------------------------------------------------ *)
(** * spawn_inner never panics for an accepted bundle *)

Lemma bundle_sorted u b : total_inj u -> bundle_ok b -> assert_type_info u (tsort u (b_types b)) = 0.
Proof.
  intros T (Hnd & _). apply tsort_sorted_stmt_proof; [apply total_inj_rank_inj; exact T|exact Hnd].
Qed.

Lemma bundle_archetype_ok u w b :
  total_inj u -> bundle_ok b -> exists w1 aid, bundle_archetype u w b = Done (w1, aid).
Proof.
  intros T Hok. pose proof (bundle_sorted u b T Hok) as Hs. unfold bundle_archetype.
  destruct (b_key b) as [k|].
  - destruct (assoc_list k (w_b2a w)) as [a|]; [eauto|].
    destruct (archs_get_ok u w _ Hs) as (w1 & i & ->). cbn [bind]. eauto.
  - destruct (archs_get_ok u w _ Hs) as (w1 & i & ->). eauto.
Qed.

Lemma spawn_inner_ok holes dang u w h b :
  total_inj u -> WInvP holes dang u w -> bundle_ok b -> exists w', spawn_inner u w h b = Done w'.
Proof.
  intros T P Hok. destruct (bundle_archetype_ok u w b T Hok) as (w1 & aid & Hba).
  destruct (bundle_archetype_spec _ _ _ _ _ _ _ P (proj2 Hok) Hba) as (_ & _ & _ & _ & (a & Ha & Hta) & _).
  assert (Hperm : forall t, In t (a_types a) <-> In t (map fst (b_items b))).
  { intros t. rewrite Hta. unfold b_types. split; intros Hi.
    - eapply Permutation_in; [apply tsort_perm|exact Hi].
    - eapply Permutation_in; [apply Permutation_sym, tsort_perm|exact Hi]. }
  destruct (put_row_ok w1 aid (e_id h) (b_items b) a Ha) as (w2 & i & Hput).
  - unfold all_in. apply forallb_forall. intros t Ht. apply mem_tid_true. apply Hperm. exact Ht.
  - intros t Ht Hn. apply lookup_last_None in Hn. apply Hn. apply Hperm. exact Ht.
  - unfold spawn_inner. rewrite Hba. cbn [bind]. rewrite Hput. cbn [bind]. eauto.
Qed.

(* ------------------------------------------------------------------------------------------ *)
(** * spawn_at never panics *)

Theorem spawn_at_never_panics_proof : spawn_at_never_panics_stmt.
Proof.
  intros u w h b T I F Hok Hv _.
  destruct (w_flush_ok _ _ I) as (w0 & Hfl).
  destruct (w_flush_spec _ _ _ I F Hfl) as (P0 & Hf0 & F0 & _).
  assert (Hal : exists e ol, alloc_at (w_ents w0) h = Done (e, ol)).
  { rewrite alloc_at_eq. pose proof Hf0 as Hf'. unfold flushed in Hf'. rewrite Hf'.
    destruct (alloc_at1 (w_ents w0) (e_id h)) as [e1 l] eqn:H1.
    destruct (alloc_at1_inv _ _ _ _ _ P0 Hf0 H1) as (_ & _ & (m1 & Hm1) & _). rewrite Hm1. eauto. }
  destruct Hal as (e & ol & Hal).
  destruct (alloc_at_inv _ _ _ _ _ P0 Hf0 Hv Hal) as (P1 & _ & _ & _ & Hol).
  unfold w_spawn_at. rewrite Hfl. cbn [bind]. rewrite Hal. cbn [bind].
  destruct ol as [l|].
  - destruct Hol as (m & r & _ & _ & _ & Hr & _).
    destruct (detach_row_ok (with_ents w0 e) l r) as (w2 & Hd); [rewrite row_at_with_ents; exact Hr|].
    rewrite Hd. cbn [bind].
    pose proof (detach_row_inv _ _ _ _ _ _ P1 Hd) as P2.
    destruct (spawn_inner_ok _ _ u w2 h b T P2 Hok) as (w3 & ->). cbn [bind]. eauto.
  - cbn [bind]. destruct (spawn_inner_ok _ _ u (with_ents w0 e) h b T P1 Hok) as (w3 & ->). cbn [bind]. eauto.
Qed.


(* ------------------------------------------------------------------------------------------ *)
(** * the working invariant depends on the hole list only as a set *)

Lemma WInvP_perm holes holes' dang u w :
  Permutation holes holes' -> WInvP holes dang u w -> WInvP holes' dang u w.
Proof.
  intros Hp P. destruct P. constructor; try assumption.
  - eapply Permutation_NoDup; eassumption.
  - intros id Hi. apply wp_hole. eapply Permutation_in; [apply Permutation_sym; exact Hp|exact Hi].
  - intros id m Hm Hh. apply wp_loc; [exact Hm|]. intros Hc. apply Hh. eapply Permutation_in; eassumption.
  - intros l r Hr Hd. destruct (wp_row l r Hr Hd) as (Hn & H). split; [|exact H].
    intros Hc. apply Hn. eapply Permutation_in; [apply Permutation_sym; exact Hp|exact Hc].
  - rewrite (lenN_length holes'), <- (Permutation_length Hp), <- lenN_length. exact wp_len.
Qed.

(* opening the invariant in the presence of other holes *)
Lemma WInvP_open_holes holes u w id m :
  WInvP holes None u w -> nthN (meta (w_ents w)) id = Some m -> ~ In id holes -> l_idx (m_loc m) <> SENT ->
  WInvP (id :: holes) (Some (m_loc m)) u w /\ exists r, row_at w (m_loc m) = Some r /\ r_id r = id.
Proof.
  intros P Hm Hnh Hs.
  destruct (wp_loc _ _ _ _ P id m Hm Hnh) as [(_ & He)|(Hnp & _ & _ & r & Hr & Hid)]; [rewrite He in Hs; contradiction|].
  split; [|eauto]. constructor.
  - apply (wp_nodup _ _ _ _ P).
  - apply (wp_pending_lt _ _ _ _ P).
  - apply (wp_cursor _ _ _ _ P).
  - apply (wp_gen _ _ _ _ P).
  - constructor; [exact Hnh|apply (wp_holes_nodup _ _ _ _ P)].
  - intros id' [<-|Hi]; [|apply (wp_hole _ _ _ _ P _ Hi)]. split; [eapply nthN_Some_lt; exact Hm|exact Hnp].
  - intros id' m' Hm' Hni.
    assert (Hni' : ~ In id' holes) by (intros Hc; apply Hni; right; exact Hc).
    destruct (wp_loc _ _ _ _ P id' m' Hm' Hni') as [H|(H1 & H2 & _ & r' & Hr' & Hid')]; [left; exact H|].
    right. split; [exact H1|]. split; [exact H2|]. split; [|eauto].
    intros [= E]. rewrite E, Hr in Hr'. injection Hr' as <-. apply Hni. left. congruence.
  - intros l r' Hr' Hd. destruct (wp_row _ _ _ _ P l r' Hr') as (Hnh' & m' & Hm' & Hl); [discriminate|].
    split; [|eauto]. intros [E|Hc]; [|contradiction]. rewrite <- E, Hm in Hm'. injection Hm' as <-. congruence.
  - intros l [= <-]. eauto.
  - pose proof (wp_len _ _ _ _ P) as H. cbn [dang_n lenN] in *. lia.
  - apply (wp_rowtypes _ _ _ _ P).
  - apply (wp_rows_lt _ _ _ _ P).
  - apply (wp_static _ _ _ _ P).
Qed.

(* ------------------------------------------------------------------------------------------ *)
(** * alloc_at with other holes around *)

Lemma alloc_at1_holes u w holes id e1 ol :
  WInvP holes None u w -> flushed w -> ~ In id holes -> alloc_at1 (w_ents w) id = (e1, ol) ->
  WInvP (id :: holes) ol u (with_ents w e1) /\ needs_flush e1 = false /\
  (exists m1, nthN (meta e1) id = Some m1 /\ l_idx (m_loc m1) = SENT) /\
  (forall j, j <> id -> j < lenN (meta (w_ents w)) -> nthN (meta e1) j = nthN (meta (w_ents w)) j) /\
  (forall h', e_id h' <> id -> get_mut e1 h' = get_mut (w_ents w) h') /\
  match ol with
  | None => True
  | Some l => l_idx l <> SENT /\ exists r, row_at w l = Some r
  end.
Proof.
  intros P Hf Hnh H. unfold alloc_at1 in H. set (e0 := w_ents w) in *. set (mlen := lenN (meta e0)) in *.
  destruct (N.leb_spec mlen id) as [Hge|Hlt].
  - (* beyond the table *)
    injection H as <- <-.
    set (p := pending e0 ++ seqN mlen (id - mlen)).
    assert (Hlen : lenN (meta e0 ++ repeatN EMPTY_META (id + 1 - mlen)) = id + 1).
    { rewrite lenN_app, lenN_repeatN. fold mlen. lia. }
    assert (Hpl : forall x, In x (pending e0) -> x < mlen) by (apply (wp_pending_lt _ _ _ _ P)).
    assert (Hnew : forall j, mlen <= j -> j < id + 1 ->
              nthN (meta e0 ++ repeatN EMPTY_META (id + 1 - mlen)) j = Some EMPTY_META).
    { intros j H1 H2. rewrite nthN_app2 by (fold mlen; lia). apply nthN_repeatN. fold mlen. lia. }
    split; [|split; [|split; [|split; [|split]]]].
    + constructor; cbn [with_ents w_ents w_archs meta pending cursor elen]; fold p; rewrite ?Hlen.
      * apply NoDup_app_intro; [apply (wp_nodup _ _ _ _ P)|apply NoDup_seqN|].
        intros x H1 H2. apply Hpl in H1. apply In_seqN in H2. lia.
      * intros x Hx. apply in_app_or in Hx as [Hx|Hx]; [apply Hpl in Hx; lia|apply In_seqN in Hx; lia].
      * lia.
      * intros m Hm. apply in_app_or in Hm as [Hm|Hm]; [apply (wp_gen _ _ _ _ P _ Hm)|].
        apply In_repeatN in Hm. subst m. cbn [EMPTY_META m_gen]. unfold W32. lia.
      * constructor; [exact Hnh|apply (wp_holes_nodup _ _ _ _ P)].
      * intros x [<-|Hx].
        -- split; [lia|]. intros Hx.
           apply in_app_or in Hx as [Hx|Hx]; [apply Hpl in Hx; lia|apply In_seqN in Hx; lia].
        -- destruct (wp_hole _ _ _ _ P _ Hx) as (Hx1 & Hx2). fold e0 mlen in Hx1. fold e0 in Hx2.
           split; [lia|]. intros Hc.
           apply in_app_or in Hc as [Hc|Hc]; [contradiction|apply In_seqN in Hc; lia].
      * intros id0 m Hm Hh. assert (Hne : id0 <> id) by (intros ->; apply Hh; left; reflexivity).
        assert (Hh0 : ~ In id0 holes) by (intros Hc; apply Hh; right; exact Hc).
        pose proof (nthN_Some_lt _ _ _ Hm) as Hl0. rewrite Hlen in Hl0.
        destruct (N.lt_ge_cases id0 mlen) as [Hlt0|Hge0].
        -- rewrite nthN_app1 in Hm by exact Hlt0.
           destruct (wp_loc _ _ _ _ P _ _ Hm Hh0) as [(H1 & H2)|(H1 & H2 & H3 & H4)].
           ++ left. split; [apply in_or_app; left; exact H1|exact H2].
           ++ right. split; [|split; [exact H2|split; [discriminate|exact H4]]].
              intros Hx. apply in_app_or in Hx as [Hx|Hx]; [contradiction|apply In_seqN in Hx; lia].
        -- rewrite Hnew in Hm by lia. injection Hm as <-. left. split; [|reflexivity].
           apply in_or_app. right. apply In_seqN. lia.
      * intros l r Hr Hd. rewrite row_at_with_ents in Hr.
        destruct (wp_row _ _ _ _ P _ _ Hr Hd) as (Hnh' & m & Hm & Hl). fold e0 in Hm.
        pose proof (nthN_Some_lt _ _ _ Hm) as Hl0. fold mlen in Hl0. split.
        -- intros [E|Hc]; [lia|contradiction].
        -- exists m. split; [|exact Hl]. rewrite nthN_app1; [exact Hm|exact Hl0].
      * discriminate.
      * pose proof (wp_len _ _ _ _ P) as Hl. fold e0 in Hl. cbn [dang_n lenN] in *. unfold rows_total in *.
        cbn [with_ents w_archs]. lia.
      * apply (wp_rowtypes _ _ _ _ P).
      * apply (wp_rows_lt _ _ _ _ P).
      * apply (wp_static _ _ _ _ P).
    + unfold needs_flush. cbn [cursor pending]. rewrite Z.eqb_refl. reflexivity.
    + cbn [meta]. exists EMPTY_META. split; [apply Hnew; lia|reflexivity].
    + intros j Hne Hj. cbn [meta]. apply nthN_app1. exact Hj.
    + intros h' Hne. cbn [meta]. destruct (N.lt_ge_cases (e_id h') mlen) as [Hlt0|Hge0].
      * apply get_mut_frame. cbn [meta]. apply nthN_app1. exact Hlt0.
      * rewrite (get_mut_nometa e0 h') by (apply nthN_ge_None; exact Hge0).
        destruct (N.lt_ge_cases (e_id h') (id + 1)) as [Hlt1|Hge1].
        -- apply (get_mut_sent _ _ EMPTY_META); [cbn [meta]; apply Hnew; lia|reflexivity].
        -- apply get_mut_nometa. cbn [meta]. apply nthN_ge_None. rewrite Hlen. exact Hge1.
    + exact I.
  - destruct (positionN id (pending e0)) as [i|] eqn:Epos.
    + (* on the free list *)
      injection H as <- <-. apply positionN_Some in Epos.
      pose proof (nthN_In _ _ _ Epos) as Hin.
      destruct (lastN (pending e0)) as [z|] eqn:Elast; [|apply lastN_None in Elast; rewrite Elast in Hin; destruct Hin].
      destruct (swap_remove_spec _ _ _ _ (wp_nodup _ _ _ _ P) Epos Elast) as (Hnd2 & Hin2 & Hlen2).
      assert (Hsw : swap_removeN (pending e0) i = removelastN (updN (pending e0) i z)).
      { unfold swap_removeN. rewrite Elast. reflexivity. }
      rewrite Hsw. set (p := removelastN (updN (pending e0) i z)) in *.
      destruct (nthN_lt_Some _ _ Hlt) as (m & Hm).
      assert (Hloc : m_loc m = EMPTY_LOC).
      { destruct (wp_loc _ _ _ _ P _ _ Hm Hnh) as [(_ & E)|(Hc & _)]; [exact E|contradiction]. }
      split; [|split; [|split; [|split; [|split]]]].
      * constructor; cbn [with_ents w_ents w_archs meta pending cursor elen].
        -- exact Hnd2.
        -- intros x Hx. apply Hin2 in Hx as (Hx & _). apply (wp_pending_lt _ _ _ _ P _ Hx).
        -- lia.
        -- apply (wp_gen _ _ _ _ P).
        -- constructor; [exact Hnh|apply (wp_holes_nodup _ _ _ _ P)].
        -- intros x [<-|Hx].
           ++ split; [exact Hlt|]. intros Hx. apply Hin2 in Hx as (_ & Hx). congruence.
           ++ destruct (wp_hole _ _ _ _ P _ Hx) as (Hx1 & Hx2). split; [exact Hx1|].
              intros Hc. apply Hin2 in Hc as (Hc & _). contradiction.
        -- intros id0 m0 Hm0 Hh. assert (Hne : id0 <> id) by (intros ->; apply Hh; left; reflexivity).
           assert (Hh0 : ~ In id0 holes) by (intros Hc; apply Hh; right; exact Hc).
           destruct (wp_loc _ _ _ _ P _ _ Hm0 Hh0) as [(H1 & H2)|(H1 & H2 & H3 & H4)].
           ++ left. split; [apply Hin2; split; assumption|exact H2].
           ++ right. split; [|split; [exact H2|split; [discriminate|exact H4]]].
              intros Hx. apply Hin2 in Hx as (Hx & _). contradiction.
        -- intros l r Hr Hd. rewrite row_at_with_ents in Hr.
           destruct (WInvP_row_owner _ _ _ _ _ _ P Hr Hd) as (Hnh' & Hnp & _ & Hex). split; [|exact Hex].
           intros [E|Hc]; [|contradiction]. apply Hnp. fold e0. rewrite <- E. exact Hin.
        -- discriminate.
        -- pose proof (wp_len _ _ _ _ P) as Hl. fold e0 in Hl. cbn [dang_n lenN] in *. unfold rows_total in *.
           cbn [with_ents w_archs]. lia.
        -- apply (wp_rowtypes _ _ _ _ P).
        -- apply (wp_rows_lt _ _ _ _ P).
        -- apply (wp_static _ _ _ _ P).
      * unfold needs_flush. cbn [cursor pending]. rewrite Z.eqb_refl. reflexivity.
      * cbn [meta]. exists m. split; [exact Hm|rewrite Hloc; reflexivity].
      * intros j _ _. reflexivity.
      * intros h' _. apply get_mut_frame. reflexivity.
      * exact I.
    + (* a live entity holds the id *)
      apply positionN_None in Epos. destruct (nthN_lt_Some _ _ Hlt) as (m & Hm). rewrite Hm in H.
      injection H as <- <-.
      destruct (wp_loc _ _ _ _ P _ _ Hm Hnh) as [(Hc & _)|(_ & Hs & _ & _)]; [contradiction|].
      destruct (WInvP_open_holes _ _ _ _ _ P Hm Hnh Hs) as (Po & r & Hr & Hrid).
      rewrite (set_loc_as_set_meta _ _ _ _ Hm).
      split; [|split; [|split; [|split; [|split]]]].
      * apply WInvP_set_hole; [exact Po|left; reflexivity|]. cbn [m_gen]. apply (wp_gen _ _ _ _ P _ (nthN_In _ _ _ Hm)).
      * exact Hf.
      * cbn [set_meta meta]. rewrite nthN_updN_eq by exact Hlt. eexists. split; [reflexivity|reflexivity].
      * intros j Hne _. cbn [set_meta meta]. apply nthN_updN_ne. congruence.
      * intros h' Hne. apply get_mut_frame. cbn [set_meta meta]. apply nthN_updN_ne. congruence.
      * split; [exact Hs|eauto].
Qed.

Lemma alloc_at_holes u w holes h e ol :
  WInvP holes None u w -> flushed w -> valid_entity h -> ~ In (e_id h) holes ->
  alloc_at (w_ents w) h = Done (e, ol) ->
  WInvP (e_id h :: holes) ol u (with_ents w e) /\ needs_flush e = false /\
  (exists m1, nthN (meta e) (e_id h) = Some m1 /\ l_idx (m_loc m1) = SENT /\ m_gen m1 = e_gen h) /\
  (forall j, j <> e_id h -> j < lenN (meta (w_ents w)) -> nthN (meta e) j = nthN (meta (w_ents w)) j) /\
  (forall h', e_id h' <> e_id h -> abs (with_ents w e) h' = abs w h') /\
  match ol with
  | None => True
  | Some l => l_idx l <> SENT /\ exists r, row_at w l = Some r
  end.
Proof.
  intros P Hf Hv Hnh H. rewrite alloc_at_eq in H. pose proof Hf as Hf'. unfold flushed in Hf'. rewrite Hf' in H.
  destruct (alloc_at1 (w_ents w) (e_id h)) as [e1 l] eqn:H1.
  destruct (alloc_at1_holes _ _ _ _ _ _ P Hf Hnh H1) as (P1 & Hnf & (m1 & Hm1 & Hs1) & Hkeep & Hoth & Hol).
  rewrite Hm1 in H. injection H as <- <-.
  pose proof (nthN_Some_lt _ _ _ Hm1) as Hlt1.
  split; [|split; [|split; [|split; [|split]]]].
  - apply (WInvP_set_hole _ _ _ _ (e_id h) {| m_gen := e_gen h; m_loc := m_loc m1 |} P1); [left; reflexivity|].
    cbn [m_gen]. apply Hv.
  - exact Hnf.
  - cbn [set_meta meta]. rewrite nthN_updN_eq by exact Hlt1. eexists. split; [reflexivity|]. split; [exact Hs1|reflexivity].
  - intros j Hne Hj. cbn [set_meta meta]. rewrite nthN_updN_ne by congruence. apply Hkeep; assumption.
  - intros h' Hne. apply abs_flushed_get_mut_eq; [exact Hf|exact Hnf|]. rewrite <- (Hoth h' Hne).
    apply get_mut_frame. cbn [set_meta meta]. apply nthN_updN_ne. congruence.
  - exact Hol.
Qed.

Lemma alloc_at_holes_ok u w holes h :
  WInvP holes None u w -> flushed w -> ~ In (e_id h) holes -> exists e ol, alloc_at (w_ents w) h = Done (e, ol).
Proof.
  intros P Hf Hnh. rewrite alloc_at_eq. pose proof Hf as Hf'. unfold flushed in Hf'. rewrite Hf'.
  destruct (alloc_at1 (w_ents w) (e_id h)) as [e1 l] eqn:H1.
  destruct (alloc_at1_holes _ _ _ _ _ _ P Hf Hnh H1) as (_ & _ & (m1 & Hm1 & _) & _). rewrite Hm1. eauto.
Qed.

(* ------------------------------------------------------------------------------------------ *)
(** * replace_handles: the ids processed so far are holes whose location is the placeholder *)

Definition holes_sent (holes : list N) (w : world) : Prop :=
  forall id, In id holes -> exists m, nthN (meta (w_ents w)) id = Some m /\ l_idx (m_loc m) = SENT.

(* an id met a second time: alloc_at reports the placeholder location and the assert fires *)
Lemma alloc_at_on_hole u w holes h :
  WInvP holes None u w -> flushed w -> holes_sent holes w -> In (e_id h) holes ->
  exists e l, alloc_at (w_ents w) h = Done (e, Some l) /\ l_idx l = SENT.
Proof.
  intros P Hf HS Hin. destruct (HS _ Hin) as (m & Hm & Hs). destruct (wp_hole _ _ _ _ P _ Hin) as (Hlt & Hnp).
  rewrite alloc_at_eq. pose proof Hf as Hf'. unfold flushed in Hf'. rewrite Hf'.
  assert (H1 : alloc_at1 (w_ents w) (e_id h) = (set_loc (w_ents w) (e_id h) EMPTY_LOC, Some (m_loc m))).
  { unfold alloc_at1. destruct (N.leb_spec (lenN (meta (w_ents w))) (e_id h)) as [Hc|_]; [lia|].
    destruct (positionN (e_id h) (pending (w_ents w))) as [i|] eqn:Epos.
    - exfalso. apply positionN_Some in Epos. apply Hnp. eapply nthN_In. exact Epos.
    - rewrite Hm. reflexivity. }
  rewrite H1. cbv beta iota. rewrite (set_loc_nth_eq _ _ _ _ Hm). eexists _, _. split; [reflexivity|exact Hs].
Qed.

(* one round of the loop for an id not met before *)
Lemma replace_step u w holes h e ol :
  WInvP holes None u w -> flushed w -> holes_sent holes w -> valid_entity h -> ~ In (e_id h) holes ->
  alloc_at (w_ents w) h = Done (e, ol) ->
  exists w',
    match ol with
    | None => w' = with_ents w e
    | Some l => l_idx l <> SENT /\ exists r, detach_row (with_ents w e) l = Done (w', r)
    end /\
    WInvP (e_id h :: holes) None u w' /\ flushed w' /\ holes_sent (e_id h :: holes) w' /\
    gen_of (w_ents w') (e_id h) = e_gen h /\
    (forall j, In j holes -> nthN (meta (w_ents w')) j = nthN (meta (w_ents w)) j) /\
    (forall h', e_id h' <> e_id h -> ~ In (e_id h') holes -> abs w' h' = abs w h').
Proof.
  intros P Hf HS Hv Hnh Hal.
  destruct (alloc_at_holes _ _ _ _ _ _ P Hf Hv Hnh Hal) as (P1 & Hnf & (m1 & Hm1 & Hs1 & Hg1) & Hkeep & Habs & Hol).
  assert (Hkeep' : forall j, In j holes -> nthN (meta e) j = nthN (meta (w_ents w)) j).
  { intros j Hj. apply Hkeep; [intros ->; contradiction|apply (wp_hole _ _ _ _ P _ Hj)]. }
  assert (HS1 : holes_sent (e_id h :: holes) (with_ents w e)).
  { intros j [<-|Hj]; cbn [with_ents w_ents]; [exists m1; auto|].
    destruct (HS j Hj) as (m & Hm & Hs). exists m. rewrite (Hkeep' j Hj). auto. }
  assert (Hgen1 : gen_of e (e_id h) = e_gen h) by (unfold gen_of; rewrite Hm1; exact Hg1).
  destruct ol as [l|].
  - destruct Hol as (Hs & r & Hr).
    destruct (detach_row_ok (with_ents w e) l r) as (w' & Hd); [rewrite row_at_with_ents; exact Hr|].
    exists w'. split; [split; [exact Hs|eauto]|].
    pose proof (detach_row_inv _ _ _ _ _ _ P1 Hd) as P2.
    destruct (detach_row_ents _ _ _ _ _ _ P1 Hd) as (_ & _ & _ & _ & Hnf2 & Hg2 & Hholes & _).
    cbn [with_ents w_ents] in Hnf2, Hg2, Hholes.
    split; [exact P2|]. split; [unfold flushed; rewrite Hnf2; exact Hnf|]. split; [|split; [|split]].
    + intros j Hj. rewrite (Hholes j Hj). apply (HS1 j Hj).
    + rewrite Hg2. exact Hgen1.
    + intros j Hj. rewrite (Hholes j (or_intror Hj)). apply Hkeep'. exact Hj.
    + intros h' Hne Hnh'. rewrite (detach_row_abs _ _ _ _ _ _ h' P1 Hd); [apply Habs; exact Hne|].
      intros [E|Hc]; [congruence|contradiction].
  - exists (with_ents w e). split; [reflexivity|]. split; [exact P1|]. split; [exact Hnf|]. split; [exact HS1|].
    split; [exact Hgen1|]. split; [exact Hkeep'|]. intros h' Hne _. apply Habs. exact Hne.
Qed.

Lemma replace_handles_spec u : forall hs w holes d0,
  WInvP holes None u w -> flushed w -> holes_sent holes w -> Forall valid_entity hs ->
  match replace_handles w hs d0 with
  | (w1, None, _) =>
      NoDup (map e_id hs) /\ (forall id, In id (map e_id hs) -> ~ In id holes) /\
      WInvP (rev (map e_id hs) ++ holes) None u w1 /\ flushed w1 /\
      (forall h, In h hs -> gen_of (w_ents w1) (e_id h) = e_gen h) /\
      (forall j, In j holes -> nthN (meta (w_ents w1)) j = nthN (meta (w_ents w)) j) /\
      (forall h', ~ In (e_id h') (map e_id hs) -> ~ In (e_id h') holes -> abs w1 h' = abs w h')
  | (_, Some p, _) =>
      p = P_ASSERT /\ ~ (NoDup (map e_id hs) /\ forall id, In id (map e_id hs) -> ~ In id holes)
  end.
Proof.
  induction hs as [|h r IH]; intros w holes d0 P Hf HS Hv; cbn [replace_handles].
  - cbn [map rev app]. split; [constructor|]. split; [intros id []|]. split; [exact P|]. split; [exact Hf|].
    split; [intros h []|]. split; reflexivity.
  - inversion Hv as [|x l Hvh Hvr]; subst.
    destruct (in_dec N.eq_dec (e_id h) holes) as [Hin|Hnin].
    + destruct (alloc_at_on_hole _ _ _ h P Hf HS Hin) as (e & l & -> & Hs). rewrite Hs, N.eqb_refl.
      split; [reflexivity|]. intros (_ & Hc). apply (Hc (e_id h)); [left; reflexivity|exact Hin].
    + destruct (alloc_at_holes_ok _ _ _ h P Hf Hnin) as (e & ol & Hal). rewrite Hal.
      destruct (replace_step _ _ _ _ _ _ P Hf HS Hvh Hnin Hal) as (w' & Hmid & P' & Hf' & HS' & Hg' & Hkeep' & Habs').
      assert (Hfin : forall dX,
        match replace_handles w' r dX with
        | (w1, None, _) =>
            NoDup (map e_id (h :: r)) /\ (forall id, In id (map e_id (h :: r)) -> ~ In id holes) /\
            WInvP (rev (map e_id (h :: r)) ++ holes) None u w1 /\ flushed w1 /\
            (forall h0, In h0 (h :: r) -> gen_of (w_ents w1) (e_id h0) = e_gen h0) /\
            (forall j, In j holes -> nthN (meta (w_ents w1)) j = nthN (meta (w_ents w)) j) /\
            (forall h', ~ In (e_id h') (map e_id (h :: r)) -> ~ In (e_id h') holes -> abs w1 h' = abs w h')
        | (_, Some p, _) =>
            p = P_ASSERT /\ ~ (NoDup (map e_id (h :: r)) /\ forall id, In id (map e_id (h :: r)) -> ~ In id holes)
        end).
      { intros dX. specialize (IH w' (e_id h :: holes) dX P' Hf' HS' Hvr).
        destruct (replace_handles w' r dX) as [[w1 [p|]] d].
        - destruct IH as (-> & Hneg). split; [reflexivity|]. intros (Hnd & Hdis). apply Hneg. cbn [map] in Hnd, Hdis.
          inversion Hnd as [|x l Hx Hnd']; subst. split; [exact Hnd'|].
          intros id Hid [<-|Hc]; [contradiction|]. apply (Hdis id (or_intror Hid) Hc).
        - destruct IH as (Hnd & Hdis & P1 & Hf1 & Hg1 & Hk1 & Ha1). cbn [map rev].
          split; [constructor; [intros Hc; apply (Hdis _ Hc); left; reflexivity|exact Hnd]|].
          split; [intros id [<-|Hid]; [exact Hnin|intros Hc; apply (Hdis id Hid); right; exact Hc]|].
          split; [rewrite <- app_assoc; exact P1|]. split; [exact Hf1|]. split; [|split].
          + intros h0 [<-|Hh0]; [|apply Hg1; exact Hh0].
            unfold gen_of. rewrite (Hk1 _ (or_introl eq_refl)). exact Hg'.
          + intros j Hj. rewrite (Hk1 j (or_intror Hj)). apply Hkeep'. exact Hj.
          + intros h' Hn1 Hn2. rewrite Ha1.
            * apply Habs'; [intros E; apply Hn1; left; symmetry; exact E|exact Hn2].
            * intros Hc. apply Hn1. right. exact Hc.
            * intros [E|Hc]; [apply Hn1; left; exact E|contradiction]. }
      destruct ol as [l|].
      * destruct Hmid as (Hs & r0 & Hd). destruct (N.eqb_spec (l_idx l) SENT) as [Hc|_]; [contradiction|].
        rewrite Hd. apply Hfin.
      * subst w'. apply Hfin.
Qed.

(* ------------------------------------------------------------------------------------------ *)
(** * insert_batch and set_handle_locs with holes *)

Lemma insert_batch_holes holes u w types rows w1 aid base :
  WInvP holes None u w -> assert_type_info u types = 0 -> insert_batch w types rows = Done (w1, aid, base) ->
  exists wA a0, WInvP holes None u wA /\ w_ents wA = w_ents w /\ (forall h, abs wA h = abs w h) /\
    nthN (w_archs wA) aid = Some a0 /\ a_types a0 = types /\ base = lenN (a_rows a0) /\
    w1 = upd_arch wA aid {| a_types := types; a_rows := a_rows a0 ++ rows |}.
Proof.
  intros P Hs H. unfold insert_batch in H.
  destruct (assoc_list types (w_index w)) as [x|] eqn:Ei.
  - destruct (WStatic_index_inv _ _ _ _ (wp_static _ _ _ _ P) Ei) as (a & Ha & Hta).
    unfold get_arch in H. rewrite Ha in H. cbn [bind] in H. injection H as <- <- <-.
    subst types. exists w, a. split; [exact P|]. split; [reflexivity|]. split; [reflexivity|].
    split; [exact Ha|]. split; [reflexivity|]. split; reflexivity.
  - injection H as <- <- <-. exists (add_arch w types), {| a_types := types; a_rows := [] |}.
    split; [apply WInvP_add_arch; assumption|]. split; [reflexivity|].
    split; [intros h; apply abs_frame_rows; [reflexivity|apply row_at_add_arch]|].
    split; [cbn [add_arch w_archs]; apply nthN_snoc_last|]. split; [reflexivity|]. split; [reflexivity|].
    unfold upd_arch, with_archs, add_arch. cbn [w_ents w_archs w_index w_b2a w_ins w_rem a_rows app].
    rewrite updN_middle. reflexivity.
Qed.

Lemma insert_batch_ok u w types rows :
  WStatic u w -> exists w1 aid base, insert_batch w types rows = Done (w1, aid, base).
Proof.
  intros S. unfold insert_batch. destruct (assoc_list types (w_index w)) as [x|] eqn:Ei; [|eauto].
  destruct (WStatic_index_inv _ _ _ _ S Ei) as (a & Ha & _). unfold get_arch. rewrite Ha. cbn [bind]. eauto.
Qed.

Lemma set_handle_locs_eq aid : forall hs e idx,
  set_handle_locs e hs aid idx = set_locs e (map e_id hs) aid idx.
Proof. induction hs as [|h r IH]; intros e idx; cbn [set_handle_locs set_locs map]; [reflexivity|apply IH]. Qed.

Lemma set_locs_frame arch : forall ids e first,
  pending (set_locs e ids arch first) = pending e /\ cursor (set_locs e ids arch first) = cursor e /\
  lenN (meta (set_locs e ids arch first)) = lenN (meta e).
Proof.
  induction ids as [|id r IH]; intros e first; cbn [set_locs]; [auto|].
  destruct (IH (set_loc e id {| l_arch := arch; l_idx := first |}) (N.succ first)) as (H1 & H2 & H3).
  rewrite H1, H2, H3, set_loc_pending, set_loc_cursor, set_loc_lenN_meta. auto.
Qed.

(* ------------------------------------------------------------------------------------------ *)
(** * spawn_column_batch_at *)

Lemma holes_sent_nil w : holes_sent [] w.
Proof. intros id []. Qed.

Theorem column_batch_at_refines_proof : column_batch_at_refines_stmt.
Proof.
  intros u w hs types vals w' d _ I F Hs Hty Hv Hnd H F'.
  unfold w_spawn_column_batch_at in H.
  destruct (w_flush w) as [w0|c] eqn:Hfl; [|discriminate].
  destruct (w_flush_spec _ _ _ I F Hfl) as (P0 & Hf0 & F0 & Habs0 & _).
  destruct (N.eqb_spec (lenN hs) (lenN vals)) as [Hlen|Hlen]; cbn [negb] in H; [|discriminate].
  pose proof (replace_handles_spec u hs w0 [] [] P0 Hf0 (holes_sent_nil w0) Hv) as R.
  destruct (replace_handles w0 hs []) as [[w1 [c|]] d1]; [discriminate|].
  destruct R as (_ & _ & P1 & Hf1 & Hg1 & _ & Ha1). rewrite app_nil_r in P1.
  apply (WInvP_perm _ (map e_id hs)) in P1; [|apply Permutation_sym, Permutation_rev].
  destruct (insert_batch w1 types (zip_rows (map e_id hs) vals)) as [[[w2 aid] base]|c] eqn:Hib; [|discriminate].
  injection H as <- <-.
  destruct (insert_batch_holes _ _ _ _ _ _ _ _ P1 Hs Hib) as (wA & a0 & PA & HeA & HabsA & Ha0 & Hta0 & -> & ->).
  set (ids := map e_id hs) in *.
  assert (Hw' : with_ents (upd_arch wA aid {| a_types := types; a_rows := a_rows a0 ++ zip_rows ids vals |})
                  (set_handle_locs (w_ents (upd_arch wA aid {| a_types := types; a_rows := a_rows a0 ++ zip_rows ids vals |}))
                     hs aid (lenN (a_rows a0))) = fillN wA aid a0 ids vals).
  { unfold fillN. rewrite w_ents_upd_arch, set_handle_locs_eq, Hta0. reflexivity. }
  rewrite Hw' in *. clear Hw'.
  assert (Hlen' : lenN ids = lenN vals) by (unfold ids; rewrite lenN_map; exact Hlen).
  destruct (set_locs_frame aid ids (w_ents wA) (lenN (a_rows a0))) as (Sp & Sc & Sl).
  assert (Hb : lenN (meta (w_ents wA)) <= SENT).
  { pose proof (fits_meta_lt _ F') as Hm. unfold fillN in Hm. cbn [with_ents w_ents] in Hm. rewrite Sl in Hm. lia. }
  destruct (fillN_inv u aid ids vals wA a0 Hlen' PA Ha0 ltac:(rewrite Hta0; exact Hty) Hb) as (P2 & Hother & Hself).
  split; [apply WInvP_WInv; exact P2|]. split; [|split; [|split]].
  - unfold flushed, needs_flush, fillN. cbn [with_ents w_ents]. rewrite Sp, Sc, HeA. exact Hf1.
  - intros i h v Hi Hvv.
    assert (Hi' : nthN ids i = Some (e_id h)) by (unfold ids; rewrite nthN_map, Hi; reflexivity).
    rewrite (Hself i (e_id h) v h Hi' Hvv eq_refl), HeA, (Hg1 h (nthN_In _ _ _ Hi)), N.eqb_refl. reflexivity.
  - intros h' Hni. rewrite (Hother h' Hni), HabsA, Ha1; [apply Habs0|exact Hni|intros []].
  - intros h' Hin Hnin. apply In_nthN in Hin as (i & Hi).
    assert (Hiv : i < lenN vals) by (rewrite <- Hlen'; eapply nthN_Some_lt; exact Hi).
    destruct (nthN_lt_Some _ _ Hiv) as (v & Hvv).
    rewrite (Hself i (e_id h') v h' Hi Hvv eq_refl), HeA.
    unfold ids in Hi. rewrite nthN_map in Hi. destruct (nthN hs i) as [h|] eqn:Eh; [|discriminate].
    cbn [option_map] in Hi. injection Hi as Hid. rewrite <- Hid, (Hg1 h (nthN_In _ _ _ Eh)).
    destruct (N.eqb_spec (e_gen h) (e_gen h')) as [E|E]; [|reflexivity].
    exfalso. apply Hnin. rewrite <- (entity_ext h h' Hid E). eapply nthN_In. exact Eh.
Qed.

Theorem column_batch_at_total_proof : column_batch_at_total_stmt.
Proof.
  intros u w hs types vals _ I F Hs Hty Hv _.
  unfold w_spawn_column_batch_at. destruct (w_flush_ok _ _ I) as (w0 & Hfl). rewrite Hfl.
  destruct (w_flush_spec _ _ _ I F Hfl) as (P0 & Hf0 & _).
  destruct (N.eqb_spec (lenN hs) (lenN vals)) as [Hlen|Hlen]; cbn [negb].
  2: { split; [reflexivity|left; exact Hlen]. }
  pose proof (replace_handles_spec u hs w0 [] [] P0 Hf0 (holes_sent_nil w0) Hv) as R.
  destruct (replace_handles w0 hs []) as [[w1 [c|]] d1].
  - destruct R as (-> & Hneg). split; [reflexivity|]. right. intros Hnd. apply Hneg. split; [exact Hnd|intros id _ []].
  - destruct R as (Hnd & _ & P1 & _).
    destruct (insert_batch_ok u w1 types (zip_rows (map e_id hs) vals) (wp_static _ _ _ _ P1)) as (w2 & aid & base & ->).
    split; assumption.
Qed.

Print Assumptions spawn_at_never_panics_proof.
Print Assumptions column_batch_at_refines_proof.
Print Assumptions column_batch_at_total_proof.
