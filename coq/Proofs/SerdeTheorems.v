(* Closing the serde theorems with the id-targeted spawn theorems of WorldProofs5.v. *)
From Coq Require Import List NArith.
From HecsV Require Import Proofs.WorldSpec Proofs.WorldSpec3 Proofs.SerdeSpec Proofs.SerdeProofs Proofs.WorldProofs5.

(* with the u32 conditions in [ctx_ok] the round trips hold; closed with the totality / refinement
   theorems of the id-targeted spawns (WorldProofs5.v) *)
Theorem c14_roundtrip_row_proof : c14_roundtrip_row_stmt.
Proof.
  intros u H w q reader Hu (Hn & H32 & _) I F Hf S.
  exact (c14_roundtrip_row_weakened spawn_at_never_panics_proof u H w q reader Hu Hn H32 I F Hf S).
Qed.
Theorem c14_roundtrip_col_proof : c14_roundtrip_col_stmt.
Proof.
  intros u H w q reader Hu (Hn & H32 & Hl) I F Hf S.
  exact (c14_roundtrip_col_weakened column_batch_at_refines_proof column_batch_at_total_proof u H w q reader Hu Hn H32 Hl I F Hf S).
Qed.
Theorem c15_total_row_proof : c15_total_row_stmt.
Proof. exact (c15_total_row_from spawn_at_never_panics_proof). Qed.
Theorem c15_total_col_proof : c15_total_col_stmt.
Proof. exact (c15_total_col_from column_batch_at_refines_proof column_batch_at_total_proof). Qed.

