(* C11: CommandBuffer.  Proofs of the statements of Proofs/ContSpec.v:
     c11_ranges_proof, c11_clear_proof                (Proofs/ContRec.v, re-exported here)
     c11_replay_proof                                 (replay = direct application)
     c11_conservation_from_world_weakened             (value conservation, parametric in the world's C03 theorems)
   Helper files: ContRec.v (recording invariant [wf]), ContMono.v (the id-space measure [idm] never
   shrinks), ContRun.v (cm_run unfoldings, conservation loop), ContMemo.v (memo tables / bundle order
   are invisible: [meq], [w_spawn_meq], [w_insert_meq], [w_remove_meq], [w_despawn_meq]). *)
From Coq Require Import List NArith ZArith Bool Lia ZifyBool ZifyNat ZifyN Permutation.
From HecsV Require Import Base.ListN Base.ListNFacts Base.ListNMore Model.EntityBits Model.Types Model.Entities
  Model.World Model.Containers Proofs.WorldSpec Proofs.WorldSpec2 Proofs.ContSpec
  Proofs.WorldProofs1 Proofs.WorldProofs2 Proofs.WorldProofs3 Proofs.WorldProofs4
  Proofs.ContRec Proofs.ContMono Proofs.ContRun Proofs.ContMemo.
Import ListNotations.
Open Scope N_scope.

(* ------------------------------------------------------------------------------------------ *)
(** * ranges and clear: proved in ContRec.v *)
Theorem c11_ranges_proof : c11_ranges_stmt.
Proof. exact c11_ranges_holds. Qed.

Theorem c11_clear_proof : c11_clear_stmt.
Proof. exact c11_clear_holds. Qed.

(* ------------------------------------------------------------------------------------------ *)
(** * conservation *)
(* [c11_conservation_stmt] cannot be derived as stated: its only id-space hypothesis is [fits w] for
   the initial world, while both [spawn_refines_stmt] (needed to keep [WInv] along the run) and the
   premise [c03_spawn_stmt] require [fits] of the world AFTER each spawn; a spawn that allocates the
   last id (meta length 2^32-1 -> 2^32) succeeds and leaves a world that does not fit.  The minimal
   extra hypothesis is that the world the replay ends with (or is left with when a command panics)
   fits: the measure behind [fits] never shrinks (ContMono.v), so all intermediate worlds fit. *)
Theorem c11_conservation_from_world_weakened :
  c03_spawn_stmt -> c03_insert_stmt -> c03_remove_stmt -> c03_despawn_stmt ->
  forall u w ops, total_inj u -> WInv u w -> fits w -> Forall rop_ok ops ->
    let c := fold_left (record u) ops cmdbuf_new in
    let '(wr, c', spawned, dropped, p) := cm_run_on u w c in
    fits wr ->
    Permutation (stored w ++ concat (map rop_items ops)) (stored wr ++ dropped ++ cm_live_values c').
Proof.
  intros Csp Cin Crm Cde u w ops Hu I F Hok c.
  pose proof (recorded_wf u ops) as W. cbn zeta in W. fold c in W.
  unfold cm_run_on. destruct (cm_run u _ w c 0 (cm_cmds c) [] []) as [[[[wr c'] sp'] dr'] p] eqn:E.
  intros Fr.
  destruct (conservation_loop u Csp Cin Crm Cde Hu _ _ _ _ W Hok _ [] c 0 w [] [] wr c' sp' dr' p
              (Nat.lt_succ_diag_r _) eq_refl eq_refl (Forall_nil _) E) as (_ & H).
  apply (H Fr I).
Qed.

(* the same under a hypothesis on the inputs only: the ids in use plus one per recorded command stay
   below the documented limit (only spawn consumes id space, one id per call) *)
Theorem c11_conservation_from_world_bounded :
  c03_spawn_stmt -> c03_insert_stmt -> c03_remove_stmt -> c03_despawn_stmt ->
  forall u w ops, total_inj u -> WInv u w -> Forall rop_ok ops ->
    lenN (meta (w_ents w)) + Z.to_N (Z.max 0 (- cursor (w_ents w))) + lenN ops < SENT ->
    let c := fold_left (record u) ops cmdbuf_new in
    let '(wr, c', spawned, dropped, p) := cm_run_on u w c in
    Permutation (stored w ++ concat (map rop_items ops)) (stored wr ++ dropped ++ cm_live_values c').
Proof.
  intros Csp Cin Crm Cde u w ops Hu I Hok Hb c.
  assert (F : fits w) by (unfold fits; lia).
  pose proof (c11_conservation_from_world_weakened Csp Cin Crm Cde u w ops Hu I F Hok) as H. cbn zeta in H. fold c in H.
  pose proof (recorded_wf u ops) as W. cbn zeta in W. fold c in W. apply wf_len in W.
  unfold cm_run_on in *. destruct (cm_run u _ w c 0 (cm_cmds c) [] []) as [[[[wr c'] sp'] dr'] p] eqn:E.
  apply H. apply cm_run_idm_ub in E. unfold fits. unfold idm in E. lia.
Qed.

(* ------------------------------------------------------------------------------------------ *)
(** * replay = direct application *)
Lemma direct_panic u ops p : fold_left (direct_step u) ops (Panic p) = Panic p.
Proof. induction ops as [|o ops IH]; [reflexivity|]. cbn [fold_left direct_step]. exact IH. Qed.

Lemma direct_idm u : forall ops w sp dr wd spd drd,
  fold_left (direct_step u) ops (Done (w, sp, dr)) = Done (wd, spd, drd) -> idm (w_ents w) <= idm (w_ents wd).
Proof.
  induction ops as [|o ops IH]; intros w sp dr wd spd drd H; cbn [fold_left] in H.
  - injection H as <- _ _. lia.
  - destruct o as [b|h b|h k ts|h]; cbn [direct_step] in H.
    + destruct (w_spawn u w b) as [[w' h]|pc] eqn:E; [|rewrite direct_panic in H; discriminate].
      apply IH in H. apply idm_w_spawn in E. lia.
    + destruct (w_insert u w h b) as [[w' r]|pc] eqn:E; [|rewrite direct_panic in H; discriminate].
      apply idm_w_insert in E. destruct r; apply IH in H; lia.
    + destruct (w_remove u w h k ts) as [[w' r]|pc] eqn:E; [|rewrite direct_panic in H; discriminate].
      apply idm_w_remove in E. destruct r; apply IH in H; lia.
    + destruct (w_despawn w h) as [[w' r]|pc] eqn:E; [|rewrite direct_panic in H; discriminate].
      apply idm_w_despawn in E. destruct r; apply IH in H; lia.
Qed.

Lemma bundle_ok_key_ok b : bundle_ok b -> key_ok b.
Proof. intros (_ & H). exact H. Qed.

Lemma replay_bsim u recs b0 :
  total_inj u -> bundle_ok b0 -> slice_ok u recs (b_items b0) ->
  bsim u b0 {| b_key := None; b_items := map kv recs |}.
Proof.
  intros Hu (Hnd & _) (P & _). apply bsim_perm; [exact Hu|exact Hnd|]. cbn [b_items]. apply Permutation_sym. exact P.
Qed.

Definition run_done (c c' : cmdbuf) : Prop :=
  cm_cmds c' = [] /\ cm_comps c' = [] /\ ar_cursor (cm_arena c') = 0 /\ ar_size (cm_arena c') = ar_size (cm_arena c).

Lemma replay_loop u : total_inj u ->
  forall cmds ops off rest, wf u cmds ops off rest -> Forall rop_ok ops ->
  forall fuel pre c i w1 w2 sp dr1 dr2 wd spd drd wr c' spr drr p,
    (length cmds < fuel)%nat -> cm_comps c = pre ++ rest -> lenN pre = off ->
    meq w1 w2 -> WInv u w1 -> WInv u w2 -> Permutation dr2 dr1 ->
    fold_left (direct_step u) ops (Done (w1, sp, dr1)) = Done (wd, spd, drd) -> fits wd ->
    cm_run u fuel w2 c i cmds sp dr2 = (wr, c', spr, drr, p) ->
    p = None /\ spr = spd /\ meq wd wr /\ Permutation drr drd /\ run_done c c'.
Proof.
  intros Hu.
  induction cmds as [|x cmds IH]; intros [|o ops] off rest W Hok fuel pre c i w1 w2 sp dr1 dr2 wd spd drd wr c' spr drr p
    Hfuel Hc Hp M I1 I2 Pd Hdir Fd Hrun; cbn [wf] in W; try contradiction;
    (destruct fuel as [|f]; [cbn [length] in Hfuel; lia|]).
  - rewrite cm_run_nil in Hrun. injection Hrun as <- <- <- <- <-. cbn [fold_left] in Hdir.
    injection Hdir as <- <- <-. split; [reflexivity|]. split; [reflexivity|]. split; [exact M|]. split; [exact Pd|].
    unfold run_done. cbn [cleared cm_cmds cm_comps cm_arena ar_cursor ar_size]. auto.
  - destruct W as (recs & rest' & -> & R & (T & Sl) & W).
    inversion Hok as [|? ? Ho Hok']; subst. clear Hok. cbn [length] in Hfuel. cbn [fold_left] in Hdir.
    assert (Hdone : forall c1, cm_arena c1 = cm_arena c -> forall c2, run_done c1 c2 -> run_done c c2).
    { intros c1 E c2 (A & B & C & D). unfold run_done. rewrite <- E. auto. }
    destruct x as [[h|] s n|h k ts|h], o as [b0|h' b0|h' k' ts'|h']; cbn [tag_match] in T; try contradiction.
    + (* insert *)
      subst h'. cbn [rop_ok rop_items] in Ho, Sl. cbn [direct_step] in Hdir.
      destruct (replay_bundle_at c s n _ pre recs rest' (or_intror (ex_intro _ h eq_refl)) R Hc) as (Hb & Hc').
      pose proof (slice_bundle_ok _ _ _ Sl Ho) as Hbok. pose proof (replay_bsim _ _ _ Hu Ho Sl) as Hsim.
      rewrite cm_run_insert, Hb in Hrun. cbn [b_items] in Hrun.
      assert (Hcc : cm_comps (consume c i s n) = (pre ++ map kill recs) ++ rest') by exact Hc'.
      assert (Hll : lenN (pre ++ map kill recs) = lenN pre + lenN recs) by (rewrite lenN_app, lenN_map; lia).
      destruct (w_insert u w1 h b0) as [[w1' r1]|pc] eqn:E1; [|rewrite direct_panic in Hdir; discriminate].
      assert (F1' : fits w1').
      { destruct r1; apply direct_idm in Hdir; (eapply fits_mono; [|exact Fd]); exact Hdir. }
      assert (F1 : fits w1) by (eapply fits_mono; [|exact F1']; eapply idm_w_insert; exact E1).
      pose proof (w_insert_meq u w1 w2 h b0 _ M I1 I2 F1 (bundle_ok_key_ok _ Ho) (bundle_ok_key_ok _ Hbok) Hsim) as Hrel.
      rewrite E1 in Hrel. destruct (w_insert u w2 h _) as [[w2' r2]|pc] eqn:E2; cbn [orel] in Hrel; [|contradiction].
      destruct Hrel as (M' & Er). cbn [fst snd] in M', Er. subst r2.
      destruct (insert_refines_proof _ _ _ _ _ _ Hu I1 F1 Ho E1) as (I1' & _).
      destruct (insert_refines_proof _ _ _ _ _ _ Hu I2 (fits_meq _ _ M F1) Hbok E2) as (I2' & _).
      destruct Sl as (P & _).
      assert (Hgo : forall d1 d2, Permutation d2 d1 ->
                fold_left (direct_step u) ops (Done (w1', sp, d1)) = Done (wd, spd, drd) ->
                cm_run u f w2' (consume c i s n) (N.succ i) cmds sp d2 = (wr, c', spr, drr, p) ->
                p = None /\ spr = spd /\ meq wd wr /\ Permutation drr drd /\ run_done c c').
      { intros d1 d2 Pd' Hd' Hr'.
        destruct (IH _ _ _ W Hok' f _ _ _ _ _ _ _ _ _ _ _ _ _ _ _ _ ltac:(lia) Hcc Hll M' I1' I2' Pd' Hd' Fd Hr')
          as (A & B & C & D & E). split; [exact A|]. split; [exact B|]. split; [exact C|]. split; [exact D|]. eapply Hdone; [|exact E]. reflexivity. }
      destruct r1 as [d| |].
      * apply (Hgo _ _ (Permutation_app_tail _ Pd) Hdir Hrun).
      * apply (Hgo _ _ (Permutation_app Pd P) Hdir Hrun).
      * apply (Hgo _ _ (Permutation_app Pd P) Hdir Hrun).
    + (* spawn *)
      cbn [rop_ok rop_items] in Ho, Sl. cbn [direct_step] in Hdir.
      destruct (replay_bundle_at c s n _ pre recs rest' (or_introl eq_refl) R Hc) as (Hb & Hc').
      pose proof (slice_bundle_ok _ _ _ Sl Ho) as Hbok. pose proof (replay_bsim _ _ _ Hu Ho Sl) as Hsim.
      rewrite cm_run_spawn, Hb in Hrun. cbn [b_items] in Hrun.
      assert (Hcc : cm_comps (consume c i s n) = (pre ++ map kill recs) ++ rest') by exact Hc'.
      assert (Hll : lenN (pre ++ map kill recs) = lenN pre + lenN recs) by (rewrite lenN_app, lenN_map; lia).
      destruct (w_spawn u w1 b0) as [[w1' h1]|pc] eqn:E1; [|rewrite direct_panic in Hdir; discriminate].
      assert (F1' : fits w1') by (apply direct_idm in Hdir; eapply fits_mono; [|exact Fd]; exact Hdir).
      assert (F1 : fits w1) by (eapply fits_mono; [|exact F1']; eapply idm_w_spawn; exact E1).
      pose proof (w_spawn_meq u w1 w2 b0 _ M I1 I2 F1 (bundle_ok_key_ok _ Ho) (bundle_ok_key_ok _ Hbok) Hsim) as Hrel.
      rewrite E1 in Hrel. destruct (w_spawn u w2 _) as [[w2' h2]|pc] eqn:E2; cbn [orel] in Hrel; [|contradiction].
      destruct Hrel as (M' & Er). cbn [fst snd] in M', Er. subst h2.
      destruct (spawn_refines_proof _ _ _ _ _ Hu I1 F1 Ho E1 F1') as (I1' & _).
      destruct (spawn_refines_proof _ _ _ _ _ Hu I2 (fits_meq _ _ M F1) Hbok E2 (fits_meq _ _ M' F1')) as (I2' & _).
      destruct (IH _ _ _ W Hok' f _ _ _ _ _ _ _ _ _ _ _ _ _ _ _ _ ltac:(lia) Hcc Hll M' I1' I2' Pd Hdir Fd Hrun)
        as (A & B & C & D & E). split; [exact A|]. split; [exact B|]. split; [exact C|]. split; [exact D|]. eapply Hdone; [|exact E]. reflexivity.
    + (* remove *)
      destruct T as (<- & <- & <-). cbn [range_at] in R. subst recs. cbn [app] in *. cbn [rop_ok] in Ho.
      destruct Ho as (Hnd & Htl). rewrite N.add_0_r in W. cbn [direct_step] in Hdir.
      rewrite cm_run_remove in Hrun.
      assert (Hcc : cm_comps (blank c i) = pre ++ rest') by exact Hc.
      destruct (w_remove u w1 h k ts) as [[w1' r1]|pc] eqn:E1; [|rewrite direct_panic in Hdir; discriminate].
      assert (F1' : fits w1').
      { destruct r1; apply direct_idm in Hdir; (eapply fits_mono; [|exact Fd]); exact Hdir. }
      assert (F1 : fits w1) by (eapply fits_mono; [|exact F1']; eapply idm_w_remove; exact E1).
      pose proof (w_remove_meq u w1 w2 h k ts M I1 I2 F1 Htl) as Hrel.
      rewrite E1 in Hrel. destruct (w_remove u w2 h k ts) as [[w2' r2]|pc] eqn:E2; cbn [orel] in Hrel; [|contradiction].
      destruct Hrel as (M' & Er). cbn [fst snd] in M', Er. subst r2.
      destruct (remove_refines_proof _ _ _ _ _ _ _ Hu I1 F1 Hnd Htl E1) as (I1' & _).
      destruct (remove_refines_proof _ _ _ _ _ _ _ Hu I2 (fits_meq _ _ M F1) Hnd Htl E2) as (I2' & _).
      assert (Hgo : forall d1 d2, Permutation d2 d1 ->
                fold_left (direct_step u) ops (Done (w1', sp, d1)) = Done (wd, spd, drd) ->
                cm_run u f w2' (blank c i) (N.succ i) cmds sp d2 = (wr, c', spr, drr, p) ->
                p = None /\ spr = spd /\ meq wd wr /\ Permutation drr drd /\ run_done c c').
      { intros d1 d2 Pd' Hd' Hr'.
        destruct (IH _ _ _ W Hok' f _ _ _ _ _ _ _ _ _ _ _ _ _ _ _ _ ltac:(lia) Hcc eq_refl M' I1' I2' Pd' Hd' Fd Hr')
          as (A & B & C & D & E). split; [exact A|]. split; [exact B|]. split; [exact C|]. split; [exact D|]. eapply Hdone; [|exact E]. reflexivity. }
      destruct r1 as [d| |].
      * apply (Hgo _ _ (Permutation_app_tail _ Pd) Hdir Hrun).
      * apply (Hgo _ _ Pd Hdir Hrun).
      * apply (Hgo _ _ Pd Hdir Hrun).
    + (* despawn *)
      subst h'. cbn [range_at] in R. subst recs. cbn [app] in *. rewrite N.add_0_r in W. cbn [direct_step] in Hdir.
      rewrite cm_run_despawn in Hrun.
      assert (Hcc : cm_comps (blank c i) = pre ++ rest') by exact Hc.
      destruct (w_despawn w1 h) as [[w1' r1]|pc] eqn:E1; [|rewrite direct_panic in Hdir; discriminate].
      assert (F1' : fits w1').
      { destruct r1; apply direct_idm in Hdir; (eapply fits_mono; [|exact Fd]); exact Hdir. }
      assert (F1 : fits w1) by (eapply fits_mono; [|exact F1']; eapply idm_w_despawn; exact E1).
      pose proof (w_despawn_meq w1 w2 h M) as Hrel.
      rewrite E1 in Hrel. destruct (w_despawn w2 h) as [[w2' r2]|pc] eqn:E2; cbn [orel] in Hrel; [|contradiction].
      destruct Hrel as (M' & Er). cbn [fst snd] in M', Er. subst r2.
      destruct (despawn_refines_proof _ _ _ _ _ I1 F1 E1) as (I1' & _).
      destruct (despawn_refines_proof _ _ _ _ _ I2 (fits_meq _ _ M F1) E2) as (I2' & _).
      assert (Hgo : forall d1 d2, Permutation d2 d1 ->
                fold_left (direct_step u) ops (Done (w1', sp, d1)) = Done (wd, spd, drd) ->
                cm_run u f w2' (blank c i) (N.succ i) cmds sp d2 = (wr, c', spr, drr, p) ->
                p = None /\ spr = spd /\ meq wd wr /\ Permutation drr drd /\ run_done c c').
      { intros d1 d2 Pd' Hd' Hr'.
        destruct (IH _ _ _ W Hok' f _ _ _ _ _ _ _ _ _ _ _ _ _ _ _ _ ltac:(lia) Hcc eq_refl M' I1' I2' Pd' Hd' Fd Hr')
          as (A & B & C & D & E). split; [exact A|]. split; [exact B|]. split; [exact C|]. split; [exact D|]. eapply Hdone; [|exact E]. reflexivity. }
      destruct r1 as [d| |].
      * apply (Hgo _ _ (Permutation_app_tail _ Pd) Hdir Hrun).
      * apply (Hgo _ _ Pd Hdir Hrun).
      * apply (Hgo _ _ Pd Hdir Hrun).
Qed.

Theorem c11_replay_proof : c11_replay_stmt.
Proof.
  intros u w ops wd spd drd Hu I F Hok Hdir Hfit c.
  pose proof (recorded_wf u ops) as W. cbn zeta in W. fold c in W.
  unfold cm_run_on. destruct (cm_run u _ w c 0 (cm_cmds c) [] []) as [[[[wr c'] spr] drr] p] eqn:E.
  destruct (replay_loop u Hu _ _ _ _ W Hok _ [] c 0 w w [] [] [] wd spd drd wr c' spr drr p
              (Nat.lt_succ_diag_r _) eq_refl eq_refl (meq_refl w) I I (Permutation_refl _) Hdir
              (Hfit wd (or_introl eq_refl)) E) as (A & B & (M1 & M2 & M3) & D & (E1 & E2 & E3 & E4)).
  repeat split; try assumption.
  intros h. apply abs_memo; [symmetry; exact M1|symmetry; exact M2].
Qed.

Print Assumptions c11_ranges_proof.
Print Assumptions c11_clear_proof.
Print Assumptions c11_conservation_from_world_weakened.
Print Assumptions c11_conservation_from_world_bounded.
Print Assumptions c11_replay_proof.
