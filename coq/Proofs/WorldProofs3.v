(* Refinement proofs, part 3: insert (refinement and panic freedom) and exchange.
   Structure:
     1. association-list facts (lookup_first / lookup_last / lookup_all / overwrite / all_in)
     2. the memo tables: adding an insert edge / a remove edge keeps the static invariant
     3. get_insert_target / insert_target under the invariant; what a [target_ok] target is
     4. overwriting a row in place
     5. insert_inner (shared by insert and exchange; [gone] = source types already removed)
     6. remove_target
     7. the theorems *)
From Coq Require Import List NArith ZArith Bool Lia ZifyBool ZifyNat ZifyN Permutation.
From HecsV Require Import Base.ListN Base.ListNFacts Model.EntityBits Model.Types Model.Entities Model.World
  Proofs.WorldSpec Proofs.MergeSpec Proofs.ListNMore Proofs.MergeProofs Proofs.WorldLemmas.
Import ListNotations.
Open Scope N_scope.

(* ------------------------------------------------------------------------------------------ *)
(** * 1. association lists *)

Lemma lookup_first_None t (l : list (tid * val)) : lookup_first t l = None <-> ~ In t (map fst l).
Proof.
  induction l as [|[t' v'] l IH]; cbn [lookup_first map fst In]; [tauto|].
  destruct (N.eqb_spec t t') as [->|Hne].
  - split; [discriminate|]. intros H. exfalso. apply H. left. reflexivity.
  - rewrite IH. split; [intros H [E|E]; [congruence|contradiction]|intros H E; apply H; right; exact E].
Qed.

Lemma lookup_first_Some_fst t v (l : list (tid * val)) : lookup_first t l = Some v -> In t (map fst l).
Proof.
  intros H. destruct (in_dec N.eq_dec t (map fst l)) as [Hin|Hin]; [exact Hin|].
  apply lookup_first_None in Hin. congruence.
Qed.

Lemma lookup_first_fst_Some t (l : list (tid * val)) : In t (map fst l) -> exists v, lookup_first t l = Some v.
Proof.
  intros H. destruct (lookup_first t l) as [v|] eqn:E; [eauto|]. apply lookup_first_None in E. contradiction.
Qed.

Lemma lookup_last_None t (l : list (tid * val)) : lookup_last t l = None <-> ~ In t (map fst l).
Proof.
  induction l as [|[t' v'] l IH]; cbn [lookup_last map fst In]; [tauto|].
  destruct (lookup_last t l) as [v|] eqn:E.
  - split; [discriminate|]. intros H. exfalso. apply H. right.
    destruct (in_dec N.eq_dec t (map fst l)) as [Hin|Hin]; [exact Hin|]. apply (proj2 IH) in Hin. discriminate.
  - destruct (N.eqb_spec t t') as [->|Hne].
    + split; [discriminate|]. intros H. exfalso. apply H. left. reflexivity.
    + split; [|reflexivity]. intros _ [E1|E1]; [congruence|]. apply (proj1 IH eq_refl). exact E1.
Qed.

Lemma lookup_last_nodup t (l : list (tid * val)) : NoDup (map fst l) -> lookup_last t l = lookup_first t l.
Proof.
  induction l as [|[t' v'] l IH]; cbn [lookup_last lookup_first map fst]; [reflexivity|].
  intros Hnd. inversion Hnd as [|x y Hni Hnd']; subst. rewrite (IH Hnd').
  destruct (N.eqb_spec t t') as [->|Hne].
  - apply lookup_first_None in Hni. rewrite Hni. reflexivity.
  - destruct (lookup_first t l); reflexivity.
Qed.

Lemma lookup_last_app t (a b : list (tid * val)) :
  lookup_last t (a ++ b) = match lookup_last t b with Some v => Some v | None => lookup_last t a end.
Proof.
  induction a as [|[t' v'] a IH]; cbn [app lookup_last].
  - destruct (lookup_last t b); reflexivity.
  - rewrite IH. destruct (lookup_last t b); reflexivity.
Qed.

Lemma lookup_first_In_nodup t v (l : list (tid * val)) :
  NoDup (map fst l) -> (In (t, v) l <-> lookup_first t l = Some v).
Proof.
  induction l as [|[t' v'] l IH]; cbn [lookup_first map fst In]; intros Hnd.
  - split; [intros []|discriminate].
  - inversion Hnd as [|x y Hni Hnd']; subst. destruct (N.eqb_spec t t') as [->|Hne].
    + split.
      * intros [E|Hin]; [injection E as ->; reflexivity|]. exfalso. apply Hni.
        change t' with (fst (t', v)). apply in_map. exact Hin.
      * intros [= ->]. left. reflexivity.
    + rewrite <- (IH Hnd'). split; [intros [E|Hin]; [congruence|exact Hin]|intros Hin; right; exact Hin].
Qed.

(* lookup_all: the values of the listed types, in the listed order *)
Lemma lookup_all_fst ts (vals l : list (tid * val)) : lookup_all ts vals = Some l -> map fst l = ts.
Proof.
  revert l; induction ts as [|t ts IH]; intros l; cbn [lookup_all]; [intros [= <-]; reflexivity|].
  destruct (lookup_first t vals) as [v|]; [|discriminate].
  destruct (lookup_all ts vals) as [l'|]; [|discriminate]. intros [= <-]. cbn [map fst]. rewrite (IH _ eq_refl). reflexivity.
Qed.

Lemma lookup_all_In ts (vals l : list (tid * val)) t v :
  lookup_all ts vals = Some l -> (In (t, v) l <-> In t ts /\ lookup_first t vals = Some v).
Proof.
  revert l; induction ts as [|t0 ts IH]; intros l; cbn [lookup_all].
  - intros [= <-]. cbn [In]. tauto.
  - destruct (lookup_first t0 vals) as [v0|] eqn:E0; [|discriminate].
    destruct (lookup_all ts vals) as [l'|]; [|discriminate]. intros [= <-]. cbn [In]. rewrite (IH _ eq_refl).
    split.
    + intros [[= -> ->]|(H1 & H2)]; [auto|auto].
    + intros ([->|H1] & H2); [left; congruence|right; auto].
Qed.

Lemma lookup_all_ok ts (vals : list (tid * val)) :
  (forall t, In t ts -> In t (map fst vals)) -> exists l, lookup_all ts vals = Some l.
Proof.
  induction ts as [|t ts IH]; intros H; cbn [lookup_all]; [eauto|].
  destruct (lookup_first_fst_Some t vals) as (v & ->); [apply H; left; reflexivity|].
  destruct IH as (l & ->); [intros t' Ht'; apply H; right; exact Ht'|]. eauto.
Qed.

Lemma lookup_all_None ts (vals : list (tid * val)) :
  lookup_all ts vals = None -> exists t, In t ts /\ lookup_first t vals = None.
Proof.
  induction ts as [|t ts IH]; cbn [lookup_all]; [discriminate|].
  destruct (lookup_first t vals) as [v|] eqn:E; [|intros _; exists t; split; [left; reflexivity|exact E]].
  destruct (lookup_all ts vals) as [l|]; [discriminate|]. intros _.
  destruct (IH eq_refl) as (t' & H1 & H2). exists t'. split; [right; exact H1|exact H2].
Qed.

Lemma lookup_all_lookup ts (vals l : list (tid * val)) t :
  lookup_all ts vals = Some l -> lookup_first t l = if mem_tid t ts then lookup_first t vals else None.
Proof.
  unfold mem_tid. revert l; induction ts as [|t0 ts IH]; intros l; cbn [lookup_all memN].
  - intros [= <-]. reflexivity.
  - destruct (lookup_first t0 vals) as [v0|] eqn:E0; [|discriminate].
    destruct (lookup_all ts vals) as [l'|]; [|discriminate]. intros [= <-]. cbn [lookup_first].
    destruct (N.eqb_spec t t0) as [->|Hne]; [symmetry; exact E0|]. apply IH. reflexivity.
Qed.

(* overwrite: same columns, new values where the bundle has one *)
Lemma overwrite_fst (vals items : list (tid * val)) : map fst (overwrite vals items) = map fst vals.
Proof.
  induction vals as [|[t v] vals IH]; cbn [overwrite map fst]; [reflexivity|]. rewrite IH. reflexivity.
Qed.

Lemma overwrite_lookup t (vals items : list (tid * val)) :
  lookup_first t (overwrite vals items) =
  match lookup_first t vals with
  | Some v => Some (match lookup_last t items with Some v' => v' | None => v end)
  | None => None
  end.
Proof.
  induction vals as [|[t' v] vals IH]; cbn [overwrite lookup_first]; [reflexivity|].
  destruct (N.eqb_spec t t') as [->|Hne]; [reflexivity|exact IH].
Qed.

Lemma all_in_spec ts types : all_in ts types = true <-> (forall t, In t ts -> In t types).
Proof.
  unfold all_in. rewrite forallb_forall. split; intros H t Ht; [apply mem_tid_true|apply mem_tid_true]; auto.
Qed.

Lemma mem_tid_nil t : mem_tid t [] = false.
Proof. reflexivity. Qed.

(* ------------------------------------------------------------------------------------------ *)
(** * 2. memoising an edge *)

Definition add_ins (w : world) (src : N) (k : bkey) (t : itarget) : world :=
  {| w_ents := w_ents w; w_archs := w_archs w; w_index := w_index w; w_b2a := w_b2a w;
     w_ins := ((src, k), t) :: w_ins w; w_rem := w_rem w |}.

Definition add_rem (w : world) (src : N) (k : bkey) (i : N) : world :=
  {| w_ents := w_ents w; w_archs := w_archs w; w_index := w_index w; w_b2a := w_b2a w;
     w_ins := w_ins w; w_rem := ((src, k), i) :: w_rem w |}.

Lemma WStatic_add_ins u w src k t :
  WStatic u w -> target_ok u w src (tl k) t -> WStatic u (add_ins w src k t).
Proof.
  intros S H. apply target_ok_D in H. unfold WStatic in *. change (atypes (add_ins w src k t)) with (atypes w).
  cbn [add_ins w_index w_b2a w_ins w_rem]. destruct S. constructor; try assumption.
  intros src' k' t' Hk'. cbn [assoc_pair] in Hk'.
  destruct (N.eqb_spec src' src) as [->|Hne]; cbn [andb] in Hk'; [|auto].
  destruct (list_eqb k' k) eqn:E; [|auto]. apply list_eqb_eq in E. subst k'. injection Hk' as <-. exact H.
Qed.

Lemma WStatic_add_rem u w src k i a :
  WStatic u w -> nthN (w_archs w) src = Some a ->
  assoc_list (filter (fun x => negb (mem_tid x (tl k))) (a_types a)) (w_index w) = Some i ->
  WStatic u (add_rem w src k i).
Proof.
  intros S Ha H. unfold WStatic in *. change (atypes (add_rem w src k i)) with (atypes w).
  cbn [add_rem w_index w_b2a w_ins w_rem]. destruct S. constructor; try assumption.
  intros src' k' i' Hk'. cbn [assoc_pair] in Hk'.
  destruct (N.eqb_spec src' src) as [->|Hne]; cbn [andb] in Hk'; [|auto].
  destruct (list_eqb k' k) eqn:E; [|auto]. apply list_eqb_eq in E. subst k'. injection Hk' as <-.
  exists (a_types a). rewrite nthN_atypes, Ha. split; [reflexivity|exact H].
Qed.

(* a world that differs only in the memo tables *)
Lemma WInvP_memo holes dang u w w' :
  w_ents w' = w_ents w -> w_archs w' = w_archs w -> WStatic u w' -> WInvP holes dang u w -> WInvP holes dang u w'.
Proof.
  intros He Ha S P. apply (WInvP_frame holes dang u w); try assumption.
  - intros l. unfold row_at. rewrite Ha. reflexivity.
  - unfold rows_total. rewrite Ha. reflexivity.
  - intros a H. left. rewrite <- Ha. exact H.
Qed.

Lemma abs_memo w w' h : w_ents w' = w_ents w -> w_archs w' = w_archs w -> abs w' h = abs w h.
Proof. intros He Ha. apply abs_frame_rows; [exact He|]. intros l. unfold row_at. rewrite Ha. reflexivity. Qed.

(* ------------------------------------------------------------------------------------------ *)
(** * 3. get_insert_target / insert_target *)

Lemma total_inj_rank_inj u l : total_inj u -> rank_inj u l.
Proof. intros H a b _ _. apply H. Qed.

Lemma get_insert_target_spec holes dang u w origin b oa :
  total_inj u -> WInvP holes dang u w -> NoDup (b_types b) -> nthN (w_archs w) origin = Some oa ->
  exists w1 t, get_insert_target u w origin b = Done (w1, t) /\
    WInvP holes dang u w1 /\ w_ents w1 = w_ents w /\ (forall l, row_at w1 l = row_at w l) /\
    (forall h, abs w1 h = abs w h) /\
    (forall j a, nthN (w_archs w) j = Some a -> nthN (w_archs w1) j = Some a) /\
    target_ok u w1 origin (b_types b) t.
Proof.
  intros TI P Hnd Ha. pose proof (wp_static _ _ _ _ P) as S.
  unfold get_insert_target, get_arch. rewrite Ha. cbn [bind].
  assert (Hs : assert_type_info u (tsort u (b_types b)) = 0).
  { apply tsort_sorted_stmt_proof; [apply total_inj_rank_inj; exact TI|exact Hnd]. }
  assert (Hso : assert_type_info u (a_types oa) = 0).
  { apply (WStatic_sorted _ _ _ S). eapply nthN_In. exact Ha. }
  rewrite Hs.
  pose proof (insert_target_types_stmt_proof u (a_types oa) (tsort u (b_types b))
                (total_inj_rank_inj _ _ TI) Hso Hs) as Hit.
  destruct (merge_loop u (a_types oa) (tsort u (b_types b)) (a_types oa) [] [] [])
    as [[[rest added] replaced] retained] eqn:Em.
  cbv zeta in Hit. destruct Hit as (Hinfo & _).
  destruct (archs_get_ok u w _ Hinfo) as (w1 & i & Eg). rewrite Eg. cbn [bind].
  destruct (archs_get_spec _ _ _ _ _ _ _ P Eg) as (P1 & He & Hr & Habs & _ & Hix & _ & Hmono & _).
  eexists. eexists. split; [reflexivity|].
  split; [exact P1|]. split; [exact He|]. split; [exact Hr|]. split; [exact Habs|]. split; [exact Hmono|].
  exists oa. split; [apply Hmono; exact Ha|]. split; [exact Hs|]. rewrite Em. cbn [it_replaced it_retained it_index].
  auto.
Qed.

Lemma insert_target_spec holes dang u w origin b oa :
  total_inj u -> WInvP holes dang u w -> bundle_ok b -> nthN (w_archs w) origin = Some oa ->
  exists w1 t, insert_target u w origin b = Done (w1, t) /\
    WInvP holes dang u w1 /\ w_ents w1 = w_ents w /\ (forall l, row_at w1 l = row_at w l) /\
    (forall h, abs w1 h = abs w h) /\
    (forall j a, nthN (w_archs w) j = Some a -> nthN (w_archs w1) j = Some a) /\
    target_ok u w1 origin (b_types b) t.
Proof.
  intros TI P (Hnd & Hk) Ha. unfold insert_target. destruct (b_key b) as [k|] eqn:Ek.
  - specialize (Hk k eq_refl).
    destruct (assoc_pair origin k (w_ins w)) as [t|] eqn:Ec.
    + exists w, t. split; [reflexivity|]. split; [exact P|]. repeat split; auto.
      apply target_ok_D. rewrite <- Hk. apply (ws_ins _ _ _ _ _ _ (wp_static _ _ _ _ P) _ _ _ Ec).
    + destruct (get_insert_target_spec _ _ _ _ _ _ _ TI P Hnd Ha) as (w1 & t & -> & P1 & He & Hr & Habs & Hmono & Ht).
      cbn [bind]. fold (add_ins w1 origin k t). eexists. eexists. split; [reflexivity|].
      split; [|split; [exact He|split; [exact Hr|split; [|split; [exact Hmono|exact Ht]]]]].
      * apply (WInvP_memo holes dang u w1); try reflexivity; [|exact P1].
        apply WStatic_add_ins; [apply (wp_static _ _ _ _ P1)|]. pose proof Ht as Ht'. rewrite <- Hk in Ht'. exact Ht'.
      * intros h. rewrite <- Habs. apply abs_memo; reflexivity.
  - apply (get_insert_target_spec _ _ _ _ _ _ _ TI P Hnd Ha).
Qed.

Lemma In_tsort u x l : In x (tsort u l) <-> In x l.
Proof.
  split; intros H.
  - eapply Permutation_in; [apply tsort_perm|exact H].
  - eapply Permutation_in; [apply Permutation_sym, tsort_perm|exact H].
Qed.

(* what a (cached or computed) insert target is, in terms of sets of types *)
Lemma target_ok_facts u w origin ts t oa :
  total_inj u -> WStatic u w -> nthN (w_archs w) origin = Some oa -> target_ok u w origin ts t ->
  exists ta, nthN (w_archs w) (it_index t) = Some ta /\
    (forall x, In x (a_types ta) <-> In x (a_types oa) \/ In x ts) /\
    (forall x, In x (it_replaced t) <-> In x (a_types oa) /\ In x ts) /\
    (forall x, In x (it_retained t) <-> In x (a_types oa) /\ ~ In x ts) /\
    NoDup (it_replaced t) /\ NoDup (it_retained t).
Proof.
  intros TI S Ha (a & Ha' & Hs & H). rewrite Ha in Ha'. injection Ha' as <-.
  assert (Hso : assert_type_info u (a_types oa) = 0).
  { apply (WStatic_sorted _ _ _ S). eapply nthN_In. exact Ha. }
  pose proof (insert_target_types_stmt_proof u (a_types oa) (tsort u ts) (total_inj_rank_inj _ _ TI) Hso Hs) as Hit.
  pose proof (merge_spec_stmt_proof u (a_types oa) (tsort u ts) (total_inj_rank_inj _ _ TI) Hso Hs) as Hms.
  destruct (merge_loop u (a_types oa) (tsort u ts) (a_types oa) [] [] []) as [[[rest added] replaced] retained] eqn:Em.
  cbv zeta in Hit. destruct H as (H1 & H2 & H3). destruct Hit as (_ & Hinfo & Hrep & Hret).
  destruct Hms as (Mrep & _ & Mret).
  destruct (WStatic_index_inv _ _ _ _ S H3) as (ta & Hta & Htt). exists ta.
  split; [exact Hta|]. split; [|split; [|split; [|split]]].
  - intros x. rewrite Htt, Hinfo, In_tsort. tauto.
  - intros x. rewrite H1, Hrep, In_tsort. tauto.
  - intros x. rewrite H2, Hret, In_tsort. tauto.
  - rewrite H1, Mrep. apply NoDup_filter_tid. apply (sorted_nodup_stmt_proof u). exact Hs.
  - rewrite H2, Mret. apply NoDup_filter_tid. apply (sorted_nodup_stmt_proof u). exact Hso.
Qed.

(* ------------------------------------------------------------------------------------------ *)
(** * 4. overwriting a row in place *)

Definition set_row (w : world) (l : loc) (a : arch) (r' : row) : world :=
  upd_arch w (l_arch l) {| a_types := a_types a; a_rows := updN (a_rows a) (l_idx l) r' |}.

Lemma row_at_arch_idx w l a : nthN (w_archs w) (l_arch l) = Some a -> row_at w l = nthN (a_rows a) (l_idx l).
Proof. intros Ha. unfold row_at. rewrite Ha. reflexivity. Qed.

Lemma set_row_row_at w l a r r' l1 :
  nthN (w_archs w) (l_arch l) = Some a -> nthN (a_rows a) (l_idx l) = Some r ->
  row_at (set_row w l a r') l1 =
  if N.eqb (l_arch l1) (l_arch l) && N.eqb (l_idx l1) (l_idx l) then Some r' else row_at w l1.
Proof.
  intros Ha Hr. unfold set_row. rewrite (row_at_upd_arch _ _ _ _ _ Ha). cbn [a_rows].
  destruct (N.eqb_spec (l_arch l1) (l_arch l)) as [E|E]; cbn [andb]; [|reflexivity].
  rewrite nthN_updN. destruct (N.eqb_spec (l_idx l1) (l_idx l)) as [E2|E2].
  - apply nthN_Some_lt in Hr. destruct (N.ltb_spec (l_idx l) (lenN (a_rows a))); [reflexivity|lia].
  - unfold row_at. rewrite E, Ha. reflexivity.
Qed.

Lemma set_row_fwd w l a r r' l1 r1 :
  nthN (w_archs w) (l_arch l) = Some a -> nthN (a_rows a) (l_idx l) = Some r -> r_id r' = r_id r ->
  row_at w l1 = Some r1 -> exists r1', row_at (set_row w l a r') l1 = Some r1' /\ r_id r1' = r_id r1.
Proof.
  intros Ha Hr Hid H1. rewrite (set_row_row_at _ _ _ _ _ _ Ha Hr).
  destruct (N.eqb_spec (l_arch l1) (l_arch l)) as [E|E]; cbn [andb]; [|eauto].
  destruct (N.eqb_spec (l_idx l1) (l_idx l)) as [E2|E2]; [|eauto].
  assert (l1 = l) by (apply loc_ext; assumption). subst l1.
  rewrite (row_at_arch_idx _ _ _ Ha), Hr in H1. injection H1 as <-. eauto.
Qed.

Lemma set_row_bwd w l a r r' l1 r1' :
  nthN (w_archs w) (l_arch l) = Some a -> nthN (a_rows a) (l_idx l) = Some r -> r_id r' = r_id r ->
  row_at (set_row w l a r') l1 = Some r1' -> exists r1, row_at w l1 = Some r1 /\ r_id r1 = r_id r1'.
Proof.
  intros Ha Hr Hid H1. rewrite (set_row_row_at _ _ _ _ _ _ Ha Hr) in H1. revert H1.
  destruct (N.eqb_spec (l_arch l1) (l_arch l)) as [E|E]; cbn [andb]; [|eauto].
  destruct (N.eqb_spec (l_idx l1) (l_idx l)) as [E2|E2]; [|eauto].
  assert (l1 = l) by (apply loc_ext; assumption). subst l1. intros [= <-].
  exists r. rewrite (row_at_arch_idx _ _ _ Ha). auto.
Qed.

Lemma set_row_inv holes dang u w l a r r' :
  WInvP holes dang u w -> nthN (w_archs w) (l_arch l) = Some a -> nthN (a_rows a) (l_idx l) = Some r ->
  r_id r' = r_id r -> map fst (r_vals r') = map fst (r_vals r) ->
  WInvP holes dang u (set_row w l a r').
Proof.
  intros P Ha Hr Hid Hty.
  assert (He : w_ents (set_row w l a r') = w_ents w) by reflexivity.
  constructor; rewrite ?He.
  - apply (wp_nodup _ _ _ _ P).
  - apply (wp_pending_lt _ _ _ _ P).
  - apply (wp_cursor _ _ _ _ P).
  - apply (wp_gen _ _ _ _ P).
  - apply (wp_holes_nodup _ _ _ _ P).
  - apply (wp_hole _ _ _ _ P).
  - intros id m Hm Hh. destruct (wp_loc _ _ _ _ P id m Hm Hh) as [H|(H1 & H2 & H3 & r1 & Hr1 & Hid1)]; [left; exact H|].
    right. repeat split; try assumption.
    destruct (set_row_fwd _ _ _ _ r' _ _ Ha Hr Hid Hr1) as (r1' & Hr1' & Hid1'). exists r1'. split; [exact Hr1'|congruence].
  - intros l1 r1' Hr1' Hd. destruct (set_row_bwd _ _ _ _ _ _ _ Ha Hr Hid Hr1') as (r1 & Hr1 & Hid1).
    rewrite <- Hid1. apply (wp_row _ _ _ _ P _ _ Hr1 Hd).
  - intros l1 Hl1. destruct (wp_dang _ _ _ _ P l1 Hl1) as (r1 & Hr1).
    destruct (set_row_fwd _ _ _ _ r' _ _ Ha Hr Hid Hr1) as (r1' & Hr1' & _). eauto.
  - pose proof (wp_len _ _ _ _ P) as Hl. unfold rows_total, set_row in *.
    cbn [upd_arch with_archs w_archs].
    pose proof (sumf_updN (fun a => lenN (a_rows a)) (w_archs w) (l_arch l) a
                  {| a_types := a_types a; a_rows := updN (a_rows a) (l_idx l) r' |} Ha) as Hs.
    cbn [a_rows] in Hs. rewrite lenN_updN in Hs. lia.
  - intros a1 r1 Ha1 Hr1. unfold set_row in Ha1. cbn [upd_arch with_archs w_archs] in Ha1.
    apply In_updN in Ha1 as [->|Ha1]; [|apply (wp_rowtypes _ _ _ _ P _ _ Ha1 Hr1)].
    cbn [a_rows a_types] in *. assert (Hina : In a (w_archs w)) by (eapply nthN_In; exact Ha).
    apply In_updN in Hr1 as [->|Hr1]; [|apply (wp_rowtypes _ _ _ _ P _ _ Hina Hr1)].
    rewrite Hty. apply (wp_rowtypes _ _ _ _ P _ _ Hina). eapply nthN_In. exact Hr.
  - intros a1 Ha1. unfold set_row in Ha1. cbn [upd_arch with_archs w_archs] in Ha1.
    apply In_updN in Ha1 as [->|Ha1]; [|apply (wp_rows_lt _ _ _ _ P _ Ha1)].
    cbn [a_rows]. rewrite lenN_updN. apply (wp_rows_lt _ _ _ _ P). eapply nthN_In. exact Ha.
  - unfold set_row. apply (WStatic_upd_arch _ _ _ _ a Ha); [reflexivity|apply (wp_static _ _ _ _ P)].
Qed.

(* handles of other ids do not see the overwritten row *)
Lemma set_row_abs_other u w l a r r' h :
  WInvP [] None u w -> nthN (w_archs w) (l_arch l) = Some a -> nthN (a_rows a) (l_idx l) = Some r ->
  e_id h <> r_id r -> abs (set_row w l a r') h = abs w h.
Proof.
  intros P Ha Hr Hne. apply abs_frame; [reflexivity|].
  intros l0 Hg Hs. rewrite (set_row_row_at _ _ _ _ _ _ Ha Hr).
  destruct (N.eqb_spec (l_arch l0) (l_arch l)) as [E|E]; cbn [andb]; [|reflexivity].
  destruct (N.eqb_spec (l_idx l0) (l_idx l)) as [E2|E2]; [|reflexivity].
  exfalso. assert (l0 = l) by (apply loc_ext; assumption). subst l0.
  destruct (WInvP_get_row _ _ _ _ _ _ P (fun x => x) Hg Hs) as (m & r1 & _ & _ & _ & _ & _ & Hr1 & Hid1).
  rewrite (row_at_arch_idx _ _ _ Ha), Hr in Hr1. injection Hr1 as <-. congruence.
Qed.

(* ------------------------------------------------------------------------------------------ *)
(** * 5. insert_inner *)

Lemma mem_tid_cases t l : (In t l /\ mem_tid t l = true) \/ (~ In t l /\ mem_tid t l = false).
Proof.
  destruct (mem_tid t l) eqn:E; [left|right]; split; try reflexivity;
    [apply mem_tid_true; exact E|apply mem_tid_false; exact E].
Qed.

(* [h] is located at [m_loc m], in archetype [sa]; [origin] is the archetype whose types are those
   of [sa] without [gone] (insert: origin = source, gone = []; exchange: origin = remove target,
   gone = the removed types). *)
Lemma insert_inner_spec u w h b origin m gone sa oa :
  total_inj u -> WInvP [] None u w -> bundle_ok b ->
  nthN (meta (w_ents w)) (e_id h) = Some m -> m_gen m = e_gen h -> l_idx (m_loc m) <> SENT ->
  nthN (w_archs w) (l_arch (m_loc m)) = Some sa -> nthN (w_archs w) origin = Some oa ->
  (forall t, In t (a_types oa) <-> In t (a_types sa) /\ ~ In t gone) ->
  lenN (meta (w_ents w)) <= SENT ->
  exists w' d, insert_inner u w h b origin (m_loc m) = Done (w', d) /\
    WInvP [] None u w' /\ needs_flush (w_ents w') = needs_flush (w_ents w) /\
    exists old new, abs w h = Some old /\ abs w' h = Some new /\
      (forall t, lookup_first t new =
                 match lookup_first t (b_items b) with
                 | Some v => Some v
                 | None => if mem_tid t gone then None else lookup_first t old
                 end) /\
      (forall t v, In (t, v) d <-> lookup_first t old = Some v /\ ~ In t gone /\ In t (b_types b)) /\
      NoDup (map fst d) /\
      (forall h', h' <> h -> abs w' h' = abs w h').
Proof.
  intros TI P Hb Hm Hgen Hs Hsa Hoa Hsub Hfit.
  destruct (insert_target_spec [] None u w origin b oa TI P Hb Hoa)
    as (w1 & t & Eit & P1 & He & Hrow & Habs1 & Hmono & Htok).
  unfold insert_inner. rewrite Eit. cbn [bind].
  destruct (target_ok_facts u w1 origin (b_types b) t oa TI (wp_static _ _ _ _ P1) (Hmono _ _ Hoa) Htok)
    as (ta & Hta & Htt & Hrep & Hret & Hndrep & Hndret).
  assert (Hm1 : nthN (meta (w_ents w1)) (e_id h) = Some m) by (rewrite He; exact Hm).
  destruct (WInvP_open _ _ _ _ P1 Hm1 Hs) as (Po & r & Hr & Hid).
  pose proof (Hmono _ _ Hsa) as Hsa1.
  assert (Hr' : nthN (a_rows sa) (l_idx (m_loc m)) = Some r).
  { rewrite <- (row_at_arch_idx _ _ _ Hsa1). exact Hr. }
  unfold get_row, get_arch. rewrite Hsa1. cbn [bind]. rewrite Hr'. cbn [bind].
  assert (Hrt : map fst (r_vals r) = a_types sa).
  { apply (wp_rowtypes _ _ _ _ P1); [eapply nthN_In; exact Hsa1|eapply nthN_In; exact Hr']. }
  assert (Hold : abs w h = Some (r_vals r)).
  { rewrite <- Habs1, (abs_located _ _ _ Hm1 Hs), Hgen, N.eqb_refl, Hr. reflexivity. }
  destruct (lookup_all_ok (it_replaced t) (r_vals r)) as (d & Ed).
  { intros x Hx. rewrite Hrt. apply Hrep in Hx as (Hx & _). apply Hsub in Hx. apply Hx. }
  rewrite Ed.
  assert (Hd : forall t0 v, In (t0, v) d <-> lookup_first t0 (r_vals r) = Some v /\ ~ In t0 gone /\ In t0 (b_types b)).
  { intros t0 v. rewrite (lookup_all_In _ _ _ _ _ Ed), Hrep, Hsub. split.
    - intros (((H1 & H2) & H3) & H4). auto.
    - intros (H1 & H2 & H3). repeat split; auto. rewrite <- Hrt. eapply lookup_first_Some_fst. exact H1. }
  assert (Hdn : NoDup (map fst d)) by (rewrite (lookup_all_fst _ _ _ Ed); exact Hndrep).
  destruct Hb as (Hnd & Hkey). assert (Hnd' : NoDup (map fst (b_items b))) by exact Hnd.
  assert (Hbt : forall x v, lookup_first x (b_items b) = Some v -> In x (b_types b)).
  { intros x v Hx. unfold b_types. eapply lookup_first_Some_fst. exact Hx. }
  assert (Hbn : forall x, lookup_first x (b_items b) = None -> ~ In x (b_types b)).
  { intros x Hx. unfold b_types. apply lookup_first_None. exact Hx. }
  assert (Hothergen : forall h', h' <> h -> e_id h' = e_id h -> m_gen m <> e_gen h').
  { intros h' Hne Eid Eg. apply Hne. apply entity_ext; congruence. }
  destruct (N.eqb_spec (it_index t) (l_arch (m_loc m))) as [Ei|Ei].
  - (* the archetype does not change: overwrite in place *)
    rewrite Ei, Hsa1 in Hta. injection Hta as <-.
    assert (Hall : all_in (b_types b) (a_types sa) = true).
    { apply all_in_spec. intros x Hx. apply Htt. right. exact Hx. }
    rewrite Hall. cbn [negb].
    eexists. eexists. split; [reflexivity|].
    fold (set_row w1 (m_loc m) sa {| r_id := r_id r; r_vals := overwrite (r_vals r) (b_items b) |}).
    set (r' := {| r_id := r_id r; r_vals := overwrite (r_vals r) (b_items b) |}).
    split; [apply (set_row_inv _ _ _ _ _ _ r); auto; apply overwrite_fst|].
    split; [change (w_ents (set_row w1 (m_loc m) sa r')) with (w_ents w1); rewrite He; reflexivity|].
    exists (r_vals r), (overwrite (r_vals r) (b_items b)). split; [exact Hold|]. split; [|split; [|split; [exact Hd|split; [exact Hdn|]]]].
    + rewrite (abs_located (set_row w1 (m_loc m) sa r') h m Hm1 Hs), Hgen, N.eqb_refl.
      rewrite (set_row_row_at _ _ _ _ _ _ Hsa1 Hr'), !N.eqb_refl. reflexivity.
    + intros t0. rewrite overwrite_lookup, (lookup_last_nodup _ _ Hnd').
      destruct (lookup_first t0 (b_items b)) as [v|] eqn:Eb.
      * destruct (lookup_first_fst_Some t0 (r_vals r)) as (v' & ->); [|reflexivity].
        rewrite Hrt. apply Htt. right. eapply Hbt. exact Eb.
      * destruct (lookup_first t0 (r_vals r)) as [v'|] eqn:Eo; [|destruct (mem_tid t0 gone); reflexivity].
        destruct (mem_tid_cases t0 gone) as [(Hg & ->)|(_ & ->)]; [exfalso|reflexivity].
        apply lookup_first_Some_fst in Eo. rewrite Hrt in Eo. apply Htt in Eo as [Eo|Eo].
        -- apply Hsub in Eo. apply Eo. exact Hg.
        -- apply (Hbn _ Eb). exact Eo.
    + intros h' Hne. rewrite <- Habs1. destruct (N.eq_dec (e_id h') (e_id h)) as [Eid|Eid].
      * rewrite <- Eid in Hm1. rewrite (abs_gen_mismatch w1 h' m Hm1 (Hothergen _ Hne Eid)).
        apply (abs_gen_mismatch (set_row w1 (m_loc m) sa r') h' m Hm1 (Hothergen _ Hne Eid)).
      * apply (set_row_abs_other u _ _ _ r); auto. rewrite Hid. exact Eid.
  - (* move to the target archetype *)
    destruct (lookup_all_ok (it_retained t) (r_vals r)) as (kept & Ek).
    { intros x Hx. rewrite Hrt. apply Hret in Hx as (Hx & _). apply Hsub in Hx. apply Hx. }
    rewrite Ek.
    pose proof (lookup_all_fst _ _ _ Ek) as Hkf.
    assert (Hall : all_in (map fst (b_items b ++ kept)) (a_types ta) = true).
    { apply all_in_spec. intros x Hx. rewrite map_app, Hkf in Hx. apply Htt. apply in_app_or in Hx as [Hx|Hx].
      - right. exact Hx.
      - left. apply Hret in Hx. apply Hx. }
    assert (Hl : forall x, In x (a_types ta) -> lookup_last x (b_items b ++ kept) <> None).
    { intros x Hx. rewrite lookup_last_None, map_app, Hkf. intros Hn. apply Hn. apply in_or_app.
      destruct (in_dec N.eq_dec x (b_types b)) as [Hxb|Hxb]; [left; exact Hxb|right].
      apply Hret. apply Htt in Hx as [Hx|Hx]; [auto|contradiction]. }
    destruct (put_row_ok w1 (it_index t) (e_id h) _ ta Hta Hall Hl) as (w2 & ti & Ep). rewrite Ep. cbn [bind].
    assert (Hdg : forall l0, Some (m_loc m) = Some l0 -> l_arch l0 <> it_index t).
    { intros l0 [= <-] E. apply Ei. symmetry. exact E. }
    assert (Hfit1 : lenN (meta (w_ents w1)) <= SENT) by (rewrite He; exact Hfit).
    pose proof (put_row_set_loc_spec (e_id h) [] (Some (m_loc m)) u w1 (it_index t) _ w2 ti Po Ep Hdg Hfit1) as Hput.
    cbv zeta in Hput. destruct Hput as (a & vals & Ha & Hmk & Ew3 & P3 & Hother & Hself).
    rewrite Hta in Ha. injection Ha as <-.
    set (w3 := with_ents w2 (set_loc (w_ents w2) (e_id h) {| l_arch := it_index t; l_idx := ti |})) in *.
    assert (Hr3 : row_at w3 (m_loc m) = Some r).
    { rewrite Ew3. apply (fill_rows_old _ _ _ _ _ _ _ Hta Hr). }
    destruct (detach_row_ok _ _ _ Hr3) as (w4 & Ed4). rewrite Ed4. cbn [bind].
    eexists. eexists. split; [reflexivity|].
    pose proof (detach_row_inv _ _ _ _ _ _ P3 Ed4) as P4.
    destruct (detach_row_ents _ _ _ _ _ _ P3 Ed4) as (Hp4 & Hc4 & _).
    destruct (fill_frame w1 (it_index t) ta (e_id h) vals Hta) as (Hp3 & Hc3 & _). rewrite <- Ew3 in Hp3, Hc3.
    split; [exact P4|]. split.
    { unfold needs_flush. rewrite Hp4, Hc4, Hp3, Hc3, He. reflexivity. }
    assert (Hgo : gen_of (w_ents w1) (e_id h) = m_gen m) by (unfold gen_of; rewrite Hm1; reflexivity).
    exists (r_vals r), vals. split; [exact Hold|]. split; [|split; [|split; [exact Hd|split; [exact Hdn|]]]].
    + rewrite (detach_row_abs _ _ _ _ _ _ h P3 Ed4) by (intros []).
      rewrite (Hself h eq_refl), Hgo, Hgen, N.eqb_refl. reflexivity.
    + intros t0. rewrite (mk_row_lookup _ _ _ t0 Hmk), lookup_last_app.
      rewrite (lookup_last_nodup t0 kept) by (rewrite Hkf; exact Hndret).
      rewrite (lookup_all_lookup _ _ _ t0 Ek), (lookup_last_nodup _ _ Hnd').
      fold (mem_tid t0 (a_types ta)).
      destruct (lookup_first t0 (b_items b)) as [v|] eqn:Eb.
      * apply Hbt in Eb.
        destruct (mem_tid_cases t0 (it_retained t)) as [(Hx & _)|(_ & ->)]; [apply Hret in Hx; tauto|].
        destruct (mem_tid_cases t0 (a_types ta)) as [(_ & ->)|(Hx & _)]; [reflexivity|].
        exfalso. apply Hx. apply Htt. right. exact Eb.
      * apply Hbn in Eb.
        destruct (mem_tid_cases t0 (it_retained t)) as [(Hx & ->)|(Hx & ->)].
        -- pose proof (proj1 (Hret _) Hx) as (Hxo & _).
           destruct (mem_tid_cases t0 (a_types ta)) as [(_ & ->)|(Hy & _)]; [|exfalso; apply Hy; apply Htt; left; exact Hxo].
           apply Hsub in Hxo as (_ & Hng).
           destruct (mem_tid_cases t0 gone) as [(Hg & _)|(_ & ->)]; [contradiction|].
           destruct (lookup_first t0 (r_vals r)); reflexivity.
        -- assert (Hno : ~ In t0 (a_types oa)) by (intros Hxo; apply Hx; apply Hret; auto).
           assert (Hres : (if mem_tid t0 gone then None else lookup_first t0 (r_vals r)) = None).
           { destruct (mem_tid_cases t0 gone) as [(_ & ->)|(Hg & ->)]; [reflexivity|].
             apply lookup_first_None. rewrite Hrt. intros Hxs. apply Hno. apply Hsub. auto. }
           rewrite Hres. destruct (mem_tid t0 (a_types ta)); reflexivity.
    + intros h' Hne. rewrite (detach_row_abs _ _ _ _ _ _ h' P3 Ed4) by (intros []). rewrite <- Habs1.
      destruct (N.eq_dec (e_id h') (e_id h)) as [Eid|Eid].
      * rewrite (Hself h' Eid), Hgo. rewrite <- Eid in Hm1.
        rewrite (abs_gen_mismatch w1 h' m Hm1 (Hothergen _ Hne Eid)).
        destruct (N.eqb_spec (m_gen m) (e_gen h')) as [E|E]; [|reflexivity].
        exfalso. apply (Hothergen _ Hne Eid). exact E.
      * apply Hother. intros [E|[]]. apply Eid. symmetry. exact E.
Qed.

(* ------------------------------------------------------------------------------------------ *)
(** * 6. remove_target: cached or computed, the archetype with the filtered type list *)

Lemma remove_target_spec holes dang u w old key w1 i sa :
  WInvP holes dang u w -> nthN (w_archs w) old = Some sa ->
  remove_target u w old key (tl key) = Done (w1, i) ->
  WInvP holes dang u w1 /\ w_ents w1 = w_ents w /\ (forall l, row_at w1 l = row_at w l) /\
  (forall h, abs w1 h = abs w h) /\
  (forall j a, nthN (w_archs w) j = Some a -> nthN (w_archs w1) j = Some a) /\
  exists ta, nthN (w_archs w1) i = Some ta /\
    a_types ta = filter (fun x => negb (mem_tid x (tl key))) (a_types sa).
Proof.
  intros P Ha H. pose proof (wp_static _ _ _ _ P) as S. unfold remove_target in H.
  destruct (assoc_pair old key (w_rem w)) as [i0|] eqn:Ec.
  - injection H as <- <-. destruct (WStatic_rem _ _ _ _ _ S Ec) as (a & Ha' & Hix).
    rewrite Ha in Ha'. injection Ha' as <-.
    destruct (WStatic_index_inv _ _ _ _ S Hix) as (ta & Hta & Htt).
    split; [exact P|]. repeat split; auto. exists ta. split; [exact Hta|exact Htt].
  - unfold get_arch in H. rewrite Ha in H. cbn [bind] in H.
    destruct (archs_get u w _ _) as [[w0 i0]|c] eqn:Eg; [|discriminate]. cbn [bind] in H. injection H as <- <-.
    destruct (archs_get_spec _ _ _ _ _ _ _ P Eg) as (P1 & He & Hr & Habs & (ta & Hta & Htt & _) & Hix & _ & Hmono & _).
    fold (add_rem w0 old key i0).
    split; [|split; [exact He|split; [exact Hr|split; [|split; [exact Hmono|]]]]].
    + apply (WInvP_memo holes dang u w0); try reflexivity; [|exact P1].
      apply (WStatic_add_rem _ _ _ _ _ sa); [apply (wp_static _ _ _ _ P1)|apply Hmono; exact Ha|exact Hix].
    + intros h. rewrite <- Habs. apply abs_memo; reflexivity.
    + exists ta. split; [exact Hta|exact Htt].
Qed.

(* ------------------------------------------------------------------------------------------ *)
(** * 7. the theorems *)

(* after a flush, a handle accepted by [get] is located at a row of some archetype *)
Lemma flushed_get_located u w h l :
  WInvP [] None u w -> flushed w -> get (w_ents w) h = Some l ->
  exists m sa r, nthN (meta (w_ents w)) (e_id h) = Some m /\ m_gen m = e_gen h /\ l_idx (m_loc m) <> SENT /\
    l = m_loc m /\ nthN (w_archs w) (l_arch l) = Some sa /\ nthN (a_rows sa) (l_idx l) = Some r /\
    abs w h = Some (r_vals r).
Proof.
  intros P Hf Hg. rewrite (get_eq_get_mut_flushed _ _ Hf) in Hg.
  apply get_mut_Some_inv in Hg as (m & Hm & Hgen & Hs & ->).
  destruct (WInvP_open _ _ _ _ P Hm Hs) as (_ & r0 & Hr0 & _).
  pose proof Hr0 as Hr0'. apply row_at_Some in Hr0' as (sa & Hsa & Hr).
  exists m, sa, r0. repeat split; auto.
  rewrite (abs_located _ _ _ Hm Hs), Hgen, N.eqb_refl, Hr0. reflexivity.
Qed.

Lemma w_insert_spec u w h b :
  total_inj u -> WInv u w -> fits w -> bundle_ok b ->
  exists w' r, w_insert u w h b = Done (w', r) /\
    WInv u w' /\ flushed w' /\
    match r with
    | WOk d =>
        exists old new, abs w h = Some old /\ abs w' h = Some new /\
          (forall t, lookup_first t new =
                     match lookup_first t (b_items b) with Some v => Some v | None => lookup_first t old end) /\
          (forall t v, In (t, v) d <-> (lookup_first t old = Some v /\ In t (b_types b))) /\ NoDup (map fst d) /\
          (forall h', h' <> h -> abs w' h' = abs w h')
    | WNoSuchEntity => abs w h = None /\ (forall h', abs w' h' = abs w h')
    | WMissing => False
    end.
Proof.
  intros TI I F Hb. destruct (w_flush_ok _ _ I) as (w0 & Hfl).
  destruct (w_flush_spec _ _ _ I F Hfl) as (P & Hf & F0 & Habs & _).
  unfold w_insert. rewrite Hfl. cbn [bind].
  destruct (get (w_ents w0) h) as [l|] eqn:Hg.
  - destruct (flushed_get_located _ _ _ _ P Hf Hg) as (m & sa & r0 & Hm & Hgen & Hs & -> & Hsa & _ & _).
    assert (Hfit : lenN (meta (w_ents w0)) <= SENT) by (pose proof (fits_meta_lt _ F0); lia).
    assert (Hsub : forall t, In t (a_types sa) <-> In t (a_types sa) /\ ~ In t []) by (intros t; cbn [In]; tauto).
    destruct (insert_inner_spec u w0 h b (l_arch (m_loc m)) m [] sa sa TI P Hb Hm Hgen Hs Hsa Hsa Hsub Hfit)
      as (w1 & d & Ei & P1 & Hnf & old & new & Ho & Hn & Hlk & Hd & Hdn & Hoth).
    rewrite Ei. cbn [bind]. eexists. eexists. split; [reflexivity|].
    split; [apply WInvP_WInv; exact P1|]. split; [unfold flushed; rewrite Hnf; exact Hf|].
    exists old, new. rewrite <- Habs. split; [exact Ho|]. split; [exact Hn|]. split; [exact Hlk|].
    split; [|split; [exact Hdn|]].
    + intros t v. rewrite Hd. cbn [In]. tauto.
    + intros h' Hne. rewrite <- Habs. apply Hoth. exact Hne.
  - eexists. eexists. split; [reflexivity|]. split; [apply WInvP_WInv; exact P|]. split; [exact Hf|].
    split; [|exact Habs]. rewrite <- Habs. apply abs_None_get. exact Hg.
Qed.

Theorem insert_refines_proof : insert_refines_stmt.
Proof.
  intros u w h b w' r TI I F Hb H.
  destruct (w_insert_spec u w h b TI I F Hb) as (w2 & r2 & E & H2). rewrite E in H. injection H as <- <-. exact H2.
Qed.

Theorem insert_never_panics_proof : insert_never_panics_stmt.
Proof.
  intros u w h b TI I F Hb.
  destruct (w_insert_spec u w h b TI I F Hb) as (w2 & r2 & E & _). eauto.
Qed.

Theorem exchange_refines_proof : exchange_refines_stmt.
Proof.
  intros u w h key ts b w' r TI I F Hnd Hkey Hb H. subst ts.
  unfold w_exchange in H. destruct (w_flush w) as [w0|c] eqn:Hfl; [|discriminate]. cbn [bind] in H.
  destruct (w_flush_spec _ _ _ I F Hfl) as (P & Hf & F0 & Habs & _).
  destruct (get (w_ents w0) h) as [l|] eqn:Hg.
  - destruct (flushed_get_located _ _ _ _ P Hf Hg) as (m & sa & r0 & Hm & Hgen & Hs & -> & Hsa & Hr0 & Ho0).
    unfold get_row, get_arch in H. rewrite Hsa in H. cbn [bind] in H. rewrite Hr0 in H. cbn [bind] in H.
    destruct (dup_check u (tl key)) as [[]|c]; [|discriminate]. cbn [bind] in H.
    destruct (lookup_all (tl key) (r_vals r0)) as [taken|] eqn:Et.
    + destruct (remove_target u w0 (l_arch (m_loc m)) key (tl key)) as [[w1 mid]|c] eqn:Er; [|discriminate].
      cbn [bind] in H.
      destruct (remove_target_spec _ _ _ _ _ _ _ _ _ P Hsa Er) as (P1 & He & Hrow & Habs1 & Hmono & ta & Hta & Htt).
      assert (Hm1 : nthN (meta (w_ents w1)) (e_id h) = Some m) by (rewrite He; exact Hm).
      assert (Hfit : lenN (meta (w_ents w1)) <= SENT) by (rewrite He; pose proof (fits_meta_lt _ F0); lia).
      assert (Hsub : forall t, In t (a_types ta) <-> In t (a_types sa) /\ ~ In t (tl key)).
      { intros t. rewrite Htt, filter_In, negb_true_iff, mem_tid_false. tauto. }
      destruct (insert_inner_spec u w1 h b mid m (tl key) sa ta TI P1 Hb Hm1 Hgen Hs (Hmono _ _ Hsa) Hta Hsub Hfit)
        as (w2 & d & Ei & P2 & Hnf & old & new & Ho & Hn & Hlk & Hd & Hdn & Hoth).
      rewrite Ei in H. cbn [bind] in H. injection H as <- <-.
      split; [apply WInvP_WInv; exact P2|]. split; [unfold flushed; rewrite Hnf, He; exact Hf|].
      rewrite Habs1 in Ho. rewrite Ho0 in Ho. injection Ho as <-.
      exists (r_vals r0), new. rewrite <- Habs. split; [exact Ho0|]. split; [exact Hn|].
      split; [apply (lookup_all_fst _ _ _ Et)|]. split; [|split; [exact Hlk|split; [exact Hd|]]].
      * intros t v Hin. apply (lookup_all_In _ _ _ t v Et) in Hin. apply Hin.
      * intros h' Hne. rewrite <- Habs, <- Habs1. apply Hoth. exact Hne.
    + injection H as <- <-. split; [apply WInvP_WInv; exact P|]. split; [exact Hf|]. split; [|exact Habs].
      exists (r_vals r0). rewrite <- Habs. split; [exact Ho0|]. apply lookup_all_None. exact Et.
  - injection H as <- <-. split; [apply WInvP_WInv; exact P|]. split; [exact Hf|].
    split; [|exact Habs]. rewrite <- Habs. apply abs_None_get. exact Hg.
Qed.

Print Assumptions insert_refines_proof.
Print Assumptions insert_never_panics_proof.
Print Assumptions exchange_refines_proof.
