(* C04: the capacity shadow of the script interpreter (Model/WorldRun.v caps_after) never falls below
   the number of rows, for every operation kind - it is built from cap_push_many / cap_reserve /
   cap_batch only, whose bounds are in LayoutProofs.v. *)
From Coq Require Import List NArith ZArith Bool Lia ZifyBool ZifyN.
From HecsV Require Import Base.ListN Model.Types Model.World Model.Layout Model.WorldRun Base.ListNFacts Proofs.LayoutSpec Proofs.LayoutProofs.
Import ListNotations.
Open Scope N_scope.

(* the per-archetype step of caps_after *)
Definition cap_one (opc : N) (reserve_idx : option N) (reserve_n : N) (batch_new : bool)
           (old_w : world) (old_caps : list N) (ia : N * arch) : N :=
  let old_n := lenN (w_archs old_w) in
  let '(i, a) := ia in
  let new_len := lenN (a_rows a) in
  if N.ltb i old_n then
    let old_len := match nthN (w_archs old_w) i with Some oa => lenN (a_rows oa) | None => 0 end in
    let cap := match nthN old_caps i with Some c => c | None => 0 end in
    let is_target := match reserve_idx with Some j => N.eqb i j | None => false end in
    if is_target then
      if N.eqb opc 15 || N.eqb opc 16 then
        cap_reserve cap (if N.eqb opc 16 then new_len - reserve_n else old_len) reserve_n
      else
        let c1 := cap_reserve cap old_len reserve_n in
        cap_push_many c1 old_len (new_len - old_len)
    else cap_push_many cap old_len (new_len - old_len)
  else
    let is_target := match reserve_idx with Some j => N.eqb i j | None => false end in
    if is_target && batch_new then cap_batch reserve_n
    else if is_target then cap_push_many (cap_reserve 0 0 reserve_n) 0 new_len
    else cap_push_many 0 0 new_len.

Lemma caps_after_map u opc ri rn bn old_w new_w old_caps :
  caps_after u opc ri rn bn old_w new_w old_caps =
  map (cap_one opc ri rn bn old_w old_caps) (combine (seqN 0 (lenN (w_archs new_w))) (w_archs new_w)).
Proof. reflexivity. Qed.

Definition c04_shadow_stmt : Prop :=
  forall opc ri rn bn old_w old_caps i a,
    (* the shadow bounded the old lengths *)
    (forall oa c, nthN (w_archs old_w) i = Some oa -> nthN old_caps i = Some c -> lenN (a_rows oa) <= c) ->
    (i < lenN (w_archs old_w) -> exists c, nthN old_caps i = Some c) ->
    (* a merged batch adds exactly the announced number of rows; a freshly installed batch has them *)
    (ri = Some i -> opc = 15 \/ opc = 16 -> i < lenN (w_archs old_w) ->
       forall oa, nthN (w_archs old_w) i = Some oa -> lenN (a_rows a) <= lenN (a_rows oa) + rn) ->
    (ri = Some i -> bn = true -> lenN (w_archs old_w) <= i -> lenN (a_rows a) <= rn) ->
    lenN (a_rows a) <= cap_one opc ri rn bn old_w old_caps (i, a).

Lemma c04_shadow_proof : c04_shadow_stmt.
Proof.
  destruct c04_capacity_proof as (Hpush & Hmany & Hres & Hbatch & _).
  intros opc ri rn bn old_w old_caps i a Hold Hex Hmerge Hnew. unfold cap_one.
  destruct (N.ltb i (lenN (w_archs old_w))) eqn:Hi.
  - assert (Hlt : i < lenN (w_archs old_w)) by lia.
    destruct (Hex Hlt) as [c Hc]. rewrite Hc.
    destruct (nthN (w_archs old_w) i) as [oa|] eqn:Hoa.
    + pose proof (Hold oa c eq_refl Hc) as Hle.
      destruct ri as [j|].
      * destruct (N.eqb i j) eqn:Hij.
        -- assert (i = j) by lia. subst j.
           destruct (N.eqb opc 15 || N.eqb opc 16) eqn:Hop.
           ++ destruct (N.eqb opc 16) eqn:H16.
              ** assert (H : opc = 15 \/ opc = 16) by lia.
                 pose proof (Hmerge eq_refl H Hlt oa eq_refl) as Hm.
                 assert (Hc1 : lenN (a_rows a) - rn <= c) by lia.
                 pose proof (proj1 (Hres c (lenN (a_rows a) - rn) rn Hc1)). lia.
              ** assert (H : opc = 15 \/ opc = 16) by lia.
                 pose proof (Hmerge eq_refl H Hlt oa eq_refl) as Hm.
                 pose proof (proj1 (Hres c (lenN (a_rows oa)) rn Hle)). lia.
           ++ pose proof (Hres c (lenN (a_rows oa)) rn Hle) as [R1 R2].
              assert (Hle2 : lenN (a_rows oa) <= cap_reserve c (lenN (a_rows oa)) rn) by lia.
              pose proof (proj1 (Hmany _ _ (lenN (a_rows a) - lenN (a_rows oa)) Hle2)). lia.
        -- pose proof (proj1 (Hmany c _ (lenN (a_rows a) - lenN (a_rows oa)) Hle)). lia.
      * pose proof (proj1 (Hmany c _ (lenN (a_rows a) - lenN (a_rows oa)) Hle)). lia.
    + exfalso. apply nthN_None_ge in Hoa. lia.
  - assert (Hge : lenN (w_archs old_w) <= i) by lia.
    destruct ri as [j|].
    + destruct (N.eqb i j) eqn:Hij.
      * assert (i = j) by lia. subst j. destruct bn; cbn [andb].
        -- pose proof (Hnew eq_refl eq_refl Hge). pose proof (Hbatch rn). lia.
        -- assert (H0 : 0 <= cap_reserve 0 0 rn) by lia.
           pose proof (proj1 (Hmany (cap_reserve 0 0 rn) 0 (lenN (a_rows a)) H0)). lia.
      * cbn [andb]. pose proof (proj1 (Hmany 0 0 (lenN (a_rows a)) (N.le_refl 0))). lia.
    + cbn [andb]. pose proof (proj1 (Hmany 0 0 (lenN (a_rows a)) (N.le_refl 0))). lia.
Qed.
