(* Statements about the containers (Model/Containers.v): EntityBuilder(Clone) (C13), ColumnBatchBuilder
   (C12), CommandBuffer (C11), and value conservation for all of them (C03).  Statements only. *)
From Coq Require Import List NArith ZArith Bool Lia Permutation.
From HecsV Require Import Base.ListN Base.ListNFacts Model.EntityBits Model.Types Model.Entities Model.World Model.Containers.
From HecsV Require Import Proofs.WorldSpec Proofs.WorldSpec2.
Import ListNotations.
Open Scope N_scope.

(* =========================================================================== C13: builders *)
(* what a builder holds: type -> value, in info order *)
Definition b_abs (c : common) : comps := map (fun e => (bi_t e, bi_v e)) (c_info c).

(* the index table names exactly the positions of info, and no type occurs twice *)
Definition BInv (c : common) : Prop :=
  NoDup (map bi_t (c_info c)) /\
  (forall t i, assoc_idx t (c_indices c) = Some i <-> exists e, nthN (c_info c) i = Some e /\ bi_t e = t).

(* builder operations (both builder kinds share Common; build+spawn of an EntityBuilder resets it) *)
Inductive bop :=
| BAdd (t : tid) (v : val)
| BClear
| BBuildReset          (* EntityBuilder::build() consumed by a spawn/insert, or dropped: builder is empty again *)
| BCloneBuild          (* EntityBuilderClone::build(): From<EntityBuilderClone> for BuiltEntityClone *)
| BUnbuild             (* From<BuiltEntityClone> for EntityBuilderClone *)
| BClone (next : N).   (* Clone: continue with the clone (fresh serials from next+1) *)

Definition bstep (u : universe) (c : common) (o : bop) : common * comps (* dropped *) :=
  match o with
  | BAdd t v => let '(c', d, _) := common_add u c t v in (c', d)
  | BClear => common_clear c
  | BBuildReset => (builder_after_put (builder_build u c), [])   (* the values went into the world *)
  | BCloneBuild => (clone_build u c, [])
  | BUnbuild => (clone_unbuild c, [])
  | BClone next => let '(c', _, _) := common_clone c next in (c', [])
  end.

Definition brun (u : universe) (c : common) (ops : list bop) : common :=
  fold_left (fun c o => fst (bstep u c o)) ops c.

(* the invariant holds in every state reachable from a new builder *)
Definition c13_inv_stmt : Prop :=
  forall u ops, BInv (brun u common_new ops).

(* has / get / component_types are exactly the abstract contents *)
Definition c13_observers_stmt : Prop :=
  forall c, BInv c ->
    (forall t, common_has c t = true <-> lookup_first t (b_abs c) <> None) /\
    (forall t, option_map snd (common_get c t) = lookup_first t (b_abs c)) /\
    common_types c = map fst (b_abs c).

(* add: the latest value wins, other types are untouched, a replaced value is dropped exactly once *)
Definition c13_add_stmt : Prop :=
  forall u c t v c' d, BInv c -> bstep u c (BAdd t v) = (c', d) ->
    lookup_first t (b_abs c') = Some v /\
    (forall t', t' <> t -> lookup_first t' (b_abs c') = lookup_first t' (b_abs c)) /\
    d = match lookup_first t (b_abs c) with Some old => [(t, old)] | None => [] end.

(* clear drops everything once; build hands over exactly the contents (as a duplicate-free bundle in
   TypeInfo order) and leaves an empty, reusable builder; conversions keep the contents *)
Definition c13_clear_build_stmt : Prop :=
  forall u c, BInv c ->
    (let '(c', d) := bstep u c BClear in b_abs c' = [] /\ d = b_abs c) /\
    (let b := built_bundle (builder_build u c) in
       Permutation (b_items b) (b_abs c) /\ NoDup (b_types b) /\ b_key b = None /\
       b_abs (fst (bstep u c BBuildReset)) = []) /\
    Permutation (b_abs (fst (bstep u c BCloneBuild))) (b_abs c) /\
    b_abs (fst (bstep u c BUnbuild)) = b_abs c.

(* clones are independent copies: same types in the same order, fresh pairwise distinct serials *)
Definition c13_clone_stmt : Prop :=
  forall c next c' next' ev, BInv c -> common_clone c next = (c', next', ev) ->
    BInv c' /\ map fst (b_abs c') = map fst (b_abs c) /\
    map snd (b_abs c') = seqN (next + 1) (lenN (c_info c)) /\ next' = next + lenN (c_info c).

(* =========================================================================== C12: column batches *)
(* a push schedule: any number of successive writers, each pushing some values to one column *)
Definition cb_run (b : cbatch) (pushes : list (tid * list val)) : cbatch * list (tid * val) (* rejected *) :=
  fold_left (fun st p => match cbatch_push (fst st) (fst p) (snd p) with
                         | Some (b', rej) => (b', snd st ++ map (fun v => (fst p, v)) rej)
                         | None => (fst st, snd st ++ map (fun v => (fst p, v)) (snd p))
                         end) pushes (b, []).

Definition pushed_to (t : tid) (pushes : list (tid * list val)) : list val :=
  concat (map (fun p => if N.eqb (fst p) t then snd p else []) pushes).

(* build succeeds iff every declared column received (at least, the excess being handed back) the
   declared number of values; then column t holds the first [target] values pushed to t, in order *)
Definition c12_build_iff_stmt : Prop :=
  forall u declared n pushes,
    let '(b, rejected) := cb_run (cbatch_new u declared n) pushes in
    (cbatch_complete b = true <-> forall t, In t declared -> n <= lenN (pushed_to t pushes)) /\
    (forall t, In t declared -> col_of t (cb_cols b) = Some (takeN n (pushed_to t pushes))) /\
    (* conservation: every pushed value is either in the batch or was handed back, exactly once *)
    Permutation (concat (map (fun p => map (fun v => (fst p, v)) (snd p)) pushes)) (cbatch_values b ++ rejected).

(* the rows of a complete batch: the i-th entity gets the i-th value pushed to each column *)
(* without distinct TypeIds the statement is false (two "different" types comparing Equal defeat
   dedup): ContProofs1.v proves ~ c12_rows_noinj_stmt; real TypeIds are distinct (total_inj) *)
Definition c12_rows_noinj_stmt : Prop :=
  forall u declared n pushes,
    let '(b, _) := cb_run (cbatch_new u declared n) pushes in
    cbatch_complete b = true ->
    lenN (cbatch_rows b) = n /\
    (forall i row, nthN (cbatch_rows b) i = Some row ->
       map fst row = cb_types b /\
       forall t, In t declared -> lookup_first t row = nthN (pushed_to t pushes) i) /\
    Permutation (concat (cbatch_rows b)) (cbatch_values b).

Definition c12_rows_stmt : Prop :=
  forall u declared n pushes, total_inj u ->
    let '(b, _) := cb_run (cbatch_new u declared n) pushes in
    cbatch_complete b = true ->
    lenN (cbatch_rows b) = n /\
    (forall i row, nthN (cbatch_rows b) i = Some row ->
       map fst row = cb_types b /\
       forall t, In t declared -> lookup_first t row = nthN (pushed_to t pushes) i) /\
    Permutation (concat (cbatch_rows b)) (cbatch_values b).

(* declared types: sorted, without the duplicates that were declared *)
Definition c12_types_stmt : Prop :=
  forall u declared n, total_inj u ->
    let b := cbatch_new u declared n in
    assert_type_info u (cb_types b) = 0 /\ (forall t, In t (cb_types b) <-> In t declared).

(* =========================================================================== C11: command buffers *)
(* recording: the component ranges of the commands partition the component list, and each range is
   the recorded bundle's components in TypeInfo order *)
Inductive rop :=
| RSpawn (b : bundle)
| RInsert (h : entity) (b : bundle)
| RRemove (h : entity) (key : bkey) (ts : list tid)
| RDespawn (h : entity).

Definition record (u : universe) (c : cmdbuf) (o : rop) : cmdbuf :=
  match o with
  | RSpawn b => fst (cm_record u c None b)
  | RInsert h b => fst (cm_record u c (Some h) b)
  | RRemove h key ts => cm_push_cmd c (CRemove h key ts)
  | RDespawn h => cm_push_cmd c (CDespawn h)
  end.

Definition slice_of (c : cmdbuf) (x : cmd) : comps :=
  match x with
  | CSpawnOrInsert _ start len => map (fun r => (cr_t r, cr_v r)) (takeN len (dropN start (cm_comps c)))
  | _ => []
  end.

Definition rop_items (o : rop) : comps :=
  match o with RSpawn b | RInsert _ b => b_items b | _ => [] end.

Definition c11_ranges_stmt : Prop :=
  forall u ops,
    let c := fold_left (record u) ops cmdbuf_new in
    lenN (cm_cmds c) = lenN ops /\
    (forall i x o, nthN (cm_cmds c) i = Some x -> nthN ops i = Some o ->
       Permutation (slice_of c x) (rop_items o) /\
       (NoDup (map fst (rop_items o)) -> total_inj u -> assert_type_info u (map fst (slice_of c x)) = 0) /\
       match x, o with
       | CSpawnOrInsert None _ _, RSpawn _ => True
       | CSpawnOrInsert (Some h) _ _, RInsert h' _ => h = h'
       | CRemove h k ts, RRemove h' k' ts' => h = h' /\ k = k' /\ ts = ts'
       | CDespawn h, RDespawn h' => h = h'
       | _, _ => False
       end) /\
    map (fun r => (cr_t r, cr_v r)) (cm_comps c) = concat (map (slice_of c) (cm_cmds c)) /\
    Forall (fun r => cr_live r = true) (cm_comps c).

(* direct application of the recorded operations, in order, ignoring errors *)
Definition direct_step (u : universe) (st : outcome (world * list entity * comps)) (o : rop)
  : outcome (world * list entity * comps) :=
  match st with
  | Panic p => Panic p
  | Done (w, spawned, dropped) =>
      match o with
      | RSpawn b => match w_spawn u w b with
                    | Done (w', h) => Done (w', spawned ++ [h], dropped)
                    | Panic p => Panic p
                    end
      | RInsert h b => match w_insert u w h b with
                       | Done (w', WOk d) => Done (w', spawned, dropped ++ d)
                       | Done (w', _) => Done (w', spawned, dropped ++ b_items b)
                       | Panic p => Panic p
                       end
      | RRemove h key ts => match w_remove u w h key ts with
                            | Done (w', WOk taken) => Done (w', spawned, dropped ++ taken)
                            | Done (w', _) => Done (w', spawned, dropped)
                            | Panic p => Panic p
                            end
      | RDespawn h => match w_despawn w h with
                      | Done (w', WOk d) => Done (w', spawned, dropped ++ d)
                      | Done (w', _) => Done (w', spawned, dropped)
                      | Panic p => Panic p
                      end
      end
  end.

Definition rop_ok (o : rop) : Prop :=
  match o with
  | RSpawn b | RInsert _ b => bundle_ok b
  | RRemove _ key ts => NoDup ts /\ tl key = ts
  | RDespawn _ => True
  end.

(* replay = direct application: same spawned handles, every handle denotes the same components,
   the same values are dropped; afterwards the buffer is empty (storage kept) *)
Definition c11_replay_stmt : Prop :=
  forall u w ops wd spawned_d dropped_d,
    total_inj u -> WInv u w -> fits w -> Forall rop_ok ops ->
    fold_left (direct_step u) ops (Done (w, [], [])) = Done (wd, spawned_d, dropped_d) ->
    (forall w', In w' (wd :: nil) -> fits w') ->
    let c := fold_left (record u) ops cmdbuf_new in
    let '(wr, c', spawned_r, dropped_r, p) := cm_run_on u w c in
    p = None /\ spawned_r = spawned_d /\ (forall h, abs wr h = abs wd h) /\ Permutation dropped_r dropped_d /\
    cm_cmds c' = [] /\ cm_comps c' = [] /\ ar_cursor (cm_arena c') = 0 /\ ar_size (cm_arena c') = ar_size (cm_arena c).

(* a buffer that is cleared or dropped without running drops each recorded value exactly once *)
Definition c11_clear_stmt : Prop :=
  forall u ops,
    let c := fold_left (record u) ops cmdbuf_new in
    Permutation (snd (cm_clear c)) (concat (map rop_items ops)) /\
    cm_cmds (fst (cm_clear c)) = [] /\ cm_comps (fst (cm_clear c)) = [].

(* conservation across a (possibly panicking) replay: values recorded + stored before =
   stored after + dropped + still owned by the buffer *)
Definition c11_conservation_stmt : Prop :=
  forall u w ops, total_inj u -> WInv u w -> fits w -> Forall rop_ok ops ->
    let c := fold_left (record u) ops cmdbuf_new in
    let '(wr, c', spawned, dropped, p) := cm_run_on u w c in
    (* the id space is not exhausted by the replay *)
    fits wr ->
    (* whether or not a command panics: nothing is lost and nothing is duplicated *)
    Permutation (stored w ++ concat (map rop_items ops)) (stored wr ++ dropped ++ cm_live_values c').

(* =========================================================================== C04: arena layout *)
(* align(x, a) for a power of two: the least multiple of a that is >= x (no overflow below 2^63) *)
Definition c04_align_stmt : Prop :=
  forall x k, x < 9223372036854775808 -> k < 63 ->
    let a := 2 ^ k in
    align_up x a mod a = 0 /\ x <= align_up x a /\ align_up x a < x + a.

(* every component placed in an arena lies inside the allocation, is aligned for its type, the
   allocation's alignment covers it, and placements do not overlap *)
Definition arena_ok (u : universe) (a : arena) (slots : list (tid * N)) : Prop :=
  (forall t off, In (t, off) slots ->
     off mod ti_align (info_of u t) = 0 /\ off + ti_size (info_of u t) <= ar_cursor a /\
     ti_align (info_of u t) <= ar_align a) /\
  ar_cursor a <= ar_size a \/ (ar_size a = 0 /\ ar_cursor a = 0).

Definition layout_ok (u : universe) : Prop :=
  forall t, exists k, k < 32 /\ ti_align (info_of u t) = 2 ^ k /\ ti_size (info_of u t) mod ti_align (info_of u t) = 0
            /\ ti_size (info_of u t) < 4294967296.

Definition c04_arena_stmt : Prop :=
  forall u ts, layout_ok u -> lenN ts < 4096 ->
    let '(a, slots) := fold_left (fun st t => let '(off, a', _) := arena_add u (fst st) t in (a', snd st ++ [(t, off)]))
                                 ts (arena_new, []) in
    (forall t off, In (t, off) slots ->
       off mod ti_align (info_of u t) = 0 /\ off + ti_size (info_of u t) <= ar_size a /\
       (ti_size (info_of u t) = 0 \/ ti_align (info_of u t) <= ar_align a)) /\
    (forall i j t1 o1 t2 o2, i <> j -> nthN slots i = Some (t1, o1) -> nthN slots j = Some (t2, o2) ->
       o1 + ti_size (info_of u t1) <= o2 \/ o2 + ti_size (info_of u t2) <= o1) /\
    (ar_size a = 0 \/ (64 <= ar_size a /\ exists k, ar_size a = 2 ^ k)) /\
    8 <= ar_align a.
