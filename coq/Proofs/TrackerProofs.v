(* Proofs of the C18 statements (Proofs/TrackerSpec.v) over Model/Tracker.v. *)
From Coq Require Import List NArith ZArith Bool Lia ZifyBool ZifyNat ZifyN.
From HecsV Require Import Base.ListN Base.ListNFacts Model.EntityBits Model.Types Model.Entities Model.World Model.Tracker.
From HecsV Require Import Proofs.WorldSpec Proofs.TrackerSpec.
Import ListNotations.
Open Scope N_scope.

(* ------------------------------------------------------------------------------------------ *)
(** * 1. the hidden map, through [prev_get] only *)

Lemma prev_get_del_eq k m : prev_get k (prev_del k m) = None.
Proof.
  unfold prev_del. induction m as [|[k' v] m IH]; cbn [filter prev_get fst]; [reflexivity|].
  destruct (N.eqb_spec k' k) as [->|Hne]; cbn [negb]; [exact IH|].
  cbn [prev_get]. destruct (N.eqb_spec k k'); [congruence|exact IH].
Qed.

Lemma prev_get_del_ne k k' m : k <> k' -> prev_get k (prev_del k' m) = prev_get k m.
Proof.
  intros Hne. unfold prev_del. induction m as [|[k2 v] m IH]; cbn [filter prev_get fst]; [reflexivity|].
  destruct (N.eqb_spec k2 k') as [->|Hne2]; cbn [negb].
  - destruct (N.eqb_spec k k'); [congruence|exact IH].
  - cbn [prev_get]. destruct (N.eqb_spec k k2); [reflexivity|exact IH].
Qed.

Lemma prev_get_set_eq k v m : prev_get k (prev_set k v m) = Some v.
Proof. unfold prev_set. cbn [prev_get]. rewrite N.eqb_refl. reflexivity. Qed.

Lemma prev_get_set_ne k k' v m : k <> k' -> prev_get k (prev_set k' v m) = prev_get k m.
Proof.
  intros Hne. unfold prev_set. cbn [prev_get]. destruct (N.eqb_spec k k'); [congruence|].
  apply prev_get_del_ne. exact Hne.
Qed.

Definition fold_set {C} (kf : C -> N) (vf : C -> val) (l : list C) (m0 : list (N * val)) :=
  fold_left (fun m c => prev_set (kf c) (vf c) m) l m0.
Definition fold_del {C} (kf : C -> N) (l : list C) (m0 : list (N * val)) :=
  fold_left (fun m c => prev_del (kf c) m) l m0.

Lemma fold_set_notin {C} (kf : C -> N) (vf : C -> val) l m0 b :
  ~ In b (map kf l) -> prev_get b (fold_set kf vf l m0) = prev_get b m0.
Proof.
  unfold fold_set. revert m0. induction l as [|c l IH]; intros m0 Hn; cbn [fold_left]; [reflexivity|].
  cbn [map In] in Hn. rewrite IH by tauto. apply prev_get_set_ne. intros ->. tauto.
Qed.

Lemma fold_set_in {C} (kf : C -> N) (vf : C -> val) l m0 c :
  NoDup (map kf l) -> In c l -> prev_get (kf c) (fold_set kf vf l m0) = Some (vf c).
Proof.
  revert m0. induction l as [|c' l IH]; intros m0 Hnd Hin; [destruct Hin|].
  cbn [map] in Hnd. inversion Hnd as [|x xs Hni Hnd']; subst. destruct Hin as [->|Hin].
  - unfold fold_set. cbn [fold_left]. fold (fold_set kf vf l (prev_set (kf c) (vf c) m0)).
    rewrite fold_set_notin by exact Hni. apply prev_get_set_eq.
  - unfold fold_set. cbn [fold_left]. apply IH; assumption.
Qed.

Lemma fold_del_notin {C} (kf : C -> N) l m0 b :
  ~ In b (map kf l) -> prev_get b (fold_del kf l m0) = prev_get b m0.
Proof.
  unfold fold_del. revert m0. induction l as [|c l IH]; intros m0 Hn; cbn [fold_left]; [reflexivity|].
  cbn [map In] in Hn. rewrite IH by tauto. apply prev_get_del_ne. intros ->. tauto.
Qed.

Lemma fold_del_none {C} (kf : C -> N) l m0 b :
  prev_get b m0 = None -> prev_get b (fold_del kf l m0) = None.
Proof.
  unfold fold_del. revert m0. induction l as [|c l IH]; intros m0 Hn; cbn [fold_left]; [exact Hn|].
  apply IH. destruct (N.eq_dec b (kf c)) as [->|Hne]; [apply prev_get_del_eq|].
  rewrite prev_get_del_ne by exact Hne. exact Hn.
Qed.

Lemma fold_del_in {C} (kf : C -> N) l m0 b :
  In b (map kf l) -> prev_get b (fold_del kf l m0) = None.
Proof.
  revert m0. induction l as [|c l IH]; intros m0 Hin; [destruct Hin|].
  cbn [map In] in Hin. unfold fold_del. cbn [fold_left]. fold (fold_del kf l (prev_del (kf c) m0)).
  destruct (N.eq_dec (kf c) b) as [E|Hne].
  - apply fold_del_none. rewrite E. apply prev_get_del_eq.
  - apply IH. destruct Hin as [E|Hin]; [contradiction|exact Hin].
Qed.

(* ------------------------------------------------------------------------------------------ *)
(** * 2. lists *)

Lemma tk_in_concat_map {A B} (f : A -> list B) l x :
  In x (concat (map f l)) <-> exists p, In p l /\ In x (f p).
Proof.
  rewrite in_concat. split.
  - intros (y & Hy & Hx). apply in_map_iff in Hy as (p & <- & Hp). eauto.
  - intros (p & Hp & Hx). exists (f p). split; [apply in_map; exact Hp|exact Hx].
Qed.

Lemma tk_concat_map_ext {A B} (f g : A -> list B) l :
  (forall p, In p l -> f p = g p) -> concat (map f l) = concat (map g l).
Proof. intros H. f_equal. apply map_ext_in. exact H. Qed.

Lemma tk_NoDup_app {A} (l1 l2 : list A) :
  NoDup l1 -> NoDup l2 -> (forall x, In x l1 -> ~ In x l2) -> NoDup (l1 ++ l2).
Proof.
  induction l1 as [|x l1 IH]; intros H1 H2 Hd; cbn [app]; [exact H2|].
  inversion H1 as [|y ys Hni H1']; subst. constructor.
  - rewrite in_app_iff. intros [H|H]; [contradiction|]. apply (Hd x); [left; reflexivity|exact H].
  - apply IH; [exact H1'|exact H2|]. intros y Hy. apply Hd. right. exact Hy.
Qed.

Lemma tk_nodup_concat_key {A B} (key : B -> N) (kf : A -> N) (f : A -> list B) l :
  (forall p x, In x (f p) -> key x = kf p) -> (forall p, NoDup (map key (f p))) ->
  NoDup (map kf l) -> NoDup (map key (concat (map f l))).
Proof.
  intros Hk Hf. induction l as [|p l IH]; intros Hnd; cbn [map concat]; [constructor|].
  cbn [map] in Hnd. inversion Hnd as [|x xs Hni Hnd']; subst. rewrite map_app.
  apply tk_NoDup_app; [apply Hf|apply IH; exact Hnd'|].
  intros k Hk1 Hk2. apply in_map_iff in Hk1 as (x & <- & Hx). apply in_map_iff in Hk2 as (y & Ey & Hy).
  apply tk_in_concat_map in Hy as (q & Hq & Hy). apply Hni.
  rewrite (Hk _ _ Hx) in Ey. rewrite (Hk _ _ Hy) in Ey. rewrite <- Ey. apply in_map. exact Hq.
Qed.

Lemma tk_NoDup_map_coarser {A} (f g : A -> N) l :
  NoDup (map f l) -> (forall x y, In x l -> In y l -> g x = g y -> f x = f y) -> NoDup (map g l).
Proof.
  induction l as [|x l IH]; intros Hnd H; cbn [map]; [constructor|].
  cbn [map] in Hnd. inversion Hnd as [|z zs Hni Hnd']; subst. constructor.
  - intros Hin. apply in_map_iff in Hin as (y & Ey & Hy). apply Hni.
    rewrite <- (H y x); [apply in_map; exact Hy|right; exact Hy|left; reflexivity|exact Ey].
  - apply IH; [exact Hnd'|]. intros a b Ha Hb. apply H; right; assumption.
Qed.

Lemma ent_get_In b x l : ent_get b l = Some x -> In (b, x) l.
Proof.
  induction l as [|[b' y] l IH]; cbn [ent_get]; [discriminate|].
  destruct (N.eqb_spec b b') as [->|Hne]; [intros [= ->]; left; reflexivity|intros H; right; auto].
Qed.

Lemma ent_get_None_iff b l : ent_get b l = None <-> ~ In b (map fst l).
Proof.
  induction l as [|[b' y] l IH]; cbn [ent_get map In fst]; [tauto|].
  destruct (N.eqb_spec b b') as [->|Hne]; [split; [discriminate|tauto]|].
  rewrite IH. split; [intros H [E|Hin]; [congruence|contradiction]|tauto].
Qed.

Lemma In_ent_get b x l : NoDup (map fst l) -> In (b, x) l -> ent_get b l = Some x.
Proof.
  induction l as [|[b' y] l IH]; intros Hnd Hin; [destruct Hin|].
  cbn [map fst] in Hnd. inversion Hnd as [|z zs Hni Hnd']; subst. cbn [ent_get].
  destruct Hin as [[= -> ->]|Hin]; [rewrite N.eqb_refl; reflexivity|].
  destruct (N.eqb_spec b b') as [->|Hne]; [|apply IH; assumption].
  exfalso. apply Hni. apply (in_map fst) in Hin. exact Hin.
Qed.

(* ------------------------------------------------------------------------------------------ *)
(** * 3. the three sets *)

Lemma in_added s b v : nodup_live s ->
  (In (b, v) (added_set s) <-> ent_get b (t_entities s) = Some (Some v) /\ prev_get b (t_prev s) = None).
Proof.
  intros Hnd. unfold added_set. rewrite tk_in_concat_map. split.
  - intros ([b' x] & Hp & Hin). cbn [fst snd] in Hin. destruct x as [v'|]; [|destruct Hin].
    destruct (prev_get b' (t_prev s)) eqn:E; [destruct Hin|]. destruct Hin as [[= -> ->]|[]].
    split; [apply In_ent_get; assumption|exact E].
  - intros (He & Hp). exists (b, Some v). split; [apply ent_get_In; exact He|]. cbn [fst snd].
    rewrite Hp. left. reflexivity.
Qed.

Lemma in_changed s b o v : nodup_live s ->
  (In (b, o, v) (changed_set s) <->
   ent_get b (t_entities s) = Some (Some v) /\ prev_get b (t_prev s) = Some o /\ o <> v).
Proof.
  intros Hnd. unfold changed_set. rewrite tk_in_concat_map. split.
  - intros ([b' x] & Hp & Hin). cbn [fst snd] in Hin. destruct x as [v'|]; [|destruct Hin].
    destruct (prev_get b' (t_prev s)) as [o'|] eqn:E; [|destruct Hin].
    destruct (N.eqb_spec v' o') as [->|Hne]; [destruct Hin|]. destruct Hin as [[= -> -> ->]|[]].
    split; [apply In_ent_get; assumption|]. split; [exact E|congruence].
  - intros (He & Hp & Hne). exists (b, Some v). split; [apply ent_get_In; exact He|]. cbn [fst snd].
    rewrite Hp. destruct (N.eqb_spec v o); [congruence|]. left. reflexivity.
Qed.

Lemma in_removed s b o : nodup_live s ->
  (In (b, o) (removed_set s) <-> ent_get b (t_entities s) = Some None /\ prev_get b (t_prev s) = Some o).
Proof.
  intros Hnd. unfold removed_set. rewrite tk_in_concat_map. split.
  - intros ([b' x] & Hp & Hin). cbn [fst snd] in Hin. destruct x as [v'|]; [destruct Hin|].
    destruct (prev_get b' (t_prev s)) as [o'|] eqn:E; [|destruct Hin]. destruct Hin as [[= -> ->]|[]].
    split; [apply In_ent_get; assumption|exact E].
  - intros (He & Hp). exists (b, None). split; [apply ent_get_In; exact He|]. cbn [fst snd].
    rewrite Hp. left. reflexivity.
Qed.

Lemma nodup_added s : nodup_live s -> NoDup (map fst (added_set s)).
Proof.
  intros Hnd. unfold added_set. apply (tk_nodup_concat_key fst fst); [| |exact Hnd].
  - intros [b x] y. cbn [fst snd]. destruct x; [|intros []]. destruct (prev_get b (t_prev s)); [intros []|].
    intros [<-|[]]. reflexivity.
  - intros [b x]. cbn [fst snd]. destruct x; [|constructor]. destruct (prev_get b (t_prev s)); [constructor|].
    cbn [map]. constructor; [intros []|constructor].
Qed.

Lemma nodup_changed s : nodup_live s -> NoDup (map (fun c => fst (fst c)) (changed_set s)).
Proof.
  intros Hnd. unfold changed_set. apply (tk_nodup_concat_key (fun c : N * val * val => fst (fst c)) fst); [| |exact Hnd].
  - intros [b x] y. cbn [fst snd]. destruct x as [v|]; [|intros []]. destruct (prev_get b (t_prev s)) as [o|]; [|intros []].
    destruct (N.eqb v o); [intros []|]. intros [<-|[]]. reflexivity.
  - intros [b x]. cbn [fst snd]. destruct x as [v|]; [|constructor]. destruct (prev_get b (t_prev s)) as [o|]; [|constructor].
    destruct (N.eqb v o); [constructor|]. cbn [map]. constructor; [intros []|constructor].
Qed.

Lemma nodup_removed s : nodup_live s -> NoDup (map fst (removed_set s)).
Proof.
  intros Hnd. unfold removed_set. apply (tk_nodup_concat_key fst fst); [| |exact Hnd].
  - intros [b x] y. cbn [fst snd]. destruct x; [intros []|]. destruct (prev_get b (t_prev s)); [|intros []].
    intros [<-|[]]. reflexivity.
  - intros [b x]. cbn [fst snd]. destruct x; [constructor|]. destruct (prev_get b (t_prev s)); [|constructor].
    cbn [map]. constructor; [intros []|constructor].
Qed.

Theorem c18_sets_proof : c18_sets_stmt.
Proof.
  intros s Hnd. split; [intros b v; apply in_added; exact Hnd|].
  split; [intros b o v; apply in_changed; exact Hnd|].
  split; [intros b o; apply in_removed; exact Hnd|].
  split; [apply nodup_added; exact Hnd|]. split; [apply nodup_changed; exact Hnd|apply nodup_removed; exact Hnd].
Qed.

(* ------------------------------------------------------------------------------------------ *)
(** * 4. pointwise effect of draining changed() / removed() and of Drop's insertion *)

Definition fC (e : option (option val)) (p : option val) : option val :=
  match e, p with Some (Some v), Some _ => Some v | _, _ => p end.
Definition fR (e : option (option val)) (p : option val) : option val :=
  match e with Some None => None | _ => p end.
Definition fA (e : option (option val)) (p : option val) : option val :=
  match e, p with Some (Some v), None => Some v | _, _ => p end.

Lemma get_apply_changed s b : nodup_live s ->
  prev_get b (t_prev (apply_changed s)) = fC (ent_get b (t_entities s)) (prev_get b (t_prev s)).
Proof.
  intros Hnd. unfold apply_changed. cbn [t_prev].
  change (fold_left _ (changed_set s) (t_prev s))
    with (fold_set (fun c : N * val * val => fst (fst c)) snd (changed_set s) (t_prev s)).
  destruct (in_dec N.eq_dec b (map (fun c : N * val * val => fst (fst c)) (changed_set s))) as [Hin|Hni].
  - apply in_map_iff in Hin as ([[b' o] v] & Eb & Hin). cbn [fst] in Eb. subst b'.
    pose proof (fold_set_in (fun c : N * val * val => fst (fst c)) snd _ (t_prev s) _ (nodup_changed s Hnd) Hin) as H.
    cbn [fst snd] in H. rewrite H. apply (in_changed s b o v Hnd) in Hin as (He & Hp & _).
    rewrite He, Hp. reflexivity.
  - rewrite fold_set_notin by exact Hni.
    destruct (ent_get b (t_entities s)) as [[v|]|] eqn:He; cbn [fC]; try reflexivity.
    destruct (prev_get b (t_prev s)) as [o|] eqn:Hp; [|reflexivity].
    destruct (N.eq_dec o v) as [->|Hne]; [reflexivity|]. exfalso. apply Hni. apply in_map_iff.
    exists (b, o, v). split; [reflexivity|]. apply in_changed; auto.
Qed.

Lemma get_apply_removed s b : nodup_live s ->
  prev_get b (t_prev (apply_removed s)) = fR (ent_get b (t_entities s)) (prev_get b (t_prev s)).
Proof.
  intros Hnd. unfold apply_removed. cbn [t_prev].
  change (fold_left _ (removed_set s) (t_prev s)) with (fold_del (@fst N val) (removed_set s) (t_prev s)).
  destruct (in_dec N.eq_dec b (map fst (removed_set s))) as [Hin|Hni].
  - rewrite fold_del_in by exact Hin. apply in_map_iff in Hin as ([b' o] & Eb & Hin). cbn [fst] in Eb. subst b'.
    apply (in_removed s b o Hnd) in Hin as (He & _). rewrite He. reflexivity.
  - rewrite fold_del_notin by exact Hni.
    destruct (ent_get b (t_entities s)) as [[v|]|] eqn:He; cbn [fR]; try reflexivity.
    destruct (prev_get b (t_prev s)) as [o|] eqn:Hp; [|reflexivity].
    exfalso. apply Hni. apply in_map_iff. exists (b, o). split; [reflexivity|]. apply in_removed; auto.
Qed.

Lemma get_apply_added s b : nodup_live s ->
  prev_get b (t_prev (apply_added s (added_set s))) = fA (ent_get b (t_entities s)) (prev_get b (t_prev s)).
Proof.
  intros Hnd. unfold apply_added. cbn [t_prev].
  change (fold_left _ (added_set s) (t_prev s)) with (fold_set (@fst N val) snd (added_set s) (t_prev s)).
  destruct (in_dec N.eq_dec b (map fst (added_set s))) as [Hin|Hni].
  - apply in_map_iff in Hin as ([b' v] & Eb & Hin). cbn [fst] in Eb. subst b'.
    pose proof (fold_set_in (@fst N val) snd _ (t_prev s) _ (nodup_added s Hnd) Hin) as H.
    cbn [fst snd] in H. rewrite H. apply (in_added s b v Hnd) in Hin as (He & Hp).
    rewrite He, Hp. reflexivity.
  - rewrite fold_set_notin by exact Hni.
    destruct (ent_get b (t_entities s)) as [[v|]|] eqn:He; cbn [fA]; try reflexivity.
    destruct (prev_get b (t_prev s)) as [o|] eqn:Hp; [reflexivity|].
    exfalso. apply Hni. apply in_map_iff. exists (b, v). split; [reflexivity|]. apply in_added; auto.
Qed.

(* ------------------------------------------------------------------------------------------ *)
(** * 5. the invariant of a consumption script *)

(* state reached from [s0] after changed() has been drained iff [c] and removed() iff [r] *)
Definition G (c r : bool) (e : option (option val)) (p : option val) : option val :=
  let p1 := if c then fC e p else p in if r then fR e p1 else p1.

Definition tinv (s0 s : tstate) (c r : bool) : Prop :=
  t_w s = t_w s0 /\
  forall b, prev_get b (t_prev s) = G c r (ent_get b (t_entities s0)) (prev_get b (t_prev s0)).

Lemma t_entities_w s s0 : t_w s = t_w s0 -> t_entities s = t_entities s0.
Proof. intros H. unfold t_entities. rewrite H. reflexivity. Qed.

Lemma nodup_live_w s s0 : t_w s = t_w s0 -> nodup_live s0 -> nodup_live s.
Proof. intros H Hnd. unfold nodup_live. rewrite (t_entities_w _ _ H). exact Hnd. Qed.

Lemma tinv_refl s0 : tinv s0 s0 false false.
Proof. split; reflexivity. Qed.

Lemma tinv_changed s0 s c r : nodup_live s0 -> tinv s0 s c r -> tinv s0 (apply_changed s) true r.
Proof.
  intros Hnd (Hw & Hp). split; [exact Hw|]. intros b.
  rewrite get_apply_changed by (apply (nodup_live_w _ _ Hw Hnd)).
  rewrite (t_entities_w _ _ Hw), Hp. unfold G.
  destruct c, r, (ent_get b (t_entities s0)) as [[v|]|], (prev_get b (t_prev s0)); reflexivity.
Qed.

Lemma tinv_removed s0 s c r : nodup_live s0 -> tinv s0 s c r -> tinv s0 (apply_removed s) c true.
Proof.
  intros Hnd (Hw & Hp). split; [exact Hw|]. intros b.
  rewrite get_apply_removed by (apply (nodup_live_w _ _ Hw Hnd)).
  rewrite (t_entities_w _ _ Hw), Hp. unfold G.
  destruct c, r, (ent_get b (t_entities s0)) as [[v|]|], (prev_get b (t_prev s0)); reflexivity.
Qed.

Lemma tinv_added_set s0 s c r : nodup_live s0 -> tinv s0 s c r -> added_set s = added_set s0.
Proof.
  intros Hnd (Hw & Hp). unfold added_set. rewrite (t_entities_w _ _ Hw). apply tk_concat_map_ext.
  intros [b x] Hin. cbn [fst snd]. rewrite Hp, (In_ent_get _ _ _ Hnd Hin). unfold G.
  destruct c, r, x as [v|], (prev_get b (t_prev s0)); reflexivity.
Qed.

Lemma tinv_changed_set s0 s r : nodup_live s0 -> tinv s0 s false r -> changed_set s = changed_set s0.
Proof.
  intros Hnd (Hw & Hp). unfold changed_set. rewrite (t_entities_w _ _ Hw). apply tk_concat_map_ext.
  intros [b x] Hin. cbn [fst snd]. rewrite Hp, (In_ent_get _ _ _ Hnd Hin). unfold G.
  destruct r, x as [v|], (prev_get b (t_prev s0)); reflexivity.
Qed.

Lemma tinv_removed_set s0 s c : nodup_live s0 -> tinv s0 s c false -> removed_set s = removed_set s0.
Proof.
  intros Hnd (Hw & Hp). unfold removed_set. rewrite (t_entities_w _ _ Hw). apply tk_concat_map_ext.
  intros [b x] Hin. cbn [fst snd]. rewrite Hp, (In_ent_get _ _ _ Hnd Hin). unfold G.
  destruct c, x as [v|], (prev_get b (t_prev s0)); reflexivity.
Qed.

Lemma same_kind_spec a b :
  same_kind a b = true <-> (a = 0 /\ b = 0) \/ (a = 1 /\ b = 1) \/ (2 <= a /\ 2 <= b).
Proof. destruct a as [|[pa|pa|]], b as [|[pb|pb|]]; cbn [same_kind]; split; intros H; try reflexivity; try discriminate; lia. Qed.

Lemma do_reads_cons s k rest a c r buf :
  do_reads s (k :: rest) a c r buf =
  let '(s1, a1, c1, r1, buf1) :=
    if N.eqb k 0 then (s, true, c, r, added_set s)
    else if N.eqb k 1 then (apply_changed s, a, true, r, buf) else (apply_removed s, a, c, true, buf) in
  let '(s', reps, a', c', r', buf') := do_reads s1 rest a1 c1 r1 buf1 in
  (s', report_of k s :: reps, a', c', r', buf').
Proof. destruct k as [|[p|p|]]; reflexivity. Qed.

(* kind [k] has not been read before position [i] of [reads], in a script entered with flags c, r *)
Definition fresh (k : N) (c r : bool) (i : N) (reads : list N) : Prop :=
  k = 0 \/ ((k = 1 -> c = false) /\ (2 <= k -> r = false) /\
            forall j k', j < i -> nthN reads j = Some k' -> same_kind k k' = false).

Lemma report_fresh s0 s k c r reads : nodup_live s0 -> tinv s0 s c r -> fresh k c r 0 reads ->
  report_of k s = report_of k s0.
Proof.
  intros Hnd Hinv Hf. destruct (N.eq_dec k 0) as [->|Hk0].
  - cbn [report_of]. f_equal. apply (tinv_added_set _ _ _ _ Hnd Hinv).
  - destruct Hf as [Hf|(Hc & Hr & _)]; [contradiction|]. destruct (N.eq_dec k 1) as [->|Hk1].
    + cbn [report_of]. f_equal. rewrite (Hc eq_refl) in Hinv. apply (tinv_changed_set _ _ _ Hnd Hinv).
    + assert (Hr' : r = false) by (apply Hr; lia). rewrite Hr' in Hinv.
      destruct k as [|[p|p|]]; try contradiction; cbn [report_of]; f_equal; apply (tinv_removed_set _ _ _ Hnd Hinv).
Qed.

Lemma fresh_tail k0 k c r i rest :
  i <> 0 -> fresh k0 c r i (k :: rest) ->
  fresh k0 (if N.eqb k 0 then c else if N.eqb k 1 then true else c)
           (if N.eqb k 0 then r else if N.eqb k 1 then r else true) (N.pred i) rest.
Proof.
  intros Hi [Hf|(Hc & Hr & Hj)]; [left; exact Hf|]. right.
  assert (Hk : same_kind k0 k = false) by (apply (Hj 0); [lia|reflexivity]).
  assert (Hk' : ~ ((k0 = 0 /\ k = 0) \/ (k0 = 1 /\ k = 1) \/ (2 <= k0 /\ 2 <= k))).
  { intros H. apply same_kind_spec in H. congruence. }
  split; [|split].
  - intros ->. destruct (N.eqb_spec k 0); [auto|]. destruct (N.eqb_spec k 1); [lia|auto].
  - intros H2. destruct (N.eqb_spec k 0); [auto|]. destruct (N.eqb_spec k 1); [auto|lia].
  - intros j k' Hlt Hn. apply (Hj (N.succ j)); [lia|]. cbn [nthN].
    destruct (N.eqb_spec (N.succ j) 0); [lia|]. rewrite N.pred_succ. exact Hn.
Qed.

Lemma do_reads_spec s0 : nodup_live s0 ->
  forall reads s a c r buf s' reps a' c' r' buf',
  tinv s0 s c r -> (a = true -> buf = added_set s0) ->
  do_reads s reads a c r buf = (s', reps, a', c', r', buf') ->
  tinv s0 s' c' r' /\ (a' = true -> buf' = added_set s0) /\ length reps = length reads /\
  forall i k, nthN reads i = Some k -> fresh k c r i reads -> nthN reps i = Some (report_of k s0).
Proof.
  intros Hnd. induction reads as [|k rest IH]; intros s a c r buf s' reps a' c' r' buf' Hinv Hbuf H.
  - cbn [do_reads] in H. injection H as <- <- <- <- <- <-. split; [exact Hinv|]. split; [exact Hbuf|].
    split; [reflexivity|]. intros i k Hn. discriminate.
  - rewrite do_reads_cons in H.
    assert (Hstep : exists s1 a1 buf1,
      (if N.eqb k 0 then (s, true, c, r, added_set s)
       else if N.eqb k 1 then (apply_changed s, a, true, r, buf) else (apply_removed s, a, c, true, buf))
      = (s1, a1, (if N.eqb k 0 then c else if N.eqb k 1 then true else c),
             (if N.eqb k 0 then r else if N.eqb k 1 then r else true), buf1) /\
      tinv s0 s1 (if N.eqb k 0 then c else if N.eqb k 1 then true else c)
                 (if N.eqb k 0 then r else if N.eqb k 1 then r else true) /\
      (a1 = true -> buf1 = added_set s0)).
    { destruct (N.eqb k 0).
      - exists s, true, (added_set s). split; [reflexivity|]. split; [exact Hinv|]. intros _.
        apply (tinv_added_set _ _ _ _ Hnd Hinv).
      - destruct (N.eqb k 1).
        + exists (apply_changed s), a, buf. split; [reflexivity|]. split; [|exact Hbuf].
          apply (tinv_changed _ _ _ _ Hnd Hinv).
        + exists (apply_removed s), a, buf. split; [reflexivity|]. split; [|exact Hbuf].
          apply (tinv_removed _ _ _ _ Hnd Hinv). }
    destruct Hstep as (s1 & a1 & buf1 & Est & Hinv1 & Hbuf1). rewrite Est in H. clear Est.
    destruct (do_reads s1 rest a1 _ _ buf1) as [[[[[s2 reps2] a2] c2] r2] buf2] eqn:Hd.
    injection H as <- <- <- <- <- <-.
    destruct (IH _ _ _ _ _ _ _ _ _ _ _ Hinv1 Hbuf1 Hd) as (I1 & I2 & I3 & I4).
    split; [exact I1|]. split; [exact I2|]. split; [cbn [length]; rewrite I3; reflexivity|].
    intros i k0 Hn Hf. cbn [nthN] in Hn |- *. destruct (N.eqb_spec i 0) as [->|Hi].
    + injection Hn as <-. f_equal. apply (report_fresh s0 s k c r (k :: rest) Hnd Hinv Hf).
    + apply I4; [exact Hn|]. apply fresh_tail; assumption.
Qed.

(* ------------------------------------------------------------------------------------------ *)
(** * 6. Drop, and the track theorems *)

Lemma t_entities_changed s : t_entities (apply_changed s) = t_entities s. Proof. reflexivity. Qed.
Lemma t_entities_removed s : t_entities (apply_removed s) = t_entities s. Proof. reflexivity. Qed.
Lemma t_entities_added s buf : t_entities (apply_added s buf) = t_entities s. Proof. reflexivity. Qed.

Lemma drop_get s1 (c r : bool) b : nodup_live s1 ->
  let s2 := apply_added s1 (added_set s1) in
  let s3 := if c then s2 else apply_changed s2 in
  let s4 := if r then s3 else apply_removed s3 in
  t_w s4 = t_w s1 /\
  prev_get b (t_prev s4) =
    (let e := ent_get b (t_entities s1) in
     let p2 := fA e (prev_get b (t_prev s1)) in
     let p3 := if c then p2 else fC e p2 in
     if r then p3 else fR e p3).
Proof.
  intros Hnd. cbv zeta.
  assert (Hnd2 : nodup_live (apply_added s1 (added_set s1))) by exact Hnd.
  assert (Hnd3 : nodup_live (apply_changed (apply_added s1 (added_set s1)))) by exact Hnd.
  destruct c, r; (split; [reflexivity|]).
  - apply get_apply_added; exact Hnd.
  - rewrite get_apply_removed by exact Hnd2. rewrite t_entities_added, get_apply_added by exact Hnd. reflexivity.
  - rewrite get_apply_changed by exact Hnd2. rewrite t_entities_added, get_apply_added by exact Hnd. reflexivity.
  - rewrite get_apply_removed by exact Hnd3. rewrite t_entities_changed, get_apply_changed by exact Hnd2.
    rewrite t_entities_added, get_apply_added by exact Hnd. reflexivity.
Qed.

Lemma final_G (c r : bool) e p : (e = None -> p = None) ->
  (let p1 := G c r e p in
   let p2 := fA e p1 in
   let p3 := if c then p2 else fC e p2 in
   if r then p3 else fR e p3) = match e with Some (Some v) => Some v | _ => None end.
Proof.
  intros He. unfold G. destruct e as [[v|]|].
  - destruct c, r, p; reflexivity.
  - destruct c, r, p; reflexivity.
  - rewrite (He eq_refl). destruct c, r; reflexivity.
Qed.

Lemma snapshot_prev_live s : snapshot_ok s -> prev_live s.
Proof.
  intros H b Hb. rewrite (H b) in Hb. destruct (ent_get b (t_entities s)); [discriminate|]. exfalso. apply Hb. reflexivity.
Qed.

Theorem c18_track_proof : c18_track_stmt.
Proof.
  intros s reads s' reps Hnd Hpl H. unfold track in H.
  destruct (do_reads s reads false false false []) as [[[[[s1 reps1] a] c] r] buf] eqn:Hd.
  destruct (do_reads_spec s Hnd _ _ _ _ _ _ _ _ _ _ _ _ (tinv_refl s) (fun E => False_ind _ (diff_false_true E)) Hd)
    as (I1 & I2 & I3 & I4).
  assert (Hbuf : (if a then buf else added_set s1) = added_set s1).
  { destruct a; [|reflexivity]. rewrite (I2 eq_refl). symmetry. apply (tinv_added_set _ _ _ _ Hnd I1). }
  rewrite Hbuf in H. injection H as <- <-.
  destruct I1 as (Hw & Hp).
  assert (Hnd1 : nodup_live s1) by (apply (nodup_live_w _ _ Hw Hnd)).
  assert (Hsnap : t_w (if r then if c then apply_added s1 (added_set s1) else apply_changed (apply_added s1 (added_set s1))
                       else apply_removed (if c then apply_added s1 (added_set s1) else apply_changed (apply_added s1 (added_set s1))))
                  = t_w s /\
                  snapshot_ok (if r then if c then apply_added s1 (added_set s1) else apply_changed (apply_added s1 (added_set s1))
                       else apply_removed (if c then apply_added s1 (added_set s1) else apply_changed (apply_added s1 (added_set s1))))).
  { pose proof (fun b => drop_get s1 c r b Hnd1) as Hd4. cbv zeta in Hd4.
    split; [rewrite (proj1 (Hd4 0)); exact Hw|]. intros b. destruct (Hd4 b) as (Hw4 & Hg).
    rewrite Hg, (t_entities_w _ _ Hw4), (t_entities_w _ _ Hw), Hp. apply final_G.
    intros He. destruct (prev_get b (t_prev s)) eqn:E; [|reflexivity]. exfalso. apply (Hpl b); [congruence|exact He]. }
  destruct Hsnap as (Hw4 & Hsnap).
  split; [exact Hw4|]. split; [exact Hsnap|]. split; [apply snapshot_prev_live; exact Hsnap|]. split; [exact I3|].
  intros i k Hn Hf. apply I4; [exact Hn|]. destruct Hf as [Hf|Hf]; [left; exact Hf|right]. auto.
Qed.

Lemma track_final s reads b : nodup_live s -> prev_live s ->
  prev_get b (t_prev (fst (track s reads))) =
  match ent_get b (t_entities s) with Some (Some v) => Some v | _ => None end.
Proof.
  intros Hnd Hpl. destruct (track s reads) as [s' reps] eqn:E.
  destruct (c18_track_proof s reads s' reps Hnd Hpl E) as (Hw & Hsnap & _). cbn [fst].
  rewrite (Hsnap b), (t_entities_w _ _ Hw). reflexivity.
Qed.

Theorem c18_script_irrelevant_proof : c18_script_irrelevant_stmt.
Proof.
  intros s reads1 reads2 Hnd Hpl b. rewrite !track_final by assumption. reflexivity.
Qed.

Theorem c18_diff_proof : c18_diff_stmt.
Proof.
  intros s0 s1 Hsnap Hnd0 Hnd1 Hbetween then_.
  assert (Hthen : forall b x, ent_get b (t_entities s1) = Some x -> prev_get b (t_prev s1) = then_ b).
  { intros b x He. rewrite Hbetween, He. apply Hsnap. }
  split; [|split].
  - intros b v. rewrite (in_added s1 b v Hnd1). split; intros (He & Hp); (split; [exact He|]);
      [rewrite <- (Hthen _ _ He)|rewrite (Hthen _ _ He)]; exact Hp.
  - intros b o v. rewrite (in_changed s1 b o v Hnd1). split; intros (He & Hp & Hne); (split; [exact He|split; [|exact Hne]]);
      [rewrite <- (Hthen _ _ He)|rewrite (Hthen _ _ He)]; exact Hp.
  - intros b o. rewrite (in_removed s1 b o Hnd1). split; intros (He & Hp); (split; [exact He|]);
      [rewrite <- (Hthen _ _ He)|rewrite (Hthen _ _ He)]; exact Hp.
Qed.

(* ------------------------------------------------------------------------------------------ *)
(** * 7. world level: distinct handles of live entities, and despawn *)
From HecsV Require Import Proofs.EntityBitsProofs Proofs.ListNMore Proofs.WorldLemmas Proofs.WorldProofs1.

Lemma iter_id_lt u w h l : WInv u w -> fits w -> In (h, l) (w_iter w) -> e_id h < W32.
Proof.
  intros I F H. apply In_iter in H as (ai & a & i & r & Ha & Hr & -> & ->).
  destruct (wi_row _ _ I _ _ _ _ Ha Hr) as (m & Hm & _). apply nthN_Some_lt in Hm. cbn [e_id].
  unfold fits in F. unfold SENT, W32 in *. lia.
Qed.

Lemma to_bits_id_inj h1 h2 : e_id h1 < W32 -> e_id h2 < W32 -> to_bits h1 = to_bits h2 -> e_id h1 = e_id h2.
Proof.
  intros H1 H2 E. rewrite !to_bits_arith in E by assumption.
  assert (Hm : forall g i, i < W32 -> (g * W32 + i) mod W32 = i).
  { intros g i Hi. rewrite N.add_comm, N.mod_add by (unfold W32; lia). apply N.mod_small. exact Hi. }
  rewrite <- (Hm (e_gen h1) (e_id h1) H1), <- (Hm (e_gen h2) (e_id h2) H2), E. reflexivity.
Qed.

Theorem c18_nodup_proof : c18_nodup_stmt.
Proof.
  intros u s I F Hf. unfold nodup_live, t_entities. rewrite map_map. cbn [fst].
  destruct (iter_matches_abs_proof u _ I F Hf) as (Hnd & _ & _).
  apply (tk_NoDup_map_coarser (fun p : entity * list (tid * val) => e_id (fst p)) _ _ Hnd).
  intros [h1 l1] [h2 l2] H1 H2 E. cbn [fst] in *.
  apply to_bits_id_inj; [apply (iter_id_lt u _ _ _ I F H1)|apply (iter_id_lt u _ _ _ I F H2)|exact E].
Qed.

(* membership in the iteration, without assuming the world flushed (third part of
   [iter_matches_abs_weakened], whose proof does not use flushedness) *)
Lemma In_iter_abs u w : WInvP [] None u w ->
  forall h l, In (h, l) (w_iter w) <-> (abs w h = Some l /\ get_mut (w_ents w) h <> None).
Proof.
  intros P h l. rewrite In_iter. split.
  - intros (ai & a & i & r & Ha & Hr & -> & ->).
    assert (Hrow : row_at w (mkloc ai i) = Some r) by (rewrite (row_at_mkloc _ _ _ _ Ha); exact Hr).
    destruct (WInvP_row_owner _ _ _ _ _ _ P Hrow) as (_ & _ & Hs & m & Hm & Hl); [discriminate|].
    assert (Hg : gen_of (w_ents w) (r_id r) = m_gen m) by (unfold gen_of; rewrite Hm; reflexivity).
    rewrite <- Hl in Hs. split.
    * rewrite (abs_located w _ m) by assumption. cbn [e_gen]. rewrite Hg, N.eqb_refl, Hl, Hrow. reflexivity.
    * rewrite (get_mut_located _ _ m) by assumption. cbn [e_gen]. rewrite Hg, N.eqb_refl. discriminate.
  - intros (Habs & Hg). destruct (get_mut (w_ents w) h) as [l0|] eqn:Hgm; [clear Hg|congruence].
    apply get_mut_Some_inv in Hgm as (m & Hm & Hgen & Hs & ->).
    rewrite (abs_located _ _ _ Hm Hs), Hgen, N.eqb_refl in Habs.
    destruct (row_at w (m_loc m)) as [r|] eqn:Hr; [|discriminate]. cbn [option_map] in Habs. injection Habs as <-.
    destruct (wp_loc _ _ _ _ P _ _ Hm) as [(_ & E)|(_ & _ & _ & r' & Hr' & Hid)]; [intros []|rewrite E in Hs; contradiction|].
    rewrite Hr in Hr'. injection Hr' as <-.
    apply row_at_Some in Hr as (a & Ha & Hr). exists (l_arch (m_loc m)), a, (l_idx (m_loc m)), r.
    split; [exact Ha|]. split; [exact Hr|]. split; [|reflexivity].
    apply entity_ext; cbn [e_id e_gen]; [congruence|]. rewrite Hid. unfold gen_of. rewrite Hm. congruence.
Qed.

(* the working invariant after despawn (same steps as [despawn_refines_proof]) *)
Lemma despawn_WInvP u w h w' r : WInv u w -> fits w -> w_despawn w h = Done (w', r) -> WInvP [] None u w'.
Proof.
  intros I F H.
  apply w_despawn_unfold in H as (w0 & Hfl & [(Hfr & -> & ->)|(e & l & r1 & Hfr & Hd & ->)]).
  - destruct (w_flush_spec _ _ _ I F Hfl) as (P & _). exact P.
  - destruct (w_flush_spec _ _ _ I F Hfl) as (P & Hf & _ & Habs & _).
    destruct (free_spec _ _ _ _ Hfr) as (m & _ & Hm & Hgen & Hs & El & _ & _).
    subst l. destruct (WInvP_open _ _ _ _ P Hm Hs) as (Po & r0 & Hr0 & Hid).
    pose proof (free_inv _ _ _ _ _ _ _ Po Hfr) as P1.
    exact (detach_row_inv _ _ _ _ _ _ P1 Hd).
Qed.

Lemma ent_get_live_iff b l : ent_get b l <> None <-> In b (map fst l).
Proof.
  induction l as [|[b' y] l IH]; cbn [ent_get map In fst]; [split; [congruence|intros []]|].
  destruct (N.eqb_spec b b') as [->|Hne]; [split; [auto|discriminate]|].
  rewrite IH. split; [auto|intros [E|H]; [congruence|exact H]].
Qed.

Lemma ent_live_iff s b :
  ent_get b (t_entities s) <> None <-> exists h l, In (h, l) (w_iter (t_w s)) /\ to_bits h = b.
Proof.
  rewrite ent_get_live_iff. unfold t_entities. rewrite map_map. cbn [fst]. rewrite in_map_iff. split.
  - intros ([h l] & E & Hin). exists h, l. auto.
  - intros (h & l & Hin & E). exists (h, l). auto.
Qed.

Theorem c18_despawn_proof : c18_despawn_stmt.
Proof.
  intros u s h I F Hpl. unfold t_despawn.
  destruct (w_despawn (t_w s) h) as [[w' r]|c] eqn:Hd; [|exact Hpl].
  pose proof (despawn_WInvP _ _ _ _ _ I F Hd) as P'.
  pose proof (WInv_fits_WInvP _ _ I F) as P.
  destruct (despawn_refines_proof u _ h w' r I F Hd) as (I' & Hf' & Hr).
  (* an iterated entity whose denotation is unchanged is still iterated *)
  assert (Hkeep : forall h' l, In (h', l) (w_iter (t_w s)) -> abs w' h' = abs (t_w s) h' -> In (h', l) (w_iter w')).
  { intros h' l Hin Habs. apply (In_iter_abs _ _ P) in Hin as (Ha & _). apply (In_iter_abs _ _ P').
    rewrite Habs. split; [exact Ha|]. apply (alive_get_mut_flushed _ _ Hf'). unfold alive. rewrite Habs, Ha. discriminate. }
  destruct r as [d| |].
  - destruct Hr as (_ & _ & Hframe). intros b Hb. cbn [t_prev] in Hb. apply ent_live_iff. cbn [t_w].
    destruct (N.eq_dec b (to_bits h)) as [->|Hne]; [rewrite prev_get_del_eq in Hb; congruence|].
    rewrite prev_get_del_ne in Hb by exact Hne.
    apply Hpl, ent_live_iff in Hb as (h' & l & Hin & E). exists h', l. split; [|exact E].
    apply Hkeep; [exact Hin|]. apply Hframe. intros ->. congruence.
  - destruct Hr as (_ & Hframe). intros b Hb. cbn [t_prev] in Hb. apply ent_live_iff. cbn [t_w].
    apply Hpl, ent_live_iff in Hb as (h' & l & Hin & E). exists h', l. split; [|exact E].
    apply Hkeep; [exact Hin|]. apply Hframe.
  - destruct Hr.
Qed.

Lemma prev_get_filter (g : N -> bool) k m :
  prev_get k (filter (fun p => g (fst p)) m) = if g k then prev_get k m else None.
Proof.
  induction m as [|[k' v] m IH]; cbn [filter prev_get fst]; [destruct (g k); reflexivity|].
  destruct (g k') eqn:Gk'; cbn [prev_get].
  - destruct (N.eqb_spec k k') as [->|Hne]; [rewrite Gk'; reflexivity|exact IH].
  - destruct (N.eqb_spec k k') as [->|Hne]; [rewrite IH, Gk'; reflexivity|exact IH].
Qed.

Lemma to_bits_mod h : e_id h < W32 -> to_bits h mod W32 = e_id h.
Proof.
  intros Hlt. rewrite (to_bits_arith h Hlt), N.add_comm, N.mod_add by (unfold W32; lia).
  apply N.mod_small. exact Hlt.
Qed.

From HecsV Require Import Proofs.WorldProofs2.

Theorem c18_spawn_at_proof : c18_spawn_at_stmt.
Proof.
  intros u s h b s' Hti I F Hb Hv Hs Hf' Hpl. unfold t_spawn_at in Hs.
  destruct (w_spawn_at u (t_w s) h b) as [[w' d]|c] eqn:Hsp; [|discriminate].
  injection Hs as <-. cbn [t_w t_prev] in *.
  destruct (spawn_at_refines_proof u _ h b w' d Hti I F Hb Hv Hsp Hf') as (I' & Hfl' & _ & Hframe & _).
  pose proof (WInv_fits_WInvP _ _ I F) as P.
  pose proof (WInv_fits_WInvP _ _ I' Hf') as P'.
  assert (Hidh : e_id h < W32) by (destruct Hv as [Hv _]; exact Hv).
  split; [|split].
  - intros k Hk. cbn [t_prev] in Hk. rewrite (prev_get_filter (fun x => negb (N.eqb (x mod W32) (e_id h)))) in Hk.
    destruct (N.eqb_spec (k mod W32) (e_id h)) as [E|Hne]; cbn [negb] in Hk; [congruence|].
    apply Hpl, ent_live_iff in Hk as (h' & l & Hin & E). apply ent_live_iff. cbn [t_w]. exists h', l. split; [|exact E].
    assert (Hid : e_id h' <> e_id h).
    { intros Heq. apply Hne. subst k. apply (eq_trans (to_bits_mod h' ltac:(rewrite Heq; exact Hidh))). exact Heq. }
    apply (In_iter_abs _ _ P) in Hin as (Ha & _). apply (In_iter_abs _ _ P'). rewrite (Hframe h' Hid).
    split; [exact Ha|]. apply (alive_get_mut_flushed _ _ Hfl'). unfold alive. rewrite (Hframe h' Hid), Ha. discriminate.
  - cbn [t_prev]. rewrite (prev_get_filter (fun x => negb (N.eqb (x mod W32) (e_id h)))), (to_bits_mod h Hidh), N.eqb_refl. reflexivity.
  - intros k Hk. cbn [t_prev]. rewrite (prev_get_filter (fun x => negb (N.eqb (x mod W32) (e_id h)))).
    destruct (N.eqb_spec (k mod W32) (e_id h)) as [E|Hne]; [congruence|reflexivity].
Qed.

Theorem c18_frame_proof : c18_frame_stmt.
Proof.
  intros u s w' I F I' F' Hfl Hkeep Hpl k Hk. cbn [t_prev] in Hk.
  pose proof (WInv_fits_WInvP _ _ I F) as P.
  pose proof (WInv_fits_WInvP _ _ I' F') as P'.
  apply Hpl, ent_live_iff in Hk as (h & l & Hin & E). apply ent_live_iff. cbn [t_w].
  apply (In_iter_abs _ _ P) in Hin as (Ha & _).
  destruct (abs w' h) as [l'|] eqn:Ha'; [|exfalso; exact (Hkeep h l Ha Ha')].
  exists h, l'. split; [|exact E]. apply (In_iter_abs _ _ P'). split; [exact Ha'|].
  apply (alive_get_mut_flushed _ _ Hfl). unfold alive. rewrite Ha'. discriminate.
Qed.

Lemma nil_if_no_member {A} (l : list A) : (forall x, ~ In x l) -> l = [].
Proof. destruct l as [|a l]; [reflexivity|]. intros H. exfalso. apply (H a). left. reflexivity. Qed.

Theorem c18_quiet_proof : c18_quiet_stmt.
Proof.
  intros s reads s' reps Hn Hp Ht.
  destruct (c18_track_proof s reads s' reps Hn Hp Ht) as (Hw & Hsnap & _).
  assert (Hn' : nodup_live s') by (unfold nodup_live, t_entities in *; rewrite Hw; exact Hn).
  destruct (c18_sets_proof s' Hn') as (Ha & Hc & Hr & _).
  split; [|split]; apply nil_if_no_member.
  - intros [b v] Hin. apply Ha in Hin as (He & Hp0). specialize (Hsnap b). rewrite He in Hsnap. congruence.
  - intros [[b o] v] Hin. apply Hc in Hin as (He & Hp0 & Hne). specialize (Hsnap b). rewrite He in Hsnap. congruence.
  - intros [b o] Hin. apply Hr in Hin as (He & Hp0). specialize (Hsnap b). rewrite He in Hsnap. congruence.
Qed.

Print Assumptions c18_sets_proof.
Print Assumptions c18_track_proof.
Print Assumptions c18_script_irrelevant_proof.
Print Assumptions c18_diff_proof.
Print Assumptions c18_nodup_proof.
Print Assumptions c18_despawn_proof.
Print Assumptions c18_spawn_at_proof.
Print Assumptions c18_frame_proof.
Print Assumptions c18_quiet_proof.
