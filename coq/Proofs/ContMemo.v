(* The memo tables (bundle_to_archetype, insert_edges, remove_edges) and the order / key of a bundle
   are invisible: two worlds that agree on entities, archetypes and index react to spawn / insert /
   remove / despawn with results that again agree on these three, return the same handle / result,
   and panic together.  Used for C11 (replay = direct application). *)
From Coq Require Import List NArith ZArith Bool Lia ZifyBool ZifyNat ZifyN Permutation.
From HecsV Require Import Base.ListN Base.ListNFacts Model.EntityBits Model.Types Model.Entities Model.World
  Proofs.WorldSpec Proofs.MergeSpec Proofs.ListNMore Proofs.MergeProofs Proofs.WorldLemmas
  Proofs.WorldProofs3.
Import ListNotations.
Open Scope N_scope.

Definition meq (w1 w2 : world) : Prop :=
  w_ents w1 = w_ents w2 /\ w_archs w1 = w_archs w2 /\ w_index w1 = w_index w2.

Definition orel {A B} (R : A -> B -> Prop) (o1 : outcome A) (o2 : outcome B) : Prop :=
  match o1, o2 with Done a, Done b => R a b | Panic _, Panic _ => True | _, _ => False end.

Definition wrel {A} (x y : world * A) : Prop := meq (fst x) (fst y) /\ snd x = snd y.

Lemma meq_refl w : meq w w. Proof. repeat split. Qed.
Lemma meq_sym w1 w2 : meq w1 w2 -> meq w2 w1. Proof. intros (A & B & C). repeat split; auto. Qed.
Lemma meq_trans w1 w2 w3 : meq w1 w2 -> meq w2 w3 -> meq w1 w3.
Proof. intros (A & B & C) (A' & B' & C'). repeat split; congruence. Qed.

Lemma wrel_refl {A} (x : world * A) : wrel x x. Proof. split; [apply meq_refl|reflexivity]. Qed.
Lemma wrel_sym {A} (x y : world * A) : wrel x y -> wrel y x.
Proof. intros (M & E). split; [apply meq_sym; exact M|auto]. Qed.
Lemma wrel_trans {A} (x y z : world * A) : wrel x y -> wrel y z -> wrel x z.
Proof. intros (M & E) (M' & E'). split; [eapply meq_trans; eassumption|congruence]. Qed.

Lemma orel_refl {A} (R : A -> A -> Prop) o : (forall a, R a a) -> orel R o o.
Proof. intros H. destruct o; cbn [orel]; auto. Qed.
Lemma orel_sym {A} (R : A -> A -> Prop) o1 o2 : (forall a b, R a b -> R b a) -> orel R o1 o2 -> orel R o2 o1.
Proof. intros H. destruct o1, o2; cbn [orel]; auto. Qed.
Lemma orel_trans {A} (R : A -> A -> Prop) o1 o2 o3 :
  (forall a b c, R a b -> R b c -> R a c) -> orel R o1 o2 -> orel R o2 o3 -> orel R o1 o3.
Proof. intros H. destruct o1, o2, o3; cbn [orel]; eauto; contradiction. Qed.

Lemma orel_bind {A A' B B'} (R : A -> A' -> Prop) (S : B -> B' -> Prop) o1 o2 f g :
  orel R o1 o2 -> (forall a b, o1 = Done a -> o2 = Done b -> R a b -> orel S (f a) (g b)) ->
  orel S (bind o1 f) (bind o2 g).
Proof.
  intros H K. destruct o1 as [a|c], o2 as [b|c']; cbn [orel bind] in *; try contradiction; auto.
Qed.

Lemma meq_inv w1 w2 : meq w1 w2 ->
  w2 = {| w_ents := w_ents w1; w_archs := w_archs w1; w_index := w_index w1;
          w_b2a := w_b2a w2; w_ins := w_ins w2; w_rem := w_rem w2 |}.
Proof. intros (A & B & C). destruct w2. cbn in *. subst. reflexivity. Qed.

Ltac meq_subst w1 w2 M :=
  rewrite (meq_inv w1 w2 M); clear M; destruct w1 as [xe xa xx xb xi xr];
  generalize (w_b2a w2) (w_ins w2) (w_rem w2); intros yb yi yr.

(* ---- functions that never look at the memo tables ---- *)
Lemma w_flush_meq w1 w2 : meq w1 w2 -> orel meq (w_flush w1) (w_flush w2).
Proof.
  intros M. meq_subst w1 w2 M. unfold w_flush, get_arch, upd_arch, with_ents, with_archs. cbn [w_ents w_archs w_index w_b2a w_ins w_rem].
  destruct (flush _) as [[e ids]|c]; cbn [bind orel]; [|exact I].
  destruct (nthN _ 0) as [a0|]; cbn [bind orel]; [|exact I].
  destruct (flush_ids e a0 ids) as [e' a0']. cbn [orel]. repeat split.
Qed.

Lemma archs_get_meq u w1 w2 ids info :
  meq w1 w2 -> orel wrel (archs_get u w1 ids info) (archs_get u w2 ids info).
Proof.
  intros M. meq_subst w1 w2 M. unfold archs_get. cbn [w_ents w_archs w_index w_b2a w_ins w_rem].
  destruct (assoc_list ids _); [cbn [orel]; repeat split|].
  destruct (assert_type_info u info) as [|[p|p|]]; cbn [orel]; auto; repeat split.
Qed.

Lemma get_arch_meq w1 w2 i : meq w1 w2 -> get_arch w1 i = get_arch w2 i.
Proof. intros (_ & E & _). unfold get_arch. rewrite E. reflexivity. Qed.

Lemma get_row_meq w1 w2 l : meq w1 w2 -> get_row w1 l = get_row w2 l.
Proof. intros M. unfold get_row. rewrite (get_arch_meq _ _ _ M). reflexivity. Qed.

Lemma detach_row_meq w1 w2 l : meq w1 w2 -> orel wrel (detach_row w1 l) (detach_row w2 l).
Proof.
  intros M. meq_subst w1 w2 M. unfold detach_row, get_arch, upd_arch, with_ents, with_archs.
  cbn [w_ents w_archs w_index w_b2a w_ins w_rem].
  destruct (nthN _ (l_arch l)) as [a|]; cbn [bind orel]; [|exact I].
  destruct (arch_remove a (l_idx l)) as [[[a' r] moved]|c]; cbn [bind orel]; [|exact I].
  repeat split.
Qed.

(* what the world does with a bundle's items only depends on "which value does type t get" *)
Definition items_sim (i1 i2 : list (tid * val)) : Prop := forall t, lookup_last t i1 = lookup_last t i2.

Lemma items_sim_In i1 i2 t : items_sim i1 i2 -> (In t (map fst i1) <-> In t (map fst i2)).
Proof.
  intros H. specialize (H t).
  destruct (in_dec N.eq_dec t (map fst i1)) as [H1|H1], (in_dec N.eq_dec t (map fst i2)) as [H2|H2]; try tauto.
  - apply lookup_last_None in H2. rewrite H2 in H. apply lookup_last_None in H. contradiction.
  - apply lookup_last_None in H1. rewrite H1 in H. symmetry in H. apply lookup_last_None in H. contradiction.
Qed.

Lemma items_sim_all_in i1 i2 types : items_sim i1 i2 -> all_in (map fst i1) types = all_in (map fst i2) types.
Proof.
  intros H. destruct (all_in (map fst i2) types) eqn:E2.
  - apply all_in_spec. intros t Ht. apply (proj1 (all_in_spec _ _) E2). apply (items_sim_In _ _ _ H). exact Ht.
  - destruct (all_in (map fst i1) types) eqn:E1; [|reflexivity]. rewrite <- E2. symmetry.
    apply all_in_spec. intros t Ht. apply (proj1 (all_in_spec _ _) E1). apply (items_sim_In _ _ _ H). exact Ht.
Qed.

Lemma items_sim_mk_row i1 i2 : items_sim i1 i2 -> forall types, mk_row types i1 = mk_row types i2.
Proof. intros H. induction types as [|t r IH]; cbn [mk_row]; [reflexivity|]. rewrite (H t), IH. reflexivity. Qed.

Lemma items_sim_overwrite i1 i2 : items_sim i1 i2 -> forall vals, overwrite vals i1 = overwrite vals i2.
Proof. intros H. induction vals as [|[t v] r IH]; cbn [overwrite]; [reflexivity|]. rewrite (H t), IH. reflexivity. Qed.

Lemma items_sim_app i1 i2 k : items_sim i1 i2 -> items_sim (i1 ++ k) (i2 ++ k).
Proof. intros H t. rewrite !lookup_last_app, (H t). reflexivity. Qed.

Lemma items_sim_perm i1 i2 : NoDup (map fst i1) -> Permutation i1 i2 -> items_sim i1 i2.
Proof.
  intros Hnd P t.
  assert (Hnd2 : NoDup (map fst i2)) by (eapply Permutation_NoDup; [apply Permutation_map; exact P|exact Hnd]).
  rewrite (lookup_last_nodup _ _ Hnd), (lookup_last_nodup _ _ Hnd2).
  destruct (lookup_first t i1) as [v|] eqn:E1.
  - symmetry. apply lookup_first_In_nodup; [exact Hnd2|]. eapply Permutation_in; [exact P|].
    apply lookup_first_In_nodup; assumption.
  - symmetry. apply lookup_first_None. apply lookup_first_None in E1. intros Hin. apply E1.
    eapply Permutation_in; [apply Permutation_sym, Permutation_map; exact P|exact Hin].
Qed.

Lemma put_row_meq w1 w2 aid id i1 i2 :
  meq w1 w2 -> items_sim i1 i2 -> orel wrel (put_row w1 aid id i1) (put_row w2 aid id i2).
Proof.
  intros M Hs. meq_subst w1 w2 M. unfold put_row, get_arch, upd_arch, with_archs.
  cbn [w_ents w_archs w_index w_b2a w_ins w_rem].
  destruct (nthN _ aid) as [a|]; cbn [bind orel]; [|exact I].
  rewrite (items_sim_all_in _ _ _ Hs), (items_sim_mk_row _ _ Hs).
  destruct (negb _); cbn [orel]; [exact I|]. destruct (mk_row _ _) as [vals|]; cbn [orel]; [|exact I].
  unfold arch_push. cbn [orel]. repeat split.
Qed.

Lemma get_insert_target_meq u w1 w2 src b1 b2 :
  meq w1 w2 -> tsort u (b_types b1) = tsort u (b_types b2) ->
  orel wrel (get_insert_target u w1 src b1) (get_insert_target u w2 src b2).
Proof.
  intros M Ht. unfold get_insert_target. rewrite (get_arch_meq _ _ _ M), Ht.
  destruct (get_arch w2 src) as [a|]; cbn [bind orel]; [|exact I].
  destruct (assert_type_info u _) as [|[p|p|]]; cbn [orel]; auto.
  destruct (merge_loop _ _ _ _ _ _ _) as [[[rest added] replaced] retained].
  eapply orel_bind; [apply archs_get_meq; exact M|].
  intros [wa i] [wb j] _ _ (Mab & E). cbn [fst snd] in *. subst j. cbn [orel]. split; [exact Mab|reflexivity].
Qed.

(* ---- the memo tables only short-cut the computation (this is what wi_b2a / wi_ins / wi_rem say) ---- *)
Lemma bundle_archetype_nokey u w b :
  WStatic u w -> (forall k, b_key b = Some k -> tl k = b_types b) ->
  orel wrel (bundle_archetype u w b) (archs_get u w (tsort u (b_types b)) (tsort u (b_types b))).
Proof.
  intros S Hk. unfold bundle_archetype. destruct (b_key b) as [k|]; [|apply orel_refl; apply wrel_refl].
  specialize (Hk k eq_refl).
  destruct (assoc_list k (w_b2a w)) as [a|] eqn:Eb.
  - destruct (ws_b2a _ _ _ _ _ _ S _ _ Eb) as (_ & H2).
    assert (Hk1 : @tl tid k = b_types b) by exact Hk. assert (Hk2 : @tl N k = b_types b) by exact Hk.
    rewrite ?Hk1, ?Hk2 in H2.
    unfold archs_get. rewrite H2. cbn [orel]. apply wrel_refl.
  - destruct (archs_get u w _ _) as [[w1 a]|c]; cbn [bind orel]; [|exact I]. repeat split.
Qed.

Lemma nthN_atypes_inv w i tys : nthN (atypes w) i = Some tys -> exists a, nthN (w_archs w) i = Some a /\ a_types a = tys.
Proof.
  rewrite nthN_atypes. destruct (nthN (w_archs w) i) as [a|]; [|discriminate]. intros [= <-]. eauto.
Qed.

Lemma insert_target_nokey u w origin b :
  WStatic u w -> (forall k, b_key b = Some k -> tl k = b_types b) ->
  orel wrel (insert_target u w origin b) (get_insert_target u w origin b).
Proof.
  intros S Hk. unfold insert_target. destruct (b_key b) as [k|]; [|apply orel_refl; apply wrel_refl].
  specialize (Hk k eq_refl).
  destruct (assoc_pair origin k (w_ins w)) as [t|] eqn:Ei.
  - destruct (ws_ins _ _ _ _ _ _ S _ _ _ Ei) as (tys & Hty & Hs & Hm).
    assert (Hk1 : @tl tid k = b_types b) by exact Hk. assert (Hk2 : @tl N k = b_types b) by exact Hk.
    rewrite ?Hk1, ?Hk2 in Hs, Hm.
    apply nthN_atypes_inv in Hty as (a & Ha & <-).
    unfold get_insert_target, get_arch. rewrite Ha. cbn [bind]. rewrite Hs.
    destruct (merge_loop _ _ _ _ _ _ _) as [[[rest added] replaced] retained].
    destruct Hm as (H1 & H2 & H3). unfold archs_get. rewrite H3. cbn [bind orel].
    split; [apply meq_refl|]. cbn [snd]. destruct t as [rp rt ix]. cbn [it_replaced it_retained it_index] in *.
    subst. reflexivity.
  - destruct (get_insert_target u w origin b) as [[w1 t]|c]; cbn [bind orel]; [|exact I]. repeat split.
Qed.

Definition remove_target_nomemo (u : universe) (w : world) (old : N) (removed : list tid) : outcome (world * N) :=
  do a <- get_arch w old;
  let info := filter (fun x => negb (mem_tid x removed)) (a_types a) in
  archs_get u w info info.

Lemma remove_target_nokey u w old key removed :
  WStatic u w -> tl key = removed ->
  orel wrel (remove_target u w old key removed) (remove_target_nomemo u w old removed).
Proof.
  intros S Hk. unfold remove_target, remove_target_nomemo.
  destruct (assoc_pair old key (w_rem w)) as [i|] eqn:Er.
  - destruct (WStatic_rem _ _ _ _ _ S Er) as (a & Ha & Hi).
    assert (Hk1 : @tl tid key = removed) by exact Hk. assert (Hk2 : @tl N key = removed) by exact Hk.
    rewrite ?Hk1, ?Hk2 in Hi.
    unfold get_arch. rewrite Ha. cbn [bind]. unfold archs_get. rewrite Hi. cbn [orel]. apply wrel_refl.
  - destruct (get_arch w old) as [a|]; cbn [bind orel]; [|exact I].
    destruct (archs_get u w _ _) as [[w1 i]|c]; cbn [bind orel]; [|exact I]. repeat split.
Qed.

Lemma remove_target_nomemo_meq u w1 w2 old removed :
  meq w1 w2 -> orel wrel (remove_target_nomemo u w1 old removed) (remove_target_nomemo u w2 old removed).
Proof.
  intros M. unfold remove_target_nomemo. rewrite (get_arch_meq _ _ _ M).
  destruct (get_arch w2 old) as [a|]; cbn [bind orel]; [|exact I]. apply archs_get_meq. exact M.
Qed.

(* ---- combined: two worlds, two presentations of the same bundle ---- *)
Definition bsim (u : universe) (b1 b2 : bundle) : Prop :=
  tsort u (b_types b1) = tsort u (b_types b2) /\ items_sim (b_items b1) (b_items b2).

Definition key_ok (b : bundle) : Prop := forall k, b_key b = Some k -> tl k = b_types b.

Lemma bsim_perm u b1 b2 :
  total_inj u -> NoDup (b_types b1) -> Permutation (b_items b1) (b_items b2) -> bsim u b1 b2.
Proof.
  intros Hu Hnd P. split.
  - apply tsort_order_independent_stmt_proof; [intros x y _ _; apply Hu|exact Hnd|].
    unfold b_types. apply Permutation_map. exact P.
  - apply items_sim_perm; assumption.
Qed.

Lemma orel_wrel_trans {A} (o1 o2 o3 : outcome (world * A)) : orel wrel o1 o2 -> orel wrel o2 o3 -> orel wrel o1 o3.
Proof. apply orel_trans. intros a b c. apply wrel_trans. Qed.
Lemma orel_wrel_sym {A} (o1 o2 : outcome (world * A)) : orel wrel o1 o2 -> orel wrel o2 o1.
Proof. apply orel_sym. intros a b. apply wrel_sym. Qed.

Lemma bundle_archetype_meq u w1 w2 b1 b2 :
  meq w1 w2 -> WStatic u w1 -> WStatic u w2 -> key_ok b1 -> key_ok b2 ->
  tsort u (b_types b1) = tsort u (b_types b2) ->
  orel wrel (bundle_archetype u w1 b1) (bundle_archetype u w2 b2).
Proof.
  intros M S1 S2 K1 K2 Ht.
  eapply orel_wrel_trans; [apply bundle_archetype_nokey; assumption|].
  eapply orel_wrel_trans; [|apply orel_wrel_sym; apply bundle_archetype_nokey; assumption].
  rewrite Ht. apply archs_get_meq. exact M.
Qed.

Lemma insert_target_meq u w1 w2 origin b1 b2 :
  meq w1 w2 -> WStatic u w1 -> WStatic u w2 -> key_ok b1 -> key_ok b2 ->
  tsort u (b_types b1) = tsort u (b_types b2) ->
  orel wrel (insert_target u w1 origin b1) (insert_target u w2 origin b2).
Proof.
  intros M S1 S2 K1 K2 Ht.
  eapply orel_wrel_trans; [apply insert_target_nokey; assumption|].
  eapply orel_wrel_trans; [|apply orel_wrel_sym; apply insert_target_nokey; assumption].
  apply get_insert_target_meq; assumption.
Qed.

Lemma remove_target_meq u w1 w2 old key removed :
  meq w1 w2 -> WStatic u w1 -> WStatic u w2 -> tl key = removed ->
  orel wrel (remove_target u w1 old key removed) (remove_target u w2 old key removed).
Proof.
  intros M S1 S2 K.
  eapply orel_wrel_trans; [apply remove_target_nokey; assumption|].
  eapply orel_wrel_trans; [|apply orel_wrel_sym; apply remove_target_nokey; assumption].
  apply remove_target_nomemo_meq. exact M.
Qed.

Lemma meq_set_loc w1 w2 id l :
  meq w1 w2 -> meq (with_ents w1 (set_loc (w_ents w1) id l)) (with_ents w2 (set_loc (w_ents w2) id l)).
Proof. intros (A & B & C). unfold meq. cbn [with_ents w_ents w_archs w_index]. rewrite A. auto. Qed.

Lemma meq_with_ents w1 w2 e : meq w1 w2 -> meq (with_ents w1 e) (with_ents w2 e).
Proof. intros (A & B & C). unfold meq. cbn [with_ents w_ents w_archs w_index]. auto. Qed.

Lemma spawn_inner_meq u w1 w2 h b1 b2 :
  meq w1 w2 -> WStatic u w1 -> WStatic u w2 -> key_ok b1 -> key_ok b2 -> bsim u b1 b2 ->
  orel meq (spawn_inner u w1 h b1) (spawn_inner u w2 h b2).
Proof.
  intros M S1 S2 K1 K2 (Ht & Hi). unfold spawn_inner.
  eapply orel_bind; [apply bundle_archetype_meq; assumption|].
  intros [wa aid] [wb aid'] _ _ (Mab & E). cbn [fst snd] in *. subst aid'.
  eapply orel_bind; [apply put_row_meq; eassumption|].
  intros [wc i] [wd i'] _ _ (Mcd & E). cbn [fst snd] in *. subst i'. cbn [orel].
  apply meq_set_loc. exact Mcd.
Qed.

Lemma flush_static u w w0 : WInv u w -> fits w -> w_flush w = Done w0 -> WStatic u w0.
Proof. intros I F H. destruct (w_flush_spec _ _ _ I F H) as (P & _). apply (wp_static _ _ _ _ P). Qed.

Lemma fits_meq w1 w2 : meq w1 w2 -> fits w1 -> fits w2.
Proof. intros (A & _). unfold fits. rewrite A. auto. Qed.

Theorem w_spawn_meq u w1 w2 b1 b2 :
  meq w1 w2 -> WInv u w1 -> WInv u w2 -> fits w1 -> key_ok b1 -> key_ok b2 -> bsim u b1 b2 ->
  orel wrel (w_spawn u w1 b1) (w_spawn u w2 b2).
Proof.
  intros M I1 I2 F1 K1 K2 Hb. pose proof (fits_meq _ _ M F1) as F2. unfold w_spawn.
  eapply orel_bind; [apply w_flush_meq; exact M|].
  intros wa wb Ha Hb' Mab. pose proof (flush_static _ _ _ I1 F1 Ha) as Sa. pose proof (flush_static _ _ _ I2 F2 Hb') as Sb.
  rewrite (proj1 Mab). destruct (alloc (w_ents wb)) as [[e h]|c]; cbn [bind orel]; [|exact I].
  eapply orel_bind; [apply spawn_inner_meq; try assumption; apply meq_with_ents; exact Mab|].
  intros wc wd _ _ Mcd. cbn [orel]. split; [exact Mcd|reflexivity].
Qed.

Lemma insert_inner_meq u w1 w2 h b1 b2 origin l :
  meq w1 w2 -> WStatic u w1 -> WStatic u w2 -> key_ok b1 -> key_ok b2 -> bsim u b1 b2 ->
  orel wrel (insert_inner u w1 h b1 origin l) (insert_inner u w2 h b2 origin l).
Proof.
  intros M S1 S2 K1 K2 (Ht & Hi). unfold insert_inner.
  eapply orel_bind; [apply insert_target_meq; assumption|].
  intros [wa t] [wb t'] _ _ (Mab & E). cbn [fst snd] in *. subst t'.
  rewrite (get_row_meq _ _ l Mab). destruct (get_row wb l) as [[sa sr]|c]; cbn [bind orel]; [|exact I].
  destruct (lookup_all (it_replaced t) (r_vals sr)) as [dropped|]; cbn [orel]; [|exact I].
  destruct (N.eqb (it_index t) (l_arch l)).
  - unfold b_types. rewrite (items_sim_all_in _ _ _ Hi), (items_sim_overwrite _ _ Hi).
    destruct (negb _); cbn [orel]; [exact I|]. split; [|reflexivity]. cbn [fst].
    destruct Mab as (A & B & C). unfold meq, upd_arch, with_archs. cbn [w_ents w_archs w_index]. rewrite B. auto.
  - destruct (lookup_all (it_retained t) (r_vals sr)) as [kept|]; cbn [orel]; [|exact I].
    eapply orel_bind; [apply put_row_meq; [exact Mab|apply items_sim_app; exact Hi]|].
    intros [wc i] [wd i'] _ _ (Mcd & E). cbn [fst snd] in *. subst i'.
    eapply orel_bind; [apply detach_row_meq; apply meq_set_loc; exact Mcd|].
    intros [we r] [wf r'] _ _ (Mef & E). cbn [fst snd] in *. cbn [orel]. split; [exact Mef|reflexivity].
Qed.

Theorem w_insert_meq u w1 w2 h b1 b2 :
  meq w1 w2 -> WInv u w1 -> WInv u w2 -> fits w1 -> key_ok b1 -> key_ok b2 -> bsim u b1 b2 ->
  orel wrel (w_insert u w1 h b1) (w_insert u w2 h b2).
Proof.
  intros M I1 I2 F1 K1 K2 Hb. pose proof (fits_meq _ _ M F1) as F2. unfold w_insert.
  eapply orel_bind; [apply w_flush_meq; exact M|].
  intros wa wb Ha Hb' Mab. pose proof (flush_static _ _ _ I1 F1 Ha) as Sa. pose proof (flush_static _ _ _ I2 F2 Hb') as Sb.
  rewrite (proj1 Mab). destruct (get (w_ents wb) h) as [l|]; [|cbn [orel]; split; [exact Mab|reflexivity]].
  eapply orel_bind; [apply insert_inner_meq; assumption|].
  intros [wc d] [wd d'] _ _ (Mcd & E). cbn [fst snd] in *. subst d'. cbn [orel]. split; [exact Mcd|reflexivity].
Qed.

Theorem w_remove_meq u w1 w2 h key ts :
  meq w1 w2 -> WInv u w1 -> WInv u w2 -> fits w1 -> tl key = ts ->
  orel wrel (w_remove u w1 h key ts) (w_remove u w2 h key ts).
Proof.
  intros M I1 I2 F1 K. pose proof (fits_meq _ _ M F1) as F2. unfold w_remove.
  eapply orel_bind; [apply w_flush_meq; exact M|].
  intros wa wb Ha Hb' Mab. pose proof (flush_static _ _ _ I1 F1 Ha) as Sa. pose proof (flush_static _ _ _ I2 F2 Hb') as Sb.
  rewrite (proj1 Mab). destruct (get_mut (w_ents wb) h) as [l|]; [|cbn [orel]; split; [exact Mab|reflexivity]].
  rewrite (get_row_meq _ _ l Mab). destruct (get_row wb l) as [[sa sr]|c]; cbn [bind orel]; [|exact I].
  destruct (dup_check u ts) as [[]|c]; cbn [bind orel]; [|exact I].
  destruct (lookup_all ts (r_vals sr)) as [taken|]; [|cbn [orel]; split; [exact Mab|reflexivity]].
  eapply orel_bind; [apply remove_target_meq; assumption|].
  intros [wc target] [wd target'] _ _ (Mcd & E). cbn [fst snd] in *. subst target'.
  destruct (N.eqb (l_arch l) target); [cbn [orel]; split; [exact Mcd|reflexivity]|].
  rewrite (get_arch_meq _ _ target Mcd). destruct (get_arch wd target) as [ta|]; cbn [bind orel]; [|exact I].
  eapply orel_bind; [apply put_row_meq; [exact Mcd|intros t; reflexivity]|].
  intros [we i] [wf i'] _ _ (Mef & E). cbn [fst snd] in *. subst i'.
  eapply orel_bind; [apply detach_row_meq; apply meq_set_loc; exact Mef|].
  intros [wg r] [wh r'] _ _ (Mgh & E). cbn [fst snd] in *. cbn [orel]. split; [exact Mgh|reflexivity].
Qed.

Theorem w_despawn_meq w1 w2 h :
  meq w1 w2 -> orel wrel (w_despawn w1 h) (w_despawn w2 h).
Proof.
  intros M. unfold w_despawn.
  eapply orel_bind; [apply w_flush_meq; exact M|].
  intros wa wb _ _ Mab. rewrite (proj1 Mab).
  destruct (free (w_ents wb) h) as [[[e l]|]|c]; cbn [bind orel]; [| |exact I].
  - eapply orel_bind; [apply detach_row_meq; apply meq_with_ents; exact Mab|].
    intros [wc r] [wd r'] _ _ (Mcd & E). cbn [fst snd] in *. subst r'. cbn [orel]. split; [exact Mcd|reflexivity].
  - split; [exact Mab|reflexivity].
Qed.
