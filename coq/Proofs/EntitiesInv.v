(* Invariant of the id allocator and a per-operation description of [estep]. *)
From Coq Require Import List NArith ZArith Bool Lia ZifyBool ZifyNat ZifyN Permutation.
From HecsV Require Import Base.ListN Base.ListNFacts Base.ListNMore Model.EntityBits Model.Entities
  Proofs.EntitiesSpec.
Import ListNotations.
Open Scope N_scope.

(* ------------------------------------------------------------ abstract view of the meta table *)
Definition isl (l : loc) : bool := negb (N.eqb (l_idx l) SENT).
Definition isloc (m : emeta) : bool := isl (m_loc m).
Definition cntf (m : emeta) : N := if isloc m then 1 else 0.
Definition cnt (l : list emeta) : N := sumf cntf l.
(* status of an id: None = beyond the table, Some false = no row, Some true = has a row *)
Definition stl (l : list emeta) (x : N) : option bool := option_map isloc (nthN l x).
Definition genl (l : list emeta) (x : N) : N :=
  match nthN l x with Some m => m_gen m | None => 1 end.

Lemma gen_of_genl e x : gen_of e x = genl (meta e) x.
Proof. reflexivity. Qed.

Lemma located_count_cnt e : located_count e = cnt (meta e).
Proof.
  unfold located_count, cnt. induction (meta e) as [|m l IH]; [reflexivity|].
  cbn [filter sumf]. unfold cntf at 1. unfold isloc, isl.
  destruct (negb (N.eqb (l_idx (m_loc m)) SENT)); cbn [lenN]; rewrite IH; lia.
Qed.

Lemma nf_false e : needs_flush e = false <-> cursor e = Z.of_N (lenN (pending e)).
Proof.
  unfold needs_flush. destruct (Z.eqb_spec (cursor e) (Z.of_N (lenN (pending e)))) as [E|E];
    cbn [negb]; split; intros H; try congruence; try reflexivity.
Qed.

Lemma stl_None l x : stl l x = None <-> lenN l <= x.
Proof.
  unfold stl. destruct (nthN l x) as [m|] eqn:E; cbn [option_map].
  - apply nthN_Some_lt in E. split; [discriminate|lia].
  - apply nthN_None_ge in E. split; [intros _; exact E|reflexivity].
Qed.

Lemma stl_Some_lt l x b : stl l x = Some b -> x < lenN l.
Proof.
  intros H. destruct (N.lt_ge_cases x (lenN l)) as [Hlt|Hge]; [exact Hlt|].
  apply stl_None in Hge. congruence.
Qed.

Lemma stl_ge l x : lenN l <= x -> stl l x = None.
Proof. apply stl_None. Qed.

Lemma genl_ge l x : lenN l <= x -> genl l x = 1.
Proof.
  intros H. unfold genl. destruct (nthN l x) as [m|] eqn:E; [|reflexivity].
  apply nthN_Some_lt in E. lia.
Qed.

Lemma stl_Some_nth l x b : stl l x = Some b -> exists m, nthN l x = Some m /\ isloc m = b.
Proof.
  unfold stl. destruct (nthN l x) as [m|]; cbn [option_map]; [|discriminate].
  intros [= <-]. eauto.
Qed.

Lemma stl_updN l i m v x :
  nthN l i = Some m -> stl (updN l i v) x = if N.eqb x i then Some (isloc v) else stl l x.
Proof.
  intros H. unfold stl. destruct (N.eqb_spec x i) as [->|Hne].
  - rewrite nthN_updN_eq by (eapply nthN_Some_lt; exact H). reflexivity.
  - rewrite nthN_updN_ne by congruence. reflexivity.
Qed.

Lemma genl_updN l i m v x :
  nthN l i = Some m -> genl (updN l i v) x = if N.eqb x i then m_gen v else genl l x.
Proof.
  intros H. unfold genl. destruct (N.eqb_spec x i) as [->|Hne].
  - rewrite nthN_updN_eq by (eapply nthN_Some_lt; exact H). reflexivity.
  - rewrite nthN_updN_ne by congruence. reflexivity.
Qed.

Lemma cnt_updN l i m v : nthN l i = Some m -> cnt (updN l i v) + cntf m = cnt l + cntf v.
Proof. apply sumf_updN. Qed.

Lemma stl_app l1 l2 x :
  stl (l1 ++ l2) x = if N.ltb x (lenN l1) then stl l1 x else stl l2 (x - lenN l1).
Proof.
  unfold stl. destruct (N.ltb_spec x (lenN l1)).
  - rewrite nthN_app1 by assumption. reflexivity.
  - rewrite nthN_app2 by assumption. reflexivity.
Qed.

Lemma genl_app l1 l2 x :
  genl (l1 ++ l2) x = if N.ltb x (lenN l1) then genl l1 x else genl l2 (x - lenN l1).
Proof.
  unfold genl. destruct (N.ltb_spec x (lenN l1)).
  - rewrite nthN_app1 by assumption. reflexivity.
  - rewrite nthN_app2 by assumption. reflexivity.
Qed.

Lemma cnt_app l1 l2 : cnt (l1 ++ l2) = cnt l1 + cnt l2.
Proof. apply sumf_app. Qed.

Lemma stl_repeat_empty k x :
  stl (repeatN EMPTY_META k) x = if N.ltb x k then Some false else None.
Proof.
  destruct (N.ltb_spec x k) as [H|H].
  - unfold stl. rewrite nthN_repeatN by exact H. reflexivity.
  - apply stl_ge. rewrite lenN_repeatN. exact H.
Qed.

Lemma genl_repeat_empty k x : genl (repeatN EMPTY_META k) x = 1.
Proof.
  destruct (N.ltb_spec x k) as [H|H].
  - unfold genl. rewrite nthN_repeatN by exact H. reflexivity.
  - apply genl_ge. rewrite lenN_repeatN. exact H.
Qed.

Lemma cnt_repeat_empty k : cnt (repeatN EMPTY_META k) = 0.
Proof.
  apply sumf_zero. intros m Hm. apply In_repeatN in Hm. subst m. reflexivity.
Qed.

(* extending the table by empty slots *)
Lemma stl_extend l k x :
  stl (l ++ repeatN EMPTY_META k) x =
  if N.ltb x (lenN l) then stl l x else if N.ltb x (lenN l + k) then Some false else None.
Proof.
  rewrite stl_app, stl_repeat_empty. destruct (N.ltb_spec x (lenN l)); [reflexivity|].
  destruct (N.ltb_spec (x - lenN l) k); destruct (N.ltb_spec x (lenN l + k)); try reflexivity; lia.
Qed.

Lemma genl_extend l k x : genl (l ++ repeatN EMPTY_META k) x = genl l x.
Proof.
  rewrite genl_app, genl_repeat_empty. destruct (N.ltb_spec x (lenN l)); [reflexivity|].
  symmetry. apply genl_ge. assumption.
Qed.

Lemma cnt_extend l k : cnt (l ++ repeatN EMPTY_META k) = cnt l.
Proof. rewrite cnt_app, cnt_repeat_empty. lia. Qed.

(* ------------------------------------------------------------ set_loc *)
Lemma set_loc_pending e id l : pending (set_loc e id l) = pending e.
Proof. unfold set_loc. destruct (nthN (meta e) id); reflexivity. Qed.
Lemma set_loc_cursor e id l : cursor (set_loc e id l) = cursor e.
Proof. unfold set_loc. destruct (nthN (meta e) id); reflexivity. Qed.
Lemma set_loc_elen e id l : elen (set_loc e id l) = elen e.
Proof. unfold set_loc. destruct (nthN (meta e) id); reflexivity. Qed.
Lemma set_loc_lenN e id l : lenN (meta (set_loc e id l)) = lenN (meta e).
Proof. unfold set_loc. destruct (nthN (meta e) id); cbn [meta]; [apply lenN_updN|reflexivity]. Qed.

Lemma stl_set_loc e id l x :
  stl (meta (set_loc e id l)) x =
  if N.eqb x id then option_map (fun _ => isl l) (stl (meta e) x) else stl (meta e) x.
Proof.
  unfold set_loc. destruct (nthN (meta e) id) as [m|] eqn:E; cbn [meta].
  - rewrite (stl_updN _ _ m) by exact E. destruct (N.eqb_spec x id) as [->|]; [|reflexivity].
    unfold stl. rewrite E. reflexivity.
  - destruct (N.eqb_spec x id) as [->|]; [|reflexivity]. unfold stl. rewrite E. reflexivity.
Qed.

Lemma genl_set_loc e id l x : genl (meta (set_loc e id l)) x = genl (meta e) x.
Proof.
  unfold set_loc. destruct (nthN (meta e) id) as [m|] eqn:E; cbn [meta]; [|reflexivity].
  rewrite (genl_updN _ _ m) by exact E. destruct (N.eqb_spec x id) as [->|]; [|reflexivity].
  unfold genl. rewrite E. reflexivity.
Qed.

Definition b2n (b : bool) : N := if b then 1 else 0.

Lemma cnt_set_loc e id l b :
  stl (meta e) id = Some b -> cnt (meta (set_loc e id l)) + b2n b = cnt (meta e) + b2n (isl l).
Proof.
  intros H. apply stl_Some_nth in H. destruct H as (m & E & Hb).
  unfold set_loc. rewrite E. cbn [meta]. rewrite <- Hb.
  apply (cnt_updN _ _ m). exact E.
Qed.

Lemma set_loc_beyond e id l : lenN (meta e) <= id -> set_loc e id l = e.
Proof.
  intros H. unfold set_loc. destruct (nthN (meta e) id) eqn:E; [|reflexivity].
  apply nthN_Some_lt in E. lia.
Qed.

(* ------------------------------------------------------------ set_idx / set_idxs *)
Lemma set_idx_pending e id i : pending (set_idx e id i) = pending e.
Proof. unfold set_idx. destruct (nthN (meta e) id); [apply set_loc_pending|reflexivity]. Qed.
Lemma set_idx_cursor e id i : cursor (set_idx e id i) = cursor e.
Proof. unfold set_idx. destruct (nthN (meta e) id); [apply set_loc_cursor|reflexivity]. Qed.
Lemma set_idx_elen e id i : elen (set_idx e id i) = elen e.
Proof. unfold set_idx. destruct (nthN (meta e) id); [apply set_loc_elen|reflexivity]. Qed.
Lemma set_idx_lenN e id i : lenN (meta (set_idx e id i)) = lenN (meta e).
Proof. unfold set_idx. destruct (nthN (meta e) id); [apply set_loc_lenN|reflexivity]. Qed.

Lemma stl_set_idx e id i x :
  stl (meta (set_idx e id i)) x =
  if N.eqb x id then option_map (fun _ => negb (N.eqb i SENT)) (stl (meta e) x) else stl (meta e) x.
Proof.
  unfold set_idx. destruct (nthN (meta e) id) as [m|] eqn:E.
  - rewrite stl_set_loc. reflexivity.
  - destruct (N.eqb_spec x id) as [->|]; [|reflexivity]. unfold stl. rewrite E. reflexivity.
Qed.

Lemma genl_set_idx e id i x : genl (meta (set_idx e id i)) x = genl (meta e) x.
Proof. unfold set_idx. destruct (nthN (meta e) id); [apply genl_set_loc|reflexivity]. Qed.

Lemma cnt_set_idx e id i b :
  stl (meta e) id = Some b ->
  cnt (meta (set_idx e id i)) + b2n b = cnt (meta e) + b2n (negb (N.eqb i SENT)).
Proof.
  intros H. unfold set_idx. destruct (nthN (meta e) id) as [m|] eqn:E.
  - exact (cnt_set_loc e id {| l_arch := l_arch (m_loc m); l_idx := i |} b H).
  - unfold stl in H. rewrite E in H. discriminate.
Qed.

Lemma set_idxs_pending e ids f : pending (set_idxs e ids f) = pending e.
Proof. revert e; induction ids as [|a r IH]; intros e; cbn [set_idxs]; [reflexivity|]. rewrite IH. apply set_idx_pending. Qed.
Lemma set_idxs_cursor e ids f : cursor (set_idxs e ids f) = cursor e.
Proof. revert e; induction ids as [|a r IH]; intros e; cbn [set_idxs]; [reflexivity|]. rewrite IH. apply set_idx_cursor. Qed.
Lemma set_idxs_elen e ids f : elen (set_idxs e ids f) = elen e.
Proof. revert e; induction ids as [|a r IH]; intros e; cbn [set_idxs]; [reflexivity|]. rewrite IH. apply set_idx_elen. Qed.
Lemma set_idxs_lenN e ids f : lenN (meta (set_idxs e ids f)) = lenN (meta e).
Proof. revert e; induction ids as [|a r IH]; intros e; cbn [set_idxs]; [reflexivity|]. rewrite IH. apply set_idx_lenN. Qed.
Lemma genl_set_idxs e ids f x : genl (meta (set_idxs e ids f)) x = genl (meta e) x.
Proof. revert e; induction ids as [|a r IH]; intros e; cbn [set_idxs]; [reflexivity|]. rewrite IH. apply genl_set_idx. Qed.

Lemma stl_set_idxs e ids f x :
  (forall id, f id <> SENT) ->
  stl (meta (set_idxs e ids f)) x =
  if memN x ids then option_map (fun _ => true) (stl (meta e) x) else stl (meta e) x.
Proof.
  intros Hf. revert e; induction ids as [|a r IH]; intros e; cbn [set_idxs memN]; [reflexivity|].
  rewrite IH, stl_set_idx. destruct (N.eqb_spec x a) as [->|Hne].
  - destruct (N.eqb_spec (f a) SENT) as [Hs|Hs]; [exfalso; exact (Hf a Hs)|]. cbn [negb].
    destruct (memN a r); destruct (stl (meta e) a); reflexivity.
  - reflexivity.
Qed.

Lemma cnt_set_idxs e ids f :
  (forall id, f id <> SENT) -> NoDup ids -> (forall x, In x ids -> stl (meta e) x = Some false) ->
  cnt (meta (set_idxs e ids f)) = cnt (meta e) + lenN ids.
Proof.
  intros Hf. revert e; induction ids as [|a r IH]; intros e Hnd Hall; cbn [set_idxs lenN]; [lia|].
  inversion Hnd as [|? ? Ha Hnd']; subst. rewrite IH.
  - pose proof (cnt_set_idx e a (f a) false (Hall a (or_introl eq_refl))) as H.
    destruct (N.eqb_spec (f a) SENT) as [Hs|Hs]; [exfalso; exact (Hf a Hs)|].
    cbn [negb b2n] in H. lia.
  - exact Hnd'.
  - intros x Hx. rewrite stl_set_idx. destruct (N.eqb_spec x a) as [->|Hne]; [contradiction|].
    apply Hall. right; exact Hx.
Qed.

(* ------------------------------------------------------------ set_locs *)
Lemma set_locs_pending e ids a f : pending (set_locs e ids a f) = pending e.
Proof. revert e f; induction ids as [|i r IH]; intros e f; cbn [set_locs]; [reflexivity|]. rewrite IH. apply set_loc_pending. Qed.
Lemma set_locs_cursor e ids a f : cursor (set_locs e ids a f) = cursor e.
Proof. revert e f; induction ids as [|i r IH]; intros e f; cbn [set_locs]; [reflexivity|]. rewrite IH. apply set_loc_cursor. Qed.
Lemma set_locs_elen e ids a f : elen (set_locs e ids a f) = elen e.
Proof. revert e f; induction ids as [|i r IH]; intros e f; cbn [set_locs]; [reflexivity|]. rewrite IH. apply set_loc_elen. Qed.
Lemma set_locs_lenN e ids a f : lenN (meta (set_locs e ids a f)) = lenN (meta e).
Proof. revert e f; induction ids as [|i r IH]; intros e f; cbn [set_locs]; [reflexivity|]. rewrite IH. apply set_loc_lenN. Qed.
Lemma genl_set_locs e ids a f x : genl (meta (set_locs e ids a f)) x = genl (meta e) x.
Proof. revert e f; induction ids as [|i r IH]; intros e f; cbn [set_locs]; [reflexivity|]. rewrite IH. apply genl_set_loc. Qed.

Lemma stl_set_locs e ids a f x :
  f + lenN ids <= SENT ->
  stl (meta (set_locs e ids a f)) x =
  if memN x ids then option_map (fun _ => true) (stl (meta e) x) else stl (meta e) x.
Proof.
  revert e f; induction ids as [|i r IH]; intros e f Hf; cbn [set_locs memN]; [reflexivity|].
  cbn [lenN] in Hf. rewrite IH by lia. rewrite stl_set_loc. destruct (N.eqb_spec x i) as [->|Hne].
  - unfold isl. cbn [l_idx]. destruct (N.eqb_spec f SENT) as [Hs|Hs]; [lia|]. cbn [negb].
    destruct (memN i r); destruct (stl (meta e) i); reflexivity.
  - reflexivity.
Qed.

Lemma cnt_set_locs e ids a f :
  f + lenN ids <= SENT -> NoDup ids -> (forall x, In x ids -> stl (meta e) x = Some false) ->
  cnt (meta (set_locs e ids a f)) = cnt (meta e) + lenN ids.
Proof.
  revert e f; induction ids as [|i r IH]; intros e f Hf Hnd Hall; cbn [set_locs lenN]; [lia|].
  cbn [lenN] in Hf. inversion Hnd as [|? ? Hi Hnd']; subst. rewrite IH.
  - pose proof (cnt_set_loc e i {| l_arch := a; l_idx := f |} false (Hall i (or_introl eq_refl))) as H.
    unfold isl in H. cbn [l_idx] in H.
    destruct (N.eqb_spec f SENT) as [Hs|Hs]; [lia|]. cbn [negb b2n] in H. lia.
  - lia.
  - exact Hnd'.
  - intros x Hx. rewrite stl_set_loc. destruct (N.eqb_spec x i) as [->|Hne]; [contradiction|].
    apply Hall. right; exact Hx.
Qed.

(* ------------------------------------------------------------ the invariant *)
Record EInv (e : entities) : Prop := {
  ei_nodup : NoDup (pending e);
  ei_pend : forall x, In x (pending e) <-> stl (meta e) x = Some false;
  ei_cur : (cursor e <= Z.of_N (lenN (pending e)))%Z;
  ei_len : elen e = cnt (meta e) }.

Lemma EInv_empty : EInv ents_empty.
Proof.
  constructor; cbn [ents_empty pending meta cursor elen].
  - constructor.
  - intros x. cbn [In]. unfold stl. cbn. split; [tauto|discriminate].
  - cbn. lia.
  - reflexivity.
Qed.

Lemma EInv_pend_lt e x : EInv e -> In x (pending e) -> x < lenN (meta e).
Proof. intros I H. apply (ei_pend e I) in H. eapply stl_Some_lt; exact H. Qed.

Lemma EInv_cur_nonneg_le e : EInv e -> Z.to_N (Z.max (cursor e) 0) <= lenN (pending e).
Proof. intros I. pose proof (ei_cur e I). lia. Qed.

(* ------------------------------------------------------------ "fill" transitions
   spawn, flush and batch all turn the free-list tail from position j on, plus k brand-new ids,
   into entities with a row, and truncate the free list to its first j entries. *)
Definition filled (e : entities) (j k x : N) : bool :=
  memN x (dropN j (pending e)) || (N.leb (lenN (meta e)) x && N.ltb x (lenN (meta e) + k)).

Lemma filled_iff e j k x :
  filled e j k x = true <-> In x (dropN j (pending e)) \/ (lenN (meta e) <= x < lenN (meta e) + k).
Proof.
  unfold filled. rewrite orb_true_iff, andb_true_iff, memN_In, N.leb_le, N.ltb_lt. tauto.
Qed.

Record Fill (e e' : entities) (j k : N) : Prop := {
  fl_j : (Z.of_N j <= Z.max (cursor e) 0)%Z;
  fl_k : (- cursor e <= Z.of_N k)%Z;
  fl_pend : pending e' = takeN j (pending e);
  fl_cur : cursor e' = Z.of_N j;
  fl_elen : elen e' = elen e + (lenN (pending e) - j) + k;
  fl_st : forall x, stl (meta e') x = if filled e j k x then Some true else stl (meta e) x;
  fl_gen : forall x, genl (meta e') x = genl (meta e) x;
  fl_cnt : cnt (meta e') = cnt (meta e) + (lenN (pending e) - j) + k }.

Lemma Fill_j_le e e' j k : EInv e -> Fill e e' j k -> j <= lenN (pending e).
Proof. intros I F. pose proof (ei_cur e I). pose proof (fl_j _ _ _ _ F). lia. Qed.

Lemma Fill_flushed e e' j k : EInv e -> Fill e e' j k -> needs_flush e' = false.
Proof.
  intros I F. apply nf_false. rewrite (fl_cur _ _ _ _ F), (fl_pend _ _ _ _ F), lenN_takeN.
  pose proof (Fill_j_le _ _ _ _ I F). lia.
Qed.

Lemma Fill_EInv e e' j k : EInv e -> Fill e e' j k -> EInv e'.
Proof.
  intros I F. pose proof (Fill_j_le _ _ _ _ I F) as Hj. destruct F as [Fj Fk Fp Fc Fe Fs Fg Fn].
  constructor.
  - rewrite Fp. apply NoDup_takeN. apply (ei_nodup e I).
  - intros x. rewrite Fp, Fs. split.
    + intros Hx. pose proof (In_takeN _ _ _ Hx) as Hx'. apply (ei_pend e I) in Hx'.
      destruct (filled e j k x) eqn:Ef; [|exact Hx'].
      apply filled_iff in Ef. destruct Ef as [Hd|Hr].
      * exfalso. exact (NoDup_takeN_dropN_disj j _ x (ei_nodup e I) Hx Hd).
      * apply stl_Some_lt in Hx'. lia.
    + intros Hx. destruct (filled e j k x) eqn:Ef; [discriminate|].
      apply (ei_pend e I) in Hx. destruct (In_split_takeN_dropN j _ x Hx) as [Ht|Hd]; [exact Ht|].
      assert (filled e j k x = true) by (apply filled_iff; left; exact Hd). congruence.
  - rewrite Fc, Fp, lenN_takeN. lia.
  - rewrite Fe, Fn. rewrite (ei_len e I). reflexivity.
Qed.

(* ------------------------------------------------------------ OSpawn *)
Lemma spawn_spec e l e' hs :
  EInv e -> isl l = true -> estep e (OSpawn l) = Done (e', hs) ->
  needs_flush e = false /\
  exists j k id, Fill e e' j k /\ hs = [{| e_id := id; e_gen := genl (meta e) id |}] /\
                 (forall x, filled e j k x = true <-> x = id).
Proof.
  intros I Hl. unfold estep, alloc. destruct (needs_flush e) eqn:Enf; [discriminate|].
  intros H. split; [reflexivity|]. pose proof (proj1 (nf_false e) Enf) as Ec. revert H.
  destruct (lastN (pending e)) as [id|] eqn:EL.
  - intros [= <- <-]. cbn [e_id]. apply lastN_Some in EL.
    set (p := removelastN (pending e)) in *.
    assert (Hid : stl (meta e) id = Some false).
    { apply (ei_pend e I). rewrite EL. apply in_or_app. right. left. reflexivity. }
    assert (Hlen : lenN (pending e) = lenN p + 1) by (rewrite EL, lenN_app; cbn [lenN]; lia).
    assert (Hdrop : dropN (lenN p) (pending e) = [id]) by (rewrite EL; apply dropN_app_exact).
    assert (Hfil : forall x, filled e (lenN p) 0 x = true <-> x = id).
    { intros x. rewrite filled_iff, Hdrop. cbn [In]. lia. }
    exists (lenN p), 0, id. split; [|split; [reflexivity|exact Hfil]].
    constructor; rewrite ?set_loc_pending, ?set_loc_cursor, ?set_loc_elen; cbn [meta pending cursor elen].
    + lia.
    + lia.
    + rewrite EL. symmetry. apply takeN_app_exact.
    + reflexivity.
    + lia.
    + intros x. rewrite stl_set_loc. cbn [meta]. rewrite Hl.
      destruct (N.eqb_spec x id) as [->|Hne].
      * rewrite (proj2 (Hfil id) eq_refl), Hid. reflexivity.
      * destruct (filled e (lenN p) 0 x) eqn:Ef; [|reflexivity]. apply Hfil in Ef. contradiction.
    + intros x. rewrite genl_set_loc. reflexivity.
    + pose proof (cnt_set_loc {| meta := meta e; pending := p; cursor := Z.of_N (lenN p); elen := elen e + 1 |}
                    id l false Hid) as H. cbn [meta] in H. rewrite Hl in H. cbn [b2n] in H. lia.
  - apply lastN_None in EL. destruct (N.leb_spec W32 (lenN (meta e))) as [Hw|Hw]; [discriminate|].
    intros [= <- <-]. cbn [e_id]. rewrite EL in Ec. cbn [lenN] in Ec.
    assert (Hfil : forall x, filled e 0 1 x = true <-> x = lenN (meta e)).
    { intros x. rewrite filled_iff, EL. cbn [dropN In]. lia. }
    exists 0, 1, (lenN (meta e)). split; [|split; [|exact Hfil]].
    + assert (Hid : stl (meta e ++ [EMPTY_META]) (lenN (meta e)) = Some false).
      { unfold stl. rewrite nthN_snoc_last. reflexivity. }
      constructor; rewrite ?set_loc_pending, ?set_loc_cursor, ?set_loc_elen; cbn [meta pending cursor elen].
      * lia.
      * lia.
      * rewrite EL. reflexivity.
      * lia.
      * rewrite EL. cbn [lenN]. lia.
      * intros x. rewrite stl_set_loc. cbn [meta]. rewrite Hl.
        destruct (N.eqb_spec x (lenN (meta e))) as [->|Hne].
        -- rewrite (proj2 (Hfil _) eq_refl), Hid. reflexivity.
        -- destruct (filled e 0 1 x) eqn:Ef; [apply Hfil in Ef; contradiction|].
           rewrite <- (repeatN_1 EMPTY_META), stl_extend.
           destruct (N.ltb_spec x (lenN (meta e))); [reflexivity|].
           destruct (N.ltb_spec x (lenN (meta e) + 1)); [lia|]. symmetry. apply stl_ge. lia.
      * intros x. rewrite genl_set_loc. cbn [meta]. rewrite <- (repeatN_1 EMPTY_META). apply genl_extend.
      * pose proof (cnt_set_loc {| meta := meta e ++ [EMPTY_META]; pending := pending e; cursor := cursor e;
                                   elen := elen e + 1 |} (lenN (meta e)) l false Hid) as H.
        cbn [meta] in H. rewrite Hl in H. cbn [b2n] in H.
        rewrite <- (repeatN_1 EMPTY_META), cnt_extend in H.
        assert (lenN (pending e) = 0) by (rewrite EL; reflexivity).
        rewrite <- (repeatN_1 EMPTY_META). lia.
    + f_equal. f_equal. symmetry. apply genl_ge. lia.
Qed.

(* ------------------------------------------------------------ OFlush *)
Lemma flush_eq e :
  EInv e ->
  flush e = Done ({| meta := meta e ++ repeatN EMPTY_META (Z.to_N (Z.max (- cursor e) 0));
                     pending := takeN (Z.to_N (Z.max (cursor e) 0)) (pending e);
                     cursor := Z.of_N (Z.to_N (Z.max (cursor e) 0));
                     elen := elen e + Z.to_N (Z.max (- cursor e) 0)
                             + (lenN (pending e) - Z.to_N (Z.max (cursor e) 0)) |},
                  seqN (lenN (meta e)) (Z.to_N (Z.max (- cursor e) 0))
                  ++ dropN (Z.to_N (Z.max (cursor e) 0)) (pending e)).
Proof.
  intros I. pose proof (ei_cur e I) as Hc. unfold flush.
  destruct (Z.leb_spec 0 (cursor e)) as [H0|H0]; cbv beta iota zeta.
  - replace (Z.to_N (Z.max (cursor e) 0)) with (Z.to_N (cursor e)) by lia.
    replace (Z.to_N (Z.max (- cursor e) 0)) with 0 by lia.
    destruct (N.ltb_spec (lenN (pending e)) (Z.to_N (cursor e))) as [Hlt|Hge]; [lia|].
    rewrite repeatN_0, app_nil_r, seqN_0, N.add_0_r. reflexivity.
  - replace (Z.to_N (Z.max (cursor e) 0)) with 0 by lia.
    replace (Z.to_N (Z.max (- cursor e) 0)) with (Z.to_N (- cursor e)) by lia.
    destruct (N.ltb_spec (lenN (pending e)) 0) as [Hlt|Hge]; [lia|]. reflexivity.
Qed.

Lemma flush_spec e f e' hs :
  EInv e -> (forall id, f id <> SENT) -> estep e (OFlush f) = Done (e', hs) ->
  hs = [] /\ Fill e e' (Z.to_N (Z.max (cursor e) 0)) (Z.to_N (Z.max (- cursor e) 0)).
Proof.
  intros I Hf. pose proof (ei_cur e I) as Hc. unfold estep. rewrite (flush_eq e I).
  set (nc := Z.to_N (Z.max (cursor e) 0)). set (k := Z.to_N (Z.max (- cursor e) 0)).
  set (ids := seqN (lenN (meta e)) k ++ dropN nc (pending e)).
  set (e1 := {| meta := meta e ++ repeatN EMPTY_META k; pending := takeN nc (pending e);
                cursor := Z.of_N nc; elen := elen e + k + (lenN (pending e) - nc) |}).
  intros [= <- <-]. split; [reflexivity|].
  assert (Hmem : forall x, memN x ids = filled e nc k x).
  { intros x. destruct (filled e nc k x) eqn:Ef.
    - apply memN_In. apply filled_iff in Ef. unfold ids. apply in_or_app.
      destruct Ef as [Hd|Hr]; [right; exact Hd|left; apply In_seqN; exact Hr].
    - apply memN_false. intros Hin. unfold ids in Hin. apply in_app_or in Hin.
      assert (filled e nc k x = true); [|congruence]. apply filled_iff.
      destruct Hin as [Hs|Hd]; [right; apply In_seqN; exact Hs|left; exact Hd]. }
  assert (Hids : forall x, In x ids -> stl (meta e1) x = Some false).
  { intros x Hin. unfold e1. cbn [meta]. rewrite stl_extend. unfold ids in Hin.
    apply in_app_or in Hin. destruct Hin as [Hs|Hd].
    - apply In_seqN in Hs. destruct (N.ltb_spec x (lenN (meta e))); [lia|].
      destruct (N.ltb_spec x (lenN (meta e) + k)); [reflexivity|lia].
    - apply In_dropN in Hd. apply (ei_pend e I) in Hd. pose proof (stl_Some_lt _ _ _ Hd).
      destruct (N.ltb_spec x (lenN (meta e))); [exact Hd|lia]. }
  constructor; rewrite ?set_idxs_pending, ?set_idxs_cursor, ?set_idxs_elen.
  1-5: unfold e1; cbn [meta pending cursor elen].
  - lia.
  - lia.
  - reflexivity.
  - reflexivity.
  - lia.
  - intros x. rewrite (stl_set_idxs _ _ _ _ Hf), Hmem.
    destruct (filled e nc k x) eqn:Ef.
    + rewrite <- Hmem in Ef. apply memN_In in Ef. rewrite (Hids x Ef). reflexivity.
    + unfold e1. cbn [meta]. rewrite stl_extend.
      destruct (N.ltb_spec x (lenN (meta e))); [reflexivity|].
      destruct (N.ltb_spec x (lenN (meta e) + k)).
      * assert (filled e nc k x = true); [|congruence]. apply filled_iff. right. lia.
      * symmetry. apply stl_ge. lia.
  - intros x. rewrite genl_set_idxs. apply genl_extend.
  - rewrite (cnt_set_idxs e1 ids f Hf).
    + unfold e1. cbn [meta]. rewrite cnt_extend. unfold ids. rewrite lenN_app, lenN_seqN, lenN_dropN. lia.
    + unfold ids. apply NoDup_app_intro.
      * apply NoDup_seqN.
      * apply NoDup_dropN. apply (ei_nodup e I).
      * intros x Hs Hd. apply In_seqN in Hs. apply In_dropN in Hd.
        pose proof (EInv_pend_lt e x I Hd). lia.
    + exact Hids.
Qed.

Lemma flush_no_panic e f : EInv e -> exists e', estep e (OFlush f) = Done (e', []).
Proof. intros I. unfold estep. rewrite (flush_eq e I). eexists. reflexivity. Qed.

(* ------------------------------------------------------------ OBatch *)
Lemma cnt_map_all {A} (g : A -> emeta) l : (forall y, In y l -> isloc (g y) = true) -> cnt (map g l) = lenN l.
Proof.
  induction l as [|y l IH]; intros H; [reflexivity|]. cbn [map lenN]. unfold cnt. cbn [sumf].
  fold (cnt (map g l)). rewrite IH by (intros z Hz; apply H; right; exact Hz).
  unfold cntf. rewrite (H y (or_introl eq_refl)). lia.
Qed.

Lemma batch_spec e n a first e' hs :
  EInv e -> first + n < SENT -> estep e (OBatch n a first) = Done (e', hs) ->
  needs_flush e = false /\
  Fill e e' (lenN (pending e) - n) (n - lenN (pending e)) /\
  hs = map (fun id => {| e_id := id; e_gen := genl (meta e) id |})
           (dropN (lenN (pending e) - n) (pending e) ++ seqN (lenN (meta e)) (n - lenN (pending e))).
Proof.
  intros I Hfn. unfold estep, alloc_many. destruct (needs_flush e) eqn:Enf; [discriminate|].
  pose proof (proj1 (nf_false e) Enf) as Ec.
  set (j := lenN (pending e) - n). set (k := n - lenN (pending e)).
  destruct (N.leb_spec SENT (lenN (meta e) + k)) as [Hs|Hs]; [discriminate|].
  set (rec := dropN j (pending e)).
  set (e1 := set_locs e rec a first).
  set (nm := map (fun i => {| m_gen := 1; m_loc := {| l_arch := a; l_idx := first + lenN rec + i |} |}) (seqN 0 k)).
  intros H. injection H as <- <-. split; [reflexivity|].
  assert (Hrec : lenN rec = lenN (pending e) - j) by (unfold rec; apply lenN_dropN).
  assert (Hnm : forall y, nthN nm y = if N.ltb y k then
      Some {| m_gen := 1; m_loc := {| l_arch := a; l_idx := first + lenN rec + (0 + y) |} |} else None).
  { intros y. unfold nm. apply In_map_seqN_nth. }
  assert (Hfill : Fill e {| meta := meta e1 ++ nm; pending := takeN j (pending e);
                            cursor := Z.of_N (lenN (takeN j (pending e))); elen := elen e + n |} j k).
  { constructor; cbn [meta pending cursor elen].
    - lia.
    - lia.
    - reflexivity.
    - rewrite lenN_takeN. lia.
    - lia.
    - intros x. rewrite stl_app. unfold e1. rewrite set_locs_lenN, stl_set_locs by lia. fold rec.
      unfold filled. fold rec.
      destruct (N.ltb_spec x (lenN (meta e))) as [Hx|Hx].
      + destruct (N.leb_spec (lenN (meta e)) x); [lia|]. cbn [andb]. rewrite orb_false_r.
        destruct (memN x rec) eqn:Em; [|reflexivity].
        apply memN_In in Em. unfold rec in Em. apply In_dropN in Em. apply (ei_pend e I) in Em.
        rewrite Em. reflexivity.
      + assert (memN x rec = false) as ->.
        { apply memN_false. intros Hin. unfold rec in Hin. apply In_dropN in Hin.
          pose proof (EInv_pend_lt e x I Hin). lia. }
        destruct (N.leb_spec (lenN (meta e)) x); [|lia]. cbn [orb andb].
        unfold stl at 1. rewrite Hnm.
        destruct (N.ltb_spec (x - lenN (meta e)) k); destruct (N.ltb_spec x (lenN (meta e) + k)); try lia.
        * cbn [option_map]. unfold isloc, isl. cbn [m_loc l_idx].
          destruct (N.eqb_spec (first + lenN rec + (0 + (x - lenN (meta e)))) SENT); [lia|reflexivity].
        * cbn [option_map]. symmetry. apply stl_ge. exact Hx.
    - intros x. rewrite genl_app. unfold e1. rewrite set_locs_lenN, genl_set_locs.
      destruct (N.ltb_spec x (lenN (meta e))) as [Hx|Hx]; [reflexivity|].
      rewrite (genl_ge (meta e)) by exact Hx. unfold genl. rewrite Hnm.
      destruct (N.ltb (x - lenN (meta e)) k); reflexivity.
    - rewrite cnt_app. unfold e1. rewrite cnt_set_locs.
      + unfold nm. rewrite cnt_map_all.
        * rewrite lenN_seqN. lia.
        * intros y Hy. apply In_seqN in Hy. unfold isloc, isl. cbn [m_loc l_idx].
          destruct (N.eqb_spec (first + lenN rec + y) SENT); [lia|reflexivity].
      + lia.
      + unfold rec. apply NoDup_dropN. apply (ei_nodup e I).
      + intros x Hx. unfold rec in Hx. apply In_dropN in Hx. apply (ei_pend e I). exact Hx. }
  split; [exact Hfill|].
  apply map_ext. intros id. unfold resolve_unknown_gen. f_equal. rewrite gen_of_genl.
  apply (fl_gen _ _ _ _ Hfill).
Qed.

(* ------------------------------------------------------------ ODespawn *)
Definition DespawnOK (e e' : entities) (h : entity) : Prop :=
  stl (meta e) (e_id h) = Some true /\ genl (meta e) (e_id h) = e_gen h /\
  pending e' = pending e ++ [e_id h] /\ cursor e' = Z.of_N (lenN (pending e')) /\
  elen e' + 1 = elen e /\ cnt (meta e') + 1 = cnt (meta e) /\
  (forall x, stl (meta e') x = if N.eqb x (e_id h) then Some false else stl (meta e) x) /\
  (forall x, genl (meta e') x = if N.eqb x (e_id h) then next_gen (e_gen h) else genl (meta e) x).

Lemma free_spec e h :
  EInv e -> needs_flush e = false ->
  (free e h = Done None /\ ~ (stl (meta e) (e_id h) = Some true /\ genl (meta e) (e_id h) = e_gen h)) \/
  (exists e' l, free e h = Done (Some (e', l)) /\ DespawnOK e e' h).
Proof.
  intros I Enf. unfold free. rewrite Enf. unfold stl, genl.
  destruct (nthN (meta e) (e_id h)) as [m|] eqn:Em; cbn [option_map].
  2:{ left. split; [reflexivity|]. intros [H _]. discriminate. }
  destruct (N.eqb_spec (m_gen m) (e_gen h)) as [Hg|Hg]; cbn [negb orb].
  2:{ left. split; [reflexivity|]. intros [_ H]. contradiction. }
  destruct (N.eqb_spec (l_idx (m_loc m)) SENT) as [Hs|Hs].
  { left. split; [reflexivity|]. intros [H _]. unfold isloc, isl in H.
    rewrite Hs, N.eqb_refl in H. discriminate. }
  assert (Hloc : isloc m = true).
  { unfold isloc, isl. destruct (N.eqb_spec (l_idx (m_loc m)) SENT); [contradiction|reflexivity]. }
  pose proof (cnt_updN (meta e) (e_id h) m {| m_gen := next_gen (m_gen m); m_loc := EMPTY_LOC |} Em) as Hcnt.
  unfold cntf in Hcnt. rewrite Hloc in Hcnt.
  change (isloc {| m_gen := next_gen (m_gen m); m_loc := EMPTY_LOC |}) with false in Hcnt.
  cbv beta iota in Hcnt. right. destruct (N.eqb_spec (elen e) 0) as [H0|H0].
  { rewrite (ei_len e I) in H0. lia. }
  eexists. eexists. split; [reflexivity|].
  unfold DespawnOK. cbn [meta pending cursor elen].
  repeat split.
  - unfold stl. rewrite Em. cbn [option_map]. f_equal. exact Hloc.
  - unfold genl. rewrite Em. exact Hg.
  - lia.
  - lia.
  - intros x. rewrite (stl_updN _ _ m) by exact Em. reflexivity.
  - intros x. rewrite (genl_updN _ _ m) by exact Em. cbn [m_gen]. rewrite Hg. reflexivity.
Qed.

Lemma despawn_spec e h e' hs :
  EInv e -> estep e (ODespawn h) = Done (e', hs) ->
  hs = [] /\ needs_flush e = false /\ (e' = e \/ DespawnOK e e' h).
Proof.
  intros I. unfold estep. destruct (needs_flush e) eqn:Enf.
  { unfold free. rewrite Enf. discriminate. }
  destruct (free_spec e h I Enf) as [[-> _]|(e2 & l & -> & HD)].
  - intros [= <- <-]. auto.
  - intros [= <- <-]. auto.
Qed.

Lemma DespawnOK_EInv e e' h : EInv e -> DespawnOK e e' h -> EInv e'.
Proof.
  intros I (Hst & Hg & Hp & Hc & He & Hn & Hs & Hgen). constructor.
  - rewrite Hp. apply NoDup_app_intro; [apply (ei_nodup e I)|repeat constructor; intros []|].
    intros x Hx [<-|[]]. apply (ei_pend e I) in Hx. congruence.
  - intros x. rewrite Hp, Hs. destruct (N.eqb_spec x (e_id h)) as [->|Hne].
    + split; [reflexivity|]. intros _. apply in_or_app. right. left. reflexivity.
    + rewrite <- (ei_pend e I). split.
      * intros Hin. apply in_app_or in Hin. destruct Hin as [Hin|[Heq|[]]]; [exact Hin|congruence].
      * intros Hin. apply in_or_app. left. exact Hin.
  - rewrite Hc. lia.
  - pose proof (ei_len e I). lia.
Qed.

(* ------------------------------------------------------------ OSpawnAt *)
Lemma spawnat_finish e1 t g l m :
  isl l = true -> nthN (meta e1) t = Some m ->
  NoDup (pending e1) ->
  (forall x, In x (pending e1) <-> x <> t /\ stl (meta e1) x = Some false) ->
  cursor e1 = Z.of_N (lenN (pending e1)) ->
  elen e1 + b2n (isloc m) = cnt (meta e1) + 1 ->
  let e' := set_loc {| meta := updN (meta e1) t {| m_gen := g; m_loc := m_loc m |};
                       pending := pending e1; cursor := cursor e1; elen := elen e1 |} t l in
  EInv e' /\ needs_flush e' = false /\
  (forall x, stl (meta e') x = if N.eqb x t then Some true else stl (meta e1) x) /\
  (forall x, genl (meta e') x = if N.eqb x t then g else genl (meta e1) x).
Proof.
  intros Hl Em Hnd Hp Hc He e'.
  set (e2 := {| meta := updN (meta e1) t {| m_gen := g; m_loc := m_loc m |};
                pending := pending e1; cursor := cursor e1; elen := elen e1 |}) in *.
  assert (Hst2 : forall x, stl (meta e2) x = stl (meta e1) x).
  { intros x. unfold e2. cbn [meta]. rewrite (stl_updN _ _ m) by exact Em.
    destruct (N.eqb_spec x t) as [->|]; [|reflexivity]. unfold stl. rewrite Em. reflexivity. }
  assert (Hst : forall x, stl (meta e') x = if N.eqb x t then Some true else stl (meta e1) x).
  { intros x. unfold e'. rewrite stl_set_loc, Hst2, Hl. destruct (N.eqb_spec x t) as [->|]; [|reflexivity].
    unfold stl. rewrite Em. reflexivity. }
  assert (Hgen : forall x, genl (meta e') x = if N.eqb x t then g else genl (meta e1) x).
  { intros x. unfold e'. rewrite genl_set_loc. unfold e2. cbn [meta].
    rewrite (genl_updN _ _ m) by exact Em. reflexivity. }
  assert (Hcnt : cnt (meta e') + b2n (isloc m) = cnt (meta e1) + 1).
  { assert (H2 : stl (meta e2) t = Some (isloc m)) by (rewrite Hst2; unfold stl; rewrite Em; reflexivity).
    pose proof (cnt_set_loc e2 t l _ H2) as H. fold e' in H. rewrite Hl in H. cbn [b2n] in H.
    pose proof (cnt_updN (meta e1) t m {| m_gen := g; m_loc := m_loc m |} Em) as H3.
    change (cntf {| m_gen := g; m_loc := m_loc m |}) with (cntf m) in H3.
    unfold e2 in H. cbn [meta] in H. lia. }
  assert (Hp' : pending e' = pending e1) by (unfold e'; rewrite set_loc_pending; reflexivity).
  assert (Hc' : cursor e' = cursor e1) by (unfold e'; rewrite set_loc_cursor; reflexivity).
  assert (He' : elen e' = elen e1) by (unfold e'; rewrite set_loc_elen; reflexivity).
  split; [|split; [|split; assumption]].
  - constructor.
    + rewrite Hp'. exact Hnd.
    + intros x. rewrite Hp', Hst, Hp. destruct (N.eqb_spec x t) as [->|Hne].
      * split; [intros [H _]; congruence|discriminate].
      * tauto.
    + rewrite Hp', Hc', Hc. lia.
    + rewrite He'. lia.
  - apply nf_false. rewrite Hp', Hc'. exact Hc.
Qed.

Lemma spawnat_spec e h l e' hs :
  EInv e -> isl l = true -> estep e (OSpawnAt h l) = Done (e', hs) ->
  hs = [] /\ needs_flush e = false /\ EInv e' /\ needs_flush e' = false /\
  (forall x, x <> e_id h -> genl (meta e') x = genl (meta e) x) /\
  (forall x, stl (meta e) x = Some true -> stl (meta e') x = Some true) /\
  (forall x, stl (meta e) x <> None -> stl (meta e') x <> None).
Proof.
  intros I Hl. unfold estep, alloc_at. destruct (needs_flush e) eqn:Enf; [discriminate|].
  pose proof (proj1 (nf_false e) Enf) as Ec. set (t := e_id h).
  destruct (N.leb_spec (lenN (meta e)) t) as [Hge|Hlt].
  - (* beyond the table *)
    cbv beta iota zeta. cbn [meta pending cursor elen].
    set (k := t + 1 - lenN (meta e)).
    set (p1 := pending e ++ seqN (lenN (meta e)) (t - lenN (meta e))).
    destruct (nthN (meta e ++ repeatN EMPTY_META k) t) as [m|] eqn:Em; [|discriminate].
    intros [= <- <-].
    assert (m = EMPTY_META) as ->.
    { rewrite nthN_app2 in Em by exact Hge. rewrite nthN_repeatN in Em by (unfold k; lia). congruence. }
    set (e1 := {| meta := meta e ++ repeatN EMPTY_META k; pending := p1;
                  cursor := Z.of_N (lenN p1); elen := elen e + 1 |}).
    destruct (spawnat_finish e1 t (e_gen h) l EMPTY_META Hl Em) as (I' & Hf' & Hst & Hgen).
    + unfold e1, p1. cbn [pending]. apply NoDup_app_intro; [apply (ei_nodup e I)|apply NoDup_seqN|].
      intros x Hx Hs. apply In_seqN in Hs. pose proof (EInv_pend_lt e x I Hx). lia.
    + intros x. unfold e1, p1. cbn [pending meta]. rewrite stl_extend, in_app_iff, In_seqN, (ei_pend e I x).
      destruct (N.ltb_spec x (lenN (meta e))) as [Hx|Hx].
      * split; [intros [H|H]; [split; [lia|exact H]|lia]|intros [_ H]; left; exact H].
      * rewrite (stl_ge (meta e) x Hx). unfold k.
        destruct (N.ltb_spec x (lenN (meta e) + (t + 1 - lenN (meta e)))) as [Hy|Hy].
        -- split; [intros [H|H]; [discriminate|split; [lia|reflexivity]]|intros [H _]; right; lia].
        -- split; [intros [H|H]; [discriminate|lia]|intros [_ H]; discriminate].
    + reflexivity.
    + unfold e1. cbn [meta elen]. rewrite cnt_extend. change (isloc EMPTY_META) with false.
      cbn [b2n]. rewrite (ei_len e I). lia.
    + split; [reflexivity|]. split; [reflexivity|]. split; [exact I'|]. split; [exact Hf'|]. split.
      * intros x Hx. rewrite Hgen. destruct (N.eqb_spec x t); [contradiction|].
        unfold e1. cbn [meta]. apply genl_extend.
      * split.
        -- intros x Hx. rewrite Hst. destruct (N.eqb_spec x t); [reflexivity|].
           unfold e1. cbn [meta]. rewrite stl_extend. pose proof (stl_Some_lt _ _ _ Hx).
           destruct (N.ltb_spec x (lenN (meta e))); [exact Hx|lia].
        -- intros x Hx. rewrite Hst. destruct (N.eqb_spec x t); [discriminate|].
           unfold e1. cbn [meta]. rewrite stl_extend.
           destruct (N.ltb_spec x (lenN (meta e))) as [Hy|Hy]; [exact Hx|].
           exfalso. apply Hx. apply stl_ge. exact Hy.
  - destruct (positionN t (pending e)) as [i|] eqn:Epos.
    + (* the id is in the free list *)
      cbv beta iota zeta. cbn [meta pending cursor elen].
      apply positionN_Some in Epos.
      assert (Hin : In t (pending e)) by (eapply nthN_In; exact Epos).
      destruct (nthN (meta e) t) as [m|] eqn:Em; [|discriminate].
      intros [= <- <-].
      assert (Hm : isloc m = false).
      { apply (ei_pend e I) in Hin. unfold stl in Hin. rewrite Em in Hin. cbn [option_map] in Hin. congruence. }
      unfold swap_removeN.
      destruct (lastN (pending e)) as [z|] eqn:EL.
      2:{ apply lastN_None in EL. rewrite EL in Hin. destruct Hin. }
      destruct (swap_remove_spec (pending e) i t z (ei_nodup e I) Epos EL) as (Hnd & Hmem & Hlen).
      set (p1 := removelastN (updN (pending e) i z)) in *.
      set (e1 := {| meta := meta e; pending := p1; cursor := Z.of_N (lenN p1); elen := elen e + 1 |}).
      destruct (spawnat_finish e1 t (e_gen h) l m Hl Em) as (I' & Hf' & Hst & Hgen).
      * exact Hnd.
      * intros x. unfold e1. cbn [pending meta]. rewrite Hmem, (ei_pend e I x). tauto.
      * reflexivity.
      * unfold e1. cbn [meta elen]. rewrite Hm. cbn [b2n]. rewrite (ei_len e I). lia.
      * split; [reflexivity|]. split; [reflexivity|]. split; [exact I'|]. split; [exact Hf'|]. split.
        -- intros x Hx. rewrite Hgen. destruct (N.eqb_spec x t); [contradiction|reflexivity].
        -- split.
           ++ intros x Hx. rewrite Hst. destruct (N.eqb_spec x t); [reflexivity|exact Hx].
           ++ intros x Hx. rewrite Hst. destruct (N.eqb_spec x t); [discriminate|exact Hx].
    + (* the id has a row: overwrite *)
      cbv beta iota zeta.
      apply positionN_None in Epos.
      destruct (nthN_lt_Some (meta e) t Hlt) as [m0 Em0]. rewrite Em0.
      assert (Hm0 : isloc m0 = true).
      { destruct (isloc m0) eqn:E; [reflexivity|]. exfalso. apply Epos. apply (ei_pend e I).
        unfold stl. rewrite Em0. cbn [option_map]. congruence. }
      set (e1 := set_loc e t EMPTY_LOC).
      assert (Hst1 : forall x, stl (meta e1) x = if N.eqb x t then Some false else stl (meta e) x).
      { intros x. unfold e1. rewrite stl_set_loc. destruct (N.eqb_spec x t) as [->|]; [|reflexivity].
        unfold stl. rewrite Em0. reflexivity. }
      destruct (nthN (meta e1) t) as [m|] eqn:Em; [|discriminate].
      intros [= <- <-].
      assert (Hm : isloc m = false).
      { pose proof (Hst1 t) as H. rewrite N.eqb_refl in H. unfold stl in H. rewrite Em in H.
        cbn [option_map] in H. congruence. }
      destruct (spawnat_finish e1 t (e_gen h) l m Hl Em) as (I' & Hf' & Hst & Hgen).
      * unfold e1. rewrite set_loc_pending. apply (ei_nodup e I).
      * intros x. unfold e1 at 1. rewrite set_loc_pending, Hst1, (ei_pend e I x).
        destruct (N.eqb_spec x t) as [->|Hne].
        -- split; [|tauto]. intros H. unfold stl in H. rewrite Em0 in H. cbn [option_map] in H. congruence.
        -- tauto.
      * unfold e1. rewrite set_loc_pending, set_loc_cursor. exact Ec.
      * rewrite Hm. cbn [b2n]. unfold e1 at 1. rewrite set_loc_elen.
        assert (H0 : stl (meta e) t = Some true) by (unfold stl; rewrite Em0; cbn [option_map]; congruence).
        pose proof (cnt_set_loc e t EMPTY_LOC true H0) as H. fold e1 in H.
        change (isl EMPTY_LOC) with false in H. cbn [b2n] in H. rewrite (ei_len e I). lia.
      * split; [reflexivity|]. split; [reflexivity|]. split; [exact I'|]. split; [exact Hf'|]. split.
        -- intros x Hx. rewrite Hgen. destruct (N.eqb_spec x t); [contradiction|].
           unfold e1. apply genl_set_loc.
        -- split.
           ++ intros x Hx. rewrite Hst. destruct (N.eqb_spec x t); [reflexivity|].
              rewrite Hst1. destruct (N.eqb_spec x t); [contradiction|exact Hx].
           ++ intros x Hx. rewrite Hst. destruct (N.eqb_spec x t); [discriminate|].
              rewrite Hst1. destruct (N.eqb_spec x t); [contradiction|exact Hx].
Qed.

(* ------------------------------------------------------------ reservations *)
Definition rsvd (e : entities) (x : N) : Prop :=
  In x (reserved_part e) \/ (lenN (meta e) <= x /\ (Z.of_N x < Z.of_N (lenN (meta e)) - cursor e)%Z).

Definition taken (e : entities) (x : N) : Prop := stl (meta e) x = Some true \/ rsvd e x.

Lemma rsvd_not_located e x : EInv e -> rsvd e x -> stl (meta e) x <> Some true.
Proof.
  intros I [H|[H _]].
  - apply In_dropN in H. apply (ei_pend e I) in H. congruence.
  - rewrite (stl_ge _ _ H). discriminate.
Qed.

Lemma rsvd_flushed e x : needs_flush e = false -> ~ rsvd e x.
Proof.
  intros Hf. apply nf_false in Hf. intros [H|[H1 H]]; [|lia].
  unfold reserved_part in H. rewrite dropN_all in H by lia. destruct H.
Qed.

Definition mkh (e : entities) (id : N) : entity := {| e_id := id; e_gen := genl (meta e) id |}.

Lemma map_id_mkh e ids : map e_id (map (mkh e) ids) = ids.
Proof. induction ids as [|a r IH]; cbn [map]; [reflexivity|]. rewrite IH. reflexivity. Qed.

Definition rsv_ids (e : entities) (c c' : Z) : list N :=
  takeN (Z.to_N (Z.max c 0) - Z.to_N (Z.max c' 0)) (dropN (Z.to_N (Z.max c' 0)) (pending e))
  ++ seqN (lenN (meta e) + Z.to_N (Z.max (- c) 0)) (Z.to_N (Z.max (- c') 0) - Z.to_N (Z.max (- c) 0)).

Record RStep (e e' : entities) (hs : list entity) : Prop := {
  rs_meta : meta e' = meta e;
  rs_pend : pending e' = pending e;
  rs_elen : elen e' = elen e;
  rs_cur : (cursor e' <= cursor e)%Z;
  rs_len : Z.of_N (lenN hs) = (cursor e - cursor e')%Z;
  rs_gen : forall h, In h hs -> e_gen h = genl (meta e) (e_id h);
  rs_nodup : NoDup (map e_id hs);
  rs_rsvd : forall x, rsvd e' x <-> rsvd e x \/ In x (map e_id hs);
  rs_new : forall x, In x (map e_id hs) -> ~ rsvd e x }.

Lemma RStep_rsv e c' :
  EInv e -> (c' <= cursor e)%Z ->
  RStep e {| meta := meta e; pending := pending e; cursor := c'; elen := elen e |}
        (map (mkh e) (rsv_ids e (cursor e) c')).
Proof.
  intros I Hc'. pose proof (ei_cur e I) as Hc. pose proof (ei_nodup e I) as Hnd.
  unfold rsv_ids.
  set (c := cursor e) in *.
  set (lo := Z.to_N (Z.max c' 0)). set (hi := Z.to_N (Z.max c 0)).
  set (a := Z.to_N (Z.max (- c) 0)). set (a' := Z.to_N (Z.max (- c') 0)).
  set (fr := takeN (hi - lo) (dropN lo (pending e))).
  set (nw := seqN (lenN (meta e) + a) (a' - a)).
  assert (Hsplit : dropN lo (pending e) = fr ++ dropN hi (pending e)).
  { unfold fr. rewrite <- (takeN_dropN_app (hi - lo) (dropN lo (pending e))) at 1.
    f_equal. rewrite dropN_dropN. f_equal. lia. }
  assert (Hfr_in : forall x, In x fr -> In x (pending e)).
  { intros x Hx. unfold fr in Hx. apply In_takeN in Hx. apply In_dropN in Hx. exact Hx. }
  assert (Hfr_dis : forall x, In x fr -> In x (dropN hi (pending e)) -> False).
  { pose proof (NoDup_dropN lo _ Hnd) as H. rewrite Hsplit in H. apply NoDup_app_inv in H.
    destruct H as (_ & _ & H). exact H. }
  constructor; cbn [meta pending cursor elen]; try reflexivity.
  - exact Hc'.
  - rewrite lenN_map, lenN_app. unfold fr, nw. rewrite lenN_takeN, lenN_dropN, lenN_seqN. lia.
  - intros h Hh. apply in_map_iff in Hh. destruct Hh as (x & <- & _). reflexivity.
  - rewrite map_id_mkh. apply NoDup_app_intro.
    + unfold fr. apply NoDup_takeN. apply NoDup_dropN. exact Hnd.
    + apply NoDup_seqN.
    + intros x Hx Hs. apply In_seqN in Hs. pose proof (EInv_pend_lt e x I (Hfr_in x Hx)). lia.
  - intros x. rewrite map_id_mkh. unfold rsvd, reserved_part. cbn [meta pending cursor].
    fold c lo hi. rewrite Hsplit, !in_app_iff. unfold nw. rewrite In_seqN.
    split.
    + intros [[H|H]|[H1 H2]]; [right; left; exact H|left; left; exact H|].
      destruct (Z.ltb_spec (Z.of_N x) (Z.of_N (lenN (meta e)) - c)); [left; right; lia|right; right; lia].
    + intros [[H|[H1 H2]]|[H|H]]; [left; right; exact H|right; lia|left; left; exact H|right; lia].
  - intros x. rewrite map_id_mkh. rewrite in_app_iff. unfold nw. rewrite In_seqN.
    unfold rsvd, reserved_part. fold c hi. intros [H|H] [H'|H'].
    + exact (Hfr_dis x H H').
    + pose proof (EInv_pend_lt e x I (Hfr_in x H)). lia.
    + apply In_dropN in H'. pose proof (EInv_pend_lt e x I H'). lia.
    + lia.
Qed.

Lemma reserveN_spec e n e' hs :
  EInv e -> estep e (OReserveN n) = Done (e', hs) -> RStep e e' hs.
Proof.
  intros I. pose proof (ei_cur e I) as Hc. unfold estep, reserve_entities.
  set (c := cursor e) in *. set (c' := (c - Z.of_N n)%Z).
  destruct (N.ltb_spec (lenN (pending e)) (Z.to_N (Z.max c 0))) as [Hlt|Hge]; [lia|].
  pose proof (RStep_rsv e c' I ltac:(unfold c'; fold c; lia)) as R. fold c in R. unfold rsv_ids in R.
  destruct (Z.leb_spec 0 c') as [H0|H0].
  - intros [= <- <-].
    replace (Z.to_N (Z.max (- c') 0) - Z.to_N (Z.max (- c) 0)) with 0 in R by lia.
    rewrite seqN_0, app_nil_r in R. exact R.
  - destruct (Z.leb_spec (Z.of_N W32) (Z.of_N (lenN (meta e)) - c')) as [Hw|Hw]; [discriminate|].
    intros [= <- <-]. rewrite map_app in R.
    replace (Z.to_N (Z.of_N (lenN (meta e)) - Z.min c 0)) with (lenN (meta e) + Z.to_N (Z.max (- c) 0)) by lia.
    replace (Z.to_N (Z.of_N (lenN (meta e)) - c' - (Z.of_N (lenN (meta e)) - Z.min c 0)))
      with (Z.to_N (Z.max (- c') 0) - Z.to_N (Z.max (- c) 0)) by lia.
    erewrite (map_ext_in (fun id => {| e_id := id; e_gen := 1 |})); [exact R|].
    intros x Hx. apply In_seqN in Hx. unfold mkh. f_equal. symmetry. apply genl_ge. lia.
Qed.

Lemma reserve_spec e e' hs :
  EInv e -> estep e OReserve = Done (e', hs) -> RStep e e' hs.
Proof.
  intros I. pose proof (ei_cur e I) as Hc. unfold estep, reserve_entity.
  set (c := cursor e) in *.
  pose proof (RStep_rsv e (c - 1)%Z I ltac:(fold c; lia)) as R. fold c in R. unfold rsv_ids in R.
  destruct (Z.ltb_spec 0 c) as [H0|H0].
  - destruct (nthN (pending e) (Z.to_N (c - 1))) as [id|] eqn:En; [|discriminate].
    intros [= <- <-].
    replace (Z.to_N (Z.max (- (c - 1)) 0) - Z.to_N (Z.max (- c) 0)) with 0 in R by lia.
    rewrite seqN_0, app_nil_r in R.
    replace (Z.to_N (Z.max (c - 1) 0)) with (Z.to_N (c - 1)) in R by lia.
    rewrite (dropN_nth_cons _ _ _ En) in R.
    replace (Z.to_N (Z.max c 0) - Z.to_N (c - 1)) with 1 in R by lia.
    cbn [takeN map N.eqb N.pred] in R. rewrite takeN_0 in R. exact R.
  - destruct (Z.ltb_spec (Z.of_N (lenN (meta e)) - c) (Z.of_N W32)) as [Hw|Hw]; [|discriminate].
    intros [= <- <-].
    replace (Z.to_N (Z.max c 0) - Z.to_N (Z.max (c - 1) 0)) with 0 in R by lia.
    rewrite takeN_0 in R. cbn [app] in R.
    replace (Z.to_N (Z.max (- (c - 1)) 0) - Z.to_N (Z.max (- c) 0)) with 1 in R by lia.
    rewrite seqN_1 in R. cbn [map] in R. unfold mkh in R.
    rewrite genl_ge in R by lia.
    replace (lenN (meta e) + Z.to_N (Z.max (- c) 0)) with (Z.to_N (Z.of_N (lenN (meta e)) - c)) in R by lia.
    exact R.
Qed.

Lemma RStep_EInv e e' hs : EInv e -> RStep e e' hs -> EInv e'.
Proof.
  intros I R. destruct R as [Rm Rp Re Rc _ _ _ _ _]. constructor.
  - rewrite Rp. apply (ei_nodup e I).
  - intros x. rewrite Rp, Rm. apply (ei_pend e I).
  - rewrite Rp. pose proof (ei_cur e I). lia.
  - rewrite Re, Rm. apply (ei_len e I).
Qed.

Lemma isl_true l : l_idx l <> SENT -> isl l = true.
Proof. intros H. unfold isl. destruct (N.eqb_spec (l_idx l) SENT); [contradiction|reflexivity]. Qed.

Lemma estep_EInv e o e' hs : EInv e -> op_ok o -> estep e o = Done (e', hs) -> EInv e'.
Proof.
  intros I Hok H. destruct o as [l|h l|h| |n|f|n a first|].
  - cbn [op_ok] in Hok. destruct (spawn_spec e l e' hs I (isl_true l Hok) H) as (_ & j & k & id & F & _).
    exact (Fill_EInv _ _ _ _ I F).
  - cbn [op_ok] in Hok. destruct Hok as (Hl & _).
    destruct (spawnat_spec e h l e' hs I (isl_true l Hl) H) as (_ & _ & I' & _). exact I'.
  - destruct (despawn_spec e h e' hs I H) as (_ & _ & [->|D]); [exact I|].
    exact (DespawnOK_EInv _ _ _ I D).
  - exact (RStep_EInv _ _ _ I (reserve_spec _ _ _ I H)).
  - exact (RStep_EInv _ _ _ I (reserveN_spec _ _ _ _ I H)).
  - cbn [op_ok] in Hok. destruct (flush_spec e f e' hs I Hok H) as (_ & F). exact (Fill_EInv _ _ _ _ I F).
  - cbn [op_ok] in Hok. destruct (batch_spec e n a first e' hs I Hok H) as (_ & F & _).
    exact (Fill_EInv _ _ _ _ I F).
  - cbn [estep ents_clear] in H. injection H as <- <-. exact EInv_empty.
Qed.

(* ------------------------------------------------------------ traces *)
Definition tent : Type := (entities * eop * entities * list entity)%type.

Fixpoint chain (P : eop -> Prop) (e : entities) (tr : list tent) : Prop :=
  match tr with
  | [] => True
  | (a, o, b, hs) :: r => a = e /\ P o /\ estep a o = Done (b, hs) /\ chain P b r
  end.

Definition final (e : entities) (tr : list tent) : entities :=
  fold_left (fun _ x => snd (fst x)) tr e.

Lemma final_app e t1 t2 : final e (t1 ++ t2) = final (final e t1) t2.
Proof. unfold final. apply fold_left_app. Qed.

Lemma chain_app P e t1 t2 : chain P e (t1 ++ t2) <-> chain P e t1 /\ chain P (final e t1) t2.
Proof.
  revert e; induction t1 as [|[[[a o] b] hs] r IH]; intros e; cbn [app chain].
  - unfold final. cbn [fold_left]. tauto.
  - unfold final. cbn [fold_left fst snd]. fold (final b r). rewrite IH. tauto.
Qed.

Lemma erun_chain P e ops ef tr :
  Forall P ops -> erun e ops = (ef, tr) -> chain P e tr /\ ef = final e tr.
Proof.
  revert e ef tr; induction ops as [|o r IH]; intros e ef tr HP; cbn [erun].
  - intros [= <- <-]. split; [exact I|reflexivity].
  - inversion HP as [|? ? Ho Hr]; subst.
    destruct (estep e o) as [[e' hs]|c] eqn:Es.
    + destruct (erun e' r) as [ef' tr'] eqn:Er. intros [= <- <-].
      destruct (IH e' ef' tr' Hr Er) as (Hc & ->). cbn [chain]. split; [auto|].
      unfold final. reflexivity.
    + intros [= <- <-]. split; [exact I|reflexivity].
Qed.

Lemma chain_weaken (P Q : eop -> Prop) e tr : (forall o, P o -> Q o) -> chain P e tr -> chain Q e tr.
Proof.
  intros HPQ. revert e; induction tr as [|[[[a o] b] hs] r IH]; intros e; cbn [chain]; [tauto|].
  intros (H1 & H2 & H3 & H4). auto.
Qed.

Lemma chain_EInv e tr : EInv e -> chain op_ok e tr -> EInv (final e tr).
Proof.
  revert e; induction tr as [|[[[a o] b] hs] r IH]; intros e I; cbn [chain]; [intros _; exact I|].
  intros (-> & Hok & Hs & Hc). unfold final. cbn [fold_left fst snd]. apply IH; [|exact Hc].
  exact (estep_EInv _ _ _ _ I Hok Hs).
Qed.

Lemma returned_app t1 t2 : returned (t1 ++ t2) = returned t1 ++ returned t2.
Proof. unfold returned. rewrite map_app, concat_app. reflexivity. Qed.

Lemma spawn_at_ids_app t1 t2 : spawn_at_ids (t1 ++ t2) = spawn_at_ids t1 ++ spawn_at_ids t2.
Proof. unfold spawn_at_ids. rewrite map_app, concat_app. reflexivity. Qed.
