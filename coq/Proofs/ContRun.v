(* CommandBuffer replay (C11): one-step unfoldings of cm_run, consumption marks, and value
   conservation across a (possibly panicking) replay. *)
From Coq Require Import List NArith ZArith Bool Lia ZifyBool ZifyNat ZifyN Permutation.
From HecsV Require Import Base.ListN Base.ListNFacts Base.ListNMore Model.EntityBits Model.Types Model.Entities
  Model.World Model.Containers Proofs.WorldSpec Proofs.WorldSpec2 Proofs.ContSpec
  Proofs.WorldProofs1 Proofs.WorldProofs2 Proofs.WorldProofs3 Proofs.WorldProofs4 Proofs.ContRec Proofs.ContMono.
Import ListNotations.
Open Scope N_scope.

(* ---- consumption marks ---- *)
Definition kill (r : crec) : crec := {| cr_t := cr_t r; cr_off := cr_off r; cr_v := cr_v r; cr_live := false |}.
Definition dead (r : crec) : Prop := cr_live r = false.

Lemma mark_consumed_0 : forall recs rest, mark_consumed (recs ++ rest) 0 (lenN recs) = map kill recs ++ rest.
Proof.
  induction recs as [|r t IH]; intros rest; cbn [app lenN map].
  - destruct rest as [|x rest]; reflexivity.
  - cbn [mark_consumed]. rewrite N.eqb_refl. destruct (N.eqb_spec (N.succ (lenN t)) 0) as [E|_]; [lia|].
    rewrite N.pred_succ, IH. reflexivity.
Qed.

Lemma mark_consumed_at : forall pre recs rest,
  mark_consumed (pre ++ recs ++ rest) (lenN pre) (lenN recs) = pre ++ map kill recs ++ rest.
Proof.
  induction pre as [|p t IH]; intros recs rest; cbn [app lenN]; [apply mark_consumed_0|].
  cbn [mark_consumed]. destruct (N.eqb_spec (N.succ (lenN t)) 0) as [E|_]; [lia|].
  rewrite N.pred_succ, IH. reflexivity.
Qed.

Lemma map_kv_kill l : map kv (map kill l) = map kv l.
Proof. rewrite map_map. reflexivity. Qed.

Lemma dead_kill l : Forall dead (map kill l).
Proof. induction l; constructor; [reflexivity|assumption]. Qed.

Lemma live_values_split pre rest :
  Forall dead pre -> Forall live rest ->
  concat (map (fun r => if cr_live r then [(cr_t r, cr_v r)] else []) (pre ++ rest)) = map kv rest.
Proof.
  intros Hd Hl. rewrite map_app, concat_app, (live_values_dead _ Hd), (live_values_all_live _ Hl). reflexivity.
Qed.

(* ---- one-step unfoldings ---- *)
Definition blank (c : cmdbuf) (i : N) : cmdbuf :=
  {| cm_cmds := updN (cm_cmds c) i (CDespawn DANGLING); cm_arena := cm_arena c; cm_comps := cm_comps c |}.
Definition consume (c : cmdbuf) (i s n : N) : cmdbuf :=
  {| cm_cmds := updN (cm_cmds c) i (CDespawn DANGLING); cm_arena := cm_arena c;
     cm_comps := mark_consumed (cm_comps c) s n |}.
Definition replay_bundle (c : cmdbuf) (s n : N) : bundle :=
  {| b_key := None; b_items := map kv (takeN n (dropN s (cm_comps c))) |}.
Definition cleared (c : cmdbuf) : cmdbuf :=
  {| cm_cmds := []; cm_arena := {| ar_size := ar_size (cm_arena c); ar_align := ar_align (cm_arena c); ar_cursor := 0 |};
     cm_comps := [] |}.

Lemma cm_run_nil u f w c i sp dr : cm_run u (S f) w c i [] sp dr = (w, cleared c, sp, dr, None).
Proof. reflexivity. Qed.

Lemma cm_run_spawn u f w c i s n rest sp dr :
  cm_run u (S f) w c i (CSpawnOrInsert None s n :: rest) sp dr =
  match w_spawn u w (replay_bundle c s n) with
  | Done (w', h) => cm_run u f w' (consume c i s n) (N.succ i) rest (sp ++ [h]) dr
  | Panic p => (w, consume c i s n, sp, dr ++ b_items (replay_bundle c s n), Some p)
  end.
Proof. reflexivity. Qed.

Lemma cm_run_insert u f w c i h s n rest sp dr :
  cm_run u (S f) w c i (CSpawnOrInsert (Some h) s n :: rest) sp dr =
  match w_insert u w h (replay_bundle c s n) with
  | Done (w', WOk d) => cm_run u f w' (consume c i s n) (N.succ i) rest sp (dr ++ d)
  | Done (w', _) => cm_run u f w' (consume c i s n) (N.succ i) rest sp (dr ++ b_items (replay_bundle c s n))
  | Panic p => (w, consume c i s n, sp, dr ++ b_items (replay_bundle c s n), Some p)
  end.
Proof. reflexivity. Qed.

Lemma cm_run_remove u f w c i h key ts rest sp dr :
  cm_run u (S f) w c i (CRemove h key ts :: rest) sp dr =
  match w_remove u w h key ts with
  | Done (w', WOk taken) => cm_run u f w' (blank c i) (N.succ i) rest sp (dr ++ taken)
  | Done (w', _) => cm_run u f w' (blank c i) (N.succ i) rest sp dr
  | Panic p => (w, blank c i, sp, dr, Some p)
  end.
Proof. reflexivity. Qed.

Lemma cm_run_despawn u f w c i h rest sp dr :
  cm_run u (S f) w c i (CDespawn h :: rest) sp dr =
  match w_despawn w h with
  | Done (w', WOk d) => cm_run u f w' (blank c i) (N.succ i) rest sp (dr ++ d)
  | Done (w', _) => cm_run u f w' (blank c i) (N.succ i) rest sp dr
  | Panic p => (w, blank c i, sp, dr, Some p)
  end.
Proof. reflexivity. Qed.

(* the bundle replayed for a recorded range *)
Lemma replay_bundle_at c s n x pre recs rest :
  x = CSpawnOrInsert None s n \/ (exists h, x = CSpawnOrInsert (Some h) s n) ->
  range_at x (lenN pre) recs -> cm_comps c = pre ++ recs ++ rest ->
  replay_bundle c s n = {| b_key := None; b_items := map kv recs |} /\
  cm_comps (consume c 0 s n) = (pre ++ map kill recs) ++ rest.
Proof.
  intros Hx R Hc. unfold replay_bundle, consume. cbn [cm_comps]. rewrite Hc.
  assert (R' : s = lenN pre /\ n = lenN recs) by (destruct Hx as [->|(h & ->)]; exact R).
  destruct R' as (-> & ->). rewrite dropN_app_exact, takeN_app_exact, mark_consumed_at, <- app_assoc.
  split; reflexivity.
Qed.

Lemma slice_bundle_ok u recs b0 :
  slice_ok u recs (b_items b0) -> bundle_ok b0 -> bundle_ok {| b_key := None; b_items := map kv recs |}.
Proof.
  intros (P & _) (Hnd & _). split; [|intros k [=]]. unfold b_types in *. cbn [b_items].
  eapply Permutation_NoDup; [apply Permutation_sym, Permutation_map; exact P|exact Hnd].
Qed.

(* ---- conservation ---- *)
Lemma fits_mono w w' : idm (w_ents w) <= idm (w_ents w') -> fits w' -> fits w.
Proof. unfold fits, idm. lia. Qed.

Lemma conservation_loop u :
  c03_spawn_stmt -> c03_insert_stmt -> c03_remove_stmt -> c03_despawn_stmt -> total_inj u ->
  forall cmds ops off rest, wf u cmds ops off rest -> Forall rop_ok ops ->
  forall fuel pre c i w sp dr wr c' sp' dr' p,
    (length cmds < fuel)%nat -> cm_comps c = pre ++ rest -> lenN pre = off -> Forall dead pre ->
    cm_run u fuel w c i cmds sp dr = (wr, c', sp', dr', p) ->
    idm (w_ents w) <= idm (w_ents wr) /\
    (fits wr -> WInv u w ->
     Permutation (stored w ++ dr ++ concat (map rop_items ops)) (stored wr ++ dr' ++ cm_live_values c')).
Proof.
  intros Csp Cin Crm Cde Hu.
  induction cmds as [|x cmds IH]; intros [|o ops] off rest W Hok fuel pre c i w sp dr wr c' sp' dr' p Hfuel Hc Hp Hd Hrun;
    cbn [wf] in W; try contradiction; (destruct fuel as [|f]; [cbn [length] in Hfuel; lia|]).
  - rewrite cm_run_nil in Hrun. injection Hrun as <- <- <- <- <-. split; [lia|]. intros _ _.
    cbn [map concat cleared cm_live_values cm_comps]. reflexivity.
  - destruct W as (recs & rest' & -> & R & (T & Sl) & W).
    inversion Hok as [|? ? Ho Hok']; subst. clear Hok. cbn [length] in Hfuel.
    assert (Hlive : forall c1 pre1, cm_comps c1 = pre1 ++ rest' -> Forall dead pre1 ->
              Permutation (cm_live_values c1) (concat (map rop_items ops))).
    { intros c1 pre1 Hc1 Hd1. unfold cm_live_values. rewrite Hc1, live_values_split; [|exact Hd1|eapply wf_live; exact W].
      eapply wf_perm. exact W. }
    destruct x as [[h|] s n|h k ts|h], o as [b0|h' b0|h' k' ts'|h']; cbn [tag_match] in T; try contradiction.
    + (* insert *)
      subst h'. cbn [rop_ok rop_items] in Ho, Sl.
      destruct (replay_bundle_at c s n _ pre recs rest' (or_intror (ex_intro _ h eq_refl)) R Hc) as (Hb & Hc').
      pose proof (slice_bundle_ok _ _ _ Sl Ho) as Hbok. destruct Sl as (P & _).
      rewrite cm_run_insert, Hb in Hrun. cbn [b_items] in Hrun. cbn [map concat].
      assert (Hcc : cm_comps (consume c i s n) = (pre ++ map kill recs) ++ rest') by exact Hc'.
      assert (Hdd : Forall dead (pre ++ map kill recs)) by (apply Forall_app; split; [exact Hd|apply dead_kill]).
      assert (Hll : lenN (pre ++ map kill recs) = lenN pre + lenN recs) by (rewrite lenN_app, lenN_map; lia).
      destruct (w_insert u w h _) as [[w' r]|pc] eqn:Ew.
      * pose proof (idm_w_insert _ _ _ _ _ _ Ew) as Hm.
        assert (Hstep : forall dr1, cm_run u f w' (consume c i s n) (N.succ i) cmds sp dr1 = (wr, c', sp', dr', p) ->
                  idm (w_ents w) <= idm (w_ents wr) /\
                  (fits wr -> WInv u w -> WInv u w' /\ fits w /\
                     Permutation (stored w' ++ dr1 ++ concat (map rop_items ops)) (stored wr ++ dr' ++ cm_live_values c'))).
        { intros dr1 Hr. destruct (IH _ _ _ W Hok' f _ _ _ _ _ _ _ _ _ _ _ ltac:(lia) Hcc Hll Hdd Hr) as (Hm' & Hperm).
          split; [lia|]. intros Fr I. assert (F : fits w) by (eapply fits_mono; [|exact Fr]; lia).
          destruct (insert_refines_proof _ _ _ _ _ _ Hu I F Hbok Ew) as (I' & _). auto. }
        destruct r as [d| |].
        -- destruct (Hstep _ Hrun) as (Hm1 & Hrest). split; [exact Hm1|]. intros Fr I.
           destruct (Hrest Fr I) as (I' & F & Hperm). rewrite <- Hperm.
           pose proof (Cin _ _ _ _ _ _ Hu I F Hbok Ew) as Hc3. cbn [b_items] in Hc3.
           rewrite <- P. rewrite !app_assoc. apply Permutation_app_tail.
           rewrite <- !app_assoc. rewrite (Permutation_app_comm dr), app_assoc, Hc3, <- app_assoc.
           apply Permutation_app_head. apply Permutation_app_comm.
        -- destruct (Hstep _ Hrun) as (Hm1 & Hrest). split; [exact Hm1|]. intros Fr I.
           destruct (Hrest Fr I) as (I' & F & Hperm). rewrite <- Hperm.
           pose proof (Cin _ _ _ _ _ _ Hu I F Hbok Ew) as Hc3. cbn beta iota in Hc3.
           rewrite <- P, Hc3, <- !app_assoc. reflexivity.
        -- destruct (Hstep _ Hrun) as (Hm1 & Hrest). split; [exact Hm1|]. intros Fr I.
           destruct (Hrest Fr I) as (I' & F & Hperm). rewrite <- Hperm.
           pose proof (Cin _ _ _ _ _ _ Hu I F Hbok Ew) as Hc3. cbn beta iota in Hc3.
           rewrite <- P, Hc3, <- !app_assoc. reflexivity.
      * injection Hrun as <- <- <- <- <-. split; [lia|]. intros _ _.
        rewrite (Hlive _ _ Hcc Hdd), <- P, <- !app_assoc. reflexivity.
    + (* spawn *)
      cbn [rop_ok rop_items] in Ho, Sl.
      destruct (replay_bundle_at c s n _ pre recs rest' (or_introl eq_refl) R Hc) as (Hb & Hc').
      pose proof (slice_bundle_ok _ _ _ Sl Ho) as Hbok. destruct Sl as (P & _).
      rewrite cm_run_spawn, Hb in Hrun. cbn [b_items] in Hrun. cbn [map concat].
      assert (Hcc : cm_comps (consume c i s n) = (pre ++ map kill recs) ++ rest') by exact Hc'.
      assert (Hdd : Forall dead (pre ++ map kill recs)) by (apply Forall_app; split; [exact Hd|apply dead_kill]).
      assert (Hll : lenN (pre ++ map kill recs) = lenN pre + lenN recs) by (rewrite lenN_app, lenN_map; lia).
      destruct (w_spawn u w _) as [[w' hh]|pc] eqn:Ew.
      * pose proof (idm_w_spawn _ _ _ _ _ Ew) as Hm.
        destruct (IH _ _ _ W Hok' f _ _ _ _ _ _ _ _ _ _ _ ltac:(lia) Hcc Hll Hdd Hrun) as (Hm' & Hperm).
        split; [lia|]. intros Fr I.
        assert (F : fits w) by (eapply fits_mono; [|exact Fr]; lia).
        assert (F' : fits w') by (eapply fits_mono; [|exact Fr]; lia).
        destruct (spawn_refines_proof _ _ _ _ _ Hu I F Hbok Ew F') as (I' & _).
        rewrite <- (Hperm Fr I'). pose proof (Csp _ _ _ _ _ Hu I F Hbok Ew F') as Hc3. cbn [b_items] in Hc3.
        rewrite Hc3, <- P, <- !app_assoc. apply Permutation_app_head.
        rewrite !app_assoc. apply Permutation_app_tail. apply Permutation_app_comm.
      * injection Hrun as <- <- <- <- <-. split; [lia|]. intros _ _.
        rewrite (Hlive _ _ Hcc Hdd), <- P, <- !app_assoc. reflexivity.
    + (* remove *)
      destruct T as (<- & <- & <-). cbn [range_at] in R. subst recs. cbn [app] in *. cbn [rop_ok rop_items] in Ho.
      destruct Ho as (Hnd & Htl). rewrite N.add_0_r in W. cbn [map concat app rop_items].
      rewrite cm_run_remove in Hrun.
      assert (Hcc : cm_comps (blank c i) = pre ++ rest') by exact Hc.
      destruct (w_remove u w h k ts) as [[w' r]|pc] eqn:Ew.
      * pose proof (idm_w_remove _ _ _ _ _ _ _ Ew) as Hm.
        assert (Hstep : forall dr1, cm_run u f w' (blank c i) (N.succ i) cmds sp dr1 = (wr, c', sp', dr', p) ->
                  idm (w_ents w) <= idm (w_ents wr) /\
                  (fits wr -> WInv u w -> WInv u w' /\ fits w /\
                     Permutation (stored w' ++ dr1 ++ concat (map rop_items ops)) (stored wr ++ dr' ++ cm_live_values c'))).
        { intros dr1 Hr. destruct (IH _ _ _ W Hok' f _ _ _ _ _ _ _ _ _ _ _ ltac:(lia) Hcc eq_refl Hd Hr) as (Hm' & Hperm).
          split; [lia|]. intros Fr I. assert (F : fits w) by (eapply fits_mono; [|exact Fr]; lia).
          destruct (remove_refines_proof _ _ _ _ _ _ _ Hu I F Hnd Htl Ew) as (I' & _). auto. }
        destruct r as [taken| |]; destruct (Hstep _ Hrun) as (Hm1 & Hrest); (split; [exact Hm1|]); intros Fr I;
          destruct (Hrest Fr I) as (I' & F & Hperm); rewrite <- Hperm;
          pose proof (Crm _ _ _ _ _ _ _ Hu I F Hnd Htl Ew) as Hc3; cbn beta iota in Hc3.
        -- rewrite Hc3, <- !app_assoc. apply Permutation_app_head.
           rewrite !app_assoc. apply Permutation_app_tail. apply Permutation_app_comm.
        -- rewrite Hc3. reflexivity.
        -- rewrite Hc3. reflexivity.
      * injection Hrun as <- <- <- <- <-. split; [lia|]. intros _ _.
        rewrite (Hlive _ _ Hcc Hd). reflexivity.
    + (* despawn *)
      subst h'. cbn [range_at] in R. subst recs. cbn [app] in *. rewrite N.add_0_r in W. cbn [map concat app rop_items].
      rewrite cm_run_despawn in Hrun.
      assert (Hcc : cm_comps (blank c i) = pre ++ rest') by exact Hc.
      destruct (w_despawn w h) as [[w' r]|pc] eqn:Ew.
      * pose proof (idm_w_despawn _ _ _ _ Ew) as Hm.
        assert (Hstep : forall dr1, cm_run u f w' (blank c i) (N.succ i) cmds sp dr1 = (wr, c', sp', dr', p) ->
                  idm (w_ents w) <= idm (w_ents wr) /\
                  (fits wr -> WInv u w -> WInv u w' /\ fits w /\
                     Permutation (stored w' ++ dr1 ++ concat (map rop_items ops)) (stored wr ++ dr' ++ cm_live_values c'))).
        { intros dr1 Hr. destruct (IH _ _ _ W Hok' f _ _ _ _ _ _ _ _ _ _ _ ltac:(lia) Hcc eq_refl Hd Hr) as (Hm' & Hperm).
          split; [lia|]. intros Fr I. assert (F : fits w) by (eapply fits_mono; [|exact Fr]; lia).
          destruct (despawn_refines_proof _ _ _ _ _ I F Ew) as (I' & _). auto. }
        destruct r as [d| |]; destruct (Hstep _ Hrun) as (Hm1 & Hrest); (split; [exact Hm1|]); intros Fr I;
          destruct (Hrest Fr I) as (I' & F & Hperm); rewrite <- Hperm;
          pose proof (Cde _ _ _ _ _ I F Ew) as Hc3; cbn beta iota in Hc3.
        -- rewrite Hc3, <- !app_assoc. apply Permutation_app_head.
           rewrite !app_assoc. apply Permutation_app_tail. apply Permutation_app_comm.
        -- rewrite Hc3. reflexivity.
        -- rewrite Hc3. reflexivity.
      * injection Hrun as <- <- <- <- <-. split; [lia|]. intros _ _.
        rewrite (Hlive _ _ Hcc Hd). reflexivity.
Qed.

(* a replay consumes at most one id per command *)
Lemma cm_run_idm_ub u : forall cmds fuel w c i sp dr wr c' sp' dr' p,
  cm_run u fuel w c i cmds sp dr = (wr, c', sp', dr', p) -> idm (w_ents wr) <= idm (w_ents w) + lenN cmds.
Proof.
  induction cmds as [|x cmds IH]; intros [|f] w c i sp dr wr c' sp' dr' p H;
    try (cbn [cm_run] in H; injection H as <- _ _ _ _; lia).
  cbn [lenN]. destruct x as [[h|] s n|h k ts|h].
  - rewrite cm_run_insert in H. destruct (w_insert u w h _) as [[w' r]|pc] eqn:E; [|injection H as <- _ _ _ _; lia].
    apply idm_w_insert_ub in E. destruct r; apply IH in H; lia.
  - rewrite cm_run_spawn in H. destruct (w_spawn u w _) as [[w' hh]|pc] eqn:E; [|injection H as <- _ _ _ _; lia].
    apply idm_w_spawn_ub in E. apply IH in H. lia.
  - rewrite cm_run_remove in H. destruct (w_remove u w h k ts) as [[w' r]|pc] eqn:E; [|injection H as <- _ _ _ _; lia].
    apply idm_w_remove_ub in E. destruct r; apply IH in H; lia.
  - rewrite cm_run_despawn in H. destruct (w_despawn w h) as [[w' r]|pc] eqn:E; [|injection H as <- _ _ _ _; lia].
    apply idm_w_despawn_ub in E. destruct r; apply IH in H; lia.
Qed.
