(* Refinement proofs, part 4: remove::<T>, and the glue theorem "every reachable state satisfies
   the invariant", parametric in the per-operation refinement statements. *)
From Coq Require Import List NArith ZArith Bool Lia ZifyBool ZifyNat ZifyN.
From HecsV Require Import Base.ListN Base.ListNFacts Model.EntityBits Model.Types Model.Entities Model.World
  Proofs.MergeSpec Proofs.WorldSpec Proofs.ListNMore Proofs.MergeProofs Proofs.WorldLemmas Proofs.WorldProofs1.
Import ListNotations.
Open Scope N_scope.

(* ------------------------------------------------------------------------------------------ *)
(** * 1. sublists of strictly sorted lists *)

Lemma ssorted_filter R (f : tid -> bool) l : ssorted R l -> ssorted R (filter f l).
Proof.
  induction l as [|a t IH]; cbn [filter ssorted]; [auto|]. intros [Hf Hs].
  destruct (f a); [|apply IH, Hs]. cbn [ssorted]. split; [|apply IH, Hs].
  rewrite Forall_forall in *. intros x Hx. apply Hf. apply filter_In in Hx. apply Hx.
Qed.

Lemma ati_filter u (f : tid -> bool) l : assert_type_info u l = 0 -> assert_type_info u (filter f l) = 0.
Proof. rewrite !ati_ssorted. apply ssorted_filter. Qed.

Lemma ati_nodup u l : assert_type_info u l = 0 -> NoDup l.
Proof. rewrite ati_ssorted. apply ssorted_lt_nodup. Qed.

(* ------------------------------------------------------------------------------------------ *)
(** * 2. lookup_all / lookup_first / lookup_last *)

Lemma lookup_all_Some ts vals l :
  lookup_all ts vals = Some l ->
  map fst l = ts /\ forall t v, In (t, v) l -> lookup_first t vals = Some v.
Proof.
  revert l; induction ts as [|t ts IH]; intros l; cbn [lookup_all].
  - intros [= <-]. split; [reflexivity|intros t v []].
  - destruct (lookup_first t vals) as [v|] eqn:E; [|discriminate].
    destruct (lookup_all ts vals) as [l0|]; [|discriminate]. intros [= <-].
    destruct (IH _ eq_refl) as (H1 & H2). split; [cbn [map fst]; rewrite H1; reflexivity|].
    intros t' v' [[= <- <-]|Hin]; [exact E|apply H2; exact Hin].
Qed.

(* Some exactly when every requested type is present *)
Lemma lookup_all_Some_in ts vals l t :
  lookup_all ts vals = Some l -> In t ts -> exists v, In (t, v) l /\ lookup_first t vals = Some v.
Proof.
  intros H Ht. destruct (lookup_all_Some _ _ _ H) as (H1 & H2). rewrite <- H1 in Ht.
  apply in_map_iff in Ht as ([t' v] & <- & Hin). cbn [fst]. exists v. split; [exact Hin|apply H2; exact Hin].
Qed.

Lemma lookup_all_None ts vals :
  lookup_all ts vals = None -> exists t, In t ts /\ lookup_first t vals = None.
Proof.
  induction ts as [|t ts IH]; cbn [lookup_all]; [discriminate|].
  destruct (lookup_first t vals) as [v|] eqn:E; [|intros _; exists t; split; [left; reflexivity|exact E]].
  destruct (lookup_all ts vals) as [l0|]; [discriminate|]. intros _.
  destruct (IH eq_refl) as (t' & Hin & Hn). exists t'. split; [right; exact Hin|exact Hn].
Qed.

Lemma lookup_all_ok ts vals :
  (forall t, In t ts -> lookup_first t vals <> None) -> exists l, lookup_all ts vals = Some l.
Proof.
  intros H. destruct (lookup_all ts vals) as [l|] eqn:E; [eauto|].
  apply lookup_all_None in E as (t & Hin & Hn). destruct (H t Hin Hn).
Qed.

Lemma lookup_first_filter (f : tid -> bool) t (vals : list (tid * val)) :
  lookup_first t (filter (fun p => f (fst p)) vals) = if f t then lookup_first t vals else None.
Proof.
  induction vals as [|[t' v] vals IH]; cbn [filter lookup_first fst]; [destruct (f t); reflexivity|].
  destruct (f t') eqn:Ef; cbn [lookup_first].
  - destruct (N.eqb_spec t t') as [->|Hne]; [rewrite Ef; reflexivity|exact IH].
  - destruct (N.eqb_spec t t') as [->|Hne]; [|exact IH]. rewrite Ef in *. exact IH.
Qed.

Lemma map_fst_filter (f : tid -> bool) (vals : list (tid * val)) :
  map fst (filter (fun p => f (fst p)) vals) = filter f (map fst vals).
Proof.
  induction vals as [|[t v] vals IH]; cbn [filter map fst]; [reflexivity|].
  destruct (f t); cbn [map fst]; rewrite IH; reflexivity.
Qed.

Lemma lookup_last_first t (vals : list (tid * val)) :
  NoDup (map fst vals) -> lookup_last t vals = lookup_first t vals.
Proof.
  induction vals as [|[t' v] vals IH]; cbn [map fst lookup_last lookup_first]; [reflexivity|].
  intros Hn. inversion Hn as [|x y Hni Hn']; subst. rewrite (IH Hn').
  destruct (N.eqb_spec t t') as [->|Hne].
  - assert (E : lookup_first t' vals = None).
    { apply lookup_first_mem. apply (proj2 (mem_tid_false _ _)). exact Hni. }
    rewrite E. reflexivity.
  - destruct (lookup_first t vals); reflexivity.
Qed.

(* ------------------------------------------------------------------------------------------ *)
(** * 3. remove_target: one more remove-edge memo entry keeps the invariant *)

Definition add_rem (w : world) (src : N) (k : bkey) (i : N) : world :=
  {| w_ents := w_ents w; w_archs := w_archs w; w_index := w_index w; w_b2a := w_b2a w; w_ins := w_ins w;
     w_rem := ((src, k), i) :: w_rem w |}.

Lemma WStatic_add_rem u w src k i tys :
  WStatic u w -> nthN (atypes w) src = Some tys ->
  assoc_list (filter (fun x => negb (mem_tid x (tl k))) tys) (w_index w) = Some i ->
  WStatic u (add_rem w src k i).
Proof.
  intros S H1 H2. unfold WStatic in *. change (atypes (add_rem w src k i)) with (atypes w).
  cbn [add_rem w_index w_b2a w_ins w_rem]. destruct S. constructor; try assumption.
  intros src' k' i' Hk'. cbn [assoc_pair] in Hk'.
  destruct (N.eqb_spec src' src) as [->|Hne]; cbn [andb] in Hk'; [|auto].
  destruct (list_eqb k' k) eqn:E; [|auto]. apply list_eqb_eq in E. subst k'. injection Hk' as <-. eauto.
Qed.

Lemma WInvP_add_rem holes dang u w src k i a :
  WInvP holes dang u w -> nthN (w_archs w) src = Some a ->
  assoc_list (filter (fun x => negb (mem_tid x (tl k))) (a_types a)) (w_index w) = Some i ->
  WInvP holes dang u (add_rem w src k i).
Proof.
  intros P Ha Hi. apply (WInvP_frame holes dang u w); try reflexivity; [intros b Hb; left; exact Hb| |exact P].
  apply (WStatic_add_rem _ _ _ _ _ (a_types a)); [apply (wp_static _ _ _ _ P)| |exact Hi].
  rewrite nthN_atypes, Ha. reflexivity.
Qed.

(* remove_target under the invariant: a cached entry is what would be computed; otherwise the
   archetype of the filtered type list is found or created and one memo entry is added *)
Lemma remove_target_spec holes dang u w old key removed a w1 i :
  WInvP holes dang u w -> nthN (w_archs w) old = Some a -> tl key = removed ->
  remove_target u w old key removed = Done (w1, i) ->
  WInvP holes dang u w1 /\ w_ents w1 = w_ents w /\
  (forall l, row_at w1 l = row_at w l) /\ (forall h, abs w1 h = abs w h) /\
  (exists ta, nthN (w_archs w1) i = Some ta /\
     a_types ta = filter (fun x => negb (mem_tid x removed)) (a_types a)) /\
  (forall j b, nthN (w_archs w) j = Some b -> nthN (w_archs w1) j = Some b).
Proof.
  intros P Ha Hk H. subst removed. unfold remove_target in H.
  destruct (assoc_pair old key (w_rem w)) as [t|] eqn:Ec.
  - injection H as <- <-.
    destruct (WStatic_rem _ _ _ _ _ (wp_static _ _ _ _ P) Ec) as (a' & Ha' & Hix).
    rewrite Ha in Ha'. injection Ha' as <-.
    destruct (WStatic_index_inv _ _ _ _ (wp_static _ _ _ _ P) Hix) as (ta & Hta & Htt).
    split; [exact P|]. repeat split; auto. exists ta. auto.
  - unfold get_arch in H. rewrite Ha in H. cbn [bind] in H.
    set (info := filter (fun x => negb (mem_tid x (tl key))) (a_types a)) in *.
    destruct (archs_get u w info info) as [[w2 i2]|c] eqn:Eg; [|discriminate]. cbn [bind] in H.
    injection H as <- <-. fold (add_rem w2 old key i2).
    destruct (archs_get_spec _ _ _ _ _ _ _ P Eg)
      as (P2 & He & Hr & Habs & (ta & Hta & Htt & _) & Hix & Hs & Hmono & _).
    split; [|split; [exact He|split; [exact Hr|split; [|split; [exists ta; auto|exact Hmono]]]]].
    + apply (WInvP_add_rem _ _ _ _ _ _ _ a); [exact P2|apply Hmono; exact Ha|exact Hix].
    + intros h. rewrite <- Habs. apply abs_frame_rows; reflexivity.
Qed.

(* the miss path cannot panic: the filtered type list is strictly sorted *)
Lemma remove_target_ok holes dang u w old key removed a :
  WInvP holes dang u w -> nthN (w_archs w) old = Some a ->
  exists w1 i, remove_target u w old key removed = Done (w1, i).
Proof.
  intros P Ha. unfold remove_target. destruct (assoc_pair old key (w_rem w)); [eauto|].
  unfold get_arch. rewrite Ha. cbn [bind].
  destruct (archs_get_ok u w (filter (fun x => negb (mem_tid x removed)) (a_types a))) as (w1 & i & ->).
  - apply ati_filter. apply (WStatic_sorted _ _ _ (wp_static _ _ _ _ P)). eapply nthN_In. exact Ha.
  - cbn [bind]. eauto.
Qed.

(* ------------------------------------------------------------------------------------------ *)
(** * 4. w_remove *)

Lemma w_remove_unfold u w h key ts w' r :
  w_remove u w h key ts = Done (w', r) ->
  exists w0, w_flush w = Done w0 /\
    ((get_mut (w_ents w0) h = None /\ w' = w0 /\ r = WNoSuchEntity) \/
     exists l sa sr, get_mut (w_ents w0) h = Some l /\
       nthN (w_archs w0) (l_arch l) = Some sa /\ nthN (a_rows sa) (l_idx l) = Some sr /\
       ((lookup_all ts (r_vals sr) = None /\ w' = w0 /\ r = WMissing) \/
        exists taken w1 target, lookup_all ts (r_vals sr) = Some taken /\
          remove_target u w0 (l_arch l) key ts = Done (w1, target) /\ r = WOk taken /\
          ((l_arch l = target /\ w' = w1) \/
           exists ta w2 ti r4, l_arch l <> target /\ nthN (w_archs w1) target = Some ta /\
             put_row w1 target (e_id h) (filter (fun p => mem_tid (fst p) (a_types ta)) (r_vals sr)) = Done (w2, ti) /\
             detach_row (with_ents w2 (set_loc (w_ents w2) (e_id h) {| l_arch := target; l_idx := ti |})) l
               = Done (w', r4)))).
Proof.
  unfold w_remove. destruct (w_flush w) as [w0|c]; [|discriminate]. cbn [bind].
  intros H. exists w0. split; [reflexivity|].
  destruct (get_mut (w_ents w0) h) as [l|] eqn:Hg; [|injection H as <- <-; left; auto].
  right. unfold get_row, get_arch in H.
  destruct (nthN (w_archs w0) (l_arch l)) as [sa|] eqn:Hsa; [|discriminate]. cbn [bind] in H.
  destruct (nthN (a_rows sa) (l_idx l)) as [sr|] eqn:Hsr; [|discriminate]. cbn [bind] in H.
  exists l, sa, sr. split; [reflexivity|]. split; [exact Hsa|]. split; [exact Hsr|].
  destruct (dup_check u ts) as [[]|c]; [|discriminate]. cbn [bind] in H.
  destruct (lookup_all ts (r_vals sr)) as [taken|] eqn:Hla; [|injection H as <- <-; left; auto].
  right. destruct (remove_target u w0 (l_arch l) key ts) as [[w1 target]|c] eqn:Hrt; [|discriminate].
  cbn [bind] in H. exists taken, w1, target. split; [reflexivity|]. split; [reflexivity|].
  destruct (N.eqb_spec (l_arch l) target) as [Et|Et].
  - injection H as <- <-. split; [reflexivity|]. left. auto.
  - destruct (nthN (w_archs w1) target) as [ta|] eqn:Hta; [|discriminate]. cbn [bind] in H.
    destruct (put_row w1 target (e_id h) _) as [[w2 ti]|c] eqn:Hpr; [|discriminate]. cbn [bind] in H.
    destruct (detach_row _ l) as [[w4 r4]|c] eqn:Hd; [|discriminate]. cbn [bind] in H.
    injection H as <- <-. split; [reflexivity|]. right. exists ta, w2, ti, r4. auto.
Qed.

Theorem remove_refines_proof : remove_refines_stmt.
Proof.
  intros u w h key ts w' r Hinj I F Hnd Hkey H.
  apply w_remove_unfold in H as (w0 & Hfl & H).
  destruct (w_flush_spec _ _ _ I F Hfl) as (P & Hf & F0 & Habs & _).
  destruct H as [(Hg & -> & ->)|(l & sa & sr & Hg & Hsa & Hsr & H)].
  - (* NoSuchEntity *)
    split; [apply WInvP_WInv; exact P|]. split; [exact Hf|]. split; [|exact Habs].
    rewrite <- Habs, (abs_flushed _ _ Hf), Hg. reflexivity.
  - assert (Hrow : row_at w0 l = Some sr) by (apply row_at_Some; eauto).
    pose proof Hg as Hg'. apply get_mut_Some_inv in Hg' as (m & Hm & Hgen & Hs & El).
    assert (Hold : abs w h = Some (r_vals sr)).
    { rewrite <- Habs, (abs_flushed _ _ Hf), Hg, Hrow. reflexivity. }
    assert (Hty : map fst (r_vals sr) = a_types sa).
    { apply (wp_rowtypes _ _ _ _ P); eapply nthN_In; eassumption. }
    destruct H as [(Hla & -> & ->)|(taken & w1 & target & Hla & Hrt & -> & H)].
    + (* MissingComponent *)
      split; [apply WInvP_WInv; exact P|]. split; [exact Hf|]. split; [|exact Habs].
      exists (r_vals sr). split; [exact Hold|]. apply lookup_all_None. exact Hla.
    + destruct (remove_target_spec _ _ _ _ _ _ _ _ _ _ P Hsa Hkey Hrt)
        as (P1 & He1 & Hr1 & Habs1 & (ta & Hta & Htt) & Hmono).
      destruct (lookup_all_Some _ _ _ Hla) as (Htk1 & Htk2).
      assert (Hf1 : flushed w1) by (unfold flushed; rewrite He1; exact Hf).
      destruct H as [(Et & ->)|(ta' & w2 & ti & r4 & Et & Hta' & Hpr & Hd)].
      * (* the archetype does not change: nothing was requested *)
        split; [apply WInvP_WInv; exact P1|]. split; [exact Hf1|].
        exists (r_vals sr), (r_vals sr). split; [exact Hold|]. split; [rewrite Habs1, Habs; exact Hold|].
        split; [exact Htk1|]. split; [exact Htk2|]. split; [|intros h' _; rewrite Habs1; apply Habs].
        intros t. destruct (mem_tid t ts) eqn:Emt; [|reflexivity]. exfalso.
        pose proof Emt as Emt'. apply mem_tid_true in Emt'.
        destruct (lookup_all_Some_in _ _ _ _ Hla Emt') as (v & _ & Hv).
        assert (Hin : In t (a_types sa)).
        { rewrite <- Hty. apply mem_tid_true. unfold mem_tid.
          destruct (memN t (map fst (r_vals sr))) eqn:E; [reflexivity|].
          apply lookup_first_mem in E. congruence. }
        pose proof (Hmono _ _ Hsa) as Hsa1. rewrite Et, Hta in Hsa1. injection Hsa1 as ->.
        rewrite Htt in Hin. apply filter_In in Hin as (_ & Hin).
        rewrite Emt in Hin. discriminate.
      * (* the row moves to the target archetype *)
        rewrite Hta in Hta'. injection Hta' as <-.
        assert (Hm1 : nthN (meta (w_ents w1)) (e_id h) = Some m) by (rewrite He1; exact Hm).
        destruct (WInvP_open _ _ _ _ P1 Hm1 Hs) as (Po & r0 & Hr0 & Hid).
        rewrite <- El in Po, Hr0. rewrite Hr1, Hrow in Hr0. injection Hr0 as <-.
        assert (Hdd : forall l', Some l = Some l' -> l_arch l' <> target) by (intros l' [= <-]; exact Et).
        assert (Hbb : lenN (meta (w_ents w1)) <= SENT) by (rewrite He1; apply fits_meta_lt in F0; lia).
        pose proof (put_row_set_loc_spec _ _ _ _ _ _ _ _ _ Po Hpr Hdd Hbb) as Hput. cbv zeta in Hput.
        set (kept := filter (fun p => mem_tid (fst p) (a_types ta)) (r_vals sr)) in *.
        set (w3 := with_ents w2 (set_loc (w_ents w2) (e_id h) {| l_arch := target; l_idx := ti |})) in *.
        destruct Hput as (a & vals & Ha & Hmk & Hfill & P3 & Hab_o & Hab_s).
        rewrite Hta in Ha. injection Ha as <-.
        pose proof (detach_row_inv _ _ _ _ _ _ P3 Hd) as P4.
        assert (Habs4 : forall h', abs w' h' = abs w3 h').
        { intros h'. apply (detach_row_abs _ _ _ _ _ _ h' P3 Hd). intros []. }
        split; [apply WInvP_WInv; exact P4|]. split.
        { destruct (detach_row_ents _ _ _ _ _ _ P3 Hd) as (_ & _ & _ & _ & Hnf & _).
          unfold flushed. rewrite Hnf, Hfill.
          destruct (fill_frame w1 target ta (e_id h) vals Hta) as (Hp & Hc & _).
          unfold needs_flush. rewrite Hp, Hc. exact Hf1. }
        exists (r_vals sr), vals. split; [exact Hold|]. split.
        { rewrite Habs4, (Hab_s h eq_refl). unfold gen_of. rewrite Hm1, Hgen, N.eqb_refl. reflexivity. }
        split; [exact Htk1|]. split; [exact Htk2|]. split.
        { intros t. rewrite (mk_row_lookup _ _ _ t Hmk).
          pose proof (map_fst_filter (fun x => mem_tid x (a_types ta)) (r_vals sr)) as Hmf. cbv beta in Hmf.
          pose proof (lookup_first_filter (fun x => mem_tid x (a_types ta)) t (r_vals sr)) as Hlf. cbv beta in Hlf.
          assert (Hndk : NoDup (map fst kept)).
          { unfold kept. rewrite Hmf, Hty. apply NoDup_filter_tid. apply (ati_nodup u).
            apply (WStatic_sorted _ _ _ (wp_static _ _ _ _ P)). eapply nthN_In. exact Hsa. }
          rewrite (lookup_last_first _ _ Hndk). unfold kept. rewrite Hlf.
          change (memN t (a_types ta)) with (mem_tid t (a_types ta)).
          destruct (mem_tid t (a_types ta)) eqn:Eb.
          - apply mem_tid_true in Eb. rewrite Htt in Eb. apply filter_In in Eb as (_ & Eb).
            destruct (mem_tid t ts); [discriminate|reflexivity].
          - apply mem_tid_false in Eb. destruct (mem_tid t ts) eqn:Ets; [reflexivity|].
            symmetry. apply lookup_first_mem. rewrite Hty.
            change (mem_tid t (a_types sa) = false). apply mem_tid_false.
            intros Hin. apply Eb. rewrite Htt. apply filter_In. split; [exact Hin|rewrite Ets; reflexivity]. }
        { intros h' Hne. rewrite Habs4. destruct (N.eq_dec (e_id h') (e_id h)) as [Eid|Eid].
          - rewrite (Hab_s h' Eid). unfold gen_of. rewrite Hm1.
            destruct (N.eqb_spec (m_gen m) (e_gen h')) as [Eg|Eg].
            + exfalso. apply Hne. apply entity_ext; congruence.
            + symmetry. rewrite <- Habs. rewrite <- Eid in Hm. apply (abs_gen_mismatch _ _ _ Hm Eg).
          - rewrite Hab_o by (intros [E|[]]; congruence). rewrite Habs1. apply Habs. }
Qed.

(* remove::<T> never panics on a world satisfying the invariant (not needed below; it uses the
   sortedness of filtered type lists) *)
Theorem remove_never_panics u w h key ts :
  WInv u w -> fits w -> assert_type_info u (tsort u ts) = 0 ->
  exists w' r, w_remove u w h key ts = Done (w', r).
Proof.
  intros I F Hdup. destruct (w_flush_ok _ _ I) as (w0 & Hfl).
  destruct (w_flush_spec _ _ _ I F Hfl) as (P & Hf & F0 & _).
  unfold w_remove. rewrite Hfl. cbn [bind].
  destruct (get_mut (w_ents w0) h) as [l|] eqn:Hg; [|eauto].
  pose proof Hg as Hg'. apply get_mut_Some_inv in Hg' as (m & Hm & Hgen & Hs & El).
  destruct (WInvP_open _ _ _ _ P Hm Hs) as (_ & sr & Hrow & Hid). rewrite <- El in Hrow.
  pose proof Hrow as Hrow'. apply row_at_Some in Hrow' as (sa & Hsa & Hsr).
  unfold get_row, get_arch. rewrite Hsa. cbn [bind]. rewrite Hsr. cbn [bind].
  unfold dup_check. rewrite Hdup. cbn [bind].
  destruct (lookup_all ts (r_vals sr)) as [taken|] eqn:Hla; [|eauto].
  destruct (remove_target_ok _ _ u w0 (l_arch l) key ts sa P Hsa) as (w1 & target & Hrt).
  rewrite Hrt. cbn [bind].
  destruct (N.eqb_spec (l_arch l) target) as [Et|Et]; [eauto|].
  (* the invariant is only needed up to the memo key here: reuse the spec with the key's own list *)
  assert (Hspec : exists ta, nthN (w_archs w1) target = Some ta /\
            w_ents w1 = w_ents w0 /\ (forall l, row_at w1 l = row_at w0 l) /\
            (forall t, In t (a_types ta) -> In t (a_types sa))).
  { unfold remove_target in Hrt. destruct (assoc_pair (l_arch l) key (w_rem w0)) as [t0|] eqn:Ec.
    - injection Hrt as <- <-.
      destruct (WStatic_rem _ _ _ _ _ (wp_static _ _ _ _ P) Ec) as (a' & Ha' & Hix).
      rewrite Hsa in Ha'. injection Ha' as <-.
      destruct (WStatic_index_inv _ _ _ _ (wp_static _ _ _ _ P) Hix) as (ta & Hta & Htt).
      exists ta. split; [exact Hta|]. split; [reflexivity|]. split; [reflexivity|].
      intros t Ht. rewrite Htt in Ht. apply filter_In in Ht. apply Ht.
    - unfold get_arch in Hrt. rewrite Hsa in Hrt. cbn [bind] in Hrt.
      destruct (archs_get u w0 _ _) as [[w2 i2]|c] eqn:Eg; [|discriminate]. cbn [bind] in Hrt.
      injection Hrt as <- <-.
      destruct (archs_get_spec _ _ _ _ _ _ _ P Eg) as (_ & He & Hr & _ & (ta & Hta & Htt & _) & _).
      exists ta. split; [exact Hta|]. split; [exact He|]. split; [exact Hr|].
      intros t Ht. rewrite Htt in Ht. apply filter_In in Ht. apply Ht. }
  destruct Hspec as (ta & Hta & He1 & Hr1 & Hsub).
  unfold get_arch. rewrite Hta. cbn [bind].
  assert (Hty : map fst (r_vals sr) = a_types sa).
  { apply (wp_rowtypes _ _ _ _ P); eapply nthN_In; eassumption. }
  destruct (put_row_ok w1 target (e_id h) (filter (fun p => mem_tid (fst p) (a_types ta)) (r_vals sr)) ta Hta)
    as (w2 & ti & Hpr).
  - pose proof (map_fst_filter (fun x => mem_tid x (a_types ta)) (r_vals sr)) as Hmf. cbv beta in Hmf.
    rewrite Hmf. unfold all_in. apply forallb_forall. intros t Ht. apply filter_In in Ht. apply Ht.
  - intros t Ht.
    assert (Hnd : NoDup (map fst (filter (fun p => mem_tid (fst p) (a_types ta)) (r_vals sr)))).
    { pose proof (map_fst_filter (fun x => mem_tid x (a_types ta)) (r_vals sr)) as Hmf. cbv beta in Hmf.
      rewrite Hmf, Hty. apply NoDup_filter_tid. apply (ati_nodup u).
      apply (WStatic_sorted _ _ _ (wp_static _ _ _ _ P)). eapply nthN_In. exact Hsa. }
    rewrite (lookup_last_first _ _ Hnd).
    pose proof (lookup_first_filter (fun x => mem_tid x (a_types ta)) t (r_vals sr)) as Hlf. cbv beta in Hlf.
    rewrite Hlf, (proj2 (mem_tid_true _ _) Ht). intros E. apply lookup_first_mem in E.
    rewrite Hty in E. change (mem_tid t (a_types sa) = false) in E. apply mem_tid_false in E.
    apply E, Hsub, Ht.
  - rewrite Hpr. cbn [bind].
    apply put_row_spec in Hpr as (a & vals & Ha & _ & _ & _ & _ & -> & _).
    rewrite Hta in Ha. injection Ha as <-.
    destruct (detach_row_ok (with_ents (upd_arch w1 target (fst (arch_push ta (e_id h) vals)))
                (set_loc (w_ents (upd_arch w1 target (fst (arch_push ta (e_id h) vals)))) (e_id h)
                   {| l_arch := target; l_idx := ti |})) l sr) as (w4 & Hd).
    + rewrite row_at_with_ents, (row_at_upd_arch _ _ _ _ _ Hta).
      destruct (N.eqb_spec (l_arch l) target) as [E|_]; [contradiction|]. rewrite Hr1. exact Hrow.
    + rewrite Hd. cbn [bind]. eauto.
Qed.

(* ------------------------------------------------------------------------------------------ *)
(** * 5. every reachable state satisfies the invariant, given the per-operation statements *)

Lemma wrun_head u w ops : exists t, wrun u w ops = w :: t.
Proof. destruct ops as [|o r]; cbn [wrun]; [eauto|]. destruct (wstep u w o); eauto. Qed.

Lemma wrun_inv_from_ops :
  spawn_refines_stmt -> spawn_at_refines_stmt -> insert_refines_stmt -> remove_refines_stmt ->
  exchange_refines_stmt -> column_batch_refines_stmt ->
  forall u, total_inj u -> forall ops w, Forall (wop_ok u) ops -> WInv u w ->
    Forall fits (wrun u w ops) -> Forall (WInv u) (wrun u w ops).
Proof.
  intros Hspawn Hspawn_at Hinsert Hremove Hexch Hcol u Hinj.
  induction ops as [|o r IH]; intros w Hok I HF; cbn [wrun] in *.
  - constructor; [exact I|constructor].
  - inversion Hok as [|? ? Ho Hr]; subst.
    destruct (wstep u w o) as [w1|c] eqn:Es; [|constructor; [exact I|constructor]].
    inversion HF as [|? ? Fw HF1]; subst.
    constructor; [exact I|]. apply IH; [exact Hr| |exact HF1].
    assert (F1 : fits w1).
    { destruct (wrun_head u w1 r) as (t & Et). rewrite Et in HF1. inversion HF1; assumption. }
    destruct o as [b|h b|h b|h key ts|h key ts b|h|h| | | |types vals]; cbn [wstep wop_ok] in Es, Ho.
    + destruct (w_spawn u w b) as [[w2 h]|c] eqn:E; [|discriminate]. injection Es as ->.
      exact (proj1 (Hspawn u w b w1 h Hinj I Fw Ho E F1)).
    + destruct (w_spawn_at u w h b) as [[w2 d]|c] eqn:E; [|discriminate]. injection Es as ->.
      exact (proj1 (Hspawn_at u w h b w1 d Hinj I Fw (proj1 Ho) (proj2 Ho) E F1)).
    + destruct (w_insert u w h b) as [[w2 r0]|c] eqn:E; [|discriminate]. injection Es as ->.
      exact (proj1 (Hinsert u w h b w1 r0 Hinj I Fw Ho E)).
    + destruct (w_remove u w h key ts) as [[w2 r0]|c] eqn:E; [|discriminate]. injection Es as ->.
      exact (proj1 (Hremove u w h key ts w1 r0 Hinj I Fw (proj1 Ho) (proj2 Ho) E)).
    + destruct (w_exchange u w h key ts b) as [[w2 r0]|c] eqn:E; [|discriminate]. injection Es as ->.
      destruct Ho as (Ho1 & Ho2 & Ho3).
      exact (proj1 (Hexch u w h key ts b w1 r0 Hinj I Fw Ho1 Ho2 Ho3 E)).
    + destruct (w_despawn w h) as [[w2 r0]|c] eqn:E; [|discriminate]. injection Es as ->.
      exact (proj1 (despawn_refines_proof u w h w1 r0 I Fw E)).
    + destruct (w_take_drop w h) as [[w2 r0]|c] eqn:E; [|discriminate]. injection Es as ->.
      exact (proj1 (take_drop_refines_proof u w h w1 r0 I Fw E)).
    + injection Es as <-.
      exact (proj1 (clear_refines_proof u w (fst (w_clear w)) (snd (w_clear w)) I (surjective_pairing _))).
    + destruct (reserve_entity (w_ents w)) as [[e h]|c] eqn:E; [|discriminate]. injection Es as <-.
      exact (proj1 (reserve_refines_proof u w e h I Fw E F1)).
    + exact (proj1 (flush_refines_proof u w w1 I Fw Es)).
    + destruct (w_spawn_column_batch w types vals) as [[w2 hs]|c] eqn:E; [|discriminate]. injection Es as ->.
      exact (proj1 (Hcol u w types vals w1 hs Hinj I Fw (proj1 Ho) (proj2 Ho) E F1)).
Qed.

Theorem reachable_inv_from_ops :
  spawn_refines_stmt -> spawn_at_refines_stmt -> insert_refines_stmt -> remove_refines_stmt ->
  exchange_refines_stmt -> column_batch_refines_stmt -> reachable_inv_stmt.
Proof.
  intros Hspawn Hspawn_at Hinsert Hremove Hexch Hcol u ops Hinj Hok HF.
  apply (wrun_inv_from_ops Hspawn Hspawn_at Hinsert Hremove Hexch Hcol u Hinj ops world_new Hok); [|exact HF].
  apply (world_new_inv_proof u).
Qed.

Print Assumptions remove_refines_proof.
Print Assumptions remove_never_panics.
Print Assumptions reachable_inv_from_ops.
