(* World-level facts needed by the interpreter invariant (Proofs/InterpProofs.v): every world operation
   the interpreter performs keeps WInv for ARBITRARY decoded arguments - when the side conditions of
   the refinement theorems fail (repeated types in a bundle / in a removed type list) the operation
   panics or degenerates to a flush. *)
From Coq Require Import List NArith ZArith Bool Lia ZifyBool ZifyNat ZifyN Permutation ListDec.
From HecsV Require Import Base.ListN Base.ListNFacts Proofs.ListNMore Model.EntityBits Model.Types Model.Entities
  Model.World Model.Containers.
From HecsV Require Import Proofs.MergeSpec Proofs.MergeProofs Proofs.WorldSpec Proofs.WorldSpec3 Proofs.WorldLemmas
  Proofs.WorldProofs1 Proofs.WorldProofs2 Proofs.WorldProofs3 Proofs.WorldProofs4 Proofs.WorldProofs5
  Proofs.ContSpec Proofs.ContMono Proofs.ContRun Proofs.InterpDefs Proofs.InterpTake Proofs.InterpGens.
Import ListNotations.
Open Scope N_scope.

(* a static key, when present, determines the field types (second clause of bundle_ok) *)
Definition keyc (b : bundle) : Prop := forall k, b_key b = Some k -> tl k = b_types b.

Lemma keyc_none items : keyc {| b_key := None; b_items := items |}.
Proof. intros k Hk. discriminate Hk. Qed.

Lemma tids_nodup_dec (l : list tid) : {NoDup l} + {~ NoDup l}.
Proof. apply NoDup_dec. exact N.eq_dec. Qed.

Lemma dup_ati u l : total_inj u -> ~ NoDup l -> assert_type_info u (tsort u l) = 1.
Proof. intros T H. apply dup_detected_stmt_proof; [apply WorldProofs2.total_inj_rank_inj; exact T|exact H]. Qed.

Lemma valid_hgen h : valid_entity h -> hgen_ok h.
Proof. intros (_ & H). exact H. Qed.

Lemma WInv_gens u w : WInv u w -> gens_ok (w_ents w).
Proof. intros I. exact (wi_gen _ _ I). Qed.

(* ---------------------------------------------------------------------------------------------- *)
(** * spawn *)
Lemma spawn_keeps u w b w' h :
  total_inj u -> WInv u w -> fits w -> keyc b -> w_spawn u w b = Done (w', h) -> fits w' ->
  WInv u w' /\ valid_entity h.
Proof.
  intros T I F Hk H F'. destruct (tids_nodup_dec (b_types b)) as [Hnd|Hnd].
  - destruct (spawn_refines_proof u w b w' h T I F (conj Hnd Hk) H F') as (I' & _ & _ & Hv & _). auto.
  - rewrite (spawn_dup_panics_proof u w b T I F Hnd Hk) in H. discriminate.
Qed.

(* ---------------------------------------------------------------------------------------------- *)
(** * spawn_at *)
Lemma spawn_inner_dup u w h b :
  total_inj u -> WStatic u w -> ~ NoDup (b_types b) -> keyc b -> spawn_inner u w h b = Panic P_DUP.
Proof.
  intros T S Hnd Hk. unfold spawn_inner. rewrite (bundle_archetype_dup u w b T S Hnd Hk). reflexivity.
Qed.

Lemma spawn_at_keeps u w h b w' d :
  total_inj u -> WInv u w -> fits w -> keyc b -> valid_entity h ->
  w_spawn_at u w h b = Done (w', d) -> fits w' -> WInv u w'.
Proof.
  intros T I F Hk Hv H F'. destruct (tids_nodup_dec (b_types b)) as [Hnd|Hnd].
  - destruct (spawn_at_refines_proof u w h b w' d T I F (conj Hnd Hk) Hv H F') as (I' & _). exact I'.
  - exfalso. apply w_spawn_at_unfold in H as (w0 & e & ol & w2 & Hfl & Hal & Hmid & Hsp).
    destruct (w_flush_spec _ _ _ I F Hfl) as (P0 & Hf0 & F0 & _).
    destruct (alloc_at_inv _ _ _ _ _ P0 Hf0 Hv Hal) as (P1 & _).
    assert (S2 : WStatic u w2).
    { destruct ol as [l|].
      - destruct Hmid as (r & Hd & _). apply (wp_static _ _ _ _ (detach_row_inv _ _ _ _ _ _ P1 Hd)).
      - destruct Hmid as (-> & _). apply (wp_static _ _ _ _ P1). }
    rewrite (spawn_inner_dup u w2 h b T S2 Hnd Hk) in Hsp. discriminate.
Qed.

(* ---------------------------------------------------------------------------------------------- *)
(** * insert *)
Lemma get_insert_target_dup u w origin b :
  total_inj u -> ~ NoDup (b_types b) -> exists c, get_insert_target u w origin b = Panic c.
Proof.
  intros T Hnd. unfold get_insert_target. destruct (get_arch w origin) as [a|c]; cbn [bind]; [|eauto].
  rewrite (dup_ati u _ T Hnd). eauto.
Qed.

Lemma insert_target_dup u w origin b :
  total_inj u -> WStatic u w -> ~ NoDup (b_types b) -> keyc b -> exists c, insert_target u w origin b = Panic c.
Proof.
  intros T S Hnd Hk. unfold insert_target. destruct (b_key b) as [k|] eqn:Ek.
  - specialize (Hk k Ek). destruct (assoc_pair origin k (w_ins w)) as [t|] eqn:Ec.
    + exfalso. destruct (ws_ins _ _ _ _ _ _ S _ _ _ Ec) as (tys & _ & Hs & _).
      assert (Hk' : @tl tid k = b_types b) by exact Hk. rewrite ?Hk, ?Hk' in Hs.
      rewrite (dup_ati u _ T Hnd) in Hs. discriminate.
    + destruct (get_insert_target_dup u w origin b T Hnd) as (c & ->). cbn [bind]. eauto.
  - apply get_insert_target_dup; assumption.
Qed.

Lemma insert_inner_dup u w h b origin l :
  total_inj u -> WStatic u w -> ~ NoDup (b_types b) -> keyc b -> exists c, insert_inner u w h b origin l = Panic c.
Proof.
  intros T S Hnd Hk. unfold insert_inner. destruct (insert_target_dup u w origin b T S Hnd Hk) as (c & ->).
  cbn [bind]. eauto.
Qed.

Lemma insert_keeps u w h b w' r :
  total_inj u -> WInv u w -> fits w -> keyc b -> w_insert u w h b = Done (w', r) -> WInv u w'.
Proof.
  intros T I F Hk H. destruct (tids_nodup_dec (b_types b)) as [Hnd|Hnd].
  - destruct (insert_refines_proof u w h b w' r T I F (conj Hnd Hk) H) as (I' & _). exact I'.
  - unfold w_insert in H. destruct (w_flush w) as [w0|c] eqn:Hfl; [|discriminate]. cbn [bind] in H.
    destruct (w_flush_spec _ _ _ I F Hfl) as (P0 & _).
    destruct (get (w_ents w0) h) as [l|].
    + destruct (insert_inner_dup u w0 h b (l_arch l) l T (wp_static _ _ _ _ P0) Hnd Hk) as (c & E).
      rewrite E in H. discriminate.
    + injection H as <- <-. apply WInvP_WInv. exact P0.
Qed.

(* ---------------------------------------------------------------------------------------------- *)
(** * remove / exchange *)
Lemma dup_check_dup u ts : total_inj u -> ~ NoDup ts -> exists c, dup_check u ts = Panic c.
Proof. intros T Hnd. unfold dup_check. rewrite (dup_ati u _ T Hnd). eauto. Qed.

Lemma remove_keeps u w h key ts w' r :
  total_inj u -> WInv u w -> fits w -> tl key = ts -> w_remove u w h key ts = Done (w', r) -> WInv u w'.
Proof.
  intros T I F Hk H. destruct (tids_nodup_dec ts) as [Hnd|Hnd].
  - destruct (remove_refines_proof u w h key ts w' r T I F Hnd Hk H) as (I' & _). exact I'.
  - unfold w_remove in H. destruct (w_flush w) as [w0|c] eqn:Hfl; [|discriminate]. cbn [bind] in H.
    destruct (w_flush_spec _ _ _ I F Hfl) as (P0 & _).
    destruct (get_mut (w_ents w0) h) as [l|].
    + destruct (get_row w0 l) as [[sa sr]|c]; [|discriminate]. cbn [bind] in H.
      destruct (dup_check_dup u ts T Hnd) as (c & E). rewrite E in H. discriminate.
    + injection H as <- <-. apply WInvP_WInv. exact P0.
Qed.

Lemma exchange_keeps u w h key ts b w' r :
  total_inj u -> WInv u w -> fits w -> tl key = ts -> keyc b ->
  w_exchange u w h key ts b = Done (w', r) -> WInv u w'.
Proof.
  intros T I F Hk Hkb H.
  destruct (tids_nodup_dec ts) as [Hnd|Hnd]; [destruct (tids_nodup_dec (b_types b)) as [Hnb|Hnb]|].
  - destruct (exchange_refines_proof u w h key ts b w' r T I F Hnd Hk (conj Hnb Hkb) H) as (I' & _). exact I'.
  - unfold w_exchange in H. destruct (w_flush w) as [w0|c] eqn:Hfl; [|discriminate]. cbn [bind] in H.
    destruct (w_flush_spec _ _ _ I F Hfl) as (P0 & _).
    destruct (get (w_ents w0) h) as [l|].
    + destruct (get_row w0 l) as [[sa sr]|c] eqn:Hgr; [|discriminate]. cbn [bind] in H.
      apply get_row_Done in Hgr as (Hsa & Hsr).
      destruct (dup_check u ts) as [[]|c]; [|discriminate]. cbn [bind] in H.
      destruct (lookup_all ts (r_vals sr)) as [taken|].
      * destruct (remove_target u w0 (l_arch l) key ts) as [[w1 mid]|c] eqn:Er; [|discriminate]. cbn [bind] in H.
        destruct (WorldProofs4.remove_target_spec _ _ _ _ _ _ _ _ _ _ P0 Hsa Hk Er) as (P1 & _).
        destruct (insert_inner_dup u w1 h b mid l T (wp_static _ _ _ _ P1) Hnb Hkb) as (c & E).
        rewrite E in H. discriminate.
      * injection H as <- <-. apply WInvP_WInv. exact P0.
    + injection H as <- <-. apply WInvP_WInv. exact P0.
  - unfold w_exchange in H. destruct (w_flush w) as [w0|c] eqn:Hfl; [|discriminate]. cbn [bind] in H.
    destruct (w_flush_spec _ _ _ I F Hfl) as (P0 & _).
    destruct (get (w_ents w0) h) as [l|].
    + destruct (get_row w0 l) as [[sa sr]|c]; [|discriminate]. cbn [bind] in H.
      destruct (dup_check_dup u ts T Hnd) as (c & E). rewrite E in H. discriminate.
    + injection H as <- <-. apply WInvP_WInv. exact P0.
Qed.

(* ---------------------------------------------------------------------------------------------- *)
(** * reserve_entity / reserve_entities only move the cursor down *)
Lemma reserve1_keeps u w e h :
  WInv u w -> reserve_entity (w_ents w) = Done (e, h) -> WInv u (with_ents w e) /\ hgen_ok h.
Proof.
  intros I H. pose proof (wi_cursor _ _ I) as Hc. pose proof (gen_of_ok (w_ents w)) as G.
  unfold reserve_entity in H. destruct (Z.ltb 0 (cursor (w_ents w))).
  - destruct (nthN (pending (w_ents w)) _) as [id|]; [|discriminate]. injection H as <- <-.
    split; [apply WInv_cursor; [exact I|lia]|]. apply G. exact (wi_gen _ _ I).
  - destruct (Z.ltb _ _); [|discriminate]. injection H as <- <-.
    split; [apply WInv_cursor; [exact I|lia]|]. unfold hgen_ok, W32. cbn [e_gen]. lia.
Qed.

Lemma reserveN_keeps u w n e hs :
  WInv u w -> reserve_entities (w_ents w) n = Done (e, hs) -> WInv u (with_ents w e) /\ Forall hgen_ok hs.
Proof.
  intros I H. pose proof (wi_cursor _ _ I) as Hc. assert (G : forall id, 0 < gen_of (w_ents w) id < W32) by (intros id; apply gen_of_ok; exact (wi_gen _ _ I)).
  assert (G1 : forall l, Forall hgen_ok (map (fun id => {| e_id := id; e_gen := gen_of (w_ents w) id |}) l)).
  { intros l. apply Forall_forall. intros x Hx. apply in_map_iff in Hx as (id & <- & _). apply G. }
  assert (G2 : forall l, Forall hgen_ok (map (fun id => {| e_id := id; e_gen := 1 |}) l)).
  { intros l. apply Forall_forall. intros x Hx. apply in_map_iff in Hx as (id & <- & _). unfold hgen_ok, W32. cbn [e_gen]. lia. }
  unfold reserve_entities in H. destruct (N.ltb _ _); [discriminate|].
  destruct (Z.leb 0 _).
  - injection H as <- <-. split; [apply WInv_cursor; [exact I|lia]|apply G1].
  - destruct (Z.leb _ _); [discriminate|]. injection H as <- <-.
    split; [apply WInv_cursor; [exact I|lia]|]. apply Forall_app. split; [apply G1|apply G2].
Qed.

(* ---------------------------------------------------------------------------------------------- *)
(** * column batches *)
Lemma column_batch_keeps u w types vals w' hs :
  total_inj u -> WInv u w -> fits w -> assert_type_info u types = 0 -> (forall v, In v vals -> map fst v = types) ->
  w_spawn_column_batch w types vals = Done (w', hs) -> fits w' -> WInv u w' /\ Forall hgen_ok hs.
Proof.
  intros T I F Hs Hty H F'.
  destruct (column_batch_refines_proof u w types vals w' hs T I F Hs Hty H F') as (I' & _).
  split; [exact I'|].
  apply w_spawn_column_batch_unfold in H.
  destruct H as (w0 & w1 & aid & base & e & ids & a & _ & _ & _ & _ & Hw' & Hhs).
  subst hs. apply Forall_forall. intros x Hx. apply in_map_iff in Hx as (id & <- & _).
  unfold resolve_unknown_gen, hgen_ok. cbn [e_gen]. apply gen_of_ok.
  pose proof (wi_gen _ _ I') as G. rewrite Hw' in G. exact G.
Qed.

Lemma column_batch_at_keeps u w hs types vals w' d :
  total_inj u -> WInv u w -> fits w -> assert_type_info u types = 0 -> (forall v, In v vals -> map fst v = types) ->
  Forall valid_entity hs -> w_spawn_column_batch_at w hs types vals = (w', None, d) -> fits w' -> WInv u w'.
Proof.
  intros T I F Hs Hty Hv H F'.
  assert (Hnd : NoDup (map e_id hs)).
  { unfold w_spawn_column_batch_at in H. destruct (w_flush w) as [w0|c] eqn:Hfl; [|discriminate].
    destruct (w_flush_spec _ _ _ I F Hfl) as (P0 & Hf0 & _).
    destruct (negb (N.eqb (lenN hs) (lenN vals))); [discriminate|].
    pose proof (replace_handles_spec u hs w0 [] [] P0 Hf0 (holes_sent_nil w0) Hv) as R.
    destruct (replace_handles w0 hs []) as [[w1 [c|]] d1]; [discriminate|]. apply R. }
  destruct (column_batch_at_refines_proof u w hs types vals w' d T I F Hs Hty Hv Hnd H F') as (I' & _). exact I'.
Qed.

(* ---------------------------------------------------------------------------------------------- *)
(** * CommandBuffer::run_on *)
Definition cmd_ok (x : cmd) : Prop :=
  match x with CRemove _ key ts => tl key = ts | _ => True end.

Lemma cm_run_keeps u : total_inj u -> forall cmds fuel w c i sp dr wr c' sp' dr' p,
  cm_run u fuel w c i cmds sp dr = (wr, c', sp', dr', p) -> Forall cmd_ok cmds ->
  idm (w_ents w) <= idm (w_ents wr) /\ (WInv u w -> p = None -> fits wr -> WInv u wr).
Proof.
  intros T. induction cmds as [|x cmds IH]; intros [|f] w c i sp dr wr c' sp' dr' p H Hok;
    try (cbn [cm_run] in H; injection H as <- _ _ _ _; split; [lia|auto]).
  inversion Hok as [|? ? Hx Hok']; subst.
  assert (Step : forall w1, idm (w_ents w) <= idm (w_ents w1) -> (WInv u w -> fits w -> fits w1 -> WInv u w1) ->
            forall c1 i1 sp1 dr1, cm_run u f w1 c1 i1 cmds sp1 dr1 = (wr, c', sp', dr', p) ->
            idm (w_ents w) <= idm (w_ents wr) /\ (WInv u w -> p = None -> fits wr -> WInv u wr)).
  { intros w1 Hm Hinv c1 i1 sp1 dr1 Hr. destruct (IH _ _ _ _ _ _ _ _ _ _ _ Hr Hok') as (Hm' & Hi').
    split; [lia|]. intros I Hp Fr. apply Hi'; [|exact Hp|exact Fr].
    apply Hinv; [exact I|eapply fits_mono; [|exact Fr]; lia|eapply fits_mono; [|exact Fr]; lia]. }
  destruct x as [[h|] s n|h k ts|h].
  - rewrite cm_run_insert in H. destruct (w_insert u w h _) as [[w1 r]|pc] eqn:E.
    + assert (Hm := idm_w_insert _ _ _ _ _ _ E).
      assert (Hi : WInv u w -> fits w -> fits w1 -> WInv u w1).
      { intros I F _. eapply insert_keeps; try eassumption. apply keyc_none. }
      destruct r; eapply Step; eassumption.
    + injection H as <- _ _ _ <-. split; [lia|]. intros _ [=].
  - rewrite cm_run_spawn in H. destruct (w_spawn u w _) as [[w1 hh]|pc] eqn:E.
    + assert (Hm := idm_w_spawn _ _ _ _ _ E).
      assert (Hi : WInv u w -> fits w -> fits w1 -> WInv u w1).
      { intros I F F1. eapply spawn_keeps; try eassumption. apply keyc_none. }
      eapply Step; eassumption.
    + injection H as <- _ _ _ <-. split; [lia|]. intros _ [=].
  - rewrite cm_run_remove in H. cbn [cmd_ok] in Hx. destruct (w_remove u w h k ts) as [[w1 r]|pc] eqn:E.
    + assert (Hm := idm_w_remove _ _ _ _ _ _ _ E).
      assert (Hi : WInv u w -> fits w -> fits w1 -> WInv u w1).
      { intros I F _. eapply remove_keeps; eassumption. }
      destruct r; eapply Step; eassumption.
    + injection H as <- _ _ _ <-. split; [lia|]. intros _ [=].
  - rewrite cm_run_despawn in H. destruct (w_despawn w h) as [[w1 r]|pc] eqn:E.
    + assert (Hm := idm_w_despawn _ _ _ _ E).
      assert (Hi : WInv u w -> fits w -> fits w1 -> WInv u w1).
      { intros I F _. destruct (despawn_refines_proof _ _ _ _ _ I F E) as (I' & _). exact I'. }
      destruct r; eapply Step; eassumption.
    + injection H as <- _ _ _ <-. split; [lia|]. intros _ [=].
Qed.

(* the commands left in the buffer are blanked-out or untouched ones *)
Lemma cm_run_cmds u : forall cmds fuel w c i sp dr wr c' sp' dr' p,
  cm_run u fuel w c i cmds sp dr = (wr, c', sp', dr', p) ->
  Forall cmd_ok (cm_cmds c) -> Forall cmd_ok (cm_cmds c').
Proof.
  assert (Hupd : forall l i, Forall cmd_ok l -> Forall cmd_ok (updN l i (CDespawn DANGLING))).
  { intros l i Hl. apply Forall_forall. intros x Hx. apply In_updN in Hx as [->|Hx]; [exact I|].
    rewrite Forall_forall in Hl. apply Hl. exact Hx. }
  induction cmds as [|x cmds IH]; intros [|f] w c i sp dr wr c' sp' dr' p H Hc;
    try (cbn [cm_run] in H; injection H as _ <- _ _ _; first [exact Hc|constructor]).
  destruct x as [[h|] s n|h k ts|h].
  - rewrite cm_run_insert in H. destruct (w_insert u w h _) as [[w1 r]|pc].
    + destruct r; eapply IH; try eassumption; cbn [consume cm_cmds]; apply Hupd; exact Hc.
    + injection H as _ <- _ _ _. cbn [consume cm_cmds]. apply Hupd. exact Hc.
  - rewrite cm_run_spawn in H. destruct (w_spawn u w _) as [[w1 hh]|pc].
    + eapply IH; try eassumption; cbn [consume cm_cmds]; apply Hupd; exact Hc.
    + injection H as _ <- _ _ _. cbn [consume cm_cmds]. apply Hupd. exact Hc.
  - rewrite cm_run_remove in H. destruct (w_remove u w h k ts) as [[w1 r]|pc].
    + destruct r; eapply IH; try eassumption; cbn [blank cm_cmds]; apply Hupd; exact Hc.
    + injection H as _ <- _ _ _. cbn [blank cm_cmds]. apply Hupd. exact Hc.
  - rewrite cm_run_despawn in H. destruct (w_despawn w h) as [[w1 r]|pc].
    + destruct r; eapply IH; try eassumption; cbn [blank cm_cmds]; apply Hupd; exact Hc.
    + injection H as _ <- _ _ _. cbn [blank cm_cmds]. apply Hupd. exact Hc.
Qed.
