(* Further world statements needed by the serde properties (and C12): totality of spawn_at, and
   refinement / totality of spawn_column_batch_at.  Statements only. *)
From Coq Require Import List NArith ZArith Bool Lia.
From HecsV Require Import Base.ListN Base.ListNFacts Model.EntityBits Model.Types Model.Entities Model.World.
From HecsV Require Import Proofs.WorldSpec.
Import ListNotations.
Open Scope N_scope.

(* spawn_at with a valid handle whose id is below the id-space limit and a bundle without repeated
   types never panics *)
Definition spawn_at_never_panics_stmt : Prop :=
  forall u w h b, total_inj u -> WInv u w -> fits w -> bundle_ok b -> valid_entity h ->
    e_id h + 1 + lenN (meta (w_ents w)) + Z.to_N (Z.max 0 (- cursor (w_ents w))) < SENT ->
    exists w' d, w_spawn_at u w h b = Done (w', d).

(* spawn_column_batch_at with pairwise distinct ids: every handle denotes its row afterwards, entities
   that held one of the ids are gone (their components dropped), everything else is unchanged *)
Definition column_batch_at_refines_stmt : Prop :=
  forall u w hs types vals w' d, total_inj u -> WInv u w -> fits w ->
    assert_type_info u types = 0 -> (forall v, In v vals -> map fst v = types) ->
    Forall valid_entity hs -> NoDup (map e_id hs) ->
    w_spawn_column_batch_at w hs types vals = (w', None, d) -> fits w' ->
    WInv u w' /\ flushed w' /\
    (forall i h v, nthN hs i = Some h -> nthN vals i = Some v -> abs w' h = Some v) /\
    (forall h', ~ In (e_id h') (map e_id hs) -> abs w' h' = abs w h') /\
    (forall h', In (e_id h') (map e_id hs) -> ~ In h' hs -> abs w' h' = None).

(* it panics only on what the statement excludes: a length mismatch or a repeated id (clean assert) -
   never with out-of-bounds or overflow *)
Definition column_batch_at_total_stmt : Prop :=
  forall u w hs types vals, total_inj u -> WInv u w -> fits w ->
    assert_type_info u types = 0 -> (forall v, In v vals -> map fst v = types) ->
    Forall valid_entity hs ->
    (forall h, In h hs -> e_id h + 1 + lenN (meta (w_ents w)) + Z.to_N (Z.max 0 (- cursor (w_ents w))) < SENT) ->
    match w_spawn_column_batch_at w hs types vals with
    | (_, None, _) => lenN hs = lenN vals /\ NoDup (map e_id hs)
    | (_, Some p, _) => p = P_ASSERT /\ (lenN hs <> lenN vals \/ ~ NoDup (map e_id hs))
    end.
