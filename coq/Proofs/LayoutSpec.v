(* Statements for C04 (type-erased column storage is memory-safe for every component layout):
   capacity arithmetic, dangling bases, slot addressing (Model/Layout.v); the arena part is in
   Proofs/ContSpec.v (c04_align, c04_arena); "every index used is a row that exists" is the world
   invariant (Proofs/WorldSpec.v wi_loc / wi_row).  Statements only. *)
From Coq Require Import List NArith ZArith Bool Lia.
From HecsV Require Import Base.ListN Model.Types Model.Layout.
Import ListNotations.
Open Scope N_scope.

(* component layouts: power-of-two alignment, size a multiple of the alignment (Rust's Layout) *)
Definition layout_wf (u : universe) (t : tid) : Prop :=
  (exists k, ti_align (info_of u t) = 2 ^ k) /\ ti_size (info_of u t) mod ti_align (info_of u t) = 0.

(* capacity never falls below what is stored: after allocate / k allocates / reserve / batch creation *)
Definition c04_capacity_stmt : Prop :=
  (forall cap len, len <= cap -> len + 1 <= cap_push cap len /\ cap <= cap_push cap len) /\
  (forall cap len k, len <= cap -> len + k <= cap_push_many cap len k /\ cap <= cap_push_many cap len k) /\
  (forall cap len n, len <= cap -> len + n <= cap_reserve cap len n /\ cap <= cap_reserve cap len n) /\
  (forall n, n <= cap_batch n) /\
  (* the growth rule: a growth at least doubles the capacity and adds at least 64 *)
  (forall cap len, len = cap -> cap_push cap len = cap + N.max cap 64).

(* the dangling base used before the first allocation (the archetype's maximal alignment) and the one
   used for zero-sized columns (the type's own alignment) are multiples of the column's alignment -
   for the former BECAUSE the type list is sorted by descending alignment *)
Definition c04_dangling_stmt : Prop :=
  forall u types t cap, assert_type_info u types = 0 -> In t types -> (forall x, In x types -> layout_wf u x) ->
    dangling_base u types t cap mod ti_align (info_of u t) = 0 /\ 0 < dangling_base u types t cap.

(* every slot of a column of capacity [cap] whose base is aligned: aligned, inside the column's
   [size * cap] bytes, and disjoint from every other slot of that column *)
Definition c04_slots_stmt : Prop :=
  forall u t base cap, layout_wf u t -> base mod ti_align (info_of u t) = 0 ->
    (forall i, (base + slot_off u t i) mod ti_align (info_of u t) = 0) /\
    (forall i, i < cap -> slot_off u t i + ti_size (info_of u t) <= ti_size (info_of u t) * cap) /\
    (forall i j, i <> j -> slot_off u t i + ti_size (info_of u t) <= slot_off u t j \/
                           slot_off u t j + ti_size (info_of u t) <= slot_off u t i).

(* swap-remove and move_to copy row `last` onto row `index` only when they differ, so source and
   destination of copy_nonoverlapping never overlap *)
Definition c04_swap_remove_disjoint_stmt : Prop :=
  forall u t index last, index <> last ->
    slot_off u t index + ti_size (info_of u t) <= slot_off u t last \/
    slot_off u t last + ti_size (info_of u t) <= slot_off u t index.
