(* reserve::<T>(n) and spawn_batch keep the world invariant. *)
From Coq Require Import List NArith ZArith Bool Lia ZifyBool ZifyNat ZifyN Permutation.
From HecsV Require Import Base.ListN Base.ListNFacts Model.EntityBits Model.Types Model.Entities Model.World
  Proofs.WorldSpec Proofs.ListNMore Proofs.WorldLemmas Proofs.WorldProofs1 Proofs.WorldProofs2 Proofs.ContMono.
Import ListNotations.
Open Scope N_scope.

(* ------------------------------------------------------------------------------------------ *)
(** * reserve *)

Lemma idm_meta_le e : lenN (meta e) <= idm e.
Proof. unfold idm. lia. Qed.

Lemma w_reserve_unfold u w key ts w0 aid :
  w_reserve u w key ts = Done (w0, aid) ->
  exists w1, w_flush w = Done w1 /\
    bundle_archetype u w1 {| b_key := Some key; b_items := map (fun t => (t, 0)) ts |} = Done (w0, aid).
Proof.
  unfold w_reserve. destruct (w_flush w) as [w1|c]; [|discriminate]. cbn [bind].
  intros H. exists w1. split; [reflexivity|exact H].
Qed.

Lemma reserve_bundle_types (key : bkey) (ts : list tid) :
  b_types {| b_key := Some key; b_items := map (fun t => (t, 0)) ts |} = ts.
Proof.
  unfold b_types. cbn [b_items]. rewrite map_map. cbn [fst]. apply map_id.
Qed.

Lemma w_reserve_keepsP u w key ts w0 aid :
  WInv u w -> fits w -> tl key = ts -> w_reserve u w key ts = Done (w0, aid) ->
  WInvP [] None u w0 /\ fits w0 /\ flushed w0 /\ idm (w_ents w0) = idm (w_ents w) /\
  exists a, nthN (w_archs w0) aid = Some a /\ a_types a = tsort u ts.
Proof.
  intros I F Hk H. apply w_reserve_unfold in H as (w1 & Hfl & Hb).
  destruct (w_flush_spec _ _ _ I F Hfl) as (P1 & Hf1 & F1 & _).
  pose proof (idm_w_flush _ _ Hfl) as Hidm.
  pose proof (reserve_bundle_types key ts) as Hty.
  match type of Hb with bundle_archetype _ _ ?b = _ => set (bb := b) in Hb, Hty end.
  assert (Hbk : b_key bb = Some key) by reflexivity. clearbody bb.
  destruct (bundle_archetype_spec [] None u w1 bb w0 aid P1) as (P0 & He & _ & _ & (a & Ha & Hta) & _).
  - intros k Ek. rewrite Hbk in Ek. injection Ek as <-. rewrite Hty. exact Hk.
  - exact Hb.
  - rewrite Hty in Hta.
    split; [exact P0|]. split; [|split; [|split]].
    + unfold fits. rewrite He. exact F1.
    + unfold flushed. rewrite He. exact Hf1.
    + rewrite He. exact Hidm.
    + exists a. split; [exact Ha|exact Hta].
Qed.

Lemma w_reserve_keeps u w key ts w0 aid :
  total_inj u -> WInv u w -> fits w -> tl key = ts -> w_reserve u w key ts = Done (w0, aid) ->
  WInv u w0 /\ fits w0 /\ flushed w0 /\ idm (w_ents w0) = idm (w_ents w) /\
  exists a, nthN (w_archs w0) aid = Some a /\ a_types a = tsort u ts.
Proof.
  intros _ I F Hk H.
  destruct (w_reserve_keepsP _ _ _ _ _ _ I F Hk H) as (P & R).
  split; [apply WInvP_WInv; exact P|exact R].
Qed.

(* ------------------------------------------------------------------------------------------ *)
(** * the spawn_batch loop *)

Lemma spawn_batch_loop_step w aid it r acc w' hs :
  spawn_batch_loop w aid (it :: r) acc = Done (w', hs) ->
  exists e h w1 i, alloc (w_ents w) = Done (e, h) /\
    put_row (with_ents w e) aid (e_id h) it = Done (w1, i) /\
    spawn_batch_loop (with_ents w1 (set_loc (w_ents w1) (e_id h) {| l_arch := aid; l_idx := i |})) aid r (acc ++ [h])
      = Done (w', hs).
Proof.
  cbn [spawn_batch_loop].
  destruct (alloc (w_ents w)) as [[e h]|c] eqn:Ha; [|discriminate]. cbn [bind].
  destruct (put_row (with_ents w e) aid (e_id h) it) as [[w1 i]|c] eqn:Hp; [|discriminate]. cbn [bind].
  intros H. exists e, h, w1, i. split; [reflexivity|]. split; [exact Hp|exact H].
Qed.

Lemma spawn_batch_loop_idm aid : forall items w acc w' hs,
  spawn_batch_loop w aid items acc = Done (w', hs) -> idm (w_ents w) <= idm (w_ents w').
Proof.
  induction items as [|it r IH]; intros w acc w' hs H.
  - cbn [spawn_batch_loop] in H. injection H as <- _. lia.
  - apply spawn_batch_loop_step in H as (e & h & w1 & i & Ha & Hp & Hl).
    apply IH in Hl. apply idm_alloc in Ha. apply ents_put_row in Hp.
    cbn [with_ents w_ents] in *. rewrite idm_set_loc, Hp in Hl. lia.
Qed.

Lemma spawn_batch_loop_inv u aid : forall items w acc w' hs,
  WInvP [] None u w -> flushed w -> spawn_batch_loop w aid items acc = Done (w', hs) -> fits w' ->
  Forall valid_entity acc ->
  WInvP [] None u w' /\ Forall valid_entity hs.
Proof.
  induction items as [|it r IH]; intros w acc w' hs P Hf H F Hacc.
  - cbn [spawn_batch_loop] in H. injection H as <- <-. split; assumption.
  - apply spawn_batch_loop_step in H as (e & h & w1 & i & Ha & Hp & Hl).
    pose proof (spawn_batch_loop_idm _ _ _ _ _ _ Hl) as Hmono.
    pose proof (idm_alloc _ _ _ Ha) as Hma.
    pose proof (ents_put_row _ _ _ _ _ _ Hp) as He1.
    pose proof (proj1 (fits_idm w') F) as F2.
    cbn [with_ents w_ents] in Hmono, He1. rewrite idm_set_loc, He1 in Hmono.
    pose proof (idm_meta_le (w_ents w)) as Hle0. pose proof (idm_meta_le e) as Hle1.
    assert (Hlt : lenN (meta (w_ents w)) < SENT) by lia.
    destruct (alloc_inv _ _ _ _ P Hf Hlt Ha) as (P1 & Hnf & _ & Hv & _).
    assert (Hb : lenN (meta (w_ents (with_ents w e))) <= SENT) by (cbn [with_ents w_ents]; lia).
    destruct (put_row_set_loc_spec _ _ _ _ _ _ _ _ _ P1 Hp ltac:(discriminate) Hb)
      as (a' & vals & _ & _ & _ & P2 & _).
    refine (IH _ _ _ _ P2 _ Hl _ _).
    + unfold flushed, needs_flush in *. cbn [with_ents w_ents].
      rewrite set_loc_pending, set_loc_cursor, He1. exact Hnf.
    + exact F.
    + apply Forall_app. split; [exact Hacc|]. constructor; [exact Hv|constructor].
Qed.

(* ------------------------------------------------------------------------------------------ *)
(** * spawn_batch *)

Lemma w_spawn_batch_unfold u w key ts rows w' hs :
  w_spawn_batch u w key ts rows = Done (w', hs) ->
  exists w0 aid, w_reserve u w key ts = Done (w0, aid) /\ spawn_batch_loop w0 aid rows [] = Done (w', hs).
Proof.
  unfold w_spawn_batch. destruct (w_reserve u w key ts) as [[w0 aid]|c]; [|discriminate]. cbn [bind].
  intros H. exists w0, aid. split; [reflexivity|exact H].
Qed.

Lemma spawn_batch_keeps u w key ts rows w' hs :
  total_inj u -> WInv u w -> fits w -> tl key = ts ->
  w_spawn_batch u w key ts rows = Done (w', hs) -> fits w' ->
  WInv u w' /\ Forall valid_entity hs.
Proof.
  intros _ I F Hk H F'.
  apply w_spawn_batch_unfold in H as (w0 & aid & Hr & Hl).
  destruct (w_reserve_keepsP _ _ _ _ _ _ I F Hk Hr) as (P0 & _ & Hf0 & _).
  destruct (spawn_batch_loop_inv u aid rows w0 [] w' hs P0 Hf0 Hl F' (Forall_nil _)) as (P' & Hhs).
  split; [apply WInvP_WInv; exact P'|exact Hhs].
Qed.

Print Assumptions spawn_batch_keeps.
Print Assumptions w_reserve_keeps.
