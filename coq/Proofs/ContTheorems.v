(* Composition: command-buffer conservation from the world's conservation theorems *)
From Coq Require Import List NArith.
From HecsV Require Import Proofs.WorldSpec Proofs.WorldSpec2 Proofs.ContSpec Proofs.ConservationProofs Proofs.ContProofs2.

Theorem c11_conservation_proof : c11_conservation_stmt.
Proof.
  exact (c11_conservation_from_world_weakened c03_spawn_proof c03_insert_proof c03_remove_proof c03_despawn_proof).
Qed.
Print Assumptions c11_conservation_proof.
