(* Proofs of the C04 layout statements (Proofs/LayoutSpec.v). *)
From Coq Require Import List NArith ZArith Bool Lia ZifyBool ZifyN.
From HecsV Require Import Base.ListN Model.Types Model.Layout Proofs.LayoutSpec.
Import ListNotations.
Open Scope N_scope.

Lemma cap_push_ge cap len : len <= cap -> len + 1 <= cap_push cap len /\ cap <= cap_push cap len.
Proof. unfold cap_push, cap_grow. intros H. destruct (N.eqb len cap) eqn:E; lia. Qed.

Lemma cap_push_many_inv cap len k :
  len <= cap ->
  let st := N.recursion (len, cap) (fun _ st => (fst st + 1, cap_push (snd st) (fst st))) k in
  fst st = len + k /\ fst st <= snd st /\ cap <= snd st.
Proof.
  intros H. induction k as [|k IH] using N.peano_ind.
  - cbn. lia.
  - cbv zeta.
    rewrite (N.recursion_succ (@eq (N * N)) (len, cap) (fun _ st => (fst st + 1, cap_push (snd st) (fst st))) eq_refl)
      by (intros ? ? ? ? ? ?; subst; reflexivity).
    cbv zeta in IH. destruct IH as (I1 & I2 & I3).
    set (st := N.recursion _ _ k) in *. cbn [fst snd].
    destruct (cap_push_ge (snd st) (fst st) I2) as [P1 P2]. lia.
Qed.

Lemma c04_capacity_proof : c04_capacity_stmt.
Proof.
  split; [|split; [|split; [|split]]].
  - intros cap len H. apply cap_push_ge; assumption.
  - intros cap len k H. unfold cap_push_many. destruct (cap_push_many_inv cap len k H) as (I1 & I2 & I3). lia.
  - intros cap len n H. unfold cap_reserve, cap_grow. destruct (N.ltb (cap - len) n) eqn:E; lia.
  - intros n. unfold cap_batch, cap_reserve, cap_grow. destruct (N.ltb (0 - 0) n) eqn:E; lia.
  - intros cap len ->. unfold cap_push, cap_grow. rewrite N.eqb_refl. reflexivity.
Qed.

(* alignment descending along a strictly sorted list *)
Lemma sorted_head_align u t0 l t :
  assert_type_info u (t0 :: l) = 0 -> In t (t0 :: l) -> ti_align (info_of u t) <= ti_align (info_of u t0).
Proof.
  revert t0. induction l as [|b l IH]; intros t0 H Hin.
  - destruct Hin as [->|[]]. lia.
  - destruct Hin as [->|Hin]; [lia|].
    cbn [assert_type_info] in H. destruct (tcmp u t0 b) eqn:C; try discriminate.
    specialize (IH b H Hin).
    unfold tcmp in C. destruct (N.compare (ti_align (info_of u b)) (ti_align (info_of u t0))) eqn:C2.
    + apply N.compare_eq in C2. lia.
    + rewrite N.compare_lt_iff in C2. lia.
    + discriminate.
Qed.

Lemma pow2_le_divides a b : a <= b -> (2 ^ a | 2 ^ b).
Proof. intros H. exists (2 ^ (b - a)). rewrite <- N.pow_add_r. f_equal. lia. Qed.

Lemma c04_dangling_proof : c04_dangling_stmt.
Proof.
  intros u types t cap Hs Hin Hwf. unfold dangling_base.
  destruct (Hwf t Hin) as [[k Hk] _].
  assert (Hpos : 0 < ti_align (info_of u t)) by (rewrite Hk; apply N.neq_0_lt_0, N.pow_nonzero; lia).
  destruct (N.eqb cap 0).
  - destruct types as [|t0 l]; [destruct Hin|].
    destruct (Hwf t0 (or_introl eq_refl)) as [[k0 Hk0] _].
    pose proof (sorted_head_align u t0 l t Hs Hin) as Hle.
    split.
    + rewrite Hk, Hk0 in *. apply N.mod_divide; [apply N.pow_nonzero; lia|].
      apply pow2_le_divides. apply N.pow_le_mono_r_iff in Hle; lia.
    + rewrite Hk0. apply N.neq_0_lt_0, N.pow_nonzero; lia.
  - split; [apply N.mod_same; lia | exact Hpos].
Qed.

Lemma slots_disjoint s i j : i <> j -> s * i + s <= s * j \/ s * j + s <= s * i.
Proof. intros H. destruct (N.lt_ge_cases i j); [left|right]; nia. Qed.

Lemma c04_slots_proof : c04_slots_stmt.
Proof.
  intros u t base cap [[k Hk] Hsz] Hb. unfold slot_off.
  set (al := ti_align (info_of u t)) in *. set (sz := ti_size (info_of u t)) in *.
  assert (Hal : al <> 0) by (rewrite Hk; apply N.pow_nonzero; lia).
  repeat split.
  - intros i. apply N.mod_divide; [assumption|].
    apply N.mod_divide in Hb; [|assumption]. apply N.mod_divide in Hsz; [|assumption].
    apply N.divide_add_r; [assumption|]. apply N.divide_mul_l; assumption.
  - intros i Hi. nia.
  - intros i j Hij. apply slots_disjoint; assumption.
Qed.

Lemma c04_swap_remove_disjoint_proof : c04_swap_remove_disjoint_stmt.
Proof. intros u t index last H. unfold slot_off. apply slots_disjoint; assumption. Qed.
