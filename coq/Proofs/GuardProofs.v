(* Proofs of the statements in Proofs/GuardSpec.v (C05: dynamic borrow checking). *)
From Coq Require Import List NArith ZArith Bool Lia ZifyBool ZifyNat ZifyN.
From HecsV Require Import Base.ListN Base.ListNFacts Model.Types Model.World Model.Query Model.Guards.
From HecsV Require Import Proofs.QuerySpec Proofs.QueryProofs Proofs.GuardSpec.
Import ListNotations.
Open Scope N_scope.

(* ------------------------------------------------------------------------------------------ *)
(* algebra of cell_get / cell_set                                                              *)
(* ------------------------------------------------------------------------------------------ *)

Lemma key_eqb_true a t a' t' : N.eqb a a' && N.eqb t t' = true <-> (a, t) = (a', t').
Proof.
  destruct (N.eqb_spec a a') as [->|Ha], (N.eqb_spec t t') as [->|Ht]; cbn [andb];
    split; try discriminate; try reflexivity; intros H; exfalso; congruence.
Qed.

Lemma key_eqb_false a t a' t' : N.eqb a a' && N.eqb t t' = false <-> (a, t) <> (a', t').
Proof.
  rewrite <- key_eqb_true. destruct (N.eqb a a' && N.eqb t t'); split; congruence.
Qed.

Lemma cell_get_filter cs a0 t0 : forall a t, (a, t) <> (a0, t0) ->
  cell_get (filter (fun p => negb (N.eqb (fst (fst p)) a0 && N.eqb (snd (fst p)) t0)) cs) a t = cell_get cs a t.
Proof.
  induction cs as [|[[a' t'] c] cs IH]; intros a t Hne; [reflexivity|].
  cbn [filter fst snd cell_get].
  destruct (N.eqb a' a0 && N.eqb t' t0) eqn:E; cbn [negb cell_get].
  - apply key_eqb_true in E. injection E as -> ->.
    apply key_eqb_false in Hne. rewrite Hne. apply IH. apply key_eqb_false. exact Hne.
  - rewrite IH by exact Hne. reflexivity.
Qed.

Lemma cell_get_set cs a t c a' t' :
  cell_get (cell_set cs a t c) a' t' = if N.eqb a' a && N.eqb t' t then c else cell_get cs a' t'.
Proof.
  unfold cell_set. cbn [cell_get].
  destruct (N.eqb a' a && N.eqb t' t) eqn:E; [reflexivity|].
  apply cell_get_filter. apply key_eqb_false. exact E.
Qed.

Lemma cell_get_set_eq cs a t c : cell_get (cell_set cs a t c) a t = c.
Proof. rewrite cell_get_set, !N.eqb_refl. reflexivity. Qed.

Lemma cell_get_set_ne cs a t c a' t' : (a', t') <> (a, t) ->
  cell_get (cell_set cs a t c) a' t' = cell_get cs a' t'.
Proof. intros H. rewrite cell_get_set. apply key_eqb_false in H. rewrite H. reflexivity. Qed.

(* ------------------------------------------------------------------------------------------ *)
(* borrow1 / release1 through cell_get                                                         *)
(* ------------------------------------------------------------------------------------------ *)

Definition bok (u : bool) (c : cell) : bool :=
  if u then N.eqb (cl_r c) 0 && negb (cl_w c) else negb (cl_w c).
Definition bcell (u : bool) (c : cell) : cell :=
  if u then {| cl_r := 0; cl_w := true |} else {| cl_r := cl_r c + 1; cl_w := false |}.
Definition rcell (u : bool) (c : cell) : cell :=
  if u then {| cl_r := cl_r c; cl_w := false |} else {| cl_r := cl_r c - 1; cl_w := cl_w c |}.

Lemma borrow1_eq cs a t u :
  borrow1 cs a t u =
  if bok u (cell_get cs a t) then Some (cell_set cs a t (bcell u (cell_get cs a t))) else None.
Proof.
  unfold borrow1, bok, bcell. destruct u; [reflexivity|].
  destruct (cl_w (cell_get cs a t)); reflexivity.
Qed.

Lemma borrow1_get cs a t u cs' : borrow1 cs a t u = Some cs' ->
  bok u (cell_get cs a t) = true /\
  forall a' t', cell_get cs' a' t' =
                if N.eqb a' a && N.eqb t' t then bcell u (cell_get cs a t) else cell_get cs a' t'.
Proof.
  rewrite borrow1_eq. destruct (bok u (cell_get cs a t)); [|discriminate].
  intros [= <-]. split; [reflexivity|]. intros a' t'. apply cell_get_set.
Qed.

Lemma release1_get cs a t u a' t' :
  cell_get (release1 cs a t u) a' t' =
  if N.eqb a' a && N.eqb t' t then rcell u (cell_get cs a t) else cell_get cs a' t'.
Proof.
  unfold release1, rcell. destruct u; apply cell_get_set.
Qed.

Lemma bok_uniq_free c : bok true c = true <-> c = cell_free.
Proof.
  destruct c as [r w]. unfold bok, cell_free. cbn [cl_r cl_w].
  destruct (N.eqb_spec r 0) as [->|Hr], w; cbn [andb negb]; split; try discriminate; try reflexivity;
    intros [= ?]; congruence.
Qed.

(* ------------------------------------------------------------------------------------------ *)
(* c05_borrow_sound, c05_borrow_refuses                                                        *)
(* ------------------------------------------------------------------------------------------ *)

Theorem c05_borrow_sound_proof : c05_borrow_sound_stmt.
Proof.
  intros cs a t u cs' Hok Hb. apply borrow1_get in Hb. destruct Hb as [Hbok Hget].
  split; [|split].
  - intros a' t'. rewrite Hget. destruct (N.eqb a' a && N.eqb t' t); [|apply Hok].
    unfold cell_ok, bcell. destruct u; cbn [cl_r cl_w]; [reflexivity|discriminate].
  - rewrite Hget, !N.eqb_refl. cbn [andb]. destruct u.
    + split; [apply bok_uniq_free; exact Hbok|reflexivity].
    + unfold bok in Hbok. split; [|reflexivity].
      destruct (cl_w (cell_get cs a t)); [discriminate|reflexivity].
  - intros a' t' Hne. rewrite Hget. apply key_eqb_false in Hne. rewrite Hne. reflexivity.
Qed.

Theorem c05_borrow_refuses_proof : c05_borrow_refuses_stmt.
Proof.
  intros cs a t u. rewrite borrow1_eq. destruct u.
  - pose proof (bok_uniq_free (cell_get cs a t)) as Hf.
    destruct (bok true (cell_get cs a t)); split.
    + discriminate.
    + intros Hne. exfalso. apply Hne. apply Hf. reflexivity.
    + intros _ Heq. apply Hf in Heq. discriminate.
    + reflexivity.
  - unfold bok. destruct (cl_w (cell_get cs a t)); cbn [negb]; split; congruence.
Qed.

(* ------------------------------------------------------------------------------------------ *)
(* flat view: every acquisition / release is a fold of borrow1 / release1 over a key list      *)
(* ------------------------------------------------------------------------------------------ *)

Fixpoint borrow_all (cs : cells) (l : list (N * tid * bool)) : cells * bool :=
  match l with
  | [] => (cs, true)
  | (a, t, u) :: r => match borrow1 cs a t u with
                      | Some cs' => borrow_all cs' r
                      | None => (cs, false)
                      end
  end.

Fixpoint release_all (cs : cells) (l : list (N * tid * bool)) : cells :=
  match l with
  | [] => cs
  | (a, t, u) :: r => release_all (release1 cs a t u) r
  end.

Definition flat (a : N) (cols : list (tid * bool)) : list (N * tid * bool) :=
  map (fun c => (a, fst c, snd c)) cols.

Lemma borrow_list_flat a cols : forall cs, borrow_list cs a cols = borrow_all cs (flat a cols).
Proof.
  induction cols as [|[t u] r IH]; intros cs; [reflexivity|].
  cbn [borrow_list flat map borrow_all fst snd]. destruct (borrow1 cs a t u) as [cs1|]; [apply IH|reflexivity].
Qed.

Lemma release_list_flat a cols : forall cs, release_list cs a cols = release_all cs (flat a cols).
Proof.
  induction cols as [|[t u] r IH]; intros cs; [reflexivity|].
  cbn [release_list flat map release_all fst snd]. apply IH.
Qed.

Lemma borrow_all_app l1 l2 : forall cs,
  borrow_all cs (l1 ++ l2) =
  match borrow_all cs l1 with
  | (cs1, true) => borrow_all cs1 l2
  | (cs1, false) => (cs1, false)
  end.
Proof.
  induction l1 as [|[[a t] u] r IH]; intros cs; [reflexivity|].
  cbn [app borrow_all]. destruct (borrow1 cs a t u) as [cs1|]; [apply IH|reflexivity].
Qed.

Lemma release_all_app l1 l2 : forall cs, release_all cs (l1 ++ l2) = release_all (release_all cs l1) l2.
Proof.
  induction l1 as [|[[a t] u] r IH]; intros cs; [reflexivity|]. cbn [app release_all]. apply IH.
Qed.

Lemma start_borrow_flat q archs : forall cs i,
  start_borrow cs i archs q = borrow_all cs (touched i archs q).
Proof.
  induction archs as [|ar r IH]; intros cs i; [reflexivity|].
  cbn [start_borrow touched]. destruct (a_rows ar) as [|r0 rows]; [cbn [app]; apply IH|].
  destruct (prepare (a_types ar) q) as [s|]; [|cbn [app]; apply IH].
  rewrite borrow_all_app. fold (flat i (borrow_cols q s)). rewrite <- borrow_list_flat.
  destruct (borrow_list cs i (borrow_cols q s)) as [cs1 [|]]; [apply IH|reflexivity].
Qed.

Lemma release_borrow_flat q archs : forall cs i,
  release_borrow cs i archs q = release_all cs (touched i archs q).
Proof.
  induction archs as [|ar r IH]; intros cs i; [reflexivity|].
  cbn [release_borrow touched]. destruct (a_rows ar) as [|r0 rows]; [cbn [app]; apply IH|].
  destruct (prepare (a_types ar) q) as [s|]; [|cbn [app]; apply IH].
  rewrite release_all_app. fold (flat i (borrow_cols q s)). rewrite <- release_list_flat. apply IH.
Qed.

(* ------------------------------------------------------------------------------------------ *)
(* release after a granted acquisition                                                         *)
(* ------------------------------------------------------------------------------------------ *)

Lemma release1_cong cs1 cs2 a t u : cells_eq cs1 cs2 -> cells_eq (release1 cs1 a t u) (release1 cs2 a t u).
Proof.
  intros H a' t'. rewrite !release1_get, H. rewrite (H a' t'). reflexivity.
Qed.

Lemma release_all_cong l : forall cs1 cs2, cells_eq cs1 cs2 -> cells_eq (release_all cs1 l) (release_all cs2 l).
Proof.
  induction l as [|[[a t] u] r IH]; intros cs1 cs2 H; [exact H|].
  cbn [release_all]. apply IH. apply release1_cong. exact H.
Qed.

Lemma release1_comm cs a1 t1 u1 a2 t2 u2 :
  cells_eq (release1 (release1 cs a1 t1 u1) a2 t2 u2) (release1 (release1 cs a2 t2 u2) a1 t1 u1).
Proof.
  intros a t. rewrite !release1_get.
  destruct (N.eqb a1 a2 && N.eqb t1 t2) eqn:E12.
  - apply key_eqb_true in E12. injection E12 as -> ->. rewrite !N.eqb_refl. cbn [andb].
    destruct (N.eqb a a2 && N.eqb t t2); [|reflexivity].
    unfold rcell. destruct u1, u2; cbn [cl_r cl_w]; reflexivity.
  - assert (E21 : N.eqb a2 a1 && N.eqb t2 t1 = false).
    { apply key_eqb_false. apply key_eqb_false in E12. congruence. }
    rewrite E21.
    destruct (N.eqb a a2 && N.eqb t t2) eqn:E2, (N.eqb a a1 && N.eqb t t1) eqn:E1; try reflexivity.
    apply key_eqb_true in E1, E2. apply key_eqb_false in E12. congruence.
Qed.

Lemma release_all_comm1 l : forall cs a t u,
  cells_eq (release_all (release1 cs a t u) l) (release1 (release_all cs l) a t u).
Proof.
  induction l as [|[[a0 t0] u0] r IH]; intros cs a t u; [intros ? ?; reflexivity|].
  cbn [release_all]. intros a' t'.
  rewrite <- (IH (release1 cs a0 t0 u0) a t u a' t').
  apply release_all_cong. apply release1_comm.
Qed.

Lemma release_borrow1 cs a t u cs1 : borrow1 cs a t u = Some cs1 -> cells_eq (release1 cs1 a t u) cs.
Proof.
  intros Hb. apply borrow1_get in Hb. destruct Hb as [Hbok Hget]. intros a' t'.
  rewrite release1_get. destruct (N.eqb a' a && N.eqb t' t) eqn:E.
  - apply key_eqb_true in E. injection E as -> ->. rewrite Hget, !N.eqb_refl. cbn [andb].
    destruct (cell_get cs a t) as [r w]. unfold bok, bcell, rcell in *. cbn [cl_r cl_w] in *.
    destruct u; cbn [cl_r cl_w].
    + destruct (N.eqb_spec r 0) as [->|], w; try discriminate. reflexivity.
    + destruct w; [discriminate|]. f_equal. lia.
  - rewrite Hget, E. reflexivity.
Qed.

Lemma release_all_borrow_all l : forall cs cs',
  borrow_all cs l = (cs', true) -> cells_eq (release_all cs' l) cs.
Proof.
  induction l as [|[[a t] u] r IH]; intros cs cs' Hb.
  - cbn [borrow_all] in Hb. injection Hb as <-. intros ? ?; reflexivity.
  - cbn [borrow_all] in Hb. destruct (borrow1 cs a t u) as [cs1|] eqn:E1; [|discriminate].
    cbn [release_all]. intros a' t'.
    rewrite (release_all_comm1 r cs' a t u a' t').
    rewrite (release1_cong _ _ a t u (IH _ _ Hb) a' t').
    apply (release_borrow1 _ _ _ _ _ E1).
Qed.

Lemma borrow_all_ok l : forall cs cs' b, borrow_all cs l = (cs', b) -> cells_ok cs -> cells_ok cs'.
Proof.
  induction l as [|[[a t] u] r IH]; intros cs cs' b Hb Hok.
  - cbn [borrow_all] in Hb. injection Hb as <- _. exact Hok.
  - cbn [borrow_all] in Hb. destruct (borrow1 cs a t u) as [cs1|] eqn:E1.
    + eapply IH; [exact Hb|]. eapply c05_borrow_sound_proof; eauto.
    + injection Hb as <- _. exact Hok.
Qed.

Theorem c05_release_one_proof : c05_release_one_stmt.
Proof.
  intros cs a cols cs' Hb. rewrite borrow_list_flat in Hb. rewrite release_list_flat.
  apply release_all_borrow_all. exact Hb.
Qed.

Theorem c05_release_query_proof : c05_release_query_stmt.
Proof.
  intros cs archs q cs' Hb. rewrite start_borrow_flat in Hb. rewrite release_borrow_flat.
  split; [apply release_all_borrow_all; exact Hb|]. eapply borrow_all_ok; exact Hb.
Qed.

(* prepared queries: the flat list of the cached (index, state) pairs *)
Fixpoint ptouched (archs : list arch) (q : query) (st : list (N * qstate)) : list (N * tid * bool) :=
  match st with
  | [] => []
  | (i, s) :: r =>
      match nthN archs i with
      | Some a => match a_rows a with
                  | [] => ptouched archs q r
                  | _ => flat i (borrow_cols q s) ++ ptouched archs q r
                  end
      | None => []
      end
  end.

Lemma prepared_release_flat archs q st : forall cs,
  prepared_release cs archs q st = release_all cs (ptouched archs q st).
Proof.
  induction st as [|[i s] r IH]; intros cs; [reflexivity|].
  cbn [prepared_release ptouched]. destruct (nthN archs i) as [a|]; [|reflexivity].
  destruct (a_rows a) as [|r0 rows]; [apply IH|].
  rewrite release_all_app, <- release_list_flat. apply IH.
Qed.

Lemma prepared_borrow_flat archs q st : forall cs cs',
  prepared_borrow cs archs q st = (cs', true) -> borrow_all cs (ptouched archs q st) = (cs', true).
Proof.
  induction st as [|[i s] r IH]; intros cs cs' Hb; [exact Hb|].
  cbn [prepared_borrow ptouched] in *. destruct (nthN archs i) as [a|]; [|discriminate].
  destruct (a_rows a) as [|r0 rows]; [apply IH; exact Hb|].
  rewrite borrow_all_app, <- borrow_list_flat.
  destruct (borrow_list cs i (borrow_cols q s)) as [cs1 [|]]; [apply IH; exact Hb|discriminate].
Qed.

Theorem c05_release_prepared_proof : c05_release_prepared_stmt.
Proof.
  intros cs archs q st cs' Hb. rewrite prepared_release_flat.
  apply release_all_borrow_all. apply prepared_borrow_flat. exact Hb.
Qed.

(* ------------------------------------------------------------------------------------------ *)
(* the known finding: a failed acquisition keeps what it took                                  *)
(* ------------------------------------------------------------------------------------------ *)

Theorem c05_failed_acquisition_leaks_proof : c05_failed_acquisition_leaks_stmt.
Proof.
  exists [{| a_types := [1; 2]; a_rows := [{| r_id := 0; r_vals := [] |}] |}].
  exists (QTup [QRead 1; QWrite 2]).
  exists [((0, 2), {| cl_r := 1; cl_w := false |})].
  eexists. split; [vm_compute; reflexivity|].
  intros H. specialize (H 0 1). vm_compute in H. discriminate H.
Qed.

(* ------------------------------------------------------------------------------------------ *)
(* c05_touched_spec                                                                            *)
(* ------------------------------------------------------------------------------------------ *)

Definition bcols_go :=
  fix go (qs : list query) (ss : list qstate) : list (tid * bool) :=
    match qs, ss with
    | q :: qr, s :: sr => borrow_cols q s ++ go qr sr
    | _, _ => []
    end.

Lemma bcols_tup qs ss : borrow_cols (QTup qs) (STup ss) = bcols_go qs ss.
Proof. reflexivity. Qed.
Lemma bcols_with q r s : borrow_cols (QWith q r) s = borrow_cols q s.
Proof. destruct s; reflexivity. Qed.
Lemma bcols_without q r s : borrow_cols (QWithout q r) s = borrow_cols q s.
Proof. destruct s; reflexivity. Qed.

Lemma borrow_cols_mem q : forall ts s t u,
  prepare ts q = Some s -> In (t, u) (borrow_cols q s) -> In t ts.
Proof.
  induction q as [t0|t0|q IH|l r IHl IHr|q r IHq IHr|q r IHq IHr|q IH|qs IH] using query_ind';
    intros ts s t u Hp Hin.
  - cbn [prepare] in Hp. destruct (mem_tid t0 ts) eqn:E; [|discriminate]. injection Hp as <-.
    cbn [borrow_cols In] in Hin. destruct Hin as [Hin|[]]. injection Hin as <- _.
    apply memN_In. exact E.
  - cbn [prepare] in Hp. destruct (mem_tid t0 ts) eqn:E; [|discriminate]. injection Hp as <-.
    cbn [borrow_cols In] in Hin. destruct Hin as [Hin|[]]. injection Hin as <- _.
    apply memN_In. exact E.
  - cbn [prepare] in Hp. injection Hp as <-.
    destruct (prepare ts q) as [s0|] eqn:E; cbn [borrow_cols] in Hin; [|destruct Hin].
    eapply IH; eauto.
  - cbn [prepare] in Hp.
    destruct (prepare ts l) as [sl|] eqn:El, (prepare ts r) as [sr|] eqn:Er; try discriminate;
      injection Hp as <-; cbn [borrow_cols] in Hin.
    + apply in_app_or in Hin. destruct Hin as [Hin|Hin]; [eapply IHl|eapply IHr]; eauto.
    + eapply IHl; eauto.
    + eapply IHr; eauto.
  - cbn [prepare] in Hp. destruct (access ts r); [|discriminate].
    rewrite bcols_with in Hin. eapply IHq; eauto.
  - cbn [prepare] in Hp. destruct (access ts r); [discriminate|].
    rewrite bcols_without in Hin. eapply IHq; eauto.
  - cbn [prepare] in Hp. injection Hp as <-. cbn [borrow_cols] in Hin. destruct Hin.
  - rewrite prepare_tup in Hp. destruct (prepare_go ts qs) as [ss|] eqn:E; cbn [option_map] in Hp; [|discriminate].
    injection Hp as <-. rewrite bcols_tup in Hin.
    revert ss E Hin. induction IH as [|q0 qr Hq0 Hqr IHqs]; intros ss E Hin.
    + cbn [bcols_go] in Hin. destruct Hin.
    + cbn [prepare_go] in E. destruct (prepare ts q0) as [s0|] eqn:E0; [|discriminate].
      destruct (prepare_go ts qr) as [sr|] eqn:Er; [|discriminate]. injection E as <-.
      cbn [bcols_go] in Hin. apply in_app_or in Hin. destruct Hin as [Hin|Hin].
      * eapply Hq0; eauto.
      * eapply IHqs; eauto.
Qed.

Lemma nthN_succ {A} (x : A) l i : nthN (x :: l) (N.succ i) = nthN l i.
Proof.
  cbn [nthN]. destruct (N.eqb_spec (N.succ i) 0); [lia|]. rewrite N.pred_succ. reflexivity.
Qed.

Lemma touched_In q archs : forall i a t u, In (a, t, u) (touched i archs q) ->
  i <= a /\
  exists ar s, nthN archs (a - i) = Some ar /\ a_rows ar <> [] /\ sat (a_types ar) q = true /\
               prepare (a_types ar) q = Some s /\ In (t, u) (borrow_cols q s) /\ In t (a_types ar).
Proof.
  induction archs as [|ar r IH]; intros i a t u Hin; [destruct Hin|].
  cbn [touched] in Hin. apply in_app_or in Hin. destruct Hin as [Hin|Hin].
  - destruct (a_rows ar) as [|r0 rows] eqn:Er; [destruct Hin|].
    destruct (prepare (a_types ar) q) as [s|] eqn:Ep; [|destruct Hin].
    apply in_map_iff in Hin. destruct Hin as [[t1 u1] [Heq Hin]]. cbn [fst snd] in Heq.
    injection Heq as <- <- <-. split; [lia|]. exists ar, s.
    rewrite N.sub_diag. split; [reflexivity|]. split; [rewrite Er; discriminate|].
    split; [eapply prepare_Some_sat; exact Ep|]. split; [exact Ep|]. split; [exact Hin|].
    eapply borrow_cols_mem; eauto.
  - apply IH in Hin. destruct Hin as [Hle [ar' [s H]]]. split; [lia|]. exists ar', s.
    replace (a - i) with (N.succ (a - N.succ i)) by lia. rewrite nthN_succ. exact H.
Qed.

Theorem c05_touched_spec_proof : c05_touched_spec_stmt.
Proof.
  intros archs q a t u Hin. apply touched_In in Hin. destruct Hin as [_ H].
  rewrite N.sub_0_r in H. exact H.
Qed.

(* ------------------------------------------------------------------------------------------ *)
(* c05_exact                                                                                   *)
(* ------------------------------------------------------------------------------------------ *)

Lemma nsa_tail x l : no_self_alias (x :: l) -> no_self_alias l.
Proof.
  intros H i j a t u1 u2 Hij Hi Hj.
  apply (H (N.succ i) (N.succ j) a t u1 u2); [lia| |]; rewrite nthN_succ; assumption.
Qed.

Lemma nsa_head a t u l u' : no_self_alias ((a, t, u) :: l) -> In (a, t, u') l -> u = false /\ u' = false.
Proof.
  intros H Hin. apply In_nthN in Hin. destruct Hin as [j Hj].
  apply (H 0 (N.succ j) a t u u'); [lia|reflexivity|rewrite nthN_succ; exact Hj].
Qed.

Definition compat1 (cs : cells) (a : N) (t : tid) (u : bool) : Prop :=
  if u then cell_get cs a t = cell_free else cl_w (cell_get cs a t) = false.

Lemma compat1_bok cs a t u : compat1 cs a t u <-> bok u (cell_get cs a t) = true.
Proof.
  unfold compat1. destruct u; [symmetry; apply bok_uniq_free|].
  unfold bok. destruct (cl_w (cell_get cs a t)); cbn [negb]; split; congruence.
Qed.

Lemma borrow_all_exact l : forall cs, no_self_alias l ->
  (snd (borrow_all cs l) = true <-> compatible cs l).
Proof.
  induction l as [|[[a t] u] r IH]; intros cs Hnsa.
  - cbn [borrow_all snd]. split; [intros _ a t u []|reflexivity].
  - pose proof (nsa_tail _ _ Hnsa) as Hnsa'. cbn [borrow_all]. split.
    + destruct (borrow1 cs a t u) as [cs1|] eqn:E1; [|cbn [snd]; discriminate].
      intros Hs. apply (IH cs1 Hnsa') in Hs. apply borrow1_get in E1. destruct E1 as [Hbok Hget].
      intros a' t' u' [Heq|Hin].
      * injection Heq as <- <- <-. apply (compat1_bok cs a t u). exact Hbok.
      * specialize (Hs a' t' u' Hin). rewrite Hget in Hs.
        destruct (N.eqb a' a && N.eqb t' t) eqn:E; [|exact Hs].
        apply key_eqb_true in E. injection E as -> ->.
        destruct (nsa_head _ _ _ _ _ Hnsa Hin) as [-> ->].
        apply (compat1_bok cs a t false). exact Hbok.
    + intros Hc. assert (Hbok : bok u (cell_get cs a t) = true).
      { apply compat1_bok. apply (Hc a t u). left. reflexivity. }
      rewrite borrow1_eq, Hbok. apply IH; [exact Hnsa'|].
      intros a' t' u' Hin. rewrite cell_get_set.
      destruct (N.eqb a' a && N.eqb t' t) eqn:E; [|apply (Hc a' t' u'); right; exact Hin].
      apply key_eqb_true in E. injection E as -> ->.
      destruct (nsa_head _ _ _ _ _ Hnsa Hin) as [-> ->]. reflexivity.
Qed.

Theorem c05_exact_proof : c05_exact_stmt.
Proof.
  intros cs archs q Hnsa. rewrite start_borrow_flat. apply borrow_all_exact. exact Hnsa.
Qed.

(* ------------------------------------------------------------------------------------------ *)
(* c05_conflict_iff                                                                            *)
(* ------------------------------------------------------------------------------------------ *)

Definition incompat1 (cs : cells) (a : N) (t : tid) (u : bool) : Prop :=
  if u then cell_get cs a t <> cell_free else cl_w (cell_get cs a t) = true.

Lemma compat_dec cs l :
  compatible cs l \/ exists a t u, In (a, t, u) l /\ incompat1 cs a t u.
Proof.
  induction l as [|[[a t] u] r IH]; [left; intros a t u []|].
  destruct (bok u (cell_get cs a t)) eqn:Hb.
  - destruct IH as [IH|[a' [t' [u' [Hin Hi]]]]].
    + left. intros a' t' u' [Heq|Hin]; [|apply IH; exact Hin].
      injection Heq as <- <- <-. apply (compat1_bok cs a t u). exact Hb.
    + right. exists a', t', u'. split; [right; exact Hin|exact Hi].
  - right. exists a, t, u. split; [left; reflexivity|].
    unfold incompat1. destruct u.
    + intros Hf. apply bok_uniq_free in Hf. congruence.
    + unfold bok in Hb. destruct (cl_w (cell_get cs a t)); [reflexivity|discriminate].
Qed.

(* effect of one granted borrow on an arbitrary key *)
Lemma borrow1_nonfree_mono cs a0 t0 u0 cs1 a t : borrow1 cs a0 t0 u0 = Some cs1 ->
  cell_get cs a t <> cell_free -> cell_get cs1 a t <> cell_free.
Proof.
  intros Hb Hnf. apply borrow1_get in Hb. destruct Hb as [_ Hget]. rewrite Hget.
  destruct (N.eqb a a0 && N.eqb t t0); [|exact Hnf].
  unfold bcell, cell_free. destruct u0; [discriminate|].
  intros Heq. injection Heq as Heq. lia.
Qed.

Lemma borrow1_writer_mono cs a0 t0 u0 cs1 a t : borrow1 cs a0 t0 u0 = Some cs1 ->
  cl_w (cell_get cs a t) = true -> cl_w (cell_get cs1 a t) = true.
Proof.
  intros Hb Hw. apply borrow1_get in Hb. destruct Hb as [Hbok Hget]. rewrite Hget.
  destruct (N.eqb a a0 && N.eqb t t0) eqn:E; [|exact Hw].
  apply key_eqb_true in E. injection E as -> ->.
  unfold bok in Hbok. rewrite Hw in Hbok. destruct u0; cbn [negb] in Hbok; [|discriminate].
  rewrite andb_false_r in Hbok. discriminate.
Qed.

Lemma borrow_all_nonfree_mono l a t : forall cs cs', borrow_all cs l = (cs', true) ->
  cell_get cs a t <> cell_free -> cell_get cs' a t <> cell_free.
Proof.
  induction l as [|[[a0 t0] u0] r IH]; intros cs cs' Hb Hnf; cbn [borrow_all] in Hb.
  - injection Hb as <-. exact Hnf.
  - destruct (borrow1 cs a0 t0 u0) as [cs1|] eqn:E1; [|discriminate].
    eapply IH; [exact Hb|]. eapply borrow1_nonfree_mono; eauto.
Qed.

Lemma borrow_all_writer_mono l a t : forall cs cs', borrow_all cs l = (cs', true) ->
  cl_w (cell_get cs a t) = true -> cl_w (cell_get cs' a t) = true.
Proof.
  induction l as [|[[a0 t0] u0] r IH]; intros cs cs' Hb Hw; cbn [borrow_all] in Hb.
  - injection Hb as <-. exact Hw.
  - destruct (borrow1 cs a0 t0 u0) as [cs1|] eqn:E1; [|discriminate].
    eapply IH; [exact Hb|]. eapply borrow1_writer_mono; eauto.
Qed.

(* what a granted acquisition leaves in the cells *)
Lemma borrow_all_held l a t u : forall cs cs', borrow_all cs l = (cs', true) -> In (a, t, u) l ->
  cell_get cs' a t <> cell_free /\ (u = true -> cl_w (cell_get cs' a t) = true).
Proof.
  induction l as [|[[a0 t0] u0] r IH]; intros cs cs' Hb Hin; [destruct Hin|].
  cbn [borrow_all] in Hb. destruct (borrow1 cs a0 t0 u0) as [cs1|] eqn:E1; [|discriminate].
  destruct Hin as [Heq|Hin]; [|eapply IH; eauto].
  injection Heq as -> -> ->. pose proof (borrow1_get _ _ _ _ _ E1) as [_ Hget].
  specialize (Hget a t). rewrite !N.eqb_refl in Hget. cbn [andb] in Hget. split.
  - eapply borrow_all_nonfree_mono; [exact Hb|]. rewrite Hget.
    unfold bcell, cell_free. destruct u; [discriminate|]. intros Heq. injection Heq as Heq. lia.
  - intros ->. eapply borrow_all_writer_mono; [exact Hb|]. rewrite Hget. reflexivity.
Qed.

Lemma borrow_all_frame l a t : forall cs cs' b, borrow_all cs l = (cs', b) ->
  (forall u, ~ In (a, t, u) l) -> cell_get cs' a t = cell_get cs a t.
Proof.
  induction l as [|[[a0 t0] u0] r IH]; intros cs cs' b Hb Hnin; cbn [borrow_all] in Hb.
  - injection Hb as <- _. reflexivity.
  - destruct (borrow1 cs a0 t0 u0) as [cs1|] eqn:E1.
    + rewrite (IH _ _ _ Hb) by (intros u Hu; apply (Hnin u); right; exact Hu).
      apply borrow1_get in E1. destruct E1 as [_ Hget]. rewrite Hget.
      destruct (N.eqb a a0 && N.eqb t t0) eqn:E; [|reflexivity].
      apply key_eqb_true in E. injection E as -> ->. exfalso. apply (Hnin u0). left. reflexivity.
    + injection Hb as <- _. reflexivity.
Qed.

Lemma borrow_all_changed l a t : forall cs cs' b, borrow_all cs l = (cs', b) ->
  cell_get cs' a t <> cell_get cs a t -> exists u, In (a, t, u) l.
Proof.
  induction l as [|[[a0 t0] u0] r IH]; intros cs cs' b Hb Hne; cbn [borrow_all] in Hb.
  - injection Hb as <- _. congruence.
  - destruct (borrow1 cs a0 t0 u0) as [cs1|] eqn:E1.
    + destruct (N.eqb a a0 && N.eqb t t0) eqn:E.
      * apply key_eqb_true in E. injection E as -> ->. exists u0. left. reflexivity.
      * apply borrow1_get in E1. destruct E1 as [_ Hget].
        destruct (IH _ _ _ Hb) as [u Hu]; [rewrite Hget, E; exact Hne|]. exists u. right. exact Hu.
    + injection Hb as <- _. congruence.
Qed.

Lemma borrow_all_writer_origin l a t : forall cs cs' b, borrow_all cs l = (cs', b) ->
  cl_w (cell_get cs' a t) = true -> cl_w (cell_get cs a t) = true \/ In (a, t, true) l.
Proof.
  induction l as [|[[a0 t0] u0] r IH]; intros cs cs' b Hb Hw; cbn [borrow_all] in Hb.
  - injection Hb as <- _. left. exact Hw.
  - destruct (borrow1 cs a0 t0 u0) as [cs1|] eqn:E1.
    + destruct (IH _ _ _ Hb Hw) as [Hw1|Hin]; [|right; right; exact Hin].
      apply borrow1_get in E1. destruct E1 as [_ Hget]. rewrite Hget in Hw1.
      destruct (N.eqb a a0 && N.eqb t t0) eqn:E; [|left; exact Hw1].
      apply key_eqb_true in E. injection E as -> ->.
      destruct u0; [right; left; reflexivity|discriminate].
    + injection Hb as <- _. left. exact Hw.
Qed.

Lemma borrow_all_conflict l1 l2 cs1 : no_self_alias l2 -> borrow_all [] l1 = (cs1, true) ->
  (snd (borrow_all cs1 l2) = false <->
   exists a t u1 u2, In (a, t, u1) l1 /\ In (a, t, u2) l2 /\ (u1 || u2 = true)).
Proof.
  intros Hnsa Hb1. pose proof (borrow_all_exact l2 cs1 Hnsa) as Hex. split.
  - intros Hs. destruct (compat_dec cs1 l2) as [Hc|[a [t [u2 [Hin2 Hi]]]]].
    + apply Hex in Hc. congruence.
    + unfold incompat1 in Hi. destruct u2.
      * destruct (borrow_all_changed _ a t _ _ _ Hb1) as [u1 Hin1]; [exact Hi|].
        exists a, t, u1, true. split; [exact Hin1|]. split; [exact Hin2|]. apply orb_true_r.
      * destruct (borrow_all_writer_origin _ a t _ _ _ Hb1 Hi) as [Hw|Hin1]; [discriminate|].
        exists a, t, true, false. split; [exact Hin1|]. split; [exact Hin2|]. reflexivity.
  - intros [a [t [u1 [u2 [Hin1 [Hin2 Hu]]]]]].
    destruct (snd (borrow_all cs1 l2)) eqn:Hs; [|reflexivity]. exfalso.
    clear Hs. pose proof (proj1 Hex eq_refl a t u2 Hin2) as Hs.
    destruct (borrow_all_held _ a t u1 _ _ Hb1 Hin1) as [Hnf Hw].
    destruct u2.
    + apply Hnf. exact Hs.
    + rewrite orb_false_r in Hu. rewrite (Hw Hu) in Hs. discriminate.
Qed.

Theorem c05_conflict_iff_proof : c05_conflict_iff_stmt.
Proof.
  intros archs q1 q2 cs1 _ Hnsa2 Hb1. rewrite start_borrow_flat in Hb1. rewrite start_borrow_flat.
  apply borrow_all_conflict; assumption.
Qed.

Print Assumptions c05_borrow_sound_proof.
Print Assumptions c05_borrow_refuses_proof.
Print Assumptions c05_exact_proof.
Print Assumptions c05_conflict_iff_proof.
Print Assumptions c05_touched_spec_proof.
Print Assumptions c05_release_query_proof.
Print Assumptions c05_release_prepared_proof.
Print Assumptions c05_release_one_proof.
Print Assumptions c05_failed_acquisition_leaks_proof.
