(* Statements about the id allocator (Model/Entities.v) for C02, C07 and the allocator part of C16.
   This file contains definitions and statements only; the proofs are in EntitiesProofs.v. *)
From Coq Require Import List NArith ZArith Bool Lia.
From HecsV Require Import Base.ListN Model.EntityBits Model.Entities.
Import ListNotations.
Open Scope N_scope.

(* One step of an allocator history, at the granularity the World uses the allocator:
   "Location should be written immediately" - a spawn writes the location right after alloc. *)
Inductive eop :=
| OSpawn (l : loc)                   (* alloc(); meta[id].location = l *)
| OSpawnAt (h : entity) (l : loc)    (* alloc_at(h); meta[id].location = l *)
| ODespawn (h : entity)              (* free(h) *)
| OReserve                           (* reserve_entity(&self) *)
| OReserveN (n : N)                  (* reserve_entities(&self, n) *)
| OFlush (f : N -> N)                (* flush(init): init writes location.index = f id *)
| OBatch (n arch first : N)          (* alloc_many(n, arch, first) ... finish_alloc_many *)
| OClear.

Fixpoint set_idxs (e : entities) (ids : list N) (f : N -> N) : entities :=
  match ids with [] => e | id :: r => set_idxs (set_idx e id (f id)) r f end.

(* result: new state and the handles the call returned to its caller *)
Definition estep (e : entities) (o : eop) : outcome (entities * list entity) :=
  match o with
  | OSpawn l =>
      match alloc e with
      | Done (e', h) => Done (set_loc e' (e_id h) l, [h])
      | Panic c => Panic c
      end
  | OSpawnAt h l =>
      match alloc_at e h with
      | Done (e', _) => Done (set_loc e' (e_id h) l, [])
      | Panic c => Panic c
      end
  | ODespawn h =>
      match free e h with
      | Done (Some (e', _)) => Done (e', [])
      | Done None => Done (e, [])
      | Panic c => Panic c
      end
  | OReserve =>
      match reserve_entity e with
      | Done (e', h) => Done (e', [h])
      | Panic c => Panic c
      end
  | OReserveN n =>
      match reserve_entities e n with
      | Done (e', hs) => Done (e', hs)
      | Panic c => Panic c
      end
  | OFlush f =>
      match flush e with
      | Done (e', ids) => Done (set_idxs e' ids f, [])
      | Panic c => Panic c
      end
  | OBatch n arch first =>
      match alloc_many e n arch first with
      | Done (e', ids) => Done (e', map (resolve_unknown_gen e') ids)
      | Panic c => Panic c
      end
  | OClear => Done (ents_clear e, [])
  end.

(* arguments the World actually passes: real row indices are never the placeholder, handles are
   valid bit patterns, and id-targeted spawns stay within the u32 id space *)
Definition op_ok (o : eop) : Prop :=
  match o with
  | OSpawn l => l_idx l <> SENT
  | OSpawnAt h l => l_idx l <> SENT /\ valid_entity h /\ e_id h + 1 < W32
  | OFlush f => forall id, f id <> SENT
  | OBatch n _ first => first + n < SENT
  | _ => True
  end.

(* a history: panicking steps abort the run (hecs panics there); [trace] lists, per executed step,
   the state before, the operation, the state after and the handles returned *)
Fixpoint erun (e : entities) (ops : list eop) : entities * list (entities * eop * entities * list entity) :=
  match ops with
  | [] => (e, [])
  | o :: r =>
      match estep e o with
      | Done (e', hs) => let '(ef, tr) := erun e' r in (ef, (e, o, e', hs) :: tr)
      | Panic _ => (e, [])
      end
  end.

(* observers *)
Definition is_live (e : entities) (h : entity) : Prop := get_mut e h <> None.   (* has a row *)
Definition exists_in (e : entities) (h : entity) : Prop := contains e h = true.
Definition located_count (e : entities) : N :=
  lenN (filter (fun m => negb (N.eqb (l_idx (m_loc m)) SENT)) (meta e)).

(* "generation wrap after 2^32 reuses of one id is out of scope": no despawn of a generation 2^32-1 *)
Definition no_wrap (tr : list (entities * eop * entities * list entity)) : Prop :=
  forall e o e' hs h, In (e, o, e', hs) tr -> o = ODespawn h -> e_gen h + 1 < W32.

(* the suffix of a trace after the last clear *)
Definition is_clear_step (x : entities * eop * entities * list entity) : bool :=
  match snd (fst (fst x)) with OClear => true | _ => false end.

Fixpoint since_clear (tr : list (entities * eop * entities * list entity)) : list (entities * eop * entities * list entity) :=
  match tr with
  | [] => []
  | x :: r => if existsb is_clear_step r then since_clear r
              else if is_clear_step x then r else tr
  end.

Definition spawn_at_ids (tr : list (entities * eop * entities * list entity)) : list N :=
  concat (map (fun x => match snd (fst (fst x)) with OSpawnAt h _ => [e_id h] | _ => [] end) tr).

Definition returned (tr : list (entities * eop * entities * list entity)) : list entity :=
  concat (map (fun x => snd x) tr).

(* ------------------------------------------------------------------ C02 ------------------- *)
(* (a) no two simultaneously live entities share an id;
   (b) len equals the number of entities that have a row;
   (c) every handle returned by a spawn-like call (spawn, reserve, batch) differs from every handle
       returned before, since the last clear, ids that were the target of spawn_at excepted;
   (d) a despawned handle is rejected by contains, get, get_mut and free in every later state, until
       the world is cleared or its id is the target of an id-targeted spawn. *)
Definition c02_unique_ids : Prop :=
  forall ops, Forall op_ok ops ->
  let '(e, _) := erun ents_empty ops in
  forall h1 h2, is_live e h1 -> is_live e h2 -> e_id h1 = e_id h2 -> h1 = h2.

Definition c02_len : Prop :=
  forall ops, Forall op_ok ops ->
  let '(e, _) := erun ents_empty ops in
  elen e = located_count e.

Definition c02_fresh : Prop :=
  forall ops, Forall op_ok ops ->
  let '(_, tr) := erun ents_empty ops in
  no_wrap tr ->
  let tr' := since_clear tr in
  forall pre e o e' hs post h,
    tr' = pre ++ (e, o, e', hs) :: post ->
    In h hs -> ~ In (e_id h) (spawn_at_ids pre) ->
    ~ In h (returned pre) /\ NoDup hs.

Definition c02_dead_forever : Prop :=
  forall ops, Forall op_ok ops ->
  let '(_, tr) := erun ents_empty ops in
  no_wrap tr ->
  forall pre e h e' post,
    tr = pre ++ (e, ODespawn h, e', []) :: post ->
    is_live e h ->
    (forall x, In x post -> match snd (fst (fst x)) with
                            | OClear => False
                            | OSpawnAt h' _ => e_id h' <> e_id h
                            | _ => True
                            end) ->
    forall x, In x ((e, ODespawn h, e', []) :: post) ->
      let e2 := snd (fst x) in
      contains e2 h = false /\ get e2 h = None /\ get_mut e2 h = None /\
      (needs_flush e2 = false -> free e2 h = Done None).

(* ------------------------------------------------------------------ C07 ------------------- *)
(* Reservations through &self: every call contains exactly one atomic operation on the cursor and
   reads only data that is immutable under &self, so any interleaving of calls from any number of
   threads is a sequence of calls.  From any reachable flushed state, any sequence of
   reserve_entity / reserve_entities(n) calls returns pairwise distinct handles, distinct from every
   live entity, each reporting contains == true from the moment it is returned until the flush;
   after the flush each is a live entity, previously live entities keep their location, and len has
   grown by exactly the number reserved. *)
Definition is_reserve (o : eop) : bool := match o with OReserve | OReserveN _ => true | _ => false end.

Definition c07_reserve : Prop :=
  forall ops rs f, Forall op_ok ops -> forallb is_reserve rs = true -> (forall id, f id <> SENT) ->
  let '(e0, _) := erun ents_empty ops in
  needs_flush e0 = false ->
  let '(e1, tr) := erun e0 rs in
  length tr = length rs ->                       (* no "too many entities" panic *)
  let hs := returned tr in
  NoDup hs /\
  (forall h, In h hs -> ~ is_live e0 h /\ (forall h0, is_live e0 h0 -> e_id h0 <> e_id h)) /\
  (forall h, In h hs -> exists_in e1 h) /\
  (forall pre x post h, tr = pre ++ x :: post -> In h (snd x) ->
                        forall y, In y (x :: post) -> exists_in (snd (fst y)) h) /\
  match estep e1 (OFlush f) with
  | Done (e2, _) =>
      needs_flush e2 = false /\
      (forall h, In h hs -> is_live e2 h) /\
      (forall h0, is_live e0 h0 -> get_mut e2 h0 = get_mut e0 h0) /\
      elen e2 = elen e0 + lenN hs
  | Panic _ => False
  end.

(* ------------------------------------------------------------------ C16 (allocator part) -- *)
(* A reserved, not yet flushed handle - whether its id came from the free list or is brand new -
   is treated uniformly: contains is true and get yields the placeholder location of the empty
   archetype (so entity/get/satisfies/query_one succeed), while it has no row yet (get_mut fails,
   and no meta entry with a real location names it). *)
Definition c16_reserved_uniform : Prop :=
  forall ops rs, Forall op_ok ops -> forallb is_reserve rs = true ->
  let '(e0, _) := erun ents_empty ops in
  needs_flush e0 = false ->
  let '(e1, tr) := erun e0 rs in
  forall h, In h (returned tr) ->
    contains e1 h = true /\ get e1 h = Some EMPTY_LOC /\ get_mut e1 h = None.

(* every allocator entry point used by structural World operations refuses to run unflushed
   (debug builds: verify_flushed), which is why the World flushes first *)
Definition c16_must_flush : Prop :=
  forall e h l n a b, needs_flush e = true ->
    alloc e = Panic P_FLUSH /\ alloc_at e h = Panic P_FLUSH /\ free e h = Panic P_FLUSH /\
    alloc_many e n a b = Panic P_FLUSH /\ estep e (OSpawn l) = Panic P_FLUSH.
