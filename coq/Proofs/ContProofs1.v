(* Proofs of the container statements C13 (entity builders), C12 (column batches) and C04 (arena
   layout) of Proofs/ContSpec.v. *)
From Coq Require Import List NArith ZArith Bool Lia ZifyBool ZifyNat ZifyN Permutation.
From HecsV Require Import Base.ListN Base.ListNFacts Base.ListNMore Proofs.ListNMore.
From HecsV Require Import Model.EntityBits Model.Types Model.Entities Model.World Model.Containers.
From HecsV Require Import Proofs.MergeSpec Proofs.WorldSpec Proofs.WorldSpec2 Proofs.MergeProofs Proofs.ContSpec.
Import ListNotations.
Open Scope N_scope.

(* =========================================================================== C13: builders *)

Definition bpair (e : binfo) : tid * val := (bi_t e, bi_v e).

Lemma b_abs_eq c : b_abs c = map bpair (c_info c).
Proof. reflexivity. Qed.

Lemma map_fst_bpair l : map fst (map bpair l) = map bi_t l.
Proof. rewrite map_map. reflexivity. Qed.

Lemma map_snd_bpair l : map snd (map bpair l) = map bi_v l.
Proof. rewrite map_map. reflexivity. Qed.

(* ---- lookup_first on info lists ---- *)
Lemma lf_notin t (l : list (tid * val)) : ~ In t (map fst l) -> lookup_first t l = None.
Proof.
  induction l as [|[t' v] l IH]; cbn [lookup_first map fst In]; [reflexivity|].
  intros H. destruct (N.eqb_spec t t') as [->|Hne]; [exfalso; apply H; left; reflexivity|].
  apply IH. intros Hin. apply H. right. exact Hin.
Qed.

Lemma lf_in t (l : list (tid * val)) : In t (map fst l) -> lookup_first t l <> None.
Proof.
  induction l as [|[t' v] l IH]; cbn [lookup_first map fst In]; [intros []|].
  intros H. destruct (N.eqb_spec t t') as [->|Hne]; [discriminate|].
  apply IH. destruct H as [H|H]; [congruence|exact H].
Qed.

Lemma lf_nth (l : list (tid * val)) i t v :
  NoDup (map fst l) -> nthN l i = Some (t, v) -> lookup_first t l = Some v.
Proof.
  revert i; induction l as [|[t' v'] l IH]; intros i Hnd; cbn [nthN lookup_first]; [discriminate|].
  cbn [map fst] in Hnd. inversion Hnd as [|x y Hni Hnd']; subst.
  destruct (N.eqb_spec i 0) as [->|Hi].
  - intros [= -> ->]. rewrite N.eqb_refl. reflexivity.
  - intros H. destruct (N.eqb_spec t t') as [->|Hne].
    + exfalso. apply Hni. apply nthN_In in H. apply (in_map fst) in H. exact H.
    + eapply IH; [exact Hnd'|exact H].
Qed.

Lemma lf_app_notin t (l1 l2 : list (tid * val)) :
  lookup_first t l1 = None -> lookup_first t (l1 ++ l2) = lookup_first t l2.
Proof.
  induction l1 as [|[t' v'] l1 IH]; cbn [app lookup_first]; [reflexivity|].
  destruct (N.eqb t t'); [discriminate|exact IH].
Qed.

Lemma lf_app_ne t (l : list (tid * val)) t' v :
  t <> t' -> lookup_first t (l ++ [(t', v)]) = lookup_first t l.
Proof.
  intros Hne. induction l as [|[t0 v0] l IH]; cbn [app lookup_first].
  - destruct (N.eqb_spec t t'); [congruence|reflexivity].
  - destruct (N.eqb t t0); [reflexivity|exact IH].
Qed.

Lemma lf_updN_ne (l : list (tid * val)) i t0 v0 v1 t :
  nthN l i = Some (t0, v0) -> t <> t0 -> lookup_first t (updN l i (t0, v1)) = lookup_first t l.
Proof.
  revert i; induction l as [|[t' v'] l IH]; intros i; cbn [nthN updN lookup_first]; [discriminate|].
  destruct (N.eqb_spec i 0) as [->|Hi].
  - intros [= -> ->] Hne. cbn [lookup_first]. destruct (N.eqb_spec t t0); [congruence|reflexivity].
  - intros H Hne. cbn [lookup_first]. destruct (N.eqb t t'); [reflexivity|]. eapply IH; eassumption.
Qed.

(* ---- the invariant in terms of the type list ---- *)
Definition BInv' (c : common) : Prop :=
  NoDup (map bi_t (c_info c)) /\
  (forall t i, assoc_idx t (c_indices c) = Some i <-> nthN (map bi_t (c_info c)) i = Some t).

Lemma nth_types_iff (l : list binfo) i t :
  nthN (map bi_t l) i = Some t <-> exists e, nthN l i = Some e /\ bi_t e = t.
Proof.
  rewrite nthN_map. destruct (nthN l i) as [e|]; cbn [option_map]; split.
  - intros [= <-]. exists e. split; reflexivity.
  - intros (e' & [= <-] & <-). reflexivity.
  - discriminate.
  - intros (e' & H & _). discriminate H.
Qed.

Lemma BInv_iff c : BInv c <-> BInv' c.
Proof.
  unfold BInv, BInv'. split; intros [Hnd H]; (split; [exact Hnd|]); intros t i.
  - rewrite H. symmetry. apply nth_types_iff.
  - rewrite H. apply nth_types_iff.
Qed.

Lemma binv_assoc_none c t : BInv' c -> assoc_idx t (c_indices c) = None -> ~ In t (map bi_t (c_info c)).
Proof.
  intros [_ H] Hn Hin. apply In_nthN in Hin as (i & Hi). apply H in Hi. congruence.
Qed.

Lemma binv_assoc_some c t i :
  BInv' c -> assoc_idx t (c_indices c) = Some i ->
  exists e, nthN (c_info c) i = Some e /\ bi_t e = t /\ lookup_first t (b_abs c) = Some (bi_v e).
Proof.
  intros [Hnd H] Ha. apply H in Ha. apply nth_types_iff in Ha as (e & He & Ht).
  exists e. split; [exact He|]. split; [exact Ht|]. rewrite b_abs_eq. subst t.
  apply (lf_nth _ i).
  - rewrite map_fst_bpair. exact Hnd.
  - rewrite nthN_map, He. reflexivity.
Qed.

(* ---------------------------------------------------------------- c13_observers *)
Theorem c13_observers_proof : c13_observers_stmt.
Proof.
  intros c Hc. apply BInv_iff in Hc. split; [|split].
  - intros t. unfold common_has. destruct (assoc_idx t (c_indices c)) as [i|] eqn:E.
    + destruct (binv_assoc_some c t i Hc E) as (e & _ & _ & Hl). rewrite Hl.
      split; [discriminate|reflexivity].
    + pose proof (binv_assoc_none c t Hc E) as Hn. rewrite lf_notin.
      * split; [discriminate|intros H; exfalso; apply H; reflexivity].
      * rewrite b_abs_eq, map_fst_bpair. exact Hn.
  - intros t. unfold common_get. destruct (assoc_idx t (c_indices c)) as [i|] eqn:E.
    + destruct (binv_assoc_some c t i Hc E) as (e & He & _ & Hl). rewrite He, Hl. reflexivity.
    + pose proof (binv_assoc_none c t Hc E) as Hn. rewrite lf_notin; [reflexivity|].
      rewrite b_abs_eq, map_fst_bpair. exact Hn.
  - unfold common_types. rewrite b_abs_eq, map_fst_bpair. reflexivity.
Qed.

(* ---------------------------------------------------------------- c13_add *)
Theorem c13_add_proof : c13_add_stmt.
Proof.
  intros u c t v c' d Hc Hs. apply BInv_iff in Hc. cbn [bstep] in Hs. unfold common_add in Hs.
  destruct (assoc_idx t (c_indices c)) as [i|] eqn:E.
  - destruct (binv_assoc_some c t i Hc E) as (e & He & Ht & Hl). rewrite He in Hs.
    injection Hs as <- <-. rewrite Hl. rewrite !b_abs_eq in *. cbn [c_info].
    destruct Hc as [Hnd _].
    assert (Hm : map bpair (updN (c_info c) i {| bi_t := bi_t e; bi_off := bi_off e; bi_v := v |})
                 = updN (map bpair (c_info c)) i (t, v)).
    { rewrite map_updN. unfold bpair at 2. cbn [bi_t bi_v]. rewrite Ht. reflexivity. }
    rewrite Hm, Ht.
    assert (Hn : nthN (map bpair (c_info c)) i = Some (t, bi_v e)).
    { rewrite nthN_map, He. cbn [option_map]. unfold bpair. rewrite Ht. reflexivity. }
    split; [|split].
    + apply (lf_nth _ i).
      * rewrite map_updN. cbn [fst].
        rewrite updN_same; [rewrite map_fst_bpair; exact Hnd|].
        rewrite nthN_map, Hn. reflexivity.
      * apply nthN_updN_eq. apply nthN_Some_lt in Hn. exact Hn.
    + intros t' Hne. eapply lf_updN_ne; eassumption.
    + reflexivity.
  - destruct (arena_add u (c_arena c) t) as [[off a'] ev] eqn:Ea. injection Hs as <- <-.
    pose proof (binv_assoc_none c t Hc E) as Hn.
    assert (Hl : lookup_first t (b_abs c) = None).
    { apply lf_notin. rewrite b_abs_eq, map_fst_bpair. exact Hn. }
    rewrite Hl. rewrite !b_abs_eq in *. cbn [c_info]. rewrite map_app. cbn [map]. unfold bpair at 2.
    cbn [bi_t bi_v]. split; [|split].
    + rewrite lf_app_notin by exact Hl. cbn [lookup_first]. rewrite N.eqb_refl. reflexivity.
    + intros t' Hne. apply lf_app_ne. exact Hne.
    + reflexivity.
Qed.

(* ---------------------------------------------------------------- sorting, re-indexing *)
Lemma insert_binfo_perm u x l : Permutation (insert_binfo u x l) (x :: l).
Proof.
  induction l as [|y l IH]; cbn [insert_binfo]; [apply Permutation_refl|].
  destruct (tle u (bi_t x) (bi_t y)); [apply Permutation_refl|].
  eapply perm_trans; [apply perm_skip; exact IH|apply perm_swap].
Qed.

Lemma sort_binfo_perm u l : Permutation (sort_binfo u l) l.
Proof.
  induction l as [|x l IH]; cbn [sort_binfo fold_right]; [apply perm_nil|].
  eapply perm_trans; [apply insert_binfo_perm|apply perm_skip; exact IH].
Qed.

Lemma positionN_notin x l : ~ In x l -> positionN x l = None.
Proof.
  induction l as [|y l IH]; cbn [positionN In]; [reflexivity|]. intros H.
  destruct (N.eqb_spec x y) as [->|Hne]; [exfalso; apply H; left; reflexivity|].
  rewrite IH; [reflexivity|]. intros Hin. apply H. right. exact Hin.
Qed.

Lemma positionN_nth x l i : NoDup l -> nthN l i = Some x -> positionN x l = Some i.
Proof.
  intros Hnd Hn. destruct (positionN x l) as [j|] eqn:E.
  - apply positionN_Some in E. f_equal. eapply NoDup_nthN; eassumption.
  - apply positionN_None in E. exfalso. apply E. eapply nthN_In. exact Hn.
Qed.

Lemma assoc_idx_filter_ne t t0 m :
  t <> t0 -> assoc_idx t (filter (fun p => negb (N.eqb (fst p) t0)) m) = assoc_idx t m.
Proof.
  intros Hne. induction m as [|[t' i] m IH]; cbn [filter assoc_idx fst]; [reflexivity|].
  destruct (N.eqb_spec t' t0) as [->|Hn]; cbn [negb assoc_idx].
  - destruct (N.eqb_spec t t0); [congruence|exact IH].
  - rewrite IH. reflexivity.
Qed.

Lemma reindex_spec l : forall i m t, NoDup (map bi_t l) ->
  assoc_idx t (reindex l i m) =
  match positionN t (map bi_t l) with Some k => Some (i + k) | None => assoc_idx t m end.
Proof.
  induction l as [|e r IH]; intros i m t Hnd; cbn [reindex map positionN]; [reflexivity|].
  cbn [map] in Hnd. inversion Hnd as [|x y Hni Hnd']; subst.
  rewrite IH by exact Hnd'. destruct (N.eqb_spec t (bi_t e)) as [->|Hne].
  - rewrite positionN_notin by exact Hni. cbn [assoc_idx]. rewrite N.eqb_refl. f_equal. lia.
  - destruct (positionN t (map bi_t r)) as [k|]; [f_equal; lia|].
    cbn [assoc_idx]. destruct (N.eqb_spec t (bi_t e)); [congruence|].
    apply assoc_idx_filter_ne. exact Hne.
Qed.

Lemma clone_infos_spec l : forall next l' n',
  clone_infos l next = (l', n') ->
  map bi_t l' = map bi_t l /\ map bi_v l' = seqN (N.succ next) (lenN l) /\ n' = next + lenN l.
Proof.
  induction l as [|e r IH]; intros next l' n'; cbn [clone_infos lenN].
  - intros [= <- <-]. rewrite seqN_0. cbn [map]. repeat split. lia.
  - destruct (clone_infos r (N.succ next)) as [l1 n1] eqn:E. intros [= <- <-].
    destruct (IH _ _ _ E) as (H1 & H2 & H3). cbn [map bi_t bi_v]. rewrite seqN_succ, H1, H2.
    repeat split. lia.
Qed.

(* ---------------------------------------------------------------- preservation of the invariant *)
Lemma binv_empty a ids : BInv' {| c_arena := a; c_info := []; c_ids := ids; c_indices := [] |}.
Proof.
  split; cbn [c_info c_indices map].
  - constructor.
  - intros t i. cbn [assoc_idx nthN]. split; discriminate.
Qed.

Lemma binv_add u c t v : BInv' c -> BInv' (fst (fst (common_add u c t v))).
Proof.
  intros Hc. unfold common_add. destruct (assoc_idx t (c_indices c)) as [i|] eqn:E.
  - destruct (binv_assoc_some c t i Hc E) as (e & He & Ht & _). rewrite He. cbn [fst].
    destruct Hc as [Hnd H]. unfold BInv'. cbn [c_info c_indices].
    assert (Hm : map bi_t (updN (c_info c) i {| bi_t := bi_t e; bi_off := bi_off e; bi_v := v |})
                 = map bi_t (c_info c)).
    { rewrite map_updN. cbn [bi_t]. apply updN_same. rewrite nthN_map, He. reflexivity. }
    rewrite Hm. split; assumption.
  - destruct (arena_add u (c_arena c) t) as [[off a'] ev]. cbn [fst].
    pose proof (binv_assoc_none c t Hc E) as Hn. destruct Hc as [Hnd H].
    unfold BInv'. cbn [c_info c_indices]. rewrite map_app. cbn [map bi_t].
    assert (Hlen : lenN (map bi_t (c_info c)) = lenN (c_info c)) by apply lenN_map.
    split.
    + apply NoDup_app_iff. split; [exact Hnd|]. split; [constructor; [intros []|constructor]|].
      intros x Hx [<-|[]]. apply Hn, Hx.
    + intros t' i. cbn [assoc_idx]. destruct (N.eqb_spec t' t) as [->|Hne].
      * split.
        -- intros [= <-]. rewrite <- Hlen. apply nthN_snoc_last.
        -- intros Hi. destruct (N.ltb_spec i (lenN (map bi_t (c_info c)))) as [Hlt|Hge].
           ++ rewrite nthN_app1 in Hi by exact Hlt. exfalso. apply Hn. eapply nthN_In. exact Hi.
           ++ rewrite nthN_app2 in Hi by exact Hge. apply nthN_Some_lt in Hi. cbn [lenN] in Hi.
              f_equal. lia.
      * rewrite H. split.
        -- intros Hi. rewrite nthN_app1; [exact Hi|]. eapply nthN_Some_lt. exact Hi.
        -- intros Hi. destruct (N.ltb_spec i (lenN (map bi_t (c_info c)))) as [Hlt|Hge].
           ++ rewrite nthN_app1 in Hi by exact Hlt. exact Hi.
           ++ rewrite nthN_app2 in Hi by exact Hge. apply nthN_In in Hi. destruct Hi as [Hi|[]].
              congruence.
Qed.

Lemma binv_clone_build u c : BInv' c -> BInv' (clone_build u c).
Proof.
  intros [Hnd H]. unfold clone_build, BInv'. cbn [c_info c_indices].
  assert (Hp : Permutation (map bi_t (sort_binfo u (c_info c))) (map bi_t (c_info c))).
  { apply Permutation_map, sort_binfo_perm. }
  assert (Hnd' : NoDup (map bi_t (sort_binfo u (c_info c)))).
  { eapply Permutation_NoDup; [apply Permutation_sym; exact Hp|exact Hnd]. }
  split; [exact Hnd'|]. intros t i. rewrite reindex_spec by exact Hnd'.
  destruct (positionN t (map bi_t (sort_binfo u (c_info c)))) as [k|] eqn:E.
  - pose proof (positionN_Some _ _ _ E) as Hk. rewrite N.add_0_l. split.
    + intros [= <-]. exact Hk.
    + intros Hi. f_equal. eapply NoDup_nthN; eassumption.
  - apply positionN_None in E. split.
    + intros Ha. apply H in Ha. exfalso. apply E. eapply Permutation_in; [apply Permutation_sym; exact Hp|].
      eapply nthN_In. exact Ha.
    + intros Hi. exfalso. apply E. eapply nthN_In. exact Hi.
Qed.

Lemma binv_unbuild c : BInv' c -> BInv' (clone_unbuild c).
Proof. intros Hc. exact Hc. Qed.

Lemma binv_clone c next : BInv' c -> BInv' (fst (fst (common_clone c next))).
Proof.
  intros [Hnd H]. unfold common_clone. destruct (clone_infos (c_info c) next) as [l' n'] eqn:E.
  cbn [fst]. destruct (clone_infos_spec _ _ _ _ E) as (H1 & _ & _).
  unfold BInv'. cbn [c_info c_indices]. rewrite H1. split; assumption.
Qed.

Lemma binv_step u c o : BInv' c -> BInv' (fst (bstep u c o)).
Proof.
  intros Hc. destruct o as [t v| | | | |next]; cbn [bstep].
  - pose proof (binv_add u c t v Hc) as H. destruct (common_add u c t v) as [[c' d] ev]. exact H.
  - unfold common_clear. cbn [fst]. apply binv_empty.
  - cbn [fst]. unfold builder_after_put. apply binv_empty.
  - cbn [fst]. apply binv_clone_build, Hc.
  - cbn [fst]. apply binv_unbuild, Hc.
  - pose proof (binv_clone c next Hc) as H. destruct (common_clone c next) as [[c' n'] ev]. exact H.
Qed.

Theorem c13_inv_proof : c13_inv_stmt.
Proof.
  intros u ops. apply BInv_iff. unfold brun.
  assert (G : forall c, BInv' c -> BInv' (fold_left (fun c o => fst (bstep u c o)) ops c)).
  { induction ops as [|o ops IH]; intros c Hc; cbn [fold_left]; [exact Hc|].
    apply IH, binv_step, Hc. }
  apply G. unfold common_new. apply binv_empty.
Qed.

(* ---------------------------------------------------------------- c13_clear_build *)
Theorem c13_clear_build_proof : c13_clear_build_stmt.
Proof.
  intros u c Hc. apply BInv_iff in Hc. destruct Hc as [Hnd _].
  assert (Hp : Permutation (map bpair (sort_binfo u (c_info c))) (map bpair (c_info c))).
  { apply Permutation_map, sort_binfo_perm. }
  split; [|split; [|split]].
  - cbn [bstep]. unfold common_clear. split; reflexivity.
  - cbn zeta. split; [|split; [|split]].
    + exact Hp.
    + unfold b_types, built_bundle, builder_build. cbn [b_items c_info].
      fold bpair. rewrite map_fst_bpair.
      eapply Permutation_NoDup; [|exact Hnd]. apply Permutation_sym, Permutation_map, sort_binfo_perm.
    + reflexivity.
    + reflexivity.
  - exact Hp.
  - reflexivity.
Qed.

(* ---------------------------------------------------------------- c13_clone *)
Theorem c13_clone_proof : c13_clone_stmt.
Proof.
  intros c next c' next' ev Hc Hcl. pose proof Hc as Hc0. apply BInv_iff in Hc.
  pose proof (binv_clone c next Hc) as Hi. rewrite Hcl in Hi. cbn [fst] in Hi.
  unfold common_clone in Hcl. destruct (clone_infos (c_info c) next) as [l' n'] eqn:E.
  injection Hcl as <- <- <-. destruct (clone_infos_spec _ _ _ _ E) as (H1 & H2 & H3).
  split; [apply BInv_iff; exact Hi|]. rewrite !b_abs_eq. cbn [c_info].
  rewrite !map_fst_bpair, map_snd_bpair, N.add_1_r. repeat split; assumption.
Qed.

(* =========================================================================== C12: column batches *)
Definition vpair (t : tid) (vs : list val) : list (tid * val) := map (fun v => (t, v)) vs.
Definition cvals (cols : list (tid * list val)) : list (tid * val) :=
  concat (map (fun p => vpair (fst p) (snd p)) cols).
Definition all_pushed (ps : list (tid * list val)) : list (tid * val) :=
  concat (map (fun p => vpair (fst p) (snd p)) ps).

Lemma cbatch_values_eq b : cbatch_values b = cvals (cb_cols b).
Proof. reflexivity. Qed.

Lemma In_dedup_sorted t l : In t (dedup_sorted l) <-> In t l.
Proof.
  induction l as [|a l IH]; [reflexivity|]. destruct l as [|b r]; [reflexivity|].
  change (dedup_sorted (a :: b :: r)) with
    (if N.eqb a b then dedup_sorted (b :: r) else a :: dedup_sorted (b :: r)).
  destruct (N.eqb_spec a b) as [->|Hne].
  - rewrite IH. split; [intros H; right; exact H|]. intros [<-|H]; [left; reflexivity|exact H].
  - split.
    + intros [<-|H]; [left; reflexivity|right; apply IH; exact H].
    + intros [<-|H]; [left; reflexivity|right; apply IH; exact H].
Qed.

Lemma dedup_ssorted u l :
  rank_inj u l -> ssorted (le u) l -> ssorted (lt u) (dedup_sorted l).
Proof.
  induction l as [|a l IH]; intros Hr Hs; [exact I|]. destruct l as [|b r]; [split; [constructor|exact I]|].
  change (dedup_sorted (a :: b :: r)) with
    (if N.eqb a b then dedup_sorted (b :: r) else a :: dedup_sorted (b :: r)).
  destruct Hs as [Hf Hs].
  assert (IH' : ssorted (lt u) (dedup_sorted (b :: r))).
  { apply IH; [|exact Hs]. eapply rank_inj_incl; [exact Hr|]. apply incl_tl, incl_refl. }
  destruct (N.eqb_spec a b) as [->|Hne]; [exact IH'|].
  split; [|exact IH']. rewrite Forall_forall in *. intros x Hx. apply (proj1 (In_dedup_sorted _ _)) in Hx.
  apply (le_neq_lt u (a :: b :: r)); [exact Hr|left; reflexivity|right; exact Hx| |apply Hf, Hx].
  intros <-. apply Hne. destruct Hx as [Hx|Hx]; [symmetry; exact Hx|].
  destruct Hs as [Hfb _]. rewrite Forall_forall in Hfb. pose proof (Hfb _ Hx) as Hba.
  pose proof (Hf b (or_introl eq_refl)) as Hab. unfold le in *.
  rewrite (tcmp_antisym u a b) in Hba.
  apply Hr; [left; reflexivity|right; left; reflexivity|].
  destruct (tcmp u a b); [reflexivity|exfalso; apply Hba; reflexivity|exfalso; apply Hab; reflexivity].
Qed.

Lemma In_batch_types u declared t : In t (dedup_sorted (tsort u declared)) <-> In t declared.
Proof.
  rewrite In_dedup_sorted. split; intros H.
  - eapply Permutation_in; [apply tsort_perm|exact H].
  - eapply Permutation_in; [apply Permutation_sym, tsort_perm|exact H].
Qed.

(* ---- col_of / set_col ---- *)
Lemma col_of_none_iff t cols : col_of t cols = None <-> ~ In t (map fst cols).
Proof.
  induction cols as [|[t' l] r IH]; cbn [col_of map fst In]; [tauto|].
  destruct (N.eqb_spec t t') as [->|Hne].
  - split; [discriminate|]. intros H. exfalso. apply H. left. reflexivity.
  - rewrite IH. split; [intros H [E|Hin]; [congruence|exact (H Hin)]|].
    intros H Hin. apply H. right. exact Hin.
Qed.

Lemma col_of_set_col t l cols t' :
  col_of t cols <> None ->
  col_of t' (set_col t l cols) = if N.eqb t' t then Some l else col_of t' cols.
Proof.
  induction cols as [|[t0 x] r IH]; cbn [col_of set_col]; [intros H; exfalso; apply H; reflexivity|].
  destruct (N.eqb_spec t t0) as [->|Hne]; intros H; cbn [col_of].
  - destruct (N.eqb_spec t' t0); reflexivity.
  - destruct (N.eqb_spec t' t0) as [->|Hne'].
    + destruct (N.eqb_spec t0 t); [congruence|reflexivity].
    + apply IH, H.
Qed.

Lemma map_fst_set_col t l cols : map fst (set_col t l cols) = map fst cols.
Proof.
  induction cols as [|[t0 x] r IH]; cbn [set_col map fst]; [reflexivity|].
  destruct (N.eqb_spec t t0); cbn [map fst]; [reflexivity|]. rewrite IH. reflexivity.
Qed.

Lemma cvals_set_col t cur new cols :
  col_of t cols = Some cur ->
  Permutation (cvals (set_col t (cur ++ new) cols)) (cvals cols ++ vpair t new).
Proof.
  induction cols as [|[t0 x] r IH]; cbn [col_of set_col]; [discriminate|].
  destruct (N.eqb_spec t t0) as [->|Hne].
  - intros [= ->]. unfold cvals. cbn [map concat fst snd]. unfold vpair at 1. rewrite map_app.
    fold (vpair t0 cur). fold (vpair t0 new). rewrite <- !app_assoc. apply Permutation_app_head.
    apply Permutation_app_comm.
  - intros H. unfold cvals. cbn [map concat fst snd]. rewrite <- app_assoc. apply Permutation_app_head.
    apply IH, H.
Qed.

Lemma col_of_new ts t : In t ts -> col_of t (map (fun t => (t, @nil val)) ts) = Some [].
Proof.
  induction ts as [|a ts IH]; cbn [In map col_of]; [intros []|].
  destruct (N.eqb_spec t a) as [->|Hne]; [reflexivity|]. intros [H|H]; [congruence|apply IH, H].
Qed.

Lemma cvals_new ts : cvals (map (fun t => (t, @nil val)) ts) = [].
Proof. induction ts as [|a ts IH]; [reflexivity|]. unfold cvals in *. cbn [map concat fst snd vpair app]. exact IH. Qed.

Lemma takeN_nil {A} n : takeN n (@nil A) = [].
Proof. reflexivity. Qed.

Lemma takeN_app_gen {A} (a b : list A) : forall n,
  takeN n (a ++ b) = takeN n a ++ takeN (n - lenN (takeN n a)) b.
Proof.
  induction a as [|x a IH]; intros n; cbn [app takeN lenN].
  - rewrite N.sub_0_r. reflexivity.
  - destruct (N.eqb_spec n 0) as [->|Hn].
    + cbn [lenN app]. rewrite takeN_0. reflexivity.
    + cbn [app lenN]. rewrite IH. do 3 f_equal. lia.
Qed.

(* ---- the push schedule ---- *)
Definition cb_step (st : cbatch * list (tid * val)) (p : tid * list val) : cbatch * list (tid * val) :=
  match cbatch_push (fst st) (fst p) (snd p) with
  | Some (b', rej) => (b', snd st ++ map (fun v => (fst p, v)) rej)
  | None => (fst st, snd st ++ map (fun v => (fst p, v)) (snd p))
  end.

Lemma cb_run_eq b ps : cb_run b ps = fold_left cb_step ps (b, []).
Proof. reflexivity. Qed.

Lemma cb_run_snoc b ps p : cb_run b (ps ++ [p]) = cb_step (cb_run b ps) p.
Proof. rewrite !cb_run_eq, fold_left_app. reflexivity. Qed.

Lemma pushed_to_snoc t ps p :
  pushed_to t (ps ++ [p]) = pushed_to t ps ++ (if N.eqb (fst p) t then snd p else []).
Proof. unfold pushed_to. rewrite map_app, concat_app. cbn [map concat]. rewrite app_nil_r. reflexivity. Qed.

Lemma all_pushed_snoc ps p : all_pushed (ps ++ [p]) = all_pushed ps ++ vpair (fst p) (snd p).
Proof. unfold all_pushed. rewrite map_app, concat_app. cbn [map concat]. rewrite app_nil_r. reflexivity. Qed.

Definition CInv (ts : list tid) (n : N) (ps : list (tid * list val)) (st : cbatch * list (tid * val)) : Prop :=
  cb_types (fst st) = ts /\ cb_target (fst st) = n /\ map fst (cb_cols (fst st)) = ts /\
  (forall t, In t ts -> col_of t (cb_cols (fst st)) = Some (takeN n (pushed_to t ps))) /\
  Permutation (all_pushed ps) (cvals (cb_cols (fst st)) ++ snd st).

Lemma cinv_step ts n ps st p : CInv ts n ps st -> CInv ts n (ps ++ [p]) (cb_step st p).
Proof.
  destruct st as [b rej]. destruct p as [t vs]. intros (Hty & Htg & Hfst & Hcol & Hperm).
  cbn [fst snd] in *. unfold cb_step, cbatch_push. cbn [fst snd].
  destruct (col_of t (cb_cols b)) as [cur|] eqn:E.
  - cbn [fst snd]. unfold CInv. cbn [fst snd cb_types cb_target cb_cols].
    assert (Hin : In t ts).
    { rewrite <- Hfst. destruct (in_dec N.eq_dec t (map fst (cb_cols b))) as [Hi|Hn]; [exact Hi|].
      apply col_of_none_iff in Hn. congruence. }
    pose proof (Hcol t Hin) as Hcur. rewrite E in Hcur. injection Hcur as Hcur.
    split; [exact Hty|]. split; [exact Htg|]. split; [rewrite map_fst_set_col; exact Hfst|]. split.
    + intros t' Hin'. rewrite col_of_set_col by congruence. rewrite pushed_to_snoc. cbn [fst snd].
      destruct (N.eqb_spec t' t) as [->|Hne].
      * rewrite N.eqb_refl. rewrite takeN_app_gen. rewrite <- Hcur, Htg. reflexivity.
      * destruct (N.eqb_spec t t'); [congruence|]. rewrite app_nil_r. apply Hcol, Hin'.
    + rewrite all_pushed_snoc. cbn [fst snd].
      eapply perm_trans; [apply Permutation_app_tail; exact Hperm|].
      eapply perm_trans;
        [|apply Permutation_app_tail; apply Permutation_sym; apply cvals_set_col; exact E].
      rewrite <- !app_assoc. apply Permutation_app_head.
      rewrite <- (takeN_dropN_app (cb_target b - lenN cur) vs) at 1.
      unfold vpair. rewrite map_app. rewrite !app_assoc. apply Permutation_app_tail.
      apply Permutation_app_comm.
  - cbn [fst snd]. unfold CInv. cbn [fst snd].
    split; [exact Hty|]. split; [exact Htg|]. split; [exact Hfst|]. split.
    + intros t' Hin'. rewrite pushed_to_snoc. cbn [fst snd].
      destruct (N.eqb_spec t t') as [->|Hne].
      * rewrite (Hcol t' Hin') in E. discriminate.
      * rewrite app_nil_r. apply Hcol, Hin'.
    + rewrite all_pushed_snoc. cbn [fst snd]. rewrite app_assoc. apply Permutation_app_tail. exact Hperm.
Qed.

Lemma cinv_run u declared n ps :
  CInv (dedup_sorted (tsort u declared)) n ps (cb_run (cbatch_new u declared n) ps).
Proof.
  induction ps as [|p ps IH] using rev_ind.
  - unfold cb_run, cbatch_new, CInv. cbn [fold_left fst snd cb_types cb_target cb_cols].
    split; [reflexivity|]. split; [reflexivity|]. split; [|split].
    + rewrite map_map. cbn [fst]. apply map_id.
    + intros t Hin. rewrite col_of_new by exact Hin. reflexivity.
    + rewrite cvals_new. apply perm_nil.
  - rewrite cb_run_snoc. apply cinv_step, IH.
Qed.

Lemma all_pushed_eq ps : concat (map (fun p => map (fun v => (fst p, v)) (snd p)) ps) = all_pushed ps.
Proof. reflexivity. Qed.

Lemma complete_iff b :
  cbatch_complete b = true <->
  forall t, In t (cb_types b) -> exists l, col_of t (cb_cols b) = Some l /\ lenN l = cb_target b.
Proof.
  unfold cbatch_complete. rewrite forallb_forall. split; intros H t Hin; specialize (H t Hin).
  - destruct (col_of t (cb_cols b)) as [l|]; [|discriminate]. exists l. split; [reflexivity|].
    apply N.eqb_eq. exact H.
  - destruct H as (l & -> & Hl). apply N.eqb_eq. exact Hl.
Qed.

(* ---------------------------------------------------------------- c12_build_iff *)
Theorem c12_build_iff_proof : c12_build_iff_stmt.
Proof.
  intros u declared n pushes. pose proof (cinv_run u declared n pushes) as Hinv.
  destruct (cb_run (cbatch_new u declared n) pushes) as [b rej].
  destruct Hinv as (Hty & Htg & Hfst & Hcol & Hperm). cbn [fst snd] in *.
  split; [|split].
  - rewrite complete_iff, Hty, Htg. split.
    + intros H t Hin. apply (proj2 (In_batch_types u declared t)) in Hin.
      destruct (H t Hin) as (l & Hl & Hlen). rewrite (Hcol t Hin) in Hl. injection Hl as <-. rewrite lenN_takeN in Hlen. lia.
    + intros H t Hin. exists (takeN n (pushed_to t pushes)). split; [apply Hcol, Hin|].
      apply (proj1 (In_batch_types u declared t)) in Hin. specialize (H t Hin). rewrite lenN_takeN. lia.
  - intros t Hin. apply Hcol. apply In_batch_types. exact Hin.
  - rewrite all_pushed_eq, cbatch_values_eq. exact Hperm.
Qed.

(* ---------------------------------------------------------------- c12_types *)
Lemma batch_types_ssorted u declared :
  rank_inj u declared -> ssorted (lt u) (dedup_sorted (tsort u declared)).
Proof.
  intros Hr. apply dedup_ssorted; [|apply tsort_lsorted].
  eapply rank_inj_incl; [exact Hr|]. apply incl_perm, tsort_perm.
Qed.

Lemma total_inj_rank_inj u l : total_inj u -> rank_inj u l.
Proof. intros H a b _ _ E. apply H, E. Qed.

Theorem c12_types_proof : c12_types_stmt.
Proof.
  intros u declared n Hu. cbn zeta. unfold cbatch_new. cbn [cb_types]. split.
  - apply ati_ssorted. apply batch_types_ssorted. apply total_inj_rank_inj, Hu.
  - intros t. apply In_batch_types.
Qed.

(* ---------------------------------------------------------------- c12_rows *)
(* The statement is false as stated: when two different declared types compare Equal (same
   alignment, same TypeId rank) the sort may interleave them, dedup keeps both copies, and the
   second column of the repeated type is never written although the batch counts as complete. *)
Definition ce_u : universe :=
  [ {| ti_align := 1; ti_size := 0; ti_rank := 5 |}; {| ti_align := 1; ti_size := 0; ti_rank := 5 |} ].

Lemma c12_rows_counterexample : ~ c12_rows_noinj_stmt.
Proof.
  intros H. specialize (H ce_u [0; 1; 0] 1 [(0, [10]); (1, [11])]).
  vm_compute in H. destruct (H eq_refl) as (_ & H2 & _).
  destruct (H2 0 [(0, 10); (1, 11)] eq_refl) as [E _]. discriminate E.
Qed.

Definition cell (i : N) (p : tid * list val) : list (tid * val) :=
  match nthN (snd p) i with Some v => [(fst p, v)] | None => [] end.
Definition rowof (cols : list (tid * list val)) (i : N) : list (tid * val) := concat (map (cell i) cols).

Lemma cbatch_rows_eq b : cbatch_rows b = map (rowof (cb_cols b)) (seqN 0 (cb_target b)).
Proof. reflexivity. Qed.

Lemma row_fst cols i : (forall p, In p cols -> i < lenN (snd p)) -> map fst (rowof cols i) = map fst cols.
Proof.
  induction cols as [|[t l] r IH]; intros H; [reflexivity|].
  unfold rowof in *. cbn [map concat]. rewrite map_app, IH.
  - destruct (nthN_lt_Some l i (H (t, l) (or_introl eq_refl))) as [v Hv].
    unfold cell. cbn [fst snd]. rewrite Hv. reflexivity.
  - intros p Hp. apply H. right. exact Hp.
Qed.

Lemma row_lookup cols i t :
  (forall p, In p cols -> i < lenN (snd p)) ->
  lookup_first t (rowof cols i) = match col_of t cols with Some l => nthN l i | None => None end.
Proof.
  induction cols as [|[t' l] r IH]; intros H; [reflexivity|].
  unfold rowof in *. cbn [map concat col_of].
  destruct (nthN_lt_Some l i (H (t', l) (or_introl eq_refl))) as [v Hv].
  unfold cell at 1. cbn [fst snd]. rewrite Hv. cbn [app lookup_first].
  destruct (N.eqb_spec t t'); [symmetry; exact Hv|]. apply IH. intros p Hp. apply H. right. exact Hp.
Qed.

Lemma concat_map_nil {A B} (l : list A) : concat (map (fun _ => @nil B) l) = [].
Proof. induction l as [|x l IH]; [reflexivity|exact IH]. Qed.

Lemma concat_map_app_perm {A B} (f g : A -> list B) l :
  Permutation (concat (map (fun x => f x ++ g x) l)) (concat (map f l) ++ concat (map g l)).
Proof.
  induction l as [|x l IH]; cbn [map concat]; [apply perm_nil|].
  rewrite <- !app_assoc. apply Permutation_app_head.
  eapply perm_trans; [apply Permutation_app_head; exact IH|].
  rewrite !app_assoc. apply Permutation_app_tail. apply Permutation_app_comm.
Qed.

Lemma column_cells t l : forall pre,
  concat (map (fun i => cell i (t, pre ++ l)) (seqN (lenN pre) (lenN l))) = vpair t l.
Proof.
  induction l as [|x l IH]; intros pre; cbn [lenN].
  - rewrite seqN_0. reflexivity.
  - rewrite seqN_succ. cbn [map concat]. unfold cell at 1. cbn [fst snd].
    rewrite nthN_app2 by lia. rewrite N.sub_diag. cbn [nthN N.eqb app vpair map]. f_equal.
    replace (pre ++ x :: l) with ((pre ++ [x]) ++ l) by (rewrite <- app_assoc; reflexivity).
    replace (N.succ (lenN pre)) with (lenN (pre ++ [x])) by (rewrite lenN_app; cbn [lenN]; lia).
    apply IH.
Qed.

Lemma transpose_perm cols n :
  (forall p, In p cols -> lenN (snd p) = n) ->
  Permutation (concat (map (rowof cols) (seqN 0 n))) (cvals cols).
Proof.
  induction cols as [|[t l] r IH]; intros H.
  - unfold rowof. cbn [map concat]. rewrite concat_map_nil. apply perm_nil.
  - change (map (rowof ((t, l) :: r)) (seqN 0 n))
      with (map (fun i => cell i (t, l) ++ rowof r i) (seqN 0 n)).
    eapply perm_trans; [apply concat_map_app_perm|].
    unfold cvals. cbn [map concat fst snd]. apply Permutation_app.
    + pose proof (column_cells t l []) as Hc. cbn [app lenN] in Hc.
      pose proof (H (t, l) (or_introl eq_refl)) as Hl. cbn [snd] in Hl. rewrite Hl in Hc. rewrite Hc. apply Permutation_refl.
    + apply IH. intros p Hp. apply H. right. exact Hp.
Qed.

Lemma col_of_in cols t l : NoDup (map fst cols) -> In (t, l) cols -> col_of t cols = Some l.
Proof.
  induction cols as [|[t' l'] r IH]; cbn [map fst In col_of]; [intros _ []|].
  intros Hnd Hin. inversion Hnd as [|x y Hni Hnd']; subst.
  destruct Hin as [[= -> ->]|Hin]; [rewrite N.eqb_refl; reflexivity|].
  destruct (N.eqb_spec t t') as [->|Hne]; [|apply IH; assumption].
  exfalso. apply Hni. apply (in_map fst) in Hin. exact Hin.
Qed.

(* closest true statement: on the declared types, comparing Equal means being the same type
   (implied by [total_inj u], the standing assumption of the world theorems) *)
Theorem c12_rows_weakened :
  forall u declared n pushes, rank_inj u declared ->
    let '(b, _) := cb_run (cbatch_new u declared n) pushes in
    cbatch_complete b = true ->
    lenN (cbatch_rows b) = n /\
    (forall i row, nthN (cbatch_rows b) i = Some row ->
       map fst row = cb_types b /\
       forall t, In t declared -> lookup_first t row = nthN (pushed_to t pushes) i) /\
    Permutation (concat (cbatch_rows b)) (cbatch_values b).
Proof.
  intros u declared n pushes Hr. pose proof (cinv_run u declared n pushes) as Hinv.
  destruct (cb_run (cbatch_new u declared n) pushes) as [b rej].
  destruct Hinv as (Hty & Htg & Hfst & Hcol & Hperm). cbn [fst snd] in *.
  intros Hc. rewrite complete_iff, Hty, Htg in Hc.
  assert (Hnd : NoDup (map fst (cb_cols b))).
  { rewrite Hfst. eapply ssorted_lt_nodup. apply batch_types_ssorted. exact Hr. }
  assert (Hlen : forall p, In p (cb_cols b) -> lenN (snd p) = n).
  { intros [t l] Hp. cbn [snd]. pose proof (col_of_in _ _ _ Hnd Hp) as Hl.
    assert (Hin : In t (dedup_sorted (tsort u declared))).
    { rewrite <- Hfst. apply (in_map fst) in Hp. exact Hp. }
    destruct (Hc t Hin) as (l' & Hl' & Hn). congruence. }
  rewrite cbatch_rows_eq, Htg. split; [|split].
  - rewrite lenN_map, lenN_seqN. reflexivity.
  - intros i row Hrow. rewrite nthN_map in Hrow.
    destruct (nthN (seqN 0 n) i) as [j|] eqn:Ej; [|discriminate]. cbn [option_map] in Hrow.
    injection Hrow as <-.
    assert (Hi : i < n). { apply nthN_Some_lt in Ej. rewrite lenN_seqN in Ej. exact Ej. }
    rewrite nthN_seqN in Ej by exact Hi. rewrite N.add_0_l in Ej. injection Ej as <-.
    assert (Hlt : forall p, In p (cb_cols b) -> i < lenN (snd p)).
    { intros p Hp. rewrite (Hlen p Hp). exact Hi. }
    split.
    + rewrite row_fst by exact Hlt. rewrite Hfst, Hty. reflexivity.
    + intros t Hin. rewrite row_lookup by exact Hlt.
      rewrite (Hcol t (proj2 (In_batch_types u declared t) Hin)). apply nthN_takeN. exact Hi.
  - rewrite cbatch_values_eq. apply transpose_perm. exact Hlen.
Qed.

Corollary c12_rows_total_inj :
  forall u declared n pushes, total_inj u ->
    let '(b, _) := cb_run (cbatch_new u declared n) pushes in
    cbatch_complete b = true ->
    lenN (cbatch_rows b) = n /\
    (forall i row, nthN (cbatch_rows b) i = Some row ->
       map fst row = cb_types b /\
       forall t, In t declared -> lookup_first t row = nthN (pushed_to t pushes) i) /\
    Permutation (concat (cbatch_rows b)) (cbatch_values b).
Proof.
  intros u declared n pushes Hu. apply c12_rows_weakened. apply total_inj_rank_inj, Hu.
Qed.

(* =========================================================================== C04: arena layout *)
Lemma WORD64_eq : WORD64 = 2 ^ 64.
Proof. reflexivity. Qed.
Lemma P63 : 2 ^ 63 = 9223372036854775808.
Proof. reflexivity. Qed.
Lemma P64 : 2 ^ 64 = 18446744073709551616.
Proof. reflexivity. Qed.

Lemma mask_eq k : k <= 64 -> 2 ^ 64 - 2 ^ k = N.shiftl (N.ones (64 - k)) k.
Proof.
  intros Hk. rewrite N.shiftl_mul_pow2, N.ones_equiv.
  assert (E : 2 ^ 64 = 2 ^ (64 - k) * 2 ^ k). { rewrite <- N.pow_add_r. f_equal. lia. }
  rewrite E. rewrite <- N.sub_1_r, N.mul_sub_distr_r. lia.
Qed.

Lemma land_mask y k : k <= 64 -> y < 2 ^ 64 -> N.land y (2 ^ 64 - 2 ^ k) = N.shiftl (N.shiftr y k) k.
Proof.
  intros Hk Hy. rewrite mask_eq by exact Hk. apply N.bits_inj. intros i. rewrite N.land_spec.
  destruct (N.ltb_spec i k) as [Hlt|Hge].
  - rewrite !N.shiftl_spec_low by exact Hlt. apply andb_false_r.
  - rewrite !N.shiftl_spec_high' by exact Hge. rewrite N.shiftr_spec'.
    replace (i - k + k) with i by lia.
    destruct (N.ltb_spec i 64) as [Hi|Hi].
    + rewrite N.ones_spec_low by lia. apply andb_true_r.
    + rewrite N.ones_spec_high by lia. rewrite andb_false_r.
      destruct (N.eq_dec y 0) as [->|Hy0]; [rewrite N.bits_0; reflexivity|].
      symmetry. apply N.bits_above_log2.
      assert (N.log2 y < 64); [|lia]. apply N.log2_lt_pow2; [lia|exact Hy].
Qed.

Lemma align_up_eq x k : x < 2 ^ 63 -> k < 63 ->
  align_up x (2 ^ k) = (x + 2 ^ k - 1) / 2 ^ k * 2 ^ k.
Proof.
  intros Hx Hk. unfold align_up. rewrite WORD64_eq.
  assert (Ha : 2 ^ k < 2 ^ 63) by (apply N.pow_lt_mono_r; lia).
  assert (Ha0 : 2 ^ k <> 0) by (apply N.pow_nonzero; lia).
  pose proof P63 as E63. pose proof P64 as E64.
  rewrite (N.mod_small (x + 2 ^ k - 1)) by lia.
  rewrite (N.mod_small (2 ^ 64 - 2 ^ k)) by lia.
  rewrite land_mask by lia. rewrite N.shiftl_mul_pow2, N.shiftr_div_pow2. reflexivity.
Qed.

Lemma align_up_facts x k : x < 2 ^ 63 -> k < 63 ->
  align_up x (2 ^ k) mod 2 ^ k = 0 /\ x <= align_up x (2 ^ k) /\ align_up x (2 ^ k) < x + 2 ^ k.
Proof.
  intros Hx Hk. rewrite align_up_eq by assumption.
  assert (Ha0 : 2 ^ k <> 0) by (apply N.pow_nonzero; lia).
  set (a := 2 ^ k) in *. split; [apply N.mod_mul; exact Ha0|].
  pose proof (N.div_mod (x + a - 1) a Ha0) as Hd.
  pose proof (N.mod_upper_bound (x + a - 1) a Ha0) as Hm.
  set (q := (x + a - 1) / a) in *. set (r := (x + a - 1) mod a) in *.
  assert (E : q * a = a * q) by apply N.mul_comm. lia.
Qed.

Theorem c04_align_proof : c04_align_stmt.
Proof.
  intros x k Hx Hk. cbn zeta. apply align_up_facts; [rewrite P63; exact Hx|exact Hk].
Qed.

(* ---- next_pow2 ---- *)
Lemma next_pow2_ge x : x <= next_pow2 x.
Proof.
  unfold next_pow2. destruct (N.leb_spec x 1) as [H|H]; [exact H|].
  apply N.log2_up_spec. exact H.
Qed.

Lemma next_pow2_pow x : exists k, next_pow2 x = 2 ^ k.
Proof.
  unfold next_pow2. destruct (N.leb_spec x 1) as [H|H]; [exists 0; reflexivity|].
  exists (N.log2_up x). reflexivity.
Qed.

(* ---- the arena invariant ---- *)
Record AInv (u : universe) (m : N) (a : arena) (slots : list (tid * N)) : Prop := {
  ai_slots : forall t off, In (t, off) slots ->
     off mod ti_align (info_of u t) = 0 /\ off + ti_size (info_of u t) <= ar_cursor a /\
     ti_align (info_of u t) <= ar_align a;
  ai_cur : ar_cursor a <= ar_size a;
  ai_size : ar_size a = 0 \/ (64 <= ar_size a /\ exists k, ar_size a = 2 ^ k);
  ai_align : 8 <= ar_align a;
  ai_bound : ar_cursor a <= m * 2 ^ 33;
  ai_disj : forall i j t1 o1 t2 o2, i <> j ->
     nthN slots i = Some (t1, o1) -> nthN slots j = Some (t2, o2) ->
     o1 + ti_size (info_of u t1) <= o2 \/ o2 + ti_size (info_of u t2) <= o1
}.

Lemma nthN_snoc_inv {A} (l : list A) x i y :
  nthN (l ++ [x]) i = Some y -> (i < lenN l /\ nthN l i = Some y) \/ (i = lenN l /\ y = x).
Proof.
  intros H. destruct (N.ltb_spec i (lenN l)) as [Hlt|Hge].
  - left. rewrite nthN_app1 in H by exact Hlt. split; assumption.
  - right. rewrite nthN_app2 in H by exact Hge. pose proof (nthN_Some_lt _ _ _ H) as Hl.
    cbn [lenN] in Hl. assert (E : i - lenN l = 0) by lia. rewrite E in H. cbn [nthN N.eqb] in H.
    injection H as <-. split; [lia|reflexivity].
Qed.

Lemma ainv_step u m a slots t off a' ev :
  layout_ok u -> AInv u m a slots -> m < 4096 -> arena_add u a t = (off, a', ev) ->
  AInv u (m + 1) a' (slots ++ [(t, off)]).
Proof.
  intros Hlay [Hsl Hcur Hsize Hal Hb Hdisj] Hm Hadd.
  destruct (Hlay t) as (k & Hk & Halign & Hmod & Hsz).
  assert (E33 : 2 ^ 33 = 8589934592) by reflexivity.
  assert (E31 : 2 ^ 31 = 2147483648) by reflexivity.
  pose proof P63 as E63.
  assert (Hk31 : 2 ^ k <= 2 ^ 31) by (apply N.pow_le_mono_r; lia).
  assert (Hc63 : ar_cursor a < 2 ^ 63) by lia.
  destruct (align_up_facts (ar_cursor a) k Hc63 ltac:(lia)) as (F1 & F2 & F3).
  unfold arena_add in Hadd. rewrite Halign in Hadd.
  remember (align_up (ar_cursor a) (2 ^ k)) as r eqn:Er.
  set (sz := ti_size (info_of u t)) in *.
  assert (Hslots' : forall al', ar_align a <= al' -> 2 ^ k <= al' ->
            forall t0 off0, In (t0, off0) (slots ++ [(t, r)]) ->
              off0 mod ti_align (info_of u t0) = 0 /\ off0 + ti_size (info_of u t0) <= r + sz /\
              ti_align (info_of u t0) <= al').
  { intros al' Ha1 Ha2 t0 off0 Hin. apply in_app_or in Hin. destruct Hin as [Hin|[[= <- <-]|[]]].
    - destruct (Hsl _ _ Hin) as (S1 & S2 & S3). split; [exact S1|]. split; lia.
    - rewrite Halign. split; [exact F1|]. split; [fold sz; lia|exact Ha2]. }
  assert (Hdisj' : forall i j t1 o1 t2 o2, i <> j ->
            nthN (slots ++ [(t, r)]) i = Some (t1, o1) -> nthN (slots ++ [(t, r)]) j = Some (t2, o2) ->
            o1 + ti_size (info_of u t1) <= o2 \/ o2 + ti_size (info_of u t2) <= o1).
  { intros i j t1 o1 t2 o2 Hij Hi Hj.
    apply nthN_snoc_inv in Hi. apply nthN_snoc_inv in Hj.
    destruct Hi as [[Hi1 Hi2]|[Hi1 Hi2]], Hj as [[Hj1 Hj2]|[Hj1 Hj2]].
    - eapply Hdisj; eassumption.
    - injection Hj2 as -> ->. apply nthN_In in Hi2. destruct (Hsl _ _ Hi2) as (_ & S2 & _). left. lia.
    - injection Hi2 as -> ->. apply nthN_In in Hj2. destruct (Hsl _ _ Hj2) as (_ & S2 & _). right. lia.
    - exfalso. lia. }
  destruct (N.ltb (ar_size a) (r + sz) || N.ltb (ar_align a) (2 ^ k)) eqn:Eb.
  - injection Hadd as <- <- <-. constructor; cbn [ar_size ar_align ar_cursor].
    + apply Hslots'; lia.
    + pose proof (next_pow2_ge (r + sz)). lia.
    + right. split; [lia|]. destruct (next_pow2_pow (r + sz)) as [k' Hk'].
      destruct (N.max_spec (next_pow2 (r + sz)) 64) as [[_ ->]|[_ ->]]; [exists 6; reflexivity|].
      exists k'. exact Hk'.
    + lia.
    + fold sz in Hsz. lia.
    + exact Hdisj'.
  - apply orb_false_iff in Eb. destruct Eb as [Eb1 Eb2].
    apply N.ltb_ge in Eb1. apply N.ltb_ge in Eb2.
    injection Hadd as <- <- <-. constructor; cbn [ar_size ar_align ar_cursor].
    + apply Hslots'; lia.
    + exact Eb1.
    + exact Hsize.
    + exact Hal.
    + fold sz in Hsz. lia.
    + exact Hdisj'.
Qed.

Definition astep (u : universe) (st : arena * list (tid * N)) (t : tid) : arena * list (tid * N) :=
  let '(off, a', _) := arena_add u (fst st) t in (a', snd st ++ [(t, off)]).

Lemma ainv_fold u : layout_ok u -> forall ts m a slots,
  AInv u m a slots -> m + lenN ts <= 4096 ->
  AInv u (m + lenN ts) (fst (fold_left (astep u) ts (a, slots))) (snd (fold_left (astep u) ts (a, slots))).
Proof.
  intros Hlay. induction ts as [|t ts IH]; intros m a slots Hinv Hm; cbn [fold_left lenN] in *.
  - rewrite N.add_0_r. exact Hinv.
  - unfold astep at 2 4. cbn [fst snd]. destruct (arena_add u a t) as [[off a'] ev] eqn:E.
    replace (m + N.succ (lenN ts)) with (m + 1 + lenN ts) by lia. apply IH; [|lia].
    eapply ainv_step; [exact Hlay|exact Hinv|lia|exact E].
Qed.

Lemma ainv_new u : AInv u 0 arena_new [].
Proof.
  constructor; cbn [arena_new ar_size ar_align ar_cursor].
  - intros t off [].
  - lia.
  - left. reflexivity.
  - lia.
  - lia.
  - intros i j t1 o1 t2 o2 _ H. discriminate H.
Qed.

Theorem c04_arena_proof : c04_arena_stmt.
Proof.
  intros u ts Hlay Hlen.
  pose proof (ainv_fold u Hlay ts 0 arena_new [] (ainv_new u) ltac:(lia)) as H.
  change (fold_left (fun st t => let '(off, a', _) := arena_add u (fst st) t in (a', snd st ++ [(t, off)]))
            ts (arena_new, [])) with (fold_left (astep u) ts (arena_new, [])).
  destruct (fold_left (astep u) ts (arena_new, [])) as [a slots]. cbn [fst snd] in H.
  destruct H as [Hsl Hcur Hsize Hal Hb Hdisj]. split; [|split; [|split]].
  - intros t off Hin. destruct (Hsl _ _ Hin) as (S1 & S2 & S3). split; [exact S1|]. split; [lia|].
    right. exact S3.
  - exact Hdisj.
  - exact Hsize.
  - exact Hal.
Qed.

Print Assumptions c13_inv_proof.
Print Assumptions c13_observers_proof.
Print Assumptions c13_add_proof.
Print Assumptions c13_clear_build_proof.
Print Assumptions c13_clone_proof.
Print Assumptions c12_build_iff_proof.
Print Assumptions c12_rows_counterexample.
Print Assumptions c12_rows_weakened.
Print Assumptions c12_rows_total_inj.
Print Assumptions c12_types_proof.
Print Assumptions c04_align_proof.
Print Assumptions c04_arena_proof.

Theorem c12_rows_proof : c12_rows_stmt.
Proof. exact c12_rows_total_inj. Qed.
Print Assumptions c12_rows_proof.
