(* Shared definitions for the interpreter-invariant proofs (Proofs/InterpProofs.v and helpers). *)
From Coq Require Import List NArith ZArith Bool Lia.
From HecsV Require Import Base.ListN Model.EntityBits Model.Types Model.Entities Model.World.
Import ListNotations.
Open Scope N_scope.

(* the generation of a handle is a NonZeroU32 *)
Definition hgen_ok (h : entity) : Prop := 0 < e_gen h < W32.

(* every generation stored in the entity table is a NonZeroU32 (the wi_gen field of WInv alone) *)
Definition gens_ok (e : entities) : Prop := forall m, In m (meta e) -> 0 < m_gen m < W32.
