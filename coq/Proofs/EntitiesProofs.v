(* Proofs of the statements of EntitiesSpec.v (C02, C07 and the allocator part of C16). *)
From Coq Require Import List NArith ZArith Bool Lia ZifyBool ZifyNat ZifyN.
From HecsV Require Import Base.ListN Base.ListNFacts Base.ListNMore Model.EntityBits Model.Entities
  Proofs.EntitiesSpec Proofs.EntitiesInv.
Import ListNotations.
Open Scope N_scope.

(* ================================================================== C16 must flush *)
Theorem c16_must_flush_proof : c16_must_flush.
Proof.
  intros e h l n a b Hf. unfold estep, alloc, alloc_at, free, alloc_many. rewrite Hf. auto.
Qed.

(* ================================================================== C02 (a), (b) *)
Theorem c02_unique_ids_proof : c02_unique_ids.
Proof.
  intros ops _. destruct (erun ents_empty ops) as [e tr]. intros [i1 g1] [i2 g2].
  unfold is_live, get_mut. cbn [e_id e_gen]. intros H1 H2 <-.
  destruct (nthN (meta e) i1) as [m|]; [|congruence].
  destruct (N.eqb_spec (m_gen m) g1) as [<-|]; [|cbn [andb] in H1; congruence].
  destruct (N.eqb_spec (m_gen m) g2) as [<-|]; [|cbn [andb] in H2; congruence].
  reflexivity.
Qed.

Lemma reach_EInv ops e tr : Forall op_ok ops -> erun ents_empty ops = (e, tr) -> EInv e.
Proof.
  intros Hok Er. destruct (erun_chain op_ok _ _ _ _ Hok Er) as (Hc & ->).
  apply chain_EInv; [exact EInv_empty|exact Hc].
Qed.

Theorem c02_len_proof : c02_len.
Proof.
  intros ops Hok. destruct (erun ents_empty ops) as [e tr] eqn:Er.
  rewrite located_count_cnt. apply (ei_len e). exact (reach_EInv _ _ _ Hok Er).
Qed.

(* ================================================================== reservation phase *)
Record RInv (e0 e : entities) (hs : list entity) : Prop := {
  ri_meta : meta e = meta e0;
  ri_pend : pending e = pending e0;
  ri_elen : elen e = elen e0;
  ri_len : Z.of_N (lenN hs) = (cursor e0 - cursor e)%Z;
  ri_gen : forall h, In h hs -> e_gen h = genl (meta e0) (e_id h);
  ri_nodup : NoDup (map e_id hs);
  ri_rsvd : forall x, In x (map e_id hs) -> rsvd e x }.

Lemma RInv_init e0 : RInv e0 e0 [].
Proof.
  constructor; try reflexivity.
  - cbn [lenN]. lia.
  - intros h [].
  - constructor.
  - intros x [].
Qed.

Lemma RInv_step e0 e hs e' hs' : RInv e0 e hs -> RStep e e' hs' -> RInv e0 e' (hs ++ hs').
Proof.
  intros [Im Ip Ie Il Ig In_ Ir] [Rm Rp Re Rc Rl Rg Rn Rr Rw]. constructor.
  - congruence.
  - congruence.
  - congruence.
  - rewrite lenN_app. lia.
  - intros h Hh. apply in_app_or in Hh. destruct Hh as [Hh|Hh]; [exact (Ig h Hh)|].
    rewrite <- Im. exact (Rg h Hh).
  - rewrite map_app. apply NoDup_app_intro; [exact In_|exact Rn|].
    intros x Hx Hx'. exact (Rw x Hx' (Ir x Hx)).
  - intros x Hx. rewrite map_app in Hx. apply in_app_or in Hx. apply Rr.
    destruct Hx as [Hx|Hx]; [left; exact (Ir x Hx)|right; exact Hx].
Qed.

Definition rsvP (o : eop) : Prop := is_reserve o = true.

Lemma rsv_step e o e' hs : EInv e -> rsvP o -> estep e o = Done (e', hs) -> RStep e e' hs.
Proof.
  intros I Hr H. destruct o; try discriminate Hr.
  - exact (reserve_spec _ _ _ I H).
  - exact (reserveN_spec _ _ _ _ I H).
Qed.

Lemma rchain_final e0 e hs0 tr :
  chain rsvP e tr -> EInv e -> RInv e0 e hs0 ->
  EInv (final e tr) /\ RInv e0 (final e tr) (hs0 ++ returned tr).
Proof.
  revert e hs0; induction tr as [|[[[a o] b] hs] r IH]; intros e hs0; cbn [chain].
  - intros _ I R. unfold final, returned. cbn [fold_left map concat]. rewrite app_nil_r. auto.
  - intros (-> & Hr & Hs & Hc) I R. pose proof (rsv_step _ _ _ _ I Hr Hs) as S.
    unfold final. cbn [fold_left fst snd]. fold (final b r).
    change (returned ((e, o, b, hs) :: r)) with (hs ++ returned r). rewrite app_assoc.
    apply IH; [exact Hc|exact (RStep_EInv _ _ _ I S)|exact (RInv_step _ _ _ _ _ R S)].
Qed.

(* what a reserved, unflushed handle looks like *)
Lemma rsvd_observe e0 e hs h :
  EInv e -> RInv e0 e hs -> In h hs ->
  contains e h = true /\ get e h = Some EMPTY_LOC /\ get_mut e h = None.
Proof.
  intros I R Hh. pose proof (ri_gen _ _ _ R h Hh) as Hg. rewrite <- (ri_meta _ _ _ R) in Hg.
  pose proof (ri_rsvd _ _ _ R (e_id h) (in_map e_id _ _ Hh)) as Hr.
  unfold contains, get, get_mut. unfold genl in Hg. destruct Hr as [Hr|[Hr1 Hr2]].
  - pose proof (In_dropN _ _ _ Hr) as Hp. apply (ei_pend e I) in Hp.
    apply stl_Some_nth in Hp. destruct Hp as (m & Em & Hm). rewrite Em in *.
    unfold isloc, isl in Hm. apply negb_false_iff in Hm. rewrite Hm, Hg, N.eqb_refl.
    apply memN_In in Hr. rewrite Hr. auto.
  - destruct (nthN (meta e) (e_id h)) as [m|] eqn:Em.
    { apply nthN_Some_lt in Em. lia. }
    rewrite Hg. cbn [N.eqb Pos.eqb andb].
    destruct (Z.ltb_spec (cursor e) 0) as [Hc|Hc]; [|lia].
    destruct (Z.ltb_spec (Z.of_N (e_id h)) (Z.abs (cursor e) + Z.of_N (lenN (meta e)))); [|lia].
    auto.
Qed.

Lemma rsvd_not_live e0 e hs x g :
  EInv e0 -> needs_flush e0 = false -> RInv e0 e hs -> In x (map e_id hs) ->
  get_mut e0 {| e_id := x; e_gen := g |} = None.
Proof.
  intros I0 Hf R Hx. pose proof (ri_rsvd _ _ _ R x Hx) as Hr.
  unfold get_mut. cbn [e_id e_gen]. destruct (nthN (meta e0) x) as [m|] eqn:Em; [|reflexivity].
  destruct Hr as [Hr|[Hr _]].
  - apply In_dropN in Hr. rewrite (ri_pend _ _ _ R) in Hr. apply (ei_pend e0 I0) in Hr.
    unfold stl in Hr. rewrite Em in Hr. cbn [option_map] in Hr. unfold isloc, isl in Hr.
    injection Hr as Hr. apply negb_false_iff in Hr. rewrite Hr. cbn [negb]. rewrite andb_false_r. reflexivity.
  - rewrite (ri_meta _ _ _ R) in Hr. apply nthN_Some_lt in Em. lia.
Qed.

Theorem c16_reserved_uniform_proof : c16_reserved_uniform.
Proof.
  intros ops rs Hok Hrs. destruct (erun ents_empty ops) as [e0 tr0] eqn:Er0. intros Hf.
  destruct (erun e0 rs) as [e1 tr] eqn:Er. intros h Hh.
  pose proof (reach_EInv _ _ _ Hok Er0) as I0.
  assert (HP : Forall rsvP rs) by (apply Forall_forall; intros o Ho; exact (proj1 (forallb_forall _ _) Hrs o Ho)).
  destruct (erun_chain rsvP _ _ _ _ HP Er) as (Hc & ->).
  destruct (rchain_final e0 e0 [] tr Hc I0 (RInv_init e0)) as (I1 & R1).
  exact (rsvd_observe _ _ _ h I1 R1 Hh).
Qed.

(* entries of located ids are untouched by the flush *)
Lemma set_idxs_nth_other e ids f x :
  ~ In x ids -> nthN (meta (set_idxs e ids f)) x = nthN (meta e) x.
Proof.
  revert e; induction ids as [|a r IH]; intros e Hx; cbn [set_idxs]; [reflexivity|].
  rewrite IH by (intros H; apply Hx; right; exact H).
  unfold set_idx, set_loc. destruct (nthN (meta e) a) as [m|] eqn:Em; [|reflexivity].
  cbn [meta]. apply nthN_updN_ne. intros ->. apply Hx. left. reflexivity.
Qed.

Lemma flush_keeps_live e f e' hs x m :
  EInv e -> estep e (OFlush f) = Done (e', hs) ->
  nthN (meta e) x = Some m -> isloc m = true -> nthN (meta e') x = Some m.
Proof.
  intros I. unfold estep. rewrite (flush_eq e I). intros [= <- <-] Em Hm.
  rewrite set_idxs_nth_other; cbn [meta].
  - rewrite nthN_app1 by (eapply nthN_Some_lt; exact Em). exact Em.
  - intros Hin. apply in_app_or in Hin. destruct Hin as [Hs|Hd].
    + apply In_seqN in Hs. apply nthN_Some_lt in Em. lia.
    + apply In_dropN in Hd. apply (ei_pend e I) in Hd. unfold stl in Hd. rewrite Em in Hd.
      cbn [option_map] in Hd. congruence.
Qed.

Lemma get_mut_live_inv e h :
  get_mut e h <> None -> exists m, nthN (meta e) (e_id h) = Some m /\ m_gen m = e_gen h /\ isloc m = true.
Proof.
  unfold get_mut. destruct (nthN (meta e) (e_id h)) as [m|]; [|congruence].
  destruct (N.eqb_spec (m_gen m) (e_gen h)) as [Hg|Hg]; [|cbn [andb]; congruence].
  unfold isloc, isl. destruct (negb (N.eqb (l_idx (m_loc m)) SENT)) eqn:El; [|cbn [andb]; congruence].
  intros _. eauto.
Qed.

Theorem c07_reserve_proof : c07_reserve.
Proof.
  intros ops rs f Hok Hrs Hfn. destruct (erun ents_empty ops) as [e0 tr0] eqn:Er0. intros Hf.
  destruct (erun e0 rs) as [e1 tr] eqn:Er. intros _. cbv zeta.
  pose proof (reach_EInv _ _ _ Hok Er0) as I0.
  assert (HP : Forall rsvP rs) by (apply Forall_forall; intros o Ho; exact (proj1 (forallb_forall _ _) Hrs o Ho)).
  destruct (erun_chain rsvP _ _ _ _ HP Er) as (Hc & ->).
  destruct (rchain_final e0 e0 [] tr Hc I0 (RInv_init e0)) as (I1 & R1). cbn [app] in R1.
  split; [|split; [|split; [|split]]].
  - eapply NoDup_map_proj. exact (ri_nodup _ _ _ R1).
  - intros h Hh. pose proof (in_map e_id _ _ Hh) as Hx. split.
    + unfold is_live. intros Hl. apply Hl. destruct h as [x g].
      exact (rsvd_not_live e0 _ _ x g I0 Hf R1 Hx).
    + intros [x0 g0] Hl Heq. cbn [e_id] in Heq. apply Hl. rewrite Heq.
      exact (rsvd_not_live e0 _ _ (e_id h) g0 I0 Hf R1 Hx).
  - intros h Hh. exact (proj1 (rsvd_observe _ _ _ h I1 R1 Hh)).
  - intros pre x post h Etr Hh y Hy.
    destruct (in_split _ _ Hy) as (p1 & p2 & Ep).
    assert (Etr' : tr = (pre ++ p1 ++ [y]) ++ p2).
    { rewrite Etr, Ep. rewrite <- !app_assoc. reflexivity. }
    rewrite Etr' in Hc. apply chain_app in Hc. destruct Hc as (Hc1 & _).
    destruct (rchain_final e0 e0 [] _ Hc1 I0 (RInv_init e0)) as (Iy & Ry). cbn [app] in Ry.
    rewrite app_assoc, final_app in Iy, Ry. unfold final at 1 in Iy. unfold final at 1 in Ry.
    cbn [fold_left] in Iy, Ry.
    refine (proj1 (rsvd_observe _ _ _ h Iy Ry _)).
    rewrite !returned_app.
    destruct p1 as [|x' p1'].
    + cbn [app] in Ep. injection Ep as <- _. apply in_or_app. right.
      unfold returned. cbn [app map concat]. rewrite app_nil_r. exact Hh.
    + cbn [app] in Ep. injection Ep as <- _. apply in_or_app. left. apply in_or_app. right.
      unfold returned. cbn [map concat]. apply in_or_app. left. exact Hh.
  - destruct (flush_no_panic (final e0 tr) f I1) as [e2 E2]. rewrite E2.
    destruct (flush_spec _ f e2 [] I1 Hfn E2) as (_ & F).
    set (e1 := final e0 tr) in *.
    split; [exact (Fill_flushed _ _ _ _ I1 F)|]. split; [|split].
    + intros h Hh. pose proof (ri_rsvd _ _ _ R1 (e_id h) (in_map e_id _ _ Hh)) as Hr.
      assert (Hfl : filled e1 (Z.to_N (Z.max (cursor e1) 0)) (Z.to_N (Z.max (- cursor e1) 0)) (e_id h) = true).
      { apply filled_iff. destruct Hr as [Hr|Hr]; [left; exact Hr|right; lia]. }
      pose proof (fl_st _ _ _ _ F (e_id h)) as Hst. rewrite Hfl in Hst.
      apply stl_Some_nth in Hst. destruct Hst as (m & Em & Hm).
      pose proof (fl_gen _ _ _ _ F (e_id h)) as Hg. rewrite (ri_meta _ _ _ R1) in Hg.
      rewrite <- (ri_gen _ _ _ R1 h Hh) in Hg. unfold genl in Hg. rewrite Em in Hg.
      unfold is_live, get_mut. rewrite Em, Hg, N.eqb_refl. unfold isloc, isl in Hm. rewrite Hm.
      cbn [andb]. discriminate.
    + intros h0 Hl. destruct (get_mut_live_inv _ _ Hl) as (m & Em & Hg & Hm).
      rewrite <- (ri_meta _ _ _ R1) in Em.
      pose proof (flush_keeps_live _ _ _ _ _ _ I1 E2 Em Hm) as Em2.
      rewrite (ri_meta _ _ _ R1) in Em. unfold get_mut. rewrite Em, Em2. reflexivity.
    + rewrite (fl_elen _ _ _ _ F), (ri_elen _ _ _ R1), (ri_pend _ _ _ R1).
      pose proof (ri_len _ _ _ R1) as Hlen. apply nf_false in Hf.
      pose proof (ei_cur _ I1) as Hc1. rewrite (ri_pend _ _ _ R1) in Hc1. lia.
Qed.

(* ================================================================== generation history *)
Definition not_spawnat (o : eop) (x : N) : Prop :=
  match o with OSpawnAt h _ => e_id h <> x | _ => True end.
Definition not_clear (o : eop) : Prop := match o with OClear => False | _ => True end.
Definition nowrap_op (o : eop) : Prop := match o with ODespawn h => e_gen h + 1 < W32 | _ => True end.

Lemma taken_flushed e x : needs_flush e = false -> taken e x -> stl (meta e) x = Some true.
Proof. intros Hf [H|H]; [exact H|]. exfalso. exact (rsvd_flushed e x Hf H). Qed.

Lemma Fill_taken e e' j k x : Fill e e' j k -> taken e x -> stl (meta e') x = Some true.
Proof.
  intros F Ht. rewrite (fl_st _ _ _ _ F). destruct (filled e j k x) eqn:Ef; [reflexivity|].
  destruct Ht as [Ht|[Ht|Ht]]; [exact Ht| |].
  - assert (filled e j k x = true); [|congruence]. apply filled_iff. left.
    unfold reserved_part in Ht. eapply In_dropN_le; [|exact Ht]. pose proof (fl_j _ _ _ _ F). lia.
  - assert (filled e j k x = true); [|congruence]. apply filled_iff. right.
    pose proof (fl_k _ _ _ _ F). lia.
Qed.

Lemma Fill_new e e' j k x :
  EInv e -> needs_flush e = false -> Fill e e' j k -> filled e j k x = true ->
  ~ taken e x /\ taken e' x.
Proof.
  intros I Hf F Hx. split.
  - intros Ht. apply (taken_flushed e x Hf) in Ht. apply filled_iff in Hx. destruct Hx as [Hx|Hx].
    + apply In_dropN in Hx. apply (ei_pend e I) in Hx. congruence.
    + rewrite stl_ge in Ht by lia. discriminate.
  - left. rewrite (fl_st _ _ _ _ F), Hx. reflexivity.
Qed.

Lemma gstep_old e o e' hs x :
  EInv e -> op_ok o -> estep e o = Done (e', hs) -> not_clear o -> nowrap_op o -> not_spawnat o x ->
  (stl (meta e) x <> None -> stl (meta e') x <> None) /\
  genl (meta e) x <= genl (meta e') x /\
  (taken e x -> taken e' x \/ genl (meta e) x < genl (meta e') x).
Proof.
  intros I Hok H Hnc Hnw Hns.
  assert (HF : forall j k, Fill e e' j k ->
     (stl (meta e) x <> None -> stl (meta e') x <> None) /\
     genl (meta e) x <= genl (meta e') x /\
     (taken e x -> taken e' x \/ genl (meta e) x < genl (meta e') x)).
  { intros j k F. split; [|split].
    - rewrite (fl_st _ _ _ _ F). destruct (filled e j k x); [discriminate|tauto].
    - rewrite (fl_gen _ _ _ _ F). lia.
    - intros Ht. left. left. exact (Fill_taken _ _ _ _ _ F Ht). }
  assert (HR : RStep e e' hs ->
     (stl (meta e) x <> None -> stl (meta e') x <> None) /\
     genl (meta e) x <= genl (meta e') x /\
     (taken e x -> taken e' x \/ genl (meta e) x < genl (meta e') x)).
  { intros R. rewrite (rs_meta _ _ _ R). split; [tauto|]. split; [lia|].
    intros [Ht|Ht]; left; [left; rewrite (rs_meta _ _ _ R); exact Ht|right; apply (rs_rsvd _ _ _ R); left; exact Ht]. }
  destruct o as [l|h l|h| |n|f|n a first|].
  - cbn [op_ok] in Hok. destruct (spawn_spec e l e' hs I (isl_true l Hok) H) as (_ & j & k & id & F & _).
    exact (HF j k F).
  - cbn [op_ok] in Hok. destruct Hok as (Hl & _). cbn [not_spawnat] in Hns.
    destruct (spawnat_spec e h l e' hs I (isl_true l Hl) H) as (_ & Hf & _ & _ & Hg & Hs & Hn).
    split; [apply Hn|]. split; [rewrite Hg by congruence; lia|].
    intros Ht. left. left. apply Hs. exact (taken_flushed e x Hf Ht).
  - destruct (despawn_spec e h e' hs I H) as (_ & Hf & [->|D]).
    { split; [tauto|]. split; [lia|]. tauto. }
    destruct D as (Hst & Hg & _ & _ & _ & _ & Hs & Hgen). cbn [nowrap_op] in Hnw.
    rewrite Hs, Hgen. destruct (N.eqb_spec x (e_id h)) as [->|Hne].
    + unfold next_gen. destruct (N.eqb_spec (e_gen h + 1) W32); [lia|]. rewrite Hg.
      split; [discriminate|]. split; [lia|]. intros _. right. lia.
    + split; [tauto|]. split; [lia|]. intros Ht. left. left. rewrite Hs.
      destruct (N.eqb_spec x (e_id h)); [contradiction|]. exact (taken_flushed e x Hf Ht).
  - exact (HR (reserve_spec _ _ _ I H)).
  - exact (HR (reserveN_spec _ _ _ _ I H)).
  - cbn [op_ok] in Hok. destruct (flush_spec e f e' hs I Hok H) as (_ & F). exact (HF _ _ F).
  - cbn [op_ok] in Hok. destruct (batch_spec e n a first e' hs I Hok H) as (_ & F & _). exact (HF _ _ F).
  - destruct Hnc.
Qed.

Lemma gstep_new e o e' hs :
  EInv e -> op_ok o -> estep e o = Done (e', hs) ->
  NoDup (map e_id hs) /\
  forall h, In h hs ->
    e_gen h = genl (meta e) (e_id h) /\ ~ taken e (e_id h) /\ taken e' (e_id h) /\
    genl (meta e') (e_id h) = genl (meta e) (e_id h).
Proof.
  intros I Hok H.
  assert (HR : RStep e e' hs ->
    NoDup (map e_id hs) /\
    forall h, In h hs ->
      e_gen h = genl (meta e) (e_id h) /\ ~ taken e (e_id h) /\ taken e' (e_id h) /\
      genl (meta e') (e_id h) = genl (meta e) (e_id h)).
  { intros R. split; [exact (rs_nodup _ _ _ R)|]. intros h Hh.
    pose proof (in_map e_id _ _ Hh) as Hx.
    assert (Hr' : rsvd e' (e_id h)) by (apply (rs_rsvd _ _ _ R); right; exact Hx).
    pose proof (rsvd_not_located e' _ (RStep_EInv _ _ _ I R) Hr') as Hnl.
    rewrite (rs_meta _ _ _ R) in Hnl.
    split; [exact (rs_gen _ _ _ R h Hh)|]. split; [|split].
    - intros [Ht|Ht]; [exact (Hnl Ht)|exact (rs_new _ _ _ R _ Hx Ht)].
    - right. exact Hr'.
    - rewrite (rs_meta _ _ _ R). reflexivity. }
  assert (Hnil : hs = [] -> NoDup (map e_id hs) /\
    forall h, In h hs ->
      e_gen h = genl (meta e) (e_id h) /\ ~ taken e (e_id h) /\ taken e' (e_id h) /\
      genl (meta e') (e_id h) = genl (meta e) (e_id h)).
  { intros ->. split; [constructor|intros h []]. }
  destruct o as [l|h l|h| |n|f|n a first|].
  - cbn [op_ok] in Hok.
    destruct (spawn_spec e l e' hs I (isl_true l Hok) H) as (Hf & j & k & id & F & -> & Hfil).
    cbn [map e_id]. split; [repeat constructor; intros []|]. intros h [<-|[]]. cbn [e_id e_gen].
    destruct (Fill_new e e' j k id I Hf F (proj2 (Hfil id) eq_refl)) as (H1 & H2).
    split; [reflexivity|]. split; [exact H1|]. split; [exact H2|]. apply (fl_gen _ _ _ _ F).
  - cbn [op_ok] in Hok. destruct Hok as (Hl & _).
    destruct (spawnat_spec e h l e' hs I (isl_true l Hl) H) as (E & _). exact (Hnil E).
  - destruct (despawn_spec e h e' hs I H) as (E & _). exact (Hnil E).
  - exact (HR (reserve_spec _ _ _ I H)).
  - exact (HR (reserveN_spec _ _ _ _ I H)).
  - cbn [op_ok] in Hok. destruct (flush_spec e f e' hs I Hok H) as (E & _). exact (Hnil E).
  - cbn [op_ok] in Hok. destruct (batch_spec e n a first e' hs I Hok H) as (Hf & F & ->).
    pose proof (Fill_j_le _ _ _ _ I F) as Hj.
    change (fun id : N => {| e_id := id; e_gen := genl (meta e) id |}) with (mkh e).
    rewrite map_id_mkh. split.
    + apply NoDup_app_intro; [apply NoDup_dropN; apply (ei_nodup e I)|apply NoDup_seqN|].
      intros x Hx Hs. apply In_dropN in Hx. apply In_seqN in Hs. pose proof (EInv_pend_lt e x I Hx). lia.
    + intros h Hh. apply in_map_iff in Hh. destruct Hh as (x & <- & Hx). cbn [mkh e_id e_gen].
      assert (Hfil : filled e (lenN (pending e) - n) (n - lenN (pending e)) x = true).
      { apply filled_iff. apply in_app_or in Hx. destruct Hx as [Hx|Hx]; [left; exact Hx|].
        right. apply In_seqN in Hx. exact Hx. }
      destruct (Fill_new e e' _ _ x I Hf F Hfil) as (H1 & H2).
      split; [reflexivity|]. split; [exact H1|]. split; [exact H2|]. apply (fl_gen _ _ _ _ F).
  - cbn [estep] in H. injection H as _ <-. exact (Hnil eq_refl).
Qed.

(* ================================================================== C02 (d) *)
Definition deadP (h : entity) (e : entities) : Prop :=
  stl (meta e) (e_id h) <> None /\ e_gen h < genl (meta e) (e_id h).

Lemma deadP_observe h e :
  deadP h e ->
  contains e h = false /\ get e h = None /\ get_mut e h = None /\
  (needs_flush e = false -> free e h = Done None).
Proof.
  intros [H1 H2]. unfold stl, genl in *. unfold contains, get, get_mut, free.
  destruct (nthN (meta e) (e_id h)) as [m|]; [|cbn [option_map] in H1; congruence].
  destruct (N.eqb_spec (m_gen m) (e_gen h)) as [Hg|Hg]; [lia|]. cbn [negb andb orb].
  split; [reflexivity|]. split; [reflexivity|]. split; [reflexivity|]. intros ->. reflexivity.
Qed.

Definition gP (o : eop) : Prop := op_ok o /\ nowrap_op o.

Lemma dead_chain h e post :
  chain gP e post -> EInv e -> deadP h e ->
  (forall x, In x post -> match snd (fst (fst x)) with
                          | OClear => False
                          | OSpawnAt h' _ => e_id h' <> e_id h
                          | _ => True
                          end) ->
  forall x, In x post -> deadP h (snd (fst x)).
Proof.
  revert e; induction post as [|[[[a o] b] hs] r IH]; intros e; cbn [chain]; [intros _ _ _ _ x []|].
  intros (-> & (Hok & Hnw) & Hs & Hc) I D Hcond.
  assert (Db : deadP h b).
  { pose proof (Hcond _ (or_introl eq_refl)) as Ho. cbn [fst snd] in Ho.
    assert (Hnc : not_clear o) by (destruct o; try exact Logic.I; exact Ho).
    assert (Hns : not_spawnat o (e_id h)) by (destruct o; try exact Logic.I; exact Ho).
    destruct (gstep_old e o b hs (e_id h) I Hok Hs Hnc Hnw Hns) as (G1 & G2 & _).
    destruct D as [D1 D2]. split; [exact (G1 D1)|lia]. }
  intros x [<-|Hx]; [exact Db|].
  apply (IH b Hc (estep_EInv _ _ _ _ I Hok Hs) Db); [|exact Hx].
  intros y Hy. apply Hcond. right. exact Hy.
Qed.

Lemma chain_strengthen (P Q : eop -> Prop) e tr :
  chain P e tr -> (forall x, In x tr -> Q (snd (fst (fst x)))) -> chain (fun o => P o /\ Q o) e tr.
Proof.
  revert e; induction tr as [|[[[a o] b] hs] r IH]; intros e; cbn [chain]; [tauto|].
  intros (H1 & H2 & H3 & H4) HQ. split; [exact H1|]. split; [|split; [exact H3|]].
  - split; [exact H2|]. exact (HQ _ (or_introl eq_refl)).
  - apply IH; [exact H4|]. intros x Hx. apply HQ. right. exact Hx.
Qed.

Lemma no_wrap_ops tr : no_wrap tr -> forall x, In x tr -> nowrap_op (snd (fst (fst x))).
Proof.
  intros Hnw [[[a o] b] hs] Hx. cbn [fst snd]. destruct o; try exact Logic.I.
  cbn [nowrap_op]. eapply Hnw; [exact Hx|reflexivity].
Qed.

Theorem c02_dead_forever_proof : c02_dead_forever.
Proof.
  intros ops Hok. destruct (erun ents_empty ops) as [ef tr] eqn:Er. intros Hnw.
  intros pre e h e' post Etr Hlive Hcond.
  destruct (erun_chain op_ok _ _ _ _ Hok Er) as (Hc & _).
  pose proof (chain_strengthen _ _ _ _ Hc (no_wrap_ops tr Hnw)) as Hc'. fold gP in Hc'.
  rewrite Etr in Hc'. apply chain_app in Hc'. destruct Hc' as (Hc1 & Hc2).
  cbn [chain] in Hc2. destruct Hc2 as (Ee & (_ & Hw) & Hs & Hc3). cbn [nowrap_op] in Hw.
  assert (I : EInv e).
  { rewrite Ee. apply chain_EInv; [exact EInv_empty|]. eapply chain_weaken; [|exact Hc1]. intros o [H _]; exact H. }
  destruct (get_mut_live_inv _ _ Hlive) as (m & Em & Hg & Hm).
  assert (Hst : stl (meta e) (e_id h) = Some true) by (unfold stl; rewrite Em; cbn [option_map]; congruence).
  assert (Hgen : genl (meta e) (e_id h) = e_gen h) by (unfold genl; rewrite Em; exact Hg).
  assert (Hf : needs_flush e = false) by (destruct (despawn_spec e h e' [] I Hs) as (_ & Hf & _); exact Hf).
  assert (D : DespawnOK e e' h).
  { destruct (free_spec e h I Hf) as [(_ & Hn)|(e2 & l & Ef & D)]; [exfalso; apply Hn; auto|].
    unfold estep in Hs. rewrite Ef in Hs. injection Hs as <-. exact D. }
  assert (I' : EInv e') by exact (DespawnOK_EInv _ _ _ I D).
  assert (D' : deadP h e').
  { destruct D as (_ & _ & _ & _ & _ & _ & Hs' & Hg'). split.
    - rewrite Hs', N.eqb_refl. discriminate.
    - rewrite Hg', N.eqb_refl. unfold next_gen. destruct (N.eqb_spec (e_gen h + 1) W32); lia. }
  intros x [<-|Hx]; cbn [fst snd].
  - exact (deadP_observe h e' D').
  - apply deadP_observe. exact (dead_chain h e' post Hc3 I' D' Hcond x Hx).
Qed.

(* ================================================================== C02 (c) *)
Definition GInv (e : entities) (pre : list tent) : Prop :=
  forall h, In h (returned pre) -> ~ In (e_id h) (spawn_at_ids pre) ->
    e_gen h <= genl (meta e) (e_id h) /\ (e_gen h = genl (meta e) (e_id h) -> taken e (e_id h)).

Definition fP (o : eop) : Prop := (op_ok o /\ nowrap_op o) /\ not_clear o.

Lemma fP_ok o : fP o -> op_ok o.
Proof. intros [[H _] _]; exact H. Qed.

Lemma GInv_chain e0 pre : chain fP e0 pre -> EInv e0 -> GInv (final e0 pre) pre.
Proof.
  induction pre as [|[[[a o] b] hs] pre' IH] using rev_ind; intros Hc I0.
  - intros h [].
  - apply chain_app in Hc. destruct Hc as (Hc1 & Hc2). cbn [chain] in Hc2.
    destruct Hc2 as (-> & ((Hok & Hnw) & Hnc) & Hs & _).
    specialize (IH Hc1 I0).
    assert (I : EInv (final e0 pre')).
    { apply chain_EInv; [exact I0|]. eapply chain_weaken; [|exact Hc1]. exact fP_ok. }
    rewrite final_app. unfold final at 1. cbn [fold_left fst snd].
    set (e := final e0 pre') in *.
    destruct (gstep_new e o b hs I Hok Hs) as (_ & Hnew).
    intros h Hh Hns. rewrite returned_app in Hh. rewrite spawn_at_ids_app in Hns.
    apply in_app_or in Hh. destruct Hh as [Hh|Hh].
    + assert (Hns1 : ~ In (e_id h) (spawn_at_ids pre')) by (intros H; apply Hns; apply in_or_app; left; exact H).
      assert (Hns2 : not_spawnat o (e_id h)).
      { destruct o; try exact Logic.I. cbn [not_spawnat]. intros Heq. apply Hns. apply in_or_app. right.
        unfold spawn_at_ids. cbn [map concat fst snd app]. left. exact Heq. }
      destruct (IH h Hh Hns1) as (H1 & H2).
      destruct (gstep_old e o b hs (e_id h) I Hok Hs Hnc Hnw Hns2) as (_ & G2 & G3).
      split; [lia|]. intros Heq. assert (Heq' : e_gen h = genl (meta e) (e_id h)) by lia.
      destruct (G3 (H2 Heq')) as [Ht|Hlt]; [exact Ht|lia].
    + unfold returned in Hh. cbn [map concat snd] in Hh. rewrite app_nil_r in Hh.
      destruct (Hnew h Hh) as (H1 & _ & H3 & H4). split; [lia|]. intros _. exact H3.
Qed.

Lemma since_clear_spec tr :
  (forall x, In x (since_clear tr) -> is_clear_step x = false) /\
  (since_clear tr = tr \/ exists pre x, tr = pre ++ x :: since_clear tr /\ is_clear_step x = true).
Proof.
  induction tr as [|x r IH]; [split; [intros x []|left; reflexivity]|].
  cbn [since_clear]. destruct (existsb is_clear_step r) eqn:Ex.
  - destruct IH as (IH1 & IH2). split; [exact IH1|]. right. destruct IH2 as [IH2|(pre & y & Ey & Hy)].
    + exfalso. apply existsb_exists in Ex. destruct Ex as (y & Hy & Hcy).
      rewrite <- IH2 in Hy. rewrite (IH1 y Hy) in Hcy. discriminate.
    + exists (x :: pre), y. split; [|exact Hy]. cbn [app]. f_equal. exact Ey.
  - assert (Hr : forall y, In y r -> is_clear_step y = false).
    { intros y Hy. destruct (is_clear_step y) eqn:E; [|reflexivity].
      assert (existsb is_clear_step r = true) by (apply existsb_exists; eauto). congruence. }
    destruct (is_clear_step x) eqn:Ecx.
    + split; [exact Hr|]. right. exists [], x. split; [reflexivity|exact Ecx].
    + split; [|left; reflexivity]. intros y [<-|Hy]; [exact Ecx|exact (Hr y Hy)].
Qed.

Theorem c02_fresh_proof : c02_fresh.
Proof.
  intros ops Hok. destruct (erun ents_empty ops) as [ef tr] eqn:Er. intros Hnw. cbv zeta.
  intros pre e o e' hs post h Etr Hh Hns.
  destruct (erun_chain op_ok _ _ _ _ Hok Er) as (Hc & _).
  pose proof (chain_strengthen _ _ _ _ Hc (no_wrap_ops tr Hnw)) as Hc'.
  destruct (since_clear_spec tr) as (Hncl & Hsc).
  assert (Hc2 : chain (fun o => op_ok o /\ nowrap_op o) ents_empty (since_clear tr)).
  { destruct Hsc as [->|(p & x & Ep & Hx)]; [exact Hc'|].
    rewrite Ep in Hc'. apply chain_app in Hc'. destruct Hc' as (_ & Hc').
    destruct x as [[[a o'] b] hs']. cbn [chain] in Hc'. destruct Hc' as (_ & _ & Hs & Hc').
    unfold is_clear_step in Hx. cbn [fst snd] in Hx. destruct o'; try discriminate.
    cbn [estep ents_clear] in Hs. injection Hs as <- _. exact Hc'. }
  assert (Hc3 : chain fP ents_empty (since_clear tr)).
  { apply chain_strengthen; [exact Hc2|]. intros x Hx. specialize (Hncl x Hx).
    unfold is_clear_step in Hncl. destruct (snd (fst (fst x))); try exact Logic.I. discriminate. }
  rewrite Etr in Hc3. apply chain_app in Hc3. destruct Hc3 as (Hp & Hq).
  cbn [chain] in Hq. destruct Hq as (Ee & Hfp & Hs & _).
  assert (I : EInv e).
  { rewrite Ee. apply chain_EInv; [exact EInv_empty|]. eapply chain_weaken; [|exact Hp]. exact fP_ok. }
  pose proof (GInv_chain ents_empty pre Hp EInv_empty) as G. rewrite <- Ee in G.
  destruct (gstep_new e o e' hs I (fP_ok o Hfp) Hs) as (Hnd & Hnew).
  split; [|eapply NoDup_map_proj; exact Hnd].
  intros Hin. destruct (G h Hin Hns) as (G1 & G2). destruct (Hnew h Hh) as (N1 & N2 & _).
  exact (N2 (G2 N1)).
Qed.

Print Assumptions c02_unique_ids_proof.
Print Assumptions c02_len_proof.
Print Assumptions c02_fresh_proof.
Print Assumptions c02_dead_forever_proof.
Print Assumptions c07_reserve_proof.
Print Assumptions c16_reserved_uniform_proof.
Print Assumptions c16_must_flush_proof.
