(* Refinement proofs, part 2: spawn, spawn_at, spawn_column_batch *)
From Coq Require Import List NArith ZArith Bool Lia ZifyBool ZifyNat ZifyN Permutation.
From HecsV Require Import Base.ListN Base.ListNFacts Model.EntityBits Model.Types Model.Entities Model.World
  Proofs.MergeSpec Proofs.WorldSpec Proofs.MergeProofs Base.ListNMore Proofs.ListNMore Proofs.WorldLemmas.
Import ListNotations.
Open Scope N_scope.

(* ------------------------------------------------------------------------------------------ *)
(** * bundles without repeated types: first and last binding agree *)

Lemma lookup_last_None t items : lookup_last t items = None <-> ~ In t (map fst items).
Proof.
  induction items as [|[t' v] r IH]; cbn [lookup_last map fst In]; [tauto|].
  destruct (lookup_last t r) as [v'|] eqn:E.
  - split; [discriminate|]. intros H. exfalso. apply H. right.
    destruct (in_dec N.eq_dec t (map fst r)) as [Hi|Hn]; [exact Hi|]. apply IH in Hn. discriminate.
  - destruct (N.eqb_spec t t') as [->|Hne].
    + split; [discriminate|]. intros H. exfalso. apply H. left. reflexivity.
    + split; [|reflexivity]. intros _ [Hc|Hc]; [congruence|]. apply IH in Hc; [exact Hc|reflexivity].
Qed.

Lemma lookup_first_None t (items : list (tid * val)) : lookup_first t items = None <-> ~ In t (map fst items).
Proof. rewrite lookup_first_mem. apply memN_false. Qed.

Lemma lookup_last_first_nodup t items :
  NoDup (map fst items) -> lookup_last t items = lookup_first t items.
Proof.
  induction items as [|[t' v] r IH]; cbn [lookup_last lookup_first map fst]; [reflexivity|].
  intros Hnd. inversion Hnd as [|x l Hx Hnd']; subst. rewrite (IH Hnd').
  destruct (N.eqb_spec t t') as [->|Hne].
  - apply lookup_first_None in Hx. rewrite Hx. reflexivity.
  - destruct (lookup_first t r); reflexivity.
Qed.

Lemma mk_row_bundle_lookup u b vals t :
  NoDup (b_types b) -> mk_row (tsort u (b_types b)) (b_items b) = Some vals ->
  lookup_first t vals = lookup_first t (b_items b).
Proof.
  intros Hnd Hmk. rewrite (mk_row_lookup _ _ _ t Hmk). unfold b_types in *.
  rewrite (lookup_last_first_nodup _ _ Hnd).
  destruct (memN t (tsort u (map fst (b_items b)))) eqn:Em; [reflexivity|].
  symmetry. apply lookup_first_None. apply memN_false in Em. intros Hi. apply Em.
  eapply Permutation_in; [apply Permutation_sym, tsort_perm|exact Hi].
Qed.

(* ------------------------------------------------------------------------------------------ *)
(** * spawn_inner fills the hole [e_id h] *)

Lemma spawn_inner_unfold u w h b w' :
  spawn_inner u w h b = Done w' ->
  exists w1 aid w2 i, bundle_archetype u w b = Done (w1, aid) /\
    put_row w1 aid (e_id h) (b_items b) = Done (w2, i) /\
    w' = with_ents w2 (set_loc (w_ents w2) (e_id h) {| l_arch := aid; l_idx := i |}).
Proof.
  unfold spawn_inner. destruct (bundle_archetype u w b) as [[w1 aid]|c]; [|discriminate]. cbn [bind].
  destruct (put_row w1 aid (e_id h) (b_items b)) as [[w2 i]|c] eqn:Hp; [|discriminate]. cbn [bind].
  intros [= <-]. exists w1, aid, w2, i. repeat split; [exact Hp].
Qed.

Lemma spawn_inner_spec u w h b w' :
  bundle_ok b -> WInvP [e_id h] None u w -> lenN (meta (w_ents w)) <= SENT ->
  gen_of (w_ents w) (e_id h) = e_gen h ->
  spawn_inner u w h b = Done w' ->
  WInvP [] None u w' /\
  pending (w_ents w') = pending (w_ents w) /\ cursor (w_ents w') = cursor (w_ents w) /\
  lenN (meta (w_ents w')) = lenN (meta (w_ents w)) /\
  (exists l, abs w' h = Some l /\ forall t, lookup_first t l = lookup_first t (b_items b)) /\
  (forall h', e_id h' <> e_id h -> abs w' h' = abs w h') /\
  (forall h', e_id h' = e_id h -> h' <> h -> abs w' h' = None).
Proof.
  intros (Hnd & Hk) P Hb Hgen H.
  apply spawn_inner_unfold in H as (w1 & aid & w2 & i & Hba & Hput & ->).
  destruct (bundle_archetype_spec _ _ _ _ _ _ _ P Hk Hba) as (P1 & He & _ & Habs1 & (a & Ha & Hta) & _).
  assert (Hb1 : lenN (meta (w_ents w1)) <= SENT) by (rewrite He; exact Hb).
  destruct (put_row_set_loc_spec _ _ _ _ _ _ _ _ _ P1 Hput ltac:(discriminate) Hb1)
    as (a' & vals & Ha' & Hmk & Hfill & P2 & Hother & Hself).
  rewrite Ha in Ha'. injection Ha' as <-. rewrite Hta in Hmk.
  destruct (fill_frame w1 aid a (e_id h) vals Ha) as (Fp & Fc & _ & Fl & _).
  rewrite Hfill in *. rewrite He in *.
  split; [exact P2|]. split; [exact Fp|]. split; [exact Fc|]. split; [exact Fl|].
  split; [|split].
  - exists vals. split.
    + rewrite (Hself h eq_refl), Hgen, N.eqb_refl. reflexivity.
    + intros t. apply (mk_row_bundle_lookup u b vals t Hnd Hmk).
  - intros h' Hne. rewrite Hother, Habs1; [reflexivity|]. intros [E|[]]. congruence.
  - intros h' Hid Hne. rewrite (Hself h' Hid), Hgen.
    destruct (N.eqb_spec (e_gen h) (e_gen h')) as [E|E]; [|reflexivity].
    exfalso. apply Hne. apply entity_ext; congruence.
Qed.

(* ------------------------------------------------------------------------------------------ *)
(** * spawn *)

Lemma alloc_abs_same_id u w e h h' :
  WInvP [] None u w -> flushed w -> alloc (w_ents w) = Done (e, h) -> e_id h' = e_id h -> abs w h' = None.
Proof.
  intros P Hf H Hid. rewrite (abs_flushed _ _ Hf). unfold flushed in Hf. unfold alloc in H. rewrite Hf in H.
  destruct (lastN (pending (w_ents w))) as [id|] eqn:El.
  - injection H as <- <-. cbn [e_id] in Hid.
    apply lastN_removelastN in El.
    assert (Hin : In id (pending (w_ents w))) by (rewrite El; apply in_or_app; right; left; reflexivity).
    pose proof (wp_pending_lt _ _ _ _ P _ Hin) as Hlt.
    destruct (nthN_lt_Some _ _ Hlt) as (m & Hm).
    destruct (wp_loc _ _ _ _ P _ _ Hm) as [(_ & E)|(Hc & _)]; [intros []| |contradiction].
    unfold get_mut. rewrite Hid, Hm, E. cbn [EMPTY_LOC l_idx]. rewrite N.eqb_refl, andb_false_r. reflexivity.
  - destruct (N.leb_spec W32 (lenN (meta (w_ents w)))) as [Hw|Hw]; [discriminate|].
    injection H as <- <-. cbn [e_id] in Hid. unfold get_mut. rewrite Hid, nthN_ge_None by lia. reflexivity.
Qed.

Lemma w_spawn_unfold u w b w' h :
  w_spawn u w b = Done (w', h) ->
  exists w0 e, w_flush w = Done w0 /\ alloc (w_ents w0) = Done (e, h) /\
    spawn_inner u (with_ents w0 e) h b = Done w'.
Proof.
  unfold w_spawn. destruct (w_flush w) as [w0|c]; [|discriminate]. cbn [bind].
  destruct (alloc (w_ents w0)) as [[e h0]|c] eqn:Ha; [|discriminate]. cbn [bind].
  destruct (spawn_inner u (with_ents w0 e) h0 b) as [w1|c] eqn:Hs; [|discriminate]. cbn [bind].
  intros [= <- <-]. exists w0, e. split; [reflexivity|]. split; [exact Ha|exact Hs].
Qed.

Theorem spawn_refines_proof : spawn_refines_stmt.
Proof.
  intros u w b w' h _ I F Hok H _.
  apply w_spawn_unfold in H as (w0 & e & Hfl & Hal & Hsp).
  destruct (w_flush_spec _ _ _ I F Hfl) as (P0 & Hf0 & F0 & Habs0 & _).
  pose proof (fits_meta_lt _ F0) as Hlt0.
  destruct (alloc_inv _ _ _ _ P0 Hf0 Hlt0 Hal) as (P1 & Hnf & Hgen & Hv & Hnone & Hoth & Hlen & _).
  assert (Hb : lenN (meta (w_ents (with_ents w0 e))) <= SENT) by (cbn [with_ents w_ents]; lia).
  destruct (spawn_inner_spec _ _ _ _ _ Hok P1 Hb Hgen Hsp) as (P2 & Fp & Fc & _ & Hnew & Hother & Hsame).
  split; [apply WInvP_WInv; exact P2|]. split; [|split; [|split; [exact Hv|split; [exact Hnew|]]]].
  - unfold flushed, needs_flush in *. rewrite Fp, Fc. exact Hnf.
  - rewrite <- Habs0. exact Hnone.
  - intros h' Hne. rewrite <- Habs0. destruct (N.eq_dec (e_id h') (e_id h)) as [E|E].
    + rewrite (Hsame h' E Hne). symmetry. apply (alloc_abs_same_id _ _ _ _ _ P0 Hf0 Hal E).
    + rewrite (Hother h' E). apply Hoth. exact E.
Qed.

(* ------------------------------------------------------------------------------------------ *)
(** * spawn with a repeated component type *)

Lemma alloc_ok e : needs_flush e = false -> lenN (meta e) < W32 -> exists e' h, alloc e = Done (e', h).
Proof.
  intros Hf Hl. unfold alloc. rewrite Hf. destruct (lastN (pending e)) as [id|]; [eauto|].
  destruct (N.leb_spec W32 (lenN (meta e))); [lia|eauto].
Qed.

Lemma total_inj_rank_inj u l : total_inj u -> rank_inj u l.
Proof. intros T a b _ _ E. apply T. exact E. Qed.

Lemma bundle_archetype_dup u w b :
  total_inj u -> WStatic u w -> ~ NoDup (b_types b) -> (forall k, b_key b = Some k -> tl k = b_types b) ->
  bundle_archetype u w b = Panic P_DUP.
Proof.
  intros T S Hnd Hk.
  assert (Hdup : assert_type_info u (tsort u (b_types b)) = 1).
  { apply dup_detected_stmt_proof; [apply total_inj_rank_inj; exact T|exact Hnd]. }
  assert (Hget : archs_get u w (tsort u (b_types b)) (tsort u (b_types b)) = Panic P_DUP).
  { unfold archs_get. destruct (assoc_list (tsort u (b_types b)) (w_index w)) as [i|] eqn:Ei.
    - exfalso. pose proof (ws_index_inv _ _ _ _ _ _ S _ _ Ei) as Hn.
      pose proof (ws_sorted _ _ _ _ _ _ S _ (nthN_In _ _ _ Hn)) as Hs. rewrite Hs in Hdup. discriminate.
    - rewrite Hdup. reflexivity. }
  unfold bundle_archetype. destruct (b_key b) as [k|] eqn:Ek; [|exact Hget].
  specialize (Hk k eq_refl). assert (Hk' : @tl tid k = b_types b) by exact Hk.
  destruct (assoc_list k (w_b2a w)) as [a|] eqn:Ea.
  - exfalso. destruct (ws_b2a _ _ _ _ _ _ S _ _ Ea) as (H1 & _). rewrite ?Hk, ?Hk' in H1.
    rewrite H1 in Hdup. discriminate.
  - rewrite Hget. reflexivity.
Qed.

Theorem spawn_dup_panics_proof : spawn_dup_panics_stmt.
Proof.
  intros u w b T I F Hnd Hk.
  destruct (w_flush_ok _ _ I) as (w0 & Hfl).
  destruct (w_flush_spec _ _ _ I F Hfl) as (P0 & Hf0 & F0 & _).
  pose proof (fits_meta_lt _ F0) as Hlt0.
  destruct (alloc_ok (w_ents w0) Hf0) as (e & h & Hal); [unfold SENT, W32 in *; lia|].
  unfold w_spawn. rewrite Hfl. cbn [bind]. rewrite Hal. cbn [bind].
  unfold spawn_inner. rewrite (bundle_archetype_dup u (with_ents w0 e) b T); try assumption.
  - reflexivity.
  - apply WStatic_with_ents. apply (wp_static _ _ _ _ P0).
Qed.

(* ------------------------------------------------------------------------------------------ *)
(** * alloc_at *)

Definition set_meta (e : entities) (id : N) (m' : emeta) : entities :=
  {| meta := updN (meta e) id m'; pending := pending e; cursor := cursor e; elen := elen e |}.

Lemma set_loc_as_set_meta e id l m :
  nthN (meta e) id = Some m -> set_loc e id l = set_meta e id {| m_gen := m_gen m; m_loc := l |}.
Proof. intros H. unfold set_loc, set_meta. rewrite H. reflexivity. Qed.

(* the meta entry of a hole is irrelevant (apart from the generation range) *)
Lemma WInvP_set_hole holes dang u w id m' :
  WInvP holes dang u w -> In id holes -> 0 < m_gen m' < W32 ->
  WInvP holes dang u (with_ents w (set_meta (w_ents w) id m')).
Proof.
  intros P Hin Hg. destruct P.
  constructor; cbn [with_ents w_ents w_archs set_meta meta pending cursor elen]; rewrite ?lenN_updN; try assumption.
  - intros m Hm. apply In_updN in Hm as [->|Hm]; [exact Hg|auto].
  - intros id0 m Hm Hh. rewrite nthN_updN_ne in Hm by (intros ->; contradiction).
    destruct (wp_loc id0 m Hm Hh) as [H|H]; [left; exact H|right; exact H].
  - intros l r Hr Hd. rewrite row_at_with_ents in Hr. destruct (wp_row l r Hr Hd) as (Hnh & m & Hm & Hl).
    split; [exact Hnh|]. exists m. split; [|exact Hl]. rewrite nthN_updN_ne; [exact Hm|]. intros ->. contradiction.
Qed.

Definition alloc_at1 (e : entities) (id : N) : entities * option loc :=
  let mlen := lenN (meta e) in
  if N.leb mlen id then
    let p := pending e ++ seqN mlen (id - mlen) in
    ({| meta := meta e ++ repeatN EMPTY_META (id + 1 - mlen); pending := p;
        cursor := Z.of_N (lenN p); elen := elen e + 1 |}, None)
  else match positionN id (pending e) with
       | Some i =>
           let p := swap_removeN (pending e) i in
           ({| meta := meta e; pending := p; cursor := Z.of_N (lenN p); elen := elen e + 1 |}, None)
       | None =>
           let old := match nthN (meta e) id with Some m => m_loc m | None => EMPTY_LOC end in
           (set_loc e id EMPTY_LOC, Some old)
       end.

Lemma alloc_at_eq e h :
  alloc_at e h =
  if needs_flush e then Panic P_FLUSH else
  let '(e1, l) := alloc_at1 e (e_id h) in
  match nthN (meta e1) (e_id h) with
  | Some m => Done (set_meta e1 (e_id h) {| m_gen := e_gen h; m_loc := m_loc m |}, l)
  | None => Panic P_BOUNDS
  end.
Proof. reflexivity. Qed.

Lemma get_mut_sent e h m : nthN (meta e) (e_id h) = Some m -> l_idx (m_loc m) = SENT -> get_mut e h = None.
Proof. intros Hm Hs. unfold get_mut. rewrite Hm, Hs, N.eqb_refl, andb_false_r. reflexivity. Qed.

Lemma get_mut_nometa e h : nthN (meta e) (e_id h) = None -> get_mut e h = None.
Proof. intros Hm. unfold get_mut. rewrite Hm. reflexivity. Qed.

Lemma alloc_at1_inv u w id e1 ol :
  WInvP [] None u w -> flushed w -> alloc_at1 (w_ents w) id = (e1, ol) ->
  WInvP [id] ol u (with_ents w e1) /\ needs_flush e1 = false /\
  (exists m1, nthN (meta e1) id = Some m1) /\
  (forall h', e_id h' <> id -> get_mut e1 h' = get_mut (w_ents w) h') /\
  match ol with
  | None => forall h', e_id h' = id -> get_mut (w_ents w) h' = None
  | Some l => exists m r, nthN (meta (w_ents w)) id = Some m /\ l = m_loc m /\ l_idx l <> SENT /\
                          row_at w l = Some r /\ r_id r = id
  end.
Proof.
  intros P Hf H. unfold alloc_at1 in H. set (e0 := w_ents w) in *. set (mlen := lenN (meta e0)) in *.
  destruct (N.leb_spec mlen id) as [Hge|Hlt].
  - (* beyond the table *)
    injection H as <- <-.
    set (p := pending e0 ++ seqN mlen (id - mlen)).
    assert (Hlen : lenN (meta e0 ++ repeatN EMPTY_META (id + 1 - mlen)) = id + 1).
    { rewrite lenN_app, lenN_repeatN. fold mlen. lia. }
    assert (Hpl : forall x, In x (pending e0) -> x < mlen) by (apply (wp_pending_lt _ _ _ _ P)).
    assert (Hnew : forall j, mlen <= j -> j < id + 1 ->
              nthN (meta e0 ++ repeatN EMPTY_META (id + 1 - mlen)) j = Some EMPTY_META).
    { intros j H1 H2. rewrite nthN_app2 by (fold mlen; lia). apply nthN_repeatN. fold mlen. lia. }
    split; [|split; [|split; [|split]]].
    + constructor; cbn [with_ents w_ents w_archs meta pending cursor elen]; fold p; rewrite ?Hlen.
      * apply NoDup_app_intro; [apply (wp_nodup _ _ _ _ P)|apply NoDup_seqN|].
        intros x H1 H2. apply Hpl in H1. apply In_seqN in H2. lia.
      * intros x Hx. apply in_app_or in Hx as [Hx|Hx]; [apply Hpl in Hx; lia|apply In_seqN in Hx; lia].
      * lia.
      * intros m Hm. apply in_app_or in Hm as [Hm|Hm]; [apply (wp_gen _ _ _ _ P _ Hm)|].
        apply In_repeatN in Hm. subst m. cbn [EMPTY_META m_gen]. unfold W32. lia.
      * repeat constructor. intros [].
      * intros x [<-|[]]. split; [lia|]. intros Hx.
        apply in_app_or in Hx as [Hx|Hx]; [apply Hpl in Hx; lia|apply In_seqN in Hx; lia].
      * intros id0 m Hm Hh. assert (Hne : id0 <> id) by (intros ->; apply Hh; left; reflexivity).
        pose proof (nthN_Some_lt _ _ _ Hm) as Hl0. rewrite Hlen in Hl0.
        destruct (N.lt_ge_cases id0 mlen) as [Hlt0|Hge0].
        -- rewrite nthN_app1 in Hm by exact Hlt0.
           destruct (wp_loc _ _ _ _ P _ _ Hm ltac:(intros [])) as [(H1 & H2)|(H1 & H2 & H3 & H4)].
           ++ left. split; [apply in_or_app; left; exact H1|exact H2].
           ++ right. split; [|split; [exact H2|split; [discriminate|exact H4]]].
              intros Hx. apply in_app_or in Hx as [Hx|Hx]; [contradiction|apply In_seqN in Hx; lia].
        -- rewrite Hnew in Hm by lia. injection Hm as <-. left. split; [|reflexivity].
           apply in_or_app. right. apply In_seqN. lia.
      * intros l r Hr Hd. rewrite row_at_with_ents in Hr.
        destruct (wp_row _ _ _ _ P _ _ Hr Hd) as (_ & m & Hm & Hl). fold e0 in Hm.
        pose proof (nthN_Some_lt _ _ _ Hm) as Hl0. fold mlen in Hl0. split.
        -- intros [E|[]]. lia.
        -- exists m. split; [|exact Hl]. rewrite nthN_app1; [exact Hm|exact Hl0].
      * discriminate.
      * pose proof (wp_len _ _ _ _ P) as Hl. fold e0 in Hl. cbn [dang_n lenN] in *. unfold rows_total in *.
        cbn [with_ents w_archs]. lia.
      * apply (wp_rowtypes _ _ _ _ P).
      * apply (wp_rows_lt _ _ _ _ P).
      * apply (wp_static _ _ _ _ P).
    + unfold needs_flush. cbn [cursor pending]. rewrite Z.eqb_refl. reflexivity.
    + cbn [meta]. exists EMPTY_META. apply Hnew; lia.
    + intros h' Hne. cbn [meta]. destruct (N.lt_ge_cases (e_id h') mlen) as [Hlt0|Hge0].
      * apply get_mut_frame. cbn [meta]. apply nthN_app1. exact Hlt0.
      * rewrite (get_mut_nometa e0 h') by (apply nthN_ge_None; exact Hge0).
        destruct (N.lt_ge_cases (e_id h') (id + 1)) as [Hlt1|Hge1].
        -- apply (get_mut_sent _ _ EMPTY_META); [cbn [meta]; apply Hnew; lia|reflexivity].
        -- apply get_mut_nometa. cbn [meta]. apply nthN_ge_None. rewrite Hlen. exact Hge1.
    + intros h' Hid. apply get_mut_nometa. apply nthN_ge_None. fold e0 mlen. lia.
  - destruct (positionN id (pending e0)) as [i|] eqn:Epos.
    + (* on the free list *)
      injection H as <- <-. apply positionN_Some in Epos.
      pose proof (nthN_In _ _ _ Epos) as Hin.
      destruct (lastN (pending e0)) as [z|] eqn:Elast; [|apply lastN_None in Elast; rewrite Elast in Hin; destruct Hin].
      destruct (swap_remove_spec _ _ _ _ (wp_nodup _ _ _ _ P) Epos Elast) as (Hnd2 & Hin2 & Hlen2).
      assert (Hsw : swap_removeN (pending e0) i = removelastN (updN (pending e0) i z)).
      { unfold swap_removeN. rewrite Elast. reflexivity. }
      rewrite Hsw. set (p := removelastN (updN (pending e0) i z)) in *.
      destruct (nthN_lt_Some _ _ Hlt) as (m & Hm).
      assert (Hloc : m_loc m = EMPTY_LOC).
      { destruct (wp_loc _ _ _ _ P _ _ Hm) as [(_ & E)|(Hc & _)]; [intros []|exact E|contradiction]. }
      split; [|split; [|split; [|split]]].
      * constructor; cbn [with_ents w_ents w_archs meta pending cursor elen].
        -- exact Hnd2.
        -- intros x Hx. apply Hin2 in Hx as (Hx & _). apply (wp_pending_lt _ _ _ _ P _ Hx).
        -- lia.
        -- apply (wp_gen _ _ _ _ P).
        -- repeat constructor. intros [].
        -- intros x [<-|[]]. split; [exact Hlt|]. intros Hx. apply Hin2 in Hx as (_ & Hx). congruence.
        -- intros id0 m0 Hm0 Hh. assert (Hne : id0 <> id) by (intros ->; apply Hh; left; reflexivity).
           destruct (wp_loc _ _ _ _ P _ _ Hm0 ltac:(intros [])) as [(H1 & H2)|(H1 & H2 & H3 & H4)].
           ++ left. split; [apply Hin2; split; assumption|exact H2].
           ++ right. split; [|split; [exact H2|split; [discriminate|exact H4]]].
              intros Hx. apply Hin2 in Hx as (Hx & _). contradiction.
        -- intros l r Hr Hd. rewrite row_at_with_ents in Hr.
           destruct (WInvP_row_owner _ _ _ _ _ _ P Hr Hd) as (_ & Hnp & _ & Hex). split; [|exact Hex].
           intros [E|[]]. apply Hnp. fold e0. rewrite <- E. exact Hin.
        -- discriminate.
        -- pose proof (wp_len _ _ _ _ P) as Hl. fold e0 in Hl. cbn [dang_n lenN] in *. unfold rows_total in *.
           cbn [with_ents w_archs]. lia.
        -- apply (wp_rowtypes _ _ _ _ P).
        -- apply (wp_rows_lt _ _ _ _ P).
        -- apply (wp_static _ _ _ _ P).
      * unfold needs_flush. cbn [cursor pending]. rewrite Z.eqb_refl. reflexivity.
      * cbn [meta]. eauto.
      * intros h' _. apply get_mut_frame. reflexivity.
      * intros h' Hid. apply (get_mut_sent _ _ m); [rewrite Hid; exact Hm|rewrite Hloc; reflexivity].
    + (* a live entity holds the id *)
      apply positionN_None in Epos. destruct (nthN_lt_Some _ _ Hlt) as (m & Hm). rewrite Hm in H.
      injection H as <- <-.
      destruct (wp_loc _ _ _ _ P _ _ Hm ltac:(intros [])) as [(Hc & _)|(_ & Hs & _ & _)]; [contradiction|].
      destruct (WInvP_open _ _ _ _ P Hm Hs) as (Po & r & Hr & Hrid).
      rewrite (set_loc_as_set_meta _ _ _ _ Hm).
      split; [|split; [|split; [|split]]].
      * apply WInvP_set_hole; [exact Po|left; reflexivity|]. cbn [m_gen]. apply (wp_gen _ _ _ _ P _ (nthN_In _ _ _ Hm)).
      * exact Hf.
      * cbn [set_meta meta]. rewrite nthN_updN_eq by exact Hlt. eauto.
      * intros h' Hne. apply get_mut_frame. cbn [set_meta meta]. apply nthN_updN_ne. congruence.
      * exists m, r. auto.
Qed.

Lemma abs_flushed_get_mut_eq w e h :
  flushed w -> needs_flush e = false -> get_mut e h = get_mut (w_ents w) h -> abs (with_ents w e) h = abs w h.
Proof.
  intros Hf Hf' Hg. apply abs_frame; [|intros; reflexivity]. cbn [with_ents w_ents].
  rewrite (get_eq_get_mut_flushed _ _ Hf'), (get_eq_get_mut_flushed _ _ Hf). exact Hg.
Qed.

Lemma alloc_at_inv u w h e ol :
  WInvP [] None u w -> flushed w -> valid_entity h -> alloc_at (w_ents w) h = Done (e, ol) ->
  WInvP [e_id h] ol u (with_ents w e) /\ needs_flush e = false /\ gen_of e (e_id h) = e_gen h /\
  (forall h', e_id h' <> e_id h -> abs (with_ents w e) h' = abs w h') /\
  match ol with
  | None => forall h', e_id h' = e_id h -> abs w h' = None
  | Some l => exists m r, nthN (meta (w_ents w)) (e_id h) = Some m /\ l = m_loc m /\ l_idx l <> SENT /\
                          row_at w l = Some r /\ r_id r = e_id h
  end.
Proof.
  intros P Hf Hv H. rewrite alloc_at_eq in H. pose proof Hf as Hf'. unfold flushed in Hf'. rewrite Hf' in H.
  destruct (alloc_at1 (w_ents w) (e_id h)) as [e1 l] eqn:H1.
  destruct (alloc_at1_inv _ _ _ _ _ P Hf H1) as (P1 & Hnf & (m1 & Hm1) & Hoth & Hol).
  rewrite Hm1 in H. injection H as <- <-.
  split; [|split; [|split; [|split]]].
  - apply (WInvP_set_hole _ _ _ _ (e_id h) {| m_gen := e_gen h; m_loc := m_loc m1 |} P1); [left; reflexivity|].
    cbn [m_gen]. apply Hv.
  - exact Hnf.
  - unfold gen_of. cbn [set_meta meta]. rewrite nthN_updN_eq; [reflexivity|]. eapply nthN_Some_lt. exact Hm1.
  - intros h' Hne. apply abs_flushed_get_mut_eq; [exact Hf|exact Hnf|]. rewrite <- (Hoth h' Hne).
    apply get_mut_frame. cbn [set_meta meta]. apply nthN_updN_ne. congruence.
  - destruct l as [l|]; [exact Hol|]. intros h' Hid. rewrite (abs_flushed _ _ Hf), (Hol h' Hid). reflexivity.
Qed.

Lemma spawn_inner_len u w h b w' :
  WInvP [e_id h] None u w -> (forall k, b_key b = Some k -> tl k = b_types b) -> spawn_inner u w h b = Done w' ->
  lenN (meta (w_ents w')) = lenN (meta (w_ents w)).
Proof.
  intros P Hk H. apply spawn_inner_unfold in H as (w1 & aid & w2 & i & Hba & Hput & ->).
  destruct (bundle_archetype_spec _ _ _ _ _ _ _ P Hk Hba) as (_ & He & _).
  apply put_row_spec in Hput as (a & vals & _ & _ & _ & _ & _ & -> & _).
  cbn [with_ents w_ents]. rewrite set_loc_lenN_meta, w_ents_upd_arch, He. reflexivity.
Qed.

Lemma w_spawn_at_unfold u w h b w' d :
  w_spawn_at u w h b = Done (w', d) ->
  exists w0 e ol w2, w_flush w = Done w0 /\ alloc_at (w_ents w0) h = Done (e, ol) /\
    match ol with
    | None => w2 = with_ents w0 e /\ d = []
    | Some l => exists r, detach_row (with_ents w0 e) l = Done (w2, r) /\ d = r_vals r
    end /\ spawn_inner u w2 h b = Done w'.
Proof.
  unfold w_spawn_at. destruct (w_flush w) as [w0|c]; [|discriminate]. cbn [bind].
  destruct (alloc_at (w_ents w0) h) as [[e ol]|c] eqn:Ha; [|discriminate]. cbn [bind].
  destruct ol as [l|].
  - destruct (detach_row (with_ents w0 e) l) as [[w2 r]|c] eqn:Hd; [|discriminate]. cbn [bind].
    destruct (spawn_inner u w2 h b) as [w3|c] eqn:Hs; [|discriminate]. cbn [bind].
    intros [= <- <-]. exists w0, e, (Some l), w2. split; [reflexivity|]. split; [exact Ha|].
    split; [|exact Hs]. exists r. split; [exact Hd|reflexivity].
  - cbn [bind]. destruct (spawn_inner u (with_ents w0 e) h b) as [w3|c] eqn:Hs; [|discriminate]. cbn [bind].
    intros [= <- <-]. exists w0, e, None, (with_ents w0 e). split; [reflexivity|]. split; [exact Ha|].
    split; [|exact Hs]. split; reflexivity.
Qed.

Theorem spawn_at_refines_proof : spawn_at_refines_stmt.
Proof.
  intros u w h b w' d _ I F Hok Hv H F'.
  apply w_spawn_at_unfold in H as (w0 & e & ol & w2 & Hfl & Hal & Hmid & Hsp).
  destruct (w_flush_spec _ _ _ I F Hfl) as (P0 & Hf0 & F0 & Habs0 & _).
  destruct (alloc_at_inv _ _ _ _ _ P0 Hf0 Hv Hal) as (P1 & Hnf & Hgen & Hoth & Hol).
  (* the state before spawn_inner, in both cases *)
  assert (Hw2 : WInvP [e_id h] None u w2 /\ needs_flush (w_ents w2) = false /\
                gen_of (w_ents w2) (e_id h) = e_gen h /\
                (forall h', e_id h' <> e_id h -> abs w2 h' = abs w0 h')).
  { destruct ol as [l|].
    - destruct Hmid as (r & Hd & _).
      pose proof (detach_row_inv _ _ _ _ _ _ P1 Hd) as P2.
      destruct (detach_row_ents _ _ _ _ _ _ P1 Hd) as (_ & _ & _ & _ & Hnf2 & Hg2 & _).
      split; [exact P2|]. split; [rewrite Hnf2; exact Hnf|]. split; [rewrite Hg2; exact Hgen|].
      intros h' Hne. rewrite (detach_row_abs _ _ _ _ _ _ h' P1 Hd); [apply Hoth; exact Hne|].
      intros [E|[]]. congruence.
    - destruct Hmid as (-> & _). auto. }
  destruct Hw2 as (P2 & Hnf2 & Hgen2 & Hoth2).
  pose proof (spawn_inner_len _ _ _ _ _ P2 (proj2 Hok) Hsp) as Hlen.
  assert (Hb : lenN (meta (w_ents w2)) <= SENT).
  { rewrite <- Hlen. pose proof (fits_meta_lt _ F'). lia. }
  destruct (spawn_inner_spec _ _ _ _ _ Hok P2 Hb Hgen2 Hsp) as (P3 & Fp & Fc & _ & Hnew & Hother & Hsame).
  split; [apply WInvP_WInv; exact P3|]. split; [|split; [exact Hnew|split; [|split; [exact Hsame|split]]]].
  - unfold flushed, needs_flush in *. rewrite Fp, Fc. exact Hnf2.
  - intros h' Hne. rewrite (Hother h' Hne), (Hoth2 h' Hne). apply Habs0.
  - intros h' Hid l Hl. rewrite <- Habs0 in Hl. destruct ol as [l0|].
    + destruct Hol as (m & r0 & Hm & -> & Hs & Hr0 & _). destruct Hmid as (r & Hd & ->).
      pose proof (detach_row_row _ _ _ _ _ _ P1 Hd) as Hr. rewrite row_at_with_ents, Hr0 in Hr. injection Hr as <-.
      rewrite <- Hid in Hm. rewrite (abs_located _ _ _ Hm Hs), Hr0 in Hl.
      destruct (N.eqb (m_gen m) (e_gen h')); [|discriminate]. cbn [option_map] in Hl. congruence.
    + rewrite (Hol h' Hid) in Hl. discriminate.
  - intros Hnone. destruct ol as [l0|]; [|apply Hmid].
    exfalso. destruct Hol as (m & r0 & Hm & -> & Hs & Hr0 & _).
    specialize (Hnone {| e_id := e_id h; e_gen := m_gen m |} eq_refl). rewrite <- Habs0 in Hnone.
    rewrite (abs_located _ {| e_id := e_id h; e_gen := m_gen m |} _ Hm Hs) in Hnone.
    cbn [e_gen] in Hnone. rewrite N.eqb_refl, Hr0 in Hnone. discriminate.
Qed.

(* ------------------------------------------------------------------------------------------ *)
(** * column batches: set_locs, patch_ids, alloc_many *)

Lemma set_loc_same e id l m : nthN (meta e) id = Some m -> m_loc m = l -> set_loc e id l = e.
Proof.
  intros H Hl. unfold set_loc. rewrite H. destruct e as [mt p c n]. cbn [meta pending cursor elen] in *.
  f_equal. apply updN_same. rewrite H. subst l. rewrite emeta_eta. reflexivity.
Qed.

Lemma set_locs_same arch : forall ids e first,
  (forall i id, nthN ids i = Some id -> exists m, nthN (meta e) id = Some m /\ m_loc m = mkloc arch (first + i)) ->
  set_locs e ids arch first = e.
Proof.
  induction ids as [|id r IH]; intros e first H; cbn [set_locs]; [reflexivity|].
  destruct (H 0 id eq_refl) as (m & Hm & Hl). rewrite N.add_0_r in Hl.
  change {| l_arch := arch; l_idx := first |} with (mkloc arch first).
  rewrite (set_loc_same _ _ _ _ Hm Hl). apply IH. intros i id' Hi.
  destruct (H (N.succ i) id') as (m' & Hm' & Hl'); [rewrite nthN_cons_succ; exact Hi|].
  exists m'. split; [exact Hm'|]. rewrite Hl'. f_equal. lia.
Qed.

Lemma In_meta_set_locs arch : forall ids e first m',
  In m' (meta (set_locs e ids arch first)) -> exists m, In m (meta e) /\ m_gen m' = m_gen m.
Proof.
  induction ids as [|id r IH]; intros e first m' H; cbn [set_locs] in H; [eauto|].
  apply IH in H as (m1 & H1 & E1). apply In_meta_set_loc in H1 as (m & Hm & E). exists m. split; [exact Hm|congruence].
Qed.

Lemma set_locs_spec arch : forall ids e first,
  NoDup ids -> (forall id, In id ids -> id < lenN (meta e)) ->
  pending (set_locs e ids arch first) = pending e /\ cursor (set_locs e ids arch first) = cursor e /\
  elen (set_locs e ids arch first) = elen e /\ lenN (meta (set_locs e ids arch first)) = lenN (meta e) /\
  (forall j, ~ In j ids -> nthN (meta (set_locs e ids arch first)) j = nthN (meta e) j) /\
  (forall i id, nthN ids i = Some id -> exists m0, nthN (meta e) id = Some m0 /\
     nthN (meta (set_locs e ids arch first)) id = Some {| m_gen := m_gen m0; m_loc := mkloc arch (first + i) |}).
Proof.
  induction ids as [|id r IH]; intros e first Hnd Hlt; cbn [set_locs].
  - repeat split; try reflexivity. intros i id H. discriminate.
  - inversion Hnd as [|x l Hnotin Hnd']; subst.
    set (e1 := set_loc e id {| l_arch := arch; l_idx := first |}).
    destruct (IH e1 (N.succ first) Hnd') as (Ip & Ic & Ie & Il & Io & Is).
    { intros id' Hi. unfold e1. rewrite set_loc_lenN_meta. apply Hlt. right. exact Hi. }
    unfold e1 in Ip, Ic, Ie, Il. rewrite set_loc_pending in Ip. rewrite set_loc_cursor in Ic.
    rewrite set_loc_elen in Ie. rewrite set_loc_lenN_meta in Il.
    split; [exact Ip|]. split; [exact Ic|]. split; [exact Ie|]. split; [exact Il|]. split.
    + intros j Hj. rewrite Io by (intros Hc; apply Hj; right; exact Hc).
      unfold e1. apply set_loc_nth_ne. intros ->. apply Hj. left. reflexivity.
    + intros i id' Hi. cbn [nthN] in Hi. destruct (N.eqb_spec i 0) as [->|Hne].
      * injection Hi as <-. destruct (nthN_lt_Some _ _ (Hlt id (or_introl eq_refl))) as (m0 & Hm0).
        exists m0. split; [exact Hm0|]. rewrite (Io id Hnotin). unfold e1. rewrite (set_loc_nth_eq _ _ _ _ Hm0).
        unfold mkloc. rewrite N.add_0_r. reflexivity.
      * destruct (Is _ _ Hi) as (m1 & Hm1 & Hs1).
        assert (Hne' : id' <> id) by (intros ->; apply Hnotin; eapply nthN_In; exact Hi).
        unfold e1 in Hm1. rewrite set_loc_nth_ne in Hm1 by exact Hne'.
        exists m1. split; [exact Hm1|]. rewrite Hs1. do 3 f_equal. lia.
Qed.

Lemma patch_ids_spec : forall ids vals pre,
  lenN ids = lenN vals ->
  patch_ids (pre ++ map (fun v => {| r_id := SENT; r_vals := v |}) vals) (lenN pre) ids = pre ++ zip_rows ids vals.
Proof.
  induction ids as [|id r IH]; intros vals pre Hl.
  - destruct vals as [|v s]; [reflexivity|]. cbn [lenN] in Hl. lia.
  - destruct vals as [|v s]; [cbn [lenN] in Hl; lia|]. cbn [lenN] in Hl. cbn [patch_ids map zip_rows].
    rewrite nthN_app2 by lia. replace (lenN pre - lenN pre) with 0 by lia. cbn [nthN N.eqb r_vals].
    rewrite updN_middle.
    replace (N.succ (lenN pre)) with (lenN (pre ++ [{| r_id := id; r_vals := v |}])) by (rewrite lenN_app; cbn [lenN]; lia).
    change (pre ++ {| r_id := id; r_vals := v |} :: map (fun v0 => {| r_id := SENT; r_vals := v0 |}) s)
      with (pre ++ [{| r_id := id; r_vals := v |}] ++ map (fun v0 => {| r_id := SENT; r_vals := v0 |}) s).
    rewrite app_assoc, IH by lia. rewrite <- app_assoc. reflexivity.
Qed.

Lemma alloc_many_inv u w n arch first e ids :
  WInvP [] None u w -> flushed w -> alloc_many (w_ents w) n arch first = Done (e, ids) ->
  WInvP ids None u (with_ents w e) /\ needs_flush e = false /\ lenN ids = n /\
  (forall i id, nthN ids i = Some id -> exists m, nthN (meta e) id = Some m /\ m_loc m = mkloc arch (first + i)) /\
  (forall h, ~ In (e_id h) ids -> abs (with_ents w e) h = abs w h) /\
  (forall h, In (e_id h) ids -> abs w h = None).
Proof.
  intros P Hf H. pose proof Hf as Hf'. unfold flushed in Hf'. unfold alloc_many in H. rewrite Hf' in H.
  set (e0 := w_ents w) in *. set (mlen := lenN (meta e0)) in *. set (plen := lenN (pending e0)) in *.
  set (fresh := n - plen) in *. set (pe := plen - n) in *.
  destruct (N.leb_spec SENT (mlen + fresh)) as [Hw|Hw]; [discriminate|].
  set (rec := dropN pe (pending e0)) in *.
  set (e1 := set_locs e0 rec arch first) in *.
  set (new_meta := map (fun i => {| m_gen := 1; m_loc := {| l_arch := arch; l_idx := first + lenN rec + i |} |}) (seqN 0 fresh)) in *.
  set (p := takeN pe (pending e0)) in *.
  injection H as <- <-.
  pose proof (wp_nodup _ _ _ _ P) as Hnd. fold e0 in Hnd.
  assert (Hpl : forall x, In x (pending e0) -> x < mlen) by (apply (wp_pending_lt _ _ _ _ P)).
  assert (Hrnd : NoDup rec) by (apply NoDup_dropN; exact Hnd).
  assert (Hrin : forall x, In x rec -> In x (pending e0)) by (intros x; apply In_dropN).
  assert (Hrlt : forall x, In x rec -> x < lenN (meta e0)) by (intros x Hx; apply Hpl, Hrin, Hx).
  assert (Hrlen : lenN rec = plen - pe) by (unfold rec; rewrite lenN_dropN; reflexivity).
  destruct (set_locs_spec arch rec e0 first Hrnd Hrlt) as (Sp & Sc & Se & Sl & So & Ss). fold e1 in Sp, Sc, Se, Sl, So, Ss.
  fold mlen in Sl.
  assert (Hnml : lenN new_meta = fresh) by (unfold new_meta; rewrite lenN_map, lenN_seqN; reflexivity).
  assert (Hlen : lenN (meta e1 ++ new_meta) = mlen + fresh) by (rewrite lenN_app, Sl, Hnml; reflexivity).
  assert (Hpending_empty : forall x m, In x (pending e0) -> nthN (meta e0) x = Some m -> m_loc m = EMPTY_LOC).
  { intros x m Hx Hm. destruct (wp_loc _ _ _ _ P _ _ Hm) as [(_ & E)|(Hc & _)]; [intros []|exact E|contradiction]. }
  assert (Hold : forall j, j < mlen -> ~ In j rec -> nthN (meta e1 ++ new_meta) j = nthN (meta e0) j).
  { intros j Hj Hnr. rewrite nthN_app1 by (rewrite Sl; exact Hj). apply So. exact Hnr. }
  assert (Hids_in : forall x, In x (rec ++ seqN mlen fresh) <-> In x rec \/ (mlen <= x < mlen + fresh)).
  { intros x. rewrite in_app_iff, In_seqN. reflexivity. }
  split; [|split; [|split; [|split; [|split]]]].
  - constructor; cbn [with_ents w_ents w_archs meta pending cursor elen]; rewrite ?Hlen.
    + apply NoDup_takeN. exact Hnd.
    + intros x Hx. apply In_takeN in Hx. apply Hpl in Hx. lia.
    + lia.
    + intros m Hm. apply in_app_or in Hm as [Hm|Hm].
      * apply In_meta_set_locs in Hm as (m0 & Hm0 & ->). apply (wp_gen _ _ _ _ P _ Hm0).
      * unfold new_meta in Hm. apply in_map_iff in Hm as (i & <- & _). cbn [m_gen]. unfold W32. lia.
    + apply NoDup_app_intro; [exact Hrnd|apply NoDup_seqN|].
      intros x H1 H2. apply Hrlt in H1. apply In_seqN in H2. fold mlen in H1. lia.
    + intros x Hx. apply Hids_in in Hx as [Hx|Hx].
      * split; [apply Hrlt in Hx; fold mlen in Hx; lia|]. intros Hc.
        apply (NoDup_takeN_dropN_disj pe (pending e0) x Hnd Hc Hx).
      * split; [lia|]. intros Hc. apply In_takeN in Hc. apply Hpl in Hc. lia.
    + intros id0 m Hm Hh. rewrite Hids_in in Hh.
      pose proof (nthN_Some_lt _ _ _ Hm) as Hl0. rewrite Hlen in Hl0.
      assert (Hlt0 : id0 < mlen) by (destruct (N.lt_ge_cases id0 mlen); [assumption|exfalso; apply Hh; right; lia]).
      rewrite Hold in Hm by tauto.
      destruct (wp_loc _ _ _ _ P _ _ Hm ltac:(intros [])) as [(H1 & H2)|(H1 & H2 & H3 & H4)].
      * left. split; [|exact H2]. fold e0 in H1.
        destruct (In_takeN_or_dropN pe _ _ H1) as [Ht|Hd]; [exact Ht|]. exfalso. apply Hh. left. exact Hd.
      * right. split; [|split; [exact H2|split; [discriminate|exact H4]]].
        intros Hx. apply H1. eapply In_takeN. exact Hx.
    + intros l r Hr Hd. rewrite row_at_with_ents in Hr.
      destruct (WInvP_row_owner _ _ _ _ _ _ P Hr Hd) as (_ & Hnp & _ & m & Hm & Hl). fold e0 in Hm, Hnp.
      pose proof (nthN_Some_lt _ _ _ Hm) as Hl0. fold mlen in Hl0.
      assert (Hnr : ~ In (r_id r) rec) by (intros Hc; apply Hnp, Hrin, Hc).
      split.
      * rewrite Hids_in. intros [Hc|Hc]; [contradiction|lia].
      * exists m. split; [|exact Hl]. rewrite Hold; assumption.
    + discriminate.
    + pose proof (wp_len _ _ _ _ P) as Hl. fold e0 in Hl. cbn [dang_n lenN] in *. unfold rows_total in *.
      cbn [with_ents w_archs]. rewrite lenN_app, lenN_seqN, Hrlen. lia.
    + apply (wp_rowtypes _ _ _ _ P).
    + apply (wp_rows_lt _ _ _ _ P).
    + apply (wp_static _ _ _ _ P).
  - unfold needs_flush. cbn [cursor pending]. rewrite Z.eqb_refl. reflexivity.
  - rewrite lenN_app, lenN_seqN, Hrlen. lia.
  - intros i id Hi. cbn [meta]. destruct (N.lt_ge_cases i (lenN rec)) as [Hlt|Hge].
    + rewrite nthN_app1 in Hi by exact Hlt. destruct (Ss _ _ Hi) as (m0 & Hm0 & Hs).
      eexists. split; [rewrite nthN_app1; [exact Hs|]|reflexivity].
      rewrite Sl. apply Hrlt. eapply nthN_In. exact Hi.
    + rewrite nthN_app2 in Hi by exact Hge.
      pose proof (nthN_Some_lt _ _ _ Hi) as Hk. rewrite lenN_seqN in Hk.
      rewrite nthN_seqN in Hi by exact Hk. injection Hi as <-.
      rewrite nthN_app2 by (rewrite Sl; lia). rewrite Sl. unfold new_meta. rewrite In_map_seqN_nth.
      destruct (N.ltb_spec (mlen + (i - lenN rec) - mlen) fresh) as [_|Hc]; [|lia].
      eexists. split; [reflexivity|]. cbn [m_loc]. unfold mkloc. f_equal. lia.
  - intros h Hh. rewrite Hids_in in Hh. apply abs_flushed_get_mut_eq; [exact Hf| |].
    + unfold needs_flush. cbn [cursor pending]. rewrite Z.eqb_refl. reflexivity.
    + apply get_mut_frame. cbn [meta]. fold e0.
      destruct (N.lt_ge_cases (e_id h) mlen) as [Hlt|Hge]; [apply Hold; tauto|].
      rewrite !nthN_ge_None; [reflexivity|exact Hge|]. rewrite Hlen. lia.
  - intros h Hh. rewrite Hids_in in Hh. rewrite (abs_flushed _ _ Hf). fold e0.
    destruct Hh as [Hh|Hh].
    + destruct (nthN_lt_Some _ _ (Hrlt _ Hh)) as (m & Hm).
      rewrite (get_mut_sent _ _ _ Hm); [reflexivity|]. rewrite (Hpending_empty _ _ (Hrin _ Hh) Hm). reflexivity.
    + rewrite get_mut_nometa; [reflexivity|]. apply nthN_ge_None. fold mlen. lia.
Qed.

(* ---- insert_batch = (maybe add the archetype) then append the rows ---- *)
Lemma insert_batch_spec u w types rows w1 aid base :
  WInvP [] None u w -> assert_type_info u types = 0 -> insert_batch w types rows = Done (w1, aid, base) ->
  exists wA a0, WInvP [] None u wA /\ w_ents wA = w_ents w /\ (forall h, abs wA h = abs w h) /\
    nthN (w_archs wA) aid = Some a0 /\ a_types a0 = types /\ base = lenN (a_rows a0) /\
    w1 = upd_arch wA aid {| a_types := types; a_rows := a_rows a0 ++ rows |}.
Proof.
  intros P Hs H. unfold insert_batch in H.
  destruct (assoc_list types (w_index w)) as [x|] eqn:Ei.
  - destruct (WStatic_index_inv _ _ _ _ (wp_static _ _ _ _ P) Ei) as (a & Ha & Hta).
    unfold get_arch in H. rewrite Ha in H. cbn [bind] in H. injection H as <- <- <-.
    subst types. exists w, a. split; [exact P|]. split; [reflexivity|]. split; [reflexivity|].
    split; [exact Ha|]. split; [reflexivity|]. split; reflexivity.
  - injection H as <- <- <-. exists (add_arch w types), {| a_types := types; a_rows := [] |}.
    split; [apply WInvP_add_arch; assumption|]. split; [reflexivity|].
    split; [intros h; apply abs_frame_rows; [reflexivity|apply row_at_add_arch]|].
    split; [cbn [add_arch w_archs]; apply nthN_snoc_last|]. split; [reflexivity|]. split; [reflexivity|].
    unfold upd_arch, with_archs, add_arch. cbn [w_ents w_archs w_index w_b2a w_ins w_rem a_rows app].
    rewrite updN_middle. reflexivity.
Qed.

(* ---- filling many holes at once ---- *)
Definition fillN (w : world) (ai : N) (a : arch) (ids : list N) (vals : list (list (tid * val))) : world :=
  with_ents (upd_arch w ai {| a_types := a_types a; a_rows := a_rows a ++ zip_rows ids vals |})
            (set_locs (w_ents w) ids ai (lenN (a_rows a))).

Lemma fillN_nil w ai a vals : nthN (w_archs w) ai = Some a -> fillN w ai a [] vals = w.
Proof.
  intros Ha. unfold fillN. cbn [zip_rows set_locs]. rewrite app_nil_r.
  replace {| a_types := a_types a; a_rows := a_rows a |} with a by (destruct a; reflexivity).
  rewrite (upd_arch_same _ _ _ Ha). apply with_ents_same.
Qed.

Lemma fillN_cons w ai a id ids v vals :
  fillN w ai a (id :: ids) (v :: vals) = fillN (fill w ai a id v) ai (fst (arch_push a id v)) ids vals.
Proof.
  unfold fillN, fill, arch_push. cbn [fst a_types a_rows zip_rows set_locs].
  rewrite upd_arch_with_ents, upd_arch_upd_arch, with_ents_with_ents, w_ents_with_ents.
  rewrite <- app_assoc. cbn [app].
  replace (lenN (a_rows a ++ [{| r_id := id; r_vals := v |}])) with (N.succ (lenN (a_rows a)))
    by (rewrite lenN_app; cbn [lenN]; lia).
  reflexivity.
Qed.

Lemma fillN_inv u ai : forall ids vals w a,
  lenN ids = lenN vals -> WInvP ids None u w -> nthN (w_archs w) ai = Some a ->
  (forall v, In v vals -> map fst v = a_types a) -> lenN (meta (w_ents w)) <= SENT ->
  WInvP [] None u (fillN w ai a ids vals) /\
  (forall h, ~ In (e_id h) ids -> abs (fillN w ai a ids vals) h = abs w h) /\
  (forall i id v h, nthN ids i = Some id -> nthN vals i = Some v -> e_id h = id ->
     abs (fillN w ai a ids vals) h = if N.eqb (gen_of (w_ents w) id) (e_gen h) then Some v else None).
Proof.
  induction ids as [|id ids IH]; intros vals w a Hl P Ha Hty Hb.
  - rewrite (fillN_nil _ _ _ _ Ha). split; [exact P|]. split; [reflexivity|]. intros i id v h Hi. discriminate.
  - destruct vals as [|v vals]; [cbn [lenN] in Hl; lia|]. cbn [lenN] in Hl.
    rewrite fillN_cons.
    pose proof (WInvP_count _ _ _ _ _ _ P Ha ltac:(discriminate)) as Hcnt. cbn [lenN] in Hcnt.
    assert (Hn : lenN (a_rows a) < SENT) by lia.
    assert (Htyv : map fst v = a_types a) by (apply Hty; left; reflexivity).
    pose proof (fill_inv _ _ _ _ _ _ _ _ P Ha Htyv Hn) as P1.
    destruct (fill_frame w ai a id v Ha) as (_ & _ & _ & Fl & Fg & _).
    set (w1 := fill w ai a id v) in *. set (a1 := fst (arch_push a id v)).
    assert (Ha1 : nthN (w_archs w1) ai = Some a1).
    { unfold w1, fill. rewrite w_archs_with_ents. apply (nthN_upd_arch_eq _ _ _ _ Ha). }
    assert (Hty1 : forall v0, In v0 vals -> map fst v0 = a_types a1).
    { intros v0 Hv0. unfold a1, arch_push. cbn [fst a_types]. apply Hty. right. exact Hv0. }
    destruct (IH vals w1 a1 ltac:(lia) P1 Ha1 Hty1 ltac:(rewrite Fl; exact Hb)) as (P2 & Hoth & Hself).
    pose proof (wp_holes_nodup _ _ _ _ P) as Hnd. inversion Hnd as [|x l Hnotin Hnd']; subst.
    split; [exact P2|]. split.
    + intros h Hh. rewrite Hoth by (intros Hc; apply Hh; right; exact Hc).
      apply (fill_abs_other _ _ _ _ _ _ _ _ _ P Ha Hh).
    + intros i id' v' h Hi Hv Hid. cbn [nthN] in Hi, Hv. destruct (N.eqb_spec i 0) as [->|Hne].
      * injection Hi as <-. injection Hv as <-. rewrite Hoth by (rewrite Hid; exact Hnotin).
        apply (fill_abs_self _ _ _ _ _ _ _ _ _ P Ha Hn Hid).
      * rewrite (Hself _ _ _ _ Hi Hv Hid). unfold w1. rewrite Fg. reflexivity.
Qed.

(* ------------------------------------------------------------------------------------------ *)
(** * spawn_column_batch *)

Lemma w_spawn_column_batch_unfold w types vals w' hs :
  w_spawn_column_batch w types vals = Done (w', hs) ->
  exists w0 w1 aid base e ids a, w_flush w = Done w0 /\
    insert_batch w0 types (map (fun v => {| r_id := SENT; r_vals := v |}) vals) = Done (w1, aid, base) /\
    alloc_many (w_ents w1) (lenN vals) aid base = Done (e, ids) /\
    nthN (w_archs w1) aid = Some a /\
    w' = with_ents (upd_arch w1 aid {| a_types := a_types a; a_rows := patch_ids (a_rows a) base ids |}) e /\
    hs = map (resolve_unknown_gen e) ids.
Proof.
  unfold w_spawn_column_batch. destruct (w_flush w) as [w0|c]; [|discriminate]. cbn [bind].
  destruct (insert_batch w0 types _) as [[[w1 aid] base]|c] eqn:Hi; [|discriminate]. cbn [bind].
  destruct (alloc_many (w_ents w1) (lenN vals) aid base) as [[e ids]|c] eqn:Ha; [|discriminate]. cbn [bind].
  unfold get_arch. destruct (nthN (w_archs w1) aid) as [a|] eqn:Hn; [|discriminate]. cbn [bind].
  intros [= <- <-]. exists w0, w1, aid, base, e, ids, a. repeat split; assumption.
Qed.

Theorem column_batch_refines_proof : column_batch_refines_stmt.
Proof.
  intros u w types vals w' hs _ I F Hs Hty H F'.
  apply w_spawn_column_batch_unfold in H as (w0 & w1 & aid & base & e & ids & a & Hfl & Hib & Ham & Ha & -> & ->).
  destruct (w_flush_spec _ _ _ I F Hfl) as (P0 & Hf0 & F0 & Habs0 & _).
  destruct (insert_batch_spec _ _ _ _ _ _ _ P0 Hs Hib) as (wA & a0 & PA & HeA & HabsA & Ha0 & Hta0 & -> & ->).
  rewrite w_ents_upd_arch in Ham.
  assert (HfA : flushed wA) by (unfold flushed; rewrite HeA; exact Hf0).
  destruct (alloc_many_inv _ _ _ _ _ _ _ PA HfA Ham) as (PB & Hnf & Hlen & Hlocs & Hoth & Hnone).
  rewrite (nthN_upd_arch_eq _ _ _ _ Ha0) in Ha. injection Ha as <-. cbn [a_types a_rows].
  rewrite patch_ids_spec by exact Hlen. rewrite upd_arch_upd_arch.
  set (w' := with_ents (upd_arch wA aid {| a_types := types; a_rows := a_rows a0 ++ zip_rows ids vals |}) e) in *.
  assert (Hw' : w' = fillN (with_ents wA e) aid a0 ids vals).
  { unfold fillN. rewrite w_ents_with_ents, (set_locs_same aid ids e (lenN (a_rows a0)) Hlocs).
    rewrite upd_arch_with_ents, with_ents_with_ents, Hta0. reflexivity. }
  assert (Hb : lenN (meta (w_ents (with_ents wA e))) <= SENT).
  { pose proof (fits_meta_lt _ F') as Hm. unfold w' in Hm. cbn [with_ents w_ents] in *. lia. }
  destruct (fillN_inv u aid ids vals (with_ents wA e) a0 Hlen PB Ha0 ltac:(rewrite Hta0; exact Hty) Hb)
    as (P2 & Hother & Hself).
  rewrite <- Hw' in P2, Hother, Hself. rewrite w_ents_with_ents in Hself.
  assert (Hhs : forall h, In h (map (resolve_unknown_gen e) ids) <-> In (e_id h) ids /\ e_gen h = gen_of e (e_id h)).
  { intros h. rewrite in_map_iff. split.
    - intros (id & <- & Hid). cbn [resolve_unknown_gen e_id e_gen]. auto.
    - intros (Hid & Hg). exists (e_id h). split; [|exact Hid]. apply entity_ext; [reflexivity|symmetry; exact Hg]. }
  split; [apply WInvP_WInv; exact P2|]. split; [exact Hnf|]. split; [|split; [|split]].
  - apply NoDup_map_inj; [|apply (wp_holes_nodup _ _ _ _ PB)].
    intros x y _ _ E. apply (f_equal e_id) in E. exact E.
  - rewrite lenN_map. exact Hlen.
  - intros i h v Hi Hv. rewrite nthN_map in Hi. destruct (nthN ids i) as [id|] eqn:Eid; [|discriminate].
    injection Hi as <-. split.
    + rewrite <- Habs0, <- HabsA. apply Hnone. cbn [resolve_unknown_gen e_id]. eapply nthN_In. exact Eid.
    + rewrite (Hself _ _ _ (resolve_unknown_gen e id) Eid Hv eq_refl). cbn [resolve_unknown_gen e_gen]. rewrite N.eqb_refl. reflexivity.
  - intros h' Hnin. rewrite Hhs in Hnin. rewrite <- Habs0, <- HabsA.
    destruct (in_dec N.eq_dec (e_id h') ids) as [Hin|Hni].
    + rewrite (Hnone h' Hin). apply In_nthN in Hin as (i & Hi).
      assert (Hiv : i < lenN vals) by (rewrite <- Hlen; eapply nthN_Some_lt; exact Hi).
      destruct (nthN_lt_Some _ _ Hiv) as (v & Hv).
      rewrite (Hself _ _ _ h' Hi Hv eq_refl).
      destruct (N.eqb_spec (gen_of e (e_id h')) (e_gen h')) as [E|E]; [|reflexivity].
      exfalso. apply Hnin. split; [eapply nthN_In; exact Hi|congruence].
    + rewrite (Hother h' Hni). apply Hoth. exact Hni.
Qed.

Print Assumptions spawn_refines_proof.
Print Assumptions spawn_dup_panics_proof.
Print Assumptions spawn_at_refines_proof.
Print Assumptions column_batch_refines_proof.
