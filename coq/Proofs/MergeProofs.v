(* Proofs of the statements in Proofs/MergeSpec.v: TypeInfo ordering, insertion sort, duplicate
   detection, and the two-pointer merge of ArchetypeSet::get_insert_target. *)
From Coq Require Import List NArith ZArith Bool Lia ZifyBool ZifyNat ZifyN Permutation.
From HecsV Require Import Base.ListN Base.ListNFacts Model.Types Model.Entities Model.World.
From HecsV Require Import Proofs.MergeSpec.
Import ListNotations.
Open Scope N_scope.

(* ------------------------------------------------------------------------------------------ *)
(* tcmp is a total preorder: arithmetic characterisation of its three outcomes                 *)
(* ------------------------------------------------------------------------------------------ *)

Lemma tcmp_Lt u a b :
  tcmp u a b = Lt <->
  (ti_align (info_of u b) < ti_align (info_of u a) \/
   (ti_align (info_of u b) = ti_align (info_of u a) /\
    ti_rank (info_of u a) < ti_rank (info_of u b))).
Proof.
  unfold tcmp.
  destruct (N.compare_spec (ti_align (info_of u b)) (ti_align (info_of u a))) as [H1|H1|H1];
  destruct (N.compare_spec (ti_rank (info_of u a)) (ti_rank (info_of u b))) as [H2|H2|H2];
  split; intros H; try discriminate H; try reflexivity; try (exfalso; lia); lia.
Qed.

Lemma tcmp_Eq u a b :
  tcmp u a b = Eq <->
  (ti_align (info_of u b) = ti_align (info_of u a) /\
   ti_rank (info_of u a) = ti_rank (info_of u b)).
Proof.
  unfold tcmp.
  destruct (N.compare_spec (ti_align (info_of u b)) (ti_align (info_of u a))) as [H1|H1|H1];
  destruct (N.compare_spec (ti_rank (info_of u a)) (ti_rank (info_of u b))) as [H2|H2|H2];
  split; intros H; try discriminate H; try reflexivity; try (exfalso; lia); lia.
Qed.

Lemma tcmp_Gt u a b :
  tcmp u a b = Gt <->
  (ti_align (info_of u a) < ti_align (info_of u b) \/
   (ti_align (info_of u b) = ti_align (info_of u a) /\
    ti_rank (info_of u b) < ti_rank (info_of u a))).
Proof.
  unfold tcmp.
  destruct (N.compare_spec (ti_align (info_of u b)) (ti_align (info_of u a))) as [H1|H1|H1];
  destruct (N.compare_spec (ti_rank (info_of u a)) (ti_rank (info_of u b))) as [H2|H2|H2];
  split; intros H; try discriminate H; try reflexivity; try (exfalso; lia); lia.
Qed.

Definition lt (u : universe) (a b : tid) : Prop := tcmp u a b = Lt.
Definition le (u : universe) (a b : tid) : Prop := tcmp u a b <> Gt.

Lemma tcmp_refl u a : tcmp u a a = Eq.
Proof. apply tcmp_Eq. split; reflexivity. Qed.

Lemma tcmp_antisym u a b : tcmp u b a = CompOpp (tcmp u a b).
Proof.
  destruct (tcmp u a b) eqn:E; cbn [CompOpp].
  - apply tcmp_Eq in E. apply tcmp_Eq. lia.
  - apply tcmp_Lt in E. apply tcmp_Gt. lia.
  - apply tcmp_Gt in E. apply tcmp_Lt. lia.
Qed.

Lemma lt_irrefl u a : ~ lt u a a.
Proof. unfold lt. rewrite tcmp_refl. discriminate. Qed.

Lemma lt_trans u a b c : lt u a b -> lt u b c -> lt u a c.
Proof. unfold lt. rewrite !tcmp_Lt. lia. Qed.

Lemma le_lt_trans u a b c : le u a b -> lt u b c -> lt u a c.
Proof. unfold lt, le. rewrite !tcmp_Lt, tcmp_Gt. lia. Qed.

Lemma lt_le_trans u a b c : lt u a b -> le u b c -> lt u a c.
Proof. unfold lt, le. rewrite !tcmp_Lt, tcmp_Gt. lia. Qed.

Lemma le_trans u a b c : le u a b -> le u b c -> le u a c.
Proof. unfold le. rewrite !tcmp_Gt. lia. Qed.

Lemma le_refl u a : le u a a.
Proof. unfold le. rewrite tcmp_refl. discriminate. Qed.

Lemma lt_le u a b : lt u a b -> le u a b.
Proof. unfold lt, le. intros ->. discriminate. Qed.

Lemma le_total u a b : le u a b \/ le u b a.
Proof. unfold le. rewrite !tcmp_Gt. lia. Qed.

Lemma tle_true u a b : tle u a b = true <-> le u a b.
Proof.
  unfold tle, le. destruct (tcmp u a b); split; intros H; try reflexivity; try discriminate;
  exfalso; apply H; reflexivity.
Qed.

Lemma tle_false u a b : tle u a b = false -> lt u b a.
Proof.
  unfold tle, lt. rewrite (tcmp_antisym u a b). destruct (tcmp u a b); cbn [CompOpp];
  intros H; try discriminate H; reflexivity.
Qed.

Lemma tlt_true u a b : tlt u a b = true <-> lt u a b.
Proof.
  unfold tlt, lt. destruct (tcmp u a b); split; intros H; try reflexivity; discriminate H.
Qed.

(* on the types in play, a non-strict comparison between different types is strict *)
Lemma le_neq_lt u ts a b : rank_inj u ts -> In a ts -> In b ts -> a <> b -> le u a b -> lt u a b.
Proof.
  intros Hr Ha Hb Hne Hle. unfold lt, le in *. destruct (tcmp u a b) eqn:E.
  - exfalso. apply Hne. apply Hr; assumption.
  - reflexivity.
  - exfalso. apply Hle. reflexivity.
Qed.

Lemma rank_inj_incl u l l' : rank_inj u l -> incl l' l -> rank_inj u l'.
Proof. intros Hr Hi a b Ha Hb. apply Hr; apply Hi; assumption. Qed.

(* ------------------------------------------------------------------------------------------ *)
(* sortedness as a predicate                                                                   *)
(* ------------------------------------------------------------------------------------------ *)

Fixpoint ssorted (R : tid -> tid -> Prop) (l : list tid) : Prop :=
  match l with
  | [] => True
  | a :: t => Forall (R a) t /\ ssorted R t
  end.

Lemma ati_unfold u a b t :
  assert_type_info u (a :: b :: t) =
  match tcmp u a b with Lt => assert_type_info u (b :: t) | Eq => 1 | Gt => 2 end.
Proof. reflexivity. Qed.

Lemma ati_cons u l : forall a,
  assert_type_info u (a :: l) = 0 <-> Forall (lt u a) l /\ assert_type_info u l = 0.
Proof.
  induction l as [|b t IH]; intros a.
  - cbn [assert_type_info]. split; [intros _; split; [constructor|reflexivity]|intros _; reflexivity].
  - rewrite ati_unfold. split.
    + intros H. destruct (tcmp u a b) eqn:E; try discriminate H. split; [|exact H].
      constructor; [exact E|]. apply IH in H. destruct H as [Hf _].
      eapply Forall_impl; [|exact Hf]. intros c Hc. eapply lt_trans; [exact E|exact Hc].
    + intros [Hf H]. inversion Hf as [|x y Hab Hf']; subst. unfold lt in Hab. rewrite Hab. exact H.
Qed.

Lemma ati_ssorted u l : assert_type_info u l = 0 <-> ssorted (lt u) l.
Proof.
  induction l as [|a t IH]; cbn [ssorted].
  - split; intros _; [exact I|reflexivity].
  - rewrite ati_cons, IH. reflexivity.
Qed.

Lemma ssorted_app_r R l1 l2 : ssorted R (l1 ++ l2) -> ssorted R l2.
Proof.
  induction l1 as [|a l1 IH]; cbn [app ssorted]; [auto|]. intros [_ H]. apply IH, H.
Qed.

Lemma ssorted_lt_nodup u l : ssorted (lt u) l -> NoDup l.
Proof.
  induction l as [|a t IH]; cbn [ssorted]; intros H; constructor.
  - destruct H as [Hf _]. rewrite Forall_forall in Hf. intros Hin. apply (lt_irrefl u a), Hf, Hin.
  - apply IH, H.
Qed.

(* two strictly sorted lists with the same elements are equal *)
Lemma ssorted_lt_unique u l1 : forall l2,
  ssorted (lt u) l1 -> ssorted (lt u) l2 -> (forall x, In x l1 <-> In x l2) -> l1 = l2.
Proof.
  induction l1 as [|a t1 IH]; intros [|b t2] H1 H2 He.
  - reflexivity.
  - exfalso. destruct (proj2 (He b) (or_introl eq_refl)).
  - exfalso. destruct (proj1 (He a) (or_introl eq_refl)).
  - cbn [ssorted] in H1, H2. destruct H1 as [F1 S1]. destruct H2 as [F2 S2].
    rewrite Forall_forall in F1, F2.
    assert (Hab : a = b).
    { destruct (proj1 (He a) (or_introl eq_refl)) as [Hab|Hab]; [symmetry; exact Hab|].
      destruct (proj2 (He b) (or_introl eq_refl)) as [Hba|Hba]; [exact Hba|].
      exfalso. apply (lt_irrefl u a). eapply lt_trans; [apply F1; exact Hba|apply F2; exact Hab]. }
    subst b. f_equal. apply IH; [exact S1|exact S2|]. intros x; split; intros Hx.
    + destruct (proj1 (He x) (or_intror Hx)) as [Hax|Hx2]; [|exact Hx2].
      subst x. exfalso. apply (lt_irrefl u a), F1, Hx.
    + destruct (proj2 (He x) (or_intror Hx)) as [Hax|Hx2]; [|exact Hx2].
      subst x. exfalso. apply (lt_irrefl u a), F2, Hx.
Qed.

(* a weakly sorted, duplicate-free list of types in play is strictly sorted *)
Lemma lsorted_strict u l : rank_inj u l -> NoDup l -> ssorted (le u) l -> ssorted (lt u) l.
Proof.
  induction l as [|a t IH]; intros Hr Hn Hs; cbn [ssorted] in *; [exact I|].
  destruct Hs as [Hf Hs]. inversion Hn as [|x y Hni Hn']; subst. split.
  - rewrite Forall_forall in *. intros b Hb.
    apply (le_neq_lt u (a :: t)); [exact Hr|left; reflexivity|right; exact Hb| |apply Hf, Hb].
    intros ->. apply Hni, Hb.
  - apply IH; [|exact Hn'|exact Hs]. eapply rank_inj_incl; [exact Hr|]. apply incl_tl, incl_refl.
Qed.

(* a weakly sorted list never reports "unsorted" *)
Lemma lsorted_ati u l : ssorted (le u) l -> assert_type_info u l = 0 \/ assert_type_info u l = 1.
Proof.
  induction l as [|a t IH]; intros H; [left; reflexivity|].
  destruct t as [|b t]; [left; reflexivity|].
  rewrite ati_unfold. cbn [ssorted] in H. destruct H as [Hf Hs].
  inversion Hf as [|x y Hab Hf']; subst. destruct (tcmp u a b) eqn:E.
  - right; reflexivity.
  - apply IH. exact Hs.
  - exfalso. apply Hab. exact E.
Qed.

(* ------------------------------------------------------------------------------------------ *)
(* insertion sort                                                                              *)
(* ------------------------------------------------------------------------------------------ *)

Lemma tsort_cons u a l : tsort u (a :: l) = tinsert u a (tsort u l).
Proof. reflexivity. Qed.

Lemma tinsert_perm u x l : Permutation (tinsert u x l) (x :: l).
Proof.
  induction l as [|y t IH]; cbn [tinsert]; [apply Permutation_refl|].
  destruct (tle u x y); [apply Permutation_refl|].
  eapply perm_trans; [apply perm_skip, IH|apply perm_swap].
Qed.

Lemma tsort_perm u l : Permutation (tsort u l) l.
Proof.
  induction l as [|a t IH]; [apply Permutation_refl|]. rewrite tsort_cons.
  eapply perm_trans; [apply tinsert_perm|apply perm_skip, IH].
Qed.

Lemma tinsert_lsorted u x l : ssorted (le u) l -> ssorted (le u) (tinsert u x l).
Proof.
  induction l as [|y t IH]; cbn [tinsert]; intros H.
  - cbn [ssorted]. split; [constructor|exact I].
  - cbn [ssorted] in H. destruct H as [Hf Hs]. destruct (tle u x y) eqn:E.
    + cbn [ssorted]. split; [|split; assumption]. apply tle_true in E. constructor; [exact E|].
      eapply Forall_impl; [|exact Hf]. intros c Hc. eapply le_trans; [exact E|exact Hc].
    + cbn [ssorted]. split; [|apply IH; exact Hs]. apply tle_false in E.
      rewrite Forall_forall in *. intros c Hc.
      apply (Permutation_in _ (tinsert_perm u x t)) in Hc. destruct Hc as [<-|Hc].
      * apply lt_le, E.
      * apply Hf, Hc.
Qed.

Lemma tsort_lsorted u l : ssorted (le u) (tsort u l).
Proof.
  induction l as [|a t IH]; [exact I|]. rewrite tsort_cons. apply tinsert_lsorted, IH.
Qed.

Lemma incl_perm (l l' : list tid) : Permutation l l' -> incl l l'.
Proof. intros Hp x Hx. eapply Permutation_in; [exact Hp|exact Hx]. Qed.

Theorem tsort_perm_stmt_proof : tsort_perm_stmt.
Proof. intros u l. apply tsort_perm. Qed.

Theorem tsort_sorted_stmt_proof : tsort_sorted_stmt.
Proof.
  intros u l Hr Hn. unfold strictly_sorted. apply ati_ssorted. apply lsorted_strict.
  - eapply rank_inj_incl; [exact Hr|]. apply incl_perm, tsort_perm.
  - eapply Permutation_NoDup; [apply Permutation_sym, tsort_perm|exact Hn].
  - apply tsort_lsorted.
Qed.

Theorem tsort_order_independent_stmt_proof : tsort_order_independent_stmt.
Proof.
  intros u l1 l2 Hr Hn Hp.
  assert (Hr2 : rank_inj u l2).
  { eapply rank_inj_incl; [exact Hr|]. apply incl_perm, Permutation_sym, Hp. }
  assert (Hn2 : NoDup l2) by (eapply Permutation_NoDup; [exact Hp|exact Hn]).
  apply (ssorted_lt_unique u).
  - apply ati_ssorted. apply tsort_sorted_stmt_proof; assumption.
  - apply ati_ssorted. apply tsort_sorted_stmt_proof; assumption.
  - intros x. split; intros Hx.
    + apply (Permutation_in _ (tsort_perm u l1)) in Hx.
      apply (Permutation_in _ Hp) in Hx.
      apply (Permutation_in _ (Permutation_sym (tsort_perm u l2))). exact Hx.
    + apply (Permutation_in _ (tsort_perm u l2)) in Hx.
      apply (Permutation_in _ (Permutation_sym Hp)) in Hx.
      apply (Permutation_in _ (Permutation_sym (tsort_perm u l1))). exact Hx.
Qed.

Theorem tsort_fixpoint_stmt_proof : tsort_fixpoint_stmt.
Proof.
  intros u l. unfold strictly_sorted. induction l as [|a t IH]; intros H; [reflexivity|].
  rewrite tsort_cons. apply ati_cons in H. destruct H as [Hf H]. rewrite (IH H).
  destruct t as [|b t]; [reflexivity|]. cbn [tinsert].
  inversion Hf as [|x y Hab Hf']; subst.
  assert (E : tle u a b = true) by (apply tle_true, lt_le, Hab). rewrite E. reflexivity.
Qed.

Theorem sorted_nodup_stmt_proof : sorted_nodup_stmt.
Proof. intros u l H. apply (ssorted_lt_nodup u). apply ati_ssorted. exact H. Qed.

Theorem dup_detected_stmt_proof : dup_detected_stmt.
Proof.
  intros u l _ Hnd. destruct (lsorted_ati u (tsort u l) (tsort_lsorted u l)) as [H0|H1]; [|exact H1].
  exfalso. apply Hnd. eapply Permutation_NoDup; [apply tsort_perm|].
  apply sorted_nodup_stmt_proof with (u := u). exact H0.
Qed.

(* ------------------------------------------------------------------------------------------ *)
(* the two-pointer merge                                                                       *)
(* ------------------------------------------------------------------------------------------ *)

Lemma mem_tid_true t l : mem_tid t l = true <-> In t l.
Proof. unfold mem_tid. apply memN_In. Qed.

Lemma mem_tid_false t l : mem_tid t l = false <-> ~ In t l.
Proof.
  rewrite <- mem_tid_true. destruct (mem_tid t l); split; intros H; try reflexivity;
  try discriminate H; try (intros H'; discriminate H'). exfalso. apply H. reflexivity.
Qed.

Lemma filter_all_true (l : list tid) : filter (fun _ => true) l = l.
Proof. induction l as [|a t IH]; cbn [filter]; [reflexivity|]. rewrite IH. reflexivity. Qed.

(* one run of the inner `while`: it consumes the maximal prefix [mid] of [rest] that is <= ty,
   pushing all of it except ty itself to [retained] *)
Lemma advance_spec u ty : forall rest retained rest1 retained1,
  advance u rest ty retained = (rest1, retained1) ->
  exists mid,
    rest = mid ++ rest1 /\
    retained1 = retained ++ filter (fun s => negb (N.eqb s ty)) mid /\
    Forall (fun s => le u s ty) mid /\
    match rest1 with [] => True | s :: _ => lt u ty s end.
Proof.
  induction rest as [|s r IH]; intros retained rest1 retained1 H; cbn [advance] in H.
  - injection H as <- <-. exists []. cbn [app filter]. rewrite app_nil_r. repeat split. constructor.
  - destruct (tle u s ty) eqn:E.
    + apply IH in H. destruct H as (mid & Hr & Hret & Hf & Hh). exists (s :: mid).
      cbn [app filter]. split; [rewrite Hr; reflexivity|]. split.
      * rewrite Hret. destruct (N.eqb s ty); cbn [negb]; [reflexivity|].
        rewrite <- app_assoc. reflexivity.
      * split; [|exact Hh]. constructor; [apply tle_true, E|exact Hf].
    + injection H as <- <-. exists []. cbn [app filter]. rewrite app_nil_r.
      repeat split; [constructor|]. apply tle_false, E.
Qed.

Lemma merge_loop_added_replaced u types : forall nt rest added replaced retained rest' a' r' ret',
  merge_loop u types nt rest added replaced retained = (rest', a', r', ret') ->
  r' = replaced ++ filter (fun t => mem_tid t types) nt /\
  a' = added ++ filter (fun t => negb (mem_tid t types)) nt.
Proof.
  induction nt as [|ty nt IH]; intros rest added replaced retained rest' a' r' ret' H;
    cbn [merge_loop] in H.
  - injection H as <- <- <- <-. cbn [filter]. rewrite !app_nil_r. split; reflexivity.
  - destruct (advance u rest ty retained) as [rest1 retained1] eqn:EA.
    cbn [filter]. destruct (mem_tid ty types) eqn:EM; cbn [negb];
      apply IH in H; destruct H as [Hr Ha]; rewrite Hr, Ha; rewrite <- ?app_assoc; split; reflexivity.
Qed.

Lemma merge_loop_retained u types : forall nt rest added replaced retained rest' a' r' ret',
  ssorted (lt u) nt -> ssorted (lt u) rest ->
  merge_loop u types nt rest added replaced retained = (rest', a', r', ret') ->
  ret' ++ rest' = retained ++ filter (fun t => negb (mem_tid t nt)) rest.
Proof.
  induction nt as [|ty nt IH]; intros rest added replaced retained rest' a' r' ret' Hnt Hrest H;
    cbn [merge_loop] in H.
  - injection H as <- <- <- <-. unfold mem_tid. cbn [memN negb]. rewrite filter_all_true. reflexivity.
  - destruct (advance u rest ty retained) as [rest1 retained1] eqn:EA.
    apply advance_spec in EA. destruct EA as (mid & Hr & Hret & Hmid & Hhd). subst rest retained1.
    cbn [ssorted] in Hnt. destruct Hnt as [Hty Hnt]. rewrite Forall_forall in Hty, Hmid.
    pose proof (ssorted_app_r _ _ _ Hrest) as Hrest1.
    assert (Hgt : forall x, In x rest1 -> lt u ty x).
    { destruct rest1 as [|s r]; [intros x []|]. cbn [ssorted] in Hrest1.
      destruct Hrest1 as [Hs _]. rewrite Forall_forall in Hs.
      intros x [<-|Hx]; [exact Hhd|]. eapply lt_trans; [exact Hhd|apply Hs, Hx]. }
    assert (Hgoal : ret' ++ rest' =
                    (retained ++ filter (fun s => negb (N.eqb s ty)) mid) ++
                    filter (fun t => negb (mem_tid t nt)) rest1).
    { destruct (mem_tid ty types); eapply IH; eauto. }
    rewrite Hgoal, filter_app, <- app_assoc. f_equal. f_equal.
    + apply filter_ext_in. intros x Hx. unfold mem_tid. cbn [memN].
      destruct (N.eqb x ty) eqn:Exy; [reflexivity|]. f_equal.
      destruct (memN x nt) eqn:Em; [|reflexivity]. exfalso.
      apply memN_In in Em. apply (lt_irrefl u x).
      eapply le_lt_trans; [apply Hmid, Hx|apply Hty, Em].
    + apply filter_ext_in. intros x Hx. unfold mem_tid. cbn [memN].
      destruct (N.eqb_spec x ty) as [->|Hne]; [|reflexivity].
      exfalso. apply (lt_irrefl u ty), Hgt, Hx.
Qed.

(* equational form of the merge specification *)
Lemma merge_loop_spec u types new_types rest added replaced retained :
  strictly_sorted u types -> strictly_sorted u new_types ->
  merge_loop u types new_types types [] [] [] = (rest, added, replaced, retained) ->
  replaced = filter (fun t => mem_tid t types) new_types /\
  added = filter (fun t => negb (mem_tid t types)) new_types /\
  retained ++ rest = filter (fun t => negb (mem_tid t new_types)) types.
Proof.
  intros Ht Hn E. unfold strictly_sorted in *. apply ati_ssorted in Ht. apply ati_ssorted in Hn.
  pose proof (merge_loop_added_replaced _ _ _ _ _ _ _ _ _ _ _ E) as [Hr Ha].
  pose proof (merge_loop_retained _ _ _ _ _ _ _ _ _ _ _ Hn Ht E) as Hret.
  cbn [app] in *. auto.
Qed.

Theorem merge_spec_stmt_proof : merge_spec_stmt.
Proof.
  intros u types new_types _ Ht Hn.
  destruct (merge_loop u types new_types types [] [] []) as [[[rest added] replaced] retained] eqn:E.
  eapply merge_loop_spec; eauto.
Qed.

Lemma NoDup_app_disj (l1 l2 : list tid) :
  NoDup l1 -> NoDup l2 -> (forall x, In x l1 -> ~ In x l2) -> NoDup (l1 ++ l2).
Proof.
  induction l1 as [|a t IH]; intros H1 H2 Hd; cbn [app]; [exact H2|].
  inversion H1 as [|x y Hni H1']; subst. constructor.
  - rewrite in_app_iff. intros [Hin|Hin]; [exact (Hni Hin)|]. apply (Hd a); [left; reflexivity|exact Hin].
  - apply IH; [exact H1'|exact H2|]. intros x Hx. apply Hd. right. exact Hx.
Qed.

Lemma NoDup_filter_tid (f : tid -> bool) (l : list tid) : NoDup l -> NoDup (filter f l).
Proof.
  induction l as [|a t IH]; intros H; cbn [filter]; [constructor|].
  inversion H as [|x y Hni H']; subst. destruct (f a); [|apply IH, H'].
  constructor; [|apply IH, H']. intros Hin. apply filter_In in Hin. apply Hni, Hin.
Qed.

Theorem insert_target_types_stmt_proof : insert_target_types_stmt.
Proof.
  intros u types new_types Hr Ht Hn.
  destruct (merge_loop u types new_types types [] [] []) as [[[rest added] replaced] retained] eqn:E.
  destruct (merge_loop_spec _ _ _ _ _ _ _ Ht Hn E) as (Hrep & Hadd & Hret).
  cbv zeta. split; [|split; [|split]].
  - apply tsort_sorted_stmt_proof.
    + eapply rank_inj_incl; [exact Hr|]. apply incl_app; [apply incl_appl, incl_refl|].
      apply incl_appr. rewrite Hadd. intros x Hx. apply filter_In in Hx. apply Hx.
    + apply NoDup_app_disj.
      * apply sorted_nodup_stmt_proof with (u := u). exact Ht.
      * rewrite Hadd. apply NoDup_filter_tid. apply sorted_nodup_stmt_proof with (u := u). exact Hn.
      * intros x Hx. rewrite Hadd. rewrite filter_In. intros [_ Hm].
        apply negb_true_iff in Hm. apply mem_tid_false in Hm. exact (Hm Hx).
  - intros t. split.
    + intros Hin. apply (Permutation_in _ (tsort_perm u _)) in Hin. apply in_app_iff in Hin.
      destruct Hin as [Hin|Hin]; [left; exact Hin|]. right. rewrite Hadd in Hin.
      apply filter_In in Hin. apply Hin.
    + intros Hin. apply (Permutation_in _ (Permutation_sym (tsort_perm u _))). apply in_app_iff.
      destruct (mem_tid t types) eqn:Em.
      * left. apply mem_tid_true, Em.
      * destruct Hin as [Hin|Hin]; [left; exact Hin|]. right. rewrite Hadd. apply filter_In.
        split; [exact Hin|]. rewrite Em. reflexivity.
  - intros t. rewrite Hrep, filter_In, mem_tid_true. tauto.
  - intros t. rewrite Hret, filter_In, negb_true_iff, mem_tid_false. tauto.
Qed.

Print Assumptions tsort_sorted_stmt_proof.
Print Assumptions tsort_perm_stmt_proof.
Print Assumptions tsort_order_independent_stmt_proof.
Print Assumptions tsort_fixpoint_stmt_proof.
Print Assumptions dup_detected_stmt_proof.
Print Assumptions sorted_nodup_stmt_proof.
Print Assumptions merge_spec_stmt_proof.
Print Assumptions insert_target_types_stmt_proof.
