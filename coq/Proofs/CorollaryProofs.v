(* Corollaries of the refinement theorems (statements in WorldSpec2.v):
     C09: failed operations have no effect and fail exactly when the map semantics say so;
     C10: the outcome depends on the component set only (field order, key, history).
   Structure:
     1. what flush stores; the error branches return the flushed world
     2. C09
     3. component lists with strictly sorted keys are determined by their lookups
     4. C10 *)
From Coq Require Import List NArith ZArith Bool Lia ZifyBool ZifyNat ZifyN Permutation.
From HecsV Require Import Base.ListN Base.ListNFacts Model.EntityBits Model.Types Model.Entities Model.World
  Proofs.WorldSpec Proofs.MergeSpec Proofs.ListNMore Proofs.MergeProofs Proofs.WorldLemmas
  Proofs.WorldProofs1 Proofs.WorldProofs2 Proofs.WorldProofs3 Proofs.WorldSpec2.
From HecsV Require Proofs.WorldProofs4.
Import ListNotations.
Open Scope N_scope.

(* ------------------------------------------------------------------------------------------ *)
(** * 1. stored values and flush *)

Lemma flush_ids_vals : forall ids e a0 e' a0',
  flush_ids e a0 ids = (e', a0') ->
  concat (map r_vals (a_rows a0')) = concat (map r_vals (a_rows a0)).
Proof.
  induction ids as [|id r IH]; intros e a0 e' a0' H; cbn [flush_ids arch_push] in H.
  - injection H as <- <-. reflexivity.
  - apply IH in H. rewrite H. cbn [a_rows]. rewrite map_app, concat_app.
    cbn [map concat r_vals app]. rewrite app_nil_r. reflexivity.
Qed.

Lemma stored_upd_arch w i a a' :
  nthN (w_archs w) i = Some a ->
  concat (map r_vals (a_rows a')) = concat (map r_vals (a_rows a)) ->
  stored (upd_arch w i a') = stored w.
Proof.
  intros Ha He. unfold stored, upd_arch, with_archs. cbn [w_archs].
  set (f := fun a1 : arch => concat (map r_vals (a_rows a1))).
  assert (Hf : f a' = f a) by exact He.
  rewrite map_updN, Hf, updN_same; [reflexivity|]. rewrite nthN_map, Ha. reflexivity.
Qed.

(* flushing only appends rows without components to archetype 0 (no invariant needed) *)
Lemma stored_flush w w' : w_flush w = Done w' -> stored w' = stored w.
Proof.
  intros H. apply w_flush_unfold in H as (e & ids & a0 & e' & a0' & _ & Ha0 & Hids & ->).
  change (stored (with_ents (upd_arch w 0 a0') e')) with (stored (upd_arch w 0 a0')).
  apply (stored_upd_arch _ _ _ _ Ha0). apply (flush_ids_vals _ _ _ _ _ Hids).
Qed.

Lemma w_insert_err u w h b w' :
  w_insert u w h b = Done (w', WNoSuchEntity) -> w_flush w = Done w'.
Proof.
  unfold w_insert. destruct (w_flush w) as [w0|c]; [|discriminate]. cbn [bind].
  destruct (get (w_ents w0) h) as [l|]; [|intros [= <-]; reflexivity].
  destruct (insert_inner u w0 h b (l_arch l) l) as [[w1 d]|c]; cbn [bind]; discriminate.
Qed.

Lemma w_exchange_err u w h key ts b w' r :
  w_exchange u w h key ts b = Done (w', r) -> r = WNoSuchEntity \/ r = WMissing -> w_flush w = Done w'.
Proof.
  unfold w_exchange. destruct (w_flush w) as [w0|c]; [|discriminate]. cbn [bind].
  destruct (get (w_ents w0) h) as [l|]; [|intros [= <- <-] _; reflexivity].
  destruct (get_row w0 l) as [[sa sr]|c]; [|discriminate]. cbn [bind].
  destruct (dup_check u ts) as [[]|c]; [|discriminate]. cbn [bind].
  destruct (lookup_all ts (r_vals sr)) as [taken|]; [|intros [= <- <-] _; reflexivity].
  destruct (remove_target u w0 (l_arch l) key ts) as [[w1 mid]|c]; [|discriminate]. cbn [bind].
  destruct (insert_inner u w1 h b mid l) as [[w2 d]|c]; [|discriminate]. cbn [bind].
  intros [= <- <-] [E|E]; discriminate.
Qed.

Lemma w_remove_err u w h key ts w' r :
  w_remove u w h key ts = Done (w', r) -> r = WNoSuchEntity \/ r = WMissing -> w_flush w = Done w'.
Proof.
  intros H Hr. apply WorldProofs4.w_remove_unfold in H as (w0 & Hfl & H).
  destruct H as [(_ & -> & _)|(l & sa & sr & _ & _ & _ & [(_ & -> & _)|(taken & w1 & target & _ & _ & -> & _)])];
    [exact Hfl|exact Hfl|]. destruct Hr; discriminate.
Qed.

(* all requested components were found, so none of them is missing *)
Lemma taken_not_missing (taken old : comps) ts :
  map fst taken = ts -> (forall t v, In (t, v) taken -> lookup_first t old = Some v) ->
  forall t, In t ts -> lookup_first t old <> None.
Proof.
  intros <- H t Hin. apply in_map_iff in Hin as ([t' v] & <- & Hin). cbn [fst].
  rewrite (H _ _ Hin). discriminate.
Qed.

(* ------------------------------------------------------------------------------------------ *)
(** * 2. C09 *)

Theorem c09_get_error_proof : c09_get_error_stmt.
Proof.
  intros u w h t I. destruct (accessors_agree_proof u w h I) as (_ & _ & H0 & _ & H1).
  unfold alive, comp_of in *. split.
  - rewrite H0. destruct (abs w h) as [l|]; split; intros H; try congruence.
    exfalso. apply H. discriminate.
  - rewrite H1. destruct (abs w h) as [l|]; split.
    + intros (_ & E). exists l. auto.
    + intros (l' & [= <-] & E). split; [discriminate|exact E].
    + intros (A & _). congruence.
    + intros (l' & E & _). discriminate.
Qed.

Theorem c09_despawn_error_proof : c09_despawn_error_stmt.
Proof.
  intros u w h w' r I F H.
  destruct (despawn_refines_proof u w h w' r I F H) as (_ & _ & Hr).
  apply w_despawn_unfold in H as (w0 & Hfl & H). split.
  - destruct r as [d| |]; [| |contradiction].
    + destruct Hr as (E & _). split; [discriminate|congruence].
    + split; [intros _; apply Hr|reflexivity].
  - intros ->. destruct Hr as (_ & Habs). split; [exact Habs|].
    destruct H as [(_ & -> & _)|(e & l & r1 & _ & _ & E)]; [|discriminate].
    rewrite (stored_flush _ _ Hfl). apply Permutation_refl.
Qed.

Theorem c09_insert_error_proof : c09_insert_error_stmt.
Proof.
  intros u w h b w' r TI I F Hb H.
  destruct (insert_refines_proof u w h b w' r TI I F Hb H) as (_ & _ & Hr). split.
  - destruct r as [d| |]; [| |contradiction].
    + destruct Hr as (old & new & E & _). split; [discriminate|congruence].
    + split; [intros _; apply Hr|reflexivity].
  - intros ->. destruct Hr as (_ & Habs). split; [exact Habs|].
    rewrite (stored_flush _ _ (w_insert_err _ _ _ _ _ H)). apply Permutation_refl.
Qed.

Theorem c09_remove_error_proof : c09_remove_error_stmt.
Proof.
  intros u w h key ts w' r TI I F Hnd Hkey H.
  destruct (WorldProofs4.remove_refines_proof u w h key ts w' r TI I F Hnd Hkey H) as (_ & _ & Hr).
  split; [|split].
  - destruct r as [taken| |].
    + destruct Hr as (old & new & E & _). split; [discriminate|congruence].
    + split; [intros _; apply Hr|reflexivity].
    + destruct Hr as ((old & E & _) & _). split; [discriminate|congruence].
  - destruct r as [taken| |].
    + destruct Hr as (old & new & E & _ & Hfst & Hin & _). split; [discriminate|].
      intros (old' & E' & t & Ht & Hl). exfalso. rewrite E in E'. injection E' as <-.
      apply (taken_not_missing _ _ _ Hfst Hin t Ht Hl).
    + destruct Hr as (E & _). split; [discriminate|]. intros (old & E' & _). congruence.
    + split; [intros _; apply Hr|reflexivity].
  - intros Herr. split.
    + destruct Herr as [-> | ->]; apply Hr.
    + rewrite (stored_flush _ _ (w_remove_err _ _ _ _ _ _ _ H Herr)). apply Permutation_refl.
Qed.

Theorem c09_exchange_error_proof : c09_exchange_error_stmt.
Proof.
  intros u w h key ts b w' r TI I F Hnd Hkey Hb H.
  destruct (exchange_refines_proof u w h key ts b w' r TI I F Hnd Hkey Hb H) as (_ & _ & Hr).
  split; [|split].
  - destruct r as [[taken d]| |].
    + destruct Hr as (old & new & E & _). split; [discriminate|congruence].
    + split; [intros _; apply Hr|reflexivity].
    + destruct Hr as ((old & E & _) & _). split; [discriminate|congruence].
  - destruct r as [[taken d]| |].
    + destruct Hr as (old & new & E & _ & Hfst & Hin & _). split; [discriminate|].
      intros (old' & E' & t & Ht & Hl). exfalso. rewrite E in E'. injection E' as <-.
      apply (taken_not_missing _ _ _ Hfst Hin t Ht Hl).
    + destruct Hr as (E & _). split; [discriminate|]. intros (old & E' & _). congruence.
    + split; [intros _; apply Hr|reflexivity].
  - intros Herr. split.
    + destruct Herr as [-> | ->]; apply Hr.
    + rewrite (stored_flush _ _ (w_exchange_err _ _ _ _ _ _ _ _ H Herr)). apply Permutation_refl.
Qed.

(* ------------------------------------------------------------------------------------------ *)
(** * 3. component lists with strictly sorted keys are determined by their lookups *)

Lemma entity_dec (h1 h2 : entity) : {h1 = h2} + {h1 <> h2}.
Proof. decide equality; apply N.eq_dec. Qed.

Lemma In_fst_lookup t (l : comps) : In t (map fst l) <-> lookup_first t l <> None.
Proof.
  pose proof (lookup_first_None t l) as H.
  destruct (in_dec N.eq_dec t (map fst l)) as [Hin|Hin]; tauto.
Qed.

Lemma nodup_keys_lookup_ext : forall (l1 l2 : comps),
  map fst l1 = map fst l2 -> NoDup (map fst l1) ->
  (forall t, lookup_first t l1 = lookup_first t l2) -> l1 = l2.
Proof.
  induction l1 as [|[t v] r1 IH]; intros [|[t2 v2] r2] Hk Hnd Hl; try discriminate; [reflexivity|].
  cbn [map fst] in Hk, Hnd. injection Hk as <- Hk. inversion Hnd as [|x y Hni Hnd']; subst.
  pose proof (Hl t) as Ht. cbn [lookup_first] in Ht. rewrite N.eqb_refl in Ht. injection Ht as <-.
  f_equal. apply IH; [exact Hk|exact Hnd'|].
  intros x. pose proof (Hl x) as Hx. cbn [lookup_first] in Hx.
  destruct (N.eqb_spec x t) as [E|Hne]; [|exact Hx]. rewrite E.
  transitivity (@None val); [|symmetry]; apply lookup_first_None; [exact Hni|rewrite <- Hk; exact Hni].
Qed.

Lemma sorted_lookup_ext u (l1 l2 : comps) :
  assert_type_info u (map fst l1) = 0 -> assert_type_info u (map fst l2) = 0 ->
  (forall t, lookup_first t l1 = lookup_first t l2) -> l1 = l2.
Proof.
  intros S1 S2 Hl. assert (Hk : map fst l1 = map fst l2).
  { apply (ssorted_lt_unique u); [apply ati_ssorted; exact S1|apply ati_ssorted; exact S2|].
    intros x. rewrite !In_fst_lookup, Hl. reflexivity. }
  apply nodup_keys_lookup_ext; [exact Hk|apply (sorted_nodup_stmt_proof u); exact S1|exact Hl].
Qed.

(* what a handle denotes is laid out in the archetype's (strictly sorted) column order *)
Lemma abs_sorted u w h l : WInv u w -> abs w h = Some l -> assert_type_info u (map fst l) = 0.
Proof.
  intros I Ha. destruct (get (w_ents w) h) as [l0|] eqn:Hg;
    [|rewrite (abs_None_get _ _ Hg) in Ha; discriminate].
  destruct (get_classify _ _ _ _ I Hg) as [(_ & E)|(_ & a & r & Hna & Hr & E)];
    rewrite E in Ha; injection Ha as <-.
  - reflexivity.
  - rewrite (wi_rowtypes _ _ I a r (nthN_In _ _ _ Hna) (nthN_In _ _ _ Hr)).
    apply (wi_sorted _ _ I). eapply nthN_In. exact Hna.
Qed.

Lemma abs_ext u w1 w2 h1 h2 l1 l2 :
  WInv u w1 -> WInv u w2 -> abs w1 h1 = Some l1 -> abs w2 h2 = Some l2 ->
  (forall t, lookup_first t l1 = lookup_first t l2) -> l1 = l2.
Proof.
  intros I1 I2 A1 A2 Hl.
  apply (sorted_lookup_ext u); [apply (abs_sorted u w1 h1 l1 I1 A1)|apply (abs_sorted u w2 h2 l2 I2 A2)|exact Hl].
Qed.

Lemma lookup_first_perm t (l1 l2 : comps) :
  NoDup (map fst l1) -> Permutation l1 l2 -> lookup_first t l1 = lookup_first t l2.
Proof.
  intros Hnd Hp.
  assert (Hnd2 : NoDup (map fst l2)).
  { eapply Permutation_NoDup; [apply Permutation_map; exact Hp|exact Hnd]. }
  destruct (lookup_first t l1) as [v|] eqn:E1; symmetry.
  - apply lookup_first_In_nodup; [exact Hnd2|]. eapply Permutation_in; [exact Hp|].
    apply lookup_first_In_nodup; assumption.
  - apply lookup_first_None. apply lookup_first_None in E1. intros Hin. apply E1.
    eapply Permutation_in; [apply Permutation_sym, Permutation_map; exact Hp|exact Hin].
Qed.

Lemma dropped_perm (d1 d2 : comps) :
  NoDup (map fst d1) -> NoDup (map fst d2) ->
  (forall t v, In (t, v) d1 <-> In (t, v) d2) -> Permutation d1 d2.
Proof.
  intros N1 N2 H. apply NoDup_Permutation; [eapply NoDup_map_inv; exact N1|eapply NoDup_map_inv; exact N2|].
  intros [t v]. apply H.
Qed.

Lemma taken_eq (old : comps) : forall (t1 t2 : comps),
  map fst t1 = map fst t2 ->
  (forall t v, In (t, v) t1 -> lookup_first t old = Some v) ->
  (forall t v, In (t, v) t2 -> lookup_first t old = Some v) -> t1 = t2.
Proof.
  induction t1 as [|[a v] r IH]; intros [|[a2 v2] r2] Hk H1 H2; try discriminate; [reflexivity|].
  cbn [map fst] in Hk. injection Hk as <- Hk.
  pose proof (H1 a v (or_introl eq_refl)) as E1. pose proof (H2 a v2 (or_introl eq_refl)) as E2.
  rewrite E1 in E2. injection E2 as <-. f_equal.
  apply IH; [exact Hk| |]; intros t v' Hin; [apply H1|apply H2]; right; exact Hin.
Qed.

Lemma missing_vs_ok (A : option comps) ts (old' taken : comps) :
  (exists old, A = Some old /\ exists t, In t ts /\ lookup_first t old = None) ->
  A = Some old' -> map fst taken = ts ->
  (forall t v, In (t, v) taken -> lookup_first t old' = Some v) -> False.
Proof.
  intros (old & E & t & Ht & Hl) E' Hfst Hin. rewrite E in E'. injection E' as <-.
  apply (taken_not_missing _ _ _ Hfst Hin t Ht Hl).
Qed.

(* exchange_refines_stmt does not say that the dropped list names each type once; the model does *)
Lemma exchange_dropped_nodup u w h key ts b w' taken d :
  total_inj u -> WInv u w -> fits w -> tl key = ts -> bundle_ok b ->
  w_exchange u w h key ts b = Done (w', WOk (taken, d)) -> NoDup (map fst d).
Proof.
  intros TI I F Hkey Hb H. subst ts.
  unfold w_exchange in H. destruct (w_flush w) as [w0|c] eqn:Hfl; [|discriminate]. cbn [bind] in H.
  destruct (w_flush_spec _ _ _ I F Hfl) as (P & Hf & F0 & Habs & _).
  destruct (get (w_ents w0) h) as [l|] eqn:Hg; [|discriminate].
  destruct (flushed_get_located _ _ _ _ P Hf Hg) as (m & sa & r0 & Hm & Hgen & Hs & -> & Hsa & Hr0 & Ho0).
  unfold get_row, get_arch in H. rewrite Hsa in H. cbn [bind] in H. rewrite Hr0 in H. cbn [bind] in H.
  destruct (dup_check u (tl key)) as [[]|c]; [|discriminate]. cbn [bind] in H.
  destruct (lookup_all (tl key) (r_vals r0)) as [taken0|] eqn:Et; [|discriminate].
  destruct (remove_target u w0 (l_arch (m_loc m)) key (tl key)) as [[w1 mid]|c] eqn:Er; [|discriminate].
  cbn [bind] in H.
  destruct (remove_target_spec _ _ _ _ _ _ _ _ _ P Hsa Er) as (P1 & He & Hrow & Habs1 & Hmono & ta & Hta & Htt).
  assert (Hm1 : nthN (meta (w_ents w1)) (e_id h) = Some m) by (rewrite He; exact Hm).
  assert (Hfit : lenN (meta (w_ents w1)) <= SENT) by (rewrite He; pose proof (fits_meta_lt _ F0); lia).
  assert (Hsub : forall t, In t (a_types ta) <-> In t (a_types sa) /\ ~ In t (tl key)).
  { intros t. rewrite Htt, filter_In, negb_true_iff, mem_tid_false. tauto. }
  destruct (insert_inner_spec u w1 h b mid m (tl key) sa ta TI P1 Hb Hm1 Hgen Hs (Hmono _ _ Hsa) Hta Hsub Hfit)
    as (w2 & d0 & Ei & P2 & Hnf & old & new & Ho & Hn & Hlk & Hd & Hdn & Hoth).
  rewrite Ei in H. cbn [bind] in H. injection H as <- <- <-. exact Hdn.
Qed.

(* ------------------------------------------------------------------------------------------ *)
(** * 4. C10 *)

Theorem c10_spawn_order_proof : c10_spawn_order_stmt.
Proof.
  intros u w b1 b2 w1 h1 w2 h2 TI I F Hb1 Hb2 Hp H1 H2 F1 F2.
  assert (Hh : h1 = h2).
  { destruct (w_spawn_unfold _ _ _ _ _ H1) as (w0 & e & Hfl & Hal & _).
    destruct (w_spawn_unfold _ _ _ _ _ H2) as (w0' & e' & Hfl' & Hal' & _).
    rewrite Hfl in Hfl'. injection Hfl' as <-. rewrite Hal in Hal'. injection Hal' as _ <-. reflexivity. }
  subst h2. split; [reflexivity|].
  destruct (spawn_refines_proof u w b1 w1 h1 TI I F Hb1 H1 F1) as (I1 & _ & _ & _ & (l1 & A1 & L1) & O1).
  destruct (spawn_refines_proof u w b2 w2 h1 TI I F Hb2 H2 F2) as (I2 & _ & _ & _ & (l2 & A2 & L2) & O2).
  intros h. destruct (entity_dec h h1) as [->|Hne].
  - rewrite A1, A2. f_equal. apply (abs_ext u w1 w2 h1 h1 l1 l2 I1 I2 A1 A2).
    intros t. rewrite L1, L2. apply lookup_first_perm; [exact (proj1 Hb1)|exact Hp].
  - rewrite (O1 _ Hne), (O2 _ Hne). reflexivity.
Qed.

Theorem c10_insert_history_proof : c10_insert_history_stmt.
Proof.
  intros u wa wb h b wa' ra wb' rb TI Ia Ib Fa Fb Hb Heq Ha Hbb.
  destruct (insert_refines_proof u wa h b wa' ra TI Ia Fa Hb Ha) as (Ia' & _ & Hra).
  destruct (insert_refines_proof u wb h b wb' rb TI Ib Fb Hb Hbb) as (Ib' & _ & Hrb).
  destruct ra as [d1| |]; [| |contradiction]; (destruct rb as [d2| |]; [| |contradiction]).
  - destruct Hra as (olda & newa & Oa & Na & La & Da & NDa & _).
    destruct Hrb as (oldb & newb & Ob & Nb & Lb & Db & NDb & _).
    rewrite Oa, Ob in Heq. injection Heq as <-. split.
    + rewrite Na, Nb. f_equal. apply (abs_ext u wa' wb' h h newa newb Ia' Ib' Na Nb).
      intros t. rewrite La, Lb. reflexivity.
    + apply (dropped_perm _ _ NDa NDb). intros t v. rewrite Da, Db. reflexivity.
  - destruct Hra as (olda & newa & Oa & _). destruct Hrb as (Ob & _). congruence.
  - destruct Hrb as (oldb & newb & Ob & _). destruct Hra as (Oa & _). congruence.
  - destruct Hra as (_ & Aa). destruct Hrb as (_ & Ab). rewrite Aa, Ab. auto.
Qed.

Theorem c10_insert_order_proof : c10_insert_order_stmt.
Proof.
  intros u w h b1 b2 w1 r1 w2 r2 TI I F Hb1 Hb2 Hp H1 H2.
  destruct (insert_refines_proof u w h b1 w1 r1 TI I F Hb1 H1) as (I1 & _ & Hr1).
  destruct (insert_refines_proof u w h b2 w2 r2 TI I F Hb2 H2) as (I2 & _ & Hr2).
  assert (Hlk : forall t, lookup_first t (b_items b1) = lookup_first t (b_items b2)).
  { intros t. apply lookup_first_perm; [exact (proj1 Hb1)|exact Hp]. }
  assert (Hty : forall t, In t (b_types b1) <-> In t (b_types b2)).
  { intros t. unfold b_types. split; apply Permutation_in; [|apply Permutation_sym]; apply Permutation_map; exact Hp. }
  destruct r1 as [d1| |]; [| |contradiction]; (destruct r2 as [d2| |]; [| |contradiction]).
  - destruct Hr1 as (old1 & new1 & O1 & N1 & L1 & D1 & ND1 & Oth1).
    destruct Hr2 as (old2 & new2 & O2 & N2 & L2 & D2 & ND2 & Oth2).
    rewrite O1 in O2. injection O2 as <-. split.
    + intros h'. destruct (entity_dec h' h) as [->|Hne].
      * rewrite N1, N2. f_equal. apply (abs_ext u w1 w2 h h new1 new2 I1 I2 N1 N2).
        intros t. rewrite L1, L2, Hlk. reflexivity.
      * rewrite (Oth1 _ Hne), (Oth2 _ Hne). reflexivity.
    + apply (dropped_perm _ _ ND1 ND2). intros t v. rewrite D1, D2, Hty. reflexivity.
  - destruct Hr1 as (old1 & new1 & O1 & _). destruct Hr2 as (O2 & _). congruence.
  - destruct Hr2 as (old2 & new2 & O2 & _). destruct Hr1 as (O1 & _). congruence.
  - destruct Hr1 as (_ & A1). destruct Hr2 as (_ & A2). split; [|exact Logic.I].
    intros h'. rewrite A1, A2. reflexivity.
Qed.

Theorem c10_remove_history_proof : c10_remove_history_stmt.
Proof.
  intros u wa wb h key ts wa' ra wb' rb TI Ia Ib Fa Fb Hnd Hkey Heq Ha Hb.
  destruct (WorldProofs4.remove_refines_proof u wa h key ts wa' ra TI Ia Fa Hnd Hkey Ha) as (Ia' & _ & Hra).
  destruct (WorldProofs4.remove_refines_proof u wb h key ts wb' rb TI Ib Fb Hnd Hkey Hb) as (Ib' & _ & Hrb).
  destruct ra as [t1| |]; destruct rb as [t2| |].
  - destruct Hra as (olda & newa & Oa & Na & Ta & Va & La & _).
    destruct Hrb as (oldb & newb & Ob & Nb & Tb & Vb & Lb & _).
    rewrite Oa, Ob in Heq. injection Heq as <-. split.
    + rewrite Na, Nb. f_equal. apply (abs_ext u wa' wb' h h newa newb Ia' Ib' Na Nb).
      intros t. rewrite La, Lb. reflexivity.
    + apply (taken_eq olda); [congruence|exact Va|exact Vb].
  - destruct Hra as (olda & newa & Oa & _). destruct Hrb as (Ob & _). congruence.
  - destruct Hra as (olda & newa & Oa & _ & Ta & Va & _). destruct Hrb as (Mb & _).
    rewrite <- Heq in Mb. exfalso. apply (missing_vs_ok _ _ _ _ Mb Oa Ta Va).
  - destruct Hrb as (oldb & newb & Ob & _). destruct Hra as (Oa & _). congruence.
  - destruct Hra as (_ & Aa). destruct Hrb as (_ & Ab). rewrite Aa, Ab. auto.
  - destruct Hra as (Oa & _). destruct Hrb as ((oldb & Ob & _) & _). congruence.
  - destruct Hrb as (oldb & newb & Ob & _ & Tb & Vb & _). destruct Hra as (Ma & _).
    rewrite Heq in Ma. exfalso. apply (missing_vs_ok _ _ _ _ Ma Ob Tb Vb).
  - destruct Hrb as (Ob & _). destruct Hra as ((olda & Oa & _) & _). congruence.
  - destruct Hra as (_ & Aa). destruct Hrb as (_ & Ab). rewrite Aa, Ab. auto.
Qed.

Theorem c10_exchange_history_proof : c10_exchange_history_stmt.
Proof.
  intros u wa wb h key ts b wa' ra wb' rb TI Ia Ib Fa Fb Hnd Hkey Hbo Heq Ha Hb.
  destruct (exchange_refines_proof u wa h key ts b wa' ra TI Ia Fa Hnd Hkey Hbo Ha) as (Ia' & _ & Hra).
  destruct (exchange_refines_proof u wb h key ts b wb' rb TI Ib Fb Hnd Hkey Hbo Hb) as (Ib' & _ & Hrb).
  destruct ra as [[t1 d1]| |]; destruct rb as [[t2 d2]| |].
  - pose proof (exchange_dropped_nodup _ _ _ _ _ _ _ _ _ TI Ia Fa Hkey Hbo Ha) as NDa.
    pose proof (exchange_dropped_nodup _ _ _ _ _ _ _ _ _ TI Ib Fb Hkey Hbo Hb) as NDb.
    destruct Hra as (olda & newa & Oa & Na & Ta & Va & La & Da & _).
    destruct Hrb as (oldb & newb & Ob & Nb & Tb & Vb & Lb & Db & _).
    rewrite Oa, Ob in Heq. injection Heq as <-. split; [|split].
    + rewrite Na, Nb. f_equal. apply (abs_ext u wa' wb' h h newa newb Ia' Ib' Na Nb).
      intros t. rewrite La, Lb. reflexivity.
    + apply (taken_eq olda); [congruence|exact Va|exact Vb].
    + apply (dropped_perm _ _ NDa NDb). intros t v. rewrite Da, Db. reflexivity.
  - destruct Hra as (olda & newa & Oa & _). destruct Hrb as (Ob & _). congruence.
  - destruct Hra as (olda & newa & Oa & _ & Ta & Va & _). destruct Hrb as (Mb & _).
    rewrite <- Heq in Mb. exfalso. apply (missing_vs_ok _ _ _ _ Mb Oa Ta Va).
  - destruct Hrb as (oldb & newb & Ob & _). destruct Hra as (Oa & _). congruence.
  - destruct Hra as (_ & Aa). destruct Hrb as (_ & Ab). rewrite Aa, Ab. auto.
  - destruct Hra as (Oa & _). destruct Hrb as ((oldb & Ob & _) & _). congruence.
  - destruct Hrb as (oldb & newb & Ob & _ & Tb & Vb & _). destruct Hra as (Ma & _).
    rewrite Heq in Ma. exfalso. apply (missing_vs_ok _ _ _ _ Ma Ob Tb Vb).
  - destruct Hrb as (Ob & _). destruct Hra as ((olda & Oa & _) & _). congruence.
  - destruct Hra as (_ & Aa). destruct Hrb as (_ & Ab). rewrite Aa, Ab. auto.
Qed.

Print Assumptions c09_get_error_proof.
Print Assumptions c09_despawn_error_proof.
Print Assumptions c09_insert_error_proof.
Print Assumptions c09_remove_error_proof.
Print Assumptions c09_exchange_error_proof.
Print Assumptions c10_spawn_order_proof.
Print Assumptions c10_insert_history_proof.
Print Assumptions c10_insert_order_proof.
Print Assumptions c10_remove_history_proof.
Print Assumptions c10_exchange_history_proof.
