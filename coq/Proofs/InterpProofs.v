(* The script interpreter keeps the world invariant (statements: Proofs/InterpSpec.v).

   [interp_step_inv_stmt] and [interp_inv_stmt] are FALSE as stated, because they quantify over ARBITRARY
   interpreter states (est_inv says nothing about the handle table and the container slots): see
   [interp_step_inv_stmt_false], [interp_inv_stmt_false], [interp_step_handles_cex] at the end.  This file
   proves the closest true statements: [interp_step_inv_wf] (the state also satisfies [est_wf], which holds
   initially and is preserved), [interp_inv_wf], and [interp_run_inv] (every script, from the initial state
   of run_world, no hypothesis other than fits), and the two statements that are true as stated
   ([caps_post_worlds_proof], [interp_initial_proof]). *)
From Coq Require Import List NArith ZArith Bool Lia ZifyBool ZifyNat ZifyN Permutation.
From HecsV Require Import Base.ListN Base.ListNFacts Proofs.ListNMore Model.EntityBits Model.Types Model.Entities
  Model.World Model.Query Model.Containers Model.Guards Model.WorldRun.
From HecsV Require Import Proofs.EntityBitsProofs Proofs.MergeSpec Proofs.MergeProofs Proofs.WorldSpec Proofs.WorldSpec3
  Proofs.WorldLemmas Proofs.WorldProofs1 Proofs.WorldProofs2 Proofs.ContSpec Proofs.ContProofs1 Proofs.ContMono Proofs.ContRun
  Proofs.InterpSpec Proofs.InterpDefs Proofs.InterpGens Proofs.InterpTake Proofs.InterpBatch Proofs.InterpWorld.
Import ListNotations.
Open Scope N_scope.

(* ============================================================================================== *)
(** * 0. The extra state invariant *)

(* a ColumnBatchBuilder slot: declared types strictly sorted, one column per type in that order *)
Definition cb_ok (u : universe) (ob : option cbatch) : Prop :=
  match ob with
  | Some b => assert_type_info u (cb_types b) = 0 /\ map fst (cb_cols b) = cb_types b
  | None => True
  end.

(* a CommandBuffer slot: recorded remove commands carry the key of their type list *)
Definition cmdbuf_ok (c : cmdbuf) : Prop := Forall cmd_ok (cm_cmds c).

Definition kwf (u : universe) (k : conts) : Prop :=
  Forall cmdbuf_ok (k_cmd k) /\ Forall (cb_ok u) (k_batch k).

(* what the interpreter state must satisfy besides est_inv: the handle table only holds handles with a
   NonZeroU32 generation, and the container slots are well formed.  All of it holds initially and is
   preserved by every step. *)
Definition est_wf (st : est) : Prop :=
  Forall hgen_ok (e_handles st) /\ kwf (e_u st) (e_k st).

(* ============================================================================================== *)
(** * 1. Plumbing *)

Lemma get_w_Some st wi w :
  get_w st wi = Some w -> nthN (e_ws st) wi = Some {| ws_world := w; ws_state := 0 |} /\ wi < lenN (e_ws st).
Proof.
  unfold get_w. destruct (nthN (e_ws st) wi) as [[w0 s0]|] eqn:E; [|discriminate]. cbn [ws_state ws_world].
  destruct (N.eqb_spec s0 0) as [->|]; [|discriminate]. intros [= ->]. split; [reflexivity|].
  eapply nthN_Some_lt. exact E.
Qed.

Lemma est_inv_get st wi w : est_inv st -> get_w st wi = Some w -> WInv (e_u st) w.
Proof. intros I H. apply get_w_Some in H as (H & _). apply (I _ _ H eq_refl). Qed.

Lemma est_fits_get st wi w : est_fits st -> get_w st wi = Some w -> fits w.
Proof. intros I H. apply get_w_Some in H as (H & _). apply (I _ _ H eq_refl). Qed.

(* the three conclusions of the step theorem *)
Definition post (st st' : est) : Prop := est_inv st' /\ e_u st' = e_u st /\ est_wf st'.

(* no world changes *)
Lemma finish0 st st' hs :
  est_inv st -> est_wf st ->
  e_u st' = e_u st -> e_ws st' = e_ws st -> e_handles st' = e_handles st ++ hs -> kwf (e_u st) (e_k st') ->
  Forall hgen_ok hs -> post st st'.
Proof.
  intros I (Wh & Wk) Hu Hw Hh Hk Hhs. split; [|split; [exact Hu|]].
  - intros i s Hs H0. rewrite Hu. rewrite Hw in Hs. apply (I i s Hs H0).
  - split; [rewrite Hh; apply Forall_app; auto|rewrite Hu; exact Hk].
Qed.

(* one world slot rewritten *)
Lemma finish1 st st' wi w' s hs :
  est_inv st -> est_wf st -> wi < lenN (e_ws st) ->
  e_u st' = e_u st -> e_ws st' = updN (e_ws st) wi {| ws_world := w'; ws_state := s |} ->
  e_handles st' = e_handles st ++ hs -> kwf (e_u st) (e_k st') ->
  est_fits st' ->
  (s = 0 -> fits w' -> WInv (e_u st) w' /\ Forall hgen_ok hs) ->
  (s <> 0 -> Forall hgen_ok hs) ->
  post st st'.
Proof.
  intros I (Wh & Wk) Hlt Hu Hw Hh Hk F' Hinv Hhs.
  assert (Hnew : nthN (e_ws st') wi = Some {| ws_world := w'; ws_state := s |}).
  { rewrite Hw. apply nthN_updN_eq. exact Hlt. }
  assert (Hall : (s = 0 -> WInv (e_u st) w') /\ Forall hgen_ok hs).
  { destruct (N.eq_dec s 0) as [E|E].
    - destruct (Hinv E) as (A & B); [apply (F' _ _ Hnew E)|]. auto.
    - split; [intros; contradiction|auto]. }
  destruct Hall as (Hi & Hhs').
  split; [|split; [exact Hu|]].
  - intros i sl Hs H0. rewrite Hu. rewrite Hw, nthN_updN in Hs. destruct (N.eqb_spec i wi) as [->|Hne].
    + destruct (N.ltb _ _); [|discriminate]. injection Hs as <-. cbn [ws_state ws_world] in *. auto.
    + apply (I i sl Hs H0).
  - split; [rewrite Hh; apply Forall_app; auto|rewrite Hu; exact Hk].
Qed.

(* two different world slots rewritten (take_into) *)
Lemma finish2 st st' wi wj w w2 w' w2' s hs :
  est_inv st -> est_wf st -> get_w st wi = Some w -> get_w st wj = Some w2 -> wi <> wj ->
  e_u st' = e_u st ->
  e_ws st' = updN (updN (e_ws st) wi {| ws_world := w'; ws_state := s |}) wj {| ws_world := w2'; ws_state := s |} ->
  e_handles st' = e_handles st ++ hs -> kwf (e_u st) (e_k st') ->
  est_fits st' ->
  (s = 0 -> fits w' -> fits w2' -> WInv (e_u st) w' /\ WInv (e_u st) w2' /\ Forall hgen_ok hs) ->
  (s <> 0 -> Forall hgen_ok hs) ->
  post st st'.
Proof.
  intros I (Wh & Wk) Hg Hg2 Hne Hu Hw Hh Hk F' Hinv Hhs.
  apply get_w_Some in Hg as (_ & Hlt). apply get_w_Some in Hg2 as (_ & Hlt2).
  assert (Hn1 : nthN (e_ws st') wi = Some {| ws_world := w'; ws_state := s |}).
  { rewrite Hw, nthN_updN_ne by congruence. apply nthN_updN_eq. exact Hlt. }
  assert (Hn2 : nthN (e_ws st') wj = Some {| ws_world := w2'; ws_state := s |}).
  { rewrite Hw. apply nthN_updN_eq. rewrite lenN_updN. exact Hlt2. }
  assert (Hall : (s = 0 -> WInv (e_u st) w' /\ WInv (e_u st) w2') /\ Forall hgen_ok hs).
  { destruct (N.eq_dec s 0) as [E|E].
    - destruct (Hinv E) as (A & B & C); [apply (F' _ _ Hn1 E)|apply (F' _ _ Hn2 E)|]. auto.
    - split; [intros; contradiction|auto]. }
  destruct Hall as (Hi & Hhs').
  split; [|split; [exact Hu|]].
  - intros i sl Hs H0. rewrite Hu. rewrite Hw, nthN_updN in Hs. destruct (N.eqb_spec i wj) as [->|Hnj].
    + destruct (N.ltb _ _); [|discriminate]. injection Hs as <-. cbn [ws_state ws_world] in *. apply Hi. exact H0.
    + rewrite nthN_updN in Hs. destruct (N.eqb_spec i wi) as [->|Hni].
      * destruct (N.ltb _ _); [|discriminate]. injection Hs as <-. cbn [ws_state ws_world] in *. apply Hi. exact H0.
      * apply (I i sl Hs H0).
  - split; [rewrite Hh; apply Forall_app; auto|rewrite Hu; exact Hk].
Qed.

Lemma post_refl st : est_inv st -> est_wf st -> post st st.
Proof. intros I W. apply (finish0 st st []); auto; [rewrite app_nil_r; reflexivity|apply W]. Qed.

Lemma hgen_NOHANDLE : hgen_ok NOHANDLE.
Proof. unfold hgen_ok, NOHANDLE, W32. cbn [e_gen]. lia. Qed.

Lemma hgen_repeat n : Forall hgen_ok (repeatN NOHANDLE n).
Proof. apply Forall_forall. intros x Hx. apply In_repeatN in Hx. subst x. apply hgen_NOHANDLE. Qed.

Lemma Forall_one {A} (P : A -> Prop) x : P x -> Forall P [x].
Proof. intros H. constructor; [exact H|constructor]. Qed.

Lemma In_insert_by {A} (key : A -> N) x y l : In x (insert_by key y l) -> x = y \/ In x l.
Proof.
  induction l as [|z l IH]; cbn [insert_by]; [intros [<-|[]]; auto|].
  destruct (N.leb (key y) (key z)); cbn [In]; [intuition auto|]. intros [<-|H]; [auto|]. destruct (IH H); auto.
Qed.

Lemma In_sort_by {A} (key : A -> N) x l : In x (sort_by key l) -> In x l.
Proof.
  induction l as [|y l IH]; cbn [sort_by fold_right]; [auto|]. intros H. apply In_insert_by in H as [->|H]; [left; reflexivity|].
  right. apply IH. exact H.
Qed.

(* ============================================================================================== *)
(** * 2. Decoders *)

Lemma dec_bundle_keyc u l : keyc (fst (dec_bundle u l)).
Proof.
  unfold dec_bundle. destruct l as [|kind [|n r]]; cbn [fst]; try apply keyc_none.
  destruct (take_pairs n r) as [items tl0]. cbn [fst]. destruct (N.eqb kind 0 || N.leb 10 kind); [|apply keyc_none].
  intros k [= <-]. reflexivity.
Qed.

Lemma dec_href_ok st l : Forall hgen_ok (e_handles st) -> hgen_ok (fst (dec_href st l)).
Proof.
  intros Wh. assert (D : hgen_ok DANGLING) by (apply valid_hgen, dangling_valid).
  assert (B : forall b, hgen_ok match from_bits b with Some h => h | None => DANGLING end).
  { intros b. destruct (from_bits b) as [h|] eqn:E; [|exact D]. apply valid_hgen. eapply from_bits_valid. exact E. }
  unfold dec_href. destruct l as [|a [|b r]]; [exact D|destruct a; exact D|].
  destruct a as [|p]; cbn [fst]; [|apply B].
  destruct (nthN (e_handles st) b) as [h|] eqn:E; [|apply hgen_NOHANDLE].
  rewrite Forall_forall in Wh. apply Wh. eapply nthN_In. exact E.
Qed.

Definition dec_hrefs_go (st : est) : nat -> N -> list N -> list entity * list N :=
  fix go (fuel : nat) (n : N) (l : list N) : list entity * list N :=
    match fuel with
    | O => ([], l)
    | S f => if N.eqb n 0 then ([], l) else
             let '(h, r) := dec_href st l in
             let '(hs, tl) := go f (N.pred n) r in (h :: hs, tl)
    end.

Lemma dec_hrefs_eq st n l : dec_hrefs st n l = dec_hrefs_go st (S (length l)) n l.
Proof. reflexivity. Qed.

Lemma dec_hrefs_go_S st f n l :
  dec_hrefs_go st (S f) n l =
  if N.eqb n 0 then ([], l) else
  let '(h, r) := dec_href st l in let '(hs, tl) := dec_hrefs_go st f (N.pred n) r in (h :: hs, tl).
Proof. reflexivity. Qed.

Lemma dec_hrefs_ok st n l : Forall hgen_ok (e_handles st) -> Forall hgen_ok (fst (dec_hrefs st n l)).
Proof.
  intros Wh. rewrite dec_hrefs_eq. generalize (S (length l)). intros fuel. revert n l.
  induction fuel as [|f IH]; intros n l; [constructor|]. rewrite dec_hrefs_go_S.
  destruct (N.eqb n 0); [constructor|].
  pose proof (dec_href_ok st l Wh) as Hh. destruct (dec_href st l) as [h r]. cbn [fst] in Hh.
  specialize (IH (N.pred n) r). destruct (dec_hrefs_go st f (N.pred n) r) as [hs tl0].
  cbn [fst] in *. constructor; assumption.
Qed.

(* ============================================================================================== *)
(** * 3. World operations (opcodes 1..16, 21) *)

Ltac red_op H := cbn [exec_op N.leb N.eqb N.compare Pos.compare Pos.compare_cont Pos.eqb andb] in H.

(* close a goal [post st st'] where st' has the same worlds as st *)
Ltac hs_eq := first [reflexivity | symmetry; apply app_nil_r].
Ltac fin0 W :=
  eapply finish0; [eassumption|eassumption|reflexivity|reflexivity|hs_eq|exact (proj2 W)|].
(* close a goal [post st st'] where slot wi now holds (w', s); Hg : get_w st wi = Some w *)
Ltac fin1 W Hg wi w' s hs :=
  eapply (finish1 _ _ wi w' s hs); [eassumption|eassumption|exact (proj2 (get_w_Some _ _ _ Hg))|reflexivity|reflexivity|hs_eq|
                                    exact (proj2 W)|eassumption| |].
Ltac hg_tac := first [apply hgen_repeat | repeat (constructor; try apply hgen_NOHANDLE)].
Ltac dead_world H W :=
  injection H as <- _ _; fin0 W; hg_tac.
Ltac nz := let E := fresh in intros E; first [discriminate E | contradiction E; reflexivity].

Lemma step_op1 st wi args st' rest obs :
  total_inj (e_u st) -> est_inv st -> est_fits st -> est_wf st ->
  exec_op st 1 (wi :: args) = (st', rest, obs) -> est_fits st' -> post st st'.
Proof.
  intros T I F W H F'. red_op H. destruct (get_w st wi) as [w|] eqn:Hg; [|dead_world H W].
  pose proof (est_inv_get _ _ _ I Hg) as Iw. pose proof (est_fits_get _ _ _ F Hg) as Fw.
  pose proof (dec_bundle_keyc (e_u st) args) as Hk. destruct (dec_bundle (e_u st) args) as [b rest0]. cbn [fst] in Hk.
  destruct (w_spawn (e_u st) w b) as [[w' h]|c] eqn:Es; injection H as <- _ _.
  - fin1 W Hg wi w' 0 [h]; [|nz].
    intros _ Fw'. destruct (spawn_keeps _ _ _ _ _ T Iw Fw Hk Es Fw') as (I' & Hv).
    split; [exact I'|apply Forall_one, valid_hgen, Hv].
  - fin1 W Hg wi w 1 [NOHANDLE]; [nz|intros _; hg_tac].
Qed.

Lemma step_op2 st wi args st' rest obs :
  total_inj (e_u st) -> est_inv st -> est_fits st -> est_wf st ->
  exec_op st 2 (wi :: args) = (st', rest, obs) -> est_fits st' -> post st st'.
Proof.
  intros T I F W H F'. red_op H. destruct (get_w st wi) as [w|] eqn:Hg; [|dead_world H W].
  pose proof (est_inv_get _ _ _ I Hg) as Iw. pose proof (est_fits_get _ _ _ F Hg) as Fw.
  pose proof (dec_href_ok st args (proj1 W)) as Hh. destruct (dec_href st args) as [h r1]. cbn [fst] in Hh.
  pose proof (dec_bundle_keyc (e_u st) r1) as Hk. destruct (dec_bundle (e_u st) r1) as [b rest0]. cbn [fst] in Hk.
  destruct (N.ltb_spec MAX_AT_ID (e_id h)) as [Hid|Hid].
  - injection H as <- _ _. fin0 W. apply Forall_one, Hh.
  - assert (Hv : valid_entity h) by (split; [unfold MAX_AT_ID, W32 in *; lia|exact Hh]).
    destruct (w_spawn_at (e_u st) w h b) as [[w' d]|c] eqn:Es.
    + injection H as <- _ _. fin1 W Hg wi w' 0 [h]; [|nz].
      intros _ Fw'. split; [|apply Forall_one, Hh]. eapply spawn_at_keeps; eassumption.
    + match type of H with context [let '(_, _) := ?X in _] => destruct X as [wp d0] end.
      injection H as <- _ _. fin1 W Hg wi wp 1 [h]; [nz|intros _; apply Forall_one, Hh].
Qed.

Lemma step_op3 st wi args st' rest obs :
  total_inj (e_u st) -> est_inv st -> est_fits st -> est_wf st ->
  exec_op st 3 (wi :: args) = (st', rest, obs) -> est_fits st' -> post st st'.
Proof.
  intros T I F W H F'. red_op H. destruct (get_w st wi) as [w|] eqn:Hg; [|dead_world H W].
  pose proof (est_inv_get _ _ _ I Hg) as Iw. pose proof (est_fits_get _ _ _ F Hg) as Fw.
  destruct (dec_href st args) as [h r1].
  pose proof (dec_bundle_keyc (e_u st) r1) as Hk. destruct (dec_bundle (e_u st) r1) as [b rest0]. cbn [fst] in Hk.
  destruct (w_insert (e_u st) w h b) as [[w' r]|c] eqn:Es.
  - assert (I' : WInv (e_u st) w') by (eapply insert_keeps; eassumption).
    destruct r; injection H as <- _ _; (fin1 W Hg wi w' 0 (@nil entity); [intros _ _; split; [exact I'|constructor]|nz]).
  - injection H as <- _ _. fin1 W Hg wi w 1 (@nil entity); [nz|constructor].
Qed.

Lemma step_op4 st wi args st' rest obs :
  total_inj (e_u st) -> est_inv st -> est_fits st -> est_wf st ->
  exec_op st 4 (wi :: args) = (st', rest, obs) -> est_fits st' -> post st st'.
Proof.
  intros T I F W H F'. red_op H. destruct (get_w st wi) as [w|] eqn:Hg; [|dead_world H W].
  pose proof (est_inv_get _ _ _ I Hg) as Iw. pose proof (est_fits_get _ _ _ F Hg) as Fw.
  destruct (dec_href st args) as [h r1]. destruct (dec_types r1) as [ts rest0].
  destruct (w_remove (e_u st) w h (0 :: ts) ts) as [[w' r]|c] eqn:Es.
  - assert (I' : WInv (e_u st) w') by (eapply remove_keeps; try eassumption; reflexivity).
    destruct r; injection H as <- _ _; (fin1 W Hg wi w' 0 (@nil entity); [intros _ _; split; [exact I'|constructor]|nz]).
  - injection H as <- _ _. fin1 W Hg wi w 1 (@nil entity); [nz|constructor].
Qed.

Lemma step_op5 st wi args st' rest obs :
  total_inj (e_u st) -> est_inv st -> est_fits st -> est_wf st ->
  exec_op st 5 (wi :: args) = (st', rest, obs) -> est_fits st' -> post st st'.
Proof.
  intros T I F W H F'. red_op H. destruct (get_w st wi) as [w|] eqn:Hg; [|dead_world H W].
  pose proof (est_inv_get _ _ _ I Hg) as Iw. pose proof (est_fits_get _ _ _ F Hg) as Fw.
  destruct (dec_href st args) as [h r1]. destruct (dec_types r1) as [ts r2].
  pose proof (dec_bundle_keyc (e_u st) r2) as Hk. destruct (dec_bundle (e_u st) r2) as [b rest0]. cbn [fst] in Hk.
  destruct (w_exchange (e_u st) w h (0 :: ts) ts b) as [[w' r]|c] eqn:Es.
  - assert (I' : WInv (e_u st) w') by (eapply exchange_keeps; try eassumption; reflexivity).
    destruct r as [[tk d]| |]; injection H as <- _ _;
      (fin1 W Hg wi w' 0 (@nil entity); [intros _ _; split; [exact I'|constructor]|nz]).
  - injection H as <- _ _. fin1 W Hg wi w 1 (@nil entity); [nz|constructor].
Qed.

(* 24 / 25: remove / exchange of a derived Bundle struct (a key tag follows the handle) *)
Lemma step_op24 st wi args st' rest obs :
  total_inj (e_u st) -> est_inv st -> est_fits st -> est_wf st ->
  exec_op st 24 (wi :: args) = (st', rest, obs) -> est_fits st' -> post st st'.
Proof.
  intros T I F W H F'. red_op H. destruct (get_w st wi) as [w|] eqn:Hg; [|dead_world H W].
  pose proof (est_inv_get _ _ _ I Hg) as Iw. pose proof (est_fits_get _ _ _ F Hg) as Fw.
  destruct (dec_href st args) as [h r0].
  match type of H with context [let '(_, _) := ?X in _] => destruct X as [tag r1] end.
  destruct (dec_types r1) as [ts rest0].
  destruct (w_remove (e_u st) w h (tag :: ts) ts) as [[w' r]|c] eqn:Es.
  - assert (I' : WInv (e_u st) w') by (eapply remove_keeps; try eassumption; reflexivity).
    destruct r; injection H as <- _ _; (fin1 W Hg wi w' 0 (@nil entity); [intros _ _; split; [exact I'|constructor]|nz]).
  - injection H as <- _ _. fin1 W Hg wi w 1 (@nil entity); [nz|constructor].
Qed.

Lemma step_op25 st wi args st' rest obs :
  total_inj (e_u st) -> est_inv st -> est_fits st -> est_wf st ->
  exec_op st 25 (wi :: args) = (st', rest, obs) -> est_fits st' -> post st st'.
Proof.
  intros T I F W H F'. red_op H. destruct (get_w st wi) as [w|] eqn:Hg; [|dead_world H W].
  pose proof (est_inv_get _ _ _ I Hg) as Iw. pose proof (est_fits_get _ _ _ F Hg) as Fw.
  destruct (dec_href st args) as [h r0].
  match type of H with context [let '(_, _) := ?X in _] => destruct X as [tag r1] end.
  destruct (dec_types r1) as [ts r2].
  pose proof (dec_bundle_keyc (e_u st) r2) as Hk. destruct (dec_bundle (e_u st) r2) as [b rest0]. cbn [fst] in Hk.
  destruct (w_exchange (e_u st) w h (tag :: ts) ts b) as [[w' r]|c] eqn:Es.
  - assert (I' : WInv (e_u st) w') by (eapply exchange_keeps; try eassumption; reflexivity).
    destruct r as [[tk d]| |]; injection H as <- _ _;
      (fin1 W Hg wi w' 0 (@nil entity); [intros _ _; split; [exact I'|constructor]|nz]).
  - injection H as <- _ _. fin1 W Hg wi w 1 (@nil entity); [nz|constructor].
Qed.

Lemma step_op6 st wi args st' rest obs :
  total_inj (e_u st) -> est_inv st -> est_fits st -> est_wf st ->
  exec_op st 6 (wi :: args) = (st', rest, obs) -> est_fits st' -> post st st'.
Proof.
  intros T I F W H F'. red_op H. destruct (get_w st wi) as [w|] eqn:Hg; [|dead_world H W].
  pose proof (est_inv_get _ _ _ I Hg) as Iw. pose proof (est_fits_get _ _ _ F Hg) as Fw.
  destruct (dec_href st args) as [h rest0].
  destruct (w_despawn w h) as [[w' r]|c] eqn:Es.
  - destruct (despawn_refines_proof _ _ _ _ _ Iw Fw Es) as (I' & _).
    destruct r; injection H as <- _ _; (fin1 W Hg wi w' 0 (@nil entity); [intros _ _; split; [exact I'|constructor]|nz]).
  - injection H as <- _ _. fin1 W Hg wi w 1 (@nil entity); [nz|constructor].
Qed.

Lemma step_op7 st wi args st' rest obs :
  total_inj (e_u st) -> est_inv st -> est_fits st -> est_wf st ->
  exec_op st 7 (wi :: args) = (st', rest, obs) -> est_fits st' -> post st st'.
Proof.
  intros T I F W H F'. red_op H. destruct (get_w st wi) as [w|] eqn:Hg; [|dead_world H W].
  pose proof (est_inv_get _ _ _ I Hg) as Iw. pose proof (est_fits_get _ _ _ F Hg) as Fw.
  destruct (dec_href st args) as [h rest0].
  destruct (w_take_drop w h) as [[w' r]|c] eqn:Es.
  - destruct (take_drop_refines_proof _ _ _ _ _ Iw Fw Es) as (I' & _).
    destruct r; injection H as <- _ _; (fin1 W Hg wi w' 0 (@nil entity); [intros _ _; split; [exact I'|constructor]|nz]).
  - injection H as <- _ _. fin1 W Hg wi w 1 (@nil entity); [nz|constructor].
Qed.

Ltac fin2 W Hg Hg2 wi wj w' w2' s hs :=
  eapply (finish2 _ _ wi wj _ _ w' w2' s hs);
  [eassumption|eassumption|exact Hg|exact Hg2|lia|reflexivity|reflexivity|hs_eq|exact (proj2 W)|eassumption| |].

Lemma step_op8 st wi args st' rest obs :
  total_inj (e_u st) -> est_inv st -> est_fits st -> est_wf st ->
  exec_op st 8 (wi :: args) = (st', rest, obs) -> est_fits st' -> post st st'.
Proof.
  intros T I F W H F'. red_op H. destruct (get_w st wi) as [w|] eqn:Hg; [|dead_world H W].
  pose proof (est_inv_get _ _ _ I Hg) as Iw. pose proof (est_fits_get _ _ _ F Hg) as Fw.
  destruct (dec_href st args) as [h rest0].
  destruct (get_w st (1 - wi)) as [w2|] eqn:Hg2; [|injection H as <- _ _; fin0 W; hg_tac].
  pose proof (est_inv_get _ _ _ I Hg2) as Iw2. pose proof (est_fits_get _ _ _ F Hg2) as Fw2.
  destruct (w_take_into (e_u st) w w2 h) as [[[w' w2'] r]|c] eqn:Es.
  - assert (K : fits w2' -> WInv (e_u st) w' /\ WInv (e_u st) w2' /\ match r with WOk h2 => valid_entity h2 | _ => True end).
    { intros F2'. exact (take_into_keeps _ _ _ _ _ _ _ T Iw Fw Iw2 Fw2 Es F2'). }
    destruct r as [h2| |]; injection H as <- _ _.
    + fin2 W Hg Hg2 wi (1 - wi) w' w2' 0 [h2]; [|nz].
      intros _ _ F2'. destruct (K F2') as (A & B & C). split; [exact A|split; [exact B|apply Forall_one, valid_hgen, C]].
    + fin2 W Hg Hg2 wi (1 - wi) w' w2' 0 [NOHANDLE]; [|nz].
      intros _ _ F2'. destruct (K F2') as (A & B & _). split; [exact A|split; [exact B|hg_tac]].
    + fin2 W Hg Hg2 wi (1 - wi) w' w2' 0 [NOHANDLE]; [|nz].
      intros _ _ F2'. destruct (K F2') as (A & B & _). split; [exact A|split; [exact B|hg_tac]].
  - injection H as <- _ _. fin2 W Hg Hg2 wi (1 - wi) w w2 1 [NOHANDLE]; [nz|intros _; hg_tac].
Qed.

Lemma step_op9 st wi args st' rest obs :
  total_inj (e_u st) -> est_inv st -> est_fits st -> est_wf st ->
  exec_op st 9 (wi :: args) = (st', rest, obs) -> est_fits st' -> post st st'.
Proof.
  intros T I F W H F'. red_op H. destruct (get_w st wi) as [w|] eqn:Hg; [|dead_world H W].
  pose proof (est_inv_get _ _ _ I Hg) as Iw.
  destruct (w_clear w) as [w' d] eqn:Ec. destruct (clear_refines_proof _ _ _ _ Iw Ec) as (I' & _).
  injection H as <- _ _. fin1 W Hg wi w' 0 (@nil entity); [intros _ _; split; [exact I'|constructor]|nz].
Qed.

Lemma step_op10 st wi args st' rest obs :
  total_inj (e_u st) -> est_inv st -> est_fits st -> est_wf st ->
  exec_op st 10 (wi :: args) = (st', rest, obs) -> est_fits st' -> post st st'.
Proof.
  intros T I F W H F'. red_op H. destruct (get_w st wi) as [w|] eqn:Hg; [|dead_world H W].
  pose proof (est_inv_get _ _ _ I Hg) as Iw.
  destruct (reserve_entity (w_ents w)) as [[e h]|c] eqn:Er; injection H as <- _ _.
  - destruct (reserve1_keeps _ _ _ _ Iw Er) as (I' & Hh).
    fin1 W Hg wi (with_ents w e) 0 [h]; [intros _ _; split; [exact I'|apply Forall_one, Hh]|nz].
  - fin1 W Hg wi w 1 [NOHANDLE]; [nz|intros _; hg_tac].
Qed.

Lemma step_op11 st wi args st' rest obs :
  total_inj (e_u st) -> est_inv st -> est_fits st -> est_wf st ->
  exec_op st 11 (wi :: args) = (st', rest, obs) -> est_fits st' -> post st st'.
Proof.
  intros T I F W H F'. red_op H. destruct (get_w st wi) as [w|] eqn:Hg; [|dead_world H W].
  pose proof (est_inv_get _ _ _ I Hg) as Iw.
  destruct args as [|n rest0]; [injection H as <- _ _; apply post_refl; assumption|].
  destruct (reserve_entities (w_ents w) n) as [[e hs]|c] eqn:Er; injection H as <- _ _.
  - destruct (reserveN_keeps _ _ _ _ _ Iw Er) as (I' & Hh).
    fin1 W Hg wi (with_ents w e) 0 hs; [intros _ _; split; [exact I'|exact Hh]|nz].
  - fin1 W Hg wi w 1 (repeatN NOHANDLE n); [nz|intros _; hg_tac].
Qed.

Lemma step_op12 st wi args st' rest obs :
  total_inj (e_u st) -> est_inv st -> est_fits st -> est_wf st ->
  exec_op st 12 (wi :: args) = (st', rest, obs) -> est_fits st' -> post st st'.
Proof.
  intros T I F W H F'. red_op H. destruct (get_w st wi) as [w|] eqn:Hg; [|dead_world H W].
  pose proof (est_inv_get _ _ _ I Hg) as Iw. pose proof (est_fits_get _ _ _ F Hg) as Fw.
  destruct (w_flush w) as [w'|c] eqn:Es; injection H as <- _ _.
  - destruct (flush_refines_proof _ _ _ Iw Fw Es) as (I' & _).
    fin1 W Hg wi w' 0 (@nil entity); [intros _ _; split; [exact I'|constructor]|nz].
  - fin1 W Hg wi w 1 (@nil entity); [nz|constructor].
Qed.

Lemma step_op13 st wi args st' rest obs :
  total_inj (e_u st) -> est_inv st -> est_fits st -> est_wf st ->
  exec_op st 13 (wi :: args) = (st', rest, obs) -> est_fits st' -> post st st'.
Proof.
  intros T I F W H F'. red_op H. destruct (get_w st wi) as [w|] eqn:Hg; [|dead_world H W].
  pose proof (est_inv_get _ _ _ I Hg) as Iw. pose proof (est_fits_get _ _ _ F Hg) as Fw.
  destruct (dec_types args) as [ts r1].
  destruct (w_reserve (e_u st) w (0 :: ts) ts) as [[w' x]|c] eqn:Es; injection H as <- _ _.
  - destruct (w_reserve_keeps _ _ _ _ _ _ T Iw Fw eq_refl Es) as (I' & _).
    fin1 W Hg wi w' 0 (@nil entity); [intros _ _; split; [exact I'|constructor]|nz].
  - fin1 W Hg wi w 1 (@nil entity); [nz|constructor].
Qed.

Lemma step_op14 st wi args st' rest obs :
  total_inj (e_u st) -> est_inv st -> est_fits st -> est_wf st ->
  exec_op st 14 (wi :: args) = (st', rest, obs) -> est_fits st' -> post st st'.
Proof.
  intros T I F W H F'. red_op H. destruct (get_w st wi) as [w|] eqn:Hg; [|dead_world H W].
  pose proof (est_inv_get _ _ _ I Hg) as Iw. pose proof (est_fits_get _ _ _ F Hg) as Fw.
  destruct (dec_types args) as [ts r1].
  destruct r1 as [|n r2]; [injection H as <- _ _; apply post_refl; assumption|].
  destruct (dec_rows ts n r2) as [rows rest0].
  destruct (w_spawn_batch (e_u st) w (0 :: ts) ts rows) as [[w' hs]|c] eqn:Es; injection H as <- _ _.
  - fin1 W Hg wi w' 0 hs; [|nz]. intros _ Fw'.
    destruct (spawn_batch_keeps _ _ _ _ _ _ _ T Iw Fw eq_refl Es Fw') as (I' & Hv).
    split; [exact I'|]. eapply Forall_impl; [|exact Hv]. intros a. apply valid_hgen.
  - fin1 W Hg wi w 1 (repeatN NOHANDLE n); [nz|intros _; hg_tac].
Qed.

Lemma sorted_dedup_ati u ts : total_inj u -> assert_type_info u (dedup_sorted (tsort u ts)) = 0.
Proof. intros T. apply ati_ssorted, batch_types_ssorted. intros a b _ _ E. apply T, E. Qed.

(* the rows handed to the column-batch spawns carry exactly the sorted column types *)
Lemma norm_row_fst sorted row : map fst (norm_row sorted row) = sorted.
Proof.
  unfold norm_row. induction sorted as [|t r IH]; [reflexivity|]. cbn [map concat]. rewrite map_app, IH.
  destruct (lookup_first t row); reflexivity.
Qed.

Lemma norm_rows_ok sorted rows0 : forall v, In v (map (norm_row sorted) rows0) -> map fst v = sorted.
Proof. intros v Hv. apply in_map_iff in Hv as (r & <- & _). apply norm_row_fst. Qed.

Lemma step_op15 st wi args st' rest obs :
  total_inj (e_u st) -> est_inv st -> est_fits st -> est_wf st ->
  exec_op st 15 (wi :: args) = (st', rest, obs) -> est_fits st' -> post st st'.
Proof.
  intros T I F W H F'. red_op H. destruct (get_w st wi) as [w|] eqn:Hg; [|dead_world H W].
  pose proof (est_inv_get _ _ _ I Hg) as Iw. pose proof (est_fits_get _ _ _ F Hg) as Fw.
  destruct (dec_types args) as [ts r1].
  destruct r1 as [|n r2]; [injection H as <- _ _; apply post_refl; assumption|].
  destruct (dec_rows ts n r2) as [rows0 rest0]. cbv zeta in H.
  destruct (w_spawn_column_batch w (dedup_sorted (tsort (e_u st) ts)) _) as [[w' hs]|c] eqn:Es; injection H as <- _ _.
  - fin1 W Hg wi w' 0 hs; [|nz]. intros _ Fw'.
    eapply column_batch_keeps; try eassumption; [apply sorted_dedup_ati; exact T|apply norm_rows_ok].
  - fin1 W Hg wi w 1 (repeatN NOHANDLE n); [nz|intros _; hg_tac].
Qed.

Lemma existsb_false_forall {A} (f : A -> bool) l : existsb f l = false -> forall x, In x l -> f x = false.
Proof.
  intros H x Hx. destruct (f x) eqn:E; [|reflexivity].
  assert (existsb f l = true) by (apply existsb_exists; eauto). congruence.
Qed.

Lemma step_op16 st wi args st' rest obs :
  total_inj (e_u st) -> est_inv st -> est_fits st -> est_wf st ->
  exec_op st 16 (wi :: args) = (st', rest, obs) -> est_fits st' -> post st st'.
Proof.
  intros T I F W H F'. red_op H. destruct (get_w st wi) as [w|] eqn:Hg; [|dead_world H W].
  pose proof (est_inv_get _ _ _ I Hg) as Iw. pose proof (est_fits_get _ _ _ F Hg) as Fw.
  destruct (dec_types args) as [ts r1].
  destruct r1 as [|n r2]; [injection H as <- _ _; apply post_refl; assumption|].
  pose proof (dec_hrefs_ok st n r2 (proj1 W)) as Hh.
  destruct (dec_hrefs st n r2) as [hs r3]. cbn [fst] in Hh.
  destruct (dec_rows ts n r3) as [rows0 rest0]. cbv zeta in H.
  destruct (existsb (fun h => N.ltb MAX_AT_ID (e_id h)) hs) eqn:Eex.
  - injection H as <- _ _. fin0 W. exact Hh.
  - assert (Hv : Forall valid_entity hs).
    { apply Forall_forall. intros h Hin. rewrite Forall_forall in Hh.
      pose proof (existsb_false_forall _ _ Eex h Hin) as Hid. cbv beta in Hid.
      destruct (N.ltb_spec MAX_AT_ID (e_id h)); [discriminate|].
      split; [unfold MAX_AT_ID, W32 in *; lia|apply Hh; exact Hin]. }
    destruct (w_spawn_column_batch_at w hs (dedup_sorted (tsort (e_u st) ts)) _) as [[w' [c|]] d] eqn:Es;
      injection H as <- _ _.
    + fin1 W Hg wi w' 1 hs; [nz|intros _; exact Hh].
    + fin1 W Hg wi w' 0 hs; [|nz]. intros _ Fw'. split; [|exact Hh].
      eapply column_batch_at_keeps; try eassumption; [apply sorted_dedup_ati; exact T|apply norm_rows_ok].
Qed.

(* 17: Extend = a fold of spawn over the rows *)
Definition ext_step (u : universe) (acc : world * list entity * option N) (row : list (tid * val)) :=
  let '(w0, hs0, pan0) := acc in
  match pan0 with
  | Some _ => acc
  | None => match w_spawn u w0 {| b_key := Some (0 :: map fst row); b_items := row |} with
            | Done (w1, h) => (w1, hs0 ++ [h], None)
            | Panic c => (w0, hs0, Some c)
            end
  end.

Lemma extend_fold u : total_inj u -> forall rows w hs pan w' hs' pan',
  fold_left (ext_step u) rows (w, hs, pan) = (w', hs', pan') ->
  idm (w_ents w) <= idm (w_ents w') /\ (pan' = None -> pan = None) /\
  (WInv u w -> pan' = None -> fits w' -> Forall hgen_ok hs -> WInv u w' /\ Forall hgen_ok hs').
Proof.
  intros T. induction rows as [|row rows IH]; intros w hs pan w' hs' pan' H; cbn [fold_left] in H.
  - injection H as <- <- <-. split; [lia|]. split; auto.
  - destruct pan as [c|]; cbn [ext_step] in H.
    + destruct (IH _ _ _ _ _ _ H) as (Hm & Hp & _). split; [exact Hm|]. split; [exact Hp|].
      intros _ E. specialize (Hp E). discriminate Hp.
    + destruct (w_spawn u w _) as [[w1 h]|c] eqn:Es.
      * destruct (IH _ _ _ _ _ _ H) as (Hm & _ & Hi). pose proof (idm_w_spawn _ _ _ _ _ Es) as Hm1.
        split; [lia|]. split; [reflexivity|]. intros I E F' Hhs.
        assert (F : fits w) by (eapply fits_mono; [|exact F']; lia).
        assert (F1 : fits w1) by (eapply fits_mono; [|exact F']; lia).
        assert (Hk : keyc {| b_key := Some (0 :: map fst row); b_items := row |}) by (intros k [= <-]; reflexivity).
        destruct (spawn_keeps _ _ _ _ _ T I F Hk Es F1) as (I1 & Hv).
        apply Hi; auto. apply Forall_app. split; [exact Hhs|apply Forall_one, valid_hgen, Hv].
      * destruct (IH _ _ _ _ _ _ H) as (Hm & Hp & _). split; [exact Hm|]. split; [reflexivity|].
        intros _ E. specialize (Hp E). discriminate Hp.
Qed.

Lemma hg_sorted hs : Forall hgen_ok hs -> Forall hgen_ok (sort_by to_bits hs).
Proof. intros H. apply Forall_forall. intros x Hx. apply In_sort_by in Hx. rewrite Forall_forall in H. auto. Qed.

Lemma hg_reorder k hs : Forall hgen_ok hs -> Forall hgen_ok (takeN k hs ++ sort_by to_bits (dropN k hs)).
Proof.
  intros H. rewrite Forall_forall in H. apply Forall_app. split.
  - apply Forall_forall. intros x Hx. apply H. eapply In_takeN. exact Hx.
  - apply hg_sorted. apply Forall_forall. intros x Hx. apply H. eapply In_dropN. exact Hx.
Qed.

Lemma step_op17 st wi args st' rest obs :
  total_inj (e_u st) -> est_inv st -> est_fits st -> est_wf st ->
  exec_op st 17 (wi :: args) = (st', rest, obs) -> est_fits st' -> post st st'.
Proof.
  intros T I F W H F'. red_op H. destruct (get_w st wi) as [w|] eqn:Hg; [|dead_world H W].
  pose proof (est_inv_get _ _ _ I Hg) as Iw. pose proof (est_fits_get _ _ _ F Hg) as Fw.
  destruct (dec_types args) as [ts r1].
  destruct r1 as [|n r2]; [injection H as <- _ _; apply post_refl; assumption|].
  destruct (dec_rows ts n r2) as [rows rest0].
  match type of H with context [match ?X with _ => _ end] =>
    match X with fold_left _ _ _ => destruct X as [[w' hs] pan] eqn:Ef end end.
  assert (Ef' : fold_left (ext_step (e_u st)) rows (w, [], None) = (w', hs, pan)) by exact Ef.
  destruct (extend_fold (e_u st) T rows w [] None w' hs pan Ef') as (_ & _ & Hi).
  cbv beta iota in H. destruct pan as [c|]; injection H as <- _ _.
  - fin1 W Hg wi w' 1 (repeatN NOHANDLE n); [nz|intros _; hg_tac].
  - fin1 W Hg wi w' 0 (sort_by to_bits hs); [|nz]. intros _ Fw'.
    destruct (Hi Iw eq_refl Fw' (Forall_nil _)) as (I' & Hhs). split; [exact I'|apply hg_sorted, Hhs].
Qed.

(* 18 / 19: spawn_batch / spawn_column_batch with a partially consumed iterator *)
Lemma step_op18 st wi args st' rest obs :
  total_inj (e_u st) -> est_inv st -> est_fits st -> est_wf st ->
  exec_op st 18 (wi :: args) = (st', rest, obs) -> est_fits st' -> post st st'.
Proof.
  intros T I F W H F'. red_op H. destruct (get_w st wi) as [w|] eqn:Hg; [|dead_world H W].
  pose proof (est_inv_get _ _ _ I Hg) as Iw. pose proof (est_fits_get _ _ _ F Hg) as Fw.
  destruct args as [|k args']; [injection H as <- _ _; apply post_refl; assumption|].
  destruct (dec_types args') as [ts r1].
  destruct r1 as [|n r2]; [injection H as <- _ _; apply post_refl; assumption|].
  destruct (dec_rows ts n r2) as [rows rest0]. cbv zeta in H.
  destruct (w_spawn_batch (e_u st) w (0 :: ts) ts rows) as [[w' hs]|c] eqn:Es; injection H as <- _ _.
  - fin1 W Hg wi w' 0 (takeN k hs ++ sort_by to_bits (dropN k hs)); [|nz]. intros _ Fw'.
    destruct (spawn_batch_keeps _ _ _ _ _ _ _ T Iw Fw eq_refl Es Fw') as (I' & Hv).
    split; [exact I'|]. apply hg_reorder. eapply Forall_impl; [|exact Hv]. intros a. apply valid_hgen.
  - fin1 W Hg wi w 1 (repeatN NOHANDLE n); [nz|intros _; hg_tac].
Qed.

Lemma step_op19 st wi args st' rest obs :
  total_inj (e_u st) -> est_inv st -> est_fits st -> est_wf st ->
  exec_op st 19 (wi :: args) = (st', rest, obs) -> est_fits st' -> post st st'.
Proof.
  intros T I F W H F'. red_op H. destruct (get_w st wi) as [w|] eqn:Hg; [|dead_world H W].
  pose proof (est_inv_get _ _ _ I Hg) as Iw. pose proof (est_fits_get _ _ _ F Hg) as Fw.
  destruct args as [|k args']; [injection H as <- _ _; apply post_refl; assumption|].
  destruct (dec_types args') as [ts r1].
  destruct r1 as [|n r2]; [injection H as <- _ _; apply post_refl; assumption|].
  destruct (dec_rows ts n r2) as [rows0 rest0]. cbv zeta in H.
  destruct (w_spawn_column_batch w (dedup_sorted (tsort (e_u st) ts)) _) as [[w' hs]|c] eqn:Es; injection H as <- _ _.
  - fin1 W Hg wi w' 0 (takeN k hs ++ sort_by to_bits (dropN k hs)); [|nz]. intros _ Fw'.
    destruct (column_batch_keeps _ _ _ _ _ _ T Iw Fw (sorted_dedup_ati _ ts T) (norm_rows_ok _ rows0) Es Fw') as (I' & Hh).
    split; [exact I'|apply hg_reorder, Hh].
  - fin1 W Hg wi w 1 (repeatN NOHANDLE n); [nz|intros _; hg_tac].
Qed.

Lemma step_op21 st wi args st' rest obs :
  total_inj (e_u st) -> est_inv st -> est_fits st -> est_wf st ->
  exec_op st 21 (wi :: args) = (st', rest, obs) -> est_fits st' -> post st st'.
Proof.
  intros T I F W H F'. red_op H.
  destruct (nthN (e_ws st) wi) as [s|] eqn:Es; [|injection H as <- _ _; apply post_refl; assumption].
  destruct (N.eqb (ws_state s) 2); [injection H as <- _ _; apply post_refl; assumption|].
  destruct (w_clear (ws_world s)) as [w' d]. injection H as <- _ _.
  eapply (finish1 _ _ wi w' 2 (@nil entity)); [eassumption|eassumption|eapply nthN_Some_lt; exact Es|reflexivity|reflexivity|
    hs_eq|exact (proj2 W)|eassumption|nz|constructor].
Qed.

(* ============================================================================================== *)
(** * 4. Operations that leave worlds, handles and containers alone (20, 23, 30, 90, guards 100..115) *)

Definition same_core (st st' : est) : Prop :=
  e_u st' = e_u st /\ e_ws st' = e_ws st /\ e_handles st' = e_handles st /\ e_k st' = e_k st.

Lemma core_refl st : same_core st st.
Proof. repeat split. Qed.

Lemma core_trans a b c : same_core a b -> same_core b c -> same_core a c.
Proof. intros (A1 & A2 & A3 & A4) (B1 & B2 & B3 & B4). repeat split; congruence. Qed.

Lemma post_core st st' : est_inv st -> est_wf st -> same_core st st' -> post st st'.
Proof.
  intros I W (A1 & A2 & A3 & A4). apply (finish0 st st' []); auto.
  - rewrite A3. symmetry. apply app_nil_r.
  - rewrite A4. apply W.
Qed.

Lemma push_guard_core st g w cs : same_core st (push_guard st g w cs).
Proof. repeat split. Qed.
Lemma set_g_core st gs cs : same_core st (set_g st gs cs).
Proof. repeat split. Qed.

Lemma drop_slot_core st slot : same_core st (fst (drop_slot st slot)).
Proof.
  unfold drop_slot. destruct (nthN (e_guards st) slot) as [g|]; [|apply core_refl].
  destruct (guard_world g) as [w|]; [|apply core_refl].
  destruct (guard_drop _ _ g) as [cs p]. apply set_g_core.
Qed.

Lemma drop_all_core : forall fuel st slot, same_core st (drop_all_slots fuel st slot).
Proof.
  induction fuel as [|f IH]; intros st slot; cbn [drop_all_slots]; [apply core_refl|].
  eapply core_trans; [apply drop_slot_core|apply IH].
Qed.

Ltac core_done :=
  first [ apply core_refl | apply push_guard_core | apply set_g_core | apply drop_all_core | assumption
        | eapply core_trans; [eassumption|first [apply push_guard_core | apply set_g_core | apply core_refl]] ].

(* destruct every match / if / destructuring let at the head of H until it is an equation of triples *)
Ltac split_head H :=
  repeat match type of H with
         | (match drop_slot ?s ?k with _ => _ end) = _ =>
             let P := fresh "P" in pose proof (drop_slot_core s k) as P;
             let a := fresh "st1" in let b := fresh "p" in destruct (drop_slot s k) as [a b]; cbn [fst] in P
         | (if ?c then _ else _) = _ => destruct c
         | (match ?x with _ => _ end) = _ => destruct x
         end.

Lemma run_query_core st wi w qidx path arg q st1 o :
  run_query st wi w qidx path arg q = (st1, o) -> same_core st st1.
Proof.
  unfold run_query. intros H.
  destruct path as [|p]; [injection H as <- _; apply core_refl|].
  do 4 (try destruct p as [p|p|]); split_head H; injection H as <- _; repeat split.
Qed.

Lemma step_op20 st wi args st' rest obs :
  est_inv st -> est_wf st -> exec_op st 20 (wi :: args) = (st', rest, obs) -> post st st'.
Proof.
  intros I W H. red_op H. destruct (dec_hrefs st wi args) as [hs r]. injection H as <- _ _.
  apply post_refl; assumption.
Qed.

Lemma step_op23 st l st' rest obs :
  est_inv st -> est_wf st -> exec_op st 23 l = (st', rest, obs) -> post st st'.
Proof. intros I W H. red_op H. injection H as <- _ _. apply post_refl; assumption. Qed.

Lemma step_op90 st wi args st' rest obs :
  est_inv st -> est_wf st -> exec_op st 90 (wi :: args) = (st', rest, obs) -> post st st'.
Proof.
  intros I W H. red_op H.
  destruct args as [|fmt [|reader [|x r1]]]; try (injection H as <- _ _; apply post_refl; assumption).
  destruct (dec_ast r1) as [q r2]. destruct r2 as [|nmut r3]; [injection H as <- _ _; apply post_refl; assumption|].
  destruct (get_w st wi) as [w|]; [destruct (run_serde st w fmt reader q nmut r3) as [o r]|];
    injection H as <- _ _; apply post_refl; assumption.
Qed.

Lemma step_op30 st wi args st' rest obs :
  est_inv st -> est_wf st -> exec_op st 30 (wi :: args) = (st', rest, obs) -> post st st'.
Proof.
  intros I W H. red_op H.
  destruct args as [|qidx [|path [|arg [|n r]]]]; try (injection H as <- _ _; apply post_refl; assumption).
  destruct (dec_query _ _) as [q r0].
  destruct (get_w st wi) as [w|]; [|injection H as <- _ _; apply post_refl; assumption].
  destruct (run_query st wi w qidx path arg q) as [st1 o] eqn:Eq. injection H as <- _ _.
  apply post_core; [assumption|assumption|]. eapply run_query_core. exact Eq.
Qed.

Lemma exec_guard_core st opc l st' rest obs :
  100 <= opc <= 116 -> exec_guard st opc l = (st', rest, obs) -> same_core st st'.
Proof.
  intros Hr H. unfold exec_guard in H.
  destruct (creates_guard opc && _); [injection H as <- _ _; apply push_guard_core|].
  assert (E : opc = 100 \/ opc = 101 \/ opc = 102 \/ opc = 103 \/ opc = 104 \/ opc = 105 \/ opc = 106 \/ opc = 107 \/
              opc = 108 \/ opc = 109 \/ opc = 110 \/ opc = 111 \/ opc = 112 \/ opc = 113 \/ opc = 114 \/ opc = 115 \/ opc = 116) by lia.
  repeat (destruct E as [->|E]); try subst opc; cbv beta iota zeta in H;
    split_head H; injection H as <- _ _; core_done.
Qed.

Lemma kwf_conts_new u : kwf u conts_new.
Proof. split; cbn [conts_new k_cmd k_batch repeat]; repeat constructor. Qed.

Lemma step_op22 st l st' rest obs :
  est_inv st -> est_wf st -> exec_op st 22 l = (st', rest, obs) -> post st st'.
Proof.
  intros I W H. red_op H. injection H as <- _ _.
  eapply finish0; [eassumption|eassumption|reflexivity|reflexivity|hs_eq|apply kwf_conts_new|constructor].
Qed.

(* ============================================================================================== *)
(** * 5. Containers (opcodes 50..86) *)

Lemma Forall_updN {A} (P : A -> Prop) l i v : Forall P l -> P v -> Forall P (updN l i v).
Proof.
  intros Hl Hv. apply Forall_forall. intros x Hx. apply In_updN in Hx as [->|Hx]; [exact Hv|].
  rewrite Forall_forall in Hl. apply Hl. exact Hx.
Qed.

Lemma kwf_set_batch u k i ob : kwf u k -> cb_ok u ob -> kwf u (k_with_batch k (updN (k_batch k) i ob)).
Proof. intros (A & B) H. split; [exact A|]. cbn [k_with_batch k_batch]. apply Forall_updN; assumption. Qed.

Lemma kwf_set_cmd u k i c : kwf u k -> cmdbuf_ok c -> kwf u (k_with_cmd k (updN (k_cmd k) i c)).
Proof. intros (A & B) H. split; [|exact B]. cbn [k_with_cmd k_cmd]. apply Forall_updN; assumption. Qed.

Lemma kwf_spawns u k l : kwf u k -> kwf u (k_with_spawns k l).
Proof. intros H. exact H. Qed.

Lemma kwf_batch_get u k s b : kwf u k -> nthN (k_batch k) s = Some (Some b) -> cb_ok u (Some b).
Proof. intros (_ & B) H. rewrite Forall_forall in B. apply B. eapply nthN_In. exact H. Qed.

Lemma kwf_cmd_get u k cb c : kwf u k -> nthN (k_cmd k) cb = Some c -> cmdbuf_ok c.
Proof. intros (A & _) H. rewrite Forall_forall in A. apply A. eapply nthN_In. exact H. Qed.

Lemma post_set_k st k' : est_inv st -> est_wf st -> kwf (e_u st) k' -> post st (set_k st k').
Proof. intros I W K. eapply finish0; [eassumption|eassumption|reflexivity|reflexivity|hs_eq|exact K|constructor]. Qed.

Lemma keyc_built_clone c n : keyc (fst (built_clone_bundle c n)).
Proof. unfold built_clone_bundle. destruct (clone_infos (c_info c) n) as [info n']. apply keyc_none. Qed.

(* the rows of a complete, well-formed batch carry exactly the declared types *)
Lemma cbatch_rows_types u b :
  cb_ok u (Some b) -> cbatch_complete b = true -> forall v, In v (cbatch_rows b) -> map fst v = cb_types b.
Proof.
  intros (Hs & Hc) Hcomp v Hin. rewrite cbatch_rows_eq in Hin. apply in_map_iff in Hin as (i & <- & Hi).
  apply In_seqN in Hi. rewrite <- Hc. apply row_fst. intros [t l] Hp. cbn [snd].
  assert (Ht : In t (cb_types b)) by (rewrite <- Hc; apply (in_map fst) in Hp; exact Hp).
  destruct (proj1 (complete_iff b) Hcomp t Ht) as (l' & Hl' & Hlen).
  assert (Hnd : NoDup (map fst (cb_cols b))) by (rewrite Hc; eapply WorldProofs4.ati_nodup; exact Hs).
  rewrite (col_of_in _ _ _ Hnd Hp) in Hl'. injection Hl' as <-. lia.
Qed.

Lemma cb_ok_new u ts n : total_inj u -> cb_ok u (Some (cbatch_new u ts n)).
Proof.
  intros T. unfold cb_ok, cbatch_new. cbn [cb_types cb_cols]. split; [apply sorted_dedup_ati; exact T|].
  rewrite map_map. cbn [fst]. apply map_id.
Qed.

Lemma cb_ok_push u b t vs b' rej : cb_ok u (Some b) -> cbatch_push b t vs = Some (b', rej) -> cb_ok u (Some b').
Proof.
  intros (Hs & Hc) H. unfold cbatch_push in H. destruct (col_of t (cb_cols b)) as [cur|]; [|discriminate].
  injection H as <- _. unfold cb_ok. cbn [cb_types cb_cols]. rewrite map_fst_set_col. auto.
Qed.

Lemma cmdbuf_ok_record u c t b : cmdbuf_ok c -> cmdbuf_ok (fst (cm_record u c t b)).
Proof.
  intros H. unfold cm_record. destruct (cm_add_all u (cm_arena c) (b_items b)) as [[a' recs] ev]. cbn [fst].
  unfold cmdbuf_ok. cbn [cm_cmds]. apply Forall_app. split; [exact H|]. apply Forall_one. exact Logic.I.
Qed.

Lemma cmdbuf_ok_push c x : cmdbuf_ok c -> cmd_ok x -> cmdbuf_ok (cm_push_cmd c x).
Proof. intros H Hx. unfold cmdbuf_ok, cm_push_cmd. cbn [cm_cmds]. apply Forall_app. split; [exact H|apply Forall_one, Hx]. Qed.

Ltac red_cont H := unfold exec_cont in H; cbv beta iota zeta in H.

(* 53: EntityBuilder::build + spawn *)
Lemma step_op53 st l st' rest obs :
  total_inj (e_u st) -> est_inv st -> est_fits st -> est_wf st ->
  exec_cont st 53 l = (st', rest, obs) -> est_fits st' -> post st st'.
Proof.
  intros T I F W H F'. red_cont H.
  destruct l as [|s [|wi rest0]]; try (injection H as <- _ _; apply post_refl; assumption).
  destruct (get_w st wi) as [w|] eqn:Hg; [|dead_world H W].
  pose proof (est_inv_get _ _ _ I Hg) as Iw. pose proof (est_fits_get _ _ _ F Hg) as Fw.
  destruct (w_spawn (e_u st) w _) as [[w' h]|c] eqn:Es; injection H as <- _ _.
  - fin1 W Hg wi w' 0 [h]; [|nz].
    intros _ Fw'. destruct (spawn_keeps _ _ _ _ _ T Iw Fw (keyc_none _) Es Fw') as (I' & Hv).
    split; [exact I'|apply Forall_one, valid_hgen, Hv].
  - fin1 W Hg wi w 1 [NOHANDLE]; [nz|intros _; hg_tac].
Qed.

(* 54: EntityBuilder::build + insert *)
Lemma step_op54 st l st' rest obs :
  total_inj (e_u st) -> est_inv st -> est_fits st -> est_wf st ->
  exec_cont st 54 l = (st', rest, obs) -> est_fits st' -> post st st'.
Proof.
  intros T I F W H F'. red_cont H.
  destruct l as [|s [|wi r1]]; try (injection H as <- _ _; apply post_refl; assumption).
  destruct (dec_href st r1) as [h rest0].
  destruct (get_w st wi) as [w|] eqn:Hg; [|injection H as <- _ _; apply post_refl; assumption].
  pose proof (est_inv_get _ _ _ I Hg) as Iw. pose proof (est_fits_get _ _ _ F Hg) as Fw.
  destruct (w_insert (e_u st) w h _) as [[w' r]|c] eqn:Es.
  - assert (I' : WInv (e_u st) w') by (eapply insert_keeps; try eassumption; apply keyc_none).
    destruct r; injection H as <- _ _; (fin1 W Hg wi w' 0 (@nil entity); [intros _ _; split; [exact I'|constructor]|nz]).
  - injection H as <- _ _. fin1 W Hg wi w 1 (@nil entity); [nz|constructor].
Qed.

(* 64: spawn from a BuiltEntityClone *)
Lemma step_op64 st l st' rest obs :
  total_inj (e_u st) -> est_inv st -> est_fits st -> est_wf st ->
  exec_cont st 64 l = (st', rest, obs) -> est_fits st' -> post st st'.
Proof.
  intros T I F W H F'. red_cont H.
  destruct l as [|ks [|wi rest0]]; try (injection H as <- _ _; apply post_refl; assumption).
  destruct (get_w st wi) as [w|] eqn:Hg; [|dead_world H W].
  pose proof (est_inv_get _ _ _ I Hg) as Iw. pose proof (est_fits_get _ _ _ F Hg) as Fw.
  destruct (nthN (k_built (e_k st)) ks) as [[c|]|]; try dead_world H W.
  pose proof (keyc_built_clone c (k_next (e_k st))) as Hk.
  destruct (built_clone_bundle c (k_next (e_k st))) as [b next']. cbn [fst] in Hk.
  destruct (w_spawn (e_u st) w b) as [[w' h]|pc] eqn:Es; injection H as <- _ _.
  - fin1 W Hg wi w' 0 [h]; [|nz].
    intros _ Fw'. destruct (spawn_keeps _ _ _ _ _ T Iw Fw Hk Es Fw') as (I' & Hv).
    split; [exact I'|apply Forall_one, valid_hgen, Hv].
  - fin1 W Hg wi w 1 [NOHANDLE]; [nz|intros _; hg_tac].
Qed.

(* 70 / 71 / 74: ColumnBatchBuilder slots *)
Lemma step_op70 st l st' rest obs :
  total_inj (e_u st) -> est_inv st -> est_wf st -> exec_cont st 70 l = (st', rest, obs) -> post st st'.
Proof.
  intros T I W H. red_cont H.
  destruct l as [|s r1]; try (injection H as <- _ _; apply post_refl; assumption).
  destruct (dec_types r1) as [ts r2]. destruct r2 as [|n rest0]; injection H as <- _ _; [apply post_refl; assumption|].
  apply post_set_k; try assumption. apply kwf_set_batch; [exact (proj2 W)|apply cb_ok_new; exact T].
Qed.

Lemma step_op71 st l st' rest obs :
  est_inv st -> est_wf st -> exec_cont st 71 l = (st', rest, obs) -> post st st'.
Proof.
  intros I W H. red_cont H.
  destruct l as [|s [|t [|m r1]]]; try (injection H as <- _ _; apply post_refl; assumption).
  destruct (nthN (k_batch (e_k st)) s) as [[b|]|] eqn:Eb; try (injection H as <- _ _; apply post_refl; assumption).
  destruct (cbatch_push b t (takeN m r1)) as [[b' rej]|] eqn:Ep; injection H as <- _ _; [|apply post_refl; assumption].
  apply post_set_k; try assumption. apply kwf_set_batch; [exact (proj2 W)|].
  eapply cb_ok_push; [|exact Ep]. eapply kwf_batch_get; [exact (proj2 W)|exact Eb].
Qed.

Lemma step_op74 st l st' rest obs :
  est_inv st -> est_wf st -> exec_cont st 74 l = (st', rest, obs) -> post st st'.
Proof.
  intros I W H. red_cont H.
  destruct l as [|s rest0]; injection H as <- _ _; [apply post_refl; assumption|].
  apply post_set_k; try assumption. apply kwf_set_batch; [exact (proj2 W)|exact Logic.I].
Qed.

(* 72: ColumnBatchBuilder::build + spawn_column_batch *)
Lemma step_op72 st l st' rest obs :
  total_inj (e_u st) -> est_inv st -> est_fits st -> est_wf st ->
  exec_cont st 72 l = (st', rest, obs) -> est_fits st' -> post st st'.
Proof.
  intros T I F W H F'. red_cont H.
  destruct l as [|s [|wi rest0]]; try (injection H as <- _ _; apply post_refl; assumption).
  destruct (get_w st wi) as [w|] eqn:Hg; [|injection H as <- _ _; apply post_refl; assumption].
  pose proof (est_inv_get _ _ _ I Hg) as Iw. pose proof (est_fits_get _ _ _ F Hg) as Fw.
  destruct (nthN (k_batch (e_k st)) s) as [[b|]|] eqn:Eb; try (injection H as <- _ _; apply post_refl; assumption).
  pose proof (kwf_batch_get _ _ _ _ (proj2 W) Eb) as Hb.
  assert (K : kwf (e_u st) (k_with_batch (e_k st) (updN (k_batch (e_k st)) s None))).
  { apply kwf_set_batch; [exact (proj2 W)|exact Logic.I]. }
  destruct (cbatch_complete b) eqn:Ec.
  - destruct (w_spawn_column_batch w (cb_types b) (cbatch_rows b)) as [[w' hs]|pc] eqn:Es; injection H as <- _ _.
    + eapply (finish1 _ _ wi w' 0 hs); [eassumption|eassumption|exact (proj2 (get_w_Some _ _ _ Hg))|reflexivity|reflexivity|
        hs_eq|exact K|eassumption| |nz].
      intros _ Fw'. eapply column_batch_keeps; try eassumption; [apply Hb|apply (cbatch_rows_types _ _ Hb Ec)].
    + eapply (finish1 _ _ wi w 1 (repeatN NOHANDLE (cb_target b))); [eassumption|eassumption|
        exact (proj2 (get_w_Some _ _ _ Hg))|reflexivity|reflexivity|hs_eq|exact K|eassumption|nz|intros _; hg_tac].
  - injection H as <- _ _.
    eapply finish0; [eassumption|eassumption|reflexivity|reflexivity|hs_eq|exact K|hg_tac].
Qed.

(* 80..83, 85, 86: CommandBuffer recording *)
Lemma step_op80 st l st' rest obs :
  est_inv st -> est_wf st -> exec_cont st 80 l = (st', rest, obs) -> post st st'.
Proof.
  intros I W H. red_cont H.
  destruct l as [|cb r1]; try (injection H as <- _ _; apply post_refl; assumption).
  destruct (dec_bundle (e_u st) r1) as [b rest0].
  destruct (nthN (k_cmd (e_k st)) cb) as [c|] eqn:Ec; [|injection H as <- _ _; apply post_refl; assumption].
  pose proof (cmdbuf_ok_record (e_u st) c None b (kwf_cmd_get _ _ _ _ (proj2 W) Ec)) as Hc.
  destruct (cm_record (e_u st) c None b) as [c' ev]. cbn [fst] in Hc. injection H as <- _ _.
  apply post_set_k; try assumption. apply kwf_spawns. apply kwf_set_cmd; [exact (proj2 W)|exact Hc].
Qed.

Lemma step_op81 st l st' rest obs :
  est_inv st -> est_wf st -> exec_cont st 81 l = (st', rest, obs) -> post st st'.
Proof.
  intros I W H. red_cont H.
  destruct l as [|cb r1]; try (injection H as <- _ _; apply post_refl; assumption).
  destruct (dec_href st r1) as [h r2]. destruct (dec_bundle (e_u st) r2) as [b rest0].
  destruct (nthN (k_cmd (e_k st)) cb) as [c|] eqn:Ec; [|injection H as <- _ _; apply post_refl; assumption].
  pose proof (cmdbuf_ok_record (e_u st) c (Some h) b (kwf_cmd_get _ _ _ _ (proj2 W) Ec)) as Hc.
  destruct (cm_record (e_u st) c (Some h) b) as [c' ev]. cbn [fst] in Hc. injection H as <- _ _.
  apply post_set_k; try assumption. apply kwf_set_cmd; [exact (proj2 W)|exact Hc].
Qed.

Lemma step_op82 st l st' rest obs :
  est_inv st -> est_wf st -> exec_cont st 82 l = (st', rest, obs) -> post st st'.
Proof.
  intros I W H. red_cont H.
  destruct l as [|cb r1]; try (injection H as <- _ _; apply post_refl; assumption).
  destruct (dec_href st r1) as [h r2]. destruct (dec_types r2) as [ts rest0].
  destruct (nthN (k_cmd (e_k st)) cb) as [c|] eqn:Ec; injection H as <- _ _; [|apply post_refl; assumption].
  apply post_set_k; try assumption. apply kwf_set_cmd; [exact (proj2 W)|].
  apply cmdbuf_ok_push; [exact (kwf_cmd_get _ _ _ _ (proj2 W) Ec)|reflexivity].
Qed.

Lemma step_op83 st l st' rest obs :
  est_inv st -> est_wf st -> exec_cont st 83 l = (st', rest, obs) -> post st st'.
Proof.
  intros I W H. red_cont H.
  destruct l as [|cb r1]; try (injection H as <- _ _; apply post_refl; assumption).
  destruct (dec_href st r1) as [h rest0].
  destruct (nthN (k_cmd (e_k st)) cb) as [c|] eqn:Ec; injection H as <- _ _; [|apply post_refl; assumption].
  apply post_set_k; try assumption. apply kwf_set_cmd; [exact (proj2 W)|].
  apply cmdbuf_ok_push; [exact (kwf_cmd_get _ _ _ _ (proj2 W) Ec)|exact Logic.I].
Qed.

Lemma step_op85 st l st' rest obs :
  est_inv st -> est_wf st -> exec_cont st 85 l = (st', rest, obs) -> post st st'.
Proof.
  intros I W H. red_cont H.
  destruct l as [|cb rest0]; try (injection H as <- _ _; apply post_refl; assumption).
  destruct (nthN (k_cmd (e_k st)) cb) as [c|] eqn:Ec; [|injection H as <- _ _; apply post_refl; assumption].
  unfold cm_clear in H. injection H as <- _ _.
  apply post_set_k; try assumption. apply kwf_spawns. apply kwf_set_cmd; [exact (proj2 W)|constructor].
Qed.

Lemma step_op86 st l st' rest obs :
  est_inv st -> est_wf st -> exec_cont st 86 l = (st', rest, obs) -> post st st'.
Proof.
  intros I W H. red_cont H.
  destruct l as [|cb rest0]; try (injection H as <- _ _; apply post_refl; assumption).
  destruct (nthN (k_cmd (e_k st)) cb) as [c|] eqn:Ec; injection H as <- _ _; [|apply post_refl; assumption].
  apply post_set_k; try assumption. apply kwf_spawns. apply kwf_set_cmd; [exact (proj2 W)|constructor].
Qed.

(* 84: CommandBuffer::run_on *)
Lemma step_op84 st l st' rest obs :
  total_inj (e_u st) -> est_inv st -> est_fits st -> est_wf st ->
  exec_cont st 84 l = (st', rest, obs) -> est_fits st' -> post st st'.
Proof.
  intros T I F W H F'. red_cont H.
  destruct l as [|cb [|wi rest0]]; try (injection H as <- _ _; apply post_refl; assumption).
  destruct (get_w st wi) as [w|] eqn:Hg; [|injection H as <- _ _; apply post_refl; assumption].
  pose proof (est_inv_get _ _ _ I Hg) as Iw. pose proof (est_fits_get _ _ _ F Hg) as Fw.
  destruct (nthN (k_cmd (e_k st)) cb) as [c|] eqn:Ec; [|injection H as <- _ _; apply post_refl; assumption].
  pose proof (kwf_cmd_get _ _ _ _ (proj2 W) Ec) as Hc.
  destruct (cm_run_on (e_u st) w c) as [[[[w' c'] spawned] d] p] eqn:Er. unfold cm_run_on in Er.
  destruct (cm_run_keeps _ T _ _ _ _ _ _ _ _ _ _ _ _ Er Hc) as (_ & Hinv).
  destruct (cm_run_gens _ _ _ _ _ _ _ _ _ _ _ _ _ Er (WInv_gens _ _ Iw) (Forall_nil _)) as (_ & Hsp).
  pose proof (cm_run_cmds _ _ _ _ _ _ _ _ _ _ _ _ _ Er Hc) as Hc'.
  assert (K : kwf (e_u st) (k_with_spawns (k_with_cmd (e_k st) (updN (k_cmd (e_k st)) cb c')) (updN (k_spawns (e_k st)) cb 0))).
  { apply kwf_spawns. apply kwf_set_cmd; [exact (proj2 W)|exact Hc']. }
  match type of H with context [add_handles _ ?hs0] => set (hs := hs0) in * end.
  assert (Hhs : Forall hgen_ok hs).
  { unfold hs. apply Forall_app. split; [|apply hgen_repeat]. apply Forall_forall. intros x Hx.
    apply In_sort_by in Hx. apply filter_In in Hx as (Hx & _). rewrite Forall_forall in Hsp. apply Hsp. exact Hx. }
  destruct p as [pc|]; injection H as <- _ _.
  - eapply (finish1 _ _ wi w' 1 hs); [eassumption|eassumption|exact (proj2 (get_w_Some _ _ _ Hg))|reflexivity|reflexivity|
      hs_eq|exact K|eassumption|nz|intros _; exact Hhs].
  - eapply (finish1 _ _ wi w' 0 hs); [eassumption|eassumption|exact (proj2 (get_w_Some _ _ _ Hg))|reflexivity|reflexivity|
      hs_eq|exact K|eassumption| |nz].
    intros _ Fw'. split; [apply Hinv; auto|exact Hhs].
Qed.

(* the remaining container opcodes only touch builder slots (or nothing) *)
Lemma step_cont_simple st opc l st' rest obs :
  est_inv st -> est_wf st ->
  (opc = 50 \/ opc = 51 \/ opc = 52 \/ opc = 55 \/ opc = 56 \/ opc = 57 \/ opc = 58 \/ opc = 59 \/ opc = 60 \/ opc = 61 \/
   opc = 62 \/ opc = 63 \/ opc = 65 \/ opc = 66 \/ opc = 67 \/ opc = 68 \/ opc = 69 \/ opc = 73 \/ opc = 75 \/ opc = 76 \/
   opc = 77 \/ opc = 78 \/ opc = 79) ->
  exec_cont st opc l = (st', rest, obs) -> post st st'.
Proof.
  intros I W E H.
  repeat (destruct E as [->|E]); try subst opc; red_cont H; split_head H; injection H as <- _ _;
    first [apply post_refl; assumption | apply post_set_k; [assumption|assumption|exact (proj2 W)]].
Qed.

Lemma step_cont st opc l st' rest obs :
  total_inj (e_u st) -> est_inv st -> est_fits st -> est_wf st -> 50 <= opc <= 86 ->
  exec_cont st opc l = (st', rest, obs) -> est_fits st' -> post st st'.
Proof.
  intros T I F W Hr H F'.
  assert (E : (opc = 50 \/ opc = 51 \/ opc = 52 \/ opc = 55 \/ opc = 56 \/ opc = 57 \/ opc = 58 \/ opc = 59 \/ opc = 60 \/
               opc = 61 \/ opc = 62 \/ opc = 63 \/ opc = 65 \/ opc = 66 \/ opc = 67 \/ opc = 68 \/ opc = 69 \/ opc = 73 \/
               opc = 75 \/ opc = 76 \/ opc = 77 \/ opc = 78 \/ opc = 79) \/
              opc = 53 \/ opc = 54 \/ opc = 64 \/ opc = 70 \/ opc = 71 \/ opc = 72 \/ opc = 74 \/ opc = 80 \/ opc = 81 \/
              opc = 82 \/ opc = 83 \/ opc = 84 \/ opc = 85 \/ opc = 86) by lia.
  destruct E as [E|E]; [eapply step_cont_simple; eassumption|].
  repeat (destruct E as [->|E]); try subst opc;
    first [ eapply step_op53; eassumption | eapply step_op54; eassumption | eapply step_op64; eassumption
          | eapply step_op70; eassumption | eapply step_op71; eassumption | eapply step_op72; eassumption
          | eapply step_op74; eassumption | eapply step_op80; eassumption | eapply step_op81; eassumption
          | eapply step_op82; eassumption | eapply step_op83; eassumption | eapply step_op84; eassumption
          | eapply step_op85; eassumption | eapply step_op86; eassumption ].
Qed.

(* ============================================================================================== *)
(** * 6. Dispatch *)

Lemma exec_op_cont st opc l : 50 <= opc <= 86 -> exec_op st opc l = exec_cont st opc l.
Proof.
  intros H. unfold exec_op.
  replace (N.leb 50 opc && N.leb opc 86) with true
    by (destruct (N.leb_spec 50 opc), (N.leb_spec opc 86); cbn [andb]; try reflexivity; lia).
  reflexivity.
Qed.

Lemma exec_op_guard st opc l : 100 <= opc <= 116 -> exec_op st opc l = exec_guard st opc l.
Proof.
  intros H. unfold exec_op.
  replace (N.leb 50 opc && N.leb opc 86) with false
    by (destruct (N.leb_spec 50 opc), (N.leb_spec opc 86); cbn [andb]; try reflexivity; lia).
  replace (N.leb 100 opc && N.leb opc 116) with true
    by (destruct (N.leb_spec 100 opc), (N.leb_spec opc 116); cbn [andb]; try reflexivity; lia).
  reflexivity.
Qed.

Lemma exec_op_nil st opc :
  ~ (50 <= opc <= 86) -> ~ (100 <= opc <= 116) -> opc <> 22 -> opc <> 23 -> exec_op st opc [] = (st, [], []).
Proof.
  intros H1 H2 H3 H4. unfold exec_op.
  replace (N.leb 50 opc && N.leb opc 86) with false
    by (destruct (N.leb_spec 50 opc), (N.leb_spec opc 86); cbn [andb]; try reflexivity; lia).
  replace (N.leb 100 opc && N.leb opc 116) with false
    by (destruct (N.leb_spec 100 opc), (N.leb_spec opc 116); cbn [andb]; try reflexivity; lia).
  destruct (N.eqb_spec opc 23); [contradiction|]. destruct (N.eqb_spec opc 22); [contradiction|]. reflexivity.
Qed.

(* an opcode that means nothing: the script stops (live world) or the step is skipped (dead world) *)
Lemma exec_op_other st opc wi args :
  ~ (50 <= opc <= 86) -> ~ (100 <= opc <= 116) -> opc <> 22 -> opc <> 23 -> opc <> 20 -> opc <> 21 -> opc <> 30 ->
  opc <> 90 -> opc <> 24 -> opc <> 25 -> ~ (1 <= opc <= 19) ->
  exec_op st opc (wi :: args) =
  match get_w st wi with
  | None => (add_handles st (repeatN NOHANDLE 0), args, [8])
  | Some _ => (st, [], [])
  end.
Proof.
  intros H1 H2 H3 H4 H5 H6 H7 H8 H10 H11 H9. unfold exec_op.
  replace (N.leb 50 opc && N.leb opc 86) with false
    by (destruct (N.leb_spec 50 opc), (N.leb_spec opc 86); cbn [andb]; try reflexivity; lia).
  replace (N.leb 100 opc && N.leb opc 116) with false
    by (destruct (N.leb_spec 100 opc), (N.leb_spec opc 116); cbn [andb]; try reflexivity; lia).
  destruct (N.eqb_spec opc 23); [contradiction|]. destruct (N.eqb_spec opc 22); [contradiction|].
  destruct opc as [|p]; [reflexivity|].
  do 7 (try (destruct p as [p|p|])); try (exfalso; lia); reflexivity.
Qed.

(* every opcode, every argument list *)
Lemma interp_step_post :
  forall st opc l st' rest obs,
    total_inj (e_u st) -> est_inv st -> est_fits st -> est_wf st ->
    exec_op st opc l = (st', rest, obs) -> est_fits st' -> post st st'.
Proof.
  intros st opc l st' rest obs T I F W H F'.
  destruct (N.le_gt_cases 50 opc) as [A1|A1]; [destruct (N.le_gt_cases opc 86) as [A2|A2]|].
  1: { rewrite exec_op_cont in H by lia. eapply step_cont; try eassumption. lia. }
  all: (destruct (N.le_gt_cases 100 opc) as [B1|B1]; [destruct (N.le_gt_cases opc 116) as [B2|B2]|]).
  1,4: (rewrite exec_op_guard in H by lia; apply post_core; [assumption|assumption|];
        eapply exec_guard_core; [|exact H]; lia).
  all: (destruct (N.eq_dec opc 23) as [->|C1]; [eapply step_op23; eassumption|]).
  all: (destruct (N.eq_dec opc 22) as [->|C2]; [eapply step_op22; eassumption|]).
  all: (destruct l as [|wi args]; [rewrite exec_op_nil in H by lia; injection H as <- _ _; apply post_refl; assumption|]).
  all: (destruct (N.eq_dec opc 20) as [->|C3]; [eapply step_op20; eassumption|]).
  all: (destruct (N.eq_dec opc 21) as [->|C4]; [eapply step_op21; eassumption|]).
  all: (destruct (N.eq_dec opc 30) as [->|C5]; [eapply step_op30; eassumption|]).
  all: (destruct (N.eq_dec opc 90) as [->|C6]; [eapply step_op90; eassumption|]).
  all: (destruct (N.eq_dec opc 24) as [->|C7]; [eapply step_op24; eassumption|]).
  all: (destruct (N.eq_dec opc 25) as [->|C8]; [eapply step_op25; eassumption|]).
  all: (destruct (N.le_gt_cases 1 opc) as [D1|D1]; [destruct (N.le_gt_cases opc 19) as [D2|D2]|]).
  all: try (rewrite exec_op_other in H by lia; destruct (get_w st wi); injection H as <- _ _;
            [apply post_refl; assumption|fin0 W; hg_tac]).
  all: (assert (E : opc = 1 \/ opc = 2 \/ opc = 3 \/ opc = 4 \/ opc = 5 \/ opc = 6 \/ opc = 7 \/ opc = 8 \/ opc = 9 \/
                   opc = 10 \/ opc = 11 \/ opc = 12 \/ opc = 13 \/ opc = 14 \/ opc = 15 \/ opc = 16 \/ opc = 17 \/ opc = 18 \/
                   opc = 19) by lia;
        repeat (destruct E as [->|E]); try subst opc;
        first [ eapply step_op1; eassumption | eapply step_op2; eassumption | eapply step_op3; eassumption
              | eapply step_op4; eassumption | eapply step_op5; eassumption | eapply step_op6; eassumption
              | eapply step_op7; eassumption | eapply step_op8; eassumption | eapply step_op9; eassumption
              | eapply step_op10; eassumption | eapply step_op11; eassumption | eapply step_op12; eassumption
              | eapply step_op13; eassumption | eapply step_op14; eassumption | eapply step_op15; eassumption
              | eapply step_op16; eassumption | eapply step_op17; eassumption | eapply step_op18; eassumption
              | eapply step_op19; eassumption ]).
Qed.

(** the closest true statement to [interp_step_inv_stmt]: the state must also satisfy [est_wf], which the
    step preserves (and which holds initially) *)
Theorem interp_step_inv_wf :
  forall st opc l st' rest obs,
    total_inj (e_u st) -> est_wf st -> est_inv st -> est_fits st ->
    exec_op st opc l = (st', rest, obs) -> est_fits st' ->
    est_inv st' /\ est_wf st' /\ e_u st' = e_u st.
Proof.
  intros st opc l st' rest obs T W I F H F'.
  destruct (interp_step_post st opc l st' rest obs T I F W H F') as (A & B & C). auto.
Qed.

(* ============================================================================================== *)
(** * 7. The capacity bookkeeping does not touch the worlds *)

(* the local function [upd] of caps_post *)
Definition caps_upd (st st' : est) (opc wi : N) (args : list N) (st'' : est) (w : N) : est :=
  let u := e_u st in
  match nthN (e_ws st) w, nthN (e_ws st') w with
  | Some so, Some sn =>
      let '(ri, rn) := if N.eqb w wi then caps_hint u opc args (ws_world sn) else (None, 0) in
      let batch_new := match ri with
                       | Some j => N.leb (lenN (w_archs (ws_world so))) j && (N.eqb opc 15 || N.eqb opc 16)
                       | None => false end in
      let old_caps := match nthN (e_caps st'') w with Some c => c | None => [] end in
      let '(mid_w, mid_caps) :=
        match w_flush (ws_world so) with
        | Done wf => if N.eqb opc 10 || N.eqb opc 11 || needs_flush (w_ents (ws_world sn)) then (ws_world so, old_caps)
                     else (wf, caps_after u 0 None 0 false (ws_world so) wf old_caps)
        | Panic _ => (ws_world so, old_caps)
        end in
      set_caps st'' (updN (e_caps st'') w (caps_after u opc ri rn batch_new mid_w (ws_world sn) mid_caps))
  | _, _ => st''
  end.

Lemma caps_post_eq st st' opc0 wi args0 :
  caps_post st st' opc0 (wi :: args0) =
  let args := if N.eqb opc0 18 || N.eqb opc0 19 then tl args0 else args0 in
  let opc := if N.eqb opc0 18 then 14 else if N.eqb opc0 19 then 15 else opc0 in
  if (N.leb 1 opc && N.leb opc 17) || N.eqb opc 24 || N.eqb opc 25 || N.eqb opc 53 || N.eqb opc 54 || N.eqb opc 64 then
    let target := if N.eqb opc 53 || N.eqb opc 54 || N.eqb opc 64 then match args with x :: _ => x | [] => 0 end else wi in
    if N.eqb opc 8 then caps_upd st st' opc wi args (caps_upd st st' opc wi args st' 0) 1
    else caps_upd st st' opc wi args st' target
  else st'.
Proof. reflexivity. Qed.

Lemma caps_upd_core st st' opc wi args s w : same_core s (caps_upd st st' opc wi args s w).
Proof.
  unfold caps_upd. cbv zeta.
  destruct (nthN (e_ws st) w) as [so|]; [|apply core_refl].
  destruct (nthN (e_ws st') w) as [sn|]; [|apply core_refl].
  destruct (if N.eqb w wi then _ else _) as [ri rn].
  destruct (match w_flush (ws_world so) with Done _ => _ | Panic _ => _ end) as [mid_w mid_caps].
  repeat split.
Qed.

Lemma caps_post_core st st' opc l : same_core st' (caps_post st st' opc l).
Proof.
  destruct l as [|wi args]; [apply core_refl|]. rewrite caps_post_eq. cbv zeta.
  match goal with |- same_core _ (if ?c then _ else _) => destruct c end; [|apply core_refl].
  match goal with |- same_core _ (if ?c then _ else _) => destruct c end.
  - eapply core_trans; apply caps_upd_core.
  - apply caps_upd_core.
Qed.

Theorem caps_post_worlds_proof : caps_post_worlds_stmt.
Proof. intros st st' opc l. destruct (caps_post_core st st' opc l) as (A & B & _). auto. Qed.

(* ============================================================================================== *)
(** * 8. The initial state *)

Theorem interp_initial_proof : interp_initial_stmt.
Proof.
  intros u i s Hs H0. cbn [e_ws e_u] in *.
  assert (E : ws_world s = world_new).
  { destruct (N.eq_dec i 0) as [->|Hi]; [cbn [nthN N.eqb] in Hs; injection Hs as <-; reflexivity|].
    destruct (N.eq_dec i 1) as [->|Hi1]; [cbn [nthN N.eqb N.pred Pos.pred_N] in Hs; injection Hs as <-; reflexivity|].
    apply nthN_Some_lt in Hs. cbn [lenN] in Hs. lia. }
  rewrite E. apply world_new_inv_proof.
Qed.

Definition est_init (u : universe) : est :=
  {| e_u := u; e_ws := [{| ws_world := world_new; ws_state := 0 |}; {| ws_world := world_new; ws_state := 0 |}];
     e_handles := []; e_prep := []; e_k := conts_new; e_guards := []; e_cells := [[]; []]; e_caps := [[0]; [0]] |}.

Lemma est_init_wf u : est_wf (est_init u).
Proof. split; [constructor|apply kwf_conts_new]. Qed.

(* ============================================================================================== *)
(** * 9. Whole scripts *)

Lemma script_states_head fuel st l : exists t, script_states fuel st l = st :: t.
Proof.
  destruct fuel as [|f]; cbn [script_states]; [eauto|]. destruct l as [|opc r]; [eauto|].
  destruct (exec_op st opc r) as [[st' rest] obs]. eauto.
Qed.

Lemma est_fits_core st st' : same_core st st' -> est_fits st' -> est_fits st.
Proof. intros (_ & A & _) H i s Hs. apply (H i s). rewrite A. exact Hs. Qed.

Lemma script_inv_gen (J : est -> Prop) :
  (forall st opc l st' rest obs, J st -> est_fits st -> exec_op st opc l = (st', rest, obs) -> est_fits st' -> J st') ->
  (forall st st', same_core st st' -> J st -> J st') ->
  (forall st, J st -> est_inv st) ->
  forall fuel st l, J st ->
    Forall est_fits (script_states fuel st l) -> Forall est_inv (script_states fuel st l).
Proof.
  intros Hstep Hcore Hinv. induction fuel as [|f IH]; intros st l Hj Hf; cbn [script_states] in *.
  - constructor; [apply Hinv; exact Hj|constructor].
  - destruct l as [|opc r]; [constructor; [apply Hinv; exact Hj|constructor]|].
    destruct (exec_op st opc r) as [[st' rest] obs] eqn:E.
    inversion Hf as [|x t Fst Ftl]; subst. constructor; [apply Hinv; exact Hj|].
    destruct (script_states_head f (caps_post st st' opc r) rest) as (t & Et).
    assert (Fc : est_fits (caps_post st st' opc r)) by (rewrite Et in Ftl; inversion Ftl; assumption).
    pose proof (caps_post_core st st' opc r) as C.
    apply IH; [|exact Ftl]. apply (Hcore st'); [exact C|].
    eapply Hstep; try eassumption. eapply est_fits_core; eassumption.
Qed.

(** [interp_inv_stmt] follows from [interp_step_inv_stmt] (both are false; see section 10) *)
Theorem interp_inv_from_step : interp_step_inv_stmt -> interp_inv_stmt.
Proof.
  intros Hs fuel st script T I Hf.
  apply (script_inv_gen (fun s => total_inj (e_u s) /\ est_inv s)); auto.
  - intros s opc l s' rest obs (T1 & I1) F1 E F1'. destruct (Hs s opc l s' rest obs T1 I1 F1 E F1') as (A & B).
    split; [rewrite B; exact T1|exact A].
  - intros s s' (A & B & _) (T1 & I1). split; [rewrite A; exact T1|].
    intros i sl Hsl H0. rewrite A. rewrite B in Hsl. apply (I1 i sl Hsl H0).
  - intros s (_ & I1). exact I1.
Qed.

(** the closest true statement to [interp_inv_stmt]: the starting state is well formed *)
Theorem interp_inv_wf :
  forall fuel st script,
    total_inj (e_u st) -> est_wf st -> est_inv st ->
    Forall est_fits (script_states fuel st script) ->
    Forall est_inv (script_states fuel st script).
Proof.
  intros fuel st script T W I Hf.
  apply (script_inv_gen (fun s => total_inj (e_u s) /\ est_inv s /\ est_wf s)); auto.
  - intros s opc l s' rest obs (T1 & I1 & W1) F1 E F1'.
    destruct (interp_step_post s opc l s' rest obs T1 I1 F1 W1 E F1') as (A & B & C).
    split; [rewrite B; exact T1|auto].
  - intros s s' C (T1 & I1 & W1). destruct (post_core s s' I1 W1 C) as (A & B & D).
    split; [rewrite B; exact T1|auto].
  - intros s (_ & I1 & _). exact I1.
Qed.

(** every script, every fuel, from the initial state of run_world: every state the interpreter goes
    through satisfies the invariant while the id space lasts *)
Theorem interp_run_inv :
  forall u fuel script, total_inj u ->
    Forall est_fits (script_states fuel (est_init u) script) ->
    Forall est_inv (script_states fuel (est_init u) script).
Proof.
  intros u fuel script T Hf. apply interp_inv_wf; auto.
  - apply est_init_wf.
  - apply interp_initial_proof.
Qed.

(* ============================================================================================== *)
(** * 10. Counterexample: [interp_step_inv_stmt] and [interp_inv_stmt] are false as stated *)

(* the empty universe: every type has alignment 1 and rank 1000 + t *)
Lemma nil_total_inj : total_inj [].
Proof.
  intros a b. unfold tcmp, info_of. replace (nthN (@nil tinfo) a) with (@None tinfo) by (destruct a; reflexivity).
  replace (nthN (@nil tinfo) b) with (@None tinfo) by (destruct b; reflexivity). cbn [ti_align ti_rank].
  rewrite N.compare_refl. intros H. apply N.compare_eq_iff in H. lia.
Qed.

Lemma est_fits_two st a b : e_ws st = [a; b] -> fits (ws_world a) -> fits (ws_world b) -> est_fits st.
Proof.
  intros E Fa Fb i s Hs _. rewrite E in Hs.
  destruct (N.eq_dec i 0) as [->|Hi]; [cbn [nthN N.eqb] in Hs; injection Hs as <-; exact Fa|].
  destruct (N.eq_dec i 1) as [->|Hi1]; [cbn [nthN N.eqb N.pred Pos.pred_N] in Hs; injection Hs as <-; exact Fb|].
  apply nthN_Some_lt in Hs. cbn [lenN] in Hs. lia.
Qed.

Lemma fits_small w : lenN (meta (w_ents w)) <= 10 -> (0 <= cursor (w_ents w))%Z -> fits w.
Proof. unfold fits, SENT. lia. Qed.

(* An arbitrary state: est_inv says nothing about the handle table, so it may hold a handle with
   generation 0 (not a NonZeroU32); spawn_at (opcode 2) writes that generation into the entity table and
   wi_gen fails in a live world.  The container slots are well formed here: the [est_wf] clause on handles
   is what is missing from the statement. *)
Definition cexA_st : est :=
  {| e_u := []; e_ws := [{| ws_world := world_new; ws_state := 0 |}; {| ws_world := world_new; ws_state := 0 |}];
     e_handles := [{| e_id := 0; e_gen := 0 |}]; e_prep := []; e_k := conts_new; e_guards := []; e_cells := [[]; []];
     e_caps := [[0]; [0]] |}.
Definition cexA_args : list N := [0; 0; 0; 1; 0].
Definition cexA_st' : est := Eval vm_compute in fst (fst (exec_op cexA_st 2 cexA_args)).

Lemma cexA_inv : est_inv cexA_st.
Proof. exact (interp_initial_proof []). Qed.

Lemma cexA_fits : est_fits cexA_st.
Proof. eapply est_fits_two; [reflexivity| |]; apply fits_small; cbn; lia. Qed.

Lemma cexA_run : exec_op cexA_st 2 cexA_args = (cexA_st', [], [0; 0; 0]).
Proof. vm_compute. reflexivity. Qed.

Lemma cexA_fits' : est_fits cexA_st'.
Proof. eapply est_fits_two; [reflexivity| |]; apply fits_small; cbn; lia. Qed.

Lemma cexA_not_inv st : e_ws st = e_ws cexA_st' -> ~ est_inv st.
Proof.
  intros E I. specialize (I 0 _ ltac:(rewrite E; reflexivity) eq_refl). cbn [ws_world] in I.
  pose proof (wi_gen _ _ I {| m_gen := 0; m_loc := {| l_arch := 0; l_idx := 0 |} |}) as H.
  cbn [w_ents meta m_gen] in H. destruct H as (H & _); [left; reflexivity|lia].
Qed.

Theorem interp_step_handles_cex :
  total_inj (e_u cexA_st) /\ est_inv cexA_st /\ est_fits cexA_st /\ kwf (e_u cexA_st) (e_k cexA_st) /\
  exec_op cexA_st 2 cexA_args = (cexA_st', [], [0; 0; 0]) /\ est_fits cexA_st' /\ ~ est_inv cexA_st'.
Proof.
  split; [exact nil_total_inj|]. split; [exact cexA_inv|]. split; [exact cexA_fits|].
  split; [apply kwf_conts_new|]. split; [exact cexA_run|]. split; [exact cexA_fits'|].
  apply cexA_not_inv. reflexivity.
Qed.

Theorem interp_step_inv_stmt_false : ~ interp_step_inv_stmt.
Proof.
  intros H.
  destruct (H cexA_st 2 cexA_args cexA_st' _ _ nil_total_inj cexA_inv cexA_fits cexA_run cexA_fits') as (I & _).
  exact (cexA_not_inv _ eq_refl I).
Qed.

Theorem interp_inv_stmt_false : ~ interp_inv_stmt.
Proof.
  intros H. specialize (H 1%nat cexA_st (2 :: cexA_args) nil_total_inj cexA_inv).
  cbn [script_states] in H. rewrite cexA_run in H.
  destruct (caps_post_core cexA_st cexA_st' 2 cexA_args) as (_ & Ew & _).
  assert (Hf : Forall est_fits [cexA_st; caps_post cexA_st cexA_st' 2 cexA_args]).
  { constructor; [exact cexA_fits|]. constructor; [|constructor].
    eapply est_fits_core; [|exact cexA_fits']. repeat split; symmetry; apply caps_post_core. }
  specialize (H Hf). inversion H as [|x t _ Ht]; subst. inversion Ht as [|y t' I _]; subst.
  exact (cexA_not_inv _ Ew I).
Qed.

Print Assumptions interp_step_inv_wf.
Print Assumptions interp_inv_wf.
Print Assumptions interp_run_inv.
Print Assumptions caps_post_worlds_proof.
Print Assumptions interp_initial_proof.
Print Assumptions interp_inv_from_step.
Print Assumptions interp_step_inv_stmt_false.
Print Assumptions interp_inv_stmt_false.
Print Assumptions interp_step_handles_cex.

(* the statements of the two main theorems, as named propositions for the property files *)
Definition interp_step_inv_wf_stmt : Prop :=
  forall st opc l st' rest obs, total_inj (e_u st) -> est_wf st -> est_inv st -> est_fits st ->
    exec_op st opc l = (st', rest, obs) -> est_fits st' -> est_inv st' /\ est_wf st' /\ e_u st' = e_u st.
Definition interp_run_inv_stmt : Prop :=
  forall u fuel script, total_inj u ->
    Forall est_fits (script_states fuel (est_init u) script) -> Forall est_inv (script_states fuel (est_init u) script).
Theorem interp_step_inv_wf_proof : interp_step_inv_wf_stmt. Proof. exact interp_step_inv_wf. Qed.
Theorem interp_run_inv_proof : interp_run_inv_stmt. Proof. exact interp_run_inv. Qed.
