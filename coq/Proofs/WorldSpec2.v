(* Corollaries of the refinement theorems: conservation of component values (C03, world part),
   order/representation/history independence (C10), failure atomicity (C09).  Statements only. *)
From Coq Require Import List NArith ZArith Bool Lia Permutation.
From HecsV Require Import Base.ListN Base.ListNFacts Model.EntityBits Model.Types Model.Entities Model.World.
From HecsV Require Import Proofs.WorldSpec.
Import ListNotations.
Open Scope N_scope.

(* every component value currently stored in the world *)
Definition stored (w : world) : comps :=
  concat (map (fun a => concat (map r_vals (a_rows a))) (w_archs w)).

(* ---- C03 (world part): each operation conserves the multiset of values: what was stored plus what
   was given equals what is stored afterwards plus what was handed back plus what was dropped ---- *)
Definition c03_flush_stmt : Prop :=
  forall u w w', WInv u w -> fits w -> w_flush w = Done w' -> Permutation (stored w') (stored w).

Definition c03_spawn_stmt : Prop :=
  forall u w b w' h, total_inj u -> WInv u w -> fits w -> bundle_ok b ->
    w_spawn u w b = Done (w', h) -> fits w' -> Permutation (stored w') (stored w ++ b_items b).

Definition c03_despawn_stmt : Prop :=
  forall u w h w' r, WInv u w -> fits w -> w_despawn w h = Done (w', r) ->
    match r with
    | WOk d => Permutation (stored w) (stored w' ++ d)
    | _ => Permutation (stored w) (stored w')
    end.

Definition c03_take_drop_stmt : Prop :=
  forall u w h w' r, WInv u w -> fits w -> w_take_drop w h = Done (w', r) ->
    match r with
    | WOk d => Permutation (stored w) (stored w' ++ d)
    | _ => Permutation (stored w) (stored w')
    end.

Definition c03_insert_stmt : Prop :=
  forall u w h b w' r, total_inj u -> WInv u w -> fits w -> bundle_ok b ->
    w_insert u w h b = Done (w', r) ->
    match r with
    | WOk d => Permutation (stored w ++ b_items b) (stored w' ++ d)
    | _ => Permutation (stored w) (stored w')       (* the rejected bundle is dropped by its owner *)
    end.

Definition c03_remove_stmt : Prop :=
  forall u w h key ts w' r, total_inj u -> WInv u w -> fits w -> NoDup ts -> tl key = ts ->
    w_remove u w h key ts = Done (w', r) ->
    match r with
    | WOk taken => Permutation (stored w) (stored w' ++ taken)
    | _ => Permutation (stored w) (stored w')
    end.

Definition c03_exchange_stmt : Prop :=
  forall u w h key ts b w' r, total_inj u -> WInv u w -> fits w -> NoDup ts -> tl key = ts -> bundle_ok b ->
    w_exchange u w h key ts b = Done (w', r) ->
    match r with
    | WOk (taken, d) => Permutation (stored w ++ b_items b) (stored w' ++ taken ++ d)
    | _ => Permutation (stored w) (stored w')
    end.

Definition c03_spawn_at_stmt : Prop :=
  forall u w h b w' d, total_inj u -> WInv u w -> fits w -> bundle_ok b -> valid_entity h ->
    w_spawn_at u w h b = Done (w', d) -> fits w' ->
    Permutation (stored w ++ b_items b) (stored w' ++ d).

Definition c03_column_batch_stmt : Prop :=
  forall u w types vals w' hs, total_inj u -> WInv u w -> fits w ->
    assert_type_info u types = 0 -> (forall v, In v vals -> map fst v = types) ->
    w_spawn_column_batch w types vals = Done (w', hs) -> fits w' ->
    Permutation (stored w') (stored w ++ concat vals).

Definition c03_clear_stmt : Prop :=
  forall w w' d, w_clear w = (w', d) -> d = stored w /\ stored w' = [].

(* ---- C10: the outcome depends on the component set only ---- *)
(* two bundles with the same components (any field order, any representation/key) spawn the same
   handle and make every handle denote exactly the same component list - in particular the new
   entity's row has the same column layout, i.e. it is stored in the archetype of that type set *)
Definition c10_spawn_order_stmt : Prop :=
  forall u w b1 b2 w1 h1 w2 h2, total_inj u -> WInv u w -> fits w -> bundle_ok b1 -> bundle_ok b2 ->
    Permutation (b_items b1) (b_items b2) ->
    w_spawn u w b1 = Done (w1, h1) -> w_spawn u w b2 = Done (w2, h2) -> fits w1 -> fits w2 ->
    h1 = h2 /\ (forall h, abs w1 h = abs w2 h).

Definition c10_insert_order_stmt : Prop :=
  forall u w h b1 b2 w1 r1 w2 r2, total_inj u -> WInv u w -> fits w -> bundle_ok b1 -> bundle_ok b2 ->
    Permutation (b_items b1) (b_items b2) ->
    w_insert u w h b1 = Done (w1, r1) -> w_insert u w h b2 = Done (w2, r2) ->
    (forall h', abs w1 h' = abs w2 h') /\
    match r1, r2 with
    | WOk d1, WOk d2 => Permutation d1 d2
    | WNoSuchEntity, WNoSuchEntity => True
    | _, _ => False
    end.

(* history independence: two worlds (whatever archetypes exist and whatever their memo tables hold)
   in which the handle denotes the same components react identically to insert / remove / exchange *)
Definition c10_insert_history_stmt : Prop :=
  forall u wa wb h b wa' ra wb' rb, total_inj u -> WInv u wa -> WInv u wb -> fits wa -> fits wb -> bundle_ok b ->
    abs wa h = abs wb h ->
    w_insert u wa h b = Done (wa', ra) -> w_insert u wb h b = Done (wb', rb) ->
    abs wa' h = abs wb' h /\
    match ra, rb with
    | WOk d1, WOk d2 => Permutation d1 d2
    | WNoSuchEntity, WNoSuchEntity => True
    | _, _ => False
    end.

Definition c10_remove_history_stmt : Prop :=
  forall u wa wb h key ts wa' ra wb' rb, total_inj u -> WInv u wa -> WInv u wb -> fits wa -> fits wb ->
    NoDup ts -> tl key = ts -> abs wa h = abs wb h ->
    w_remove u wa h key ts = Done (wa', ra) -> w_remove u wb h key ts = Done (wb', rb) ->
    abs wa' h = abs wb' h /\
    match ra, rb with
    | WOk t1, WOk t2 => t1 = t2
    | WNoSuchEntity, WNoSuchEntity => True
    | WMissing, WMissing => True
    | _, _ => False
    end.

Definition c10_exchange_history_stmt : Prop :=
  forall u wa wb h key ts b wa' ra wb' rb, total_inj u -> WInv u wa -> WInv u wb -> fits wa -> fits wb ->
    NoDup ts -> tl key = ts -> bundle_ok b -> abs wa h = abs wb h ->
    w_exchange u wa h key ts b = Done (wa', ra) -> w_exchange u wb h key ts b = Done (wb', rb) ->
    abs wa' h = abs wb' h /\
    match ra, rb with
    | WOk (t1, d1), WOk (t2, d2) => t1 = t2 /\ Permutation d1 d2
    | WNoSuchEntity, WNoSuchEntity => True
    | WMissing, WMissing => True
    | _, _ => False
    end.

(* ---- C09: an operation that reports an error leaves what every handle denotes unchanged, stores
   exactly the same values, and reports the error exactly when the map semantics say so ---- *)
Definition c09_insert_error_stmt : Prop :=
  forall u w h b w' r, total_inj u -> WInv u w -> fits w -> bundle_ok b -> w_insert u w h b = Done (w', r) ->
    (r = WNoSuchEntity <-> abs w h = None) /\
    (r = WNoSuchEntity -> (forall h', abs w' h' = abs w h') /\ Permutation (stored w') (stored w)).

Definition c09_remove_error_stmt : Prop :=
  forall u w h key ts w' r, total_inj u -> WInv u w -> fits w -> NoDup ts -> tl key = ts ->
    w_remove u w h key ts = Done (w', r) ->
    (r = WNoSuchEntity <-> abs w h = None) /\
    (r = WMissing <-> exists old, abs w h = Some old /\ exists t, In t ts /\ lookup_first t old = None) /\
    ((r = WNoSuchEntity \/ r = WMissing) -> (forall h', abs w' h' = abs w h') /\ Permutation (stored w') (stored w)).

Definition c09_exchange_error_stmt : Prop :=
  forall u w h key ts b w' r, total_inj u -> WInv u w -> fits w -> NoDup ts -> tl key = ts -> bundle_ok b ->
    w_exchange u w h key ts b = Done (w', r) ->
    (r = WNoSuchEntity <-> abs w h = None) /\
    (r = WMissing <-> exists old, abs w h = Some old /\ exists t, In t ts /\ lookup_first t old = None) /\
    ((r = WNoSuchEntity \/ r = WMissing) -> (forall h', abs w' h' = abs w h') /\ Permutation (stored w') (stored w)).

Definition c09_despawn_error_stmt : Prop :=
  forall u w h w' r, WInv u w -> fits w -> w_despawn w h = Done (w', r) ->
    (r = WNoSuchEntity <-> abs w h = None) /\
    (r = WNoSuchEntity -> (forall h', abs w' h' = abs w h') /\ Permutation (stored w') (stored w)).

(* read accessors report NoSuchEntity / MissingComponent exactly per the map semantics (they do not
   change the world at all: they are functions of it) *)
Definition c09_get_error_stmt : Prop :=
  forall u w h t, WInv u w ->
    (w_get w h t = [0] <-> abs w h = None) /\
    (w_get w h t = [1] <-> exists l, abs w h = Some l /\ lookup_first t l = None).
