(* c08_iter_nofits_stmt and c08_view_nofits_stmt are false as stated: WInv alone does not bound the number of
   rows of an archetype, so a world whose empty archetype has 2^32 rows satisfies WInv, and the
   entity stored in row number SENT = 2^32-1 (the "no row" placeholder index) is iterated but is
   neither located nor reachable through a view.  The world is far too large to evaluate, so the
   refutation is a proof rather than a vm_compute; [n] stays a variable until the very end. *)
From Coq Require Import List NArith ZArith Bool Lia ZifyBool ZifyNat ZifyN.
From HecsV Require Import Base.ListN Base.ListNFacts Model.EntityBits Model.Types Model.Entities Model.World Model.Query.
From HecsV Require Import Proofs.WorldSpec Proofs.QuerySpec Proofs.QueryProofs.
Import ListNotations.
Open Scope N_scope.

Lemma seqN_0 a : seqN a 0 = [].
Proof. reflexivity. Qed.

Lemma seqN_succ a n : seqN a (N.succ n) = a :: seqN (N.succ a) n.
Proof.
  unfold seqN.
  rewrite (N.recursion_succ (@eq (N -> list N))); [reflexivity|reflexivity|].
  intros x y -> f g ->. reflexivity.
Qed.

Lemma lenN_seqN n : forall a, lenN (seqN a n) = n.
Proof.
  induction n as [|n IH] using N.peano_ind; intros a; [reflexivity|].
  rewrite seqN_succ. cbn [lenN]. rewrite IH. reflexivity.
Qed.

Lemma nthN_seqN n : forall a i, nthN (seqN a n) i = if N.ltb i n then Some (a + i) else None.
Proof.
  induction n as [|n IH] using N.peano_ind; intros a i.
  - rewrite seqN_0. destruct (N.ltb_spec i 0); [lia|reflexivity].
  - rewrite seqN_succ, nthN_cons. destruct (N.eqb_spec i 0) as [->|Hi].
    + destruct (N.ltb_spec 0 (N.succ n)); [|lia]. f_equal. lia.
    + rewrite IH. destruct (N.ltb_spec (N.pred i) n); destruct (N.ltb_spec i (N.succ n)); try lia; [|reflexivity].
      f_equal. lia.
Qed.

Definition gmeta (n : N) : list emeta :=
  map (fun i => {| m_gen := 1; m_loc := {| l_arch := 0; l_idx := i |} |}) (seqN 0 (N.succ n)).
Definition grows_ (n : N) : list row :=
  map (fun i => {| r_id := i; r_vals := [] |}) (seqN 0 (N.succ n)).
Definition garch (n : N) : arch := {| a_types := []; a_rows := grows_ n |}.
Definition gw (n : N) : world :=
  {| w_ents := {| meta := gmeta n; pending := [n]; cursor := 1%Z; elen := N.succ n |};
     w_archs := [garch n]; w_index := [([], 0)]; w_b2a := []; w_ins := []; w_rem := [] |}.

Lemma nthN_gmeta n id :
  nthN (gmeta n) id =
  if N.ltb id (N.succ n) then Some {| m_gen := 1; m_loc := {| l_arch := 0; l_idx := id |} |} else None.
Proof. unfold gmeta. rewrite nthN_map, nthN_seqN. destruct (N.ltb id (N.succ n)); reflexivity. Qed.

Lemma nthN_grows n i :
  nthN (grows_ n) i = if N.ltb i (N.succ n) then Some {| r_id := i; r_vals := [] |} else None.
Proof. unfold grows_. rewrite nthN_map, nthN_seqN. destruct (N.ltb i (N.succ n)); reflexivity. Qed.

Lemma nthN_garchs n ai a : nthN [garch n] ai = Some a -> ai = 0 /\ a = garch n.
Proof.
  rewrite nthN_cons. destruct (N.eqb_spec ai 0) as [->|H]; [intros [= <-]; split; reflexivity|].
  rewrite nthN_nil. discriminate.
Qed.

Lemma gw_inv u n : n = SENT -> WInv u (gw n).
Proof.
  intros Hn. constructor; cbn [gw w_ents w_archs w_index w_b2a w_ins w_rem meta pending cursor elen].
  - constructor; [intros []|constructor].
  - intros id [<-|[]]. unfold gmeta. rewrite lenN_map, lenN_seqN. lia.
  - cbn [lenN]. lia.
  - intros m Hm. unfold gmeta in Hm. apply in_map_iff in Hm. destruct Hm as (i & <- & _).
    cbn [m_gen]. unfold W32. lia.
  - intros id m. rewrite nthN_gmeta. destruct (N.ltb_spec id (N.succ n)) as [Hlt|]; [|discriminate].
    intros [= <-]. cbn [m_loc l_arch l_idx]. destruct (N.eq_dec id n) as [->|Hne].
    + left. split; [left; reflexivity|]. rewrite Hn. reflexivity.
    + right. split; [intros [E|[]]; congruence|]. split; [congruence|].
      exists (garch n), {| r_id := id; r_vals := [] |}. split; [reflexivity|]. split; [|reflexivity].
      cbn [garch a_rows]. rewrite nthN_grows. destruct (N.ltb_spec id (N.succ n)); [reflexivity|lia].
  - intros ai a i r Ha. apply nthN_garchs in Ha. destruct Ha as [-> ->]. cbn [garch a_rows].
    rewrite nthN_grows. destruct (N.ltb_spec i (N.succ n)) as [Hlt|]; [|discriminate]. intros [= <-].
    cbn [r_id]. eexists. rewrite nthN_gmeta. destruct (N.ltb_spec i (N.succ n)); [|lia].
    split; reflexivity.
  - cbn [sumf garch a_rows]. unfold grows_. rewrite lenN_map, lenN_seqN. lia.
  - exists (grows_ n). reflexivity.
  - intros a [<-|[]]. reflexivity.
  - intros a r [<-|[]]. cbn [garch a_rows a_types]. unfold grows_. intros Hr.
    apply in_map_iff in Hr. destruct Hr as (i & <- & _). reflexivity.
  - intros i a Ha. apply nthN_garchs in Ha. destruct Ha as [-> ->]. reflexivity.
  - intros k i. cbn [assoc_list]. destruct k as [|x k]; cbn [list_eqb]; [|discriminate].
    intros [= <-]. exists (garch n). split; reflexivity.
  - intros k a. cbn [assoc_list]. discriminate.
  - intros src k t. cbn [assoc_pair]. discriminate.
  - intros src k i. cbn [assoc_pair]. discriminate.
Qed.

(* the entity in row n is produced by iteration *)
Lemma gw_iterated n : In (handle_of (gw n) n, ITup []) (query_iter (gw n) (QTup [])).
Proof.
  apply In_query_iter. exists 0, (garch n), n, {| r_id := n; r_vals := [] |}, (STup []).
  split; [reflexivity|]. split; [|repeat split; reflexivity].
  cbn [garch a_rows]. rewrite nthN_grows. destruct (N.ltb_spec n (N.succ n)); [reflexivity|lia].
Qed.

Lemma gw_meta_n n : nthN (meta (w_ents (gw n))) n = Some {| m_gen := 1; m_loc := {| l_arch := 0; l_idx := n |} |}.
Proof. cbn [gw w_ents meta]. rewrite nthN_gmeta. destruct (N.ltb_spec n (N.succ n)); [reflexivity|lia]. Qed.

Lemma gw_not_located n : n = SENT -> ~ located (gw n) (handle_of (gw n) n).
Proof.
  intros Hn H. apply H. unfold get_mut. cbn [handle_of e_id e_gen]. rewrite gw_meta_n.
  cbn [m_gen m_loc l_idx]. rewrite (proj2 (N.eqb_eq n SENT) Hn). cbn [negb]. rewrite andb_false_r. reflexivity.
Qed.

Lemma gw_view_none n : n = SENT -> view_get (gw n) (QTup []) (handle_of (gw n) n) = None.
Proof.
  intros Hn. unfold view_get. cbn [handle_of e_id e_gen]. rewrite gw_meta_n.
  cbn [m_gen m_loc l_idx]. rewrite (proj2 (N.eqb_eq n SENT) Hn), orb_true_r. reflexivity.
Qed.

Theorem c08_iter_nofits_stmt_false : ~ c08_iter_nofits_stmt.
Proof.
  intros H. destruct (H [] (gw SENT) (QTup []) (gw_inv [] SENT eq_refl)) as (_ & H2 & _).
  destruct (proj1 (H2 _ _) (gw_iterated SENT)) as (l & Hloc & _).
  exact (gw_not_located SENT eq_refl Hloc).
Qed.

Theorem c08_view_nofits_stmt_false : ~ c08_view_nofits_stmt.
Proof.
  intros H.
  pose proof (proj2 (H [] (gw SENT) (QTup []) _ _ (gw_inv [] SENT eq_refl)) (gw_iterated SENT)) as E.
  rewrite (gw_view_none SENT eq_refl) in E. discriminate.
Qed.

Print Assumptions c08_iter_nofits_stmt_false.
Print Assumptions c08_view_nofits_stmt_false.
