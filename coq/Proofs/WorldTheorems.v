(* Composition of the per-operation refinement theorems *)
From Coq Require Import List NArith.
From HecsV Require Import Proofs.WorldSpec Proofs.WorldProofs1 Proofs.WorldProofs2 Proofs.WorldProofs3 Proofs.WorldProofs4.

Theorem reachable_inv_proof : reachable_inv_stmt.
Proof.
  exact (reachable_inv_from_ops spawn_refines_proof spawn_at_refines_proof insert_refines_proof
           remove_refines_proof exchange_refines_proof column_batch_refines_proof).
Qed.
Print Assumptions reachable_inv_proof.
